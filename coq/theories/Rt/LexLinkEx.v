(* Non-vacuity of Rt/LexLink.v, the unrestricted statement, and refutations for the classes lex_safe_doc excludes. *)
From OV Require Import Base.Strs Lex.Lexer Syn.Ast Syn.Escape Syn.Quote Syn.Emitter Syn.Parser
     Rt.TokRound Rt.TokRoundEx Rt.LexLinkBase Rt.LexLinkSteps Rt.LexLink.
Require Coq.Strings.String.
Import Coq.Strings.String.StringSyntax.
Open Scope N_scope.

(* ---- (3) non-vacuity --------------------------------------------------------------------------------------------- *)
Example ex_doc_lex_safe : lex_safe_doc ex_doc = true.
Proof. vm_compute. reflexivity. Qed.

(* depth 4, every scalar kind, negative / decimal / exponent numbers, a string with every escaped character, an always-quote key
   whose value would otherwise be emitted bare, keys that start like the sentinel / a version / a keyword *)
Definition ex_doc2 : doc :=
  mkDoc (lit "ENDING_1") (Some (lit "6.0.0.1")) None false []
    [ NBlock (lit "OCTAVE") None
        [ NAssign (lit "v1") (VNum false (lit "-12")) [] None;
          NAssign (lit "trueish") (VNum true (lit "-0.50")) [] None;
          NBlock (lit "_n") None
            [ NAssign (lit "PATTERN") (VStr (lit "abc")) [] None;
              NBlock (lit "null_") None
                [ NAssign (lit "S") (VStr [34; 92; 92; 10; 9; 96; 96; 96; 32; 233]) [] None;
                  NAssign (lit "S2") (VStr [c_bs; c_n; c_bs; c_t; c_bs; c_bs; c_n]) [] None;
                  NAssign (lit "T") (VBool true) [] None;
                  NAssign (lit "F") (VBool false) [] None;
                  NAssign (lit "N") VNull [] None ] [] ] [];
          NAssign (lit "vsx") (VStr (lit "true")) [] None ] [];
      NAssign (lit "Z9") (VNum false (lit "007")) [] None;
      NAssign (lit "E1") (VNum true (lit "1e+16")) [] None;
      NAssign (lit "E2") (VNum true (lit "-1.5E-07")) [] None;
      NAssign (lit "e3") (VNum true (lit "2e5")) [] None ]
    [].

Example ex_doc2_core : core_doc ex_doc2 = true.
Proof. vm_compute. reflexivity. Qed.
Example ex_doc2_lex_safe : lex_safe_doc ex_doc2 = true.
Proof. vm_compute. reflexivity. Qed.

(* the theorem instantiated, and the same fact recomputed by evaluation of the model (consistency of the two routes) *)
Example ex_doc2_lexes :
  exists ts tnl teof,
    tokenize ex_cls false (lines_of (emit (fun _ => false) ex_doc2)) = LexOk (ts ++ [tnl; teof]) [] /\
    Forall2 tmatch ts (doc_sh ex_doc2) /\ tk tnl = NEWLINE /\ tk teof = EOF.
Proof. exact (lex_emit_core ex_cls (fun _ => false) ex_doc2 ex_doc2_core ex_doc2_lex_safe). Qed.

Example ex_doc2_lexes_computed :
  match tokenize ex_cls false (lines_of (emit (fun _ => false) ex_doc2)) with
  | LexOk toks reps => all2 tmatchb toks (doc_sh ex_doc2 ++ [(NEWLINE, None); (EOF, None)]) = true /\ reps = []
  | _ => False
  end.
Proof. vm_compute. split; reflexivity. Qed.

(* ---- regression for the repaired un-escape (repo 4b61c18): backslash directly before n / t ------------------------------ *)
(* these strings were excluded (escape_safe) while the lexer un-escaped with four sequential replaces; with the single-pass
   un-escape they satisfy lex_safe_doc and read back as themselves *)
Definition ex_doc3 : doc :=
  mkDoc (lit "ESC") None None true []
    [ NAssign (lit "A") (VStr [c_bs; c_n]) [] None;
      NBlock (lit "B") None
        [ NAssign (lit "C") (VStr [c_bs; c_t]) [] None;
          NBlock (lit "D") None [ NAssign (lit "E") (VStr [c_bs; c_bs; c_n]) [] None ] [] ] [] ]
    [].
Definition no_numcanon (raw : str) : option (bool * str) := None.

Example ex_doc3_core : core_doc ex_doc3 = true.
Proof. vm_compute. reflexivity. Qed.
Example ex_doc3_lex_safe : lex_safe_doc ex_doc3 = true.
Proof. vm_compute. reflexivity. Qed.
Example ex_doc3_nums : nums_ok_l no_numcanon (dsections ex_doc3).
Proof. cbn. repeat split. Qed.

(* via the theorems *)
Example ex_doc3_lexes :
  exists ts tnl teof,
    tokenize ex_cls false (lines_of (emit (fun _ => false) ex_doc3)) = LexOk (ts ++ [tnl; teof]) [] /\
    Forall2 tmatch ts (doc_sh ex_doc3) /\ tk tnl = NEWLINE /\ tk teof = EOF.
Proof. exact (lex_emit_core ex_cls (fun _ => false) ex_doc3 ex_doc3_core ex_doc3_lex_safe). Qed.
Example ex_doc3_roundtrip :
  exists warns, parse_model ex_cls no_numcanon (fun _ => false) true (lines_of (emit (fun _ => false) ex_doc3)) = PRDoc ex_doc3 [] warns /\
                Forall advisory warns.
Proof. exact (text_roundtrip_core ex_cls no_numcanon (fun _ => false) true (fun _ => false) ex_doc3 ex_doc3_core ex_doc3_lex_safe ex_doc3_nums). Qed.

(* and by evaluation of the model *)
Example ex_doc3_roundtrip_computed :
  parse_model ex_cls no_numcanon (fun _ => false) true (lines_of (emit (fun _ => false) ex_doc3)) = PRDoc ex_doc3 [] [].
Proof. vm_compute. reflexivity. Qed.
Example ex_doc3_lexes_computed :
  match tokenize ex_cls false (lines_of (emit (fun _ => false) ex_doc3)) with
  | LexOk toks reps => all2 tmatchb toks (doc_sh ex_doc3 ++ [(NEWLINE, None); (EOF, None)]) = true /\ reps = []
  | _ => False
  end.
Proof. vm_compute. split; reflexivity. Qed.

(* ---- the unrestricted statement and why the side condition is there --------------------------------------------------- *)
Definition lex_emit_core_concl (cls : N -> N) (sp : N -> bool) (d : doc) : Prop :=
  exists ts tnl teof,
    tokenize cls false (lines_of (emit sp d)) = LexOk (ts ++ [tnl; teof]) [] /\
    Forall2 tmatch ts (doc_sh d) /\ tk tnl = NEWLINE /\ tk teof = EOF.

Definition lex_emit_core_full : Prop :=
  forall cls sp d, core_doc d = true -> lex_emit_core_concl cls sp d.

(* a sound boolean test of "some prefix of toks matches shs" on kinds and text payloads *)
Definition vmatchb (t : token) (s : sh) : bool :=
  tkind_eqb (tk t) (fst s) &&
  match snd s with
  | Some (TVText a) => match tv t with TVText b => str_eqb a b | _ => false end
  | _ => true
  end.
Lemma tmatch_vmatchb t s : tmatch t s -> vmatchb t s = true.
Proof.
  intros [Hk Hv]. unfold vmatchb. rewrite Hk, tkeq_refl. cbn [andb].
  destruct (snd s) as [[a| | | | |]|]; try reflexivity. rewrite Hv. apply str_eqb_refl.
Qed.
Lemma F2_prefix ts shs tl : Forall2 tmatch ts shs -> all2 vmatchb (firstn (length shs) (ts ++ tl)) shs = true.
Proof.
  induction 1 as [|t s ts shs Hm _ IH]; [reflexivity|]. cbn [length app firstn all2]. rewrite (tmatch_vmatchb _ _ Hm), IH. reflexivity.
Qed.

Ltac refute_shape :=
  let ts := fresh "ts" in let tnl := fresh "tnl" in let teof := fresh "teof" in
  let H := fresh "H" in let HF := fresh "HF" in let K := fresh "K" in let H1 := fresh "H1" in
  intros (ts & tnl & teof & H & HF & _);
  pose proof (F2_prefix ts _ [tnl; teof] HF) as K;
  match type of H with ?L = _ => let R := fresh "R" in let ER := fresh "ER" in
    remember L as R eqn:ER; vm_compute in ER; subst R end;
  first [discriminate H | injection H as H1; rewrite <- H1 in K; vm_compute in K; discriminate K].

Definition doc1 (name key : str) (v : value) : doc := mkDoc name None None false [] [NAssign key v [] None] [].

(* a key that is exactly the keyword `vs` is lexed as the TENSION operator (and reported as an ASCII alias) *)
Lemma lex_emit_core_refuted_key_vs : exists d, core_doc d = true /\ lex_safe_doc d = false /\ ~ lex_emit_core_concl ex_cls (fun _ => false) d.
Proof. exists (doc1 (lit "D") (lit "vs") VNull). split; [reflexivity|]. split; [reflexivity|]. refute_shape. Qed.

(* a key that is exactly true / false / null is lexed as the literal *)
Lemma lex_emit_core_refuted_key_literal : exists d, core_doc d = true /\ lex_safe_doc d = false /\ ~ lex_emit_core_concl ex_cls (fun _ => false) d.
Proof. exists (doc1 (lit "D") (lit "true") VNull). split; [reflexivity|]. split; [reflexivity|]. refute_shape. Qed.

(* a wrong-case literal key (True, NULL, ...) is lexed as an identifier but reported as a repair: the repair list is not empty *)
Lemma lex_emit_core_refuted_key_wrong_case : exists d, core_doc d = true /\ lex_safe_doc d = false /\ ~ lex_emit_core_concl ex_cls (fun _ => false) d.
Proof.
  exists (doc1 (lit "D") (lit "True") VNull). split; [reflexivity|]. split; [reflexivity|].
  intros (ts & tnl & teof & H & _). remember (tokenize _ _ _) as R eqn:ER. vm_compute in ER. subst R. discriminate H.
Qed.

(* a key with an embedded `vs` (boundary_missing report): the repair list is not empty *)
Lemma lex_emit_core_refuted_key_vs_embedded : exists d, core_doc d = true /\ lex_safe_doc d = false /\ ~ lex_emit_core_concl ex_cls (fun _ => false) d.
Proof.
  exists (doc1 (lit "D") (lit "ENVS_A") VNull). split; [reflexivity|]. split; [reflexivity|].
  intros (ts & tnl & teof & H & _). remember (tokenize _ _ _) as R eqn:ER. vm_compute in ER. subst R. discriminate H.
Qed.

(* the document name END: `===END===` is the closing envelope *)
Lemma lex_emit_core_refuted_name_END : exists d, core_doc d = true /\ lex_safe_doc d = false /\ ~ lex_emit_core_concl ex_cls (fun _ => false) d.
Proof. exists (doc1 (lit "END") (lit "A") VNull). split; [reflexivity|]. split; [reflexivity|]. refute_shape. Qed.

(* a string the emitter writes bare is lexed as an IDENTIFIER token, which is outside the shape language of
   Rt.TokRound (sval_sh maps VStr to a STRING token): excluded by design of doc_sh, not a defect *)
Lemma lex_emit_core_refuted_bare_string : exists d, core_doc d = true /\ lex_safe_doc d = false /\ ~ lex_emit_core_concl ex_cls (fun _ => false) d.
Proof. exists (doc1 (lit "D") (lit "A") (VStr (lit "abc"))). split; [reflexivity|]. split; [reflexivity|]. refute_shape. Qed.

Theorem lex_emit_core_full_refuted : ~ lex_emit_core_full.
Proof.
  intros Hfull. destruct lex_emit_core_refuted_key_vs as (d & Hc & _ & Hn). apply Hn. apply Hfull. exact Hc.
Qed.
