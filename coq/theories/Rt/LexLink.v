(* Lexer half of the round trip for core documents, and the text-level round-trip theorem.

     lex_emit_core        : for every core document d with lex_safe_doc d, the model lexer reads the emitted text
                            `emit sp d` as a token list matching the shape doc_sh d, followed by NEWLINE and EOF,
                            with no repair -- at every nesting depth (nested induction over the document).
     text_roundtrip_core  : composed with Rt.TokRound.parse_core_doc: the full model (strip frontmatter, tokenize, parse)
                            reads `emit sp d` back as d, with no lexer repair and only advisory warnings.

   The side condition lex_safe_doc is decidable (a boolean); what it excludes is listed with refutations at the end. *)
From OV Require Import Base.Strs Gen.LexerGen Syn.Escape Syn.Quote Syn.Ast Syn.Emitter Syn.Parser
     Lex.Lexer Lex.Progress Rt.TokRound Rt.LexLinkBase Rt.LexLinkSteps.
From Coq Require Import Lia.
Open Scope N_scope.

(* ---- the side condition ------------------------------------------------------------------------------------------- *)
(* scalar values: null / booleans as emitted; numbers -?digits(.digits)?([eE][+-]?digits)?; strings that the emitter quotes
   (needs_quotes, or an always-quote key).  Since the single-pass un-escape (Syn/Escape.unescape_escape_all) every quoted
   string reads back, so there is no condition on the CONTENT of a string: the quoted-string scanner does not consult the
   oracle.  (For non-ASCII strings `lines_of` presupposes NFC-stable text: each line is paired with itself.) *)
Definition lex_safe_val (k : str) (v : value) : bool :=
  match v with
  | VNull => true
  | VBool _ => true
  | VNum _ c => num_ok c
  | VStr s => str_eqb (force_quote k (VStr s) (emit_str false s)) (quote s)
  | _ => false
  end.

Fixpoint lex_safe_node (n : node) : bool :=
  match n with
  | NAssign k v _ _ => key_ok k && lex_safe_val k v
  | NBlock k _ ch _ => key_ok k && forallb lex_safe_node ch
  | _ => false
  end.

Definition lex_safe_doc (d : doc) : bool :=
  name_ok (dname d) &&
  (match dgrammar d with Some g => ver_ok g | None => true end) &&
  forallb lex_safe_node (dsections d).

(* convenient sufficient conditions for the string clause *)
Lemma quoted_if_needs_quotes k s : needs_quotes s = true -> force_quote k (VStr s) (emit_str false s) = quote s.
Proof.
  intros H. unfold emit_str. rewrite H. cbn [orb force_quote]. unfold quote at 1. cbn [prefixb].
  rewrite N.eqb_refl. cbn [negb andb]. rewrite andb_false_r. reflexivity.
Qed.
Lemma quoted_if_always_key k s : always_quote_key k = true -> prefixb [c_dq] s = false ->
  force_quote k (VStr s) (emit_str false s) = quote s.
Proof.
  intros Hk Hs. destruct (needs_quotes s) eqn:E; [apply quoted_if_needs_quotes; exact E|].
  unfold emit_str. rewrite E. cbn [orb force_quote]. rewrite Hk, Hs. reflexivity.
Qed.

Section Link.
Variable cls : N -> N.

(* ---- token-shape reachability ------------------------------------------------------------------------------------------ *)
Definition lexto (st : lstate) (shs : list sh) (st' : lstate) : Prop :=
  steps cls st st' /\ (exists ts, ls_toks st' = rev ts ++ ls_toks st /\ Forall2 tmatch ts shs) /\
  ls_reps st' = ls_reps st /\ ls_brk st' = ls_brk st /\ ls_spans st' = ls_spans st.

Lemma lexto_refl st : lexto st [] st.
Proof. split; [apply steps_refl|]. split; [exists []; split; [reflexivity|constructor]|]. repeat split. Qed.

Lemma lexto_trans a b c s1 s2 : lexto a s1 b -> lexto b s2 c -> lexto a (s1 ++ s2) c.
Proof.
  intros (S1 & (t1 & T1 & F1) & R1 & B1 & P1) (S2 & (t2 & T2 & F2) & R2 & B2 & P2).
  split; [eapply steps_trans; eassumption|]. split.
  - exists (t1 ++ t2). split; [rewrite T2, T1, rev_app_distr, app_assoc; reflexivity|apply Forall2_app; assumption].
  - repeat split; congruence.
Qed.

Lemma lexto_tstep st st' k v rest prev s :
  tstep cls st st' k v rest prev -> fst s = k -> (snd s = None \/ snd s = Some v) -> lexto st [s] st'.
Proof.
  intros (Hs & _ & _ & _ & (l & c & n & Ht) & Hr & Hb & Hp) Hk Hv.
  split; [apply steps_one; exact Hs|]. split; [|repeat split; assumption].
  exists [mkTok k v l c n]. split; [rewrite Ht; reflexivity|].
  constructor; [|constructor]. split; [cbn [tk]; congruence|]. destruct Hv as [->| ->]; [exact I|reflexivity].
Qed.

Lemma tstep_in st st' k v rest prev : tstep cls st st' k v rest prev -> ls_in st' = rest.
Proof. intros H; apply H. Qed.
Lemma tstep_prev st st' k v rest prev : tstep cls st st' k v rest prev -> ls_prev st' = prev.
Proof. intros H; apply H. Qed.
Lemma tstep_pos st st' k v rest prev : tstep cls st st' k v rest prev -> ls_pos st' <> 0.
Proof. intros H; apply H. Qed.
Lemma tstep_spans st st' k v rest prev : tstep cls st st' k v rest prev -> ls_spans st' = ls_spans st.
Proof. intros H; apply H. Qed.
Lemma lexto_spans st s st' : lexto st s st' -> ls_spans st' = ls_spans st.
Proof. intros H; apply H. Qed.

Definition ready (st : lstate) : Prop := ls_col st = 1 /\ ls_pos st <> 0 /\ ls_spans st = [].

(* ---- pieces of a line ---------------------------------------------------------------------------------------------------- *)
Lemma lex_indent D st x r : ls_in st = ind D ++ x :: r -> x <> c_sp -> x <> c_nl -> ready st ->
  exists st1, lexto st (indent_sh D) st1 /\ ls_in st1 = x :: r /\ ls_pos st1 <> 0.
Proof.
  intros Hin H1 H2 (Hc & Hp & Hs). destruct D as [|D'].
  - exists st. split; [apply lexto_refl|split; [exact Hin|exact Hp]].
  - assert (E : ind (S D') = repeat c_sp (S (2 * D' + 1))) by (unfold ind; f_equal; lia).
    rewrite E in Hin. destruct (T_indent cls st _ x r Hin H1 H2 Hc Hs) as (st1 & T).
    exists st1. split; [|split; [exact (tstep_in _ _ _ _ _ _ T)|exact (tstep_pos _ _ _ _ _ _ T)]].
    eapply lexto_tstep; [exact T|reflexivity|right]. cbn [indent_sh snd]. unfold ind_count. do 3 f_equal. lia.
Qed.

Lemma key_ok_hd k : key_ok k = true -> exists c k', k = c :: k' /\ key_start c = true.
Proof.
  unfold key_ok. intros H. apply andb_true_iff in H as [H _]. apply andb_true_iff in H as [H _]. apply andb_true_iff in H as [H _].
  destruct k as [|c k']; [discriminate|]. cbn [word_ok] in H. apply andb_true_iff in H as [H _]. exists c, k'. split; [reflexivity|exact H].
Qed.

(* indentation and key, up to the colon *)
Lemma lex_indent_key D k r st : key_ok k = true -> ls_in st = ind D ++ k ++ c_colon :: r -> ready st ->
  exists st2, lexto st (indent_sh D ++ [(IDENTIFIER, Some (TVText k))]) st2 /\ ls_in st2 = c_colon :: r /\
              ls_spans st2 = [].
Proof.
  intros Hk Hin Hr. destruct (key_ok_hd _ Hk) as (c & k' & Ek & Hc). apply key_start_range in Hc.
  assert (Hin' : ls_in st = ind D ++ c :: (k' ++ c_colon :: r)) by (rewrite Hin, Ek; reflexivity).
  destruct (lex_indent D st c _ Hin') as (st1 & L1 & I1 & P1); [chr|chr|exact Hr|].
  destruct Hr as (_ & _ & Hs).
  assert (S1 : ls_spans st1 = []) by (rewrite (lexto_spans _ _ _ L1); exact Hs).
  assert (I1' : ls_in st1 = k ++ c_colon :: r) by (rewrite I1, Ek; reflexivity).
  destruct (T_key cls st1 k r Hk I1' P1 S1) as (st2 & T2).
  exists st2. split; [|split; [exact (tstep_in _ _ _ _ _ _ T2)|rewrite (tstep_spans _ _ _ _ _ _ T2); exact S1]].
  eapply lexto_trans; [exact L1|]. eapply lexto_tstep; [exact T2|reflexivity|right; reflexivity].
Qed.

(* the emitted text of a scalar *)
Definition sval_text (sv : sval) : str :=
  match sv with
  | SNull => s_null_lit
  | SBool b => if b then s_true_lit else s_false_lit
  | SNum _ c => c
  | SStr s => quote s
  end.

Lemma value_text k v sv D : lex_safe_val k v = true -> sval_of v = Some sv ->
  force_quote k v (emit_value v D) = sval_text sv.
Proof.
  destruct v; cbn [sval_of]; intros Hs E; inversion E; subst; try reflexivity.
  cbn [lex_safe_val] in Hs. apply str_eqb_eq in Hs. exact Hs.
Qed.

Lemma lex_value k v sv st r : lex_safe_val k v = true -> sval_of v = Some sv ->
  ls_in st = sval_text sv ++ c_nl :: r -> ls_prev st = Some c_colon -> ls_spans st = [] ->
  exists st', lexto st [sval_sh sv] st' /\ ls_in st' = c_nl :: r.
Proof.
  intros Hs E Hin Hp Hsp.
  destruct v; cbn [sval_of] in E; inversion E; subst; cbn [sval_text sval_sh] in *.
  - destruct (T_null cls st r Hin Hp Hsp) as (st' & T). exists st'. split; [|exact (tstep_in _ _ _ _ _ _ T)].
    eapply lexto_tstep; [exact T|reflexivity|left; reflexivity].
  - destruct b.
    + destruct (T_true cls st r Hin Hp Hsp) as (st' & T). exists st'. split; [|exact (tstep_in _ _ _ _ _ _ T)].
      eapply lexto_tstep; [exact T|reflexivity|right; reflexivity].
    + destruct (T_false cls st r Hin Hp Hsp) as (st' & T). exists st'. split; [|exact (tstep_in _ _ _ _ _ _ T)].
      eapply lexto_tstep; [exact T|reflexivity|right; reflexivity].
  - cbn [lex_safe_val] in Hs. destruct (T_num cls st canon r Hs Hin Hsp) as (st' & T).
    exists st'. split; [|exact (tstep_in _ _ _ _ _ _ T)].
    eapply lexto_tstep; [exact T|reflexivity|right; reflexivity].
  - destruct (T_str cls st s r Hin Hsp) as (st' & T). exists st'. split; [|exact (tstep_in _ _ _ _ _ _ T)].
    eapply lexto_tstep; [exact T|reflexivity|right; reflexivity].
Qed.

Lemma lex_newline st r : ls_in st = c_nl :: r -> ls_spans st = [] ->
  exists st', lexto st [(NEWLINE, None)] st' /\ ls_in st' = r /\ ready st'.
Proof.
  intros Hin Hsp. destruct (T_nl cls st r Hin Hsp) as (st' & T & Hc).
  exists st'. split; [eapply lexto_tstep; [exact T|reflexivity|left; reflexivity]|].
  split; [exact (tstep_in _ _ _ _ _ _ T)|]. split; [exact Hc|]. split; [exact (tstep_pos _ _ _ _ _ _ T)|].
  rewrite (tstep_spans _ _ _ _ _ _ T). exact Hsp.
Qed.

(* ---- lines ------------------------------------------------------------------------------------------------------------------ *)
Lemma emit_assign_line k v sv D : sval_of v = Some sv ->
  emit_node_lines (NAssign k v [] None) D = [ind D ++ k ++ s_assign ++ force_quote k v (emit_value v D) ++ []].
Proof. destruct v; cbn [sval_of]; intros E; try discriminate E; reflexivity. Qed.

Lemma core_child_lines c D : core_node c = true ->
  match c with
  | NAssign [] (VZone content tag marker) _ _ => zone_lines (S D) content tag marker
  | _ => emit_node_lines c (S D)
  end = emit_node_lines c (S D).
Proof.
  destruct c as [k v l t| | |]; try reflexivity. cbn [core_node]. destruct l; [|discriminate]. destruct t; [discriminate|].
  destruct v; cbn [sval_of]; try discriminate; destruct k; reflexivity.
Qed.

Lemma emit_block_lines k ch D : forallb core_node ch = true ->
  emit_node_lines (NBlock k None ch []) D =
  (ind D ++ k ++ [] ++ [c_colon]) :: flat_map (fun c => emit_node_lines c (S D)) ch.
Proof.
  intros H. cbn [emit_node_lines emit_leading map app truthy]. f_equal.
  induction ch as [|c cs IH]; [reflexivity|]. cbn [forallb] in H. apply andb_true_iff in H as [H1 H2].
  cbn [flat_map]. rewrite (core_child_lines c D H1), (IH H2). reflexivity.
Qed.

Lemma lex_assign_line D k v sv st rest :
  key_ok k = true -> lex_safe_val k v = true -> sval_of v = Some sv ->
  ls_in st = unlines (emit_node_lines (NAssign k v [] None) D) ++ rest -> ready st ->
  exists st', lexto st (node_sh D (NAssign k v [] None)) st' /\ ls_in st' = rest /\ ready st'.
Proof.
  intros Hk Hv E Hin Hr.
  rewrite (emit_assign_line k v sv D E), (value_text k v sv D Hv E) in Hin.
  cbn [unlines flat_map] in Hin. rewrite app_nil_r in Hin. rewrite <- !app_assoc in Hin.
  change (s_assign ++ ?x) with (c_colon :: c_colon :: x) in Hin. cbn [app] in Hin.
  destruct (lex_indent_key D k _ st Hk Hin Hr) as (st2 & L2 & I2 & S2).
  destruct (T_assign cls st2 _ I2 S2) as (st3 & T3).
  assert (S3 : ls_spans st3 = []) by (rewrite (tstep_spans _ _ _ _ _ _ T3); exact S2).
  destruct (lex_value k v sv st3 rest Hv E (tstep_in _ _ _ _ _ _ T3) (tstep_prev _ _ _ _ _ _ T3) S3) as (st4 & L4 & I4).
  assert (S4 : ls_spans st4 = []) by (rewrite (lexto_spans _ _ _ L4); exact S3).
  destruct (lex_newline st4 rest I4 S4) as (st5 & L5 & I5 & R5).
  exists st5. split; [|split; assumption].
  cbn [node_sh]. rewrite E.
  change [(IDENTIFIER, Some (TVText k)); (ASSIGN, None); sval_sh sv; (NEWLINE, None)]
    with ([(IDENTIFIER, Some (TVText k))] ++ [(ASSIGN, None)] ++ [sval_sh sv] ++ [(NEWLINE, None)]).
  rewrite app_assoc. eapply lexto_trans; [exact L2|]. eapply lexto_trans; [|eapply lexto_trans; [exact L4|exact L5]].
  eapply lexto_tstep; [exact T3|reflexivity|left; reflexivity].
Qed.

Lemma lex_block_header D k st rest :
  key_ok k = true -> ls_in st = (ind D ++ k ++ [] ++ [c_colon]) ++ c_nl :: rest -> ready st ->
  exists st', lexto st (indent_sh D ++ [(IDENTIFIER, Some (TVText k)); (BLOCK, None); (NEWLINE, None)]) st' /\
              ls_in st' = rest /\ ready st'.
Proof.
  intros Hk Hin Hr. rewrite <- !app_assoc in Hin. cbn [app] in Hin.
  destruct (lex_indent_key D k _ st Hk Hin Hr) as (st2 & L2 & I2 & S2).
  destruct (T_block cls st2 _ I2 S2) as (st3 & T3).
  assert (S3 : ls_spans st3 = []) by (rewrite (tstep_spans _ _ _ _ _ _ T3); exact S2).
  destruct (lex_newline st3 rest (tstep_in _ _ _ _ _ _ T3) S3) as (st4 & L4 & I4 & R4).
  exists st4. split; [|split; assumption].
  change [(IDENTIFIER, Some (TVText k)); (BLOCK, None); (NEWLINE, None)]
    with ([(IDENTIFIER, Some (TVText k))] ++ [(BLOCK, None)] ++ [(NEWLINE, None)]).
  rewrite app_assoc. eapply lexto_trans; [exact L2|]. eapply lexto_trans; [|exact L4].
  eapply lexto_tstep; [exact T3|reflexivity|left; reflexivity].
Qed.

(* ---- nodes, at every depth ---------------------------------------------------------------------------------------------------- *)
Definition L_node (n : node) : Prop :=
  core_node n = true -> lex_safe_node n = true ->
  forall D st rest, ls_in st = unlines (emit_node_lines n D) ++ rest -> ready st ->
    exists st', lexto st (node_sh D n) st' /\ ls_in st' = rest /\ ready st'.

Lemma lex_nodes ch : Forall L_node ch -> forallb core_node ch = true -> forallb lex_safe_node ch = true ->
  forall D st rest, ls_in st = unlines (flat_map (fun c => emit_node_lines c D) ch) ++ rest -> ready st ->
    exists st', lexto st (nodes_sh D ch) st' /\ ls_in st' = rest /\ ready st'.
Proof.
  induction ch as [|c cs IH]; intros HP Hc Hs D st rest Hin Hr.
  - exists st. split; [apply lexto_refl|split; [exact Hin|exact Hr]].
  - inversion HP as [|? ? HPc HPcs]; subst.
    cbn [forallb] in Hc, Hs. apply andb_true_iff in Hc as [Hc1 Hc2]. apply andb_true_iff in Hs as [Hs1 Hs2].
    cbn [flat_map] in Hin. rewrite unlines_app, <- app_assoc in Hin.
    destruct (HPc Hc1 Hs1 D st _ Hin Hr) as (st1 & L1 & I1 & R1).
    destruct (IH HPcs Hc2 Hs2 D st1 rest I1 R1) as (st2 & L2 & I2 & R2).
    exists st2. split; [|split; assumption]. cbn [nodes_sh flat_map]. eapply lexto_trans; [exact L1|exact L2].
Qed.

Theorem all_L_node : forall n, L_node n.
Proof.
  apply node_ind2; unfold L_node.
  - intros k v l t Hc Hs D st rest Hin Hr. cbn [core_node] in Hc. destruct l; [|discriminate]. destruct t; [discriminate|].
    destruct (sval_of v) as [sv|] eqn:E; [|discriminate].
    cbn [lex_safe_node] in Hs. apply andb_true_iff in Hs as [Hk Hv].
    exact (lex_assign_line D k v sv st rest Hk Hv E Hin Hr).
  - intros k tg ch l IH Hc Hs D st rest Hin Hr. cbn [core_node] in Hc. destruct tg; [discriminate|]. destruct l; [|discriminate].
    apply andb_true_iff in Hc as [_ Hcc]. cbn [lex_safe_node] in Hs. apply andb_true_iff in Hs as [Hk Hss].
    rewrite (emit_block_lines k ch D Hcc), unlines_cons, <- app_assoc in Hin. cbn [app] in Hin.
    destruct (lex_block_header D k st _ Hk Hin Hr) as (st1 & L1 & I1 & R1).
    destruct (lex_nodes ch IH Hcc Hss (S D) st1 rest I1 R1) as (st2 & L2 & I2 & R2).
    exists st2. split; [|split; assumption]. rewrite node_sh_block, app_assoc. eapply lexto_trans; [exact L1|exact L2].
  - intros i k a ch l _ Hc; discriminate Hc.
  - intros t Hc; discriminate Hc.
Qed.

End Link.

(* ---- the pre-passes on emitted text: no fence line, no raw tab, lines are the emitted lines -------------------------------------- *)
Definition plain (s : str) : bool := negb (memb c_nl s) && negb (memb c_tab s).
Definition line_ok (l : str) : bool := plain l && fence_free l.

Lemma plain_app a b : plain (a ++ b) = plain a && plain b.
Proof. unfold plain. rewrite !memb_app. destruct (memb c_nl a), (memb c_nl b), (memb c_tab a), (memb c_tab b); reflexivity. Qed.
Lemma plain_cons c s : plain (c :: s) = negb (N.eqb c_nl c) && negb (N.eqb c_tab c) && plain s.
Proof. unfold plain, memb. cbn [existsb]. destruct (N.eqb c_nl c), (N.eqb c_tab c), (existsb (N.eqb c_nl) s), (existsb (N.eqb c_tab) s); reflexivity. Qed.
Lemma plain_forallb (p : N -> bool) s : (forall c, p c = true -> c <> c_nl /\ c <> c_tab) -> forallb p s = true -> plain s = true.
Proof.
  intros Hp. induction s as [|c s IH]; [reflexivity|]. cbn [forallb]. intros H. apply andb_true_iff in H as [H1 H2].
  rewrite plain_cons, (IH H2). destruct (Hp c H1) as [A B]. rewrite (neqb c_nl c), (neqb c_tab c) by congruence. reflexivity.
Qed.
Lemma plain_key k : forallb key_char k = true -> plain k = true.
Proof. apply plain_forallb. intros c H. apply key_char_range in H. split; chr. Qed.
Lemma plain_digits d : forallb is_digit d = true -> plain d = true.
Proof. apply plain_forallb. intros c H. apply is_digit_range in H. split; chr. Qed.
Lemma plain_digs d : digs d = true -> plain d = true.
Proof. intros H. apply digs_spec in H as [_ H]. apply plain_digits. exact H. Qed.
Lemma plain_ind D : plain (ind D) = true.
Proof. unfold ind. induction (2 * D)%nat as [|n IH]; [reflexivity|]. cbn [repeat]. rewrite plain_cons, IH. reflexivity. Qed.
Lemma plain_quote s : plain (quote s) = true.
Proof.
  unfold quote. rewrite plain_cons, plain_app. unfold plain at 1. rewrite escape_no_nl, escape_no_tab. reflexivity.
Qed.
Lemma plain_frac fr : frac_ok fr = true -> plain fr = true.
Proof.
  destruct fr as [|x f]; [reflexivity|]. cbn [frac_ok]. intros H. apply andb_true_iff in H as [Hx Hf].
  apply N.eqb_eq in Hx. subst x. rewrite plain_cons, (plain_digs _ Hf). reflexivity.
Qed.
Lemma plain_exp ex : exp_ok ex = true -> plain ex = true.
Proof.
  destruct ex as [|e r]; [reflexivity|]. cbn [exp_ok]. intros H. apply andb_true_iff in H as [He H].
  assert (P1 : negb (N.eqb c_nl e) && negb (N.eqb c_tab e) = true).
  { unfold is_e in He. apply orb_true_iff in He as [He|He]; apply N.eqb_eq in He; subst e; reflexivity. }
  rewrite plain_cons, P1. cbn [andb].
  destruct r as [|c r']; [discriminate H|]. destruct (is_sign c) eqn:Es.
  - unfold is_sign in Es. rewrite plain_cons, (plain_digs _ H).
    apply orb_true_iff in Es as [Es|Es]; apply N.eqb_eq in Es; subst c; reflexivity.
  - apply plain_digs. exact H.
Qed.
Lemma plain_num c : num_ok c = true -> plain c = true.
Proof.
  unfold num_ok. destruct c as [|c0 cr]; [discriminate|].
  assert (B : forall s, num_body_ok s = true -> plain s = true).
  { intros s H. destruct (num_body_shape _ H) as (d & fr & ex & -> & Hd & Hfr & Hex).
    rewrite !plain_app, (plain_digs _ Hd), (plain_frac _ Hfr), (plain_exp _ Hex). reflexivity. }
  destruct (N.eqb_spec c0 c_dash) as [->|_]; intros H; [|apply B; exact H].
  rewrite plain_cons, (B _ H). reflexivity.
Qed.
Lemma plain_ver g : ver_ok g = true -> plain g = true.
Proof.
  intros H. destruct (ver_ok_shape _ H) as (d & l & -> & Hd & Hl). rewrite plain_app, (plain_digs _ Hd). cbn [andb]. clear H.
  induction l as [|x l IH]; [reflexivity|]. cbn [forallb] in Hl. apply andb_true_iff in Hl as [Hx Hl].
  change (dotted (x :: l)) with ((c_dot :: x) ++ dotted l). rewrite plain_app, plain_cons, (plain_digs _ Hx), (IH Hl). reflexivity.
Qed.
Lemma plain_sval k v sv : lex_safe_val k v = true -> sval_of v = Some sv -> plain (sval_text sv) = true.
Proof.
  destruct v; cbn [sval_of]; intros Hs E; inversion E; subst; cbn [sval_text]; try reflexivity.
  - destruct b; reflexivity.
  - apply plain_num. exact Hs.
  - apply plain_quote.
Qed.

Lemma fence_free_ind D c r : c <> c_sp -> c <> c_bt -> fence_free (ind D ++ c :: r) = true.
Proof.
  intros H1 H2. unfold fence_free, ind. rewrite dropb_app_stop by (first [apply forallb_repeat_sp|apply neqb; congruence]).
  rewrite (neqb _ _ H2). reflexivity.
Qed.

Lemma line_ok_key D k t : key_ok k = true -> plain t = true -> line_ok (ind D ++ k ++ t) = true.
Proof.
  intros Hk Ht. assert (Hw : word_ok k = true).
  { unfold key_ok in Hk. apply andb_true_iff in Hk as [Hk _]. apply andb_true_iff in Hk as [Hk _]. apply andb_true_iff in Hk as [Hk _]. exact Hk. }
  unfold line_ok. rewrite !plain_app, plain_ind, (plain_key _ (word_ok_chars _ Hw)), Ht. cbn [andb].
  destruct (key_ok_hd _ Hk) as (c & k' & -> & Hc). apply key_start_range in Hc. cbn [app]. apply fence_free_ind; chr.
Qed.

Lemma node_lines_ok : forall n, core_node n = true -> lex_safe_node n = true -> forall D, forallb line_ok (emit_node_lines n D) = true.
Proof.
  apply (node_ind2 (fun n => core_node n = true -> lex_safe_node n = true -> forall D, forallb line_ok (emit_node_lines n D) = true)).
  - intros k v l t Hc Hs D. cbn [core_node] in Hc. destruct l; [|discriminate]. destruct t; [discriminate|].
    destruct (sval_of v) as [sv|] eqn:E; [|discriminate].
    cbn [lex_safe_node] in Hs. apply andb_true_iff in Hs as [Hk Hv].
    rewrite (emit_assign_line k v sv D E), (value_text k v sv D Hv E). cbn [forallb]. rewrite andb_true_r.
    apply line_ok_key; [exact Hk|]. rewrite !plain_app, (plain_sval k v sv Hv E). reflexivity.
  - intros k tg ch l IH Hc Hs D. cbn [core_node] in Hc. destruct tg; [discriminate|]. destruct l; [|discriminate].
    apply andb_true_iff in Hc as [_ Hcc]. cbn [lex_safe_node] in Hs. apply andb_true_iff in Hs as [Hk Hss].
    rewrite (emit_block_lines k ch D Hcc). cbn [forallb]. rewrite (line_ok_key D k ([] ++ [c_colon]) Hk eq_refl). cbn [andb].
    induction ch as [|c cs IHc]; [reflexivity|]. inversion IH as [|? ? Pc Pcs]; subst.
    cbn [forallb] in Hcc, Hss. apply andb_true_iff in Hcc as [Hc1 Hc2]. apply andb_true_iff in Hss as [Hs1 Hs2].
    cbn [flat_map]. rewrite forallb_app, (Pc Hc1 Hs1 (S D)), (IHc Pcs Hc2 Hs2). reflexivity.
  - intros i k a ch l _ Hc; discriminate Hc.
  - intros t Hc; discriminate Hc.
Qed.

Lemma prepass ls : ls <> [] -> forallb line_ok ls = true ->
  split_on c_nl (join [c_nl] ls ++ [c_nl]) = ls ++ [[]] /\ memb c_tab (join [c_nl] ls ++ [c_nl]) = false /\
  forallb fence_free (ls ++ [[]]) = true.
Proof.
  intros Hne H. rewrite (join_unlines _ Hne). split; [|split].
  - apply split_unlines. eapply forallb_impl; [|exact H]. intros l Hl. unfold line_ok, plain in Hl.
    apply andb_true_iff in Hl as [Hl _]. apply andb_true_iff in Hl as [Hl _]. exact Hl.
  - clear Hne. induction ls as [|l ls IH]; [reflexivity|]. cbn [forallb] in H. apply andb_true_iff in H as [H1 H2].
    rewrite unlines_cons, memb_app. cbn [memb existsb]. change (existsb (N.eqb c_tab) (unlines ls)) with (memb c_tab (unlines ls)).
    rewrite (IH H2). unfold line_ok, plain in H1. apply andb_true_iff in H1 as [H1 _]. apply andb_true_iff in H1 as [_ H1].
    apply negb_true_iff in H1. rewrite H1. reflexivity.
  - rewrite forallb_app. cbn [forallb]. rewrite andb_true_r. eapply forallb_impl; [|exact H]. intros l Hl.
    unfold line_ok in Hl. apply andb_true_iff in Hl as [_ Hl]. exact Hl.
Qed.

(* ---- the emitted lines of a core document -------------------------------------------------------------------------------------- *)
Definition grammar_lines (d : doc) : list str := match dgrammar d with Some g => [s_octave ++ g] | None => [] end.

Lemma core_sections_lines secs : forallb core_node secs = true ->
  flat_map (fun n => match n with NComment _ => [] | _ => emit_node_lines n 0 end) secs = flat_map (fun n => emit_node_lines n 0) secs.
Proof.
  induction secs as [|c cs IH]; [reflexivity|]. cbn [forallb]. intros H. apply andb_true_iff in H as [H1 H2].
  cbn [flat_map]. rewrite (IH H2). destruct c; try reflexivity. discriminate H1.
Qed.

Lemma ver_ok_nonempty g : ver_ok g = true -> exists x r, g = x :: r.
Proof.
  intros H. destruct (ver_ok_shape _ H) as (d & l & -> & Hd & _). destruct (digs_hd _ Hd) as (d0 & d' & -> & _).
  eexists _, _. reflexivity.
Qed.

Lemma emit_lines_core sp d : core_doc d = true -> lex_safe_doc d = true ->
  emit_lines sp d = grammar_lines d ++ [s_env ++ dname d ++ s_env] ++ (if dsep d then [s_sep] else []) ++
                    flat_map (fun n => emit_node_lines n 0) (dsections d) ++ [s_end].
Proof.
  destruct d as [name gr fr sep meta secs trl]. unfold core_doc, lex_safe_doc, emit_lines, grammar_lines.
  cbn [dfront dmeta dtrailing dsections dgrammar dname dsep].
  destruct fr; [discriminate|]. destruct meta; [|discriminate]. destruct trl; [|discriminate].
  intros Hc Hs. apply andb_true_iff in Hc as [Hc _]. apply andb_true_iff in Hs as [Hs _]. apply andb_true_iff in Hs as [_ Hg].
  rewrite (core_sections_lines _ Hc). cbn [emit_leading map app].
  destruct gr as [g|]; [|reflexivity]. destruct (ver_ok_nonempty _ Hg) as (x & r & ->). reflexivity.
Qed.

Lemma emit_lines_ok sp d : core_doc d = true -> lex_safe_doc d = true -> forallb line_ok (emit_lines sp d) = true.
Proof.
  intros Hc Hs. rewrite (emit_lines_core sp d Hc Hs).
  destruct d as [name gr fr sep meta secs trl]. unfold core_doc, lex_safe_doc, grammar_lines in *.
  cbn [dfront dmeta dtrailing dsections dgrammar dname dsep] in *.
  destruct fr; [discriminate|]. destruct meta; [|discriminate]. destruct trl; [|discriminate].
  apply andb_true_iff in Hc as [Hc _]. apply andb_true_iff in Hs as [Hs Hn]. apply andb_true_iff in Hs as [Hname Hg].
  assert (A1 : forallb line_ok (match gr with Some g => [s_octave ++ g] | None => [] end) = true).
  { destruct gr as [g|]; [|reflexivity]. cbn [forallb]. rewrite andb_true_r. unfold line_ok.
    rewrite plain_app, (plain_ver _ Hg). reflexivity. }
  assert (A2 : line_ok (s_env ++ name ++ s_env) = true).
  { unfold line_ok. unfold name_ok in Hname. apply andb_true_iff in Hname as [Hw _].
    rewrite !plain_app, (plain_key _ (word_ok_chars _ Hw)). reflexivity. }
  assert (A3 : forallb line_ok (if sep then [s_sep] else []) = true) by (destruct sep; reflexivity).
  assert (A4 : forallb line_ok (flat_map (fun n => emit_node_lines n 0) secs) = true).
  { clear Hname Hg A1 A2 A3. induction secs as [|c cs IH]; [reflexivity|]. cbn [forallb] in Hc, Hn.
    apply andb_true_iff in Hc as [Hc1 Hc2]. apply andb_true_iff in Hn as [Hn1 Hn2].
    cbn [flat_map]. rewrite forallb_app, (node_lines_ok c Hc1 Hn1 0%nat), (IH Hc2 Hn2). reflexivity. }
  rewrite !forallb_app, A1, A3, A4. cbn [forallb]. rewrite A2. reflexivity.
Qed.

Lemma emit_lines_nonempty sp d : emit_lines sp d <> [].
Proof. unfold emit_lines. intros H. repeat (apply app_eq_nil in H as [_ H]). discriminate H. Qed.

Lemma emit_unlines sp d : emit sp d = unlines (emit_lines sp d).
Proof. unfold emit. apply join_unlines. apply emit_lines_nonempty. Qed.

Section Doc.
Variable cls : N -> N.

(* ---- the whole document --------------------------------------------------------------------------------------------------------------- *)
Lemma all_L_nodes ns : Forall (L_node cls) ns.
Proof. apply Forall_forall. intros n _. apply all_L_node. Qed.

Lemma lex_doc sp d : core_doc d = true -> lex_safe_doc d = true ->
  forall st, ls_in st = emit sp d -> ls_pos st = 0 -> ls_spans st = [] ->
  exists st', lexto cls st (doc_sh d ++ [(NEWLINE, None)]) st' /\ ls_in st' = [].
Proof.
  intros Hc Hs st Hin Hp Hsp. rewrite emit_unlines, (emit_lines_core sp d Hc Hs) in Hin.
  destruct d as [name gr fr sep meta secs trl]. unfold core_doc, lex_safe_doc, grammar_lines, doc_sh in *.
  cbn [dfront dmeta dtrailing dsections dgrammar dname dsep] in *.
  destruct fr; [discriminate|]. destruct meta; [|discriminate]. destruct trl; [|discriminate].
  apply andb_true_iff in Hc as [Hc _]. apply andb_true_iff in Hs as [Hs Hn]. apply andb_true_iff in Hs as [Hname Hg].
  rewrite !unlines_app, <- ?app_assoc in Hin.
  cbn [unlines flat_map] in Hin. rewrite ?app_nil_r, <- ?app_assoc in Hin. cbn [app] in Hin.
  (* grammar line *)
  assert (HA : exists st1, lexto cls st (match gr with Some g => [(GRAMMAR_SENTINEL, Some (TVText g)); (NEWLINE, None)] | None => [] end) st1 /\
                           ls_in st1 = s_env ++ name ++ s_env ++ c_nl :: unlines (if sep then [s_sep] else []) ++
                                       unlines (flat_map (fun n => emit_node_lines n 0) secs) ++ s_end ++ [c_nl] /\
                           ls_spans st1 = []).
  { destruct gr as [g|].
    - cbn [unlines flat_map] in Hin. rewrite ?app_nil_r, <- ?app_assoc in Hin. cbn [app] in Hin.
      destruct (T_sentinel cls st g _ Hg Hin Hp Hsp) as (st0 & T0).
      assert (S0 : ls_spans st0 = []) by (rewrite (tstep_spans _ _ _ _ _ _ _ T0); exact Hsp).
      destruct (lex_newline cls st0 _ (tstep_in _ _ _ _ _ _ _ T0) S0) as (st1 & L1 & I1 & (_ & _ & S1)).
      exists st1. split; [|split; [exact I1|exact S1]].
      change [(GRAMMAR_SENTINEL, Some (TVText g)); (NEWLINE, None)] with ([(GRAMMAR_SENTINEL, Some (TVText g))] ++ [(NEWLINE, None)]).
      eapply lexto_trans; [|exact L1]. eapply lexto_tstep; [exact T0|reflexivity|right; reflexivity].
    - cbn [unlines flat_map app] in Hin. exists st. split; [apply lexto_refl|split; [exact Hin|exact Hsp]]. }
  destruct HA as (st1 & L1 & I1 & S1). clear Hin Hp Hsp.
  (* envelope start *)
  destruct (T_env_start cls st1 name _ Hname I1 S1) as (st2 & T2).
  assert (S2 : ls_spans st2 = []) by (rewrite (tstep_spans _ _ _ _ _ _ _ T2); exact S1).
  destruct (lex_newline cls st2 _ (tstep_in _ _ _ _ _ _ _ T2) S2) as (st3 & L3 & I3 & R3).
  (* separator *)
  assert (HB : exists st4, lexto cls st3 (if sep then [(SEPARATOR, None); (NEWLINE, None)] else []) st4 /\
                           ls_in st4 = unlines (flat_map (fun n => emit_node_lines n 0) secs) ++ s_end ++ [c_nl] /\ ready st4).
  { destruct sep.
    - cbn [unlines flat_map app] in I3. rewrite <- !app_assoc in I3. cbn [app] in I3.
      destruct R3 as (_ & _ & S3).
      destruct (T_sep cls st3 _ I3 S3) as (st' & T').
      assert (S' : ls_spans st' = []) by (rewrite (tstep_spans _ _ _ _ _ _ _ T'); exact S3).
      destruct (lex_newline cls st' _ (tstep_in _ _ _ _ _ _ _ T') S') as (st4 & L4 & I4 & R4).
      exists st4. split; [|split; [exact I4|exact R4]].
      change [(SEPARATOR, None); (NEWLINE, None)] with ([(SEPARATOR, @None tvalue)] ++ [(NEWLINE, None)]).
      eapply lexto_trans; [|exact L4]. eapply lexto_tstep; [exact T'|reflexivity|left; reflexivity].
    - exists st3. split; [apply lexto_refl|split; [exact I3|exact R3]]. }
  destruct HB as (st4 & L4 & I4 & R4).
  (* sections *)
  destruct (lex_nodes cls secs (all_L_nodes secs) Hc Hn 0%nat st4 _ I4 R4) as (st5 & L5 & I5 & (_ & _ & S5)).
  (* envelope end + final newline *)
  destruct (T_env_end cls st5 [] I5 S5) as (st6 & T6).
  assert (S6 : ls_spans st6 = []) by (rewrite (tstep_spans _ _ _ _ _ _ _ T6); exact S5).
  destruct (lex_newline cls st6 [] (tstep_in _ _ _ _ _ _ _ T6) S6) as (st7 & L7 & I7 & _).
  exists st7. split; [|exact I7].
  rewrite <- !app_assoc.
  eapply lexto_trans; [exact L1|].
  change ([(ENVELOPE_START, Some (TVText name)); (NEWLINE, None)] ++ ?x)
    with ([(ENVELOPE_START, Some (TVText name))] ++ [(NEWLINE, @None tvalue)] ++ x).
  eapply lexto_trans; [eapply lexto_tstep; [exact T2|reflexivity|right; reflexivity]|].
  eapply lexto_trans; [exact L3|]. eapply lexto_trans; [exact L4|]. eapply lexto_trans; [exact L5|].
  eapply lexto_trans; [|exact L7]. eapply lexto_tstep; [exact T6|reflexivity|left; reflexivity].
Qed.

(* (1) THE LEXER HALF *)
Theorem lex_emit_core sp d : core_doc d = true -> lex_safe_doc d = true ->
  exists ts tnl teof,
    tokenize cls false (lines_of (emit sp d)) = LexOk (ts ++ [tnl; teof]) [] /\
    Forall2 tmatch ts (doc_sh d) /\ tk tnl = NEWLINE /\ tk teof = EOF.
Proof.
  intros Hc Hs.
  destruct (prepass (emit_lines sp d) (emit_lines_nonempty sp d) (emit_lines_ok sp d Hc Hs)) as (Hsplit & Htab & Hff).
  fold (emit sp d) in Hsplit, Htab.
  assert (Hfr : dfront d = None).
  { revert Hc. unfold core_doc. destruct (dfront d); [discriminate|reflexivity]. }
  rewrite tokenize_plain; [|rewrite Hsplit; exact Hff|exact Htab|exact (emit_nonblank_head sp d Hfr)].
  set (st0 := mkLS (emit sp d) None 0 1 1 [] [] [] []).
  destruct (lex_doc sp d Hc Hs st0 eq_refl eq_refl eq_refl) as (st' & (Hst & (tsall & Ht & HF) & Hr & Hb & _) & Hin).
  rewrite (run_steps_finish cls st0 st' _ Hst Hin) by (cbn [ls_in st0]; lia).
  apply Forall2_app_inv_r in HF. destruct HF as (ts & tl & HF1 & HF2 & ->).
  inversion HF2 as [|tnl ? ? ? [Hnl _] HF3]; subst. inversion HF3; subst. cbn [fst] in Hnl.
  exists ts, tnl, (mkTok EOF TVNone (ls_line st') (ls_col st') None).
  split; [|split; [exact HF1|split; [exact Hnl|reflexivity]]].
  unfold finish. rewrite Hb, Hr, Ht. cbn [ls_brk ls_reps ls_toks st0 rev app].
  rewrite app_nil_r, rev_involutive, <- app_assoc. reflexivity.
Qed.

(* (2) THE TEXT-LEVEL ROUND TRIP *)
Lemma strip_frontmatter_none spf t l0 r : split_on c_nl t = l0 :: r -> prefixb s_dashes l0 = false ->
  strip_frontmatter spf (lines_of t) = (lines_of t, None).
Proof. intros E H. unfold lines_of. rewrite E. cbn [map strip_frontmatter]. rewrite H. reflexivity. Qed.

Lemma emit_first_line sp d : core_doc d = true -> lex_safe_doc d = true ->
  exists l0 r, emit_lines sp d = l0 :: r /\ prefixb s_dashes l0 = false.
Proof.
  intros Hc Hs. rewrite (emit_lines_core sp d Hc Hs). unfold grammar_lines.
  destruct (dgrammar d); eexists _, _; (split; [reflexivity|reflexivity]).
Qed.

Theorem text_roundtrip_core numcanon holo_ok strict sp d :
  core_doc d = true -> lex_safe_doc d = true -> nums_ok_l numcanon (dsections d) ->
  exists warns,
    parse_model cls numcanon holo_ok strict (lines_of (emit sp d)) = PRDoc d [] warns /\ Forall advisory warns.
Proof.
  intros Hc Hs Hnum.
  destruct (lex_emit_core sp d Hc Hs) as (ts & tnl & teof & Htok & HF & _ & _).
  destruct (prepass (emit_lines sp d) (emit_lines_nonempty sp d) (emit_lines_ok sp d Hc Hs)) as (Hsplit & _ & _).
  fold (emit sp d) in Hsplit.
  destruct (emit_first_line sp d Hc Hs) as (l0 & r & El & Hl0).
  unfold parse_model.
  rewrite (strip_frontmatter_none (u_space cls) (emit sp d) l0 (r ++ [[]])); [|rewrite Hsplit, El; reflexivity|exact Hl0].
  rewrite Htok.
  destruct (parse_core_doc numcanon holo_ok strict (u_space cls) (u_alpha cls) d Hc Hnum
              (mkPS (ts ++ [tnl; teof]) None 0 [] 0 []) ts [tnl; teof]) as (st' & Hp & (l & Hw & Hadv));
    [discriminate|exact HF|reflexivity|].
  rewrite Hp. exists (rev (pwarns st')). split.
  - f_equal. destruct d as [name gr fr sep meta secs trl]. unfold core_doc in Hc. cbn [dfront] in Hc.
    destruct fr; [discriminate Hc|]. reflexivity.
  - rewrite Hw. cbn [pwarns]. rewrite app_nil_r. apply Forall_rev. exact Hadv.
Qed.

End Doc.
