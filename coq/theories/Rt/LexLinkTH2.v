(* Lexer half for holographic values, second class: CONSTRAINT CHAINS OF WORDS

       raw = [ "s" ∧ W1 ∧ W2 ∧ .. ∧ Wn ]      n >= 1, each Wi one identifier word (key_ok)            chain_text s ws

   The new case is a word DIRECTLY followed by the non-ASCII operator ∧ (8743): whether ∧ continues the identifier / is a word or digit
   character is a fact of the character-class oracle cls.  It is put into the side condition as the boolean clause
       cls_and_ok cls = negb (id_char cls 8743) && negb (u_word cls 8743) && negb (u_digit cls 8743)
   (true for the concrete oracle ex_cls: Rt/LexLinkTH2Ex.v).

     G_keyz            the step lemma: a word followed by a character that is no identifier / word character is read as ONE IDENTIFIER token
     lex_chain_line    the emitted line  ind D ++ k ++ "::" ++ raw ++ [ // trailing]  is read as INDENT? KEY ASSIGN chain_shape COMMENT? NEWLINE
     hsh_lex_chain     hsh_lex cls (chain_text s ws) = chain_shape s ws   (the scanner on the raw text alone: context independence)
     lex_emit_coreth2 / text_roundtrip_coreth2   document level: coret documents whose holographic values are chains OR of the class of
                       Rt/LexLinkTH.v; side condition lex_safeth2_doc cls hsh d (for a chain: cls_and_ok cls, chain_ok, hsh raw fits chain_shape)
   The fragment test th2_raw only tests the frame  raw = chain_text (hs raw) (hws raw)  (hs / hws decoders, nothing proved about them; the frame
   also holds of texts like ["x"∧ENUM["a"]] with "word" ENUM["a"]: chain_ok in the side condition decides; th2_safe is a disjunction of the two classes).
   NOT treated: chains with → / § / calls (W∧ENUM[..]→§T), the call-last chain  REQ∧REGEX[".."]. *)
From OV Require Import Base.Strs Gen.LexerGen Syn.Escape Syn.Quote Syn.Ast Syn.Emitter Syn.Parser Lex.Lexer Lex.Progress
     Rt.Zones Rt.ZonesRt Rt.TokRound Rt.TokRoundEx Rt.TokRound2 Rt.TokRound2Ex Rt.TokRoundZ Rt.TokRoundT Rt.TokRoundTHolo Rt.TokRoundTEx
     Rt.LexLinkBase Rt.LexLinkSteps Rt.LexLink Rt.LexLink2Base Rt.LexLink2Steps Rt.LexLink2Text Rt.LexLink2
     Rt.LexLinkZPos Rt.LexLinkZText Rt.LexLinkZ Rt.LexLinkT Rt.LexLinkTH.
From Coq Require Import Lia.
Open Scope N_scope.

Definition cls_and_ok (cls : N -> N) : bool := negb (id_char cls 8743) && negb (u_word cls 8743) && negb (u_digit cls 8743).

Fixpoint ands_text (ws : list str) : str := match ws with [] => [] | w :: r => 8743 :: w ++ ands_text r end.
Fixpoint ands_sh (ws : list str) : list sh :=
  match ws with [] => [] | w :: r => (CONSTRAINT, Some (TVText [8743])) :: (IDENTIFIER, Some (TVText w)) :: ands_sh r end.
Definition chain_text (s : str) (ws : list str) : str := [c_lbr] ++ quote s ++ ands_text ws ++ [c_rbr].
Definition chain_shape (s : str) (ws : list str) : list sh :=
  [(LIST_START, Some (TVText [91])); (STRING, Some (TVText s))] ++ ands_sh ws ++ [(LIST_END, Some (TVText [93]))].
Definition chain_ok (ws : list str) : bool := negb (is_nil ws) && forallb key_ok ws.

Section Chain.
Variable cls : N -> N.

(* ---- a word followed by any character that ends it ----------------------------------------------------------------------------------------------------- *)
Definition zend (z : N) : Prop := id_char cls z = false /\ u_word cls z = false /\ z <> c_lt /\ z <> 123.

Lemma scan_ident_core_word_zz c k z r : forallb key_char k = true -> id_char cls z = false ->
  scan_ident_core cls c (k ++ z :: r) = (c :: k, z :: r).
Proof.
  intros Hk Hz. unfold scan_ident_core.
  rewrite takeb_app_stop; [|apply (forallb_impl key_char); [apply id_char_key|exact Hk]|exact Hz].
  rewrite std_id.
  2:{ intros x Hx. apply in_rev in Hx. rewrite forallb_forall in Hk. specialize (Hk x Hx). apply key_char_range in Hk. chr. }
  rewrite rev_involutive, skipn_app_len. reflexivity.
Qed.
Lemma scan_identifier_word_zz c k z r : key_start c = true -> forallb key_char k = true -> zend z ->
  scan_identifier cls false (c :: k ++ z :: r) = Some (c :: k, z :: r, None).
Proof.
  intros Hc Hk (Hz & _ & Hlt & Hbr). unfold scan_identifier. rewrite (id_start_key cls _ Hc), (scan_ident_core_word_zz c k z r Hk Hz).
  cbv iota beta. rewrite (neqb z c_lt) by exact Hlt. rewrite (neqb z 123) by exact Hbr. reflexivity.
Qed.

Lemma G_keyz st k z r :
  key_ok k = true -> zend z -> ls_in st = k ++ z :: r -> ls_pos st <> 0 -> ls_spans st = [] ->
  exists st', gstep cls st st' IDENTIFIER (TVText k) (z :: r) (last_chr k) (ls_brk st).
Proof.
  intros Hk Hz Hin Hpos Hsp. unfold key_ok in Hk.
  apply andb_true_iff in Hk as [Hk Hvs]. apply andb_true_iff in Hk as [Hk Hwc]. apply andb_true_iff in Hk as [Hw Hres].
  apply negb_true_iff in Hvs. apply negb_true_iff in Hres.
  destruct (wrong_case_of k) as [w|] eqn:Ewc; [discriminate Hwc|]. clear Hwc.
  pose proof (word_ok_chars _ Hw) as Hkc.
  destruct k as [|c k']; [discriminate Hw|]. cbn [word_ok] in Hw. apply andb_true_iff in Hw as [Hc Hk'].
  cbn [str_in] in Hres. repeat (apply orb_false_iff in Hres as [? Hres]).
  assert (Huw : forallb (u_word cls) (c :: k') = true) by (apply (forallb_impl key_char); [apply u_word_key|exact Hkc]).
  assert (Hzw : u_word cls z = false) by (exact (proj1 (proj2 Hz))).
  cbn [app] in Hin.
  assert (Hstep : step cls false st =
    Continue (adv st (c :: k') (z :: r) (mkTok IDENTIFIER (TVText (c :: k')) (ls_line st) (ls_col st) None :: ls_toks st) (ls_reps st))).
  { unfold step. rewrite Hin, Hsp.
    rewrite sp_fallback; [|exact Hc|exact Hpos
      |apply (scan_word_other cls s_vs (c :: k')); [reflexivity|exact Huw|exact Hzw|assumption]
      |apply (scan_word_other cls Lexer.s_true (c :: k')); [reflexivity|exact Huw|exact Hzw|assumption]
      |apply (scan_word_other cls Lexer.s_false (c :: k')); [reflexivity|exact Huw|exact Hzw|assumption]
      |apply (scan_word_other cls Lexer.s_null (c :: k')); [reflexivity|exact Huw|exact Hzw|assumption]].
    pose proof Hc as Hc'. apply key_start_range in Hc.
    unfold step_fallback. cbv zeta. unfold s_eq3 at 1. rewrite hd_prefix_ne by chr. cbn [andb].
    rewrite (neqb c c_plus) by chr. rewrite (scan_identifier_word_zz c k' z r Hc' Hk' Hz).
    rewrite Ewc, Hvs. reflexivity. }
  eexists. unfold gstep. split; [exact Hstep|]. unfold adv.
  cbn [ls_in ls_prev ls_pos ls_toks ls_reps ls_brk ls_spans ls_col].
  pose proof (len_pos (c :: k')) as Hl.
  repeat split; try reflexivity; [apply len_pos_ne; discriminate|eexists _, _, _; reflexivity|].
  specialize (Hl ltac:(discriminate)). lia.
Qed.

Lemma zend_rbr : zend c_rbr.
Proof. split; [apply id_char_kterm; right; right; left; reflexivity|]. split; [apply u_word_false; chr|split; discriminate]. Qed.
Lemma cls_and_parts : cls_and_ok cls = true -> id_char cls 8743 = false /\ u_word cls 8743 = false /\ u_digit cls 8743 = false.
Proof.
  unfold cls_and_ok. intros H. apply andb_true_iff in H as [H H3]. apply andb_true_iff in H as [H1 H2].
  apply negb_true_iff in H1, H2, H3. repeat split; assumption.
Qed.
Lemma zend_and : cls_and_ok cls = true -> zend 8743.
Proof. intros H. destruct (cls_and_parts H) as (H1 & H2 & _). split; [exact H1|]. split; [exact H2|split; discriminate]. Qed.

(* ---- ∧W1∧W2..∧Wn before the closing bracket --------------------------------------------------------------------------------------------------------------- *)
Lemma ands_hd ws r : exists x u, ands_text ws ++ c_rbr :: r = x :: u /\ (x = 8743 \/ x = c_rbr).
Proof. destruct ws as [|w ws]; cbn [ands_text app]; eexists _, _; (split; [reflexivity|]); [right|left]; reflexivity. Qed.

Lemma lex_ands : cls_and_ok cls = true -> forall ws st r, forallb key_ok ws = true ->
  ls_in st = ands_text ws ++ c_rbr :: r -> ls_spans st = [] -> ls_pos st <> 0 ->
  exists st', lextoB cls st (ands_sh ws) st' /\ ls_in st' = c_rbr :: r /\ ls_brk st' = ls_brk st /\ ls_pos st' <> 0 /\ ls_col st <= ls_col st'.
Proof.
  intros Hcls. destruct (cls_and_parts Hcls) as (_ & _ & Hdig).
  induction ws as [|w ws IH]; intros st r Hok Hin S0 P0.
  - exists st. split; [apply lextoB_refl|]. split; [exact Hin|]. split; [reflexivity|]. split; [exact P0|lia].
  - cbn [forallb] in Hok. apply andb_true_iff in Hok as [Hw Hws]. cbn [ands_text app] in Hin. rewrite <- app_assoc in Hin.
    destruct (ands_hd ws r) as (x & u & Ex & Hx). rewrite Ex in Hin.
    assert (V : scan_version cls (8743 :: w ++ x :: u) = None).
    { change (8743 :: w ++ ?y) with ((8743 :: w) ++ y). apply scan_version_no_dot.
      - intros y [<-|Hy]; [discriminate|exact (key_no_dot w Hw y Hy)].
      - destruct Hx; subst x; discriminate.
      - destruct Hx; subst x; [exact Hdig|apply u_digit_false; chr]. }
    destruct (G_and cls st _ Hin S0 P0 V) as (st1 & G1).
    assert (S1 : ls_spans st1 = []) by (rewrite (gstep_spans cls _ _ _ _ _ _ _ G1); exact S0).
    assert (Zx : zend x) by (destruct Hx; subst x; [exact (zend_and Hcls)|exact zend_rbr]).
    destruct (G_keyz st1 w x u Hw Zx (gstep_in cls _ _ _ _ _ _ _ G1) (gstep_pos cls _ _ _ _ _ _ _ G1) S1) as (st2 & G2).
    assert (S2 : ls_spans st2 = []) by (rewrite (gstep_spans cls _ _ _ _ _ _ _ G2); exact S1).
    pose proof (gstep_in cls _ _ _ _ _ _ _ G2) as I2. rewrite <- Ex in I2.
    destruct (IH st2 r Hws I2 S2 (gstep_pos cls _ _ _ _ _ _ _ G2)) as (st3 & L3 & I3 & B3 & P3 & C3).
    exists st3. split; [|split; [exact I3|split; [|split; [exact P3|]]]].
    + change (ands_sh (w :: ws)) with ([(CONSTRAINT, Some (TVText [8743]))] ++ [(IDENTIFIER, Some (TVText w))] ++ ands_sh ws).
      eapply (lextoB_trans cls); [eapply (lextoB_gstep cls); [exact G1|reflexivity|right; reflexivity]|].
      eapply (lextoB_trans cls); [eapply (lextoB_gstep cls); [exact G2|reflexivity|right; reflexivity]|exact L3].
    + rewrite B3, (gstep_brk cls _ _ _ _ _ _ _ G2). exact (gstep_brk cls _ _ _ _ _ _ _ G1).
    + pose proof (gstep_col cls _ _ _ _ _ _ _ G1). pose proof (gstep_col cls _ _ _ _ _ _ _ G2). lia.
Qed.

(* ---- [ "s" ∧W1..∧Wn ]  followed by anything ------------------------------------------------------------------------------------------------------------------ *)
Lemma lex_chain s ws st r :
  cls_and_ok cls = true -> chain_ok ws = true -> ls_in st = chain_text s ws ++ r -> ls_spans st = [] -> 1 <= ls_col st ->
  exists st', lexto cls st (chain_shape s ws) st' /\ ls_in st' = r /\ 1 < ls_col st' /\ ls_pos st' <> 0.
Proof.
  intros Hcls Hok Hin S0 C0. unfold chain_ok in Hok. apply andb_true_iff in Hok as [Hne Hws].
  unfold chain_text in Hin. rewrite <- !app_assoc in Hin. cbn [app] in Hin.
  destruct (G_lbr cls st _ Hin S0) as (st1 & p & G1).
  assert (S1 : ls_spans st1 = []) by (rewrite (gstep_spans cls _ _ _ _ _ _ _ G1); exact S0).
  destruct ws as [|w ws]; [discriminate Hne|].
  pose proof (gstep_in cls _ _ _ _ _ _ _ G1) as I1. cbn [ands_text app] in I1.
  destruct (G_str cls st1 s 8743 _ I1 ltac:(discriminate) S1) as (st2 & G2).
  assert (S2 : ls_spans st2 = []) by (rewrite (gstep_spans cls _ _ _ _ _ _ _ G2); exact S1).
  destruct (lex_ands Hcls (w :: ws) st2 r Hws (gstep_in cls _ _ _ _ _ _ _ G2) S2 (gstep_pos cls _ _ _ _ _ _ _ G2)) as (st3 & L3 & I3 & B3 & P3 & C3).
  assert (S3 : ls_spans st3 = []) by (rewrite (lextoB_spans cls _ _ _ L3); exact S2).
  assert (B3' : ls_brk st3 = p :: ls_brk st).
  { rewrite B3, (gstep_brk cls _ _ _ _ _ _ _ G2). exact (gstep_brk cls _ _ _ _ _ _ _ G1). }
  destruct (G_rbr cls st3 _ p (ls_brk st) I3 S3 B3') as (st4 & G4).
  exists st4. split; [|split; [exact (gstep_in cls _ _ _ _ _ _ _ G4)|split; [|exact (gstep_pos cls _ _ _ _ _ _ _ G4)]]].
  - apply (lextoB_lexto cls); [|exact (gstep_brk cls _ _ _ _ _ _ _ G4)]. unfold chain_shape.
    change ([(LIST_START, Some (TVText [91])); (STRING, Some (TVText s))] ++ ?l)
      with ([(LIST_START, Some (TVText [91]))] ++ [(STRING, Some (TVText s))] ++ l).
    eapply (lextoB_trans cls); [eapply (lextoB_gstep cls); [exact G1|reflexivity|right; reflexivity]|].
    eapply (lextoB_trans cls); [eapply (lextoB_gstep cls); [exact G2|reflexivity|right; reflexivity]|].
    eapply (lextoB_trans cls); [exact L3|]. eapply (lextoB_gstep cls); [exact G4|reflexivity|right; reflexivity].
  - pose proof (gstep_col cls _ _ _ _ _ _ _ G1). pose proof (gstep_col cls _ _ _ _ _ _ _ G2). pose proof (gstep_col cls _ _ _ _ _ _ _ G4). lia.
Qed.

(* ---- (1) [indent] KEY :: [ "s" ∧W1..∧Wn ] [ // comment] NEWLINE, at every depth ------------------------------------------------------------------------------- *)
Lemma lex_chain_line D k s ws t st rest :
  cls_and_ok cls = true -> key_ok k = true -> chain_ok ws = true -> opt_ne t = true -> trail_ok t = true ->
  ls_in st = (ind D ++ k ++ s_assign ++ chain_text s ws ++ emit_trailing t) ++ c_nl :: rest -> ready st ->
  exists st', lexto cls st (indent_sh D ++ [(IDENTIFIER, Some (TVText k)); (ASSIGN, None)] ++ chain_shape s ws ++ trail_sh t ++ [(NEWLINE, None)]) st' /\
              ls_in st' = rest /\ ready st'.
Proof.
  intros Hcls Hk Hw Hne Ht Hin Hr. rewrite <- !app_assoc in Hin.
  change (s_assign ++ ?x) with (c_colon :: c_colon :: x) in Hin.
  destruct (lex_indent_key cls D k _ st Hk Hin Hr) as (st2 & L2 & I2 & S2).
  destruct (T_assign cls st2 _ I2 S2) as (st3 & T3).
  assert (L3 : lexto cls st2 [(ASSIGN, None)] st3) by (eapply lexto_tstep; [exact T3|reflexivity|left; reflexivity]).
  assert (S3 : ls_spans st3 = []) by (rewrite (tstep_spans _ _ _ _ _ _ _ T3); exact S2).
  assert (C3 : 1 <= ls_col st3) by (apply (lexto_col cls _ _ _ L3), (lexto_col cls _ _ _ L2), ready_col; exact Hr).
  pose proof (tstep_in _ _ _ _ _ _ _ T3) as I3.
  destruct (lex_chain s ws st3 _ Hcls Hw I3 S3 C3) as (st4 & L4 & I4 & C4 & P4).
  assert (S4 : ls_spans st4 = []) by (rewrite (lexto_spans _ _ _ _ L4); exact S3).
  destruct (lex_trail cls t st4 rest Hne Ht I4 C4 S4 P4) as (st5 & L5 & I5).
  assert (S5 : ls_spans st5 = []) by (rewrite (lexto_spans _ _ _ _ L5); exact S4).
  destruct (lex_newline cls st5 rest I5 S5) as (st6 & L6 & I6 & R6).
  exists st6. split; [|split; assumption].
  change ([(IDENTIFIER, Some (TVText k)); (ASSIGN, None)] ++ ?l) with ([(IDENTIFIER, Some (TVText k))] ++ [(ASSIGN, @None tvalue)] ++ l).
  rewrite app_assoc. eapply lexto_trans; [exact L2|]. eapply lexto_trans; [exact L3|].
  eapply lexto_trans; [exact L4|]. eapply lexto_trans; [exact L5|exact L6].
Qed.
End Chain.

(* ---- (2) the lexer-derived oracle on the class ------------------------------------------------------------------------------------------------------------------ *)
Lemma ands_sh_txt ws : forallb txt_sh (ands_sh ws) = true.
Proof. induction ws as [|w ws IH]; [reflexivity|]. cbn [ands_sh forallb txt_sh snd andb]. exact IH. Qed.
Lemma chain_shape_txt s ws : forallb txt_sh (chain_shape s ws) = true.
Proof. unfold chain_shape. rewrite !forallb_app, ands_sh_txt. reflexivity. Qed.
Lemma plain_ands ws : forallb key_ok ws = true -> plain (ands_text ws) = true.
Proof.
  induction ws as [|w ws IH]; [reflexivity|]. cbn [forallb ands_text]. intros H. apply andb_true_iff in H as [H1 H2].
  rewrite plain_cons, plain_app, (plain_keyok _ H1), (IH H2). reflexivity.
Qed.
Lemma plain_chain s ws : chain_ok ws = true -> plain (chain_text s ws) = true.
Proof.
  unfold chain_ok. intros H. apply andb_true_iff in H as [_ H]. unfold chain_text. rewrite !plain_app, plain_quote, (plain_ands ws H). reflexivity.
Qed.

Theorem hsh_lex_chain cls s ws : cls_and_ok cls = true -> chain_ok ws = true -> hsh_lex cls (chain_text s ws) = chain_shape s ws.
Proof.
  intros Hcls Hw. unfold hsh_lex.
  assert (Ht : tok_text (chain_text s ws) = true).
  { apply line_tok. unfold LexLink.line_ok. rewrite (plain_chain s ws Hw). reflexivity. }
  rewrite (tokenize_tok_text cls false _ Ht eq_refl).
  set (st0 := mkLS (chain_text s ws) None 0 1 1 [] [] [] []).
  destruct (lex_chain cls s ws st0 [] Hcls Hw) as (st' & (Hst & (ts & Htk & HF) & Hr & Hb & _) & Hin & _);
    [rewrite app_nil_r; reflexivity|reflexivity|cbn [ls_col st0]; lia|].
  rewrite (run_steps_finish cls st0 st' _ Hst Hin) by (cbn [ls_in st0]; lia).
  unfold finish. rewrite Hb, Hr, Htk. cbn [ls_brk ls_reps ls_toks st0 rev app]. rewrite app_nil_r, rev_involutive, removelast_last.
  exact (sh_of_match _ _ (chain_shape_txt s ws) HF).
Qed.


(* ======== (3) the document level: coret documents whose holographic values are of the class of Rt/LexLinkTH.v OR constraint chains of words ======== *)
(* decoder of the chain (only used through the equation test th2_raw) *)
Definition hws (raw : str) : list str := tl (split_on 8743 (removelast (skipn (3 + length (hs raw)) raw))).
Definition th2_raw (raw : str) : bool := str_eqb raw (chain_text (hs raw) (hws raw)).
Definition th2_holo (v : value) : bool := match v with VHolo raw => th_raw raw || th2_raw raw | _ => false end.
Fixpoint coreth2_node (n : node) : bool :=
  match n with
  | NAssign k v _ t => (th2_holo v || cval v) && opt_ne t
  | NBlock k tg ch _ => opt_ne tg && (negb (is_nil ch) && forallb coreth2_node ch)
  | NSection i k a ch _ => opt_ne a && (negb (is_nil ch) && forallb coreth2_node ch)
  | _ => false
  end.
Definition coreth2_doc (d : doc) : bool := coret_doc d && forallb coreth2_node (dsections d).
Definition ch_fits (l : list sh) (s : str) (ws : list str) : bool := all2 tmatchb (map tok_of_sh (chain_shape s ws)) l.
(* a chain needs the clause on the oracle cls; the other holographic values the side condition of Rt/LexLinkTH.v *)
Definition th2_safe (cls : N -> N) (hsh : str -> list sh) (raw : str) : bool :=
  (th2_raw raw && cls_and_ok cls && chain_ok (hws raw) && ch_fits (hsh raw) (hs raw) (hws raw)) || (th_raw raw && th_safe hsh raw).
Definition lex_safeth2_val (cls : N -> N) (hsh : str -> list sh) (k : str) (v : value) : bool :=
  match v with VHolo raw => th2_safe cls hsh raw | _ => lex_safe2_val k v end.
Fixpoint lex_safeth2_node (cls : N -> N) (hsh : str -> list sh) (n : node) : bool :=
  match n with
  | NAssign k v l t => key_ok k && lex_safeth2_val cls hsh k v && forallb comment_ok l && trail_ok t
  | NBlock k tg ch l => key_ok k && target_ok tg && forallb comment_ok l && forallb (lex_safeth2_node cls hsh) ch
  | NSection i k a ch l => sid_ok i && key_ok k && annot_ok a && forallb comment_ok l && forallb (lex_safeth2_node cls hsh) ch
  | NComment _ => false
  end.
Definition lex_safeth2_doc (cls : N -> N) (hsh : str -> list sh) (d : doc) : bool :=
  name_ok (dname d) && (match dgrammar d with Some g => ver_ok g | None => true end) &&
  forallb (lex_safeth2_node cls hsh) (dsections d) && forallb meta_ok (dmeta d) && forallb comment_ok (dtrailing d).

Lemma lexto_fits_gen cls st st' l L pre post :
  all2 tmatchb (map tok_of_sh L) l = true -> forallb txt_sh L = true -> lexto cls st (pre ++ L ++ post) st' -> lexto cls st (pre ++ l ++ post) st'.
Proof.
  intros Hf Ht (H1 & (ts & Htk & HF) & H3). split; [exact H1|]. split; [|exact H3]. exists ts. split; [exact Htk|].
  apply Forall2_app_inv_r in HF. destruct HF as (t1 & t23 & F1 & F23 & ->).
  apply Forall2_app_inv_r in F23. destruct F23 as (t2 & t3 & F2 & F3 & ->).
  apply Forall2_app; [exact F1|]. apply Forall2_app; [|exact F3]. apply all2_F2 in Hf. exact (fits_gen _ _ _ Hf Ht F2).
Qed.

(* a holographic assignment of the fragment: a chain, or a value of the class of Rt/LexLinkTH.v *)
Lemma holo2_parts cls hsh k raw l t : coreth2_node (NAssign k (VHolo raw) l t) = true -> lex_safeth2_node cls hsh (NAssign k (VHolo raw) l t) = true ->
  (exists s ws, raw = chain_text s ws /\ cls_and_ok cls = true /\ chain_ok ws = true /\ ch_fits (hsh raw) s ws = true /\
                key_ok k = true /\ forallb comment_ok l = true /\ trail_ok t = true /\ opt_ne t = true) \/
  (coreth_node (NAssign k (VHolo raw) l t) = true /\ lex_safeth_node hsh (NAssign k (VHolo raw) l t) = true).
Proof.
  intros Hc Hs. cbn [coreth2_node th2_holo cval is_scalar sval_of] in Hc. rewrite orb_false_r in Hc. apply andb_true_iff in Hc as [Hraw Hne].
  cbn [lex_safeth2_node lex_safeth2_val] in Hs. apply andb_true_iff in Hs as [Hs Ht]. apply andb_true_iff in Hs as [Hs Hl]. apply andb_true_iff in Hs as [Hk Hv].
  unfold th2_safe in Hv. apply orb_true_iff in Hv as [Hv|Hv].
  - left. apply andb_true_iff in Hv as [Hv Hf]. apply andb_true_iff in Hv as [Hv Hok]. apply andb_true_iff in Hv as [E2 Hcls].
    unfold th2_raw in E2. apply str_eqb_eq in E2. exists (hs raw), (hws raw). repeat split; assumption.
  - right. apply andb_true_iff in Hv as [Hr1 Hv]. split.
    + cbn [coreth_node th_holo cval is_scalar sval_of]. rewrite Hr1, Hne. reflexivity.
    + cbn [lex_safeth_node lex_safeth_val]. rewrite Hk, Hv, Hl, Ht. reflexivity.
Qed.
Lemma holo2_text_ok cls hsh k raw l t : coreth2_node (NAssign k (VHolo raw) l t) = true -> lex_safeth2_node cls hsh (NAssign k (VHolo raw) l t) = true ->
  forall D, tok_text (unlines (emit_node_lines (NAssign k (VHolo raw) l t) D)) = true.
Proof.
  intros Hc Hs D. destruct (holo2_parts cls hsh k raw l t Hc Hs) as [(s & ws & E & _ & Hw & _ & Hk & Hl & Ht & _)|[Hc' Hs']].
  - rewrite emit_holo_lines, tok_text_unlines_app, (tok_leading D l Hl), tok_unlines1. cbn [andb].
    apply line_tok, line_ok_key; [exact Hk|]. rewrite E, !plain_app, (plain_chain s ws Hw), (plain_trailing _ Ht). reflexivity.
  - exact (node_text_okth hsh _ Hc' Hs' D).
Qed.

(* ---- emitted lines of the fragment ---------------------------------------------------------------------------------------------------------------------------- *)
Lemma coreth2_child_lines c D : coreth2_node c = true ->
  match c with
  | NAssign [] (VZone content tag marker) _ _ => zone_lines (S D) content tag marker
  | _ => emit_node_lines c (S D)
  end = emit_node_lines c (S D).
Proof.
  destruct c as [k v l t| | |]; try reflexivity. cbn [coreth2_node]. intros H. apply andb_true_iff in H as [H _].
  destruct v; cbn [th2_holo orb cval is_scalar sval_of] in H; try discriminate H; destruct k; reflexivity.
Qed.
Lemma emit_block_linesth2 k tg ch l D : forallb coreth2_node ch = true -> opt_ne tg = true ->
  emit_node_lines (NBlock k tg ch l) D =
  emit_leading l D ++ [ind D ++ k ++ target_text tg ++ [c_colon]] ++ flat_map (fun c => emit_node_lines c (S D)) ch.
Proof.
  intros H Hne. cbn [emit_node_lines]. f_equal.
  assert (E : flat_map (fun c => match c with NAssign [] (VZone content tag marker) _ _ => zone_lines (S D) content tag marker
                                              | _ => emit_node_lines c (S D) end) ch = flat_map (fun c => emit_node_lines c (S D)) ch).
  { clear -H. induction ch as [|c cs IH]; [reflexivity|]. cbn [forallb] in H. apply andb_true_iff in H as [H1 H2].
    cbn [flat_map]. rewrite (coreth2_child_lines c D H1), (IH H2). reflexivity. }
  rewrite E. destruct tg as [[|x r]|]; try discriminate Hne; reflexivity.
Qed.

(* a holographic assignment of the fragment, decoded *)
Section NodesTH2.
Variable cls : N -> N.
Variable hsh : str -> list sh.
Notation node_sht := (node_sht ml idnum_digits hsh).
Notation nodes_sht := (nodes_sht ml idnum_digits hsh).

Definition LTH2_node (n : node) : Prop :=
  coreth2_node n = true -> lex_safeth2_node cls hsh n = true ->
  forall D st rest, ls_in st = unlines (emit_node_lines n D) ++ rest -> ready st ->
    exists st', lexto cls st (node_sht D n) st' /\ ls_in st' = rest /\ ready st'.

Lemma lex_nodesth2 ch : Forall LTH2_node ch -> forallb coreth2_node ch = true -> forallb (lex_safeth2_node cls hsh) ch = true ->
  forall D st rest, ls_in st = unlines (flat_map (fun c => emit_node_lines c D) ch) ++ rest -> ready st ->
    exists st', lexto cls st (nodes_sht D ch) st' /\ ls_in st' = rest /\ ready st'.
Proof.
  induction ch as [|c cs IH]; intros HP Hc Hs D st rest Hin Hr.
  - exists st. split; [apply lexto_refl|split; [exact Hin|exact Hr]].
  - inversion HP as [|? ? HPc HPcs]; subst.
    cbn [forallb] in Hc, Hs. apply andb_true_iff in Hc as [Hc1 Hc2]. apply andb_true_iff in Hs as [Hs1 Hs2].
    cbn [flat_map] in Hin. rewrite unlines_app, <- app_assoc in Hin.
    destruct (HPc Hc1 Hs1 D st _ Hin Hr) as (st1 & L1 & I1 & R1).
    destruct (IH HPcs Hc2 Hs2 D st1 rest I1 R1) as (st2 & L2 & I2 & R2).
    exists st2. split; [|split; assumption]. unfold TokRoundT.nodes_sht. cbn [flat_map]. eapply lexto_trans; [exact L1|exact L2].
Qed.

Lemma LTH2_holo k raw l t : LTH2_node (NAssign k (VHolo raw) l t).
Proof.
  intros Hc Hs D st rest Hin Hr.
  destruct (holo2_parts cls hsh k raw l t Hc Hs) as [(s & ws & E & Hcls & Hw & Hf & Hk & Hl & Ht & Hne)|[Hc' Hs']];
    [|exact (all_LTH_node cls hsh _ Hc' Hs' D st rest Hin Hr)].
  rewrite emit_holo_lines, unlines_app, <- app_assoc in Hin.
  destruct (lex_lead cls D l st _ Hl Hin Hr) as (st1 & L1 & I1 & R1).
  cbn [unlines flat_map] in I1. rewrite app_nil_r, <- app_assoc in I1. cbn [app] in I1.
  assert (I1' : ls_in st1 = (ind D ++ k ++ s_assign ++ chain_text s ws ++ emit_trailing t) ++ c_nl :: rest).
  { rewrite I1. rewrite <- E. rewrite <- !app_assoc. reflexivity. }
  destruct (lex_chain_line cls D k s ws t st1 rest Hcls Hk Hw Hne Ht I1' R1) as (st2 & L2 & I2 & R2).
  exists st2. split; [|split; assumption]. unfold TokRoundT.node_sht. cbn [lead_of main_sht val_sht].
  assert (L : lexto cls st ((lead_sh D l ++ indent_sh D ++ [(IDENTIFIER, Some (TVText k)); (ASSIGN, None)]) ++ chain_shape s ws ++ (trail_sh t ++ [(NEWLINE, None)])) st2).
  { rewrite <- !app_assoc. eapply lexto_trans; [exact L1|exact L2]. }
  apply (lexto_fits_gen cls st st2 (hsh raw) _ _ _ Hf (chain_shape_txt s ws)) in L. rewrite <- !app_assoc in L. exact L.
Qed.

Theorem all_LTH2_node : forall n, LTH2_node n.
Proof.
  apply node_ind2.
  - intros k v l t. destruct (is_holo v) eqn:Eh.
    + destruct v; try discriminate Eh. apply LTH2_holo.
    + intros Hc Hs D st rest Hin Hr.
      assert (Hc' : coretb_node (NAssign k v l t) = true) by (destruct v; try discriminate Eh; exact Hc).
      assert (Hs' : lex_safet_node (NAssign k v l t) = true) by (destruct v; try discriminate Eh; exact Hs).
      exact (all_LT_node cls hsh (NAssign k v l t) Hc' Hs' D st rest Hin Hr).
  - unfold LTH2_node. intros k tg ch l IH Hc Hs D st rest Hin Hr. cbn [coreth2_node] in Hc. apply andb_true_iff in Hc as [Hne Hc]. apply andb_true_iff in Hc as [_ Hcc].
    cbn [lex_safeth2_node] in Hs. apply andb_true_iff in Hs as [Hs Hss]. apply andb_true_iff in Hs as [Hs Hl]. apply andb_true_iff in Hs as [Hk Htg].
    rewrite (emit_block_linesth2 k tg ch l D Hcc Hne), !unlines_app, <- !app_assoc in Hin.
    destruct (lex_lead cls D l st _ Hl Hin Hr) as (st1 & L1 & I1 & R1).
    cbn [unlines flat_map] in I1. rewrite app_nil_r, <- app_assoc in I1. cbn [app] in I1.
    assert (HH : exists st2, lexto cls st1 (indent_sh D ++ (IDENTIFIER, Some (TVText k)) :: target_sh tg ++ [(BLOCK, None); (NEWLINE, None)]) st2 /\
                             ls_in st2 = unlines (flat_map (fun c => emit_node_lines c (S D)) ch) ++ rest /\ ready st2).
    { destruct tg as [[|x r]|]; [discriminate Hne| |].
      - exact (lex_target_header cls D k (x :: r) st1 _ Hk Htg I1 R1).
      - exact (lex_block_header cls D k st1 _ Hk I1 R1). }
    destruct HH as (st2 & L2 & I2 & R2).
    destruct (lex_nodesth2 ch IH Hcc Hss (S D) st2 rest I2 R2) as (st3 & L3 & I3 & R3).
    exists st3. split; [|split; assumption]. unfold TokRoundT.node_sht. cbn [lead_of]. rewrite main_sht_block.
    eapply lexto_trans; [exact L1|].
    replace (indent_sh D ++ (IDENTIFIER, Some (TVText k)) :: target_sh tg ++ [(BLOCK, None); (NEWLINE, None)] ++ nodes_sht (S D) ch)
      with ((indent_sh D ++ (IDENTIFIER, Some (TVText k)) :: target_sh tg ++ [(BLOCK, None); (NEWLINE, None)]) ++ nodes_sht (S D) ch)
      by (rewrite <- !app_assoc; cbn [app]; rewrite <- !app_assoc; reflexivity).
    eapply lexto_trans; [exact L2|exact L3].
  - unfold LTH2_node. intros i k a ch l IH Hc Hs D st rest Hin Hr. cbn [coreth2_node] in Hc. apply andb_true_iff in Hc as [Hne Hc]. apply andb_true_iff in Hc as [_ Hcc].
    cbn [lex_safeth2_node] in Hs. apply andb_true_iff in Hs as [Hs Hss]. apply andb_true_iff in Hs as [Hs Hl].
    apply andb_true_iff in Hs as [Hs Ha]. apply andb_true_iff in Hs as [Hi Hk].
    rewrite (emit_section_lines2 i k a ch l D), !unlines_app, <- !app_assoc in Hin.
    destruct (lex_lead cls D l st _ Hl Hin Hr) as (st1 & L1 & I1 & R1).
    cbn [unlines flat_map] in I1. rewrite app_nil_r, <- app_assoc in I1. cbn [app] in I1.
    destruct (lex_section_header cls D i k a st1 _ Hi Hk Ha Hne I1 R1) as (st2 & L2 & I2 & R2).
    destruct (lex_nodesth2 ch IH Hcc Hss (S D) st2 rest I2 R2) as (st3 & L3 & I3 & R3).
    exists st3. split; [|split; assumption]. unfold TokRoundT.node_sht. cbn [lead_of]. rewrite main_sht_section.
    eapply lexto_trans; [exact L1|]. rewrite !app_assoc. eapply lexto_trans; [|exact L3].
    rewrite <- !app_assoc. exact L2.
  - intros t Hc; discriminate Hc.
Qed.
End NodesTH2.

(* ---- the document ---------------------------------------------------------------------------------------------------------------------------------------------- *)
Lemma coreth2_parts d : coreth2_doc d = true ->
  coret_doc d = true /\ dfront d = None /\ forallb coreth2_node (dsections d) = true /\ forallb meta_field_ok (dmeta d) = true.
Proof.
  unfold coreth2_doc. intros H. apply andb_true_iff in H as [Hc Hn]. split; [exact Hc|]. unfold coret_doc in Hc.
  destruct (dfront d); [discriminate|]. split; [reflexivity|]. split; [exact Hn|].
  apply andb_true_iff in Hc as [Hc _]. apply andb_true_iff in Hc as [Hc _]. apply andb_true_iff in Hc as [_ Hm]. exact Hm.
Qed.
Lemma safeth2_parts cls hsh d : lex_safeth2_doc cls hsh d = true ->
  name_ok (dname d) = true /\ (match dgrammar d with Some g => ver_ok g | None => true end) = true /\
  forallb (lex_safeth2_node cls hsh) (dsections d) = true /\ forallb meta_ok (dmeta d) = true /\ forallb comment_ok (dtrailing d) = true.
Proof.
  unfold lex_safeth2_doc. intros Hs.
  apply andb_true_iff in Hs as [Hs Htr]. apply andb_true_iff in Hs as [Hs Hm]. apply andb_true_iff in Hs as [Hs Hn]. apply andb_true_iff in Hs as [Hname Hg].
  repeat split; assumption.
Qed.
Lemma hdr_doc_okh2 cls hsh d : lex_safeth2_doc cls hsh d = true -> lex_safez_doc cls (hdr_doc d) = true /\ prefix_lines (hdr_doc d) = prefix_lines d.
Proof.
  intros Hs. destruct (safeth2_parts cls hsh d Hs) as (H1 & H2 & _ & H4 & _). split; [|reflexivity].
  unfold lex_safez_doc, hdr_doc. cbn [dname dgrammar dsections dmeta dtrailing forallb]. rewrite H1, H2, H4. reflexivity.
Qed.

Lemma emit_lines_coreth2 cls hsh sp d : coreth2_doc d = true -> lex_safeth2_doc cls hsh d = true ->
  emit_lines sp d = prefix_lines d ++ flat_map (fun n => emit_node_lines n 0) (dsections d) ++ suffix_lines d.
Proof.
  intros Hc Hs. destruct (coreth2_parts d Hc) as (_ & Hfr & Hcn & Hmf). destruct (safeth2_parts cls hsh d Hs) as (_ & Hg & _).
  unfold emit_lines, prefix_lines, suffix_lines, grammar_lines. rewrite Hfr. cbn [app].
  assert (Esec : flat_map (fun n => match n with NComment _ => [] | _ => emit_node_lines n 0 end) (dsections d) =
                 flat_map (fun n => emit_node_lines n 0) (dsections d)).
  { clear -Hcn. induction (dsections d) as [|c cs IH]; [reflexivity|]. cbn [forallb] in Hcn. apply andb_true_iff in Hcn as [H1 H2].
    cbn [flat_map]. rewrite (IH H2). destruct c; try reflexivity. discriminate H1. }
  rewrite Esec.
  assert (Eg : match truthy (dgrammar d) with Some g => [s_octave ++ g] | None => [] end =
               match dgrammar d with Some g => [s_octave ++ g] | None => [] end).
  { destruct (dgrammar d) as [g|]; [|reflexivity]. destruct (ver_ok_nonempty _ Hg) as (x & r & ->). reflexivity. }
  rewrite Eg. unfold meta_lines. destruct (dmeta d) as [|kv m] eqn:Em.
  - repeat (progress (rewrite <- ?app_assoc; cbn [app])). reflexivity.
  - cbv zeta. rewrite (emit_meta_lines_core _ Hmf). cbn [map]. repeat (progress (rewrite <- ?app_assoc; cbn [app])). reflexivity.
Qed.

(* the pre-passes *)
Lemma node_text_okth2 cls hsh : forall n, coreth2_node n = true -> lex_safeth2_node cls hsh n = true -> forall D, tok_text (unlines (emit_node_lines n D)) = true.
Proof.
  apply (node_ind2 (fun n => coreth2_node n = true -> lex_safeth2_node cls hsh n = true -> forall D, tok_text (unlines (emit_node_lines n D)) = true)).
  - intros k v l t Hc Hs D. destruct (is_holo v) eqn:Eh.
    + destruct v; try discriminate Eh. exact (holo2_text_ok cls hsh k raw l t Hc Hs D).
    + assert (Hc' : coretb_node (NAssign k v l t) = true) by (destruct v; try discriminate Eh; exact Hc).
      assert (Hs' : lex_safet_node (NAssign k v l t) = true) by (destruct v; try discriminate Eh; exact Hs).
      exact (node_text_okt (NAssign k v l t) Hc' Hs' D).
  - intros k tg ch l IH Hc Hs D. cbn [coreth2_node] in Hc. apply andb_true_iff in Hc as [Hne Hc]. apply andb_true_iff in Hc as [_ Hcc].
    cbn [lex_safeth2_node] in Hs. apply andb_true_iff in Hs as [Hs Hss]. apply andb_true_iff in Hs as [Hs Hl]. apply andb_true_iff in Hs as [Hk Htg].
    rewrite (emit_block_linesth2 k tg ch l D Hcc Hne), !tok_text_unlines_app, (tok_leading D l Hl), tok_unlines1. cbn [andb].
    rewrite (line_tok _ (line_ok_key D k _ Hk (plain_target tg Htg))). cbn [andb].
    induction ch as [|c cs IHc]; [reflexivity|]. inversion IH as [|? ? Pc Pcs]; subst.
    cbn [forallb] in Hcc, Hss. apply andb_true_iff in Hcc as [Hc1 Hc2]. apply andb_true_iff in Hss as [Hs1 Hs2].
    cbn [flat_map]. rewrite tok_text_unlines_app, (Pc Hc1 Hs1 (S D)), (IHc Pcs Hc2 Hs2). reflexivity.
  - intros i k a ch l IH Hc Hs D. cbn [coreth2_node] in Hc. apply andb_true_iff in Hc as [Hne Hc]. apply andb_true_iff in Hc as [_ Hcc].
    cbn [lex_safeth2_node] in Hs. apply andb_true_iff in Hs as [Hs Hss]. apply andb_true_iff in Hs as [Hs Hl].
    apply andb_true_iff in Hs as [Hs Ha]. apply andb_true_iff in Hs as [Hi Hk].
    rewrite (emit_section_lines2 i k a ch l D), !tok_text_unlines_app, (tok_leading D l Hl), tok_unlines1. cbn [andb].
    assert (Hline : LexLink.line_ok (ind D ++ [167] ++ i ++ s_assign ++ k ++ annot_text a) = true).
    { unfold LexLink.line_ok. rewrite !plain_app, plain_ind, (plain_sid _ Hi), (plain_keyok _ Hk). cbn [andb].
      assert (Pa : plain (annot_text a) = true).
      { destruct a as [[|x a']|]; try reflexivity. cbn [annot_ok annot_text] in *. rewrite !plain_app, (plain_keyok _ Ha). reflexivity. }
      rewrite Pa. cbn [andb app]. apply fence_free_ind; chr. }
    rewrite (line_tok _ Hline). cbn [andb].
    induction ch as [|c cs IHc]; [reflexivity|]. inversion IH as [|? ? Pc Pcs]; subst.
    cbn [forallb] in Hcc, Hss. apply andb_true_iff in Hcc as [Hc1 Hc2]. apply andb_true_iff in Hss as [Hs1 Hs2].
    cbn [flat_map]. rewrite tok_text_unlines_app, (Pc Hc1 Hs1 (S D)), (IHc Pcs Hc2 Hs2). reflexivity.
  - intros t Hc; discriminate Hc.
Qed.

Section DocTH2.
Variable cls : N -> N.
Variable hsh : str -> list sh.

Lemma emit_text_okth2 sp d : coreth2_doc d = true -> lex_safeth2_doc cls hsh d = true -> tok_text (emit sp d) = true.
Proof.
  intros Hc Hs. rewrite emit_unlines, (emit_lines_coreth2 cls hsh sp d Hc Hs). destruct (coreth2_parts d Hc) as (_ & _ & Hcn & Hmf).
  destruct (safeth2_parts cls hsh d Hs) as (_ & _ & Hn & _ & Htr). destruct (hdr_doc_okh2 cls hsh d Hs) as [Hz Ep].
  rewrite !tok_text_unlines_app, <- Ep, (prefix_text_ok cls (hdr_doc d) Hmf Hz). cbn [andb].
  assert (A5 : tok_text (unlines (flat_map (fun n => emit_node_lines n 0) (dsections d))) = true).
  { clear -Hcn Hn. induction (dsections d) as [|c cs IH]; [reflexivity|]. cbn [forallb] in Hcn, Hn.
    apply andb_true_iff in Hcn as [Hc1 Hc2]. apply andb_true_iff in Hn as [Hn1 Hn2].
    cbn [flat_map]. rewrite tok_text_unlines_app, (node_text_okth2 cls hsh c Hc1 Hn1 0%nat), (IH Hc2 Hn2). reflexivity. }
  rewrite A5. unfold suffix_lines. rewrite tok_text_unlines_app, (tok_leading 0 _ Htr). reflexivity.
Qed.

Lemma all_LTH2_nodes ns : Forall (LTH2_node cls hsh) ns.
Proof. apply Forall_forall. intros n _. apply all_LTH2_node. Qed.

Lemma lex_docth2 sp d : coreth2_doc d = true -> lex_safeth2_doc cls hsh d = true ->
  forall st, ls_in st = emit sp d -> ls_pos st = 0 -> ls_spans st = [] ->
  exists st', lexto cls st (doct_sh ml idnum_digits hsh d ++ [(NEWLINE, None)]) st' /\ ls_in st' = [].
Proof.
  intros Hc Hs st Hin Hp Hsp. destruct (coreth2_parts d Hc) as (_ & _ & Hcn & Hmf). destruct (safeth2_parts cls hsh d Hs) as (_ & _ & Hn & _ & Htr).
  destruct (hdr_doc_okh2 cls hsh d Hs) as [Hz Ep].
  rewrite emit_unlines, (emit_lines_coreth2 cls hsh sp d Hc Hs), !unlines_app, <- Ep in Hin.
  destruct (lex_prefix cls (hdr_doc d) st _ Hmf Hz Hin Hp Hsp) as (st1 & L1 & I1 & R1).
  destruct (lex_nodesth2 cls hsh (dsections d) (all_LTH2_nodes _) Hcn Hn 0%nat st1 _ I1 R1) as (st2 & L2 & I2 & R2).
  destruct (lex_suffix cls d st2 Htr I2 R2) as (st3 & L3 & I3 & _).
  exists st3. split; [|exact I3].
  assert (E : doct_sh ml idnum_digits hsh d ++ [(NEWLINE, None)] =
              (g_sh (hdr_doc d) ++ [(ENVELOPE_START, Some (TVText (dname (hdr_doc d)))); (NEWLINE, None)] ++ meta_sh ml (dmeta (hdr_doc d)) ++ sep_shz (hdr_doc d)) ++
              nodes_sht ml idnum_digits hsh 0 (dsections d) ++ (lead_sh 0 (dtrailing d) ++ [(ENVELOPE_END, None)] ++ [(NEWLINE, None)])).
  { unfold doct_sh, g_sh, sep_shz, hdr_doc. cbn [dname dgrammar dsep dmeta]. rewrite <- !app_assoc. reflexivity. }
  rewrite E. eapply lexto_trans; [exact L1|]. eapply lexto_trans; [exact L2|exact L3].
Qed.

(* (b) THE LEXER HALF for coret documents whose holographic values are of the class [ "s" ∧ W ] / [ "s" ∧ W["a1",..,"an"] ] *)
Theorem lex_emit_coreth2 sp d : coreth2_doc d = true -> lex_safeth2_doc cls hsh d = true ->
  exists ts tnl teof,
    tokenize cls false (lines_of (emit sp d)) = LexOk (ts ++ [tnl; teof]) [] /\
    Forall2 tmatch ts (doct_sh ml idnum_digits hsh d) /\ tk tnl = NEWLINE /\ tk teof = EOF.
Proof.
  intros Hc Hs. destruct (coreth2_parts d Hc) as (_ & Hfr & _).
  rewrite (tokenize_tok_text cls false _ (emit_text_okth2 sp d Hc Hs) (emit_nonblank_head sp d Hfr)).
  set (st0 := mkLS (emit sp d) None 0 1 1 [] [] [] []).
  destruct (lex_docth2 sp d Hc Hs st0 eq_refl eq_refl eq_refl) as (st' & (Hst & (tsall & Ht & HF) & Hr & Hb & _) & Hin).
  rewrite (run_steps_finish cls st0 st' _ Hst Hin) by (cbn [ls_in st0]; lia).
  apply Forall2_app_inv_r in HF. destruct HF as (ts & tl & HF1 & HF2 & ->).
  inversion HF2 as [|tnl ? ? ? [Hnl _] HF3]; subst. inversion HF3; subst. cbn [fst] in Hnl.
  exists ts, tnl, (mkTok EOF TVNone (ls_line st') (ls_col st') None).
  split; [|split; [exact HF1|split; [exact Hnl|reflexivity]]].
  unfold finish. rewrite Hb, Hr, Ht. cbn [ls_brk ls_reps ls_toks st0 rev app].
  rewrite app_nil_r, rev_involutive, <- app_assoc. reflexivity.
Qed.

Lemma emit_first_lineth2 sp d : coreth2_doc d = true -> lex_safeth2_doc cls hsh d = true ->
  exists l0 r, split_on c_nl (emit sp d) = l0 :: r /\ prefixb s_dashes l0 = false.
Proof.
  intros Hc Hs. destruct (safeth2_parts cls hsh d Hs) as (Hname & Hg & _).
  rewrite emit_unlines, (emit_lines_coreth2 cls hsh sp d Hc Hs). unfold prefix_lines, grammar_lines.
  destruct (dgrammar d) as [g|].
  - cbn [app]. rewrite unlines_cons, split_on_app.
    + eexists _, _. split; [reflexivity|reflexivity].
    + pose proof (plain_ver _ Hg) as P. unfold plain in P. apply andb_true_iff in P as [P _]. apply negb_true_iff in P.
      rewrite LexLinkBase.memb_app, P. reflexivity.
  - cbn [app]. rewrite unlines_cons, split_on_app.
    + eexists _, _. split; [reflexivity|reflexivity].
    + unfold name_ok in Hname. apply andb_true_iff in Hname as [Hw _].
      pose proof (plain_key _ (word_ok_chars _ Hw)) as P. unfold plain in P. apply andb_true_iff in P as [P _]. apply negb_true_iff in P.
      rewrite !LexLinkBase.memb_app, P. reflexivity.
Qed.

(* (c) composed with the parser half.  The semantic side hypotheses are those of text_roundtrip_coretb (at a holographic site nodes_side asks
   TokRoundTHolo.hsite_okb: the group is in the proved class, its reconstruction is the raw text, the oracle holo_ok accepts it) *)
Theorem text_roundtrip_coreth2 numcanon holo_ok strict sp d :
  coreth2_doc d = true -> lex_safeth2_doc cls hsh d = true ->
  nodes_side numcanon holo_ok idnum_digits hsh (dsections d) -> Forall (TokRoundT.field_num_ok numcanon) (dmeta d) ->
  exists warns,
    parse_model cls numcanon holo_ok strict (lines_of (emit sp d)) = PRDoc d [] warns /\ Forall advisory warns.
Proof.
  intros Hc Hs Hside Hmnum. destruct (coreth2_parts d Hc) as (Hct & Hfr & _).
  destruct (lex_emit_coreth2 sp d Hc Hs) as (ts & tnl & teof & Htok & HF & _ & _).
  destruct (emit_first_lineth2 sp d Hc Hs) as (l0 & r & El & Hl0).
  unfold parse_model.
  rewrite (strip_frontmatter_none (u_space cls) (emit sp d) l0 r El Hl0), Htok.
  destruct (parse_coret_doc numcanon holo_ok strict (u_space cls) (u_alpha cls) ml idnum_digits hsh d Hct
              (nodes_side_nums numcanon holo_ok strict (u_space cls) idnum_digits hsh _ Hside) Hmnum
              (mkPS (ts ++ [tnl; teof]) None 0 [] 0 []) ts [tnl; teof]) as (st' & Hp & (l & Hw & Hadv) & _);
    [discriminate|reflexivity|exact HF|reflexivity|].
  rewrite Hp. exists (rev (pwarns st')). split.
  - f_equal. destruct d as [name gr fr sep meta secs trl]. cbn [dfront] in Hfr. subst fr. reflexivity.
  - rewrite Hw. cbn [pwarns]. rewrite app_nil_r. apply Forall_rev. exact Hadv.
Qed.
End DocTH2.

Print Assumptions lex_emit_coreth2.
Print Assumptions text_roundtrip_coreth2.
Print Assumptions G_keyz.
Print Assumptions lex_chain_line.
Print Assumptions hsh_lex_chain.
