(* Non-vacuity of Rt/TokLenient.v: hand-written LENIENT texts (indent widths 1/3/4/7/10 mixed, blank lines everywhere, column-0 and
   over-indented comments, arbitrary layout inside brackets, no ===END===) read by the full model, their token streams matched against
   doc2_sh_len; the composition with the lexer model through the executable shape check; convergence with the canonical text; and
   `_refuted` witnesses for layouts outside layout_ok that CHANGE the tree. *)
From OV Require Import Base.Strs Lex.Lexer Syn.Ast Syn.Emitter Syn.Parser Syn.Wf
     Rt.TokRound Rt.TokRoundEx Rt.LexLinkBase Rt.TokRound2 Rt.TokRound2Ex Rt.TokLenient.
From Coq Require Import Lia.
Require Coq.Strings.String.
Import Coq.Strings.String.StringSyntax.
Open Scope N_scope.

Definition unl (ls : list str) : str := flat_map (fun l => l ++ [c_nl]) ls.
Definition L (i : option N) (b : nat) := mkLL i b.
Definition V0 := VLay [] [] [].

(* ---- example 1: no END, no grammar line ------------------------------------------------------------------------------------------------ *)
Definition len_text : str := unl [
  [];
  lit "===DOC===";
  [];
  lit "META:";
  [];
  lit "   TYPE::""x y""";
  lit "     N::1";
  [];
  lit "---";
  [];
  lit "// lead a";
  lit " A::1 // tr";
  lit "B:";
  [];
  lit "   // lc";
  lit "// col0 comment in body";
  lit "    C::[1,";
  lit "  // inside";
  lit "";
  lit " 2]";
  [];
  lit "   " ++ [167] ++ lit "1::SEC";
  lit "       E::true";
  [];
  lit "          F::null";
  lit " // one-space comment after the block";
  lit "H::""""";
  [];
  lit "  // trailing";
  [] ].
Definition len_doc : doc :=
  mkDoc (lit "DOC") None None true [(lit "TYPE", MV (VStr (lit "x y"))); (lit "N", MV n1)]
   [ NAssign (lit "A") n1 [lit "lead a"] (Some (lit "tr"));
     NBlock (lit "B") None
       [ NAssign (lit "C") (VList [n1; n2]) [lit "lc"; lit "col0 comment in body"] None;
         NSection (lit "1") (lit "SEC") None [ NAssign (lit "E") (VBool true) [] None; NAssign (lit "F") VNull [] None ] [] ] [];
     NAssign (lit "H") (VStr []) [lit "one-space comment after the block"] None ]
   [lit "trailing"].
Definition len_lay : dlay :=
  mkDL 1 0 1 1 [(L (Some 3) 0, V0); (L (Some 5) 1, V0)] 1
    [ NLay [L None 0] (L (Some 1) 0) V0 [];
      NLay [] (L None 1) V0
        [ NLay [L (Some 3) 0; L None 0] (L (Some 4) 1)
               (VLay [(NEWLINE, None); (INDENT, Some (TVCount 2)); (COMMENT, Some (TVText (lit "inside"))); (NEWLINE, None); (NEWLINE, None);
                      (INDENT, Some (TVCount 1))] [] []) [];
          NLay [] (L (Some 3) 0) V0 [ NLay [] (L (Some 7) 1) V0 []; NLay [] (L (Some 10) 0) V0 [] ] ];
      NLay [L (Some 1) 0] (L None 1) V0 [] ]
    [L (Some 2) 1] false.

Example len_core : core2_doc_l len_doc = true /\ core2_doc len_doc = false.    (* a comment right after the top-level block B *)
Proof. split; reflexivity. Qed.
Example len_layout_ok : layout_ok len_lay len_doc = true.
Proof. vm_compute. reflexivity. Qed.
Example len_nums : nums_ok2_l ex2_numcanon ex_idnum (dsections len_doc) /\ Forall (field_num_ok ex2_numcanon) (dmeta len_doc).
Proof. cbn. repeat split; try (intros _; eexists; reflexivity); repeat constructor. Qed.
(* the lexer model reads the hand-written text as exactly the shape (the shape ends with the EOF token) *)
Example len_lexes :
  match tokenize ex_cls false (lines_of len_text) with
  | LexOk toks reps => all2 tmatchb toks (doc2_sh_len ex_idnum len_lay len_doc) = true /\ reps = []
  | _ => False
  end.
Proof. vm_compute. split; reflexivity. Qed.
(* and the full model reads it as len_doc *)
Example len_parses : parse_model ex_cls ex2_numcanon (fun _ => false) true (lines_of len_text) = PRDoc len_doc [] [].
Proof. vm_compute. reflexivity. Qed.

(* ---- example 2: grammar line, END present, widths 1 / 4 / 5 / 9 along one path, a later child
        indented MORE than the first child ------------------------------------------------------------------------------------------------ *)
Definition len2_text : str := unl [
  lit "OCTAVE::5.1.0";
  []; [];
  lit "===DOC===";
  lit "   " ++ [167] ++ lit "X::TOP[ann]";
  [];
  lit "    A::[";
  lit "            1,";
  lit "            2,";
  lit "            3";
  lit "  ]  // after bracket";
  lit "    // lead of K";
  [];
  lit "       // second lead, deeper";
  lit "     K:";
  lit "         Z::null";
  [];
  [];
  lit "             Y::true";
  lit "      W::false";
  lit " LAST::1";
  [];
  lit "===END===" ].
Definition len2_doc : doc :=
  mkDoc (lit "DOC") (Some (lit "5.1.0")) None false []
   [ NSection (lit "X") (lit "TOP") (Some (lit "ann"))
       [ NAssign (lit "A") (VList [n1; n2; VNum false (lit "3")]) [] (Some (lit "after bracket"));
         NBlock (lit "K") None [ NAssign (lit "Z") VNull [] None; NAssign (lit "Y") (VBool true) [] None ] [lit "lead of K"; lit "second lead, deeper"];
         NAssign (lit "W") (VBool false) [] None ] [];
     NAssign (lit "LAST") n1 [] None ]
   [].
Definition len2_lay : dlay :=
  mkDL 0 2 0 0 [] 0
    [ NLay [] (L (Some 3) 1) V0
        [ NLay [] (L (Some 4) 0) (VLay [(NEWLINE, None); (INDENT, Some (TVCount 12))] [(NEWLINE, None); (INDENT, Some (TVCount 2))] [(NEWLINE, None); (INDENT, Some (TVCount 12))]) [];
          NLay [L (Some 4) 1; L (Some 7) 0] (L (Some 5) 0) V0 [ NLay [] (L (Some 9) 2) V0 []; NLay [] (L (Some 13) 0) V0 [] ];
          NLay [] (L (Some 6) 0) V0 [] ];
      NLay [] (L (Some 1) 1) V0 [] ]
    [] true.
Example len2_core : core2_doc_l len2_doc = true.
Proof. reflexivity. Qed.
Example len2_layout_ok : layout_ok len2_lay len2_doc = true.
Proof. vm_compute. reflexivity. Qed.
Example len2_lexes :
  match tokenize ex_cls false (lines_of len2_text) with
  | LexOk toks reps => all2 tmatchb toks (doc2_sh_len ex_idnum len2_lay len2_doc ++ [(NEWLINE, None); (EOF, None)]) = true /\ reps = []
  | _ => False
  end.
Proof. vm_compute. split; reflexivity. Qed.
Example len2_parses : parse_model ex_cls ex2_numcanon (fun _ => false) true (lines_of len2_text) = PRDoc len2_doc [] [].
Proof. vm_compute. reflexivity. Qed.

(* LEXER level: blank lines BEFORE the grammar line are layout (since /repo fix f2a06dd: the sentinel is tried at the start of the first
   non-blank line, Lexer.init_state).  Before that fix the first text was read as ===INFERRED=== with OCTAVE::"5.1.0" as an assignment. *)
Example blank_lines_before_grammar_line_are_layout :
  match parse_model ex_cls ex2_numcanon (fun _ => false) true (lines_of (unl [[]; lit "  "; lit "OCTAVE::5.1.0"; lit "===DOC==="; lit "A::1"; lit "===END==="])),
        parse_model ex_cls ex2_numcanon (fun _ => false) true (lines_of (unl [lit "OCTAVE::5.1.0"; []; lit "===DOC==="; lit "A::1"; lit "===END==="])) with
  | PRDoc d1 _ _, PRDoc d2 _ _ => d1 = d2 /\ dname d2 = lit "DOC" /\ dgrammar d2 = Some (lit "5.1.0")
  | _, _ => False
  end.
Proof. vm_compute. repeat split. Qed.

(* ---- composition with the lexer model --------------------------------------------------------------------------------------------------- *)
(* WHENEVER the model lexer reads a text as ts ++ tail with ts of the shape doc2_sh_len lay d for a layout of the class, the full model
   reads the text as d.  No assumption on how the text was produced. *)
Theorem text_lenient_checked cls numcanon holo_ok strict idnum d lay text ts tail reps :
  core2_doc_l d = true -> nums_ok2_l numcanon idnum (dsections d) -> Forall (field_num_ok numcanon) (dmeta d) ->
  layout_ok lay d = true ->
  strip_frontmatter (u_space cls) (lines_of text) = (lines_of text, None) ->
  tokenize cls false (lines_of text) = LexOk (ts ++ tail) reps ->
  all2 tmatchb ts (doc2_sh_len idnum lay d) = true ->
  exists warns, parse_model cls numcanon holo_ok strict (lines_of text) = PRDoc d reps warns /\ Forall advisory warns.
Proof.
  intros Hc Hnum Hmnum Hlay Hfm Htok Hsh. apply all2_F2 in Hsh.
  unfold parse_model. rewrite Hfm, Htok.
  destruct (parse_core2_doc_len numcanon holo_ok strict (u_space cls) (u_alpha cls) idnum d lay Hc Hnum Hmnum Hlay
              (mkPS (ts ++ tail) None 0 [] 0 []) ts tail) as (st' & Hp & (l & Hw & Hadv) & _);
    [reflexivity|exact Hsh|reflexivity|].
  rewrite Hp. exists (rev (pwarns st')). split.
  - f_equal. destruct d as [name gr fr sep meta secs trl]. unfold core2_doc_l in Hc. cbn [dfront] in Hc.
    destruct fr; [discriminate Hc|]. reflexivity.
  - rewrite Hw. cbn [pwarns]. rewrite app_nil_r. apply Forall_rev. exact Hadv.
Qed.

Example len_by_theorem :
  exists warns, parse_model ex_cls ex2_numcanon (fun _ => false) true (lines_of len_text) = PRDoc len_doc [] warns /\ Forall advisory warns.
Proof.
  pose (toks := match tokenize ex_cls false (lines_of len_text) with LexOk t _ => t | _ => [] end).
  assert (E : tokenize ex_cls false (lines_of len_text) = LexOk (toks ++ []) []) by (vm_compute; reflexivity).
  apply (text_lenient_checked ex_cls ex2_numcanon (fun _ => false) true ex_idnum len_doc len_lay len_text toks [] []
           (proj1 len_core) (proj1 len_nums) (proj2 len_nums) len_layout_ok); [vm_compute; reflexivity|exact E|vm_compute; reflexivity].
Qed.

(* ---- convergence: the lenient text and the canonical text of one document canonicalise to identical bytes --------------------------- *)
(* len2_doc is a core2 document, so its canonical text emit(len2_doc) is covered by the canonical instance; len2_text is another layout of
   the same document: both parse to len2_doc, hence re-emit identically *)
Example len2_canonical_instance : core2_doc len2_doc = true /\ layout_ok (canonical_lay ex_ml len2_doc) len2_doc = true.
Proof. split; [reflexivity|]. apply layout_ok_canonical. reflexivity. Qed.
Example len2_converges :
  match parse_model ex_cls ex2_numcanon (fun _ => false) true (lines_of len2_text),
        parse_model ex_cls ex2_numcanon (fun _ => false) true (lines_of (emit (u_space ex_cls) len2_doc)) with
  | PRDoc d1 _ _, PRDoc d2 _ _ => emit (u_space ex_cls) d1 = emit (u_space ex_cls) d2 /\ d1 = len2_doc
  | _, _ => False
  end.
Proof. vm_compute. split; reflexivity. Qed.
(* the canonical shape is the canonical-layout instance of the lenient shape, on the examples by evaluation (in general:
   TokLenient.doc2_sh_len_canonical) *)
Definition eqsh (a b : sh) : bool := tmatchb (tok_of_sh a) b && tmatchb (tok_of_sh b) a.
Example canonical_shapes_agree :
  forallb (fun d => all2 eqsh (doc2_sh_len ex_idnum (canonical_lay ex_ml d) d) (doc2_sh ex_ml ex_idnum d) && layout_ok (canonical_lay ex_ml d) d)
          [ex_s1; ex_s2; ex_s3; ex_s4; ex_s4b; len2_doc] = true.
Proof. vm_compute. reflexivity. Qed.

(* ---- the unrestricted statement and the layouts that change the tree ------------------------------------------------------------------- *)
(* every layout structurally compatible with the document (same list lengths), no condition on counts / columns *)
Definition parse_len_concl (lay : dlay) (d : doc) : Prop :=
  forall st0 ts tail, pbdepth st0 = 0 -> Forall2 tmatch ts (doc2_sh_len ex_idnum lay d) -> ptoks st0 = ts ++ tail ->
    exists st', parse_document ex2_numcanon (fun _ => false) true (u_space ex_cls) (u_alpha ex_cls) st0 = POk d st' /\ wext2 st0 st'.
Definition parse_core2_doc_len_full : Prop :=
  forall lay d, core2_doc_l d = true -> nums_ok2_l ex2_numcanon ex_idnum (dsections d) -> parse_len_concl lay d.

Definition lst_of (lay : dlay) (d : doc) : pstate := mkPS (map tok_of_sh (doc2_sh_len ex_idnum lay d) ++ [eof_tok]) None 0 [] 0 [].
Definition reads_as (lay : dlay) (d d' : doc) : Prop :=
  match parse_document ex2_numcanon (fun _ => false) true (u_space ex_cls) (u_alpha ex_cls) (lst_of lay d) with
  | POk x _ => x = d'
  | _ => False
  end.
Ltac refute_len lay d :=
  let H := fresh "H" in let st' := fresh "st'" in let Hp := fresh "Hp" in
  intros H;
  destruct (H (lst_of lay d) (map tok_of_sh (doc2_sh_len ex_idnum lay d)) [eof_tok]) as (st' & Hp & _);
  [reflexivity|apply toks_match|reflexivity|];
  vm_compute in Hp; discriminate Hp.

Definition A0 (i : option N) := NLay [] (L i 0) V0 [].
Definition dlay0 (ls : list nlay) (tr : list lline) := mkDL 0 0 0 0 [] 0 ls tr true.
Definition asg (k : str) := NAssign k n1 [] None.
Definition txt_reads (text : str) (d' : doc) : Prop :=
  parse_model ex_cls ex2_numcanon (fun _ => false) true (lines_of text) = PRDoc d' [] [].

(* (R1) a later child indented LESS than the first child of its body (but more than the body's owner): it leaves the body.
   Indentation is structure: a different tree by design, not a defect. *)
Definition d_r1 := dd [NBlock (lit "P") None [asg (lit "A"); asg (lit "B")] []] [].
Definition l_r1 := dlay0 [NLay [] (L None 0) V0 [A0 (Some 4); A0 (Some 2)]] [].
Definition d_r1' := dd [NBlock (lit "P") None [asg (lit "A")] []; asg (lit "B")] [].
Lemma len_refuted_dedented_child :
  core2_doc_l d_r1 = true /\ layout_ok l_r1 d_r1 = false /\ ~ parse_len_concl l_r1 d_r1 /\ reads_as l_r1 d_r1 d_r1' /\
  txt_reads (unl [lit "===D==="; lit "P:"; lit "    A::1"; lit "  B::1"; lit "===END==="]) d_r1'.
Proof. split; [reflexivity|]. split; [reflexivity|]. split; [refute_len l_r1 d_r1|]. split; vm_compute; reflexivity. Qed.

(* (R2) the line after a nested body indented at (or beyond) the nested child indent: it joins the nested body.  By design. *)
Definition d_r2 := dd [NBlock (lit "P") None [NBlock (lit "A") None [asg (lit "X")] []; asg (lit "B")] []] [].
Definition l_r2 := dlay0 [NLay [] (L None 0) V0 [NLay [] (L (Some 2) 0) V0 [A0 (Some 4)]; A0 (Some 4)]] [].
Definition d_r2' := dd [NBlock (lit "P") None [NBlock (lit "A") None [asg (lit "X"); asg (lit "B")] []] []] [].
Lemma len_refuted_overindented_sibling :
  core2_doc_l d_r2 = true /\ layout_ok l_r2 d_r2 = false /\ ~ parse_len_concl l_r2 d_r2 /\ reads_as l_r2 d_r2 d_r2'.
Proof. split; [reflexivity|]. split; [reflexivity|]. split; [refute_len l_r2 d_r2|]. vm_compute. reflexivity. Qed.

(* (R3) a column-0 comment as the FIRST line of a block body: parse_section skips NEWLINE and COMMENT tokens between the header and the
   first INDENT, the comment is DROPPED [no wf clause: the canonical emitter never produces this line; a lenient-layout loss] *)
Definition d_r3 := dd [NBlock (lit "P") None [NAssign (lit "A") n1 [lit "c"] None] []] [].
Definition l_r3 := dlay0 [NLay [] (L None 0) V0 [NLay [L None 0] (L (Some 2) 0) V0 []]] [].
Definition d_r3' := dd [NBlock (lit "P") None [asg (lit "A")] []] [].
Lemma len_refuted_col0_comment_after_block_header :
  core2_doc_l d_r3 = true /\ layout_ok l_r3 d_r3 = false /\ ~ parse_len_concl l_r3 d_r3 /\ reads_as l_r3 d_r3 d_r3' /\
  txt_reads (unl [lit "===D==="; lit "P:"; lit "// c"; lit "  A::1"; lit "===END==="]) d_r3'.
Proof. split; [reflexivity|]. split; [reflexivity|]. split; [refute_len l_r3 d_r3|]. split; vm_compute; reflexivity. Qed.
(* ... whereas after a SECTION header the same line is kept (collect_pre) and attached to the first child: accepted by the model,
   outside layout_ok (the class is sufficient, not necessary, here) *)
Definition d_r3s := dd [NSection (lit "1") (lit "P") None [NAssign (lit "A") n1 [lit "c"] None] []] [].
Example col0_comment_after_section_header_accepted : layout_ok l_r3 d_r3s = false /\ reads_as l_r3 d_r3s d_r3s.
Proof. split; vm_compute; reflexivity. Qed.

(* (R4) a column-0 comment directly after a nested body, at ANY depth: taken by the nested loop before it looks at the indent and
   flushed as an NComment child [comment-dedent, wf clause 14, KNOWN class] *)
Definition d_r4 := dd [NBlock (lit "P") None [NBlock (lit "A") None [asg (lit "X")] []; NAssign (lit "B") n1 [lit "c"] None] []] [].
Definition l_r4 := dlay0 [NLay [] (L None 0) V0 [NLay [] (L (Some 2) 0) V0 [A0 (Some 4)]; NLay [L None 0] (L (Some 2) 0) V0 []]] [].
Definition d_r4' := dd [NBlock (lit "P") None [NBlock (lit "A") None [asg (lit "X"); NComment (lit "c")] []; asg (lit "B")] []] [].
Lemma len_refuted_col0_comment_after_nested_body :
  core2_doc_l d_r4 = true /\ layout_ok l_r4 d_r4 = false /\ ~ parse_len_concl l_r4 d_r4 /\ reads_as l_r4 d_r4 d_r4'.
Proof. split; [reflexivity|]. split; [reflexivity|]. split; [refute_len l_r4 d_r4|]. vm_compute. reflexivity. Qed.
(* ... but with ANY indent below the nested child indent the comment is attached correctly -- also at the top level, where the canonical
   layout (column 0) is the excluded one: a one-space comment after a top-level block is in the class *)
Definition d_r10 := dd [NBlock (lit "P") None [asg (lit "A")] []; NAssign (lit "B") n1 [lit "c"] None] [].
Definition l_r10 := dlay0 [NLay [] (L None 0) V0 [A0 (Some 2)]; NLay [L (Some 1) 0] (L None 0) V0 []] [].
Example indented_comment_after_top_block_in_class :
  core2_doc d_r10 = false /\ core2_doc_l d_r10 = true /\ layout_ok l_r10 d_r10 = true /\ reads_as l_r10 d_r10 d_r10 /\
  txt_reads (unl [lit "===D==="; lit "P:"; lit "  A::1"; lit " // c"; lit "B::1"; lit "===END==="]) d_r10.
Proof. repeat split; vm_compute; reflexivity. Qed.

(* (R5) a child header at column 0 ends the body.  By design. *)
Definition l_r5 := dlay0 [NLay [] (L None 0) V0 [A0 (Some 2); A0 None]] [].
Lemma len_refuted_child_at_col0 :
  layout_ok l_r5 d_r1 = false /\ ~ parse_len_concl l_r5 d_r1 /\ reads_as l_r5 d_r1 d_r1'.
Proof. split; [reflexivity|]. split; [refute_len l_r5 d_r1|]. vm_compute. reflexivity. Qed.

(* (R6) a comment line between two children indented LESS than the body: it ends the body; the comment and the next child move up.
   By design (the INDENT token of the comment line is what block_loop looks at). *)
Definition d_r6 := dd [NBlock (lit "P") None [asg (lit "A"); NAssign (lit "B") n1 [lit "c"] None] []] [].
Definition l_r6 := dlay0 [NLay [] (L None 0) V0 [A0 (Some 4); NLay [L (Some 2) 0] (L (Some 4) 0) V0 []]] [].
Definition d_r6' := dd [NBlock (lit "P") None [asg (lit "A")] []; NAssign (lit "B") n1 [lit "c"] None] [].
Lemma len_refuted_dedented_comment :
  core2_doc_l d_r6 = true /\ layout_ok l_r6 d_r6 = false /\ ~ parse_len_concl l_r6 d_r6 /\ reads_as l_r6 d_r6 d_r6'.
Proof. split; [reflexivity|]. split; [reflexivity|]. split; [refute_len l_r6 d_r6|]. vm_compute. reflexivity. Qed.

(* (R7) children indented LESS than their header: accepted by the model when nothing follows in the outer body; outside layout_ok
   (which asks for counts that increase along a path).  Sufficient, not necessary. *)
Definition d_r7 := dd [NBlock (lit "Q") None [NBlock (lit "A") None [asg (lit "B")] []] []] [].
Definition l_r7 := dlay0 [NLay [] (L None 0) V0 [NLay [] (L (Some 4) 0) V0 [A0 (Some 2)]]] [].
Example children_left_of_header_accepted : layout_ok l_r7 d_r7 = false /\ reads_as l_r7 d_r7 d_r7.
Proof. split; vm_compute; reflexivity. Qed.

(* (R8) a META field indented less than the first field ends the META block and becomes a top-level assignment.  By design. *)
Definition d_r8 := mkDoc (lit "D") None None false [(lit "K", MV n1); (lit "J", MV n1)] [] [].
Definition l_r8 := mkDL 0 0 0 0 [(L (Some 4) 0, V0); (L (Some 2) 0, V0)] 0 [] [] true.
Definition d_r8' := mkDoc (lit "D") None None false [(lit "K", MV n1)] [asg (lit "J")] [].
Lemma len_refuted_meta_field_dedent :
  core2_doc_l d_r8 = true /\ layout_ok l_r8 d_r8 = false /\ ~ parse_len_concl l_r8 d_r8 /\ reads_as l_r8 d_r8 d_r8'.
Proof. split; [reflexivity|]. split; [reflexivity|]. split; [refute_len l_r8 d_r8|]. vm_compute. reflexivity. Qed.

(* (R9) the first body line after a META block indented like the fields joins the META block.  By design. *)
Definition d_r9 := mkDoc (lit "D") None None false [(lit "K", MV n1)] [asg (lit "A")] [].
Definition l_r9 := mkDL 0 0 0 0 [(L (Some 2) 0, V0)] 0 [A0 (Some 2)] [] true.
Definition d_r9' := mkDoc (lit "D") None None false [(lit "K", MV n1); (lit "A", MV n1)] [] [].
Lemma len_refuted_body_line_at_meta_indent :
  core2_doc_l d_r9 = true /\ layout_ok l_r9 d_r9 = false /\ ~ parse_len_concl l_r9 d_r9 /\ reads_as l_r9 d_r9 d_r9'.
Proof. split; [reflexivity|]. split; [reflexivity|]. split; [refute_len l_r9 d_r9|]. vm_compute. reflexivity. Qed.
Example body_line_below_meta_indent_in_class :
  let l := mkDL 0 0 0 0 [(L (Some 2) 0, V0)] 0 [A0 (Some 1)] [] true in layout_ok l d_r9 = true /\ reads_as l d_r9 d_r9.
Proof. split; vm_compute; reflexivity. Qed.

Theorem parse_core2_doc_len_full_refuted : ~ parse_core2_doc_len_full.
Proof.
  intros Hfull. destruct len_refuted_col0_comment_after_block_header as (Hc & _ & Hn & _). apply Hn. apply Hfull; [exact Hc|].
  cbn. repeat split.
Qed.
