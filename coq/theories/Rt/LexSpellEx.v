(* Non-vacuity of Rt/LexSpell.v (a depth-3 document with every spelling kind at body and META sites, run through the model lexer and the
   full model by evaluation, receipts and records shown explicitly), instances of the theorems, and one refutation / boundary example
   per side condition. *)
From OV Require Import Base.Strs Lex.Lexer Syn.Ast Syn.Escape Syn.Quote Syn.Emitter Syn.Parser
     Rt.TokRound Rt.TokRoundEx Rt.TokRound2 Rt.TokRound2Ex Rt.BareWordParse Rt.MultiWord
     Rt.LexLinkBase Rt.LexLinkSteps Rt.LexLink Rt.LexLinkEx Rt.LexLink2Base Rt.LexLink2Steps Rt.LexLink2Text Rt.LexLink2
     Rt.BareWordLex Rt.BareWord Rt.LexLenientBase Rt.LexSpellText Rt.LexSpell.
From Coq Require Import Lia.
Require Coq.Strings.String.
Import Coq.Strings.String.StringSyntax.
Open Scope N_scope.

Definition unl (ls : list str) : str := flat_map (fun l => l ++ [c_nl]) ls.
Definition W (s : str) : word := (IDENTIFIER, TVText s).
(* a string with a line break, quotes and a backslash *)
Definition s_note : str := lit "line one" ++ [c_nl] ++ lit "says ""hi"" \ done".

(* ---- the example ---------------------------------------------------------------------------------------------------------------------------- *)
Definition sx_doc : doc :=
  mkDoc (lit "DOC") (Some (lit "5.1.0")) None true
    [ (lit "TITLE", MV (VStr (lit "hello big world")));
      (lit "OWNER", MV (VStr (lit "alice")));
      (lit "NOTE", MV (VStr s_note));
      (lit "REF", MV (VStr (lit "$X")));
      (lit "Q", MV (VStr (lit "kept quoted"))) ]
    [ NAssign (lit "A") (VStr (lit "plain")) [] None;
      NBlock (lit "B") None
        [ NBlock (lit "C") None
            [ NAssign (lit "K") (VStr (lit "deep multi 42 true null $V value")) [lit "c"] (Some (lit "t"));
              NAssign (lit "L") (VList [VStr (lit "x y"); n1; VStr (lit "w"); VStr (lit "v")]) [] None;
              NAssign (lit "T") (VStr (lit "tq at depth three")) [] None;
              NAssign (lit "V") (VStr (lit "$Y:z")) [] None;
              NAssign (lit "WD") (VStr (lit "word.with-dash")) [] None ] [] ] [];
      NSection (lit "2") (lit "S") (Some (lit "ann")) [ NAssign (lit "P") (VStr (lit "two words")) [] None ] [];
      NAssign (lit "Z") n1 [] None ]
    [lit "bye"].

(* the spellings, by string: multi-word with 3 / 1 / 2 / 1 blanks and number / literal / variable words, bare, triple-quoted, variable,
   quoted (also for `plain`, which the emitter writes bare: optional quotes) *)
Definition tab : list (str * spelling) :=
  [ (lit "hello big world", LMulti (lit "hello") [(2%nat, W (lit "big")); (0%nat, W (lit "world"))]);
    (lit "alice", LBare);
    (s_note, LTq);
    (lit "$X", LVar);
    (lit "kept quoted", LQ);
    (lit "plain", LQ);
    (lit "deep multi 42 true null $V value",
       LMulti (lit "deep") [(0%nat, W (lit "multi")); (0%nat, (NUMBER, TVNum (lit "42"))); (1%nat, (BOOLEAN, TVBool true));
                            (0%nat, (NULL, TVNone)); (0%nat, (VARIABLE, TVText (lit "$V"))); (0%nat, W (lit "value"))]);
    (lit "tq at depth three", LTq);
    (lit "$Y:z", LVar);
    (lit "word.with-dash", LBare);
    (lit "two words", LMulti (lit "two") [(0%nat, W (lit "words"))]) ].
Fixpoint lookup (s : str) (t : list (str * spelling)) : option spelling :=
  match t with [] => None | (k, v) :: r => if str_eqb k s then Some v else lookup s r end.
Definition qa0 (k s : str) : spelling := match lookup s tab with Some x => x | None => qa_can k s end.
Definition qm0 (s : str) : spelling := match lookup s tab with Some x => x | None => qm_can s end.
(* list items: `w` quoted although it could be bare, everything else as the emitter does *)
Definition qi0 (s : str) : strk := if str_eqb s (lit "w") then QStr else qi_emit s.
(* guarded: admissible by construction (LexSpell.guard_admissible) *)
Definition qaX := guard_qa qa0.
Definition qmX := guard_qm qm0.
Definition qiX := guard_qi qi0.

Example sx_core : core2_doc sx_doc = true.
Proof. vm_compute. reflexivity. Qed.
Example sx_safe : sp_safe_doc qaX qmX qiX sx_doc = true.
Proof. vm_compute. reflexivity. Qed.
Example sx_nums : MultiWord.nums_ok2_l ex2_numcanon ex_idnum (dsections sx_doc) /\ Forall (MultiWord.field_num_ok ex2_numcanon) (dmeta sx_doc).
Proof. cbn. repeat split; repeat constructor. exists false. reflexivity. Qed.

(* the text *)
Definition sx_text : str := unl [
  lit "OCTAVE::5.1.0";
  lit "===DOC===";
  lit "META:";
  lit "  TITLE::hello   big world";
  lit "  OWNER::alice";
  lit "  NOTE::""""""line one\nsays \""hi\"" \\ done""""""";
  lit "  REF::$X";
  lit "  Q::""kept quoted""";
  lit "---";
  lit "A::""plain""";
  lit "B:";
  lit "  C:";
  lit "    // c";
  lit "    K::deep multi 42  true null $V value // t";
  lit "    L::[";
  lit "      ""x y"",";
  lit "      1,";
  lit "      ""w"",";
  lit "      v";
  lit "    ]";
  lit "    T::""""""tq at depth three""""""";
  lit "    V::$Y:z";
  lit "    WD::word.with-dash";
  [167] ++ lit "2::S[ann]";
  lit "  P::two words";
  lit "Z::1";
  lit "// bye";
  lit "===END===" ].
Example sx_render : render_sp qaX qmX qiX sx_doc = sx_text.
Proof. vm_compute. reflexivity. Qed.

Definition sx_sh : list sh := doc5_sh needs_multiline ex_idnum (qa5 qaX) (qm5 qmX) qiX sx_doc.
Definition sx_mk : list mark := doc5_mk needs_multiline (qa5 qaX) (qm5 qmX) qiX sx_doc.
Definition sx_receipts : list repair := [ mkRep 0 tq3 s_note 6 9; mkRep 0 tq3 (lit "tq at depth three") 21 8 ].
Definition sx_records : list pwarn :=
  [ mkW 1 4 10 (lit "hello big world") [] [lit "hello"; lit "big"; lit "world"] [];
    mkW 1 14 8 (lit "deep multi 42 true null $V value") [] [lit "deep"; lit "multi"; lit "42"; lit "true"; lit "null"; lit "$V"; lit "value"] [];
    mkW 1 25 6 (lit "two words") [] [lit "two"; lit "words"] [] ].

(* the model lexer: the spelled shape, and exactly two receipts -- one per triple-quoted site, at the opening quote *)
Example sx_lexes :
  match tokenize ex_cls false (lines_of sx_text) with
  | LexOk toks reps => all2 tmatchb toks (sx_sh ++ [(NEWLINE, None); (EOF, None)]) = true /\ reps = sx_receipts
  | _ => False
  end.
Proof. vm_compute. split; reflexivity. Qed.
(* the full model: the document itself, the two receipts, and exactly three warnings, the multi_word_coalesce records of the three
   multi-word sites *)
Example sx_parses :
  match parse_model ex_cls ex2_numcanon (fun _ => false) false (lines_of sx_text) with
  | PRDoc d reps warns => d = sx_doc /\ reps = sx_receipts /\ warns = sx_records
  | _ => False
  end.
Proof. vm_compute. repeat split. Qed.
Example sx_tq_sites : tq_sites qaX qmX qiX sx_doc = [s_note; lit "tq at depth three"].
Proof. vm_compute. reflexivity. Qed.

(* the same by the theorems *)
Example sx_by_theorem : spelled_reading ex_cls ex2_numcanon (fun _ => false) false qaX qmX qiX sx_doc.
Proof.
  exact (text_render_sp ex_cls qaX qmX qiX ex2_numcanon (fun _ => false) false sx_doc sx_core sx_safe (guard_admissible qa0 qm0 qi0)
           (proj1 sx_nums) (proj2 sx_nums)).
Qed.
Example sx_receipts_by_theorem :
  exists reps warns,
    parse_model ex_cls ex2_numcanon (fun _ => false) false (lines_of (render_sp qaX qmX qiX sx_doc)) = PRDoc sx_doc reps warns /\
    map rep_core reps = [(0, tq3, s_note); (0, tq3, lit "tq at depth three")] /\ Forall advisory5 warns.
Proof.
  destruct (text_render_sp_receipts ex_cls qaX qmX qiX ex2_numcanon (fun _ => false) false sx_doc sx_core sx_safe (guard_admissible qa0 qm0 qi0)
              (proj1 sx_nums) (proj2 sx_nums)) as (reps & warns & Hp & Hr & Ha).
  exists reps, warns. split; [exact Hp|]. split; [rewrite Hr, sx_tq_sites; reflexivity|exact Ha].
Qed.

(* the canonical spelling of the same document: the emitter's text, no receipt, no record *)
Example sx_core3 : core3_doc sx_doc = true /\ lex_safe3_doc sx_doc = true.
Proof. split; vm_compute; reflexivity. Qed.
Example sx_canonical_by_theorem :
  render_sp qa_can qm_can qi_emit sx_doc = emit (fun _ => false) sx_doc /\
  exists warns, parse_model ex_cls ex2_numcanon (fun _ => false) false (lines_of (emit (fun _ => false) sx_doc)) = PRDoc sx_doc [] warns /\
                Forall advisory5 warns /\ filter is_mw warns = [].
Proof.
  exact (text_canonical_no_receipts ex_cls ex2_numcanon (fun _ => false) false (fun _ => false) sx_doc (proj1 sx_core3) (proj2 sx_core3)
           (proj1 sx_nums) (proj2 sx_nums)).
Qed.
Example sx_canonical_computed :
  match parse_model ex_cls ex2_numcanon (fun _ => false) false (lines_of (emit (fun _ => false) sx_doc)) with
  | PRDoc d reps warns => d = sx_doc /\ reps = [] /\ warns = []
  | _ => False
  end.
Proof. vm_compute. repeat split. Qed.
(* the two spellings converge, and canonicalise to the same bytes *)
Example sx_converge :
  spelled_reading ex_cls ex2_numcanon (fun _ => false) false qaX qmX qiX sx_doc /\
  spelled_reading ex_cls ex2_numcanon (fun _ => false) false qa_can qm_can qi_emit sx_doc.
Proof.
  exact (text_spellings_converge ex_cls ex2_numcanon (fun _ => false) false sx_doc qaX qmX qiX qa_can qm_can qi_emit sx_core
           (proj1 sx_nums) (proj2 sx_nums) sx_safe (guard_admissible qa0 qm0 qi0)
           (proj2 (render_sp_canonical (fun _ => false) sx_doc (proj1 sx_core3) (proj2 sx_core3))) canonical_admissible).
Qed.

(* ---- the side conditions ------------------------------------------------------------------------------------------------------------------------ *)
Definition lex_render_sp_concl (cls : N -> N) qa qm qi (d : doc) : Prop :=
  exists ts tnl teof,
    tokenize cls false (lines_of (render_sp qa qm qi d)) = LexOk (ts ++ [tnl; teof]) (RC ts (doc_tq qa qm qi d)) /\
    Forall2 tmatch ts (doc5_sh needs_multiline ex_idnum (qa5 qa) (qm5 qm) qi d) /\ tk tnl = NEWLINE /\ tk teof = EOF /\
    length ts = length (doc_tq qa qm qi d).
Definition lex_render_sp_full : Prop := forall cls qa qm qi d, core2_doc d = true -> lex_render_sp_concl cls qa qm qi d.

Ltac refute_lex :=
  let ts := fresh "ts" in let tnl := fresh "tnl" in let teof := fresh "teof" in
  let H := fresh "H" in let HF := fresh "HF" in let K := fresh "K" in let H1 := fresh "H1" in let H2 := fresh "H2" in
  intros (ts & tnl & teof & H & HF & _);
  pose proof (F2_prefix ts _ [tnl; teof] HF) as K;
  match type of H with ?L = _ => let R := fresh "R" in let ER := fresh "ER" in
    remember L as R eqn:ER; vm_compute in ER; subst R end;
  first [discriminate H | injection H as H1 H2; rewrite <- H1 in K; vm_compute in K; discriminate K].
Ltac refute_reading :=
  let Hp := fresh "Hp" in let Hd := fresh "Hd" in
  intros (? & ? & ? & ? & _ & _ & _ & Hp & _);
  match type of Hp with ?L = _ => let R := fresh "R" in let ER := fresh "ER" in
    remember L as R eqn:ER; vm_compute in ER; subst R end;
  first [discriminate Hp | injection Hp as Hd _ _; vm_compute in Hd; discriminate Hd].

Definition dK (v : value) : doc := doc1 (lit "D") (lit "K") v.
Definition only (x : spelling) : str -> str -> spelling := fun _ _ => x.
Definition rd (x : spelling) (s : str) : option (list node * list repair * list pwarn) :=
  match parse_model ex_cls ex2_numcanon (fun _ => false) false (lines_of (render_sp (only x) qm_can qi_emit (dK (VStr s)))) with
  | PRDoc d reps w => Some (dsections d, reps, w) | _ => None end.
Definition asg (v : value) : node := NAssign (lit "K") v [] None.

(* (1) a multi-word value with the word `true` DECLARED an identifier: the lexer yields a BOOLEAN token -- not the declared shape.
   Declared as the literal it is (BOOLEAN word) the same text is inside the class (see K in the example above) *)
Lemma refuted_word_true_as_identifier :
  let x := LMulti (lit "a") [(0%nat, W (lit "true")); (0%nat, W (lit "b"))] in let s := lit "a true b" in
  core2_doc (dK (VStr s)) = true /\ site_ok x s = false /\ sp_safe_doc (only x) qm_can qi_emit (dK (VStr s)) = false /\
  ~ lex_render_sp_concl ex_cls (only x) qm_can qi_emit (dK (VStr s)) /\
  site_ok (LMulti (lit "a") [(0%nat, (BOOLEAN, TVBool true)); (0%nat, W (lit "b"))]) s = true.
Proof. cbv zeta. split; [reflexivity|]. split; [reflexivity|]. split; [reflexivity|]. split; [refute_lex|reflexivity]. Qed.
(* ... the FIRST word `true`: the value coalesces through another parser branch; the record carries the context boolean_multiword,
   which is not the record E of the theorem (wb = []) *)
Lemma refuted_first_word_true :
  let x := LMulti (lit "true") [(0%nat, W (lit "big"))] in let s := lit "true big" in
  core2_doc (dK (VStr s)) = true /\ site_ok x s = false /\ ~ lex_render_sp_concl ex_cls (only x) qm_can qi_emit (dK (VStr s)) /\
  rd x s = Some ([asg (VStr s)], [], [mkW 1 2 4 s (lit "boolean_multiword") [lit "true"; lit "big"] []]).
Proof. cbv zeta. split; [reflexivity|]. split; [reflexivity|]. split; [refute_lex|vm_compute; reflexivity]. Qed.
(* ... the word `vs`: an operator (TENSION, with an alias receipt); the value read back is the EXPRESSION a<->b, not the string *)
Lemma refuted_word_vs :
  let x := LMulti (lit "a") [(0%nat, W (lit "vs")); (0%nat, W (lit "b"))] in let s := lit "a vs b" in
  core2_doc (dK (VStr s)) = true /\ site_ok x s = false /\ ~ lex_render_sp_concl ex_cls (only x) qm_can qi_emit (dK (VStr s)) /\
  ~ spelled_reading ex_cls ex2_numcanon (fun _ => false) false (only x) qm_can qi_emit (dK (VStr s)) /\
  rd x s = Some ([asg (VStr (lit "a" ++ [8652] ++ lit "b"))], [mkRep 0 (lit "vs") [8652] 2 6], []).
Proof.
  cbv zeta. split; [reflexivity|]. split; [reflexivity|]. split; [refute_lex|]. split; [refute_reading|vm_compute; reflexivity].
Qed.
(* ... a word with an annotation suffix: the LEXER reads the declared tokens, the PARSER returns a list of three strings *)
Lemma refuted_word_annotation :
  let x := LMulti (lit "hello") [(0%nat, W (lit "big<x>")); (0%nat, W (lit "world"))] in let s := lit "hello big<x> world" in
  core2_doc (dK (VStr s)) = true /\ site_ok x s = false /\
  ~ spelled_reading ex_cls ex2_numcanon (fun _ => false) false (only x) qm_can qi_emit (dK (VStr s)) /\
  rd x s = Some ([asg (VList [VStr (lit "hello"); VStr (lit "big<x>"); VStr (lit "world")])], [], []).
Proof. cbv zeta. split; [reflexivity|]. split; [reflexivity|]. split; [refute_reading|vm_compute; reflexivity]. Qed.
(* ... a QUOTED word is outside the side condition (lex_word_ok covers identifier / number / literal / variable words) although the
   model reads it back: the condition is sufficient, not necessary *)
Example quoted_word_outside_but_read_back :
  let x := LMulti (lit "a") [(0%nat, (STRING, TVText (lit "q"))); (0%nat, W (lit "b"))] in let s := lit "a ""q"" b" in
  site_ok x s = false /\ rd x s = Some ([asg (VStr s)], [], [mkW 1 2 4 s [] [lit "a"; lit """q"""; lit "b"] []]).
Proof. cbv zeta. split; [reflexivity|vm_compute; reflexivity]. Qed.

(* (2) a bare spelling of `true.x` (the KNOWN reserved-segment class): BOOLEAN then IDENTIFIER; the value read back is `true .x` *)
Lemma refuted_bare_reserved_segment :
  let s := lit "true.x" in
  core2_doc (dK (VStr s)) = true /\ site_ok LBare s = false /\ ~ lex_render_sp_concl ex_cls (only LBare) qm_can qi_emit (dK (VStr s)) /\
  ~ spelled_reading ex_cls ex2_numcanon (fun _ => false) false (only LBare) qm_can qi_emit (dK (VStr s)) /\
  rd LBare s = Some ([asg (VStr (lit "true .x"))], [], [mkW 1 2 4 (lit "true .x") (lit "boolean_multiword") [lit "true"; lit ".x"] []]).
Proof.
  cbv zeta. split; [reflexivity|]. split; [reflexivity|]. split; [refute_lex|]. split; [refute_reading|vm_compute; reflexivity].
Qed.
(* ... the same as a list item (oracle qi) *)
Lemma refuted_bare_item :
  let d := dK (VList [VStr (lit "null-a")]) in
  core2_doc d = true /\ sp_safe_doc qa_can qm_can (fun _ => QIdent) d = false /\ ~ lex_render_sp_concl ex_cls qa_can qm_can (fun _ => QIdent) d.
Proof. cbv zeta. split; [reflexivity|]. split; [reflexivity|]. refute_lex. Qed.
(* ... a variable spelling of a string that is no variable: lexer error *)
Lemma refuted_var_spelling :
  let s := lit "$" in
  core2_doc (dK (VStr s)) = true /\ site_ok LVar s = false /\ ~ lex_render_sp_concl ex_cls (only LVar) qm_can qi_emit (dK (VStr s)).
Proof. cbv zeta. split; [reflexivity|]. split; [reflexivity|]. refute_lex. Qed.

(* (3) triple quotes: NO side condition -- the printer writes the canonical escape, so the body never contains an unescaped quote.
   A string that itself contains three quotes is inside the class ... *)
Lemma tq_always_ok s : site_ok LTq s = true.
Proof. reflexivity. Qed.
Example tq_of_three_quotes :
  let s := lit "a""""""b" in
  render_sp (only LTq) qm_can qi_emit (dK (VStr s)) = unl [lit "===D==="; lit "K::""""""a\""\""\""b"""""""; lit "===END==="] /\
  rd LTq s = Some ([asg (VStr s)], [mkRep 0 tq3 s 2 4], []).
Proof. cbv zeta. split; vm_compute; reflexivity. Qed.
(* ... whereas a hand-written body with three raw quotes ends the string there: the rest of the line does not tokenise *)
Example raw_three_quotes_in_body :
  match tokenize ex_cls false (lines_of (unl [lit "===D==="; lit "K::""""""a""""""b"""""""; lit "===END==="])) with
  | LexErr _ 2 _ => True | _ => False end.
Proof. vm_compute. exact I. Qed.

(* (4) a multi-word LIST ITEM is not a spelling of this file (qi : str -> strk, one token per item; doc5_sh has no such shape).
   What the model does with such a text: it coalesces the item too, with the same kind of record *)
Example multi_word_list_item :
  match parse_model ex_cls ex2_numcanon (fun _ => false) false (lines_of (unl [lit "===D==="; lit "K::[x y,1]"; lit "===END==="])) with
  | PRDoc d reps w => dsections d = [asg (VList [VStr (lit "x y"); n1])] /\ reps = [] /\ w = [mkW 1 2 5 (lit "x y") [] [lit "x"; lit "y"] []]
  | _ => False end.
Proof. vm_compute. repeat split. Qed.

(* the unrestricted lexer statement is false *)
Theorem lex_render_sp_full_refuted : ~ lex_render_sp_full.
Proof.
  intros Hfull. destruct refuted_bare_reserved_segment as (Hc & _ & Hn & _). apply Hn. apply Hfull. exact Hc.
Qed.
