(* Spelled strings on the canonical layout, part 2: the LEXER half and the text-level theorems.

     lex_render_sp            the model lexer reads  render_sp qa qm qi d  as tokens of the shape  doc5_sh .. (qa5 qa) (qm5 qm) qi d
                              (MultiWord.v) followed by NEWLINE EOF, and the repair list it returns is EXACTLY
                              RC ts (doc_tq qa qm qi d): one normalization receipt (kind 0, original = three quotes, replacement = the
                              string, position = line / column of the STRING token) per triple-quoted site, in document order
     text_render_sp           composed with MultiWord.parse_core5_doc: parse_model returns d, those receipts, advisory warnings only,
                              and the multi_word_coalesce records among them are exactly  E ts (doc5_mk ..): one per multi-word site
     text_spellings_converge  any two admissible oracle families: same document, each text its own receipts / records
     canonical instance       render_sp qa_can qm_can qi_emit d = emit sp d: no receipt, no record *)
From OV Require Import Base.Strs Gen.LexerGen Syn.Escape Syn.Quote Syn.Ast Syn.Emitter Syn.Parser
     Lex.Lexer Lex.Progress Rt.TokRound Rt.TokRoundEx Rt.TokRound2 Rt.TokRound2Ex Rt.BareWordParse Rt.MultiWord
     Rt.LexLinkBase Rt.LexLinkSteps Rt.LexLink Rt.LexLink2Base Rt.LexLink2Steps Rt.LexLink2Text Rt.LexLink2
     Rt.BareWordLex Rt.BareWord Rt.LexLenientBase Rt.Receipts Rt.LexSpellText.
From Coq Require Import Lia.
Open Scope N_scope.

Section Link.
Variable cls : N -> N.
Notation wbb := (word_boundary_before cls).

(* ---- reachability with receipts -------------------------------------------------------------------------------------------------------------- *)
(* lexR st shs ms st': as lexto, and the repair list grew by exactly the receipts of the new tokens marked in ms *)
Definition lexR (st : lstate) (shs : list sh) (ms : list tqmark) (st' : lstate) : Prop :=
  steps cls st st' /\
  (exists ts, ls_toks st' = rev ts ++ ls_toks st /\ Forall2 tmatch ts shs /\ ls_reps st' = rev (RC ts ms) ++ ls_reps st) /\
  length ms = length shs /\ ls_brk st' = ls_brk st /\ ls_spans st' = ls_spans st.

Lemma lexR_of_lexto st s st' : lexto cls st s st' -> lexR st s (nom (length s)) st'.
Proof.
  intros (H1 & (ts & T & F) & H3 & H4 & H5). split; [exact H1|]. split; [|split; [apply nom_len|split; assumption]].
  exists ts. split; [exact T|]. split; [exact F|]. rewrite RC_nom. exact H3.
Qed.
Lemma lexR_trans a b c s1 s2 m1 m2 : lexR a s1 m1 b -> lexR b s2 m2 c -> lexR a (s1 ++ s2) (m1 ++ m2) c.
Proof.
  intros (S1 & (t1 & T1 & F1 & R1) & L1 & B1 & P1) (S2 & (t2 & T2 & F2 & R2) & L2 & B2 & P2).
  split; [eapply steps_trans; eassumption|]. split; [|split; [rewrite !app_length; congruence|split; congruence]].
  exists (t1 ++ t2). split; [rewrite T2, T1, rev_app_distr, app_assoc; reflexivity|]. split; [apply Forall2_app; assumption|].
  rewrite RC_app by (rewrite (F2_length _ _ _ F1); symmetry; exact L1).
  rewrite R2, R1, rev_app_distr, app_assoc. reflexivity.
Qed.
Lemma lexR_refl st : lexR st [] [] st.
Proof. exact (lexR_of_lexto _ _ _ (lexto_refl cls st)). Qed.
Lemma lexR_spans st s m st' : lexR st s m st' -> ls_spans st' = ls_spans st.
Proof. intros H; apply H. Qed.
Lemma lexR_col st s m st' : lexR st s m st' -> 1 <= ls_col st -> 1 <= ls_col st'.
Proof. intros H. exact (steps_col cls _ _ (proj1 H)). Qed.

(* ---- the triple-quoted string scanner on escaped text ------------------------------------------------------------------------------------------ *)
Lemma scan_tq_body_escape s : forall fuel rest, (length (escape s) < fuel)%nat ->
  scan_tq_body fuel (escape s ++ c_dq :: c_dq :: c_dq :: rest) = Some (escape s, rest).
Proof.
  induction s as [|c s IH]; intros fuel rest Hf.
  - destruct fuel as [|f]; [cbn in Hf; lia|]. reflexivity.
  - unfold escape in *. cbn [flat_map] in *. rewrite app_length in Hf.
    assert (Hcases : (esc_chr c = [c] /\ c <> c_dq /\ c <> c_bs) \/ (exists y, esc_chr c = [c_bs; y] /\ y <> c_nl)).
    { cases c H1 H2 H3 H4.
      - right. exists c_bs. split; [reflexivity|discriminate].
      - right. exists c_dq. split; [reflexivity|discriminate].
      - right. exists c_n. split; [reflexivity|discriminate].
      - right. exists c_t. split; [reflexivity|discriminate].
      - left. split; [apply esc_other; assumption|split; assumption]. }
    destruct Hcases as [(E & Hdq & Hbs)|(y & E & Hy)]; rewrite E in *; cbn [length app] in *.
    + destruct fuel as [|f]; [lia|]. cbn [scan_tq_body]. rewrite (neqb _ _ Hdq), (neqb _ _ Hbs).
      rewrite IH by lia. reflexivity.
    + destruct fuel as [|f]; [lia|]. cbn [scan_tq_body]. change (N.eqb c_bs c_dq) with false. change (N.eqb c_bs c_bs) with true.
      cbv iota. rewrite (neqb _ _ Hy). rewrite IH by lia. reflexivity.
Qed.

Ltac skip_sp c := rewrite (neqb c c_sp) by chr.
Ltac skip_sent c s' := rewrite (hd_sentinel cls _ c s') by (first [left; chr | right; assumption]).
Ltac skip_ver c s' := rewrite (hd_version cls c s') by (apply u_digit_false; chr).
Ltac skip_envs c s' := rewrite (hd_end_env c s') by chr; rewrite (hd_env_start c s') by chr.
Ltac skip_dash3 c s' := rewrite (hd_dash3 c s') by chr.
Ltac skip_comment c s' := rewrite (hd_comment c s') by chr.
Ltac skip_ops c s' := rewrite (hd_ops c s') by chr.
Ltac skip_vs c s' := rewrite (hd_vs cls _ c s') by chr.
Ltac skip_ops2 c s' := rewrite (hd_ops2 c s') by chr.

Lemma sp_tq_eq st c s' b r :
  c = 34 -> prefixb [c_dq; c_dq; c_dq] (c :: s') = true -> scan_tq_body (length (c :: s')) (skipn 3 (c :: s')) = Some (b, r) ->
  step_plain cls false st c s' =
  emit_pat st STRING (TVText (unescape_tok b)) ([c_dq; c_dq; c_dq] ++ b ++ [c_dq; c_dq; c_dq]) r (Some [c_dq; c_dq; c_dq]).
Proof.
  intros Hc Htq Hb. unfold step_plain; cbv zeta. skip_sp c. skip_sent c s'. skip_ver c s'. skip_envs c s'. skip_dash3 c s'. skip_comment c s'.
  skip_ops c s'. skip_vs c s'. skip_ops2 c s'. rewrite Htq, Hb. reflexivity.
Qed.

(* one lexer iteration on a triple-quoted site: a STRING token with the string as value, marked with the three quotes, and ONE
   normalization receipt at the position of the opening quote *)
Lemma G_tq st s z r : ls_in st = tq3 ++ escape s ++ tq3 ++ z :: r -> ls_spans st = [] ->
  exists st', step cls false st = Continue st' /\ ls_in st' = z :: r /\ ls_prev st' = Some c_dq /\ ls_pos st' <> 0 /\
              ls_toks st' = mkTok STRING (TVText s) (ls_line st) (ls_col st) (Some tq3) :: ls_toks st /\
              ls_reps st' = mkRep 0 tq3 s (ls_line st) (ls_col st) :: ls_reps st /\
              ls_brk st' = ls_brk st /\ ls_spans st' = ls_spans st /\ ls_col st < ls_col st'.
Proof.
  intros Hin Hsp. unfold tq3 in Hin. cbn [app] in Hin.
  set (s' := c_dq :: c_dq :: escape s ++ c_dq :: c_dq :: c_dq :: z :: r) in *.
  assert (Heq : step_plain cls false st c_dq s' =
                emit_pat st STRING (TVText (unescape_tok (escape s))) (tq3 ++ escape s ++ tq3) (z :: r) (Some tq3)).
  { apply sp_tq_eq; [reflexivity|reflexivity|]. subst s'. cbn [skipn]. apply scan_tq_body_escape. cbn [length]. rewrite app_length. lia. }
  rewrite unescape_tok_escape in Heq.
  assert (Hm : count_nl (tq3 ++ escape s ++ tq3) = 0).
  { apply count_nl_memb. rewrite !memb_app, escape_no_nl. reflexivity. }
  assert (Ha : alias_of (tq3 ++ escape s ++ tq3) = None) by (unfold tq3; cbn [app]; apply alias_of_none_hd; discriminate).
  eexists. split; [unfold step; rewrite Hin, Hsp, Heq; unfold emit_pat; rewrite Ha; cbn [tkind_eqb tkind_code N.eqb Pos.eqb]; rewrite Hm; reflexivity|].
  cbn [ls_in ls_prev ls_pos ls_toks ls_reps ls_brk ls_spans ls_col ls_line].
  assert (Hl : 0 < len (tq3 ++ escape s ++ tq3)) by (apply len_pos; discriminate).
  repeat split; try reflexivity.
  - replace (tq3 ++ escape s ++ tq3) with ((tq3 ++ escape s ++ [c_dq; c_dq]) ++ [c_dq]) by (rewrite <- !app_assoc; reflexivity).
    apply last_chr_app_last.
  - apply len_pos_ne. discriminate.
  - lia.
Qed.

Lemma lexR_tq st s z r : ls_in st = tq3 ++ escape s ++ tq3 ++ z :: r -> ls_spans st = [] ->
  exists st', lexR st [(STRING, Some (TVText s))] [Some s] st' /\ ls_in st' = z :: r /\ ls_col st < ls_col st' /\ ls_pos st' <> 0.
Proof.
  intros Hin Hsp. destruct (G_tq st s z r Hin Hsp) as (st' & Hs & I & _ & P & T & R & B & S & C).
  exists st'. split; [|split; [exact I|split; [exact C|exact P]]].
  split; [apply steps_one; exact Hs|]. split; [|split; [reflexivity|split; assumption]].
  exists [mkTok STRING (TVText s) (ls_line st) (ls_col st) (Some tq3)]. split; [exact T|]. split; [|exact R].
  constructor; [split; reflexivity|constructor].
Qed.
(* ---- words ------------------------------------------------------------------------------------------------------------------------------- *)
Lemma lex_word w st z r : lex_word_ok w = true -> ls_in st = wtext w ++ z :: r -> bterm z ->
  wbb (ls_prev st) = true -> ls_spans st = [] -> ls_pos st <> 0 ->
  exists st', lexto cls st [wsh w] st' /\ ls_in st' = z :: r /\ ls_col st < ls_col st' /\ ls_pos st' <> 0.
Proof.
  intros Hw Hin Hz Hp Hsp Hpos.
  assert (K : forall st' k tv_ prev, gstep cls st st' k tv_ (z :: r) prev (ls_brk st) -> fst (wsh w) = k -> snd (wsh w) = Some tv_ ->
              exists st', lexto cls st [wsh w] st' /\ ls_in st' = z :: r /\ ls_col st < ls_col st' /\ ls_pos st' <> 0).
  { intros st' k tv_ prev G Hk Hv. exists st'. split; [exact (lexto_gstep cls _ _ _ _ _ _ _ G Hk (or_intror Hv))|].
    split; [exact (gstep_in cls _ _ _ _ _ _ _ G)|]. split; [exact (gstep_col cls _ _ _ _ _ _ _ G)|exact (gstep_pos cls _ _ _ _ _ _ _ G)]. }
  unfold lex_word_ok in Hw. apply andb_true_iff in Hw as [_ Hw]. destruct w as [k v].
  destruct k; try discriminate Hw; destruct v; try discriminate Hw; unfold wtext in Hin; cbn [tts fst snd] in Hin.
  - destruct (G_var cls st s z r Hw Hz Hin Hsp) as (st' & G). exact (K _ _ _ _ G eq_refl eq_refl).
  - destruct (G_num cls st raw z r Hw (bterm_vterm _ Hz) Hin Hsp) as (st' & G). exact (K _ _ _ _ G eq_refl eq_refl).
  - destruct b.
    + destruct (G_true cls st z r Hin Hp (bterm_vterm _ Hz) Hsp) as (st' & G). exact (K _ _ _ _ G eq_refl eq_refl).
    + destruct (G_false cls st z r Hin Hp (bterm_vterm _ Hz) Hsp) as (st' & G). exact (K _ _ _ _ G eq_refl eq_refl).
  - destruct (G_null cls st z r Hin Hp (bterm_vterm _ Hz) Hsp) as (st' & G). exact (K _ _ _ _ G eq_refl eq_refl).
  - destruct (G_bare cls st s z r Hw Hz Hin Hpos Hsp) as (st' & G). exact (K _ _ _ _ G eq_refl eq_refl).
Qed.

Lemma words_hd (ws : list (nat * word)) z r :
  bterm z -> exists y t, flat_map (fun p : nat * word => sp_n (S (fst p)) ++ wtext (snd p)) ws ++ z :: r = y :: t /\ bterm y.
Proof.
  intros Hz. destruct ws as [|[n w] ws]; [exists z, r; split; [reflexivity|exact Hz]|].
  cbn [flat_map fst snd]. unfold sp_n. cbn [repeat app]. eexists _, _. split; [reflexivity|]. right; right; right; reflexivity.
Qed.

Lemma lex_words ws : forall st z r, forallb lex_word_ok (words_of ws) = true ->
  ls_in st = flat_map (fun p : nat * word => sp_n (S (fst p)) ++ wtext (snd p)) ws ++ z :: r -> bterm z ->
  1 < ls_col st -> ls_spans st = [] -> ls_pos st <> 0 ->
  exists st', lexto cls st (map wsh (words_of ws)) st' /\ ls_in st' = z :: r /\ 1 < ls_col st' /\ ls_pos st' <> 0.
Proof.
  induction ws as [|[n w] ws IH]; intros st z r Hok Hin Hz Hc Hsp Hp.
  - exists st. split; [apply lexto_refl|]. repeat split; assumption.
  - cbn [words_of map snd forallb] in Hok. apply andb_true_iff in Hok as [Hw Hws].
    cbn [flat_map fst snd] in Hin. rewrite <- !app_assoc in Hin.
    destruct (skip_spaces cls (S n) st _ Hin Hc Hsp Hp) as (st1 & S1 & I1 & T1 & R1 & B1 & P1 & Q1 & C1 & _ & V1).
    assert (L1 : lexto cls st [] st1) by (apply lexto_skip; try assumption; rewrite P1, Hsp; reflexivity).
    destruct (words_hd ws z r Hz) as (y & t & Ey & Hy). rewrite Ey in I1.
    assert (W1 : wbb (ls_prev st1) = true) by (rewrite V1 by discriminate; apply (wbb_of cls), u_word_false; chr).
    destruct (lex_word w st1 y t Hw I1 Hy W1 P1 Q1) as (st2 & L2 & I2 & C2 & P2).
    assert (S2 : ls_spans st2 = []) by (rewrite (lexto_spans _ _ _ _ L2); exact P1).
    rewrite <- Ey in I2.
    destruct (IH st2 z r Hws I2 Hz ltac:(lia) S2 P2) as (st3 & L3 & I3 & C3 & P3).
    exists st3. split; [|repeat split; assumption].
    cbn [words_of map snd]. change (wsh w :: ?l) with ([] ++ [wsh w] ++ l).
    eapply lexto_trans; [exact L1|]. eapply lexto_trans; [exact L2|exact L3].
Qed.

(* ---- a spelled string in value position --------------------------------------------------------------------------------------------------------- *)
Lemma lex_site x s st z r : site_ok x s = true -> ls_in st = sp_text x s ++ z :: r -> bterm z ->
  ls_prev st = Some c_colon -> ls_spans st = [] -> ls_pos st <> 0 -> 1 <= ls_col st ->
  exists st', lexR st (sp_sh (to_spell x) s) (sp_tq x s) st' /\ ls_in st' = z :: r /\ 1 < ls_col st' /\ ls_pos st' <> 0.
Proof.
  intros Hok Hin Hz Hp Hsp Hpos Hcol.
  assert (Hw : wbb (ls_prev st) = true) by (rewrite Hp; apply (wbb_of cls), u_word_false; chr).
  assert (One : forall q, str_lexable q s = true -> ls_in st = str_text q s ++ z :: r ->
            exists st', lexR st (sp_sh (SP q) s) [None] st' /\ ls_in st' = z :: r /\ 1 < ls_col st' /\ ls_pos st' <> 0).
  { intros q Hq Hin'.
    destruct (lex_item3 cls (fun _ => q) (VStr s) st z r eq_refl Hq Hin' Hz Hw Hsp Hpos) as (st' & L & I & C & P).
    exists st'. split; [exact (lexR_of_lexto _ _ _ L)|]. split; [exact I|]. split; [lia|exact P]. }
  destruct x as [| | | |w1 ws]; cbn [site_ok sp_text to_spell sp_tq] in *.
  - exact (One QStr eq_refl Hin).
  - exact (One QIdent Hok Hin).
  - exact (One QVar Hok Hin).
  - rewrite <- !app_assoc in Hin. destruct (lexR_tq st s z r Hin Hsp) as (st' & L & I & C & P).
    exists st'. split; [exact L|]. split; [exact I|]. split; [lia|exact P].
  - apply andb_true_iff in Hok as [Hok _]. apply andb_true_iff in Hok as [Hok Hws]. apply andb_true_iff in Hok as [H1 _].
    rewrite <- app_assoc in Hin.
    destruct (words_hd ws z r Hz) as (y & t & Ey & Hy). pose proof Hin as Hin0. rewrite Ey in Hin0.
    destruct (G_bare cls st w1 y t H1 Hy Hin0 Hpos Hsp) as (st1 & G1).
    assert (L1 : lexto cls st [(IDENTIFIER, Some (TVText w1))] st1) by (eapply (lexto_gstep cls); [exact G1|reflexivity|right; reflexivity]).
    pose proof (gstep_in cls _ _ _ _ _ _ _ G1) as I1. rewrite <- Ey in I1.
    assert (S1 : ls_spans st1 = []) by (rewrite (gstep_spans cls _ _ _ _ _ _ _ G1); exact Hsp).
    pose proof (gstep_col cls _ _ _ _ _ _ _ G1) as C1.
    destruct (lex_words ws st1 z r Hws I1 Hz ltac:(lia) S1 (gstep_pos cls _ _ _ _ _ _ _ G1)) as (st2 & L2 & I2 & C2 & P2).
    exists st2. split; [|repeat split; assumption].
    cbn [sp_sh]. replace (nom (S (length ws))) with (nom (length ((IDENTIFIER, Some (TVText w1)) :: map wsh (words_of ws))))
      by (cbn [length]; unfold words_of; rewrite !map_length; reflexivity).
    apply lexR_of_lexto. change ((IDENTIFIER, Some (TVText w1)) :: ?l) with ([(IDENTIFIER, Some (TVText w1))] ++ l).
    eapply lexto_trans; [exact L1|exact L2].
Qed.
End Link.

Section Lines.
Variable cls : N -> N.
Variable qa : str -> str -> spelling.
Variable qm : str -> spelling.
Variable qi : str -> strk.
Notation wbb := (word_boundary_before cls).
Notation lexR := (lexR cls).

(* ---- lists whose items are spelled per an arbitrary one-token oracle (BareWord.lex_body3 / lex_val3 with qi a variable) ------------------------- *)
Lemma lex_body_g pre2 post : forall items pre st rest p b,
  items <> [] -> forallb (scalar_ok3 qi) items = true -> forallb is_scalar items = true ->
  ls_in st = body_text pre2 post pre (map (sc_text3 qi) items) ++ rest ->
  ls_brk st = p :: b -> ls_spans st = [] -> ls_pos st <> 0 -> wbb (ls_prev st) = true -> 1 <= ls_col st ->
  exists st', lextoB cls st (body_sh3 qi (gap_sh pre2) (gap_sh post) (gap_sh pre) items) st' /\ ls_in st' = rest /\ ls_brk st' = b /\
              ls_spans st' = [] /\ ls_pos st' <> 0 /\ 1 < ls_col st'.
Proof.
  induction items as [|x xs IH]; [congruence|]. intros pre st rest p b _ Hok Hsc Hin Hb Hsp Hp Hw Hcol.
  cbn [forallb] in Hok, Hsc. apply andb_true_iff in Hok as [Hx Hxs]. apply andb_true_iff in Hsc as [Sx Sxs].
  destruct (sc_text3_hd qi x Sx Hx) as (x0 & t0 & Ex0 & Hx0a & Hx0b & _).
  cbn [map body_text body_sh3] in Hin |- *.
  rewrite <- !app_assoc in Hin.
  pose proof Hin as Hin0. rewrite Ex0 in Hin0. cbn [app] in Hin0.
  destruct (lex_gap cls pre st x0 _ Hin0 Hx0a Hx0b Hsp Hp) as (st1 & L1 & I1 & P1 & W1).
  specialize (W1 (fun _ => Hw)).
  assert (S1 : ls_spans st1 = []) by (rewrite (lexto_spans _ _ _ _ L1); exact Hsp).
  assert (B1 : ls_brk st1 = p :: b) by (rewrite (lexto_brk cls _ _ _ L1); exact Hb).
  change (x0 :: t0 ++ ?z) with ((x0 :: t0) ++ z) in I1. rewrite <- Ex0 in I1.
  destruct xs as [|y ys].
  - cbn [map] in I1. rewrite <- app_assoc in I1. cbn [s_rb app] in I1.
    destruct (gap_hd_b post c_rbr rest) as (z & t & Ez & Hz); [right; right; left; reflexivity|].
    rewrite Ez in I1.
    destruct (lex_item3 cls qi x st1 z t Sx Hx I1 Hz W1 S1 P1) as (st2 & L2 & I2 & _ & P2).
    assert (S2 : ls_spans st2 = []) by (rewrite (lexto_spans _ _ _ _ L2); exact S1).
    assert (B2 : ls_brk st2 = p :: b) by (rewrite (lexto_brk cls _ _ _ L2); exact B1).
    rewrite <- Ez in I2.
    destruct (lex_gap cls post st2 c_rbr rest I2) as (st3 & L3 & I3 & P3 & _); [chr|chr|exact S2|exact P2|].
    assert (S3 : ls_spans st3 = []) by (rewrite (lexto_spans _ _ _ _ L3); exact S2).
    assert (B3 : ls_brk st3 = p :: b) by (rewrite (lexto_brk cls _ _ _ L3); exact B2).
    destruct (G_rbr cls st3 rest p b I3 S3 B3) as (st4 & G4).
    exists st4. split; [|split; [exact (gstep_in cls _ _ _ _ _ _ _ G4)|split; [exact (gstep_brk cls _ _ _ _ _ _ _ G4)|]]].
    + eapply (lextoB_trans cls); [exact (lexto_B cls _ _ _ L1)|]. eapply (lextoB_trans cls); [exact (lexto_B cls _ _ _ L2)|].
      eapply (lextoB_trans cls); [exact (lexto_B cls _ _ _ L3)|]. eapply (lextoB_gstep cls); [exact G4|reflexivity|left; reflexivity].
    + split; [rewrite (gstep_spans cls _ _ _ _ _ _ _ G4); exact S3|]. split; [exact (gstep_pos cls _ _ _ _ _ _ _ G4)|].
      pose proof (gstep_col cls _ _ _ _ _ _ _ G4). pose proof (lexto_col cls _ _ _ L1 Hcol) as C1.
      pose proof (lexto_col cls _ _ _ L2 C1) as C2. pose proof (lexto_col cls _ _ _ L3 C2). lia.
  - cbn [map] in I1. cbn [app] in I1.
    destruct (lex_item3 cls qi x st1 c_comma _ Sx Hx I1) as (st2 & L2 & I2 & _ & P2); [right; left; reflexivity|exact W1|exact S1|exact P1|].
    assert (S2 : ls_spans st2 = []) by (rewrite (lexto_spans _ _ _ _ L2); exact S1).
    assert (B2 : ls_brk st2 = p :: b) by (rewrite (lexto_brk cls _ _ _ L2); exact B1).
    destruct (G_comma cls st2 _ I2 S2) as (st3 & G3).
    assert (S3 : ls_spans st3 = []) by (rewrite (gstep_spans cls _ _ _ _ _ _ _ G3); exact S2).
    assert (B3 : ls_brk st3 = p :: b) by (rewrite (gstep_brk cls _ _ _ _ _ _ _ G3); exact B2).
    assert (W3 : wbb (ls_prev st3) = true) by (rewrite (gstep_prev cls _ _ _ _ _ _ _ G3); apply (wbb_of cls), u_word_false; lia).
    assert (C3 : 1 <= ls_col st3).
    { pose proof (gstep_col cls _ _ _ _ _ _ _ G3). pose proof (lexto_col cls _ _ _ L1 Hcol) as C1. pose proof (lexto_col cls _ _ _ L2 C1). lia. }
    destruct (IH pre2 st3 rest p b ltac:(discriminate) Hxs Sxs (gstep_in cls _ _ _ _ _ _ _ G3) B3 S3 (gstep_pos cls _ _ _ _ _ _ _ G3) W3 C3)
      as (st4 & L4 & I4 & B4 & S4 & P4 & C4).
    exists st4. split; [|repeat split; assumption].
    eapply (lextoB_trans cls); [exact (lexto_B cls _ _ _ L1)|]. eapply (lextoB_trans cls); [exact (lexto_B cls _ _ _ L2)|].
    change ((COMMA, None) :: ?l) with ([(COMMA, @None tvalue)] ++ l).
    eapply (lextoB_trans cls); [|exact L4]. eapply (lextoB_gstep cls); [exact G3|reflexivity|left; reflexivity].
Qed.

Lemma lex_list_g D items st z r : forallb is_scalar items = true -> forallb (scalar_ok3 qi) items = true ->
  ls_in st = list_text qi D items ++ z :: r -> ls_spans st = [] -> ls_pos st <> 0 -> 1 <= ls_col st ->
  exists st', lexto cls st (val_sh3 ml qi qi D (VList items)) st' /\ ls_in st' = z :: r /\ 1 < ls_col st' /\ ls_pos st' <> 0.
Proof.
  intros Hc Hok Hin Hsp Hpos Hcol. destruct items as [|x xs].
  - cbn [list_text val_sh3] in *. unfold s_empty_list in Hin. cbn [app] in Hin.
    destruct (G_lbr cls st _ Hin Hsp) as (st1 & p & G1).
    assert (S1 : ls_spans st1 = []) by (rewrite (gstep_spans cls _ _ _ _ _ _ _ G1); exact Hsp).
    destruct (G_rbr cls st1 _ p (ls_brk st) (gstep_in cls _ _ _ _ _ _ _ G1) S1 (gstep_brk cls _ _ _ _ _ _ _ G1)) as (st2 & G2).
    exists st2. split; [|split; [exact (gstep_in cls _ _ _ _ _ _ _ G2)|split; [|exact (gstep_pos cls _ _ _ _ _ _ _ G2)]]].
    + apply (lextoB_lexto cls); [|exact (gstep_brk cls _ _ _ _ _ _ _ G2)].
      change [(LIST_START, None); (LIST_END, None)] with ([(LIST_START, @None tvalue)] ++ [(LIST_END, @None tvalue)]).
      eapply (lextoB_trans cls); eapply (lextoB_gstep cls); try eassumption; try reflexivity; left; reflexivity.
    + pose proof (gstep_col cls _ _ _ _ _ _ _ G1). pose proof (gstep_col cls _ _ _ _ _ _ _ G2). lia.
  - cbn [list_text val_sh3] in Hin |- *. set (items := x :: xs) in *.
    assert (Hbody : forall g2 gp g1,
              ls_in st = c_lbr :: body_text g2 gp g1 (map (sc_text3 qi) items) ++ z :: r ->
              exists st', lexto cls st ((LIST_START, None) :: body_sh3 qi (gap_sh g2) (gap_sh gp) (gap_sh g1) items) st' /\
                          ls_in st' = z :: r /\ 1 < ls_col st' /\ ls_pos st' <> 0).
    { intros g2 gp g1 Hin'.
      destruct (G_lbr cls st _ Hin' Hsp) as (st1 & p & G1).
      assert (S1 : ls_spans st1 = []) by (rewrite (gstep_spans cls _ _ _ _ _ _ _ G1); exact Hsp).
      assert (W1 : wbb (ls_prev st1) = true) by (rewrite (gstep_prev cls _ _ _ _ _ _ _ G1); apply (wbb_of cls), u_word_false; lia).
      assert (C1 : 1 <= ls_col st1) by (pose proof (gstep_col cls _ _ _ _ _ _ _ G1); lia).
      destruct (lex_body_g g2 gp items g1 st1 (z :: r) p (ls_brk st)) as (st2 & L2 & I2 & B2 & S2 & P2 & C2);
        [discriminate|exact Hok|exact Hc|exact (gstep_in cls _ _ _ _ _ _ _ G1)|exact (gstep_brk cls _ _ _ _ _ _ _ G1)|exact S1
        |exact (gstep_pos cls _ _ _ _ _ _ _ G1)|exact W1|exact C1|].
      exists st2. split; [|split; [exact I2|split; [exact C2|exact P2]]].
      apply (lextoB_lexto cls); [|exact B2].
      change ((LIST_START, None) :: ?l) with ([(LIST_START, @None tvalue)] ++ l).
      eapply (lextoB_trans cls); [|exact L2]. eapply (lextoB_gstep cls); [exact G1|reflexivity|left; reflexivity]. }
    destruct (ml items); cbn [app] in Hin.
    + exact (Hbody (GNl (S D)) (GNl D) (GNl (S D)) Hin).
    + exact (Hbody GNone GNone GNone Hin).
Qed.

(* ---- a value in assignment / META position -------------------------------------------------------------------------------------------------- *)
Lemma lex_val_sp x D v st z r : cval v = true -> val_ok_sp qi x v = true -> ls_in st = val_text_sp qi x D v ++ z :: r -> bterm z ->
  ls_prev st = Some c_colon -> ls_spans st = [] -> ls_pos st <> 0 -> 1 <= ls_col st ->
  exists st', lexR st (val_sh5 ml qi (fun s => to_spell (x s)) D v) (val_tq qi x D v) st' /\ ls_in st' = z :: r /\ 1 < ls_col st' /\ ls_pos st' <> 0.
Proof.
  intros Hc Hok Hin Hz Hp Hsp Hpos Hcol.
  assert (Hw : wbb (ls_prev st) = true) by (rewrite Hp; apply (wbb_of cls), u_word_false; chr).
  assert (Old : val_sh5 ml qi (fun s => to_spell (x s)) D v = val_sh3 ml qi qi D v -> val_tq qi x D v = nom (length (val_sh3 ml qi qi D v)) ->
                (exists st', lexto cls st (val_sh3 ml qi qi D v) st' /\ ls_in st' = z :: r /\ 1 < ls_col st' /\ ls_pos st' <> 0) ->
                exists st', lexR st (val_sh5 ml qi (fun s => to_spell (x s)) D v) (val_tq qi x D v) st' /\ ls_in st' = z :: r /\ 1 < ls_col st' /\ ls_pos st' <> 0).
  { intros E1 E2 (st' & L & I & C & P). rewrite E1, E2. exists st'. split; [exact (lexR_of_lexto _ _ _ _ L)|]. repeat split; assumption. }
  assert (Sc : is_scalar v = true -> scalar_ok v = true -> val_text_sp qi x D v = sc_text3 qi v -> val_sh3 ml qi qi D v = [vsh3 qi v] -> scalar_ok3 qi v = true ->
               exists st', lexto cls st (val_sh3 ml qi qi D v) st' /\ ls_in st' = z :: r /\ 1 < ls_col st' /\ ls_pos st' <> 0).
  { intros Hi _ Et Esh Hs3. rewrite Et in Hin. rewrite Esh.
    destruct (lex_item3 cls qi v st z r Hi Hs3 Hin Hz Hw Hsp Hpos) as (st' & L & I & C & P).
    exists st'. split; [exact L|]. split; [exact I|]. split; [lia|exact P]. }
  destruct v; cbn [cval is_scalar sval_of] in Hc; try discriminate Hc; cbn [val_text_sp val_ok_sp] in Hin, Hok.
  - apply Old; [reflexivity|reflexivity|]. apply Sc; try reflexivity.
  - apply Old; [reflexivity|reflexivity|]. apply Sc; try reflexivity.
  - apply Old; [reflexivity|reflexivity|]. apply Sc; try reflexivity; exact Hok.
  - cbn [val_sh5 val_tq]. exact (lex_site cls (x s) s st z r Hok Hin Hz Hp Hsp Hpos Hcol).
  - apply Old; [reflexivity|reflexivity|]. exact (lex_list_g D items st z r Hc Hok Hin Hsp Hpos Hcol).
Qed.

(* ---- KEY::value [// comment] NEWLINE -------------------------------------------------------------------------------------------------------------- *)
Lemma lex_kv_line_sp x D k v t st rest :
  key_ok k = true -> cval v = true -> val_ok_sp qi x v = true -> opt_ne t = true -> trail_ok t = true ->
  ls_in st = (ind D ++ k ++ s_assign ++ val_text_sp qi x D v ++ emit_trailing t) ++ c_nl :: rest -> ready st ->
  exists st', lexR st (indent_sh D ++ [(IDENTIFIER, Some (TVText k)); (ASSIGN, None)] ++ val_sh5 ml qi (fun s => to_spell (x s)) D v ++ trail_sh t ++ [(NEWLINE, None)])
                      (nom (length (indent_sh D)) ++ nom 2 ++ val_tq qi x D v ++ nom (length (trail_sh t)) ++ nom 1) st' /\
              ls_in st' = rest /\ ready st'.
Proof.
  intros Hk Hc Hv Hne Ht Hin Hr. rewrite <- !app_assoc in Hin.
  change (s_assign ++ ?x) with (c_colon :: c_colon :: x) in Hin.
  destruct (lex_indent_key cls D k _ st Hk Hin Hr) as (st2 & L2 & I2 & S2).
  destruct (T_assign cls st2 _ I2 S2) as (st3 & T3).
  assert (L3 : lexto cls st2 [(ASSIGN, None)] st3) by (eapply lexto_tstep; [exact T3|reflexivity|left; reflexivity]).
  assert (S3 : ls_spans st3 = []) by (rewrite (tstep_spans _ _ _ _ _ _ _ T3); exact S2).
  assert (C3 : 1 <= ls_col st3) by (apply (lexto_col cls _ _ _ L3), (lexto_col cls _ _ _ L2), ready_col; exact Hr).
  destruct (trail_hd_b t rest) as (z & u & Ez & Hz).
  pose proof (tstep_in _ _ _ _ _ _ _ T3) as I3. rewrite Ez in I3.
  destruct (lex_val_sp x D v st3 z u Hc Hv I3 Hz (tstep_prev _ _ _ _ _ _ _ T3) S3 (tstep_pos _ _ _ _ _ _ _ T3) C3) as (st4 & L4 & I4 & C4 & P4).
  assert (S4 : ls_spans st4 = []) by (rewrite (lexR_spans _ _ _ _ _ L4); exact S3).
  rewrite <- Ez in I4.
  destruct (lex_trail cls t st4 rest Hne Ht I4 C4 S4 P4) as (st5 & L5 & I5).
  assert (S5 : ls_spans st5 = []) by (rewrite (lexto_spans _ _ _ _ L5); exact S4).
  destruct (lex_newline cls st5 rest I5 S5) as (st6 & L6 & I6 & R6).
  exists st6. split; [|split; assumption].
  assert (L23 : lexto cls st (indent_sh D ++ [(IDENTIFIER, Some (TVText k)); (ASSIGN, None)]) st3).
  { change [(IDENTIFIER, Some (TVText k)); (ASSIGN, None)] with ([(IDENTIFIER, Some (TVText k))] ++ [(ASSIGN, @None tvalue)]).
    rewrite app_assoc. eapply lexto_trans; [exact L2|exact L3]. }
  apply lexR_of_lexto in L23. rewrite app_length, nom_app in L23. cbn [length] in L23.
  rewrite !app_assoc. rewrite <- (app_assoc (nom (length (indent_sh D)))).
  rewrite <- !app_assoc. rewrite (app_assoc (indent_sh D)), (app_assoc (nom (length (indent_sh D)))).
  eapply lexR_trans; [exact L23|]. eapply lexR_trans; [exact L4|].
  eapply lexR_trans; [exact (lexR_of_lexto _ _ _ _ L5)|exact (lexR_of_lexto _ _ _ _ L6)].
Qed.
(* ---- nodes, at every depth ---------------------------------------------------------------------------------------------------------------------- *)
Notation node_lines_sp := (node_lines_sp qa qi).
Notation sp_safe_node := (sp_safe_node qa qi).
Notation node_sh5 := (node_sh5 ml idnum_digits (qa5 qa) qi).
Notation nodes_sh5 := (nodes_sh5 ml idnum_digits (qa5 qa) qi).
Notation main_sh5 := (main_sh5 ml idnum_digits (qa5 qa) qi).

Definition LS_node (n : node) : Prop :=
  core2_node n = true -> sp_safe_node n = true ->
  forall D st rest, ls_in st = unlines (node_lines_sp n D) ++ rest -> ready st ->
    exists st', lexR st (node_sh5 D n) (node_tq qa qi D n) st' /\ ls_in st' = rest /\ ready st'.

Lemma lex_nodes_sp ch : Forall LS_node ch -> forallb core2_node ch = true -> forallb sp_safe_node ch = true ->
  forall D st rest, ls_in st = unlines (flat_map (fun c => node_lines_sp c D) ch) ++ rest -> ready st ->
    exists st', lexR st (nodes_sh5 D ch) (nodes_tq qa qi D ch) st' /\ ls_in st' = rest /\ ready st'.
Proof.
  induction ch as [|c cs IH]; intros HP Hc Hs D st rest Hin Hr.
  - exists st. split; [apply lexR_refl|split; [exact Hin|exact Hr]].
  - inversion HP as [|? ? HPc HPcs]; subst.
    cbn [forallb] in Hc, Hs. apply andb_true_iff in Hc as [Hc1 Hc2]. apply andb_true_iff in Hs as [Hs1 Hs2].
    cbn [flat_map] in Hin. rewrite unlines_app, <- app_assoc in Hin.
    destruct (HPc Hc1 Hs1 D st _ Hin Hr) as (st1 & L1 & I1 & R1).
    destruct (IH HPcs Hc2 Hs2 D st1 rest I1 R1) as (st2 & L2 & I2 & R2).
    exists st2. split; [|split; assumption]. unfold MultiWord.nodes_sh5, nodes_tq. cbn [flat_map]. eapply lexR_trans; [exact L1|exact L2].
Qed.

Theorem all_LS_node : forall n, LS_node n.
Proof.
  apply node_ind2; unfold LS_node.
  - (* assignment *)
    intros k v l t Hc Hs D st rest Hin Hr. cbn [core2_node] in Hc. apply andb_true_iff in Hc as [Hcv Hne].
    cbn [LexSpellText.sp_safe_node] in Hs. apply andb_true_iff in Hs as [Hs Ht]. apply andb_true_iff in Hs as [Hs Hl]. apply andb_true_iff in Hs as [Hk Hv].
    cbn [LexSpellText.node_lines_sp] in Hin. rewrite unlines_app, <- app_assoc in Hin.
    destruct (lex_lead cls D l st _ Hl Hin Hr) as (st1 & L1 & I1 & R1).
    cbn [unlines flat_map] in I1. rewrite app_nil_r, <- app_assoc in I1. cbn [app] in I1.
    destruct (lex_kv_line_sp (qa k) D k v t st1 rest Hk Hcv Hv Hne Ht I1 R1) as (st2 & L2 & I2 & R2).
    exists st2. split; [|split; assumption]. unfold MultiWord.node_sh5, node_tq. cbn [lead_of MultiWord.main_sh5 main_tq].
    rewrite nom_app, <- app_assoc. eapply lexR_trans; [exact (lexR_of_lexto _ _ _ _ L1)|exact L2].
  - (* block *)
    intros k tg ch l IH Hc Hs D st rest Hin Hr. cbn [core2_node] in Hc. destruct tg; [discriminate|].
    apply andb_true_iff in Hc as [_ Hcc]. cbn [LexSpellText.sp_safe_node] in Hs. apply andb_true_iff in Hs as [Hs Hss]. apply andb_true_iff in Hs as [Hk Hl].
    cbn [LexSpellText.node_lines_sp] in Hin. rewrite !unlines_app, <- !app_assoc in Hin.
    destruct (lex_lead cls D l st _ Hl Hin Hr) as (st1 & L1 & I1 & R1).
    cbn [unlines flat_map] in I1. rewrite app_nil_r, <- app_assoc in I1. cbn [app] in I1.
    destruct (lex_block_header cls D k st1 _ Hk I1 R1) as (st2 & L2 & I2 & R2).
    destruct (lex_nodes_sp ch IH Hcc Hss (S D) st2 rest I2 R2) as (st3 & L3 & I3 & R3).
    exists st3. split; [|split; assumption]. unfold MultiWord.node_sh5, node_tq. cbn [lead_of]. rewrite main_sh5_block, main_tq_block.
    rewrite nom_app, <- app_assoc. eapply lexR_trans; [exact (lexR_of_lexto _ _ _ _ L1)|].
    apply lexR_of_lexto in L2. rewrite app_length, nom_app in L2. cbn [length] in L2.
    rewrite (app_assoc (indent_sh D)), (app_assoc (nom (length (indent_sh D)))). eapply lexR_trans; [exact L2|exact L3].
  - (* section *)
    intros i k a ch l IH Hc Hs D st rest Hin Hr. cbn [core2_node] in Hc. apply andb_true_iff in Hc as [Hne Hc]. apply andb_true_iff in Hc as [_ Hcc].
    cbn [LexSpellText.sp_safe_node] in Hs. apply andb_true_iff in Hs as [Hs Hss]. apply andb_true_iff in Hs as [Hs Hl].
    apply andb_true_iff in Hs as [Hs Ha]. apply andb_true_iff in Hs as [Hi Hk].
    cbn [LexSpellText.node_lines_sp] in Hin. rewrite !unlines_app, <- !app_assoc in Hin.
    destruct (lex_lead cls D l st _ Hl Hin Hr) as (st1 & L1 & I1 & R1).
    cbn [unlines flat_map] in I1. rewrite app_nil_r, <- app_assoc in I1. cbn [app] in I1.
    destruct (lex_section_header cls D i k a st1 _ Hi Hk Ha Hne I1 R1) as (st2 & L2 & I2 & R2).
    destruct (lex_nodes_sp ch IH Hcc Hss (S D) st2 rest I2 R2) as (st3 & L3 & I3 & R3).
    exists st3. split; [|split; assumption]. unfold MultiWord.node_sh5, node_tq. cbn [lead_of]. rewrite main_sh5_section, main_tq_section.
    rewrite nom_app, <- app_assoc. eapply lexR_trans; [exact (lexR_of_lexto _ _ _ _ L1)|].
    apply lexR_of_lexto in L2. rewrite !app_length, !nom_app in L2. cbn [length] in L2.
    match goal with |- lexR _ (?a ++ ?b ++ ?c ++ ?d ++ ?e) (?ma ++ ?mb ++ ?mc ++ ?md ++ ?me) _ =>
      replace (a ++ b ++ c ++ d ++ e) with ((a ++ b ++ c ++ d) ++ e) by (rewrite <- !app_assoc; reflexivity);
      replace (ma ++ mb ++ mc ++ md ++ me) with ((ma ++ mb ++ mc ++ md) ++ me) by (rewrite <- !app_assoc; reflexivity) end.
    eapply lexR_trans; [exact L2|exact L3].
  - intros t Hc; discriminate Hc.
Qed.
End Lines.

Section Doc.
Variable cls : N -> N.
Variable qa : str -> str -> spelling.
Variable qm : str -> spelling.
Variable qi : str -> strk.
Notation lexR := (lexR cls).
Notation render_sp := (render_sp qa qm qi).
Notation sp_safe_doc := (sp_safe_doc qa qm qi).
Notation doc5_sh := (doc5_sh ml idnum_digits (qa5 qa) (qm5 qm) qi).
Notation doc5_mk := (doc5_mk ml (qa5 qa) (qm5 qm) qi).
Notation doc_tq := (doc_tq qa qm qi).

Lemma all_LS_nodes ns : Forall (LS_node cls qa qi) ns.
Proof. apply Forall_forall. intros n _. apply all_LS_node. Qed.

Lemma lex_meta_fields_sp m : forall st rest, forallb meta_field_ok m = true -> forallb (sp_safe_meta qm qi) m = true ->
  ls_in st = unlines (map (meta_line_sp qm qi) m) ++ rest -> ready st ->
  exists st', lexR st (flat_map (fun kv => indent_sh 1 ++ [(IDENTIFIER, Some (TVText (fst kv))); (ASSIGN, None)] ++
                                      (match snd kv with MV v => val_sh5 ml qi (qm5 qm) 1 v | MD _ => [] end) ++ [(NEWLINE, None)]) m)
                      (flat_map (fun kv => nom (length (indent_sh 1)) ++ nom 2 ++ (match snd kv with MV v => val_tq qi qm 1 v | MD _ => [] end) ++ nom 1) m)
                      st' /\ ls_in st' = rest /\ ready st'.
Proof.
  induction m as [|kv m IH]; intros st rest Hf Hm Hin Hr.
  - exists st. split; [apply lexR_refl|split; [exact Hin|exact Hr]].
  - cbn [forallb map] in *. apply andb_true_iff in Hf as [F1 F2]. apply andb_true_iff in Hm as [M1 M2].
    destruct (meta_field_parts_sp qm qi kv F1 M1) as (v & Ev & Hcv & Hk & Hok & El).
    rewrite unlines_cons, El, <- app_assoc in Hin. cbn [app] in Hin.
    destruct (lex_kv_line_sp cls qi qm 1 (fst kv) v None st _ Hk Hcv Hok eq_refl eq_refl Hin Hr) as (st1 & L1 & I1 & R1).
    destruct (IH st1 rest F2 M2 I1 R1) as (st2 & L2 & I2 & R2).
    exists st2. split; [|split; assumption]. cbn [flat_map]. rewrite Ev. eapply lexR_trans; [exact L1|exact L2].
Qed.

Lemma lex_doc_sp d : core2_doc d = true -> sp_safe_doc d = true ->
  forall st, ls_in st = render_sp d -> ls_pos st = 0 -> ls_spans st = [] ->
  exists st', lexR st (doc5_sh d ++ [(NEWLINE, None)]) (doc_tq d ++ nom 1) st' /\ ls_in st' = [].
Proof.
  intros Hc Hs st Hin Hp Hsp. destruct (core2_parts d Hc) as (_ & Hcn & Hmf).
  unfold LexSpellText.sp_safe_doc in Hs.
  apply andb_true_iff in Hs as [Hs Htr]. apply andb_true_iff in Hs as [Hs Hm]. apply andb_true_iff in Hs as [Hs Hn]. apply andb_true_iff in Hs as [Hname Hg].
  unfold LexSpellText.render_sp, render_lines, grammar_lines in Hin. unfold MultiWord.doc5_sh, LexSpellText.doc_tq.
  destruct d as [name gr fr sep meta secs trl]. cbn [dfront dmeta dtrailing dsections dgrammar dname dsep] in *.
  rewrite !unlines_app, <- ?app_assoc in Hin.
  set (TAIL := unlines (meta_lines_sp qm qi meta) ++ unlines (if sep then [s_sep] else []) ++
               unlines (flat_map (fun n => node_lines_sp qa qi n 0) secs) ++ unlines (emit_leading trl 0) ++ unlines [s_end]) in *.
  (* grammar line *)
  assert (HA : exists st1, lexR st (match gr with Some g => [(GRAMMAR_SENTINEL, Some (TVText g)); (NEWLINE, None)] | None => [] end)
                                   (nom (match gr with Some _ => 2 | None => 0 end)) st1 /\
                           ls_in st1 = s_env ++ name ++ s_env ++ c_nl :: TAIL /\ ls_spans st1 = []).
  { destruct gr as [g|].
    - cbn [unlines flat_map] in Hin. rewrite ?app_nil_r, <- ?app_assoc in Hin. cbn [app] in Hin.
      destruct (T_sentinel cls st g _ Hg Hin Hp Hsp) as (st0 & T0).
      assert (S0 : ls_spans st0 = []) by (rewrite (tstep_spans _ _ _ _ _ _ _ T0); exact Hsp).
      destruct (lex_newline cls st0 _ (tstep_in _ _ _ _ _ _ _ T0) S0) as (st1 & L1 & I1 & (_ & _ & S1)).
      exists st1. split; [|split; [exact I1|exact S1]].
      apply (lexR_of_lexto cls st [(GRAMMAR_SENTINEL, Some (TVText g)); (NEWLINE, None)]).
      change [(GRAMMAR_SENTINEL, Some (TVText g)); (NEWLINE, None)] with ([(GRAMMAR_SENTINEL, Some (TVText g))] ++ [(NEWLINE, None)]).
      eapply lexto_trans; [|exact L1]. eapply lexto_tstep; [exact T0|reflexivity|right; reflexivity].
    - cbn [unlines flat_map app] in Hin. rewrite ?app_nil_r, <- ?app_assoc in Hin. cbn [app] in Hin.
      exists st. split; [apply lexR_refl|split; [exact Hin|exact Hsp]]. }
  destruct HA as (st1 & L1 & I1 & S1). clear Hin Hp Hsp.
  (* envelope start *)
  destruct (T_env_start cls st1 name _ Hname I1 S1) as (st2 & T2).
  assert (S2 : ls_spans st2 = []) by (rewrite (tstep_spans _ _ _ _ _ _ _ T2); exact S1).
  destruct (lex_newline cls st2 _ (tstep_in _ _ _ _ _ _ _ T2) S2) as (st3 & L3 & I3 & R3).
  assert (L23 : lexR st1 [(ENVELOPE_START, Some (TVText name)); (NEWLINE, None)] (nom 2) st3).
  { apply (lexR_of_lexto cls st1 [(ENVELOPE_START, Some (TVText name)); (NEWLINE, None)]).
    change [(ENVELOPE_START, Some (TVText name)); (NEWLINE, None)] with ([(ENVELOPE_START, Some (TVText name))] ++ [(NEWLINE, None)]).
    eapply lexto_trans; [|exact L3]. eapply lexto_tstep; [exact T2|reflexivity|right; reflexivity]. }
  subst TAIL.
  (* META *)
  assert (HM : exists st4, lexR st3 (meta_sh5 ml (qm5 qm) qi meta) (meta_tq qm qi meta) st4 /\
                           ls_in st4 = unlines (if sep then [s_sep] else []) ++ unlines (flat_map (fun n => node_lines_sp qa qi n 0) secs) ++
                                       unlines (emit_leading trl 0) ++ unlines [s_end] /\ ready st4).
  { destruct meta as [|kv0 m0]; [exists st3; split; [apply lexR_refl|split; [exact I3|exact R3]]|].
    set (m := kv0 :: m0) in *. unfold meta_lines_sp in I3. cbn [meta_sh5 meta_tq]. fold m.
    change (match m with [] => [] | _ :: _ => s_meta_hdr :: map (meta_line_sp qm qi) m end) with (s_meta_hdr :: map (meta_line_sp qm qi) m) in I3.
    rewrite unlines_cons, <- app_assoc in I3. cbn [app] in I3.
    destruct (lex_block_header cls 0 [77;69;84;65] st3 _ key_ok_META I3 R3) as (st4 & L4 & I4 & R4).
    destruct (lex_meta_fields_sp m st4 _ Hmf Hm I4 R4) as (st5 & L5 & I5 & R5).
    exists st5. split; [|split; assumption]. eapply lexR_trans; [exact (lexR_of_lexto _ _ _ _ L4)|exact L5]. }
  destruct HM as (st4 & L4 & I4 & R4).
  (* separator *)
  assert (HB : exists st5, lexR st4 (if sep then [(SEPARATOR, None); (NEWLINE, None)] else []) (nom (if sep then 2 else 0)) st5 /\
                           ls_in st5 = unlines (flat_map (fun n => node_lines_sp qa qi n 0) secs) ++ unlines (emit_leading trl 0) ++ unlines [s_end] /\
                           ready st5).
  { destruct sep.
    - cbn [unlines flat_map app] in I4. rewrite <- ?app_assoc in I4. cbn [app] in I4.
      pose proof R4 as (_ & _ & S4).
      destruct (T_sep cls st4 _ I4 S4) as (st' & T').
      assert (S' : ls_spans st' = []) by (rewrite (tstep_spans _ _ _ _ _ _ _ T'); exact S4).
      destruct (lex_newline cls st' _ (tstep_in _ _ _ _ _ _ _ T') S') as (st5 & L5 & I5 & R5).
      exists st5. split; [|split; [exact I5|exact R5]].
      apply (lexR_of_lexto cls st4 [(SEPARATOR, None); (NEWLINE, None)]).
      change [(SEPARATOR, None); (NEWLINE, None)] with ([(SEPARATOR, @None tvalue)] ++ [(NEWLINE, None)]).
      eapply lexto_trans; [|exact L5]. eapply lexto_tstep; [exact T'|reflexivity|left; reflexivity].
    - exists st4. split; [apply lexR_refl|split; [exact I4|exact R4]]. }
  destruct HB as (st5 & L5 & I5 & R5).
  (* sections, trailing comments *)
  destruct (lex_nodes_sp cls qa qi secs (all_LS_nodes secs) Hcn Hn 0%nat st5 _ I5 R5) as (st6 & L6 & I6 & R6).
  destruct (lex_lead cls 0 trl st6 _ Htr I6 R6) as (st7 & L7 & I7 & (_ & _ & S7)).
  (* envelope end + final newline *)
  cbn [unlines flat_map] in I7. rewrite app_nil_r in I7.
  destruct (T_env_end cls st7 [] I7 S7) as (st8 & T8).
  assert (S8 : ls_spans st8 = []) by (rewrite (tstep_spans _ _ _ _ _ _ _ T8); exact S7).
  destruct (lex_newline cls st8 [] (tstep_in _ _ _ _ _ _ _ T8) S8) as (st9 & L9 & I9 & _).
  assert (L8 : lexR st7 [(ENVELOPE_END, None)] (nom 1) st8).
  { apply (lexR_of_lexto cls st7 [(ENVELOPE_END, None)]). eapply lexto_tstep; [exact T8|reflexivity|left; reflexivity]. }
  exists st9. split; [|exact I9].
  rewrite <- !app_assoc.
  eapply lexR_trans; [exact L1|]. eapply lexR_trans; [exact L23|]. eapply lexR_trans; [exact L4|]. eapply lexR_trans; [exact L5|].
  eapply lexR_trans; [exact L6|]. eapply lexR_trans; [exact (lexR_of_lexto _ _ _ _ L7)|].
  eapply lexR_trans; [exact L8|exact (lexR_of_lexto _ _ _ _ L9)].
Qed.
(* (c) THE LEXER HALF for spelled strings *)
Theorem lex_render_sp d : core2_doc d = true -> sp_safe_doc d = true ->
  exists ts tnl teof,
    tokenize cls false (lines_of (render_sp d)) = LexOk (ts ++ [tnl; teof]) (RC ts (doc_tq d)) /\
    Forall2 tmatch ts (doc5_sh d) /\ tk tnl = NEWLINE /\ tk teof = EOF /\ length ts = length (doc_tq d).
Proof.
  intros Hc Hs.
  rewrite (tokenize_tok_text cls false _ (render_text_ok qa qm qi d Hc Hs) (render_nonblank_head qa qm qi d)).
  set (st0 := mkLS (render_sp d) None 0 1 1 [] [] [] []).
  destruct (lex_doc_sp d Hc Hs st0 eq_refl eq_refl eq_refl) as (st' & (Hst & (tsall & Ht & HF & HR) & Hlen & Hb & _) & Hin).
  rewrite (run_steps_finish cls st0 st' _ Hst Hin) by (cbn [ls_in st0]; lia).
  apply Forall2_app_inv_r in HF. destruct HF as (ts & tl & HF1 & HF2 & ->).
  inversion HF2 as [|tnl ? ? ? [Hnl _] HF3]; subst. inversion HF3; subst. cbn [fst] in Hnl.
  assert (Hl : length ts = length (doc_tq d)).
  { rewrite (F2_length _ _ _ HF1). rewrite !app_length in Hlen. cbn [length] in Hlen. rewrite nom_len in Hlen. lia. }
  exists ts, tnl, (mkTok EOF TVNone (ls_line st') (ls_col st') None).
  split; [|split; [exact HF1|split; [exact Hnl|split; [reflexivity|exact Hl]]]].
  unfold finish. rewrite Hb, HR, Ht. cbn [ls_brk ls_reps ls_toks st0 rev app].
  rewrite !app_nil_r, !rev_involutive, <- app_assoc. rewrite (RC_app ts [tnl] _ _ Hl). cbn [nom repeat RC app]. rewrite app_nil_r. reflexivity.
Qed.

(* admissible oracle families: every site may be spelled the way the oracle says *)
Definition admissible : Prop :=
  (forall k s, site_ok (qa k s) s = true) /\ (forall s, site_ok (qm s) s = true) /\ (forall s, str_lexable (qi s) s = true).

Lemma admissible_parser : admissible ->
  (forall k s, spell_ok s (qa5 qa k s) = true) /\ (forall s, spell_ok s (qm5 qm s) = true) /\ (forall s, qi s = QIdent -> has_annotation s = false).
Proof.
  intros (Ha & Hm & Hi). split; [intros k s; apply site_spell_ok, Ha|]. split; [intros s; apply site_spell_ok, Hm|].
  intros s E. specialize (Hi s). rewrite E in Hi. exact (bare_no_annotation s Hi).
Qed.

(* (c) THE TEXT-LEVEL THEOREM: document, receipts, records *)
Theorem text_render_sp numcanon holo_ok strict d :
  core2_doc d = true -> sp_safe_doc d = true -> admissible ->
  MultiWord.nums_ok2_l numcanon idnum_digits (dsections d) -> Forall (MultiWord.field_num_ok numcanon) (dmeta d) ->
  exists ts tnl teof warns,
    tokenize cls false (lines_of (render_sp d)) = LexOk (ts ++ [tnl; teof]) (RC ts (doc_tq d)) /\
    Forall2 tmatch ts (doc5_sh d) /\ length ts = length (doc_tq d) /\
    parse_model cls numcanon holo_ok strict (lines_of (render_sp d)) = PRDoc d (RC ts (doc_tq d)) warns /\
    Forall advisory5 warns /\ filter is_mw warns = E ts (doc5_mk d).
Proof.
  intros Hc Hs Hadm Hnum Hmnum. destruct (admissible_parser Hadm) as (Hqa & Hqm & Hqi).
  destruct (lex_render_sp d Hc Hs) as (ts & tnl & teof & Htok & HF & _ & _ & Hl).
  destruct (render_first_line qa qm qi d Hs) as (l0 & r & El & Hl0).
  exists ts, tnl, teof.
  destruct (parse_core5_doc numcanon holo_ok strict (u_space cls) (u_alpha cls) ml idnum_digits (qa5 qa) (qm5 qm) qi Hqa Hqm Hqi d Hc Hnum Hmnum
              (mkPS (ts ++ [tnl; teof]) None 0 [] 0 []) ts [tnl; teof]) as (st' & Hp & ((l & Hw & Hadv & Hrs) & _));
    [discriminate|reflexivity|exact HF|reflexivity|].
  exists (rev (pwarns st')). split; [exact Htok|]. split; [exact HF|]. split; [exact Hl|].
  cbn [pwarns] in Hw. rewrite app_nil_r in Hw. rewrite Hw. split; [|split; [apply Forall_rev; exact Hadv|exact Hrs]].
  unfold parse_model. rewrite (strip_frontmatter_none (u_space cls) (render_sp d) l0 r El Hl0), Htok, Hp, Hw.
  f_equal. destruct (core2_parts d Hc) as (Hfr & _). destruct d as [name gr fr sep meta secs trl]. cbn [dfront] in Hfr. subst fr. reflexivity.
Qed.

(* position-free reading of the receipts: kind 0, original = three quotes, replacement = the string of the site, one per
   triple-quoted site, in document order *)
Corollary text_render_sp_receipts numcanon holo_ok strict d :
  core2_doc d = true -> sp_safe_doc d = true -> admissible ->
  MultiWord.nums_ok2_l numcanon idnum_digits (dsections d) -> Forall (MultiWord.field_num_ok numcanon) (dmeta d) ->
  exists reps warns,
    parse_model cls numcanon holo_ok strict (lines_of (render_sp d)) = PRDoc d reps warns /\
    map rep_core reps = map (fun s => (0, tq3, s)) (tq_sites qa qm qi d) /\ Forall advisory5 warns.
Proof.
  intros Hc Hs Hadm Hnum Hmnum.
  destruct (text_render_sp numcanon holo_ok strict d Hc Hs Hadm Hnum Hmnum) as (ts & tnl & teof & warns & _ & _ & Hl & Hp & Hadv & _).
  exists (RC ts (doc_tq d)), warns. split; [exact Hp|]. split; [exact (RC_core ts (doc_tq d) Hl)|exact Hadv].
Qed.
End Doc.

(* ---- two spellings of one document; the canonical spelling ------------------------------------------------------------------------------------ *)
Section Converge.
Variable cls : N -> N.

(* what the full model does with the text render_sp qa qm qi d *)
Definition spelled_reading numcanon holo_ok strict qa qm qi (d : doc) : Prop :=
  exists ts tnl teof warns,
    tokenize cls false (lines_of (render_sp qa qm qi d)) = LexOk (ts ++ [tnl; teof]) (RC ts (doc_tq qa qm qi d)) /\
    Forall2 tmatch ts (doc5_sh ml idnum_digits (qa5 qa) (qm5 qm) qi d) /\ length ts = length (doc_tq qa qm qi d) /\
    parse_model cls numcanon holo_ok strict (lines_of (render_sp qa qm qi d)) = PRDoc d (RC ts (doc_tq qa qm qi d)) warns /\
    Forall advisory5 warns /\ filter is_mw warns = E ts (doc5_mk ml (qa5 qa) (qm5 qm) qi d).

Theorem text_spellings_converge numcanon holo_ok strict d qa1 qm1 qi1 qa2 qm2 qi2 :
  core2_doc d = true ->
  MultiWord.nums_ok2_l numcanon idnum_digits (dsections d) -> Forall (MultiWord.field_num_ok numcanon) (dmeta d) ->
  sp_safe_doc qa1 qm1 qi1 d = true -> admissible qa1 qm1 qi1 ->
  sp_safe_doc qa2 qm2 qi2 d = true -> admissible qa2 qm2 qi2 ->
  spelled_reading numcanon holo_ok strict qa1 qm1 qi1 d /\ spelled_reading numcanon holo_ok strict qa2 qm2 qi2 d.
Proof.
  intros Hc Hnum Hmnum S1 A1 S2 A2. split.
  - exact (text_render_sp cls qa1 qm1 qi1 numcanon holo_ok strict d Hc S1 A1 Hnum Hmnum).
  - exact (text_render_sp cls qa2 qm2 qi2 numcanon holo_ok strict d Hc S2 A2 Hnum Hmnum).
Qed.

(* ... hence both canonicalise to the same bytes *)
Corollary text_spellings_same_canonical numcanon holo_ok strict sp d qa1 qm1 qi1 qa2 qm2 qi2 :
  core2_doc d = true ->
  MultiWord.nums_ok2_l numcanon idnum_digits (dsections d) -> Forall (MultiWord.field_num_ok numcanon) (dmeta d) ->
  sp_safe_doc qa1 qm1 qi1 d = true -> admissible qa1 qm1 qi1 ->
  sp_safe_doc qa2 qm2 qi2 d = true -> admissible qa2 qm2 qi2 ->
  forall d1 d2 r1 r2 w1 w2,
    parse_model cls numcanon holo_ok strict (lines_of (render_sp qa1 qm1 qi1 d)) = PRDoc d1 r1 w1 ->
    parse_model cls numcanon holo_ok strict (lines_of (render_sp qa2 qm2 qi2 d)) = PRDoc d2 r2 w2 ->
    emit sp d1 = emit sp d2 /\ emit sp d1 = emit sp d.
Proof.
  intros Hc Hnum Hmnum S1 A1 S2 A2 d1 d2 r1 r2 w1 w2 E1 E2.
  destruct (text_spellings_converge numcanon holo_ok strict d qa1 qm1 qi1 qa2 qm2 qi2 Hc Hnum Hmnum S1 A1 S2 A2)
    as ((? & ? & ? & ? & _ & _ & _ & F1 & _) & (? & ? & ? & ? & _ & _ & _ & F2 & _)).
  rewrite F1 in E1. rewrite F2 in E2. injection E1 as <- _ _. injection E2 as <- _ _. split; reflexivity.
Qed.

(* the canonical spelling is an admissible family ... *)
Lemma canonical_admissible : admissible qa_can qm_can qi_emit.
Proof.
  assert (K : forall b s, str_lexable (str_kind b s) s = true).
  { intros b s. unfold str_kind. destruct b; [reflexivity|]. destruct (bare_ok s) eqn:B; [exact B|]. destruct (var_ok s) eqn:V; [exact V|reflexivity]. }
  split; [|split].
  - intros k s. unfold qa_can. rewrite site_ok_of_strk. apply K.
  - intros s. unfold qm_can. rewrite site_ok_of_strk. apply K.
  - intros s. apply K.
Qed.

(* ... whose text is the emitter's, with NO receipt and NO multi-word record: canonical text has no receipts *)
Theorem text_canonical_no_receipts numcanon holo_ok strict sp d :
  core3_doc d = true -> lex_safe3_doc d = true ->
  MultiWord.nums_ok2_l numcanon idnum_digits (dsections d) -> Forall (MultiWord.field_num_ok numcanon) (dmeta d) ->
  render_sp qa_can qm_can qi_emit d = emit sp d /\
  exists warns, parse_model cls numcanon holo_ok strict (lines_of (emit sp d)) = PRDoc d [] warns /\
                Forall advisory5 warns /\ filter is_mw warns = [].
Proof.
  intros Hc Hs Hnum Hmnum. destruct (render_sp_canonical sp d Hc Hs) as [Er Hsafe]. split; [exact Er|].
  destruct (text_render_sp cls qa_can qm_can qi_emit numcanon holo_ok strict d Hc Hsafe canonical_admissible Hnum Hmnum)
    as (ts & tnl & teof & warns & _ & _ & _ & Hp & Hadv & Hmw).
  exists warns. rewrite Er in Hp.
  rewrite (RC_allnone _ (doc_tq_none qa_can qm_can qi_emit d (fun k s => proj1 (of_strk_plain _)) (fun s => proj1 (of_strk_plain _)))) in Hp.
  rewrite (E_allnone _ (doc5_mk_none qa_can qm_can qi_emit d (fun k s => proj2 (of_strk_plain _)) (fun s => proj2 (of_strk_plain _)))) in Hmw.
  split; [exact Hp|]. split; [exact Hadv|exact Hmw].
Qed.

(* more generally: an admissible family without triple-quoted sites has no receipt, one without multi-word sites no record *)
Corollary no_tq_no_receipt numcanon holo_ok strict qa qm qi d :
  spelled_reading numcanon holo_ok strict qa qm qi d -> (forall k s, is_tq (qa k s) = false) -> (forall s, is_tq (qm s) = false) ->
  exists warns, parse_model cls numcanon holo_ok strict (lines_of (render_sp qa qm qi d)) = PRDoc d [] warns.
Proof.
  intros (ts & tnl & teof & warns & _ & _ & _ & Hp & _) Ha Hm. exists warns.
  rewrite (RC_allnone _ (doc_tq_none qa qm qi d Ha Hm)) in Hp. exact Hp.
Qed.
End Converge.

(* ---- making any oracle admissible: fall back to the emitter's spelling where the proposed one is not allowed --------------------------------------- *)
Definition guard (x fallback : spelling) (s : str) : spelling := if site_ok x s then x else fallback.
Lemma guard_ok x fb s : site_ok fb s = true -> site_ok (guard x fb s) s = true.
Proof. intros H. unfold guard. destruct (site_ok x s) eqn:E; [exact E|exact H]. Qed.
Definition guard_qa (qa0 : str -> str -> spelling) (k s : str) : spelling := guard (qa0 k s) (qa_can k s) s.
Definition guard_qm (qm0 : str -> spelling) (s : str) : spelling := guard (qm0 s) (qm_can s) s.
Definition guard_qi (qi0 : str -> strk) (s : str) : strk := if str_lexable (qi0 s) s then qi0 s else qi_emit s.
Lemma guard_admissible qa0 qm0 qi0 : admissible (guard_qa qa0) (guard_qm qm0) (guard_qi qi0).
Proof.
  destruct canonical_admissible as (Ha & Hm & Hi). split; [|split].
  - intros k s. apply guard_ok, Ha.
  - intros s. apply guard_ok, Hm.
  - intros s. unfold guard_qi. destruct (str_lexable (qi0 s) s) eqn:E; [exact E|apply Hi].
Qed.

(* ---- link with Rt/Receipts.v: the tokens carrying a normalized_from mark are exactly the triple-quoted sites ---------------------------------------- *)
Lemma norm_reps_RC ts ms : norm_reps (RC ts ms) = RC ts ms.
Proof.
  revert ms. induction ts as [|t tr IH]; intros [|m mr]; try reflexivity. cbn [RC]. rewrite norm_reps_app, IH. destruct m; reflexivity.
Qed.
Corollary marked_tokens_are_tq_sites cls qa qm qi d : core2_doc d = true -> sp_safe_doc qa qm qi d = true ->
  exists ts tnl teof,
    tokenize cls false (lines_of (render_sp qa qm qi d)) = LexOk (ts ++ [tnl; teof]) (RC ts (doc_tq qa qm qi d)) /\
    flat_map rec_of_tok (ts ++ [tnl; teof]) = RC ts (doc_tq qa qm qi d).
Proof.
  intros Hc Hs. destruct (lex_render_sp cls qa qm qi d Hc Hs) as (ts & tnl & teof & Htok & _).
  exists ts, tnl, teof. split; [exact Htok|].
  rewrite <- (lexer_receipts_are_marked_tokens cls false _ _ _ Htok). apply norm_reps_RC.
Qed.
