(* Bare string values, lexer side: the words the emitter leaves unquoted and the lexer reads back as ONE token.

     bare_ok s   s matches the emitter's IDENTIFIER_PATTERN  [A-Za-z_][A-Za-z0-9_.-]*(?<!-)  (dotted / dashed words included),
                 does not START with a keyword segment (true / false / null / vs followed by `.`, `-` or nothing: the known
                 reserved-segment class), is no wrong-case literal and has no embedded `vs` (no lexer repair)
                 -> one IDENTIFIER token with text s                                                       (G_bare)
     var_ok s    s matches the emitter's VARIABLE_PATTERN  \$[A-Za-z0-9_:]+
                 -> one VARIABLE token with text s                                                         (G_var)
   in value position: the following character is newline, comma, closing bracket or the blank before a trailing comment. *)
From OV Require Import Base.Strs Gen.LexerGen Syn.Escape Syn.Quote Syn.Emitter Lex.Lexer Lex.Progress
     Rt.LexLinkBase Rt.LexLinkSteps Rt.LexLink2Base Rt.LexLink2Steps.
From Coq Require Import Lia.
Open Scope N_scope.

(* w is a prefix of s that ends at a word boundary of s *)
Definition kw_prefix (w s : str) : bool :=
  prefixb w s && match skipn (length w) s with [] => true | x :: _ => negb (key_char x) end.

Definition bare_ok (s : str) : bool :=
  match_identifier s &&
  negb (existsb (fun w => kw_prefix w s) [Lexer.s_true; Lexer.s_false; Lexer.s_null; s_vs]) &&
  (match wrong_case_of s with None => true | Some _ => false end) && negb (vs_embedded s).

Definition var_ok (s : str) : bool := match_variable s.

(* value terminators *)
Definition bterm (z : N) : Prop := z = 10 \/ z = 44 \/ z = 93 \/ z = 32.
Lemma bterm_vterm z : bterm z -> vterm z.
Proof. unfold bterm, vterm. tauto. Qed.

Lemma idp_char_range c : idp_char c = true <-> (65 <= c <= 90 \/ 97 <= c <= 122 \/ 48 <= c <= 57 \/ c = 95 \/ c = 46 \/ c = 45).
Proof.
  unfold idp_char. rewrite !orb_true_iff, is_alnum_range, !N.eqb_eq. unfold c_us, c_dot, c_dash. tauto.
Qed.

Section BareLex.
Variable cls : N -> N.

Lemma id_char_idp c : idp_char c = true -> id_char cls c = true.
Proof.
  intros H. pose proof (proj1 (idp_char_range c) H) as R. unfold id_char. rewrite is_ascii_lt by lia.
  unfold idp_char in H. apply orb_true_iff in H as [H|H]; [apply orb_true_iff in H as [H|H]; [apply orb_true_iff in H as [H|H]|]|].
  - rewrite H. reflexivity.
  - apply orb_true_iff; right. cbn [memb existsb]. rewrite H. reflexivity.
  - apply orb_true_iff; right. cbn [memb existsb]. rewrite H. rewrite !orb_true_r. reflexivity.
  - apply orb_true_iff; right. cbn [memb existsb]. rewrite H. rewrite !orb_true_r. reflexivity.
Qed.
Lemma id_char_bterm z : bterm z -> id_char cls z = false.
Proof.
  intros H. unfold id_char. rewrite is_ascii_lt by (unfold bterm in H; lia).
  rewrite is_alnum_false by (unfold bterm in H; lia). cbn [orb memb existsb].
  rewrite !(neqb z _) by (unfold bterm in H; chr). reflexivity.
Qed.

(* scan_word on a word-like text: fires only on a keyword prefix that ends at a boundary *)
Lemma scan_word_kwfree w : forall s z rest prev,
  forallb (u_word cls) w = true -> (forall x, In x s -> x < 128) -> u_word cls z = false ->
  kw_prefix w s = false -> scan_word cls w prev (s ++ z :: rest) = None.
Proof.
  unfold scan_word, kw_prefix.
  induction w as [|a w IH]; intros s z rest prev Hw Hs Hz Hk.
  - cbn [prefixb length skipn andb] in Hk |- *. destruct s as [|b s]; [discriminate Hk|].
    apply negb_false_iff in Hk. cbn [app word_boundary_after].
    rewrite (u_word_ascii cls b) by (apply Hs; left; reflexivity). rewrite Hk. cbn [negb]. rewrite andb_false_r. reflexivity.
  - cbn [forallb] in Hw. apply andb_true_iff in Hw as [Ha Hw].
    destruct s as [|b s].
    + cbn [app prefixb]. destruct (N.eqb_spec a z) as [->|Haz]; [congruence|]. reflexivity.
    + cbn [app prefixb length skipn] in Hk |- *. destruct (N.eqb_spec a b) as [->|Hab]; [|reflexivity].
      cbn [andb] in Hk |- *.
      specialize (IH s z rest prev Hw (fun x Hx => Hs x (or_intror Hx)) Hz Hk).
      destruct (prefixb w (s ++ z :: rest)); [|reflexivity]. cbn [andb] in IH |- *.
      destruct (word_boundary_before cls prev); [|reflexivity]. cbn [andb] in IH |- *.
      destruct (word_boundary_after cls (skipn (length w) (s ++ z :: rest))); [discriminate IH|reflexivity].
Qed.

Lemma match_identifier_parts s : match_identifier s = true ->
  exists c r, s = c :: r /\ key_start c = true /\ forallb idp_char r = true /\ (forall y t, rev r = y :: t -> y <> c_dash).
Proof.
  unfold match_identifier. destruct s as [|c r]; [discriminate|]. intros H. apply andb_true_iff in H as [H Hl]. apply andb_true_iff in H as [Hc Hr].
  exists c, r. split; [reflexivity|]. split; [exact Hc|]. split; [exact Hr|].
  intros y t E. unfold last_is_dash in Hl. cbn [rev] in Hl. rewrite E in Hl. cbn [app] in Hl. apply negb_true_iff in Hl. apply N.eqb_neq. exact Hl.
Qed.

Lemma scan_ident_core_bare c r z rest :
  forallb idp_char r = true -> (forall y t, rev r = y :: t -> y <> c_dash) -> bterm z ->
  scan_ident_core cls c (r ++ z :: rest) = (c :: r, z :: rest).
Proof.
  intros Hr Hl Hz. unfold scan_ident_core.
  rewrite takeb_app_stop; [|apply (forallb_impl idp_char); [apply id_char_idp|exact Hr]|apply id_char_bterm; exact Hz].
  assert (E : strip_trailing_dash (rev r) = rev r).
  { destruct (rev r) as [|y t] eqn:Er; [reflexivity|]. cbn [strip_trailing_dash]. rewrite (neqb y c_dash) by (exact (Hl y t eq_refl)). reflexivity. }
  rewrite E, rev_involutive, skipn_app_len. reflexivity.
Qed.

Lemma scan_identifier_bare c r z rest :
  key_start c = true -> forallb idp_char r = true -> (forall y t, rev r = y :: t -> y <> c_dash) -> bterm z ->
  scan_identifier cls false (c :: r ++ z :: rest) = Some (c :: r, z :: rest, None).
Proof.
  intros Hc Hr Hl Hz. unfold scan_identifier. rewrite (id_start_key cls _ Hc), (scan_ident_core_bare c r z rest Hr Hl Hz).
  cbv iota beta. rewrite (neqb z c_lt) by (unfold bterm in Hz; chr). rewrite (neqb z 123) by (unfold bterm in Hz; lia). reflexivity.
Qed.

Lemma G_bare st s z r :
  bare_ok s = true -> bterm z -> ls_in st = s ++ z :: r -> ls_pos st <> 0 -> ls_spans st = [] ->
  exists st', gstep cls st st' IDENTIFIER (TVText s) (z :: r) (last_chr s) (ls_brk st).
Proof.
  intros Hb Hz Hin Hpos Hsp. unfold bare_ok in Hb.
  apply andb_true_iff in Hb as [Hb Hvs]. apply andb_true_iff in Hb as [Hb Hwc]. apply andb_true_iff in Hb as [Hm Hkw].
  apply negb_true_iff in Hvs. apply negb_true_iff in Hkw.
  destruct (wrong_case_of s) as [w|] eqn:Ewc; [discriminate Hwc|]. clear Hwc.
  destruct (match_identifier_parts s Hm) as (c & k' & -> & Hc & Hk' & Hl).
  cbn [existsb] in Hkw. repeat (apply orb_false_iff in Hkw as [? Hkw]).
  assert (Hasc : forall x, In x (c :: k') -> x < 128).
  { intros x [<-|Hx]; [apply key_start_range in Hc; lia|]. rewrite forallb_forall in Hk'. specialize (Hk' x Hx). apply idp_char_range in Hk'. lia. }
  assert (Hzw : u_word cls z = false) by (apply u_word_false; unfold bterm in Hz; lia).
  cbn [app] in Hin.
  assert (Hstep : step cls false st =
    Continue (adv st (c :: k') (z :: r) (mkTok IDENTIFIER (TVText (c :: k')) (ls_line st) (ls_col st) None :: ls_toks st) (ls_reps st))).
  { unfold step. rewrite Hin, Hsp.
    rewrite sp_fallback; [|exact Hc|exact Hpos
      |apply (scan_word_kwfree s_vs (c :: k')); [reflexivity|exact Hasc|exact Hzw|assumption]
      |apply (scan_word_kwfree Lexer.s_true (c :: k')); [reflexivity|exact Hasc|exact Hzw|assumption]
      |apply (scan_word_kwfree Lexer.s_false (c :: k')); [reflexivity|exact Hasc|exact Hzw|assumption]
      |apply (scan_word_kwfree Lexer.s_null (c :: k')); [reflexivity|exact Hasc|exact Hzw|assumption]].
    pose proof Hc as Hc'. apply key_start_range in Hc.
    unfold step_fallback. cbv zeta. unfold s_eq3 at 1. rewrite hd_prefix_ne by chr. cbn [andb].
    rewrite (neqb c c_plus) by chr. rewrite (scan_identifier_bare c k' z r Hc' Hk' Hl Hz).
    rewrite Ewc, Hvs. reflexivity. }
  eexists. unfold gstep. split; [exact Hstep|]. unfold adv.
  cbn [ls_in ls_prev ls_pos ls_toks ls_reps ls_brk ls_spans ls_col].
  pose proof (len_pos (c :: k')) as Hlen.
  repeat split; try reflexivity; [apply len_pos_ne; discriminate|eexists _, _, _; reflexivity|].
  specialize (Hlen ltac:(discriminate)). lia.
Qed.

(* ---- $VARIABLE ---------------------------------------------------------------------------------------------------- *)
Ltac skip_sp c := rewrite (neqb c c_sp) by chr.
Ltac skip_sent c s' := rewrite (hd_sentinel cls _ c s') by (first [left; chr | right; assumption]).
Ltac skip_ver c s' := rewrite (hd_version cls c s') by (apply u_digit_false; chr).
Ltac skip_envs c s' := rewrite (hd_end_env c s') by chr; rewrite (hd_env_start c s') by chr.

Lemma sp_var st c s' m :
  c = 36 -> takeb var_char s' = m -> m <> [] ->
  step_plain cls false st c s' = emit_pat st VARIABLE (TVText (c :: m)) (c :: m) (skipn (length m) s') None.
Proof.
  intros Hc Hm Hne. unfold step_plain. cbv zeta. skip_sp c. skip_sent c s'. skip_ver c s'. skip_envs c s'.
  rewrite (hd_dash3 c s') by chr. rewrite (hd_comment c s') by chr. rewrite (hd_ops c s') by chr.
  rewrite (hd_vs cls _ c s') by chr. rewrite (hd_ops2 c s') by chr. rewrite (hd_tq _ c s') by chr.
  rewrite (hd_if_none _ c c_dq) by chr. rewrite (hd_number cls c s') by (first [chr | apply u_digit_false; chr]).
  rewrite (hd_true cls _ c s') by chr. rewrite (hd_false cls _ c s') by chr. rewrite (hd_null cls _ c s') by chr.
  rewrite (neqb c c_hash) by chr. rewrite (proj2 (N.eqb_eq c c_dollar)) by chr. rewrite Hm.
  destruct m; [congruence|]. reflexivity.
Qed.

Lemma var_char_range c : var_char c = true <-> (65 <= c <= 90 \/ 97 <= c <= 122 \/ 48 <= c <= 57 \/ c = 95 \/ c = 58).
Proof. unfold var_char. rewrite !orb_true_iff, is_alnum_range, !N.eqb_eq. unfold c_us, c_colon. tauto. Qed.

Lemma G_var st s z r :
  var_ok s = true -> bterm z -> ls_in st = s ++ z :: r -> ls_spans st = [] ->
  exists st', gstep cls st st' VARIABLE (TVText s) (z :: r) (last_chr s) (ls_brk st).
Proof.
  intros Hv Hz Hin Hsp. unfold var_ok, match_variable in Hv.
  destruct s as [|c [|m0 m]]; try discriminate Hv. apply andb_true_iff in Hv as [Hc Hm]. apply N.eqb_eq in Hc. subst c.
  change varp_char with var_char in Hm.
  assert (Hzv : var_char z = false).
  { destruct (var_char z) eqn:E; [|reflexivity]. apply var_char_range in E. unfold bterm in Hz. lia. }
  cbn [app] in Hin.
  assert (Hnl : memb c_nl (c_dollar :: m0 :: m) = false).
  { assert (H' : memb c_nl (m0 :: m) = false).
    { apply memb_false_forall. eapply forallb_impl; [|exact Hm]. intros x Hx. apply var_char_range in Hx. apply negb_true_iff, neqb. chr. }
    unfold memb in *. cbn [existsb] in *. exact H'. }
  destruct (gstep_emit_pat cls st c_dollar ((m0 :: m) ++ z :: r) VARIABLE (TVText (c_dollar :: m0 :: m)) (c_dollar :: m0 :: m) (z :: r) Hin Hsp)
    as (st' & H); try reflexivity.
  - rewrite (sp_var st c_dollar ((m0 :: m) ++ z :: r) (m0 :: m)); [|reflexivity|apply takeb_app_stop; assumption|discriminate].
    rewrite skipn_app_len. reflexivity.
  - exact Hnl.
  - discriminate.
  - exists st'. exact H.
Qed.

End BareLex.
