(* Rt/LexLinkTH2.v: the oracle clause on the concrete classifier, examples of the chain class. *)
From OV Require Import Base.Strs Lex.Lexer Syn.Ast Syn.Emitter Syn.Parser Rt.LexLink4
     Rt.TokRound Rt.TokRoundEx Rt.TokRound2 Rt.TokRound2Ex Rt.TokRoundT Rt.TokRoundTHolo Rt.TokRoundTEx
     Rt.LexLinkBase Rt.LexLinkSteps Rt.LexLink Rt.LexLinkEx Rt.LexLink2Base Rt.LexLink2Steps Rt.LexLink2Text Rt.LexLink2
     Rt.LexLinkZText Rt.LexLinkZ Rt.LexLinkT Rt.LexLinkTH Rt.LexLinkTH2.
From Coq Require Import Lia.
Require Coq.Strings.String.
Import Coq.Strings.String.StringSyntax.
Open Scope N_scope.

Example ex_cls_and_ok : cls_and_ok ex_cls = true.
Proof. vm_compute. reflexivity. Qed.
(* the clause is not vacuous: an oracle that calls ∧ an identifier character reads REQ∧OPT as ONE identifier *)
Definition c1 : str := lit "[""x""" ++ AND ++ lit "REQ" ++ AND ++ lit "OPT]".
Example c1_text : c1 = chain_text (lit "x") [lit "REQ"; lit "OPT"].
Proof. reflexivity. Qed.
Example c1_shape_thm : hsh_lex ex_cls c1 = chain_shape (lit "x") [lit "REQ"; lit "OPT"].
Proof. exact (hsh_lex_chain ex_cls (lit "x") [lit "REQ"; lit "OPT"] ex_cls_and_ok eq_refl). Qed.
Example c1_shape_computed : hsh_lex ex_cls c1 =
  [(LIST_START, Some (TVText [91])); (STRING, Some (TVText (lit "x"))); (CONSTRAINT, Some (TVText [8743])); (IDENTIFIER, Some (TVText (lit "REQ")));
   (CONSTRAINT, Some (TVText [8743])); (IDENTIFIER, Some (TVText (lit "OPT"))); (LIST_END, Some (TVText [93]))].
Proof. vm_compute. reflexivity. Qed.
Print Assumptions c1_shape_thm.
(* ---- document level: chains at depths 1 and 3, next to values of the class of Rt/LexLinkTH.v and scalars -------------------------------------------- *)
Definition c2 : str := lit "[""a b""" ++ AND ++ lit "REQ" ++ AND ++ lit "OPT_2" ++ AND ++ lit "X]".
Definition c3 : str := lit "[""x""" ++ AND ++ lit "REQ]".                      (* n = 1: in both classes *)
Definition g5 : str := lit "[""x""" ++ AND ++ lit "ENUM[""a"",""b""]]".         (* class of Rt/LexLinkTH.v only *)
Definition holo_c (s : str) : bool := str_in s [c1; c2; c3; g5].
Example decode_c : (hs c1, hws c1) = (lit "x", [lit "REQ"; lit "OPT"]) /\ (hs c2, hws c2) = (lit "a b", [lit "REQ"; lit "OPT_2"; lit "X"]) /\
                   (* the frame test alone is weak (g5, h1 pass it with non-words); frame + chain_ok is the class *)
                   map th2_raw [c1; c2; c3; g5; h1; h3] = [true; true; true; true; true; false] /\
                   map (fun r => th2_raw r && chain_ok (hws r)) [c1; c2; c3; g5; h1; h3] = [true; true; true; false; false; false] /\
                   map (fun r => th_raw r && wt_ok (hw r)) [c1; c2; c3; g5] = [false; false; true; true].
Proof. repeat split; vm_compute; reflexivity. Qed.
Definition exc : doc :=
  mkDoc (lit "DOC") (Some (lit "6.0.0")) None true [(lit "TYPE", MV (VStr (lit "x y")))]
    [ NBlock (lit "FIELDS") (Some (lit "T1"))
        [ NAssign (lit "F1") (VHolo c1) [lit "a chain, depth 1"] (Some (lit "t"));
          NBlock (lit "C") (Some (lit "INDEXER"))
            [ NSection (lit "1") (lit "S") None
                [ NAssign (lit "F2") (VHolo c2) [] (Some (lit "three words"));
                  NAssign (lit "A") n1 [] None ] [];
              NAssign (lit "F6") (VHolo g5) [] None ] [];
          NAssign (lit "L") (VList [n1; n2]) [] None ] [];
      NAssign (lit "H") (VHolo c3) [] None ]
    [].
Example exc_ok : coreth2_doc exc = true /\ lex_safeth2_doc ex_cls (hsh_lex ex_cls) exc = true.
Proof. split; vm_compute; reflexivity. Qed.
Example exc_sides : nodes_side ex2_numcanon holo_c ex_idnum (hsh_lex ex_cls) (dsections exc) /\ Forall (field_num_ok ex2_numcanon) (dmeta exc).
Proof.
  split; [|repeat constructor]. cbn [nodes_side node_side val_side dsections exc].
  repeat split; try (intros _; eexists; reflexivity); try (vm_compute; reflexivity); try exact I.
  all: repeat constructor.
Qed.
Example exc_rt_thm strict sp :
  exists warns, parse_model ex_cls ex2_numcanon holo_c strict (lines_of (emit sp exc)) = PRDoc exc [] warns /\ Forall advisory warns.
Proof.
  exact (text_roundtrip_coreth2 ex_cls (hsh_lex ex_cls) ex2_numcanon holo_c strict sp exc (proj1 exc_ok) (proj2 exc_ok) (proj1 exc_sides) (proj2 exc_sides)).
Qed.
Example exc_rt_computed : parse_model ex_cls ex2_numcanon holo_c true (lines_of (emit (fun _ => false) exc)) = PRDoc exc [] [].
Proof. vm_compute. reflexivity. Qed.

(* the clause on the oracle is needed: with an oracle that calls ∧ an identifier character the side condition fails, and so does the reading *)
Definition bad_cls (c : N) : N := if N.eqb c 8743 then 255 else ex_cls c.
Example bad_cls_clause : cls_and_ok bad_cls = false /\ hsh_lex bad_cls c1 <> chain_shape (lit "x") [lit "REQ"; lit "OPT"].
Proof. split; [vm_compute; reflexivity|]. intros H. vm_compute in H. discriminate H. Qed.

Print Assumptions exc_rt_thm.

