(* Rt/LexLinkT.v: the executable check on the domain, non-vacuity, and refutations for the target side condition. *)
From OV Require Import Base.Strs Lex.Lexer Syn.Ast Syn.Emitter Syn.Parser Rt.LexLink4
     Rt.TokRound Rt.TokRoundEx Rt.TokRound2 Rt.TokRound2Ex Rt.TokRoundT Rt.TokRoundTHolo Rt.TokRoundTEx
     Rt.LexLinkBase Rt.LexLinkSteps Rt.LexLink Rt.LexLinkEx Rt.LexLink2Base Rt.LexLink2Steps Rt.LexLink2Text Rt.LexLink2
     Rt.LexLinkZText Rt.LexLinkZ Rt.LexLinkT.
From Coq Require Import Lia.
Require Coq.Strings.String.
Import Coq.Strings.String.StringSyntax.
Open Scope N_scope.

Lemma coretb_sites numcanon holo_ok hsh : forall n, coretb_node n = true -> sites_okb numcanon holo_ok hsh n = true.
Proof.
  induction n using node_ind2; intros Hc; try reflexivity.
  - cbn [coretb_node] in Hc. apply andb_true_iff in Hc as [Hc _]. destruct v; try reflexivity. discriminate Hc.
  - cbn [coretb_node] in Hc. apply andb_true_iff in Hc as [_ Hc]. apply andb_true_iff in Hc as [_ Hcc]. cbn [sites_okb].
    induction ch as [|c cs IHc]; [reflexivity|]. inversion H as [|? ? Pc Pcs]; subst. cbn [forallb] in Hcc |- *.
    apply andb_true_iff in Hcc as [H1 H2]. rewrite (Pc H1), (IHc Pcs H2). reflexivity.
  - cbn [coretb_node] in Hc. apply andb_true_iff in Hc as [_ Hc]. apply andb_true_iff in Hc as [_ Hcc]. cbn [sites_okb].
    induction ch as [|c cs IHc]; [reflexivity|]. inversion H as [|? ? Pc Pcs]; subst. cbn [forallb] in Hcc |- *.
    apply andb_true_iff in Hcc as [H1 H2]. rewrite (Pc H1), (IHc Pcs H2). reflexivity.
Qed.

(* (c) the executable check of TokRoundTEx.v answers 1 on the domain *)
Theorem shape_check_coretb cls numcanon holo_ok sp d : coretb_doc d = true -> lex_safet_doc d = true ->
  coret_shape_check cls numcanon holo_ok d (lines_of (emit sp d)) = 1.
Proof.
  intros Hc Hs. destruct (coretb_parts d Hc) as (Hct & Hfr & Hcn & _). unfold coret_shape_check. rewrite Hct.
  assert (Hsites : forallb (sites_okb numcanon holo_ok (hsh_lex cls)) (dsections d) = true).
  { clear -Hcn. induction (dsections d) as [|c cs IH]; [reflexivity|]. cbn [forallb] in Hcn |- *. apply andb_true_iff in Hcn as [H1 H2].
    rewrite (coretb_sites _ _ _ c H1), (IH H2). reflexivity. }
  rewrite Hsites. cbn [andb].
  rewrite (tokenize_tok_text cls false _ (emit_text_okt cls sp d Hc Hs) (emit_nonblank_head sp d Hfr)).
  set (st0 := mkLS (emit sp d) None 0 1 1 [] [] [] []).
  destruct (lex_doct cls (hsh_lex cls) sp d Hc Hs st0 eq_refl eq_refl eq_refl) as (st' & (Hst & (tsall & Ht & HF) & Hr & Hb & _) & Hin).
  rewrite (run_steps_finish cls st0 st' _ Hst Hin) by (cbn [ls_in st0]; lia).
  assert (Q' : Qnf st') by (apply (steps_Q cls _ _ Hst); split; [constructor|reflexivity]).
  destruct Q' as [Q1 _].
  unfold finish. rewrite Hb, Hr, Ht. cbn [ls_brk ls_reps ls_toks st0 rev app is_nil].
  rewrite Ht in Q1. cbn [ls_toks st0] in Q1. rewrite app_nil_r in Q1 |- *. rewrite rev_involutive.
  assert (A : all2 tmatchb (tsall ++ [mkTok EOF TVNone (ls_line st') (ls_col st') None])
                (doct_sh needs_multiline ex_idnum (hsh_lex cls) d ++ [(NEWLINE, None); (EOF, None)]) = true).
  { apply all2_complete.
    - change [(NEWLINE, None); (EOF, None)] with ([(NEWLINE, @None tvalue)] ++ [(EOF, @None tvalue)]). rewrite app_assoc.
      apply Forall2_app; [exact HF|]. constructor; [split; [reflexivity|exact I]|constructor].
    - apply Forall_app. split; [|constructor; [reflexivity|constructor]]. rewrite <- (rev_involutive tsall). apply Forall_rev. exact Q1. }
  rewrite A. reflexivity.
Qed.

(* ---- non-vacuity: TokRoundTEx.ext with its holographic values replaced by scalars: two targeted blocks, one inside the other, depth 3 ---------- *)
Definition extb : doc :=
  mkDoc (lit "DOC") (Some (lit "6.0.0")) None true [(lit "TYPE", MV (VStr (lit "x y")))]
    [ NBlock (lit "FIELDS") (Some (lit "T1"))
        [ NAssign (lit "F1") n1 [lit "a comment"] (Some (lit "t"));
          NBlock (lit "C") (Some (lit "INDEXER"))
            [ NSection (lit "1") (lit "S") None
                [ NAssign (lit "F2") (VStr (lit "x y")) [] None; NAssign (lit "A") n1 [] None ] [];
              NAssign (lit "F6") n2 [] None ] [lit "a targeted block inside a targeted block"];
          NAssign (lit "L") (VList [n1; n2]) [] None ] [];
      NAssign (lit "H") (VStr []) [] None ]
    [].
Example extb_ok : coretb_doc extb = true /\ lex_safet_doc extb = true.
Proof. split; vm_compute; reflexivity. Qed.
Definition lex_emit_coretb_concl (cls : N -> N) (sp : N -> bool) (d : doc) : Prop :=
  exists ts tnl teof,
    tokenize cls false (lines_of (emit sp d)) = LexOk (ts ++ [tnl; teof]) [] /\
    Forall2 tmatch ts (doct_sh needs_multiline ex_idnum (hsh_lex cls) d) /\ tk tnl = NEWLINE /\ tk teof = EOF.
Example extb_lexes_thm : lex_emit_coretb_concl ex_cls (fun _ => false) extb.
Proof. exact (lex_emit_coretb ex_cls (hsh_lex ex_cls) (fun _ => false) extb (proj1 extb_ok) (proj2 extb_ok)). Qed.
Example extb_check_thm : coret_shape_check ex_cls ex2_numcanon holo_ex extb (lines_of (emit (fun _ => false) extb)) = 1.
Proof. exact (shape_check_coretb ex_cls ex2_numcanon holo_ex (fun _ => false) extb (proj1 extb_ok) (proj2 extb_ok)). Qed.
Example extb_rt_computed : parse_model ex_cls ex2_numcanon holo_ex true (lines_of (emit (fun _ => false) extb)) = PRDoc extb [] [].
Proof. vm_compute. reflexivity. Qed.

(* ---- the target side condition ------------------------------------------------------------------------------------------------------------------ *)
Definition lex_emit_coretb_full : Prop := forall cls sp d, coretb_doc d = true -> lex_emit_coretb_concl cls sp d.
Definition tb (t : str) : doc := dd [NBlock (lit "B") (Some t) [NAssign (lit "A") n1 [] None] []] [].
(* a target that is not one identifier word: two words (two IDENTIFIER tokens), a literal (BOOLEAN) *)
Lemma lex_emit_coretb_refuted_target_two_words :
  exists d, coretb_doc d = true /\ lex_safet_doc d = false /\ ~ lex_emit_coretb_concl ex_cls (fun _ => false) d.
Proof. exists (tb (lit "a b")). split; [reflexivity|]. split; [reflexivity|]. refute_shape. Qed.
Lemma lex_emit_coretb_refuted_target_literal :
  exists d, coretb_doc d = true /\ lex_safet_doc d = false /\ ~ lex_emit_coretb_concl ex_cls (fun _ => false) d.
Proof. exists (tb (lit "true")). split; [reflexivity|]. split; [reflexivity|]. refute_shape. Qed.
(* adjacency is NOT a side condition of the model: the emitter writes the bracket directly after the key, and a hand-written blank
   between key and bracket is skipped by the lexer -- the model reads the same targeted block *)
Example blank_before_target_same :
  rdt [lit "B[" ++ ARROW ++ lit "T]:"; lit "  A::1"] = Some ([NBlock (lit "B") (Some (lit "T")) [a1] []], []) /\
  rdt [lit "B [" ++ ARROW ++ lit "T]:"; lit "  A::1"] = Some ([NBlock (lit "B") (Some (lit "T")) [a1] []], []).
Proof. split; vm_compute; reflexivity. Qed.
Theorem lex_emit_coretb_full_refuted : ~ lex_emit_coretb_full.
Proof. intros Hfull. destruct lex_emit_coretb_refuted_target_literal as (d & Hc & _ & Hn). apply Hn. apply Hfull. exact Hc. Qed.
