(* C07, lexer half, for EVERY input text (lenient or strict, accepted by the lexer):
   the normalization receipts the lexer returns are exactly -- same records, same order -- the tokens that carry a
   `normalized_from` mark.  So every alias / triple-quote rewrite performed by the lexer has one receipt with the original
   spelling, the replacement and the position, and no receipt exists without such a token.  This is an invariant of
   the scanner loop, proved branch by branch over step_plain / step_fallback / step_fence. *)
From OV Require Import Base.Strs Gen.LexerGen Lex.Lexer Rt.LexLinkBase.
Open Scope N_scope.

Definition rec_of_tok (t : token) : list repair :=
  match tnorm t with
  | Some o => [mkRep 0 o (match tv t with TVText u => u | _ => [] end) (tline t) (tcol t)]
  | None => []
  end.
Definition norm_reps (reps : list repair) : list repair := filter (fun r => N.eqb (rkind r) 0) reps.
Definition plain_kind (t : token) : Prop := (tk t = IDENTIFIER \/ tk t = NUMBER) -> tnorm t = None.

Definition Inv (st : lstate) : Prop :=
  norm_reps (ls_reps st) = flat_map rec_of_tok (ls_toks st) /\ Forall plain_kind (ls_toks st).

Lemma norm_reps_app a b : norm_reps (a ++ b) = norm_reps a ++ norm_reps b.
Proof. unfold norm_reps. apply filter_app. Qed.

Section R.
Variable cls : N -> N.

(* ---- emit_pat: pushes a token and, iff it is marked, one receipt --------------------------------------------- *)
Lemma emit_pat_inv st k v m r norm st' :
  Inv st -> k <> IDENTIFIER -> (k = NUMBER -> norm = None /\ alias_of m = None) ->
  emit_pat st k v m r norm = Continue st' -> Inv st'.
Proof.
  intros [Hr Hp] Hk Hnum. unfold emit_pat.
  destruct (alias_of m) as [u|] eqn:Ea.
  - (* alias: value u, norm Some m *)
    assert (Hkn : k <> NUMBER) by (intro E; destruct (Hnum E) as [_ H]; congruence).
    destruct (if tkind_eqb k LIST_START then _ else _) as [[]|brk]; [discriminate|].
    destruct (0 <? count_nl m); intros E; inversion E; subst st'; clear E; (split; cbn [ls_reps ls_toks];
      [cbn [norm_reps filter rkind N.eqb flat_map rec_of_tok tnorm tv tline tcol app]; fold (norm_reps (ls_reps st)); rewrite Hr; reflexivity
      |constructor; [intros [H|H]; cbn [tk] in H; congruence|exact Hp]]).
  - destruct (if tkind_eqb k LIST_START then _ else _) as [[]|brk]; [discriminate|].
    destruct norm as [o|].
    + assert (Hkn : k <> NUMBER) by (intro E; destruct (Hnum E) as [H _]; discriminate).
      destruct (0 <? count_nl m); intros E; inversion E; subst st'; clear E; (split; cbn [ls_reps ls_toks];
        [cbn [norm_reps filter rkind N.eqb flat_map rec_of_tok tnorm tv tline tcol app]; fold (norm_reps (ls_reps st)); rewrite Hr; reflexivity
        |constructor; [intros [H|H]; cbn [tk] in H; congruence|exact Hp]]).
    + destruct (0 <? count_nl m); intros E; inversion E; subst st'; clear E; (split; cbn [ls_reps ls_toks];
        [cbn [flat_map rec_of_tok tnorm app]; exact Hr
        |constructor; [intros _; reflexivity|exact Hp]]).
Qed.

(* the NUMBER scanner never returns an alias spelling *)
Lemma u_digit_not_alias_head c : u_digit cls c = true ->
  c <> 45 /\ c <> 60 /\ c <> 43 /\ c <> 126 /\ c <> 118 /\ c <> 124 /\ c <> 38 /\ c <> 35 /\ c <> 62.
Proof.
  intros H. repeat split; intros ->; vm_compute in H; discriminate.
Qed.

Lemma takeb_hd_true (p : N -> bool) s d r : takeb p s = d :: r -> p d = true.
Proof. destruct s as [|x s]; cbn [takeb]; [discriminate|]. destruct (p x) eqn:E; [|discriminate]. intros H; inversion H; subst; exact E. Qed.

Lemma scan_number_no_alias s m r : scan_number cls s = Some (m, r) -> alias_of m = None.
Proof.
  unfold scan_number.
  destruct s as [|c s0].
  - cbn. discriminate.
  - destruct (N.eqb_spec c c_dash) as [->|Hd].
    + (* "-" then digits *)
      destruct (digits1 cls s0) as [[d r1]|] eqn:Ed; [|discriminate].
      unfold digits1 in Ed. destruct (takeb (u_digit cls) s0) as [|d0 dr] eqn:Et; [discriminate|]. inversion Ed; subst d r1; clear Ed.
      pose proof (takeb_hd_true _ _ _ _ Et) as Hd0. destruct (u_digit_not_alias_head _ Hd0) as (_&_&_&_&_&_&_&_&H62).
      match goal with |- (let '(dot, r2) := ?X in _) = _ -> _ => destruct X as [dot r2] end.
      match goal with |- (let '(ex, r4) := ?X in _) = _ -> _ => destruct X as [ex r4] end.
      intros E; inversion E; subst. cbn [app]. apply alias_of_none_dash. exact H62.
    + destruct (digits1 cls (c :: s0)) as [[d r1]|] eqn:Ed; [|discriminate].
      unfold digits1 in Ed. destruct (takeb (u_digit cls) (c :: s0)) as [|d0 dr] eqn:Et; [discriminate|]. inversion Ed; subst d r1; clear Ed.
      pose proof (takeb_hd_true _ _ _ _ Et) as Hd0. destruct (u_digit_not_alias_head _ Hd0) as (H1&H2&H3&H4&H5&H6&H7&H8&_).
      match goal with |- (let '(dot, r2) := ?X in _) = _ -> _ => destruct X as [dot r2] end.
      match goal with |- (let '(ex, r4) := ?X in _) = _ -> _ => destruct X as [ex r4] end.
      intros E; inversion E; subst. cbn [app]. apply alias_of_none_hd; assumption.
Qed.

(* ---- adv with explicit token / receipt lists ----------------------------------------------------------------- *)
Lemma inv_adv st m r toks reps :
  norm_reps reps = flat_map rec_of_tok toks -> Forall plain_kind toks -> Inv (adv st m r toks reps).
Proof. intros H1 H2. split; cbn [adv ls_reps ls_toks]; assumption. Qed.

Ltac fin Hinv Hstep :=
  refine (emit_pat_inv _ _ _ _ _ _ _ Hinv _ _ Hstep); [discriminate | (let E := fresh in intros E; discriminate E)].

Lemma step_fallback_inv lenient st c s' st' :
  Inv st -> step_fallback cls lenient st c s' = Continue st' -> Inv st'.
Proof.
  intros Hinv. pose proof Hinv as [Hr Hp]. unfold step_fallback.
  destruct (prefixb s_eq3 (c :: s') && invalid_envelope cls (c :: s')); [discriminate|].
  destruct (N.eqb c c_plus).
  - intros E; inversion E; subst st'. apply inv_adv.
    + cbn [norm_reps filter rkind N.eqb flat_map rec_of_tok tnorm tv tline tcol app]. fold (norm_reps (ls_reps st)). rewrite Hr. reflexivity.
    + constructor; [intros [H|H]; cbn [tk] in H; discriminate H|exact Hp].
  - destruct (scan_identifier cls lenient (c :: s')) as [[[name rest] curly]|].
    + intros E; inversion E; subst st'. apply inv_adv.
      * rewrite norm_reps_app. cbn [flat_map rec_of_tok tnorm app]. rewrite <- Hr.
        assert (Hz : norm_reps (rev ((match curly with Some (o, r) => [mkRep 3 o r (ls_line st) (ls_col st)] | None => [] end)
                      ++ (match wrong_case_of name with Some w => [mkRep 1 name w (ls_line st) (ls_col st)] | None => [] end)
                      ++ (if vs_embedded name then [mkRep 2 name [] (ls_line st) (ls_col st)] else []))) = []).
        { destruct curly as [[o r]|]; destruct (wrong_case_of name); destruct (vs_embedded name); reflexivity. }
        rewrite Hz. reflexivity.
      * constructor; [intros _; reflexivity|exact Hp].
    + destruct (N.eqb c 37); [|discriminate].
      destruct (ls_toks st) as [|prev toks'] eqn:Et; [discriminate|].
      destruct (match tk prev, tv prev with NUMBER, TVNum raw => Some raw | IDENTIFIER, TVText t => Some t | _, _ => None end) as [pv|] eqn:Epv; [|discriminate].
      destruct (negb (prefixb [c_colon; c_colon] (lstrip cls s')) && _); [|discriminate].
      intros E; inversion E; subst st'. apply inv_adv.
      * (* the merged token keeps prev's (absent) mark *)
        inversion Hp as [|? ? Hprev Hrest]; subst.
        assert (Hn : tnorm prev = None).
        { apply Hprev. destruct (tk prev); try discriminate Epv; [right|left]; reflexivity. }
        rewrite Hr. cbn [flat_map rec_of_tok tnorm]. rewrite Hn. unfold rec_of_tok at 1. rewrite Hn. reflexivity.
      * inversion Hp as [|? ? Hprev Hrest]; subst. constructor; [|exact Hrest].
        intros _. cbn [tnorm]. apply Hprev. destruct (tk prev); try discriminate Epv; [right|left]; reflexivity.
Qed.

Lemma step_plain_inv lenient st c s' st' :
  Inv st -> step_plain cls lenient st c s' = Continue st' -> Inv st'.
Proof.
  intros Hinv. pose proof Hinv as [Hr Hp]. unfold step_plain.
  destruct (N.eqb c c_sp).
  - destruct (N.eqb (ls_col st) 1).
    + destruct (match dropb (N.eqb c_sp) (c :: s') with [] => false | d :: _ => negb (N.eqb d c_nl) end);
        intros E; inversion E; subst st'; (split; cbn [ls_reps ls_toks]).
      * cbn [flat_map rec_of_tok tnorm app]. exact Hr.
      * constructor; [intros _; reflexivity|exact Hp].
      * exact Hr.
      * exact Hp.
    + intros E; inversion E; subst st'. apply inv_adv; assumption.
  - destruct (if N.eqb (ls_pos st) 0 then scan_sentinel cls (c :: s') else None) as [[[m v] r]|]; [intros Hs; fin Hinv Hs|].
    destruct (scan_version cls (c :: s')) as [[m r]|]; [intros Hs; fin Hinv Hs|].
    destruct (prefixb s_end_env (c :: s')); [intros Hs; fin Hinv Hs|].
    destruct (scan_envelope_start (c :: s')) as [[nm r]|]; [intros Hs; fin Hinv Hs|].
    destruct (prefixb s_dash3 (c :: s')); [intros Hs; fin Hinv Hs|].
    destruct (prefixb [c_slash; c_slash] (c :: s')); [intros Hs; fin Hinv Hs|].
    destruct (try_simple simple_ops (c :: s')) as [[m k]|] eqn:E1.
    { intros Hs. refine (emit_pat_inv _ _ _ _ _ _ _ Hinv _ _ Hs).
      - clear Hs. revert E1. unfold simple_ops. cbn [try_simple].
        repeat (destruct (prefixb _ (c :: s')); [intros E; inversion E; discriminate|]). discriminate.
      - clear Hs. revert E1. unfold simple_ops. cbn [try_simple].
        repeat (destruct (prefixb _ (c :: s')); [intros E; inversion E; intros X; discriminate X|]). discriminate. }
    destruct (scan_word cls s_vs (ls_prev st) (c :: s')) as [r|]; [intros Hs; fin Hinv Hs|].
    destruct (try_simple simple_ops2 (c :: s')) as [[m k]|] eqn:E2.
    { intros Hs. refine (emit_pat_inv _ _ _ _ _ _ _ Hinv _ _ Hs).
      - clear Hs. revert E2. unfold simple_ops2. cbn [try_simple].
        repeat (destruct (prefixb _ (c :: s')); [intros E; inversion E; discriminate|]). discriminate.
      - clear Hs. revert E2. unfold simple_ops2. cbn [try_simple].
        repeat (destruct (prefixb _ (c :: s')); [intros E; inversion E; intros X; discriminate X|]). discriminate. }
    destruct (if prefixb [c_dq; c_dq; c_dq] (c :: s') then scan_tq_body (length (c :: s')) (skipn 3 (c :: s')) else None) as [[b r]|];
      [intros Hs; fin Hinv Hs|].
    destruct (if N.eqb c c_dq then scan_dq_body (length (c :: s')) s' else None) as [[b r]|]; [intros Hs; fin Hinv Hs|].
    destruct (scan_number cls (c :: s')) as [[m r]|] eqn:En.
    { intros Hs. refine (emit_pat_inv _ _ _ _ _ _ _ Hinv _ _ Hs); [discriminate|].
      intros _. split; [reflexivity|exact (scan_number_no_alias _ _ _ En)]. }
    destruct (scan_word cls s_true (ls_prev st) (c :: s')) as [r|]; [intros Hs; fin Hinv Hs|].
    destruct (scan_word cls s_false (ls_prev st) (c :: s')) as [r|]; [intros Hs; fin Hinv Hs|].
    destruct (scan_word cls s_null (ls_prev st) (c :: s')) as [r|]; [intros Hs; fin Hinv Hs|].
    destruct (N.eqb c c_hash); [intros Hs; fin Hinv Hs|].
    destruct (if N.eqb c c_dollar then match takeb var_char s' with [] => None | m => Some m end else None) as [m|]; [intros Hs; fin Hinv Hs|].
    destruct (N.eqb c c_nl); [intros Hs; fin Hinv Hs|].
    apply step_fallback_inv. exact Hinv.
Qed.

Lemma step_fence_inv st sp spans' st' : Inv st -> step_fence st sp spans' = Continue st' -> Inv st'.
Proof.
  intros [Hr Hp]. unfold step_fence.
  destruct (skipn (N.to_nat (sp_end sp - sp_start sp)) (ls_in st)) as [|nl rest'];
    intros E; inversion E; subst st'; (split; cbn [ls_reps ls_toks];
      [cbn [flat_map rec_of_tok tnorm app]; exact Hr
      |repeat (constructor; [intros [H|H]; cbn [tk] in H; discriminate H|]); exact Hp]).
Qed.

Lemma step_inv lenient st st' : Inv st -> step cls lenient st = Continue st' -> Inv st'.
Proof.
  intros Hinv. unfold step. destruct (ls_in st) as [|c s']; [discriminate|].
  destruct (ls_spans st) as [|sp spans'].
  - apply step_plain_inv. exact Hinv.
  - destruct (N.eqb (ls_pos st) (sp_start sp)); [apply step_fence_inv|apply step_plain_inv]; exact Hinv.
Qed.

Lemma flat_map_rec_rev l : flat_map rec_of_tok (rev l) = rev (flat_map rec_of_tok l).
Proof.
  induction l as [|t l IH]; [reflexivity|]. cbn [rev flat_map]. rewrite flat_map_app, IH. cbn [flat_map]. rewrite app_nil_r.
  rewrite rev_app_distr. f_equal. unfold rec_of_tok; destruct (tnorm t); reflexivity.
Qed.
Lemma norm_reps_rev l : norm_reps (rev l) = rev (norm_reps l).
Proof.
  induction l as [|r l IH]; [reflexivity|]. cbn [rev]. rewrite norm_reps_app, IH.
  unfold norm_reps. cbn [filter]. destruct (N.eqb (rkind r) 0); cbn [rev app]; [reflexivity|rewrite app_nil_r; reflexivity].
Qed.

Lemma run_inv lenient fuel : forall st toks reps,
  Inv st -> run cls lenient fuel st = LexOk toks reps -> norm_reps reps = flat_map rec_of_tok toks.
Proof.
  induction fuel as [|f IH]; intros st toks reps Hinv; cbn [run].
  - destruct (ls_in st); [|discriminate]. unfold finish. destruct (rev (ls_brk st)) as [|[l c] ?]; [|discriminate].
    intros E; inversion E; subst. destruct Hinv as [Hr _].
    cbn [rev]. rewrite flat_map_app, flat_map_rec_rev, norm_reps_rev, Hr. cbn [flat_map rec_of_tok tnorm app]. rewrite app_nil_r. reflexivity.
  - destruct (ls_in st) eqn:Ein.
    + unfold finish. destruct (rev (ls_brk st)) as [|[l c] ?]; [|discriminate].
      intros E; inversion E; subst. destruct Hinv as [Hr _].
      cbn [rev]. rewrite flat_map_app, flat_map_rec_rev, norm_reps_rev, Hr. cbn [flat_map rec_of_tok tnorm app]. rewrite app_nil_r. reflexivity.
    + destruct (step cls lenient st) as [st'|r] eqn:Es.
      * apply IH. exact (step_inv _ _ _ Hinv Es).
      * intros E. subst r. unfold step in Es. rewrite Ein in Es.
        (* a Stop result is never LexOk *)
        exfalso. clear -Es.
        assert (Hno : forall c s', (exists sr, step_plain cls lenient st c s' = sr /\ sr = Stop (LexOk toks reps)) -> False).
        { intros c s' (sr & Hs & ->). revert Hs. unfold step_plain, step_fallback, emit_pat.
          repeat match goal with
                 | |- context [match ?X with _ => _ end] => destruct X; try discriminate
                 | |- context [if ?X then _ else _] => destruct X; try discriminate
                 end. }
        destruct (ls_spans st) as [|sp spans'].
        -- eapply Hno. eexists; split; [exact Es|reflexivity].
        -- destruct (N.eqb (ls_pos st) (sp_start sp)).
           ++ unfold step_fence in Es. destruct (skipn _ _); discriminate Es.
           ++ eapply Hno. eexists; split; [exact Es|reflexivity].
Qed.

Lemma fence_scan_err : forall ls ln off inf out spans toks reps,
  fence_scan cls ls ln off inf out spans <> inl (LexOk toks reps).
Proof.
  induction ls as [|[raw nfc] ls IH]; intros ln off inf out spans toks reps; cbn [fence_scan].
  - destruct inf as [[[[m t] ol] st]|]; discriminate.
  - destruct (fence_match raw) as [[bt tr]|]; destruct inf as [[[[m t] ol] st]|]; try apply IH.
    destruct ((length bt =? length m)%nat && _); [apply IH|]. destruct (length m <=? length bt)%nat; [discriminate|apply IH].
Qed.

(* the pre-pass over leading blank lines pushes unmarked NEWLINE tokens only *)
Lemma lead_blank_unmarked s : forall line k nsp toks ls,
  Forall (fun t => tnorm t = None) toks ->
  Forall (fun t => tnorm t = None) (snd (lead_blank s line k nsp toks ls)).
Proof.
  induction s as [|c r IH]; intros line k nsp toks ls H; cbn [lead_blank]; [exact H|].
  destruct (N.eqb c c_sp); [apply IH; exact H|]. destruct (N.eqb c c_nl); [|exact H].
  apply IH. constructor; [reflexivity|exact H].
Qed.

Lemma unmarked_inv toks : Forall (fun t => tnorm t = None) toks -> flat_map rec_of_tok toks = [] /\ Forall plain_kind toks.
Proof.
  induction 1 as [|t l Ht _ [IH1 IH2]]; [split; constructor|]. split.
  - cbn [flat_map]. unfold rec_of_tok at 1. rewrite Ht. exact IH1.
  - constructor; [intros _; exact Ht|exact IH2].
Qed.

Lemma init_state_inv content spans : Inv (init_state content spans).
Proof.
  unfold init_state. pose proof (lead_blank_unmarked content 1 0 0 [] content (Forall_nil _)) as H.
  destruct (lead_blank content 1 0 0 [] content) as [[[rest line] k] toks]. cbn [snd] in H.
  destruct toks as [|t toks]; [split; [reflexivity|constructor]|].
  destruct (unmarked_inv _ H) as [H1 H2]. split; [cbn [ls_reps ls_toks]; rewrite H1; reflexivity|exact H2].
Qed.

(* ================================================================================================================= *)
Theorem lexer_receipts_are_marked_tokens lenient lines toks reps :
  tokenize cls lenient lines = LexOk toks reps -> norm_reps reps = flat_map rec_of_tok toks.
Proof.
  unfold tokenize. destruct (fence_scan cls lines 1 0 None [] []) as [e|[outs spans]] eqn:Ef; [intros E; subst e; rename Ef into E|].
  - (* fence_scan errors are never LexOk *)
    exfalso. exact (fence_scan_err _ _ _ _ _ _ _ _ E).
  - destruct (tab_check (join [c_nl] outs) 0 1 1 spans) as [[l c]|]; [discriminate|].
    apply run_inv. apply init_state_inv.
Qed.

(* an ASCII alias spelling always yields the Unicode operator as the token value, marked with the spelling *)
Lemma emit_pat_alias_marked st k v m r norm st' u :
  alias_of m = Some u -> emit_pat st k v m r norm = Continue st' ->
  exists t rest, ls_toks st' = t :: rest /\ rest = ls_toks st /\ tk t = k /\ tv t = TVText u /\ tnorm t = Some m /\
                 tline t = ls_line st /\ tcol t = ls_col st.
Proof.
  intros Ea. unfold emit_pat. rewrite Ea.
  destruct (if tkind_eqb k LIST_START then _ else _) as [[]|brk]; [discriminate|].
  destruct (0 <? count_nl m); intros E; inversion E; subst st'; cbn [ls_toks]; eexists; eexists; repeat split; reflexivity.
Qed.

End R.
