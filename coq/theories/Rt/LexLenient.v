(* Lexer half of "lenient layouts converge" (property C03): a LENIENT PRINTER and the proof that the model lexer reads what it
   prints as the token shape Rt.TokLenient.doc2_sh_len of the layout.

   render_len lay sg d  writes the core2 document d
     - in the layout `lay` (Rt.TokLenient.dlay): every line indented by the spaces of its l_ind, followed by l_blank blank lines;
       dl_start leading blank lines; ===END=== present or not; inside the brackets of a list value the runs of NEWLINE / INDENT /
       COMMENT tokens chosen by the vlay (line breaks, indentation, comment lines, blank lines inside brackets);
     - with the extras `sg` (dsig), none of which produces a token: the number of spaces ON every blank line; TRAILING SPACES at the
       end of every node / comment / META / `META:` line (after a trailing comment they are absorbed by the comment); spaces BEFORE and
       AFTER the `::` of assignments and META fields; spaces after the commas of a list; extra spaces before a trailing comment;
     - values spelled as the canonical emitter spells them (quoted strings, numbers, literals: LexLink2Text.sc_text).
   Not offered by the printer (the theorem says nothing about them): trailing spaces on the grammar / envelope / `---` / ===END===
   lines, spaces around the `::` of a section marker or before the `:` of a block, indentation of the grammar / envelope lines.

   lex_render_len : tokenize (render_len lay sg d) = LexOk (ts ++ tail) []  with  ts of shape doc2_sh_len ex_idnum lay d.
   Side conditions: core2_doc_l d, lex_safe2_doc d (as for the canonical layout), lay_lex lay (every INDENT has a positive count,
   every bracket run is the image of a text: run_ok), and text_clean: the printed text contains no tab and no backtick (a decidable
   condition on the text; backticks are excluded only to keep the fence pre-pass trivial). *)
From OV Require Import Base.Strs Gen.LexerGen Syn.Escape Syn.Quote Syn.Ast Syn.Emitter Syn.Parser Lex.Lexer Lex.Progress
     Rt.TokRound Rt.TokRoundEx Rt.TokRound2 Rt.TokRound2Ex Rt.LexLinkBase Rt.LexLinkSteps Rt.LexLink Rt.LexLink2Base Rt.LexLink2Steps
     Rt.LexLink2Text Rt.LexLink2 Rt.TokLenient Rt.LexLenientBase Rt.LexLenientVal.
From Coq Require Import Lia.
Open Scope N_scope.

(* ---- the extras ------------------------------------------------------------------------------------------------------------------ *)
Record sline := mkSL { s_trail : nat;          (* trailing spaces of the line *)
                       s_blank : list nat }.   (* spaces on each of the blank lines that follow (missing entries: 0) *)
Record svl := mkSV { s_pre : nat; s_post : nat;   (* spaces before / after `::` *)
                     s_comma : nat;                (* spaces after every comma of a list value *)
                     s_cgap : nat }.               (* extra spaces before a trailing comment (one is always written) *)
Inductive snlay := SLay (leads : list sline) (hdr : sline) (sv : svl) (ch : list snlay).
Definition sn_leads (s : snlay) := match s with SLay a _ _ _ => a end.
Definition sn_hdr (s : snlay) := match s with SLay _ a _ _ => a end.
Definition sn_sv (s : snlay) := match s with SLay _ _ a _ => a end.
Definition sn_ch (s : snlay) := match s with SLay _ _ _ a => a end.
Record dsig := mkDS {
  ds_start : list nat; ds_gram : list nat; ds_env : list nat;      (* spaces on the blank lines at these sites *)
  ds_mhdr : sline; ds_meta : list (sline * svl); ds_sep : list nat;
  ds_nodes : list snlay; ds_trail : list sline }.

Definition sl0 : sline := mkSL 0 [].
Definition sv0 : svl := mkSV 0 0 0 0.
Definition sn0 : snlay := SLay [] sl0 sv0 [].
Definition sig0 : dsig := mkDS [] [] [] sl0 [] [] [] [].

(* ---- the printer ------------------------------------------------------------------------------------------------------------------ *)
Definition eol_s (l : lline) (s : sline) : str := eol_txt l (s_trail s) (s_blank s).

Fixpoint lead_txt (ls : list lline) (cs : list str) (ss : list sline) : str :=
  match ls, cs with
  | l :: lr, c :: cr => ind_txt (l_ind l) ++ comment_line c ++ eol_s l (hd sl0 ss) ++ lead_txt lr cr (tl ss)
  | _, _ => []
  end.

Definition tail_txt (t : option str) (sv : svl) (l : lline) (s : sline) : str :=
  match t with
  | Some c => sp_n (S (s_cgap sv)) ++ comment_line c ++ eol_s l s
  | None => eol_s l s
  end.
Definition assign_txt (k : str) (vl : vlay) (sv : svl) (v : value) (t : option str) (l : lline) (s : sline) : str :=
  k ++ sp_n (s_pre sv) ++ s_assign ++ sp_n (s_post sv) ++ val_txt vl (s_comma sv) v ++ tail_txt t sv l s.

Fixpoint main_txt (n : node) (l : nlay) (s : snlay) {struct n} : str :=
  match n with
  | NAssign k v _ t => assign_txt k (n_vl l) (sn_sv s) v t (n_hdr l) (sn_hdr s)
  | NBlock k _ ch _ =>
      k ++ [c_colon] ++ eol_s (n_hdr l) (sn_hdr s) ++
      (fix go (ch : list node) (ls : list nlay) (ss : list snlay) : str :=
         match ch, ls with
         | c :: r, lc :: lr =>
             (lead_txt (n_leads lc) (lead_of c) (sn_leads (hd sn0 ss)) ++ ind_txt (l_ind (n_hdr lc)) ++ main_txt c lc (hd sn0 ss)) ++ go r lr (tl ss)
         | _, _ => []
         end) ch (n_ch l) (sn_ch s)
  | NSection i k a ch _ =>
      [167] ++ i ++ s_assign ++ k ++ annot_text a ++ eol_s (n_hdr l) (sn_hdr s) ++
      (fix go (ch : list node) (ls : list nlay) (ss : list snlay) : str :=
         match ch, ls with
         | c :: r, lc :: lr =>
             (lead_txt (n_leads lc) (lead_of c) (sn_leads (hd sn0 ss)) ++ ind_txt (l_ind (n_hdr lc)) ++ main_txt c lc (hd sn0 ss)) ++ go r lr (tl ss)
         | _, _ => []
         end) ch (n_ch l) (sn_ch s)
  | NComment _ => []
  end.
Definition node_txt (c : node) (lc : nlay) (sc : snlay) : str :=
  lead_txt (n_leads lc) (lead_of c) (sn_leads sc) ++ ind_txt (l_ind (n_hdr lc)) ++ main_txt c lc sc.
Fixpoint nodes_txt (ch : list node) (ls : list nlay) (ss : list snlay) : str :=
  match ch, ls with
  | c :: r, lc :: lr => node_txt c lc (hd sn0 ss) ++ nodes_txt r lr (tl ss)
  | _, _ => []
  end.
Lemma main_txt_block k t ch ld l s :
  main_txt (NBlock k t ch ld) l s = k ++ [c_colon] ++ eol_s (n_hdr l) (sn_hdr s) ++ nodes_txt ch (n_ch l) (sn_ch s).
Proof. reflexivity. Qed.
Lemma main_txt_section i k a ch ld l s :
  main_txt (NSection i k a ch ld) l s = [167] ++ i ++ s_assign ++ k ++ annot_text a ++ eol_s (n_hdr l) (sn_hdr s) ++ nodes_txt ch (n_ch l) (sn_ch s).
Proof. reflexivity. Qed.

Fixpoint meta_txt (m : list (str * metaval)) (ls : list (lline * vlay)) (ss : list (sline * svl)) : str :=
  match m, ls with
  | kv :: mr, (l, vl) :: lr =>
      ind_txt (l_ind l) ++
      (match snd kv with
       | MV v => assign_txt (fst kv) vl (snd (hd (sl0, sv0) ss)) v None l (fst (hd (sl0, sv0) ss))
       | MD _ => []
       end) ++ meta_txt mr lr (tl ss)
  | _, _ => []
  end.

Definition s_META : str := [77;69;84;65].
Definition meta_block_txt (meta : list (str * metaval)) (k : nat) (mh : sline) (mls : list (lline * vlay)) (mss : list (sline * svl)) : str :=
  match meta with
  | [] => []
  | _ :: _ => s_META ++ [c_colon] ++ eol_s (mkLL None k) mh ++ meta_txt meta mls mss
  end.
Definition render_len (lay : dlay) (sg : dsig) (d : doc) : str :=
  blanks (dl_start lay) (ds_start sg) ++
  (match dgrammar d with Some g => s_octave ++ g ++ c_nl :: blanks (dl_gram lay) (ds_gram sg) | None => [] end) ++
  (s_env ++ dname d ++ s_env ++ c_nl :: blanks (dl_env lay) (ds_env sg)) ++
  meta_block_txt (dmeta d) (dl_mhdr lay) (ds_mhdr sg) (dl_meta lay) (ds_meta sg) ++
  (if dsep d then s_sep ++ c_nl :: blanks (dl_sep lay) (ds_sep sg) else []) ++
  nodes_txt (dsections d) (dl_nodes lay) (ds_nodes sg) ++
  lead_txt (dl_trail lay) (dtrailing d) (ds_trail sg) ++
  (if dl_end lay then s_end ++ [c_nl] else []).

(* ---- which layouts are the image of a text ------------------------------------------------------------------------------------------ *)
Definition ll_lex (l : lline) : bool := ind_lex (l_ind l).
Fixpoint nlay_lex (l : nlay) : bool :=
  match l with
  | NLay leads hdr vl ch => forallb ll_lex leads && ll_lex hdr && vl_lex vl && forallb nlay_lex ch
  end.
Definition lay_lex (lay : dlay) : bool :=
  forallb (fun lv => ll_lex (fst lv) && vl_lex (snd lv)) (dl_meta lay) && forallb nlay_lex (dl_nodes lay) && forallb ll_lex (dl_trail lay).

Section Lines.
Variable cls : N -> N.
Notation wbb := (word_boundary_before cls).

Lemma linest_of_ready st : ready st -> linest st.
Proof. intros (H1 & H2 & H3). repeat split; try assumption. lia. Qed.

(* ---- comment lines ------------------------------------------------------------------------------------------------------------------- *)
Lemma lex_lead_len ls : forall cs ss st rest, forallb ll_lex ls = true -> forallb comment_ok cs = true ->
  ls_in st = lead_txt ls cs ss ++ rest -> ready st ->
  exists st', lexto cls st (lead_len ls cs) st' /\ ls_in st' = rest /\ ready st'.
Proof.
  induction ls as [|l lr IH]; intros cs ss st rest Hl Hc Hin Hr.
  - exists st. split; [apply lexto_refl|split; [exact Hin|exact Hr]].
  - destruct cs as [|c cr]; [exists st; split; [apply lexto_refl|split; [exact Hin|exact Hr]]|].
    cbn [forallb] in Hl, Hc. apply andb_true_iff in Hl as [Hl1 Hl2]. apply andb_true_iff in Hc as [Hc1 Hc2].
    cbn [lead_txt lead_len] in Hin |- *. rewrite <- !app_assoc in Hin.
    destruct (comment_line_hd c) as (t & Et).
    pose proof Hin as Hin0. rewrite Et in Hin0. cbn [app] in Hin0.
    destruct (lex_ind cls (l_ind l) st c_slash _ Hl1 Hin0) as (st1 & L1 & I1 & (C1 & P1 & S1)); [chr|chr|exact Hr|].
    change (c_slash :: c_slash :: t ++ ?z) with ((c_slash :: c_slash :: t) ++ z) in I1. rewrite <- Et in I1.
    unfold eol_s, eol_txt in I1. rewrite <- !app_assoc in I1. cbn [app] in I1.
    destruct (G_comment_tr cls st1 c _ _ Hc1 I1 S1) as (st2 & G2).
    assert (S2 : ls_spans st2 = []) by (rewrite (gstep_spans cls _ _ _ _ _ _ _ G2); exact S1).
    assert (C2 : 1 < ls_col st2) by (pose proof (gstep_col cls _ _ _ _ _ _ _ G2); lia).
    destruct (lex_eol cls l 0 (s_blank (hd sl0 ss)) st2 (lead_txt lr cr (tl ss) ++ rest)) as (st3 & L3 & I3 & R3);
      [rewrite (gstep_in cls _ _ _ _ _ _ _ G2); unfold eol_txt; cbn [sp_n repeat app]; rewrite <- ?app_assoc; reflexivity
      |exact C2|exact S2|exact (gstep_pos cls _ _ _ _ _ _ _ G2)|].
    destruct (IH cr (tl ss) st3 rest Hl2 Hc2 I3 R3) as (st4 & L4 & I4 & R4).
    exists st4. split; [|split; assumption].
    eapply lexto_trans; [exact L1|].
    change ((COMMENT, Some (TVText c)) :: eol l ++ lead_len lr cr) with ([(COMMENT, Some (TVText c))] ++ eol l ++ lead_len lr cr).
    eapply lexto_trans; [eapply lexto_gstep; [exact G2|reflexivity|right; reflexivity]|].
    eapply lexto_trans; [exact L3|exact L4].
Qed.

(* ---- KEY [sp] :: [sp] value [ [sp] // comment ] [sp] NEWLINE blank lines -------------------------------------------------------------- *)
Lemma sp_n_hd k z r : exists y t, sp_n k ++ z :: r = y :: t /\ (y = z \/ y = c_sp).
Proof. destruct k; [exists z, r; split; [reflexivity|left; reflexivity]|]. eexists _, _. split; [reflexivity|right; reflexivity]. Qed.

Lemma eol_hd l s r : exists y t, eol_s l s ++ r = y :: t /\ (y = c_nl \/ y = c_sp).
Proof. unfold eol_s, eol_txt. rewrite <- app_assoc. cbn [app]. apply sp_n_hd. Qed.

Lemma lex_assign_len k vl sv v t l s st rest :
  key_ok k = true -> cval v = true -> val_ok v = true -> vl_lex vl = true -> opt_ne t = true -> trail_ok t = true ->
  ls_in st = assign_txt k vl sv v t l s ++ rest -> linest st ->
  exists st', lexto cls st ([(IDENTIFIER, Some (TVText k)); (ASSIGN, None)] ++ val_len vl v ++ trail_sh t ++ eol l) st' /\
              ls_in st' = rest /\ ready st'.
Proof.
  intros Hk Hc Hv Hvl Hne Ht Hin (C0 & P0 & S0). unfold assign_txt in Hin. rewrite <- !app_assoc in Hin.
  change (s_assign ++ ?x) with (c_colon :: c_colon :: x) in Hin.
  (* key *)
  destruct (sp_n_hd (s_pre sv) c_colon (c_colon :: sp_n (s_post sv) ++ val_txt vl (s_comma sv) v ++ tail_txt t sv l s ++ rest)) as (y & ty & Ey & Hy).
  rewrite Ey in Hin.
  destruct (G_key_z cls st k y ty Hk) as (st1 & G1); [destruct Hy as [->| ->]; [left|right; right; right; right]; reflexivity|exact Hin|exact P0|exact S0|].
  assert (S1 : ls_spans st1 = []) by (rewrite (gstep_spans cls _ _ _ _ _ _ _ G1); exact S0).
  assert (C1 : 1 < ls_col st1) by (pose proof (gstep_col cls _ _ _ _ _ _ _ G1); lia).
  pose proof (gstep_in cls _ _ _ _ _ _ _ G1) as I1. rewrite <- Ey in I1.
  destruct (skip_spaces cls _ st1 _ I1 C1 S1 (gstep_pos cls _ _ _ _ _ _ _ G1)) as (st2 & St2 & I2 & T2 & R2 & B2 & P2 & Q2 & C2 & _).
  assert (L2 : lexto cls st1 [] st2) by (apply lexto_skip; try assumption; rewrite P2, S1; reflexivity).
  (* :: *)
  destruct (G_assign cls st2 _ I2 P2) as (st3 & G3).
  assert (S3 : ls_spans st3 = []) by (rewrite (gstep_spans cls _ _ _ _ _ _ _ G3); exact P2).
  assert (C3 : 1 < ls_col st3) by (pose proof (gstep_col cls _ _ _ _ _ _ _ G3); lia).
  destruct (skip_spaces cls _ st3 _ (gstep_in cls _ _ _ _ _ _ _ G3) C3 S3 (gstep_pos cls _ _ _ _ _ _ _ G3))
    as (st4 & St4 & I4 & T4 & R4 & B4 & P4 & Q4 & C4 & V40 & V41).
  assert (L4 : lexto cls st3 [] st4) by (apply lexto_skip; try assumption; rewrite P4, S3; reflexivity).
  assert (W4 : wbb (ls_prev st4) = true).
  { destruct (s_post sv) as [|n]; [rewrite (V40 eq_refl), (gstep_prev cls _ _ _ _ _ _ _ G3)|rewrite V41 by discriminate]; apply wbb_of, u_word_false; chr. }
  (* value *)
  assert (Htl : exists z u, tail_txt t sv l s ++ rest = z :: u /\ vterm z).
  { destruct t as [c|]; cbn [tail_txt].
    - cbn [sp_n repeat app]. eexists _, _. split; [reflexivity|right; right; right; left; reflexivity].
    - destruct (eol_hd l s rest) as (z & u & E & Hz). exists z, u. split; [exact E|]. destruct Hz as [->| ->]; [left|right; right; right; left]; reflexivity. }
  destruct Htl as (z & u & Ez & Hz). rewrite Ez in I4.
  destruct (lex_val_len cls vl (s_comma sv) v st4 z u Hc Hv Hvl I4 Hz W4 P4 Q4) as (st5 & L5 & I5 & C5 & P5); [lia|].
  assert (S5 : ls_spans st5 = []) by (rewrite (lexto_spans _ _ _ _ L5); exact P4).
  rewrite <- Ez in I5.
  (* the end of the line *)
  assert (Hend : exists st8, lexto cls st5 (trail_sh t ++ eol l) st8 /\ ls_in st8 = rest /\ ready st8).
  { destruct t as [c|]; cbn [tail_txt trail_sh] in *.
    - destruct c as [|x c']; [discriminate Hne|]. rewrite <- !app_assoc in I5.
      destruct (skip_spaces cls _ st5 _ I5 C5 S5 P5) as (st6 & St6 & I6 & T6 & R6 & B6 & P6 & Q6 & C6 & _).
      assert (L6 : lexto cls st5 [] st6) by (apply lexto_skip; try assumption; rewrite P6, S5; reflexivity).
      unfold eol_s, eol_txt in I6. rewrite <- !app_assoc in I6. cbn [app] in I6.
      destruct (G_comment_tr cls st6 (x :: c') _ _ Ht I6 P6) as (st7 & G7).
      assert (S7 : ls_spans st7 = []) by (rewrite (gstep_spans cls _ _ _ _ _ _ _ G7); exact P6).
      assert (C7 : 1 < ls_col st7) by (pose proof (gstep_col cls _ _ _ _ _ _ _ G7); lia).
      destruct (lex_eol cls l 0 (s_blank s) st7 rest) as (st8 & L8 & I8 & R8);
        [rewrite (gstep_in cls _ _ _ _ _ _ _ G7); reflexivity|exact C7|exact S7|exact (gstep_pos cls _ _ _ _ _ _ _ G7)|].
      exists st8. split; [|split; assumption].
      change ([(COMMENT, Some (TVText (x :: c')))] ++ eol l) with ([] ++ [(COMMENT, Some (TVText (x :: c')))] ++ eol l).
      eapply lexto_trans; [exact L6|]. eapply lexto_trans; [eapply lexto_gstep; [exact G7|reflexivity|right; reflexivity]|exact L8].
    - destruct (lex_eol cls l (s_trail s) (s_blank s) st5 rest I5 C5 S5 P5) as (st8 & L8 & I8 & R8).
      exists st8. split; [exact L8|split; assumption]. }
  destruct Hend as (st8 & L8 & I8 & R8).
  exists st8. split; [|split; assumption].
  change ([(IDENTIFIER, Some (TVText k)); (ASSIGN, None)] ++ ?x) with ([(IDENTIFIER, Some (TVText k))] ++ [] ++ [(ASSIGN, @None tvalue)] ++ [] ++ x).
  eapply lexto_trans; [eapply lexto_gstep; [exact G1|reflexivity|right; reflexivity]|].
  eapply lexto_trans; [exact L2|]. eapply lexto_trans; [eapply lexto_gstep; [exact G3|reflexivity|left; reflexivity]|].
  eapply lexto_trans; [exact L4|]. eapply lexto_trans; [exact L5|exact L8].
Qed.

(* ---- KEY : [sp] NEWLINE blank lines ------------------------------------------------------------------------------------------------------ *)
Lemma lex_block_hdr_len k l s st rest : key_ok k = true ->
  ls_in st = k ++ [c_colon] ++ eol_s l s ++ rest -> linest st ->
  exists st', lexto cls st ([(IDENTIFIER, Some (TVText k)); (BLOCK, None)] ++ eol l) st' /\ ls_in st' = rest /\ ready st'.
Proof.
  intros Hk Hin (C0 & P0 & S0). cbn [app] in Hin.
  destruct (G_key_z cls st k c_colon (eol_s l s ++ rest) Hk) as (st1 & G1); [left; reflexivity|exact Hin|exact P0|exact S0|].
  assert (S1 : ls_spans st1 = []) by (rewrite (gstep_spans cls _ _ _ _ _ _ _ G1); exact S0).
  destruct (eol_hd l s rest) as (z & u & Ez & Hz).
  pose proof (gstep_in cls _ _ _ _ _ _ _ G1) as I1. rewrite Ez in I1.
  destruct (G_block cls st1 z u) as (st2 & G2); [destruct Hz as [->| ->]; discriminate|exact I1|exact S1|].
  assert (S2 : ls_spans st2 = []) by (rewrite (gstep_spans cls _ _ _ _ _ _ _ G2); exact S1).
  assert (C2 : 1 < ls_col st2) by (pose proof (gstep_col cls _ _ _ _ _ _ _ G1); pose proof (gstep_col cls _ _ _ _ _ _ _ G2); lia).
  pose proof (gstep_in cls _ _ _ _ _ _ _ G2) as I2. rewrite <- Ez in I2.
  destruct (lex_eol cls l (s_trail s) (s_blank s) st2 rest I2 C2 S2 (gstep_pos cls _ _ _ _ _ _ _ G2)) as (st3 & L3 & I3 & R3).
  exists st3. split; [|split; assumption].
  change ([(IDENTIFIER, Some (TVText k)); (BLOCK, None)] ++ eol l) with ([(IDENTIFIER, Some (TVText k))] ++ [(BLOCK, @None tvalue)] ++ eol l).
  eapply lexto_trans; [eapply lexto_gstep; [exact G1|reflexivity|right; reflexivity]|].
  eapply lexto_trans; [eapply lexto_gstep; [exact G2|reflexivity|left; reflexivity]|exact L3].
Qed.

(* ---- SECTION id :: KEY [ [annot] ] [sp] NEWLINE blank lines --------------------------------------------------------------------------- *)
Lemma lex_section_hdr_len i k a l s st rest :
  sid_ok i = true -> key_ok k = true -> annot_ok a = true -> opt_ne a = true ->
  ls_in st = [167] ++ i ++ s_assign ++ k ++ annot_text a ++ eol_s l s ++ rest -> linest st ->
  exists st', lexto cls st ([(SECTION, None); id_sh idnum_digits i; (ASSIGN, None); (IDENTIFIER, Some (TVText k))] ++ annot_sh a ++ eol l) st' /\
              ls_in st' = rest /\ ready st'.
Proof.
  intros Hi Hk Ha Hne Hin (C0 & P0 & S0). cbn [app] in Hin.
  change (s_assign ++ ?x) with (c_colon :: c_colon :: x) in Hin.
  destruct (G_section cls st _ Hin S0) as (st2 & G2).
  { change (167 :: i ++ c_colon :: ?x) with ((167 :: i) ++ c_colon :: x). apply scan_version_no_dot; [|chr|apply u_digit_false; chr].
    intros y [<-|Hy]; [chr|exact (sid_chars i Hi y Hy)]. }
  assert (S2 : ls_spans st2 = []) by (rewrite (gstep_spans cls _ _ _ _ _ _ _ G2); exact S0).
  set (REST := k ++ annot_text a ++ eol_s l s ++ rest) in *.
  assert (HID : exists st3, lexto cls st2 [id_sh idnum_digits i] st3 /\ ls_in st3 = c_colon :: c_colon :: REST /\ ls_spans st3 = []).
  { unfold sid_ok in Hi. apply orb_true_iff in Hi as [Hd|Hkk].
    - destruct (G_num cls st2 i c_colon (c_colon :: REST) (digs_num_ok i Hd)) as (st3 & G3);
        [right; right; right; right; reflexivity|exact (gstep_in cls _ _ _ _ _ _ _ G2)|exact S2|].
      exists st3. split; [|split; [exact (gstep_in cls _ _ _ _ _ _ _ G3)|rewrite (gstep_spans cls _ _ _ _ _ _ _ G3); exact S2]].
      unfold id_sh. rewrite (digs_idnum i Hd). eapply lexto_gstep; [exact G3|reflexivity|right; reflexivity].
    - destruct (G_key cls st2 i c_colon (c_colon :: REST) Hkk) as (st3 & G3);
        [left; reflexivity|exact (gstep_in cls _ _ _ _ _ _ _ G2)|exact (gstep_pos cls _ _ _ _ _ _ _ G2)|exact S2|].
      exists st3. split; [|split; [exact (gstep_in cls _ _ _ _ _ _ _ G3)|rewrite (gstep_spans cls _ _ _ _ _ _ _ G3); exact S2]].
      unfold id_sh. rewrite (key_ok_idnum i Hkk). eapply lexto_gstep; [exact G3|reflexivity|right; reflexivity]. }
  destruct HID as (st3 & L3 & I3 & S3).
  destruct (G_assign cls st3 _ I3 S3) as (st4 & G4).
  assert (S4 : ls_spans st4 = []) by (rewrite (gstep_spans cls _ _ _ _ _ _ _ G4); exact S3).
  assert (C4 : 1 <= ls_col st4).
  { apply (steps_col cls st st4); [|exact C0]. eapply steps_trans; [apply steps_one; apply G2|]. eapply steps_trans; [exact (lexto_steps cls _ _ _ L3)|].
    apply steps_one; apply G4. }
  subst REST.
  destruct (eol_hd l s rest) as (z & u & Ez & Hz).
  assert (HK : exists st6, lexto cls st4 ([(IDENTIFIER, Some (TVText k))] ++ annot_sh a) st6 /\ ls_in st6 = eol_s l s ++ rest /\ ls_spans st6 = [] /\
                           ls_pos st6 <> 0 /\ 1 < ls_col st6).
  { destruct a as [[|x a']|]; [discriminate Hne| |].
    - cbn [annot_text annot_ok] in *. pose proof (gstep_in cls _ _ _ _ _ _ _ G4) as I4. rewrite <- !app_assoc in I4. cbn [app] in I4.
      destruct (G_key cls st4 k c_lbr (x :: a' ++ c_rbr :: eol_s l s ++ rest) Hk) as (st5 & G5);
        [right; left; reflexivity|exact I4|exact (gstep_pos cls _ _ _ _ _ _ _ G4)|exact S4|].
      assert (S5 : ls_spans st5 = []) by (rewrite (gstep_spans cls _ _ _ _ _ _ _ G5); exact S4).
      destruct (G_lbr cls st5 _ (gstep_in cls _ _ _ _ _ _ _ G5) S5) as (st6 & p & G6).
      assert (S6 : ls_spans st6 = []) by (rewrite (gstep_spans cls _ _ _ _ _ _ _ G6); exact S5).
      pose proof (gstep_in cls _ _ _ _ _ _ _ G6) as I6. change (x :: a' ++ ?z) with ((x :: a') ++ z) in I6.
      destruct (G_key cls st6 (x :: a') c_rbr (eol_s l s ++ rest) Ha) as (st7 & G7);
        [right; right; left; reflexivity|exact I6|exact (gstep_pos cls _ _ _ _ _ _ _ G6)|exact S6|].
      assert (S7 : ls_spans st7 = []) by (rewrite (gstep_spans cls _ _ _ _ _ _ _ G7); exact S6).
      assert (B7 : ls_brk st7 = p :: ls_brk st5).
      { rewrite (gstep_brk cls _ _ _ _ _ _ _ G7). exact (gstep_brk cls _ _ _ _ _ _ _ G6). }
      destruct (G_rbr cls st7 _ p (ls_brk st5) (gstep_in cls _ _ _ _ _ _ _ G7) S7 B7) as (st8 & G8).
      exists st8. split; [|split; [exact (gstep_in cls _ _ _ _ _ _ _ G8)|split; [rewrite (gstep_spans cls _ _ _ _ _ _ _ G8); exact S7|
                                   split; [exact (gstep_pos cls _ _ _ _ _ _ _ G8)|]]]].
      + apply lextoB_lexto.
        * cbn [annot_sh].
          change [(LIST_START, None); (IDENTIFIER, Some (TVText (x :: a'))); (LIST_END, None)]
            with ([(LIST_START, @None tvalue)] ++ [(IDENTIFIER, Some (TVText (x :: a')))] ++ [(LIST_END, @None tvalue)]).
          eapply lextoB_trans; [eapply lextoB_gstep; [exact G5|reflexivity|right; reflexivity]|].
          eapply lextoB_trans; [eapply lextoB_gstep; [exact G6|reflexivity|left; reflexivity]|].
          eapply lextoB_trans; [eapply lextoB_gstep; [exact G7|reflexivity|right; reflexivity]|].
          eapply lextoB_gstep; [exact G8|reflexivity|left; reflexivity].
        * rewrite (gstep_brk cls _ _ _ _ _ _ _ G8). exact (gstep_brk cls _ _ _ _ _ _ _ G5).
      + pose proof (gstep_col cls _ _ _ _ _ _ _ G5). pose proof (gstep_col cls _ _ _ _ _ _ _ G6).
        pose proof (gstep_col cls _ _ _ _ _ _ _ G7). pose proof (gstep_col cls _ _ _ _ _ _ _ G8). lia.
    - cbn [annot_text annot_sh] in *. pose proof (gstep_in cls _ _ _ _ _ _ _ G4) as I4. cbn [app] in I4. rewrite Ez in I4.
      destruct (G_key_z cls st4 k z u Hk) as (st5 & G5);
        [destruct Hz as [->| ->]; [right; right; right; left|right; right; right; right]; reflexivity|exact I4|exact (gstep_pos cls _ _ _ _ _ _ _ G4)|exact S4|].
      exists st5. split; [|split; [rewrite (gstep_in cls _ _ _ _ _ _ _ G5); symmetry; exact Ez|split; [rewrite (gstep_spans cls _ _ _ _ _ _ _ G5); exact S4|
                                   split; [exact (gstep_pos cls _ _ _ _ _ _ _ G5)|pose proof (gstep_col cls _ _ _ _ _ _ _ G5); lia]]]].
      rewrite app_nil_r. eapply lexto_gstep; [exact G5|reflexivity|right; reflexivity]. }
  destruct HK as (st6 & L6 & I6 & S6 & P6 & C6).
  destruct (lex_eol cls l (s_trail s) (s_blank s) st6 rest I6 C6 S6 P6) as (st7 & L7 & I7 & R7).
  exists st7. split; [|split; assumption].
  change ([(SECTION, None); id_sh idnum_digits i; (ASSIGN, None); (IDENTIFIER, Some (TVText k))] ++ ?x)
    with ([(SECTION, @None tvalue)] ++ [id_sh idnum_digits i] ++ [(ASSIGN, @None tvalue)] ++ [(IDENTIFIER, Some (TVText k))] ++ x).
  eapply lexto_trans; [eapply lexto_gstep; [exact G2|reflexivity|left; reflexivity]|].
  eapply lexto_trans; [exact L3|].
  eapply lexto_trans; [eapply lexto_gstep; [exact G4|reflexivity|left; reflexivity]|].
  rewrite app_assoc. eapply lexto_trans; [exact L6|exact L7].
Qed.

(* ---- nodes under a layout, at every depth ------------------------------------------------------------------------------------------------ *)
Lemma main_txt_hd c lc sc r : core2_node c = true -> lex_safe2_node c = true ->
  exists x t, main_txt c lc sc ++ r = x :: t /\ x <> c_sp /\ x <> c_nl.
Proof.
  destruct c as [k v ld t|k tg ch ld|i k a ch ld|]; cbn [core2_node lex_safe2_node]; try discriminate; intros _ Hs.
  - apply andb_true_iff in Hs as [Hs _]. apply andb_true_iff in Hs as [Hs _]. apply andb_true_iff in Hs as [Hk _].
    destruct (key_ok_hd _ Hk) as (c & k' & -> & Hc). apply key_start_range in Hc. cbn [main_txt]. unfold assign_txt. cbn [app].
    eexists _, _. split; [reflexivity|]. split; chr.
  - apply andb_true_iff in Hs as [Hs _]. apply andb_true_iff in Hs as [Hk _].
    destruct (key_ok_hd _ Hk) as (c & k' & -> & Hc). apply key_start_range in Hc. rewrite main_txt_block. cbn [app].
    eexists _, _. split; [reflexivity|]. split; chr.
  - rewrite main_txt_section. cbn [app]. eexists _, _. split; [reflexivity|]. split; discriminate.
Qed.
Lemma safe_leads c : lex_safe2_node c = true -> forallb comment_ok (lead_of c) = true.
Proof.
  destruct c as [k v ld t|k tg ch ld|i k a ch ld|]; cbn [lex_safe2_node lead_of]; try discriminate; intros Hs.
  - apply andb_true_iff in Hs as [Hs _]. apply andb_true_iff in Hs as [_ Hs]. exact Hs.
  - apply andb_true_iff in Hs as [Hs _]. apply andb_true_iff in Hs as [_ Hs]. exact Hs.
  - apply andb_true_iff in Hs as [Hs _]. apply andb_true_iff in Hs as [_ Hs]. exact Hs.
Qed.

Definition L_len (n : node) : Prop :=
  core2_node n = true -> lex_safe2_node n = true ->
  forall l s st rest, nlay_lex l = true -> ls_in st = main_txt n l s ++ rest -> linest st ->
    exists st', lexto cls st (main_len idnum_digits n l) st' /\ ls_in st' = rest /\ ready st'.

Lemma lex_nodes_len ch : Forall L_len ch -> forallb core2_node ch = true -> forallb lex_safe2_node ch = true ->
  forall ls ss st rest, forallb nlay_lex ls = true -> ls_in st = nodes_txt ch ls ss ++ rest -> ready st ->
    exists st', lexto cls st (nodes_len idnum_digits ch ls) st' /\ ls_in st' = rest /\ ready st'.
Proof.
  induction ch as [|c cs IH]; intros HP Hc Hs ls ss st rest Hl Hin Hr.
  - exists st. split; [apply lexto_refl|split; [exact Hin|exact Hr]].
  - destruct ls as [|lc lr]; [exists st; split; [apply lexto_refl|split; [exact Hin|exact Hr]]|].
    inversion HP as [|? ? HPc HPcs]; subst.
    cbn [forallb] in Hc, Hs, Hl. apply andb_true_iff in Hc as [Hc1 Hc2]. apply andb_true_iff in Hs as [Hs1 Hs2]. apply andb_true_iff in Hl as [Hl1 Hl2].
    cbn [nodes_txt nodes_len] in Hin |- *. unfold node_txt, node_len in *. rewrite <- !app_assoc in Hin.
    pose proof Hl1 as Hl1'. destruct lc as [leads hdr vl chl]. cbn [nlay_lex] in Hl1'. cbn [n_leads n_hdr] in *.
    apply andb_true_iff in Hl1' as [Hl1' _]. apply andb_true_iff in Hl1' as [Hl1' _]. apply andb_true_iff in Hl1' as [Hleads Hhdr].
    destruct (lex_lead_len leads (lead_of c) _ st _ Hleads (safe_leads c Hs1) Hin Hr) as (st1 & L1 & I1 & R1).
    destruct (main_txt_hd c (NLay leads hdr vl chl) (hd sn0 ss) (nodes_txt cs lr (tl ss) ++ rest) Hc1 Hs1) as (x & t & Ex & Hx1 & Hx2).
    rewrite Ex in I1.
    destruct (lex_ind cls (l_ind hdr) st1 x t Hhdr I1 Hx1 Hx2 R1) as (st2 & L2 & I2 & R2).
    rewrite <- Ex in I2.
    destruct (HPc Hc1 Hs1 (NLay leads hdr vl chl) (hd sn0 ss) st2 _ Hl1 I2 R2) as (st3 & L3 & I3 & R3).
    destruct (IH HPcs Hc2 Hs2 lr (tl ss) st3 rest Hl2 I3 R3) as (st4 & L4 & I4 & R4).
    exists st4. split; [|split; assumption]. rewrite <- !app_assoc.
    eapply lexto_trans; [exact L1|]. eapply lexto_trans; [exact L2|]. eapply lexto_trans; [exact L3|exact L4].
Qed.

Theorem all_L_len : forall n, L_len n.
Proof.
  apply node_ind2; unfold L_len.
  - intros k v ld t Hc Hs l s st rest Hl Hin Hr. cbn [core2_node] in Hc. apply andb_true_iff in Hc as [Hcv Hne].
    cbn [lex_safe2_node] in Hs. apply andb_true_iff in Hs as [Hs Ht]. apply andb_true_iff in Hs as [Hs _]. apply andb_true_iff in Hs as [Hk Hv].
    destruct (assign_val_text k v 0 Hcv Hv) as (_ & Hvok).
    destruct l as [leads hdr vl chl]. cbn [nlay_lex] in Hl. apply andb_true_iff in Hl as [Hl _]. apply andb_true_iff in Hl as [_ Hvl].
    cbn [main_txt main_len n_vl n_hdr] in Hin |- *.
    exact (lex_assign_len k vl (sn_sv s) v t hdr (sn_hdr s) st rest Hk Hcv Hvok Hvl Hne Ht Hin Hr).
  - intros k tg ch ld IH Hc Hs l s st rest Hl Hin Hr. cbn [core2_node] in Hc. destruct tg; [discriminate|].
    apply andb_true_iff in Hc as [_ Hcc]. cbn [lex_safe2_node] in Hs. apply andb_true_iff in Hs as [Hs Hss]. apply andb_true_iff in Hs as [Hk _].
    rewrite main_txt_block, <- !app_assoc in Hin. rewrite main_len_block.
    destruct (lex_block_hdr_len k (n_hdr l) (sn_hdr s) st _ Hk Hin Hr) as (st1 & L1 & I1 & R1).
    destruct l as [leads hdr vl chl]. cbn [nlay_lex] in Hl. apply andb_true_iff in Hl as [_ Hch]. cbn [n_ch n_hdr] in *.
    destruct (lex_nodes_len ch IH Hcc Hss chl (sn_ch s) st1 rest Hch I1 R1) as (st2 & L2 & I2 & R2).
    exists st2. split; [|split; assumption]. rewrite app_assoc. eapply lexto_trans; [exact L1|exact L2].
  - intros i k a ch ld IH Hc Hs l s st rest Hl Hin Hr. cbn [core2_node] in Hc. apply andb_true_iff in Hc as [Hne Hc]. apply andb_true_iff in Hc as [_ Hcc].
    cbn [lex_safe2_node] in Hs. apply andb_true_iff in Hs as [Hs Hss]. apply andb_true_iff in Hs as [Hs _].
    apply andb_true_iff in Hs as [Hs Ha]. apply andb_true_iff in Hs as [Hi Hk].
    rewrite main_txt_section, <- !app_assoc in Hin. rewrite main_len_section.
    destruct (lex_section_hdr_len i k a (n_hdr l) (sn_hdr s) st _ Hi Hk Ha Hne Hin Hr) as (st1 & L1 & I1 & R1).
    destruct l as [leads hdr vl chl]. cbn [nlay_lex] in Hl. apply andb_true_iff in Hl as [_ Hch]. cbn [n_ch n_hdr] in *.
    destruct (lex_nodes_len ch IH Hcc Hss chl (sn_ch s) st1 rest Hch I1 R1) as (st2 & L2 & I2 & R2).
    exists st2. split; [|split; assumption]. rewrite !app_assoc. eapply lexto_trans; [|exact L2]. rewrite <- !app_assoc. exact L1.
  - intros t Hc; discriminate Hc.
Qed.

End Lines.

Section Doc.
Variable cls : N -> N.

Lemma all_L_lens ns : Forall (L_len cls) ns.
Proof. apply Forall_forall. intros n _. apply all_L_len. Qed.

(* ---- META fields ------------------------------------------------------------------------------------------------------------------------ *)
Lemma lex_meta_len m : forall ls ss st rest, forallb meta_field_ok m = true -> forallb meta_ok m = true ->
  forallb (fun lv => ll_lex (fst lv) && vl_lex (snd lv)) ls = true ->
  ls_in st = meta_txt m ls ss ++ rest -> ready st ->
  exists st', lexto cls st (meta_len m ls) st' /\ ls_in st' = rest /\ ready st'.
Proof.
  induction m as [|kv m IH]; intros ls ss st rest Hf Hm Hl Hin Hr.
  - exists st. split; [apply lexto_refl|split; [exact Hin|exact Hr]].
  - destruct ls as [|[l vl] lr]; [exists st; split; [apply lexto_refl|split; [exact Hin|exact Hr]]|].
    cbn [forallb fst snd] in Hf, Hm, Hl. apply andb_true_iff in Hf as [F1 F2]. apply andb_true_iff in Hm as [M1 M2]. apply andb_true_iff in Hl as [L1 L2].
    apply andb_true_iff in L1 as [Hll Hvl].
    unfold meta_field_ok in F1. unfold meta_ok in M1. destruct (snd kv) as [v|] eqn:Ev; [|discriminate F1].
    apply andb_true_iff in M1 as [Hk Hmv]. destruct (meta_val_text v 1 F1 Hmv) as (_ & Hvok).
    cbn [meta_txt meta_len] in Hin |- *. rewrite Ev in Hin |- *. rewrite <- !app_assoc in Hin.
    destruct (key_ok_hd _ Hk) as (c & k' & Ek & Hc). apply key_start_range in Hc.
    pose proof Hin as Hin0. unfold assign_txt in Hin0. rewrite Ek in Hin0. rewrite <- !app_assoc in Hin0. cbn [app] in Hin0.
    destruct (lex_ind cls (l_ind l) st c _ Hll Hin0) as (st1 & L1' & I1 & R1); [chr|chr|exact Hr|].
    assert (I1' : ls_in st1 = assign_txt (fst kv) vl (snd (hd (sl0, sv0) ss)) v None l (fst (hd (sl0, sv0) ss)) ++ meta_txt m lr (tl ss) ++ rest).
    { rewrite I1. unfold assign_txt. rewrite Ek, <- !app_assoc. reflexivity. }
    destruct (lex_assign_len cls (fst kv) vl _ v None l _ st1 _ Hk F1 Hvok Hvl eq_refl eq_refl I1' R1) as (st2 & L2' & I2 & R2).
    destruct (IH lr (tl ss) st2 rest F2 M2 L2 I2 R2) as (st3 & L3 & I3 & R3).
    exists st3. split; [|split; assumption].
    eapply lexto_trans; [exact L1'|].
    replace ([(IDENTIFIER, Some (TVText (fst kv))); (ASSIGN, None)] ++ val_len vl v ++ eol l ++ meta_len m lr)
      with (([(IDENTIFIER, Some (TVText (fst kv))); (ASSIGN, None)] ++ val_len vl v ++ trail_sh None ++ eol l) ++ meta_len m lr)
      by (cbn [trail_sh app]; rewrite <- !app_assoc; reflexivity).
    eapply lexto_trans; [exact L2'|exact L3].
Qed.

(* ---- the document ---------------------------------------------------------------------------------------------------------------------------- *)
Fixpoint pad (k : nat) (bs : list nat) : list nat := match k with O => [] | S k' => hd O bs :: pad k' (tl bs) end.
Lemma blanks_pad k : forall bs, blanks k bs = blank_pre (pad k bs).
Proof. induction k as [|k IH]; intros bs; [reflexivity|]. cbn [blanks pad blank_pre flat_map]. rewrite IH, <- app_assoc. reflexivity. Qed.
Lemma pad_length k : forall bs, length (pad k bs) = k.
Proof. induction k as [|k IH]; intros bs; [reflexivity|]. cbn [pad length]. rewrite IH. reflexivity. Qed.

Lemma lex_nl_blanks st k bs r : ls_in st = c_nl :: blanks k bs ++ r -> ls_spans st = [] ->
  exists st', lexto cls st ((NEWLINE, None) :: nls k) st' /\ ls_in st' = r /\ ready st'.
Proof.
  intros Hin Hsp. destruct (lex_newline cls st _ Hin Hsp) as (st1 & L1 & I1 & R1).
  destruct (lex_blanks cls k bs st1 r I1 R1) as (st2 & L2 & I2 & R2).
  exists st2. split; [|split; assumption]. change ((NEWLINE, None) :: nls k) with ([(NEWLINE, @None tvalue)] ++ nls k). eapply lexto_trans; eassumption.
Qed.

Definition body_render (lay : dlay) (sg : dsig) (d : doc) : str :=
  (match dgrammar d with Some g => s_octave ++ g ++ c_nl :: blanks (dl_gram lay) (ds_gram sg) | None => [] end) ++
  (s_env ++ dname d ++ s_env ++ c_nl :: blanks (dl_env lay) (ds_env sg)) ++
  meta_block_txt (dmeta d) (dl_mhdr lay) (ds_mhdr sg) (dl_meta lay) (ds_meta sg) ++
  (if dsep d then s_sep ++ c_nl :: blanks (dl_sep lay) (ds_sep sg) else []) ++
  nodes_txt (dsections d) (dl_nodes lay) (ds_nodes sg) ++
  lead_txt (dl_trail lay) (dtrailing d) (ds_trail sg) ++
  (if dl_end lay then s_end ++ [c_nl] else []).
Lemma render_len_split lay sg d : render_len lay sg d = blank_pre (pad (dl_start lay) (ds_start sg)) ++ body_render lay sg d.
Proof. unfold render_len, body_render. rewrite blanks_pad. reflexivity. Qed.

Definition mid_sh (lay : dlay) (d : doc) : list sh :=
  (match dgrammar d with Some g => (GRAMMAR_SENTINEL, Some (TVText g)) :: (NEWLINE, None) :: nls (dl_gram lay) | None => [] end) ++
  (ENVELOPE_START, Some (TVText (dname d))) :: ((NEWLINE, None) :: nls (dl_env lay)) ++
  meta_part (dmeta d) (dl_mhdr lay) (dl_meta lay) ++
  sep_len (dsep d) (dl_sep lay) ++
  nodes_len idnum_digits (dsections d) (dl_nodes lay) ++ lead_len (dl_trail lay) (dtrailing d).
Lemma doc2_sh_len_mid lay d :
  doc2_sh_len idnum_digits lay d = nls (dl_start lay) ++ mid_sh lay d ++ [if dl_end lay then (ENVELOPE_END, None) else (EOF, None)].
Proof. unfold doc2_sh_len, mid_sh. rewrite <- !app_assoc. cbn [app]. rewrite <- !app_assoc. reflexivity. Qed.

Lemma key_ok_s_META : key_ok s_META = true.
Proof. vm_compute. reflexivity. Qed.

Lemma body_render_nonblank lay sg d : nonblank_head (body_render lay sg d) = true.
Proof. unfold body_render. destruct (dgrammar d); reflexivity. Qed.

Lemma lex_body_render lay sg d : core2_doc_l d = true -> lex_safe2_doc d = true -> lay_lex lay = true ->
  forall st, ls_in st = body_render lay sg d -> ls_pos st = 0 -> ls_spans st = [] ->
  exists st', lexto cls st (mid_sh lay d ++ (if dl_end lay then [(ENVELOPE_END, None); (NEWLINE, None)] else [])) st' /\ ls_in st' = [].
Proof.
  intros Hc Hs Hl st Hin Hp Hsp.
  destruct d as [name gr fr sep meta secs trl]. unfold core2_doc_l, lex_safe2_doc, body_render, mid_sh in *.
  cbn [dfront dmeta dtrailing dsections dgrammar dname dsep] in *.
  destruct fr; [discriminate|].
  apply andb_true_iff in Hc as [Hc _]. apply andb_true_iff in Hc as [Hc _]. apply andb_true_iff in Hc as [Hc Hmf].
  apply andb_true_iff in Hs as [Hs Htr]. apply andb_true_iff in Hs as [Hs Hm]. apply andb_true_iff in Hs as [Hs Hn]. apply andb_true_iff in Hs as [Hname Hg].
  unfold lay_lex in Hl. apply andb_true_iff in Hl as [Hl Hltr]. apply andb_true_iff in Hl as [Hlm Hln].
  set (T_END := if dl_end lay then s_end ++ [c_nl] else []) in *.
  set (T_TRL := lead_txt (dl_trail lay) trl (ds_trail sg)) in *.
  set (T_NODES := nodes_txt secs (dl_nodes lay) (ds_nodes sg)) in *.
  set (T_SEP := if sep then s_sep ++ c_nl :: blanks (dl_sep lay) (ds_sep sg) else []) in *.
  set (T_META := meta_block_txt meta (dl_mhdr lay) (ds_mhdr sg) (dl_meta lay) (ds_meta sg)) in *.
  (* grammar line *)
  assert (HA : exists st1, lexto cls st (match gr with Some g => (GRAMMAR_SENTINEL, Some (TVText g)) :: (NEWLINE, None) :: nls (dl_gram lay) | None => [] end) st1 /\
                           ls_in st1 = s_env ++ name ++ s_env ++ c_nl :: blanks (dl_env lay) (ds_env sg) ++ T_META ++ T_SEP ++ T_NODES ++ T_TRL ++ T_END /\
                           ls_spans st1 = []).
  { destruct gr as [g|].
    - rewrite <- ?app_assoc in Hin. cbn [app] in Hin. rewrite <- ?app_assoc in Hin.
      destruct (T_sentinel cls st g _ Hg Hin Hp Hsp) as (st0 & T0).
      assert (S0 : ls_spans st0 = []) by (rewrite (tstep_spans _ _ _ _ _ _ _ T0); exact Hsp).
      destruct (lex_nl_blanks st0 _ _ _ (tstep_in _ _ _ _ _ _ _ T0) S0) as (st1 & L1 & I1 & (_ & _ & S1)).
      exists st1. split; [|split; [exact I1|exact S1]].
      change ((GRAMMAR_SENTINEL, Some (TVText g)) :: ?x) with ([(GRAMMAR_SENTINEL, Some (TVText g))] ++ x).
      eapply lexto_trans; [|exact L1]. eapply lexto_tstep; [exact T0|reflexivity|right; reflexivity].
    - cbn [app] in Hin. rewrite <- ?app_assoc in Hin. cbn [app] in Hin. rewrite <- ?app_assoc in Hin.
      exists st. split; [apply lexto_refl|split; [exact Hin|exact Hsp]]. }
  destruct HA as (st1 & L1 & I1 & S1). clear Hin Hp Hsp.
  (* envelope start *)
  destruct (T_env_start cls st1 name _ Hname I1 S1) as (st2 & T2).
  assert (S2 : ls_spans st2 = []) by (rewrite (tstep_spans _ _ _ _ _ _ _ T2); exact S1).
  destruct (lex_nl_blanks st2 _ _ _ (tstep_in _ _ _ _ _ _ _ T2) S2) as (st3 & L3 & I3 & R3).
  (* META *)
  assert (HM : exists st4, lexto cls st3 (meta_part meta (dl_mhdr lay) (dl_meta lay)) st4 /\ ls_in st4 = T_SEP ++ T_NODES ++ T_TRL ++ T_END /\ ready st4).
  { subst T_META. unfold meta_block_txt in I3. destruct meta as [|kv0 m0]; [exists st3; split; [apply lexto_refl|split; [exact I3|exact R3]]|].
    set (m := kv0 :: m0) in *. rewrite <- ?app_assoc in I3.
    destruct (lex_block_hdr_len cls s_META (mkLL None (dl_mhdr lay)) (ds_mhdr sg) st3 _ key_ok_s_META I3 (linest_of_ready _ R3)) as (st4 & L4 & I4 & R4).
    destruct (lex_meta_len m (dl_meta lay) (ds_meta sg) st4 _ Hmf Hm Hlm I4 R4) as (st5 & L5 & I5 & R5).
    exists st5. split; [|split; assumption].
    change (meta_part m (dl_mhdr lay) (dl_meta lay)) with
      (([(IDENTIFIER, Some (TVText s_META)); (BLOCK, None)] ++ eol (mkLL None (dl_mhdr lay))) ++ meta_len m (dl_meta lay)).
    eapply lexto_trans; [exact L4|exact L5]. }
  destruct HM as (st4 & L4 & I4 & R4).
  (* separator *)
  assert (HB : exists st5, lexto cls st4 (sep_len sep (dl_sep lay)) st5 /\ ls_in st5 = T_NODES ++ T_TRL ++ T_END /\ ready st5).
  { subst T_SEP. destruct sep.
    - rewrite <- ?app_assoc in I4. cbn [app] in I4. pose proof R4 as (_ & _ & S4).
      destruct (T_sep cls st4 _ I4 S4) as (st' & T').
      assert (S' : ls_spans st' = []) by (rewrite (tstep_spans _ _ _ _ _ _ _ T'); exact S4).
      destruct (lex_nl_blanks st' _ _ _ (tstep_in _ _ _ _ _ _ _ T') S') as (st5 & L5 & I5 & R5).
      exists st5. split; [|split; [exact I5|exact R5]]. cbn [sep_len].
      change ((SEPARATOR, None) :: ?x) with ([(SEPARATOR, @None tvalue)] ++ x).
      eapply lexto_trans; [|exact L5]. eapply lexto_tstep; [exact T'|reflexivity|left; reflexivity].
    - exists st4. split; [apply lexto_refl|split; [exact I4|exact R4]]. }
  destruct HB as (st5 & L5 & I5 & R5).
  (* sections, trailing comments *)
  destruct (lex_nodes_len cls secs (all_L_lens secs) Hc Hn (dl_nodes lay) (ds_nodes sg) st5 _ Hln I5 R5) as (st6 & L6 & I6 & R6).
  destruct (lex_lead_len cls (dl_trail lay) trl (ds_trail sg) st6 _ Hltr Htr I6 R6) as (st7 & L7 & I7 & (_ & _ & S7)).
  (* the end *)
  assert (HE : exists st9, lexto cls st7 (if dl_end lay then [(ENVELOPE_END, None); (NEWLINE, None)] else []) st9 /\ ls_in st9 = []).
  { subst T_END. destruct (dl_end lay).
    - destruct (T_env_end cls st7 [] I7 S7) as (st8 & T8).
      assert (S8 : ls_spans st8 = []) by (rewrite (tstep_spans _ _ _ _ _ _ _ T8); exact S7).
      destruct (lex_newline cls st8 [] (tstep_in _ _ _ _ _ _ _ T8) S8) as (st9 & L9 & I9 & _).
      exists st9. split; [|exact I9].
      change [(ENVELOPE_END, None); (NEWLINE, None)] with ([(ENVELOPE_END, @None tvalue)] ++ [(NEWLINE, @None tvalue)]).
      eapply lexto_trans; [|exact L9]. eapply lexto_tstep; [exact T8|reflexivity|left; reflexivity].
    - exists st7. split; [apply lexto_refl|exact I7]. }
  destruct HE as (st9 & L9 & I9).
  exists st9. split; [|exact I9].
  rewrite <- !app_assoc.
  eapply lexto_trans; [exact L1|].
  change ((ENVELOPE_START, Some (TVText name)) :: ((NEWLINE, None) :: nls (dl_env lay)) ++ ?x)
    with ([(ENVELOPE_START, Some (TVText name))] ++ ((NEWLINE, @None tvalue) :: nls (dl_env lay)) ++ x).
  rewrite <- !app_assoc.
  eapply lexto_trans; [eapply lexto_tstep; [exact T2|reflexivity|right; reflexivity]|].
  eapply lexto_trans; [exact L3|]. eapply lexto_trans; [exact L4|]. eapply lexto_trans; [exact L5|].
  eapply lexto_trans; [exact L6|]. eapply lexto_trans; [exact L7|exact L9].
Qed.

(* (b) THE LEXER HALF under a layout *)
Theorem lex_render_len lay sg d :
  core2_doc_l d = true -> lex_safe2_doc d = true -> lay_lex lay = true -> text_clean (render_len lay sg d) = true ->
  exists ts tail,
    tokenize cls false (lines_of (render_len lay sg d)) = LexOk (ts ++ tail) [] /\
    Forall2 tmatch ts (doc2_sh_len idnum_digits lay d) /\
    (if dl_end lay then exists tnl teof, tail = [tnl; teof] /\ tk tnl = NEWLINE /\ tk teof = EOF else tail = []).
Proof.
  intros Hc Hs Hl Hclean.
  rewrite (tokenize_clean cls false _ Hclean), render_len_split.
  destruct (init_state_blanks (pad (dl_start lay) (ds_start sg)) (body_render lay sg d) (body_render_nonblank lay sg d))
    as (st0 & E0 & I0 & P0 & C0 & S0 & B0 & R0 & T0).
  rewrite E0. clear E0. rewrite pad_length in T0.
  destruct (lex_body_render lay sg d Hc Hs Hl st0 I0 P0 S0) as (st' & (Hst & (tsm & Ht & HF) & Hr & Hb & _) & Hin).
  rewrite (run_steps_finish cls st0 st' _ Hst Hin) by (rewrite I0, app_length; lia).
  unfold finish. rewrite Hb, B0, Hr, R0, Ht. cbn [rev app]. rewrite rev_app_distr, rev_involutive.
  rewrite doc2_sh_len_mid.
  apply Forall2_app_inv_r in HF. destruct HF as (tm & te & HFm & HFe & ->).
  destruct (dl_end lay).
  - inversion HFe as [|tE ? ? ? HE HFe2]; subst. inversion HFe2 as [|tnl ? ? ? [Hnl _] HFe3]; subst. inversion HFe3; subst. cbn [fst] in Hnl.
    exists (rev (ls_toks st0) ++ tm ++ [tE]), [tnl; mkTok EOF TVNone (ls_line st') (ls_col st') None].
    split; [rewrite <- ?app_assoc; cbn [app]; rewrite <- ?app_assoc; reflexivity|]. split.
    + apply Forall2_app; [exact T0|]. apply Forall2_app; [exact HFm|]. constructor; [exact HE|constructor].
    + eexists _, _. split; [reflexivity|]. split; [exact Hnl|reflexivity].
  - inversion HFe; subst.
    exists (rev (ls_toks st0) ++ tm ++ [mkTok EOF TVNone (ls_line st') (ls_col st') None]), [].
    split; [rewrite ?app_nil_r, <- ?app_assoc; reflexivity|]. split; [|reflexivity].
    apply Forall2_app; [exact T0|]. apply Forall2_app; [exact HFm|]. constructor; [split; [reflexivity|exact I]|constructor].
Qed.

End Doc.

(* ---- (c) composition with the parser half (Rt/TokLenient.v) ------------------------------------------------------------------------------------ *)
Section Rt.
Variable cls : N -> N.

Lemma render_first_line lay sg d : lex_safe2_doc d = true ->
  exists l0 r, split_on c_nl (render_len lay sg d) = l0 :: r /\ prefixb s_dashes l0 = false.
Proof.
  intros Hs. rewrite render_len_split.
  destruct (pad (dl_start lay) (ds_start sg)) as [|n bs].
  - cbn [blank_pre flat_map app]. unfold body_render.
    unfold lex_safe2_doc in Hs. apply andb_true_iff in Hs as [Hs _]. apply andb_true_iff in Hs as [Hs _]. apply andb_true_iff in Hs as [Hs _].
    apply andb_true_iff in Hs as [Hname Hg].
    destruct (dgrammar d) as [g|].
    + rewrite <- ?app_assoc. cbn [app]. rewrite <- ?app_assoc. rewrite (app_assoc s_octave g). rewrite split_on_app.
      * eexists _, _. split; reflexivity.
      * pose proof (plain_ver _ Hg) as P. unfold plain in P. apply andb_true_iff in P as [P _]. apply negb_true_iff in P.
        rewrite memb_app, P. reflexivity.
    + cbn [app]. rewrite <- ?app_assoc. cbn [app]. rewrite <- ?app_assoc. rewrite (app_assoc s_env (dname d)), (app_assoc (s_env ++ dname d) s_env). rewrite split_on_app.
      * eexists _, _. split; reflexivity.
      * unfold name_ok in Hname. apply andb_true_iff in Hname as [Hw _].
        pose proof (plain_key _ (word_ok_chars _ Hw)) as P. unfold plain in P. apply andb_true_iff in P as [P _]. apply negb_true_iff in P.
        rewrite !memb_app, P. reflexivity.
  - cbn [blank_pre flat_map]. rewrite <- !app_assoc. cbn [app]. rewrite split_on_app by (apply memb_sp_n; discriminate).
    eexists _, _. split; [reflexivity|]. destruct n; reflexivity.
Qed.

Theorem text_roundtrip_len numcanon holo_ok strict lay sg d :
  core2_doc_l d = true -> lex_safe2_doc d = true -> lay_lex lay = true -> layout_ok lay d = true ->
  text_clean (render_len lay sg d) = true ->
  TokRound2.nums_ok2_l numcanon idnum_digits (dsections d) -> Forall (TokRound2.field_num_ok numcanon) (dmeta d) ->
  exists warns,
    parse_model cls numcanon holo_ok strict (lines_of (render_len lay sg d)) = PRDoc d [] warns /\ Forall advisory warns.
Proof.
  intros Hc Hs Hl Hlay Hclean Hnum Hmnum.
  destruct (lex_render_len cls lay sg d Hc Hs Hl Hclean) as (ts & tail & Htok & HF & _).
  destruct (render_first_line lay sg d Hs) as (l0 & r & El & Hl0).
  unfold parse_model.
  rewrite (strip_frontmatter_none (u_space cls) _ l0 r El Hl0), Htok.
  destruct (parse_core2_doc_len numcanon holo_ok strict (u_space cls) (u_alpha cls) idnum_digits d lay Hc Hnum Hmnum Hlay
              (mkPS (ts ++ tail) None 0 [] 0 []) ts tail) as (st' & Hp & (l & Hw & Hadv) & _);
    [reflexivity|exact HF|reflexivity|].
  rewrite Hp. exists (rev (pwarns st')). split.
  - f_equal. destruct d as [name gr fr sep meta secs trl]. unfold core2_doc_l in Hc. cbn [dfront] in Hc.
    destruct fr; [discriminate Hc|]. reflexivity.
  - rewrite Hw. cbn [pwarns]. rewrite app_nil_r. apply Forall_rev. exact Hadv.
Qed.

(* two lenient spellings of one document are read as the same document ... *)
Theorem text_lenient_converge numcanon holo_ok strict d lay1 sg1 lay2 sg2 :
  core2_doc_l d = true -> lex_safe2_doc d = true ->
  TokRound2.nums_ok2_l numcanon idnum_digits (dsections d) -> Forall (TokRound2.field_num_ok numcanon) (dmeta d) ->
  lay_lex lay1 = true -> layout_ok lay1 d = true -> text_clean (render_len lay1 sg1 d) = true ->
  lay_lex lay2 = true -> layout_ok lay2 d = true -> text_clean (render_len lay2 sg2 d) = true ->
  exists w1 w2,
    parse_model cls numcanon holo_ok strict (lines_of (render_len lay1 sg1 d)) = PRDoc d [] w1 /\
    parse_model cls numcanon holo_ok strict (lines_of (render_len lay2 sg2 d)) = PRDoc d [] w2 /\
    Forall advisory w1 /\ Forall advisory w2.
Proof.
  intros Hc Hs Hnum Hmnum Hl1 Ho1 Hc1 Hl2 Ho2 Hc2.
  destruct (text_roundtrip_len numcanon holo_ok strict lay1 sg1 d Hc Hs Hl1 Ho1 Hc1 Hnum Hmnum) as (w1 & E1 & A1).
  destruct (text_roundtrip_len numcanon holo_ok strict lay2 sg2 d Hc Hs Hl2 Ho2 Hc2 Hnum Hmnum) as (w2 & E2 & A2).
  exists w1, w2. repeat split; assumption.
Qed.

(* ... hence canonicalise to identical text *)
Corollary text_lenient_same_canonical numcanon holo_ok strict sp d lay1 sg1 lay2 sg2 :
  core2_doc_l d = true -> lex_safe2_doc d = true ->
  TokRound2.nums_ok2_l numcanon idnum_digits (dsections d) -> Forall (TokRound2.field_num_ok numcanon) (dmeta d) ->
  lay_lex lay1 = true -> layout_ok lay1 d = true -> text_clean (render_len lay1 sg1 d) = true ->
  lay_lex lay2 = true -> layout_ok lay2 d = true -> text_clean (render_len lay2 sg2 d) = true ->
  forall d1 d2 r1 r2 w1 w2,
    parse_model cls numcanon holo_ok strict (lines_of (render_len lay1 sg1 d)) = PRDoc d1 r1 w1 ->
    parse_model cls numcanon holo_ok strict (lines_of (render_len lay2 sg2 d)) = PRDoc d2 r2 w2 ->
    emit sp d1 = emit sp d2.
Proof.
  intros Hc Hs Hnum Hmnum Hl1 Ho1 Hc1 Hl2 Ho2 Hc2 d1 d2 r1 r2 w1 w2 E1 E2.
  destruct (text_lenient_converge numcanon holo_ok strict d lay1 sg1 lay2 sg2 Hc Hs Hnum Hmnum Hl1 Ho1 Hc1 Hl2 Ho2 Hc2) as (v1 & v2 & F1 & F2 & _).
  rewrite F1 in E1. rewrite F2 in E2. injection E1 as <- _ _. injection E2 as <- _ _. reflexivity.
Qed.

End Rt.
