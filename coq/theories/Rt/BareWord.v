(* Round trip for core documents whose string values may be written BARE (Rt/BareWordParse.v is the parser half).

     lex_emit_core3        the model lexer reads `emit sp d` as the shape  doc3_sh needs_multiline ex_idnum qa_emit qi_emit d
     text_roundtrip_core3  parse_model reads `emit sp d` back as d, no lexer repair, advisory warnings only

   A string value s is
     - quoted by the emitter (needs_quotes s, or an always-quote key)  -> STRING token            (as in LexLink2)
     - else, when bare_ok s  (IDENTIFIER_PATTERN word, dotted / dashed words included, not starting with a keyword segment,
       no wrong-case / embedded-vs repair)                               -> IDENTIFIER token
     - else, when var_ok s   ($VARIABLE)                                 -> VARIABLE token
     - else excluded (annotations NAME<q>, operator expressions A->B, ...: several tokens).
   In assignment position, as list items (inline and multi-line layout) and as META values. *)
From OV Require Import Base.Strs Gen.LexerGen Syn.Escape Syn.Quote Syn.Ast Syn.Emitter Syn.Parser
     Lex.Lexer Lex.Progress Rt.TokRound Rt.TokRoundEx Rt.TokRound2 Rt.TokRound2Ex
     Rt.LexLinkBase Rt.LexLinkSteps Rt.LexLink Rt.LexLink2Base Rt.LexLink2Steps Rt.LexLink2Text Rt.LexLink2
     Rt.BareWordParse Rt.BareWordLex.
From Coq Require Import Lia.
Open Scope N_scope.

(* ---- the quoting oracles of the emitter ------------------------------------------------------------------------------ *)
Definition str_kind (quoted : bool) (s : str) : strk :=
  if quoted then QStr else if bare_ok s then QIdent else if var_ok s then QVar else QStr.
Definition qa_emit (k s : str) : strk := str_kind (always_quote_key k || needs_quotes s) s.
Definition qi_emit (s : str) : strk := str_kind (needs_quotes s) s.

Lemma bare_no_annotation s : bare_ok s = true -> has_annotation s = false.
Proof.
  unfold bare_ok. intros H. apply andb_true_iff in H as [H _]. apply andb_true_iff in H as [H _]. apply andb_true_iff in H as [H _].
  destruct (match_identifier_parts s H) as (c & r & -> & Hc & Hr & _).
  unfold has_annotation. replace (memb c_lt (c :: r)) with false; [reflexivity|]. symmetry.
  cbn [memb existsb]. apply key_start_range in Hc. rewrite (neqb c_lt c) by chr. cbn [orb].
  change (existsb (N.eqb c_lt) r) with (memb c_lt r). apply memb_false_forall.
  eapply forallb_impl; [|exact Hr]. intros x Hx. apply idp_char_range in Hx. apply negb_true_iff, neqb. chr.
Qed.
Lemma str_kind_ident b s : str_kind b s = QIdent -> bare_ok s = true.
Proof. unfold str_kind. destruct b; [discriminate|]. destruct (bare_ok s); [reflexivity|]. destruct (var_ok s); discriminate. Qed.
Lemma str_kind_var b s : str_kind b s = QVar -> var_ok s = true.
Proof. unfold str_kind. destruct b; [discriminate|]. destruct (bare_ok s); [discriminate|]. destruct (var_ok s); [reflexivity|discriminate]. Qed.
Lemma qa_emit_ok k s : qa_emit k s = QIdent -> has_annotation s = false.
Proof. intros H. apply bare_no_annotation. exact (str_kind_ident _ _ H). Qed.
Lemma qi_emit_ok s : qi_emit s = QIdent -> has_annotation s = false.
Proof. intros H. apply bare_no_annotation. exact (str_kind_ident _ _ H). Qed.

(* ---- texts ---------------------------------------------------------------------------------------------------------------- *)
Definition str_text (q : strk) (s : str) : str := match q with QStr => quote s | _ => s end.
Definition str_lexable (q : strk) (s : str) : bool := match q with QStr => true | QIdent => bare_ok s | QVar => var_ok s end.
Definition sc_text3 (q : str -> strk) (v : value) : str := match v with VStr s => str_text (q s) s | _ => sc_text v end.
Definition scalar_ok3 (q : str -> strk) (v : value) : bool := match v with VStr s => str_lexable (q s) s | _ => scalar_ok v end.
(* list items / META values (emit_value alone): a string is quoted, or a bare word, or a variable *)
Definition item_ok3 (v : value) : bool :=
  match v with VStr s => needs_quotes s || bare_ok s || var_ok s | _ => item_ok v end.

Lemma item_scalar_ok3 v : item_ok3 v = true -> scalar_ok3 qi_emit v = true.
Proof.
  destruct v; cbn [item_ok3 scalar_ok3]; try apply item_scalar_ok. unfold qi_emit, str_kind.
  destruct (needs_quotes s); [reflexivity|]. cbn [orb]. destruct (bare_ok s) eqn:B; [intros _; exact B|]. cbn [orb].
  destruct (var_ok s) eqn:V; [intros _; exact V|discriminate].
Qed.
Lemma item_is_scalar3 v : item_ok3 v = true -> is_scalar v = true.
Proof. destruct v; cbn [item_ok3]; try apply item_is_scalar. reflexivity. Qed.
Lemma item_text3 v D : item_ok3 v = true -> emit_value v D = sc_text3 qi_emit v.
Proof.
  destruct v; cbn [item_ok3 sc_text3]; try apply item_text. cbn [emit_value]. unfold emit_str, qi_emit, str_kind.
  destruct (needs_quotes s); [reflexivity|]. cbn [orb]. destruct (bare_ok s); [reflexivity|]. cbn [orb].
  destruct (var_ok s); [reflexivity|discriminate].
Qed.

Definition val_text3 (q : str -> strk) (D : nat) (v : value) : str :=
  match v with
  | VList [] => s_empty_list
  | VList items =>
      c_lbr :: (if needs_multiline items then body_text (GNl (S D)) (GNl D) (GNl (S D)) (map (sc_text3 qi_emit) items)
                else body_text GNone GNone GNone (map (sc_text3 qi_emit) items))
  | _ => sc_text3 q v
  end.
Definition val_ok3 (q : str -> strk) (v : value) : bool :=
  match v with VList items => forallb (scalar_ok3 qi_emit) items | _ => scalar_ok3 q v end.

Lemma ml_parts_items3 D items : forallb item_ok3 items = true -> ml_parts D items = map (sc_text3 qi_emit) items.
Proof.
  induction items as [|x r IH]; [reflexivity|]. cbn [forallb]. intros H. apply andb_true_iff in H as [H1 H2].
  unfold ml_parts in *. cbn [flat_map map]. rewrite (IH H2), <- (item_text3 x (S D) H1).
  destruct x; cbn [item_ok3 item_ok] in H1; try discriminate H1; reflexivity.
Qed.
Lemma il_parts_items3 D items : forallb item_ok3 items = true -> il_parts D items = map (sc_text3 qi_emit) items.
Proof.
  induction items as [|x r IH]; [reflexivity|]. cbn [forallb]. intros H. apply andb_true_iff in H as [H1 H2].
  unfold il_parts in *. cbn [flat_map map]. rewrite (IH H2), <- (item_text3 x D H1).
  destruct x; cbn [item_ok3 item_ok] in H1; try discriminate H1; reflexivity.
Qed.
Lemma emit_list_text3 q D items : forallb item_ok3 items = true -> emit_value (VList items) D = val_text3 q D (VList items).
Proof.
  intros H. destruct items as [|x r]; [reflexivity|].
  rewrite emit_list_unfold. cbn [val_text3].
  rewrite (ml_parts_items3 D _ H), (il_parts_items3 D _ H).
  destruct (needs_multiline (x :: r)).
  - cbn [map]. rewrite join_cons_ne by (intros E; apply app_eq_nil in E as [_ E]; discriminate E).
    unfold s_lb. cbn [app]. f_equal.
    apply (ml_body D _ (sc_text3 qi_emit x :: map (sc_text3 qi_emit) r)); [discriminate|reflexivity].
  - unfold s_lb. cbn [app]. rewrite inline_body by discriminate. reflexivity.
Qed.

(* ---- the side condition ------------------------------------------------------------------------------------------------------ *)
Definition lex_safe3_val (k : str) (v : value) : bool :=
  match v with
  | VList items => forallb item_ok3 items
  | VStr s => str_eqb (force_quote k (VStr s) (emit_str false s)) (str_text (qa_emit k s) s) && str_lexable (qa_emit k s) s
  | _ => lex_safe_val k v
  end.

Fixpoint lex_safe3_node (n : node) : bool :=
  match n with
  | NAssign k v l t => key_ok k && lex_safe3_val k v && forallb comment_ok l && trail_ok t
  | NBlock k _ ch l => key_ok k && forallb comment_ok l && forallb lex_safe3_node ch
  | NSection i k a ch l => sid_ok i && key_ok k && annot_ok a && forallb comment_ok l && forallb lex_safe3_node ch
  | NComment _ => false
  end.

Definition meta_val_ok3 (v : value) : bool := match v with VList items => forallb item_ok3 items | _ => item_ok3 v end.
Definition meta_ok3 (kv : str * metaval) : bool :=
  key_ok (fst kv) && match snd kv with MV v => meta_val_ok3 v | MD _ => false end.

Definition lex_safe3_doc (d : doc) : bool :=
  name_ok (dname d) && (match dgrammar d with Some g => ver_ok g | None => true end) &&
  forallb lex_safe3_node (dsections d) && forallb meta_ok3 (dmeta d) && forallb comment_ok (dtrailing d).

Lemma assign_val_text3 k v D : cval v = true -> lex_safe3_val k v = true ->
  force_quote k v (emit_value v D) = val_text3 (qa_emit k) D v /\ val_ok3 (qa_emit k) v = true.
Proof.
  intros Hc Hs. destruct v; cbn [cval is_scalar sval_of] in Hc; try discriminate Hc.
  - split; reflexivity.
  - split; reflexivity.
  - split; [reflexivity|exact Hs].
  - cbn [lex_safe3_val] in Hs. apply andb_true_iff in Hs as [H1 H2]. apply str_eqb_eq in H1. split; [exact H1|exact H2].
  - cbn [lex_safe3_val] in Hs. split; [cbn [force_quote]; apply emit_list_text3; exact Hs|].
    cbn [val_ok3]. eapply forallb_impl; [|exact Hs]. apply item_scalar_ok3.
Qed.
Lemma meta_val_text3 v D : cval v = true -> meta_val_ok3 v = true -> emit_value v D = val_text3 qi_emit D v /\ val_ok3 qi_emit v = true.
Proof.
  intros Hc Hs. destruct v; cbn [cval is_scalar sval_of] in Hc; try discriminate Hc;
    try (split; [exact (item_text3 _ D Hs)|exact (item_scalar_ok3 _ Hs)]).
  cbn [meta_val_ok3] in Hs. split; [apply emit_list_text3; exact Hs|].
  cbn [val_ok3]. eapply forallb_impl; [|exact Hs]. apply item_scalar_ok3.
Qed.

Notation qa := qa_emit.
Notation qi := qi_emit.

Section Link3.
Variable cls : N -> N.
Notation wbb := (word_boundary_before cls).

Lemma gap_hd_b g x r : bterm x -> exists z t, gap_text g ++ x :: r = z :: t /\ bterm z.
Proof. intros Hx. destruct g; cbn [gap_text app]; eexists _, _; (split; [reflexivity|]); [exact Hx|left; reflexivity]. Qed.
Lemma trail_hd_b t r : exists z u, emit_trailing t ++ c_nl :: r = z :: u /\ bterm z.
Proof.
  destruct t as [[|x c]|]; cbn [emit_trailing app]; eexists _, _; (split; [reflexivity|]);
    [left; reflexivity|right; right; right; reflexivity|left; reflexivity].
Qed.

(* ---- one scalar, possibly a bare word or a variable -------------------------------------------------------------------------- *)
Lemma lex_item3 q v st z r : is_scalar v = true -> scalar_ok3 q v = true -> ls_in st = sc_text3 q v ++ z :: r -> bterm z ->
  wbb (ls_prev st) = true -> ls_spans st = [] -> ls_pos st <> 0 ->
  exists st', lexto cls st [vsh3 q v] st' /\ ls_in st' = z :: r /\ ls_col st < ls_col st' /\ ls_pos st' <> 0.
Proof.
  intros Hi Hs Hin Hz Hp Hsp Hpos.
  assert (Old : forall sv, sval_of v = Some sv -> scalar_ok v = true -> sc_text3 q v = sval_text sv -> vsh3 q v = sval_sh sv ->
                exists st', lexto cls st [vsh3 q v] st' /\ ls_in st' = z :: r /\ ls_col st < ls_col st' /\ ls_pos st' <> 0).
  { intros sv E Hok Et Esh. rewrite Et in Hin. rewrite Esh. exact (lex_item cls v sv st z r Hok E Hin (bterm_vterm _ Hz) Hp Hsp). }
  assert (K : forall st' k tv_ prev, gstep cls st st' k tv_ (z :: r) prev (ls_brk st) -> fst (vsh3 q v) = k -> snd (vsh3 q v) = Some tv_ ->
              exists st', lexto cls st [vsh3 q v] st' /\ ls_in st' = z :: r /\ ls_col st < ls_col st' /\ ls_pos st' <> 0).
  { intros st' k tv_ prev G Hk Hv. exists st'. split; [exact (lexto_gstep cls _ _ _ _ _ _ _ G Hk (or_intror Hv))|].
    split; [exact (gstep_in cls _ _ _ _ _ _ _ G)|]. split; [exact (gstep_col cls _ _ _ _ _ _ _ G)|exact (gstep_pos cls _ _ _ _ _ _ _ G)]. }
  destruct v; cbn [is_scalar sval_of] in Hi; try discriminate Hi; try (eapply Old; [reflexivity|exact Hs|reflexivity|reflexivity]).
  cbn [sc_text3 scalar_ok3 vsh3] in *. destruct (q s) eqn:Eq; cbn [str_text str_lexable] in *.
  - apply (Old (SStr s)); cbn [sc_text3 vsh3]; rewrite ?Eq; reflexivity.
  - destruct (G_bare cls st s z r Hs Hz Hin Hpos Hsp) as (st' & G). exact (K _ _ _ _ G eq_refl eq_refl).
  - destruct (G_var cls st s z r Hs Hz Hin Hsp) as (st' & G). exact (K _ _ _ _ G eq_refl eq_refl).
Qed.

Lemma sc_text3_hd q v : is_scalar v = true -> scalar_ok3 q v = true ->
  exists x t, sc_text3 q v = x :: t /\ x <> c_sp /\ x <> c_nl /\ x <> c_bt.
Proof.
  intros Hi Hs.
  assert (Old : forall sv, sval_of v = Some sv -> scalar_ok v = true -> sc_text3 q v = sval_text sv ->
                exists x t, sc_text3 q v = x :: t /\ x <> c_sp /\ x <> c_nl /\ x <> c_bt).
  { intros sv E Hok Et. rewrite Et. exact (sval_text_hd v sv Hok E). }
  destruct v; cbn [is_scalar sval_of] in Hi; try discriminate Hi; try (eapply Old; [reflexivity|exact Hs|reflexivity]).
  cbn [sc_text3 scalar_ok3] in *. destruct (q s) eqn:Eq; cbn [str_text str_lexable] in *.
  - eexists _, _. split; [reflexivity|]. repeat split; discriminate.
  - unfold bare_ok in Hs. apply andb_true_iff in Hs as [Hs _]. apply andb_true_iff in Hs as [Hs _]. apply andb_true_iff in Hs as [Hs _].
    destruct (match_identifier_parts s Hs) as (c & r & -> & Hc & _). apply key_start_range in Hc.
    exists c, r. split; [reflexivity|]. repeat split; chr.
  - unfold var_ok, match_variable in Hs. destruct s as [|c [|m0 m]]; try discriminate Hs. apply andb_true_iff in Hs as [Hc _].
    apply N.eqb_eq in Hc. subst c. eexists _, _. split; [reflexivity|]. repeat split; discriminate.
Qed.

Lemma lex_body3 pre2 post : forall items pre st rest p b,
  items <> [] -> forallb (scalar_ok3 qi) items = true -> forallb is_scalar items = true ->
  ls_in st = body_text pre2 post pre (map (sc_text3 qi) items) ++ rest ->
  ls_brk st = p :: b -> ls_spans st = [] -> ls_pos st <> 0 -> wbb (ls_prev st) = true -> 1 <= ls_col st ->
  exists st', lextoB cls st (body_sh3 qi (gap_sh pre2) (gap_sh post) (gap_sh pre) items) st' /\ ls_in st' = rest /\ ls_brk st' = b /\
              ls_spans st' = [] /\ ls_pos st' <> 0 /\ 1 < ls_col st'.
Proof.
  induction items as [|x xs IH]; [congruence|]. intros pre st rest p b _ Hok Hsc Hin Hb Hsp Hp Hw Hcol.
  cbn [forallb] in Hok, Hsc. apply andb_true_iff in Hok as [Hx Hxs]. apply andb_true_iff in Hsc as [Sx Sxs].
  destruct (sc_text3_hd qi x Sx Hx) as (x0 & t0 & Ex0 & Hx0a & Hx0b & _).
  cbn [map body_text body_sh3] in Hin |- *.
  rewrite <- !app_assoc in Hin.
  (* the gap before the item *)
  pose proof Hin as Hin0. rewrite Ex0 in Hin0. cbn [app] in Hin0.
  destruct (lex_gap cls pre st x0 _ Hin0 Hx0a Hx0b Hsp Hp) as (st1 & L1 & I1 & P1 & W1).
  specialize (W1 (fun _ => Hw)).
  assert (S1 : ls_spans st1 = []) by (rewrite (lexto_spans _ _ _ _ L1); exact Hsp).
  assert (B1 : ls_brk st1 = p :: b) by (rewrite (lexto_brk cls _ _ _ L1); exact Hb).
  change (x0 :: t0 ++ ?z) with ((x0 :: t0) ++ z) in I1. rewrite <- Ex0 in I1.
  destruct xs as [|y ys].
  - (* last item *)
    cbn [map] in I1. rewrite <- app_assoc in I1. cbn [s_rb app] in I1.
    destruct (gap_hd_b post c_rbr rest) as (z & t & Ez & Hz); [right; right; left; reflexivity|].
    rewrite Ez in I1.
    destruct (lex_item3 qi x st1 z t Sx Hx I1 Hz W1 S1 P1) as (st2 & L2 & I2 & _ & P2).
    assert (S2 : ls_spans st2 = []) by (rewrite (lexto_spans _ _ _ _ L2); exact S1).
    assert (B2 : ls_brk st2 = p :: b) by (rewrite (lexto_brk cls _ _ _ L2); exact B1).
    rewrite <- Ez in I2.
    destruct (lex_gap cls post st2 c_rbr rest I2) as (st3 & L3 & I3 & P3 & _); [chr|chr|exact S2|exact P2|].
    assert (S3 : ls_spans st3 = []) by (rewrite (lexto_spans _ _ _ _ L3); exact S2).
    assert (B3 : ls_brk st3 = p :: b) by (rewrite (lexto_brk cls _ _ _ L3); exact B2).
    destruct (G_rbr cls st3 rest p b I3 S3 B3) as (st4 & G4).
    exists st4. split; [|split; [exact (gstep_in cls _ _ _ _ _ _ _ G4)|split; [exact (gstep_brk cls _ _ _ _ _ _ _ G4)|]]].
    + eapply (lextoB_trans cls); [exact (lexto_B cls _ _ _ L1)|]. eapply (lextoB_trans cls); [exact (lexto_B cls _ _ _ L2)|].
      eapply (lextoB_trans cls); [exact (lexto_B cls _ _ _ L3)|]. eapply (lextoB_gstep cls); [exact G4|reflexivity|left; reflexivity].
    + split; [rewrite (gstep_spans cls _ _ _ _ _ _ _ G4); exact S3|]. split; [exact (gstep_pos cls _ _ _ _ _ _ _ G4)|].
      pose proof (gstep_col cls _ _ _ _ _ _ _ G4). pose proof (lexto_col cls _ _ _ L1 Hcol) as C1.
      pose proof (lexto_col cls _ _ _ L2 C1) as C2. pose proof (lexto_col cls _ _ _ L3 C2). lia.
  - (* an item followed by a comma *)
    cbn [map] in I1. cbn [app] in I1.
    destruct (lex_item3 qi x st1 c_comma _ Sx Hx I1) as (st2 & L2 & I2 & _ & P2); [right; left; reflexivity|exact W1|exact S1|exact P1|].
    assert (S2 : ls_spans st2 = []) by (rewrite (lexto_spans _ _ _ _ L2); exact S1).
    assert (B2 : ls_brk st2 = p :: b) by (rewrite (lexto_brk cls _ _ _ L2); exact B1).
    destruct (G_comma cls st2 _ I2 S2) as (st3 & G3).
    assert (S3 : ls_spans st3 = []) by (rewrite (gstep_spans cls _ _ _ _ _ _ _ G3); exact S2).
    assert (B3 : ls_brk st3 = p :: b) by (rewrite (gstep_brk cls _ _ _ _ _ _ _ G3); exact B2).
    assert (W3 : wbb (ls_prev st3) = true) by (rewrite (gstep_prev cls _ _ _ _ _ _ _ G3); apply (wbb_of cls), u_word_false; lia).
    assert (C3 : 1 <= ls_col st3).
    { pose proof (gstep_col cls _ _ _ _ _ _ _ G3). pose proof (lexto_col cls _ _ _ L1 Hcol) as C1. pose proof (lexto_col cls _ _ _ L2 C1). lia. }
    destruct (IH pre2 st3 rest p b ltac:(discriminate) Hxs Sxs (gstep_in cls _ _ _ _ _ _ _ G3) B3 S3 (gstep_pos cls _ _ _ _ _ _ _ G3) W3 C3)
      as (st4 & L4 & I4 & B4 & S4 & P4 & C4).
    exists st4. split; [|repeat split; assumption].
    eapply (lextoB_trans cls); [exact (lexto_B cls _ _ _ L1)|]. eapply (lextoB_trans cls); [exact (lexto_B cls _ _ _ L2)|].
    change ((COMMA, None) :: ?l) with ([(COMMA, @None tvalue)] ++ l).
    eapply (lextoB_trans cls); [|exact L4]. eapply (lextoB_gstep cls); [exact G3|reflexivity|left; reflexivity].
Qed.


Lemma lex_val3 q D v st z r : cval v = true -> val_ok3 q v = true -> ls_in st = val_text3 q D v ++ z :: r -> bterm z ->
  ls_prev st = Some c_colon -> ls_spans st = [] -> ls_pos st <> 0 -> 1 <= ls_col st ->
  exists st', lexto cls st (val_sh3 ml qi q D v) st' /\ ls_in st' = z :: r /\ 1 < ls_col st' /\ ls_pos st' <> 0.
Proof.
  intros Hc Hok Hin Hz Hp Hsp Hpos Hcol.
  assert (Hw : wbb (ls_prev st) = true) by (rewrite Hp; apply (wbb_of cls), u_word_false; chr).
  assert (Hscalar : is_scalar v = true -> scalar_ok3 q v = true -> val_text3 q D v = sc_text3 q v -> val_sh3 ml qi q D v = [vsh3 q v] ->
            exists st', lexto cls st (val_sh3 ml qi q D v) st' /\ ls_in st' = z :: r /\ 1 < ls_col st' /\ ls_pos st' <> 0).
  { intros Hi Hs Et Esh. rewrite Et in Hin. rewrite Esh.
    destruct (lex_item3 q v st z r Hi Hs Hin Hz Hw Hsp Hpos) as (st' & L & I & C & P).
    exists st'. split; [exact L|]. split; [exact I|]. split; [lia|exact P]. }
  destruct v; cbn [cval is_scalar sval_of] in Hc; try discriminate Hc; try (apply Hscalar; reflexivity || exact Hok).
  - clear Hscalar. cbn [val_ok3] in Hok. destruct items as [|x xs].
    + (* [] *)
      cbn [val_text3 val_sh3] in *. unfold s_empty_list in Hin. cbn [app] in Hin.
      destruct (G_lbr cls st _ Hin Hsp) as (st1 & p & G1).
      assert (S1 : ls_spans st1 = []) by (rewrite (gstep_spans cls _ _ _ _ _ _ _ G1); exact Hsp).
      destruct (G_rbr cls st1 _ p (ls_brk st) (gstep_in cls _ _ _ _ _ _ _ G1) S1 (gstep_brk cls _ _ _ _ _ _ _ G1)) as (st2 & G2).
      exists st2. split; [|split; [exact (gstep_in cls _ _ _ _ _ _ _ G2)|split; [|exact (gstep_pos cls _ _ _ _ _ _ _ G2)]]].
      * apply (lextoB_lexto cls); [|exact (gstep_brk cls _ _ _ _ _ _ _ G2)].
        change [(LIST_START, None); (LIST_END, None)] with ([(LIST_START, @None tvalue)] ++ [(LIST_END, @None tvalue)]).
        eapply (lextoB_trans cls); eapply (lextoB_gstep cls); try eassumption; try reflexivity; left; reflexivity.
      * pose proof (gstep_col cls _ _ _ _ _ _ _ G1). pose proof (gstep_col cls _ _ _ _ _ _ _ G2). lia.
    + (* non-empty *)
      set (items := x :: xs) in *.
      assert (Hbody : forall g2 gp g1,
                ls_in st = c_lbr :: body_text g2 gp g1 (map (sc_text3 qi) items) ++ z :: r ->
                exists st', lexto cls st ((LIST_START, None) :: body_sh3 qi (gap_sh g2) (gap_sh gp) (gap_sh g1) items) st' /\
                            ls_in st' = z :: r /\ 1 < ls_col st' /\ ls_pos st' <> 0).
      { intros g2 gp g1 Hin'.
        destruct (G_lbr cls st _ Hin' Hsp) as (st1 & p & G1).
        assert (S1 : ls_spans st1 = []) by (rewrite (gstep_spans cls _ _ _ _ _ _ _ G1); exact Hsp).
        assert (W1 : wbb (ls_prev st1) = true) by (rewrite (gstep_prev cls _ _ _ _ _ _ _ G1); apply (wbb_of cls), u_word_false; lia).
        assert (C1 : 1 <= ls_col st1) by (pose proof (gstep_col cls _ _ _ _ _ _ _ G1); lia).
        destruct (lex_body3 g2 gp items g1 st1 (z :: r) p (ls_brk st)) as (st2 & L2 & I2 & B2 & S2 & P2 & C2);
          [discriminate|exact Hok|exact Hc|exact (gstep_in cls _ _ _ _ _ _ _ G1)|exact (gstep_brk cls _ _ _ _ _ _ _ G1)|exact S1
          |exact (gstep_pos cls _ _ _ _ _ _ _ G1)|exact W1|exact C1|].
        exists st2. split; [|split; [exact I2|split; [exact C2|exact P2]]].
        apply (lextoB_lexto cls); [|exact B2].
        change ((LIST_START, None) :: ?l) with ([(LIST_START, @None tvalue)] ++ l).
        eapply (lextoB_trans cls); [|exact L2]. eapply (lextoB_gstep cls); [exact G1|reflexivity|left; reflexivity]. }
      cbn [val_text3 val_sh3] in Hin |- *. fold items in Hin |- *.
      destruct (ml items); cbn [app] in Hin.
      * exact (Hbody (GNl (S D)) (GNl D) (GNl (S D)) Hin).
      * exact (Hbody GNone GNone GNone Hin).
Qed.


Lemma lex_kv_line3 q D k v t st rest :
  key_ok k = true -> cval v = true -> val_ok3 q v = true -> opt_ne t = true -> trail_ok t = true ->
  ls_in st = (ind D ++ k ++ s_assign ++ val_text3 q D v ++ emit_trailing t) ++ c_nl :: rest -> ready st ->
  exists st', lexto cls st (indent_sh D ++ [(IDENTIFIER, Some (TVText k)); (ASSIGN, None)] ++ val_sh3 ml qi q D v ++ trail_sh t ++ [(NEWLINE, None)]) st' /\
              ls_in st' = rest /\ ready st'.
Proof.
  intros Hk Hc Hv Hne Ht Hin Hr. rewrite <- !app_assoc in Hin.
  change (s_assign ++ ?x) with (c_colon :: c_colon :: x) in Hin.
  destruct (lex_indent_key cls D k _ st Hk Hin Hr) as (st2 & L2 & I2 & S2).
  destruct (T_assign cls st2 _ I2 S2) as (st3 & T3).
  assert (L3 : lexto cls st2 [(ASSIGN, None)] st3) by (eapply lexto_tstep; [exact T3|reflexivity|left; reflexivity]).
  assert (S3 : ls_spans st3 = []) by (rewrite (tstep_spans _ _ _ _ _ _ _ T3); exact S2).
  assert (C3 : 1 <= ls_col st3) by (apply (lexto_col cls _ _ _ L3), (lexto_col cls _ _ _ L2), ready_col; exact Hr).
  destruct (trail_hd_b t rest) as (z & u & Ez & Hz).
  pose proof (tstep_in _ _ _ _ _ _ _ T3) as I3. rewrite Ez in I3.
  destruct (lex_val3 q D v st3 z u Hc Hv I3 Hz (tstep_prev _ _ _ _ _ _ _ T3) S3 (tstep_pos _ _ _ _ _ _ _ T3) C3) as (st4 & L4 & I4 & C4 & P4).
  assert (S4 : ls_spans st4 = []) by (rewrite (lexto_spans _ _ _ _ L4); exact S3).
  rewrite <- Ez in I4.
  destruct (lex_trail cls t st4 rest Hne Ht I4 C4 S4 P4) as (st5 & L5 & I5).
  assert (S5 : ls_spans st5 = []) by (rewrite (lexto_spans _ _ _ _ L5); exact S4).
  destruct (lex_newline cls st5 rest I5 S5) as (st6 & L6 & I6 & R6).
  exists st6. split; [|split; assumption].
  change ([(IDENTIFIER, Some (TVText k)); (ASSIGN, None)] ++ ?l) with ([(IDENTIFIER, Some (TVText k))] ++ [(ASSIGN, @None tvalue)] ++ l).
  rewrite app_assoc. eapply lexto_trans; [exact L2|]. eapply lexto_trans; [exact L3|].
  eapply lexto_trans; [exact L4|]. eapply lexto_trans; [exact L5|exact L6].
Qed.


(* ---- nodes, at every depth ------------------------------------------------------------------------------------------------------------------ *)
Definition L3_node (n : node) : Prop :=
  core2_node n = true -> lex_safe3_node n = true ->
  forall D st rest, ls_in st = unlines (emit_node_lines n D) ++ rest -> ready st ->
    exists st', lexto cls st (node_sh3 ml idnum_digits qa qi D n) st' /\ ls_in st' = rest /\ ready st'.

Lemma lex_nodes3 ch : Forall L3_node ch -> forallb core2_node ch = true -> forallb lex_safe3_node ch = true ->
  forall D st rest, ls_in st = unlines (flat_map (fun c => emit_node_lines c D) ch) ++ rest -> ready st ->
    exists st', lexto cls st (nodes_sh3 ml idnum_digits qa qi D ch) st' /\ ls_in st' = rest /\ ready st'.
Proof.
  induction ch as [|c cs IH]; intros HP Hc Hs D st rest Hin Hr.
  - exists st. split; [apply lexto_refl|split; [exact Hin|exact Hr]].
  - inversion HP as [|? ? HPc HPcs]; subst.
    cbn [forallb] in Hc, Hs. apply andb_true_iff in Hc as [Hc1 Hc2]. apply andb_true_iff in Hs as [Hs1 Hs2].
    cbn [flat_map] in Hin. rewrite unlines_app, <- app_assoc in Hin.
    destruct (HPc Hc1 Hs1 D st _ Hin Hr) as (st1 & L1 & I1 & R1).
    destruct (IH HPcs Hc2 Hs2 D st1 rest I1 R1) as (st2 & L2 & I2 & R2).
    exists st2. split; [|split; assumption]. cbn [nodes_sh3 flat_map]. eapply lexto_trans; [exact L1|exact L2].
Qed.

Theorem all_L3_node : forall n, L3_node n.
Proof.
  apply node_ind2; unfold L3_node.
  - (* assignment *)
    intros k v l t Hc Hs D st rest Hin Hr. cbn [core2_node] in Hc. apply andb_true_iff in Hc as [Hcv Hne].
    cbn [lex_safe3_node] in Hs. apply andb_true_iff in Hs as [Hs Ht]. apply andb_true_iff in Hs as [Hs Hl]. apply andb_true_iff in Hs as [Hk Hv].
    destruct (assign_val_text3 k v D Hcv Hv) as (Etext & Hvok).
    rewrite (emit_assign_line2 k v l t D Hcv), Etext, unlines_app, <- app_assoc in Hin.
    destruct (lex_lead cls D l st _ Hl Hin Hr) as (st1 & L1 & I1 & R1).
    cbn [unlines flat_map] in I1. rewrite app_nil_r, <- app_assoc in I1. cbn [app] in I1.
    destruct (lex_kv_line3 (qa k) D k v t st1 rest Hk Hcv Hvok Hne Ht I1 R1) as (st2 & L2 & I2 & R2).
    exists st2. split; [|split; assumption]. unfold node_sh3. cbn [lead_of main_sh3].
    eapply lexto_trans; [exact L1|exact L2].
  - (* block *)
    intros k tg ch l IH Hc Hs D st rest Hin Hr. cbn [core2_node] in Hc. destruct tg; [discriminate|].
    apply andb_true_iff in Hc as [_ Hcc]. cbn [lex_safe3_node] in Hs. apply andb_true_iff in Hs as [Hs Hss]. apply andb_true_iff in Hs as [Hk Hl].
    rewrite (emit_block_lines2 k ch l D Hcc), !unlines_app, <- !app_assoc in Hin.
    destruct (lex_lead cls D l st _ Hl Hin Hr) as (st1 & L1 & I1 & R1).
    cbn [unlines flat_map] in I1. rewrite app_nil_r, <- app_assoc in I1. cbn [app] in I1.
    destruct (lex_block_header cls D k st1 _ Hk I1 R1) as (st2 & L2 & I2 & R2).
    destruct (lex_nodes3 ch IH Hcc Hss (S D) st2 rest I2 R2) as (st3 & L3 & I3 & R3).
    exists st3. split; [|split; assumption]. unfold node_sh3. cbn [lead_of]. rewrite main_sh3_block.
    eapply lexto_trans; [exact L1|]. rewrite app_assoc. eapply lexto_trans; [exact L2|exact L3].
  - (* section *)
    intros i k a ch l IH Hc Hs D st rest Hin Hr. cbn [core2_node] in Hc. apply andb_true_iff in Hc as [Hne Hc]. apply andb_true_iff in Hc as [_ Hcc].
    cbn [lex_safe3_node] in Hs. apply andb_true_iff in Hs as [Hs Hss]. apply andb_true_iff in Hs as [Hs Hl].
    apply andb_true_iff in Hs as [Hs Ha]. apply andb_true_iff in Hs as [Hi Hk].
    rewrite (emit_section_lines2 i k a ch l D), !unlines_app, <- !app_assoc in Hin.
    destruct (lex_lead cls D l st _ Hl Hin Hr) as (st1 & L1 & I1 & R1).
    cbn [unlines flat_map] in I1. rewrite app_nil_r, <- app_assoc in I1. cbn [app] in I1.
    destruct (lex_section_header cls D i k a st1 _ Hi Hk Ha Hne I1 R1) as (st2 & L2 & I2 & R2).
    destruct (lex_nodes3 ch IH Hcc Hss (S D) st2 rest I2 R2) as (st3 & L3 & I3 & R3).
    exists st3. split; [|split; assumption]. unfold node_sh3. cbn [lead_of]. rewrite main_sh3_section.
    eapply lexto_trans; [exact L1|]. rewrite !app_assoc. eapply lexto_trans; [|exact L3].
    rewrite <- !app_assoc. exact L2.
  - intros t Hc; discriminate Hc.
Qed.


End Link3.

(* ---- the pre-passes on the emitted text ------------------------------------------------------------------------------------------ *)
Lemma plain_bare s : bare_ok s = true -> plain s = true.
Proof.
  unfold bare_ok. intros H. apply andb_true_iff in H as [H _]. apply andb_true_iff in H as [H _]. apply andb_true_iff in H as [H _].
  destruct (match_identifier_parts s H) as (c & r & -> & Hc & Hr & _). rewrite plain_cons.
  apply key_start_range in Hc. rewrite (neqb c_nl c), (neqb c_tab c) by chr. cbn [negb andb].
  eapply plain_forallb; [|exact Hr]. intros x Hx. apply idp_char_range in Hx. split; chr.
Qed.
Lemma plain_var s : var_ok s = true -> plain s = true.
Proof.
  unfold var_ok, match_variable. destruct s as [|c [|m0 m]]; try discriminate. intros H. apply andb_true_iff in H as [Hc Hm].
  apply N.eqb_eq in Hc. subst c. rewrite plain_cons. cbn [negb andb].
  change (N.eqb c_nl c_dollar) with false. change (N.eqb c_tab c_dollar) with false. cbn [negb andb].
  eapply plain_forallb; [|exact Hm]. intros x Hx. change varp_char with var_char in Hx. apply (var_char_range (fun _ => 0)) in Hx. split; chr.
Qed.
Lemma plain_sc3 q v : scalar_ok3 q v = true -> plain (sc_text3 q v) = true.
Proof.
  destruct v; cbn [scalar_ok3 sc_text3]; try apply plain_sc.
  destruct (q s); cbn [str_lexable str_text]; intros H; [apply plain_quote|apply plain_bare; exact H|apply plain_var; exact H].
Qed.

Lemma itxt_of3 q v : scalar_ok3 q v = true -> is_scalar v = true -> itxt_ok (sc_text3 q v) = true.
Proof.
  intros Hs Hi. unfold itxt_ok. rewrite (plain_sc3 _ _ Hs). cbn [andb].
  destruct (sc_text3_hd q v Hi Hs) as (x & t & Ex & H1 & _ & H3). rewrite Ex.
  rewrite (neqb _ _ H1), (neqb _ _ H3). reflexivity.
Qed.
Lemma itxts_of3 items : forallb (scalar_ok3 qi) items = true -> forallb is_scalar items = true -> forallb itxt_ok (map (sc_text3 qi) items) = true.
Proof.
  induction items as [|x r IH]; [reflexivity|]. cbn [forallb map]. intros H1 H2.
  apply andb_true_iff in H1 as [A1 A2]. apply andb_true_iff in H2 as [B1 B2]. rewrite (itxt_of3 _ _ A1 B1), (IH A2 B2). reflexivity.
Qed.

(* a line  PFX value SFX  where PFX starts the physical line and SFX ends it *)
Lemma tok_val_line3 q D v pfx sfx : cval v = true -> val_ok3 q v = true ->
  (forall t, plain t = true -> line_ok (pfx ++ t) = true) -> plain sfx = true ->
  tok_text (pfx ++ val_text3 q D v ++ sfx) = true.
Proof.
  intros Hc Hok Hp Hs.
  assert (Hone : forall t, plain t = true -> tok_text (pfx ++ t ++ sfx) = true).
  { intros t Ht. apply line_tok, Hp. rewrite plain_app, Ht, Hs. reflexivity. }
  destruct v; cbn [cval is_scalar sval_of] in Hc; try discriminate Hc; try (apply Hone; apply (plain_sc3 q); exact Hok).
  cbn [val_ok3] in Hok. destruct items as [|x xs]; [apply Hone; reflexivity|].
  pose proof (itxts_of3 _ Hok Hc) as Hit. cbn [val_text3]. destruct (ml (x :: xs)).
  - change (pfx ++ (c_lbr :: ?b) ++ sfx) with (pfx ++ [c_lbr] ++ b ++ sfx). rewrite app_assoc.
    apply tt_body; [discriminate|exact Hit|apply Hp; reflexivity|].
    unfold line_ok. rewrite !plain_app, plain_ind, Hs. cbn [andb]. unfold s_rb. cbn [app]. apply fence_free_ind; chr.
  - apply Hone. rewrite plain_cons, (plain_inline _ Hit). reflexivity.
Qed.


Lemma node_text_ok3 : forall n, core2_node n = true -> lex_safe3_node n = true -> forall D, tok_text (unlines (emit_node_lines n D)) = true.
Proof.
  apply (node_ind2 (fun n => core2_node n = true -> lex_safe3_node n = true -> forall D, tok_text (unlines (emit_node_lines n D)) = true)).
  - intros k v l t Hc Hs D. cbn [core2_node] in Hc. apply andb_true_iff in Hc as [Hcv Hne].
    cbn [lex_safe3_node] in Hs. apply andb_true_iff in Hs as [Hs Ht]. apply andb_true_iff in Hs as [Hs Hl]. apply andb_true_iff in Hs as [Hk Hv].
    destruct (assign_val_text3 k v D Hcv Hv) as (Etext & Hvok).
    rewrite (emit_assign_line2 k v l t D Hcv), Etext, tok_text_unlines_app, (tok_leading D l Hl), tok_unlines1. cbn [andb].
    replace (ind D ++ k ++ s_assign ++ val_text3 (qa k) D v ++ emit_trailing t) with ((ind D ++ k ++ s_assign) ++ val_text3 (qa k) D v ++ emit_trailing t)
      by (rewrite <- !app_assoc; reflexivity).
    apply tok_val_line3; [exact Hcv|exact Hvok|apply key_pfx; [exact Hk|reflexivity]|apply plain_trailing; exact Ht].
  - intros k tg ch l IH Hc Hs D. cbn [core2_node] in Hc. destruct tg; [discriminate|].
    apply andb_true_iff in Hc as [_ Hcc]. cbn [lex_safe3_node] in Hs. apply andb_true_iff in Hs as [Hs Hss]. apply andb_true_iff in Hs as [Hk Hl].
    rewrite (emit_block_lines2 k ch l D Hcc), !tok_text_unlines_app, (tok_leading D l Hl), tok_unlines1. cbn [andb].
    rewrite (line_tok _ (line_ok_key D k ([] ++ [c_colon]) Hk eq_refl)). cbn [andb].
    induction ch as [|c cs IHc]; [reflexivity|]. inversion IH as [|? ? Pc Pcs]; subst.
    cbn [forallb] in Hcc, Hss. apply andb_true_iff in Hcc as [Hc1 Hc2]. apply andb_true_iff in Hss as [Hs1 Hs2].
    cbn [flat_map]. rewrite tok_text_unlines_app, (Pc Hc1 Hs1 (S D)), (IHc Pcs Hc2 Hs2). reflexivity.
  - intros i k a ch l IH Hc Hs D. cbn [core2_node] in Hc. apply andb_true_iff in Hc as [Hne Hc]. apply andb_true_iff in Hc as [_ Hcc].
    cbn [lex_safe3_node] in Hs. apply andb_true_iff in Hs as [Hs Hss]. apply andb_true_iff in Hs as [Hs Hl].
    apply andb_true_iff in Hs as [Hs Ha]. apply andb_true_iff in Hs as [Hi Hk].
    rewrite (emit_section_lines2 i k a ch l D), !tok_text_unlines_app, (tok_leading D l Hl), tok_unlines1. cbn [andb].
    assert (Hline : line_ok (ind D ++ [167] ++ i ++ s_assign ++ k ++ annot_text a) = true).
    { unfold line_ok. rewrite !plain_app, plain_ind, (plain_sid _ Hi), (plain_keyok _ Hk). cbn [andb].
      assert (Pa : plain (annot_text a) = true).
      { destruct a as [[|x a']|]; try reflexivity. cbn [annot_ok annot_text] in *. rewrite !plain_app, (plain_keyok _ Ha). reflexivity. }
      rewrite Pa. cbn [andb app]. apply fence_free_ind; chr. }
    rewrite (line_tok _ Hline). cbn [andb].
    induction ch as [|c cs IHc]; [reflexivity|]. inversion IH as [|? ? Pc Pcs]; subst.
    cbn [forallb] in Hcc, Hss. apply andb_true_iff in Hcc as [Hc1 Hc2]. apply andb_true_iff in Hss as [Hs1 Hs2].
    cbn [flat_map]. rewrite tok_text_unlines_app, (Pc Hc1 Hs1 (S D)), (IHc Pcs Hc2 Hs2). reflexivity.
  - intros t Hc; discriminate Hc.
Qed.


Lemma emit_lines_core3 sp d : core3_doc d = true -> lex_safe3_doc d = true ->
  emit_lines sp d = grammar_lines d ++ [s_env ++ dname d ++ s_env] ++ meta_lines (dmeta d) ++ (if dsep d then [s_sep] else []) ++
                    flat_map (fun n => emit_node_lines n 0) (dsections d) ++ emit_leading (dtrailing d) 0 ++ [s_end].
Proof.
  destruct d as [name gr fr sep meta secs trl]. unfold core3_doc, core2_doc, lex_safe3_doc, emit_lines, grammar_lines.
  cbn [dfront dmeta dtrailing dsections dgrammar dname dsep].
  destruct fr; [discriminate|]. intros Hc Hs.
  apply andb_true_iff in Hc as [Hc _]. apply andb_true_iff in Hc as [Hc _]. apply andb_true_iff in Hc as [Hc Hm]. apply andb_true_iff in Hc as [Hc _].
  apply andb_true_iff in Hs as [Hs _]. apply andb_true_iff in Hs as [Hs _]. apply andb_true_iff in Hs as [Hs _]. apply andb_true_iff in Hs as [_ Hg].
  rewrite (core2_sections_lines _ Hc). cbn [app].
  assert (Eg : match truthy gr with Some g => [s_octave ++ g] | None => [] end = match gr with Some g => [s_octave ++ g] | None => [] end).
  { destruct gr as [g|]; [|reflexivity]. destruct (ver_ok_nonempty _ Hg) as (x & r & ->). reflexivity. }
  rewrite Eg. destruct meta as [|kv m]; [reflexivity|].
  cbv zeta. rewrite (emit_meta_lines_core _ Hm). reflexivity.
Qed.


Lemma meta_field_parts3 kv : meta_field_ok kv = true -> meta_ok3 kv = true ->
  exists v, snd kv = MV v /\ cval v = true /\ key_ok (fst kv) = true /\ meta_line kv = ind 1 ++ fst kv ++ s_assign ++ val_text3 qi 1 v ++ emit_trailing None /\
            val_ok3 qi v = true.
Proof.
  unfold meta_field_ok, meta_ok3, meta_line. destruct (snd kv) as [v|]; [|discriminate]. intros Hc H. apply andb_true_iff in H as [Hk Hv].
  destruct (meta_val_text3 v 1 Hc Hv) as (E & Hok). exists v. split; [reflexivity|]. split; [exact Hc|]. split; [exact Hk|].
  split; [rewrite E; cbn [emit_trailing]; rewrite app_nil_r; reflexivity|exact Hok].
Qed.


Lemma emit_text_ok3 sp d : core3_doc d = true -> lex_safe3_doc d = true -> tok_text (emit sp d) = true.
Proof.
  intros Hc Hs. rewrite emit_unlines, (emit_lines_core3 sp d Hc Hs).
  destruct d as [name gr fr sep meta secs trl]. unfold core3_doc, core2_doc, lex_safe3_doc, grammar_lines in *.
  cbn [dfront dmeta dtrailing dsections dgrammar dname dsep] in *.
  destruct fr; [discriminate|].
  apply andb_true_iff in Hc as [Hc _]. apply andb_true_iff in Hc as [Hc _]. apply andb_true_iff in Hc as [Hc Hmf]. apply andb_true_iff in Hc as [Hc _].
  apply andb_true_iff in Hs as [Hs Htr]. apply andb_true_iff in Hs as [Hs Hm]. apply andb_true_iff in Hs as [Hs Hn]. apply andb_true_iff in Hs as [Hname Hg].
  assert (A1 : tok_text (unlines (match gr with Some g => [s_octave ++ g] | None => [] end)) = true).
  { destruct gr as [g|]; [|reflexivity]. rewrite tok_unlines1. apply line_tok. unfold line_ok. rewrite plain_app, (plain_ver _ Hg). reflexivity. }
  assert (A2 : tok_text (s_env ++ name ++ s_env) = true).
  { apply line_tok. unfold line_ok. unfold name_ok in Hname. apply andb_true_iff in Hname as [Hw _].
    rewrite !plain_app, (plain_key _ (word_ok_chars _ Hw)). reflexivity. }
  assert (A3 : tok_text (unlines (meta_lines meta)) = true).
  { unfold meta_lines. destruct meta as [|kv0 m0]; [reflexivity|]. set (m := kv0 :: m0) in *. clearbody m.
    rewrite tok_text_unlines_cons. change (tok_text s_meta_hdr) with true. cbn [andb].
    induction m as [|kv m IH]; [reflexivity|]. cbn [forallb map] in *.
    apply andb_true_iff in Hmf as [F1 F2]. apply andb_true_iff in Hm as [M1 M2].
    rewrite tok_text_unlines_cons, (IH F2 M2), andb_true_r.
    destruct (meta_field_parts3 kv F1 M1) as (v & _ & Hcv & Hk & -> & Hok).
    replace (ind 1 ++ fst kv ++ s_assign ++ val_text3 qi 1 v ++ emit_trailing None) with ((ind 1 ++ fst kv ++ s_assign) ++ val_text3 qi 1 v ++ [])
      by (rewrite <- !app_assoc; reflexivity).
    apply tok_val_line3; [exact Hcv|exact Hok|apply key_pfx; [exact Hk|reflexivity]|reflexivity]. }
  assert (A4 : tok_text (unlines (if sep then [s_sep] else [])) = true) by (destruct sep; reflexivity).
  assert (A5 : tok_text (unlines (flat_map (fun n => emit_node_lines n 0) secs)) = true).
  { clear -Hc Hn. induction secs as [|c cs IH]; [reflexivity|]. cbn [forallb] in Hc, Hn.
    apply andb_true_iff in Hc as [Hc1 Hc2]. apply andb_true_iff in Hn as [Hn1 Hn2].
    cbn [flat_map]. rewrite tok_text_unlines_app, (node_text_ok3 c Hc1 Hn1 0%nat), (IH Hc2 Hn2). reflexivity. }
  rewrite !tok_text_unlines_app, A1, A3, A4, A5, (tok_leading 0 trl Htr), !tok_unlines1, A2. reflexivity.
Qed.


Section Doc3.
Variable cls : N -> N.

Lemma all_L3_nodes ns : Forall (L3_node cls) ns.
Proof. apply Forall_forall. intros n _. apply all_L3_node. Qed.

Lemma key_ok_META : key_ok [77;69;84;65] = true.
Proof. vm_compute. reflexivity. Qed.

Lemma lex_meta_fields3 m : forall st rest, forallb meta_field_ok m = true -> forallb meta_ok3 m = true ->
  ls_in st = unlines (map meta_line m) ++ rest -> ready st ->
  exists st', lexto cls st (flat_map (fun kv => indent_sh 1 ++ [(IDENTIFIER, Some (TVText (fst kv))); (ASSIGN, None)] ++
                                      (match snd kv with MV v => val_sh3 ml qi qi 1 v | MD _ => [] end) ++ [(NEWLINE, None)]) m) st' /\
              ls_in st' = rest /\ ready st'.
Proof.
  induction m as [|kv m IH]; intros st rest Hf Hm Hin Hr.
  - exists st. split; [apply lexto_refl|split; [exact Hin|exact Hr]].
  - cbn [forallb map] in *. apply andb_true_iff in Hf as [F1 F2]. apply andb_true_iff in Hm as [M1 M2].
    destruct (meta_field_parts3 kv F1 M1) as (v & Ev & Hcv & Hk & El & Hok).
    rewrite unlines_cons, El, <- app_assoc in Hin. cbn [app] in Hin.
    destruct (lex_kv_line3 cls qi 1 (fst kv) v None st _ Hk Hcv Hok eq_refl eq_refl Hin Hr) as (st1 & L1 & I1 & R1).
    destruct (IH st1 rest F2 M2 I1 R1) as (st2 & L2 & I2 & R2).
    exists st2. split; [|split; assumption]. cbn [flat_map]. rewrite Ev. eapply lexto_trans; [exact L1|exact L2].
Qed.

Lemma lex_doc3 sp d : core3_doc d = true -> lex_safe3_doc d = true ->
  forall st, ls_in st = emit sp d -> ls_pos st = 0 -> ls_spans st = [] ->
  exists st', lexto cls st (doc3_sh ml idnum_digits qa qi d ++ [(NEWLINE, None)]) st' /\ ls_in st' = [].
Proof.
  intros Hc Hs st Hin Hp Hsp. rewrite emit_unlines, (emit_lines_core3 sp d Hc Hs) in Hin.
  destruct d as [name gr fr sep meta secs trl]. unfold core3_doc, core2_doc, lex_safe3_doc, grammar_lines, doc3_sh in *.
  cbn [dfront dmeta dtrailing dsections dgrammar dname dsep] in *.
  destruct fr; [discriminate|].
  apply andb_true_iff in Hc as [Hc _]. apply andb_true_iff in Hc as [Hc _]. apply andb_true_iff in Hc as [Hc Hmf]. apply andb_true_iff in Hc as [Hc _].
  apply andb_true_iff in Hs as [Hs Htr]. apply andb_true_iff in Hs as [Hs Hm]. apply andb_true_iff in Hs as [Hs Hn]. apply andb_true_iff in Hs as [Hname Hg].
  rewrite !unlines_app, <- ?app_assoc in Hin.
  set (TAIL := unlines (meta_lines meta) ++ unlines (if sep then [s_sep] else []) ++
               unlines (flat_map (fun n => emit_node_lines n 0) secs) ++ unlines (emit_leading trl 0) ++ unlines [s_end]) in *.
  (* grammar line *)
  assert (HA : exists st1, lexto cls st (match gr with Some g => [(GRAMMAR_SENTINEL, Some (TVText g)); (NEWLINE, None)] | None => [] end) st1 /\
                           ls_in st1 = s_env ++ name ++ s_env ++ c_nl :: TAIL /\ ls_spans st1 = []).
  { destruct gr as [g|].
    - cbn [unlines flat_map] in Hin. rewrite ?app_nil_r, <- ?app_assoc in Hin. cbn [app] in Hin.
      destruct (T_sentinel cls st g _ Hg Hin Hp Hsp) as (st0 & T0).
      assert (S0 : ls_spans st0 = []) by (rewrite (tstep_spans _ _ _ _ _ _ _ T0); exact Hsp).
      destruct (lex_newline cls st0 _ (tstep_in _ _ _ _ _ _ _ T0) S0) as (st1 & L1 & I1 & (_ & _ & S1)).
      exists st1. split; [|split; [exact I1|exact S1]].
      change [(GRAMMAR_SENTINEL, Some (TVText g)); (NEWLINE, None)] with ([(GRAMMAR_SENTINEL, Some (TVText g))] ++ [(NEWLINE, None)]).
      eapply lexto_trans; [|exact L1]. eapply lexto_tstep; [exact T0|reflexivity|right; reflexivity].
    - cbn [unlines flat_map app] in Hin. rewrite ?app_nil_r, <- ?app_assoc in Hin. cbn [app] in Hin.
      exists st. split; [apply lexto_refl|split; [exact Hin|exact Hsp]]. }
  destruct HA as (st1 & L1 & I1 & S1). clear Hin Hp Hsp.
  (* envelope start *)
  destruct (T_env_start cls st1 name _ Hname I1 S1) as (st2 & T2).
  assert (S2 : ls_spans st2 = []) by (rewrite (tstep_spans _ _ _ _ _ _ _ T2); exact S1).
  destruct (lex_newline cls st2 _ (tstep_in _ _ _ _ _ _ _ T2) S2) as (st3 & L3 & I3 & R3).
  subst TAIL.
  (* META *)
  assert (HM : exists st4, lexto cls st3 (meta_sh3 ml qi meta) st4 /\
                           ls_in st4 = unlines (if sep then [s_sep] else []) ++ unlines (flat_map (fun n => emit_node_lines n 0) secs) ++
                                       unlines (emit_leading trl 0) ++ unlines [s_end] /\ ready st4).
  { destruct meta as [|kv0 m0]; [exists st3; split; [apply lexto_refl|split; [exact I3|exact R3]]|].
    set (m := kv0 :: m0) in *. unfold meta_lines in I3. cbn [meta_sh3]. fold m.
    change (match m with [] => [] | _ :: _ => s_meta_hdr :: map meta_line m end) with (s_meta_hdr :: map meta_line m) in I3.
    rewrite unlines_cons, <- app_assoc in I3. cbn [app] in I3.
    destruct (lex_block_header cls 0 [77;69;84;65] st3 _ key_ok_META I3 R3) as (st4 & L4 & I4 & R4).
    destruct (lex_meta_fields3 m st4 _ Hmf Hm I4 R4) as (st5 & L5 & I5 & R5).
    exists st5. split; [|split; assumption]. eapply lexto_trans; [exact L4|exact L5]. }
  destruct HM as (st4 & L4 & I4 & R4).
  (* separator *)
  assert (HB : exists st5, lexto cls st4 (if sep then [(SEPARATOR, None); (NEWLINE, None)] else []) st5 /\
                           ls_in st5 = unlines (flat_map (fun n => emit_node_lines n 0) secs) ++ unlines (emit_leading trl 0) ++ unlines [s_end] /\
                           ready st5).
  { destruct sep.
    - cbn [unlines flat_map app] in I4. rewrite <- ?app_assoc in I4. cbn [app] in I4.
      pose proof R4 as (_ & _ & S4).
      destruct (T_sep cls st4 _ I4 S4) as (st' & T').
      assert (S' : ls_spans st' = []) by (rewrite (tstep_spans _ _ _ _ _ _ _ T'); exact S4).
      destruct (lex_newline cls st' _ (tstep_in _ _ _ _ _ _ _ T') S') as (st5 & L5 & I5 & R5).
      exists st5. split; [|split; [exact I5|exact R5]].
      change [(SEPARATOR, None); (NEWLINE, None)] with ([(SEPARATOR, @None tvalue)] ++ [(NEWLINE, None)]).
      eapply lexto_trans; [|exact L5]. eapply lexto_tstep; [exact T'|reflexivity|left; reflexivity].
    - exists st4. split; [apply lexto_refl|split; [exact I4|exact R4]]. }
  destruct HB as (st5 & L5 & I5 & R5).
  (* sections, trailing comments *)
  destruct (lex_nodes3 cls secs (all_L3_nodes secs) Hc Hn 0%nat st5 _ I5 R5) as (st6 & L6 & I6 & R6).
  destruct (lex_lead cls 0 trl st6 _ Htr I6 R6) as (st7 & L7 & I7 & (_ & _ & S7)).
  (* envelope end + final newline *)
  cbn [unlines flat_map] in I7. rewrite app_nil_r in I7.
  destruct (T_env_end cls st7 [] I7 S7) as (st8 & T8).
  assert (S8 : ls_spans st8 = []) by (rewrite (tstep_spans _ _ _ _ _ _ _ T8); exact S7).
  destruct (lex_newline cls st8 [] (tstep_in _ _ _ _ _ _ _ T8) S8) as (st9 & L9 & I9 & _).
  exists st9. split; [|exact I9].
  rewrite <- !app_assoc.
  eapply lexto_trans; [exact L1|].
  change ([(ENVELOPE_START, Some (TVText name)); (NEWLINE, None)] ++ ?x)
    with ([(ENVELOPE_START, Some (TVText name))] ++ [(NEWLINE, @None tvalue)] ++ x).
  eapply lexto_trans; [eapply lexto_tstep; [exact T2|reflexivity|right; reflexivity]|].
  eapply lexto_trans; [exact L3|]. eapply lexto_trans; [exact L4|]. eapply lexto_trans; [exact L5|].
  eapply lexto_trans; [exact L6|]. eapply lexto_trans; [exact L7|].
  eapply lexto_trans; [|exact L9]. eapply lexto_tstep; [exact T8|reflexivity|left; reflexivity].
Qed.

(* (1) THE LEXER HALF for core2 documents *)
Theorem lex_emit_core3 sp d : core3_doc d = true -> lex_safe3_doc d = true ->
  exists ts tnl teof,
    tokenize cls false (lines_of (emit sp d)) = LexOk (ts ++ [tnl; teof]) [] /\
    Forall2 tmatch ts (doc3_sh ml idnum_digits qa qi d) /\ tk tnl = NEWLINE /\ tk teof = EOF.
Proof.
  intros Hc Hs.
  assert (Hfr : dfront d = None).
  { revert Hc. unfold core3_doc, core2_doc. destruct (dfront d); [discriminate|reflexivity]. }
  rewrite (tokenize_tok_text cls false _ (emit_text_ok3 sp d Hc Hs) (emit_nonblank_head sp d Hfr)).
  set (st0 := mkLS (emit sp d) None 0 1 1 [] [] [] []).
  destruct (lex_doc3 sp d Hc Hs st0 eq_refl eq_refl eq_refl) as (st' & (Hst & (tsall & Ht & HF) & Hr & Hb & _) & Hin).
  rewrite (run_steps_finish cls st0 st' _ Hst Hin) by (cbn [ls_in st0]; lia).
  apply Forall2_app_inv_r in HF. destruct HF as (ts & tl & HF1 & HF2 & ->).
  inversion HF2 as [|tnl ? ? ? [Hnl _] HF3]; subst. inversion HF3; subst. cbn [fst] in Hnl.
  exists ts, tnl, (mkTok EOF TVNone (ls_line st') (ls_col st') None).
  split; [|split; [exact HF1|split; [exact Hnl|reflexivity]]].
  unfold finish. rewrite Hb, Hr, Ht. cbn [ls_brk ls_reps ls_toks st0 rev app].
  rewrite app_nil_r, rev_involutive, <- app_assoc. reflexivity.
Qed.

(* (2) THE TEXT-LEVEL ROUND TRIP for core2 documents *)
Lemma emit_first_line3 sp d : core3_doc d = true -> lex_safe3_doc d = true ->
  exists l0 r, split_on c_nl (emit sp d) = l0 :: r /\ prefixb s_dashes l0 = false.
Proof.
  intros Hc Hs. pose proof Hs as Hs'. rewrite emit_unlines, (emit_lines_core3 sp d Hc Hs). unfold grammar_lines.
  unfold lex_safe3_doc in Hs'. apply andb_true_iff in Hs' as [Hs' _]. apply andb_true_iff in Hs' as [Hs' _]. apply andb_true_iff in Hs' as [Hs' _].
  apply andb_true_iff in Hs' as [Hname Hg].
  destruct (dgrammar d) as [g|].
  - cbn [app]. rewrite unlines_cons, split_on_app.
    + eexists _, _. split; [reflexivity|reflexivity].
    + pose proof (plain_ver _ Hg) as P. unfold plain in P. apply andb_true_iff in P as [P _]. apply negb_true_iff in P.
      rewrite memb_app, P. reflexivity.
  - cbn [app]. rewrite unlines_cons, split_on_app.
    + eexists _, _. split; [reflexivity|reflexivity].
    + unfold name_ok in Hname. apply andb_true_iff in Hname as [Hw _].
      pose proof (plain_key _ (word_ok_chars _ Hw)) as P. unfold plain in P. apply andb_true_iff in P as [P _]. apply negb_true_iff in P.
      rewrite !memb_app, P. reflexivity.
Qed.

Theorem text_roundtrip_core3 numcanon holo_ok strict sp d :
  core3_doc d = true -> lex_safe3_doc d = true ->
  TokRound2.nums_ok2_l numcanon idnum_digits (dsections d) -> Forall (TokRound2.field_num_ok numcanon) (dmeta d) ->
  exists warns,
    parse_model cls numcanon holo_ok strict (lines_of (emit sp d)) = PRDoc d [] warns /\ Forall advisory warns.
Proof.
  intros Hc Hs Hnum Hmnum.
  destruct (lex_emit_core3 sp d Hc Hs) as (ts & tnl & teof & Htok & HF & _ & _).
  destruct (emit_first_line3 sp d Hc Hs) as (l0 & r & El & Hl0).
  unfold parse_model.
  rewrite (strip_frontmatter_none (u_space cls) (emit sp d) l0 r El Hl0).
  rewrite Htok.
  destruct (parse_core3_doc numcanon holo_ok strict (u_space cls) (u_alpha cls) ml idnum_digits qa qi qa_emit_ok qi_emit_ok d Hc Hnum Hmnum
              (mkPS (ts ++ [tnl; teof]) None 0 [] 0 []) ts [tnl; teof]) as (st' & Hp & (l & Hw & Hadv) & _);
    [discriminate|reflexivity|exact HF|reflexivity|].
  rewrite Hp. exists (rev (pwarns st')). split.
  - f_equal. destruct d as [name gr fr sep meta secs trl]. unfold core3_doc, core2_doc in Hc. cbn [dfront] in Hc.
    destruct fr; [discriminate Hc|]. reflexivity.
  - rewrite Hw. cbn [pwarns]. rewrite app_nil_r. apply Forall_rev. exact Hadv.
Qed.

End Doc3.
