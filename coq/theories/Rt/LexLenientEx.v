(* Non-vacuity of Rt/LexLenient.v: the hand-written lenient texts of Rt/TokLenientEx.v ARE prints of the lenient printer; a document
   printed with every extra (trailing spaces, spaces on blank lines, spaces around `::`, after commas, before trailing comments);
   convergence of three spellings; what the lexer accepts beyond the printer; refutations for the side conditions. *)
From OV Require Import Base.Strs Lex.Lexer Syn.Ast Syn.Emitter Syn.Parser Syn.Wf
     Rt.TokRound Rt.TokRoundEx Rt.LexLinkBase Rt.TokRound2 Rt.TokRound2Ex Rt.LexLink2Text Rt.LexLinkEx Rt.TokLenient Rt.TokLenientEx
     Rt.LexLenientBase Rt.LexLenientVal Rt.LexLenient.
Require Coq.Strings.String.
Import Coq.Strings.String.StringSyntax.
Open Scope N_scope.

Definition lex_len_concl (lay : dlay) (sg : dsig) (d : doc) : Prop :=
  exists ts tail,
    tokenize ex_cls false (lines_of (render_len lay sg d)) = LexOk (ts ++ tail) [] /\
    Forall2 tmatch ts (doc2_sh_len ex_idnum lay d) /\
    (if dl_end lay then exists tnl teof, tail = [tnl; teof] /\ tk tnl = NEWLINE /\ tk teof = EOF else tail = []).
Definition rt_len_concl (lay : dlay) (sg : dsig) (d : doc) : Prop :=
  exists warns, parse_model ex_cls ex2_numcanon (fun _ => false) true (lines_of (render_len lay sg d)) = PRDoc d [] warns /\ Forall advisory warns.

(* ---- (d) the two hand-written texts of TokLenientEx.v are prints --------------------------------------------------------------------- *)
Example len_text_is_render : render_len len_lay sig0 len_doc = len_text.
Proof. vm_compute. reflexivity. Qed.
Example len_side : lex_safe2_doc len_doc = true /\ lay_lex len_lay = true /\ text_clean (render_len len_lay sig0 len_doc) = true.
Proof. vm_compute. repeat split. Qed.
Example len_lexes_thm : lex_len_concl len_lay sig0 len_doc.
Proof. destruct len_side as (H1 & H2 & H3). exact (lex_render_len ex_cls len_lay sig0 len_doc (proj1 len_core) H1 H2 H3). Qed.
Example len_rt_thm : rt_len_concl len_lay sig0 len_doc.
Proof.
  destruct len_side as (H1 & H2 & H3).
  exact (text_roundtrip_len ex_cls ex2_numcanon (fun _ => false) true len_lay sig0 len_doc (proj1 len_core) H1 H2 len_layout_ok H3 (proj1 len_nums) (proj2 len_nums)).
Qed.

(* len2_text writes two spaces before the trailing comment after the closing bracket: one extra *)
Definition S0 := SLay [] sl0 sv0 [].
Open Scope nat_scope.
Definition len2_sig : dsig :=
  mkDS [] [] [] sl0 [] [] [ SLay [] sl0 sv0 [ SLay [] sl0 (mkSV 0 0 0 1) [] ] ] [].
Close Scope nat_scope.
Example len2_text_is_render : render_len len2_lay len2_sig len2_doc = len2_text.
Proof. vm_compute. reflexivity. Qed.
Example len2_side : lex_safe2_doc len2_doc = true /\ lay_lex len2_lay = true /\ text_clean (render_len len2_lay len2_sig len2_doc) = true.
Proof. vm_compute. repeat split. Qed.
Example len2_nums : nums_ok2_l ex2_numcanon ex_idnum (dsections len2_doc) /\ Forall (field_num_ok ex2_numcanon) (dmeta len2_doc).
Proof. cbn. repeat split; try (intros _; eexists; reflexivity); try discriminate; repeat constructor. Qed.
Example len2_rt_thm : rt_len_concl len2_lay len2_sig len2_doc.
Proof.
  destruct len2_side as (H1 & H2 & H3).
  exact (text_roundtrip_len ex_cls ex2_numcanon (fun _ => false) true len2_lay len2_sig len2_doc len2_core H1 H2 len2_layout_ok H3 (proj1 len2_nums) (proj2 len2_nums)).
Qed.

(* ---- every extra at once ------------------------------------------------------------------------------------------------------------------ *)
(* the layout of len_doc again, printed with: spaces on the leading / following blank lines, trailing spaces after node, comment, META and
   `META:` lines, spaces before and after `::` (assignments and META fields), after commas, extra spaces before a trailing comment *)
Open Scope nat_scope.
Definition len_sig_all : dsig :=
  mkDS [3] [] [2] (mkSL 2 [1]) [(mkSL 1 [], mkSV 1 0 0 0); (mkSL 0 [4], mkSV 0 2 0 0)] [0]
    [ SLay [mkSL 3 []] (mkSL 2 []) (mkSV 2 1 0 3) [];
      SLay [] (mkSL 4 [2])  sv0
        [ SLay [mkSL 1 []; mkSL 0 []] (mkSL 1 [0]) (mkSV 1 1 2 0) [];
          SLay [] (mkSL 2 []) sv0 [ SLay [] (mkSL 0 [5]) (mkSV 0 3 0 0) []; SLay [] (mkSL 6 []) (mkSV 3 0 0 0) [] ] ];
      SLay [mkSL 2 []] (mkSL 1 [1]) (mkSV 1 1 0 0) [] ]
    [mkSL 2 [3]].
Close Scope nat_scope.
Definition len_text_all : str := render_len len_lay len_sig_all len_doc.
(* the text, spelled out (trailing blanks shown by the closing quote) *)
Example len_text_all_spelled : len_text_all = unl [
  lit "   ";
  lit "===DOC===";
  lit "  ";
  lit "META:  ";
  lit " ";
  lit "   TYPE ::""x y"" ";
  lit "     N::  1";
  lit "    ";
  lit "---";
  [];
  lit "// lead a   ";
  lit " A  :: 1    // tr  ";
  lit "B:    ";
  lit "  ";
  lit "   // lc ";
  lit "// col0 comment in body";
  lit "    C :: [1,  ";
  lit "  // inside";
  lit "";
  lit " 2] ";
  [];
  lit "   " ++ [167] ++ lit "1::SEC  ";
  lit "       E::   true";
  lit "     ";
  lit "          F   ::null      ";
  lit " // one-space comment after the block  ";
  lit "H :: """" ";
  lit " ";
  lit "  // trailing  ";
  lit "   " ].
Proof. vm_compute. reflexivity. Qed.
Example len_all_clean : text_clean len_text_all = true.
Proof. vm_compute. reflexivity. Qed.
Example len_all_lexes_thm : lex_len_concl len_lay len_sig_all len_doc.
Proof. destruct len_side as (H1 & H2 & _). exact (lex_render_len ex_cls len_lay len_sig_all len_doc (proj1 len_core) H1 H2 len_all_clean). Qed.
Example len_all_rt_thm : rt_len_concl len_lay len_sig_all len_doc.
Proof.
  destruct len_side as (H1 & H2 & _).
  exact (text_roundtrip_len ex_cls ex2_numcanon (fun _ => false) true len_lay len_sig_all len_doc (proj1 len_core) H1 H2 len_layout_ok len_all_clean (proj1 len_nums) (proj2 len_nums)).
Qed.
(* the same by evaluation of the model: the two routes agree *)
Example len_all_computed : parse_model ex_cls ex2_numcanon (fun _ => false) true (lines_of len_text_all) = PRDoc len_doc [] [].
Proof. vm_compute. reflexivity. Qed.
Example len_all_shape_computed :
  match tokenize ex_cls false (lines_of len_text_all) with
  | LexOk toks reps => all2 tmatchb toks (doc2_sh_len ex_idnum len_lay len_doc) = true /\ reps = []
  | _ => False
  end.
Proof. vm_compute. split; reflexivity. Qed.

(* ---- (c) convergence on the examples ------------------------------------------------------------------------------------------------------- *)
(* the plain and the decorated spelling of len_doc *)
Example len_converges_thm :
  exists w1 w2,
    parse_model ex_cls ex2_numcanon (fun _ => false) true (lines_of (render_len len_lay sig0 len_doc)) = PRDoc len_doc [] w1 /\
    parse_model ex_cls ex2_numcanon (fun _ => false) true (lines_of (render_len len_lay len_sig_all len_doc)) = PRDoc len_doc [] w2 /\
    Forall advisory w1 /\ Forall advisory w2.
Proof.
  destruct len_side as (H1 & H2 & H3).
  exact (text_lenient_converge ex_cls ex2_numcanon (fun _ => false) true len_doc len_lay sig0 len_lay len_sig_all
           (proj1 len_core) H1 (proj1 len_nums) (proj2 len_nums) H2 len_layout_ok H3 H2 len_layout_ok len_all_clean).
Qed.
(* len2_doc: the hand-written lenient text and the canonical layout printed by the lenient printer; the latter IS the emitter's text *)
Example len2_canonical_render : render_len (canonical_lay needs_multiline len2_doc) sig0 len2_doc = emit (fun _ => false) len2_doc.
Proof. vm_compute. reflexivity. Qed.
Example canonical_render_on_examples :
  forallb (fun d => str_eqb (render_len (canonical_lay needs_multiline d) sig0 d) (emit (fun _ => false) d) &&
                    lay_lex (canonical_lay needs_multiline d))
          [ex_s1; ex_s2; ex_s3; ex_s4; ex_s4b; len2_doc] = true.
Proof. vm_compute. reflexivity. Qed.
Example len2_converges_thm :
  exists w1 w2,
    parse_model ex_cls ex2_numcanon (fun _ => false) true (lines_of len2_text) = PRDoc len2_doc [] w1 /\
    parse_model ex_cls ex2_numcanon (fun _ => false) true (lines_of (emit (fun _ => false) len2_doc)) = PRDoc len2_doc [] w2 /\
    Forall advisory w1 /\ Forall advisory w2.
Proof.
  rewrite <- len2_text_is_render, <- len2_canonical_render.
  destruct len2_side as (H1 & H2 & H3).
  apply (text_lenient_converge ex_cls ex2_numcanon (fun _ => false) true len2_doc len2_lay len2_sig (canonical_lay needs_multiline len2_doc) sig0
           len2_core H1 (proj1 len2_nums) (proj2 len2_nums) H2 len2_layout_ok H3); [vm_compute; reflexivity|apply layout_ok_canonical; reflexivity|vm_compute; reflexivity].
Qed.

(* ---- what the model lexer accepts BEYOND the printer (observations by evaluation, not covered by the theorem) ------------------------------ *)
Definition reads (text : str) (d : doc) : Prop := parse_model ex_cls ex2_numcanon (fun _ => false) true (lines_of text) = PRDoc d [] [].
Definition dA := dd [asg (lit "A")] [].
(* trailing spaces after the envelope lines, spaces around the `::` of a section marker, a space before the `:` of a block: accepted *)
Example beyond_printer_accepted :
  reads (unl [lit "===D===  "; lit "A::1"; lit "===END===  "]) dA /\
  reads (unl [lit "===D==="; [167] ++ lit "1 :: N"; lit "  A::1"; lit "===END==="]) (dd [NSection (lit "1") (lit "N") None [asg (lit "A")] []] []) /\
  reads (unl [lit "===D==="; lit "K :"; lit "  A::1"; lit "===END==="]) (dd [NBlock (lit "K") None [asg (lit "A")] []] []).
Proof. repeat split; vm_compute; reflexivity. Qed.
(* NOT layout: a blank inside `::`, an indented envelope line *)
Example not_layout :
  ~ reads (unl [lit "===D==="; lit "A: :1"; lit "===END==="]) dA /\ ~ reads (unl [lit "  ===D==="; lit "A::1"; lit "===END==="]) dA.
Proof. split; intros H; vm_compute in H; discriminate H. Qed.

(* ---- (e) the side conditions ----------------------------------------------------------------------------------------------------------------- *)
Definition dlay1 (n : nlay) : dlay := mkDL 0 0 0 0 [] 0 [n] [] true.
Definition dL := dd [NAssign (lit "A") (VList [n1; n2]) [] None] [].

Ltac refute_len_shape :=
  let ts := fresh "ts" in let tail := fresh "tail" in let H := fresh "H" in let HF := fresh "HF" in let K := fresh "K" in let H1 := fresh "H1" in
  intros (ts & tail & H & HF & _);
  pose proof (F2_prefix ts _ tail HF) as K;
  match type of H with ?L = _ => let R := fresh "R" in let ER := fresh "ER" in
    remember L as R eqn:ER; vm_compute in ER; subst R end;
  first [discriminate H | injection H as H1; rewrite <- H1 in K; vm_compute in K; discriminate K].

(* lay_lex, INDENT count: an INDENT token with count 0 is not the image of any text (zero spaces produce no INDENT token) *)
Lemma lex_render_refuted_indent_zero :
  let lay := dlay1 (NLay [] (L (Some 0) 0) V0 []) in
  core2_doc_l dA = true /\ lay_lex lay = false /\ ~ lex_len_concl lay sig0 dA.
Proof. split; [reflexivity|]. split; [reflexivity|]. refute_len_shape. Qed.
(* lay_lex, bracket runs: an INDENT inside brackets that is not at a line start (the spaces are skipped, no token) *)
Lemma lex_render_refuted_run_indent_midline :
  let lay := dlay1 (NLay [] (L None 0) (VLay [] [] [(INDENT, Some (TVCount 2))]) []) in
  core2_doc_l dL = true /\ lay_lex lay = false /\ ~ lex_len_concl lay sig0 dL.
Proof. split; [reflexivity|]. split; [reflexivity|]. refute_len_shape. Qed.
(* lay_lex, bracket runs: a COMMENT that is not followed by a NEWLINE swallows the rest of its line *)
Lemma lex_render_refuted_run_comment_no_newline :
  let lay := dlay1 (NLay [] (L None 0) (VLay [] [] [(COMMENT, Some (TVText (lit "c")))]) []) in
  core2_doc_l dL = true /\ lay_lex lay = false /\ ~ lex_len_concl lay sig0 dL.
Proof. split; [reflexivity|]. split; [reflexivity|]. refute_len_shape. Qed.
(* lay_lex, bracket runs: an INDENT directly followed by a NEWLINE is a blank line: no INDENT token *)
Lemma lex_render_refuted_run_indent_then_newline :
  let lay := dlay1 (NLay [] (L None 0) (VLay [] [] [(NEWLINE, None); (INDENT, Some (TVCount 2)); (NEWLINE, None)]) []) in
  core2_doc_l dL = true /\ lay_lex lay = false /\ ~ lex_len_concl lay sig0 dL.
Proof. split; [reflexivity|]. split; [reflexivity|]. refute_len_shape. Qed.
(* text_clean, tab: the lexer rejects a tab outside a fence (E005); here in a comment (also excluded by lex_safe2_doc) *)
Lemma lex_render_refuted_tab :
  let d := dd [NAssign (lit "A") n1 [[97; c_tab; 98]] None] [] in let lay := dlay1 (NLay [L None 0] (L None 0) V0 []) in
  core2_doc_l d = true /\ lay_lex lay = true /\ text_clean (render_len lay sig0 d) = false /\ ~ lex_len_concl lay sig0 d.
Proof. split; [reflexivity|]. split; [reflexivity|]. split; [reflexivity|]. refute_len_shape. Qed.
(* text_clean, backtick: a comment line whose text starts with three backticks AFTER `// ` is harmless, but the condition is what keeps
   the fence pre-pass out of the proof; a fence opener needs the backticks at the START of a line, which the printer never writes.
   The condition is sufficient, not necessary: this text with backticks is read correctly *)
Example backtick_not_necessary :
  let d := dd [NAssign (lit "A") (VStr [96; 96; 96]) [[96; 96; 96]] None] [] in let lay := dlay1 (NLay [L None 0] (L None 0) V0 []) in
  text_clean (render_len lay sig0 d) = false /\ reads (render_len lay sig0 d) d.
Proof. split; vm_compute; reflexivity. Qed.
(* lex_safe2_doc: the refutations of Rt/LexLink2Ex.v apply (the canonical layout is an instance); one of them printed here *)
Lemma lex_render_refuted_comment_blank :
  let d := dd [NAssign (lit "A") n1 [lit " x"] None] [] in let lay := dlay1 (NLay [L None 0] (L None 0) V0 []) in
  core2_doc_l d = true /\ lay_lex lay = true /\ lex_safe2_doc d = false /\ ~ lex_len_concl lay sig0 d.
Proof. split; [reflexivity|]. split; [reflexivity|]. split; [reflexivity|]. refute_len_shape. Qed.
(* layout_ok (needed by text_roundtrip_len only): TokLenientEx.len_refuted_dedented_child, printed: the text reads as ANOTHER document *)
Example layout_ok_needed :
  lay_lex l_r1 = true /\ layout_ok l_r1 d_r1 = false /\ reads (render_len l_r1 sig0 d_r1) d_r1'.
Proof. repeat split; vm_compute; reflexivity. Qed.
