(* Non-vacuity of Rt/LexLinkZ.v on the examples of Rt/TokRoundZEx.v (five zones, depth 3, hostile content), a non-identity NFC oracle,
   the unrestricted statement, and one refutation per zone side condition. *)
From OV Require Import Base.Strs Lex.Lexer Syn.Ast Syn.Emitter Syn.Parser Syn.Wf
     Rt.Zones Rt.ZonesRt Rt.TokRound Rt.TokRoundEx Rt.TokRound2 Rt.TokRound2Ex Rt.TokRoundZ Rt.TokRoundZEx
     Rt.LexLinkBase Rt.LexLinkSteps Rt.LexLink Rt.LexLinkEx Rt.LexLink2Base Rt.LexLink2Steps Rt.LexLink2Text Rt.LexLink2
     Rt.LexLinkZPos Rt.LexLinkZText Rt.LexLinkZ.
From Coq Require Import Lia.
Require Coq.Strings.String.
Import Coq.Strings.String.StringSyntax.
Open Scope N_scope.

Definition lex_emit_corez_concl (cls : N -> N) (sp : N -> bool) (d : doc) : Prop :=
  exists ts tnl teof,
    tokenize cls false (lines_of (emit sp d)) = LexOk (ts ++ [tnl; teof]) [] /\
    Forall2 tmatch ts (docz_sh needs_multiline ex_idnum d) /\ tk tnl = NEWLINE /\ tk teof = EOF.

(* ---- TokRoundZEx.exz: five zones (first node / middle child of a block / first and second child of a section at depth 2 / only child
        at depth 3), an empty zone, a 5-backtick marker, info tags, hostile content (assignment / envelope / block / comment look-alikes,
        shorter backtick runs, a TAB, a blank line, trailing blanks), next to comments, a list, META, a grammar line ------------------------- *)
Example exz_safe : lex_safez_doc ex_cls exz = true /\ lex_safez_doc ex_cls exz2 = true.
Proof. split; vm_compute; reflexivity. Qed.
(* the fence pre-pass finds exactly the five zones *)
Example exz_spans :
  map (fun sp => (sp_start sp, sp_end sp, length (sp_marker sp), sp_tag sp)) (spans_of (doc_blocks exz) 0) =
  [(71, 93, 3%nat, Some (lit "python")); (135, 146, 3%nat, None); (177, 279, 5%nat, Some (lit "text")); (290, 330, 3%nat, None); (362, 397, 3%nat, None)].
Proof. vm_compute. reflexivity. Qed.
Example exz_lexes_thm : lex_emit_corez_concl ex_cls (fun _ => false) exz.
Proof. exact (lex_emit_corez ex_cls (fun _ => false) exz exz_core (proj1 exz_safe)). Qed.
Example exz_rt_thm :
  exists warns, parse_model ex_cls ex2_numcanon (fun _ => false) true (lines_of (emit (fun _ => false) exz)) = PRDoc exz [] warns /\ Forall advisory warns.
Proof.
  exact (text_roundtrip_corez ex_cls ex2_numcanon (fun _ => false) true (fun _ => false) exz exz_core (proj1 exz_safe) (proj1 exz_nums) (proj2 exz_nums)).
Qed.
Example exz_check_thm : corez_shape_check ex_cls exz (lines_of (emit (fun _ => false) exz)) = 1.
Proof. exact (shape_check_corez ex_cls (fun _ => false) exz exz_core (proj1 exz_safe)). Qed.
Example exz2_thm : lex_emit_corez_concl ex_cls (fun _ => false) exz2 /\ corez_shape_check ex_cls exz2 (lines_of (emit (fun _ => false) exz2)) = 1.
Proof.
  split; [exact (lex_emit_corez ex_cls (fun _ => false) exz2 (proj1 exz2_ok) (proj2 exz_safe))
         |exact (shape_check_corez ex_cls (fun _ => false) exz2 (proj1 exz2_ok) (proj2 exz_safe))].
Qed.

(* a NON-identity NFC oracle: every line that is not an ordinary line or a fence line of the emitted text is replaced (here: by `X`);
   the zones still come back raw *)
Definition keep_lines : list str :=
  flat_map (fun b => match b with BT u => split_on c_nl u | BZ D m tag c => [zopen D m tag; zclose D m] end) (doc_blocks exz).
Definition nf_x (l : str) : str := if str_in l keep_lines then l else match l with [] => [] | _ => [88] end.
Example nf_x_changes_content : nf_x (lit "K::v") = [88] /\ nf_x (lit "  [x, y] -> z  ") = [88].
Proof. split; vm_compute; reflexivity. Qed.
Example exz_lexes_under_oracle :
  exists ts tnl teof,
    tokenize ex_cls false (map (fun l => (l, nf_x l)) (split_on c_nl (emit (fun _ => false) exz))) = LexOk (ts ++ [tnl; teof]) [] /\
    Forall2 tmatch ts (docz_sh needs_multiline ex_idnum exz) /\ tk tnl = NEWLINE /\ tk teof = EOF.
Proof.
  apply (lex_emit_corez_nfc ex_cls nf_x (fun _ => false) exz exz_core (proj1 exz_safe)); [|reflexivity].
  apply blk_fixedb_ok. vm_compute. reflexivity.
Qed.

(* ---- the unrestricted statement and the zone side conditions ------------------------------------------------------------------------------------- *)
Definition lex_emit_corez_full : Prop := forall cls sp d, corez_doc d = true -> lex_emit_corez_concl cls sp d.

Lemma concl_check cls sp d : corez_doc d = true -> lex_emit_corez_concl cls sp d ->
  corez_shape_check cls d (lines_of (emit sp d)) = 1.
Proof.
  intros Hc (ts & tnl & teof & H & HF & Hnl & Heof). unfold corez_shape_check. rewrite Hc, H.
  assert (HF' : Forall2 tmatch (ts ++ [tnl; teof]) (docz_sh needs_multiline ex_idnum d ++ [(NEWLINE, None); (EOF, None)])).
  { apply Forall2_app; [exact HF|]. constructor; [split; [exact Hnl|exact I]|]. constructor; [split; [exact Heof|exact I]|constructor]. }
  rewrite (all2_tmatchbz _ _ HF'). reflexivity.
Qed.
(* the executable check is evaluated in the GOAL (vm_compute leaves a cast there), never in a hypothesis *)
Ltac refute_z :=
  let H := fresh "H" in let E := fresh "E" in
  intros H; match type of H with lex_emit_corez_concl ?c ?s ?d => apply (concl_check c s d (eq_refl true)) in H end;
  match type of H with ?L = _ => let v := eval vm_compute in L in assert (E : L = v) by (vm_compute; reflexivity) end;
  rewrite E in H; discriminate H.

(* (1) a content line that closes the fence (same run, only blanks around it): lexer error *)
Lemma lex_emit_corez_refuted_closing_line :
  exists d, corez_doc d = true /\ lex_safez_doc ex_cls d = false /\ ~ lex_emit_corez_concl ex_cls (fun _ => false) d /\
            corez_shape_check ex_cls d (lines_of (emit (fun _ => false) d)) = 3.
Proof.
  exists (zd (lit "Z") (z (lit "a" ++ [c_nl] ++ lit "   ```   " ++ [c_nl] ++ lit "b")) None).
  split; [reflexivity|]. split; [reflexivity|]. split; [refute_z|vm_compute; reflexivity].
Qed.
(* ... a fence-shaped content line with a LONGER run and text after it: rejected (E007) *)
Lemma lex_emit_corez_refuted_longer_run :
  exists d, corez_doc d = true /\ lex_safez_doc ex_cls d = false /\ ~ lex_emit_corez_concl ex_cls (fun _ => false) d.
Proof.
  exists (zd (lit "Z") (z (lit "a" ++ [c_nl] ++ lit "````` longer run with text" ++ [c_nl] ++ lit "b")) None).
  split; [reflexivity|]. split; [reflexivity|]. refute_z.
Qed.
(* ... whereas SHORTER runs, with or without text, are ordinary content: inside the condition (the `hostile` zone of exz has both) *)
Example shorter_runs_inside : ZonesRt.zone_ok bt5 hostile = true.
Proof. vm_compute. reflexivity. Qed.
(* (2) a marker of two backticks: not a fence line at all, lexer error *)
Lemma lex_emit_corez_refuted_short_marker :
  exists d, corez_doc d = true /\ lex_safez_doc ex_cls d = false /\ ~ lex_emit_corez_concl ex_cls (fun _ => false) d.
Proof. exists (zd (lit "Z") (VZone (lit "x") None [96; 96]) None). split; [reflexivity|]. split; [reflexivity|]. refute_z. Qed.
(* (3) an info tag that is not its own strip: the lexer stores the stripped tag in FENCE_OPEN *)
Lemma lex_emit_corez_refuted_tag_blanks :
  exists d, corez_doc d = true /\ lex_safez_doc ex_cls d = false /\ ~ lex_emit_corez_concl ex_cls (fun _ => false) d /\
            corez_shape_check ex_cls d (lines_of (emit (fun _ => false) d)) = 2.
Proof.
  exists (zd (lit "Z") (VZone (lit "x") (Some (lit " py ")) bt3) None).
  split; [reflexivity|]. split; [reflexivity|]. split; [refute_z|vm_compute; reflexivity].
Qed.
(* ... an empty tag: written as no tag, read as None *)
Lemma lex_emit_corez_refuted_tag_empty :
  exists d, corez_doc d = true /\ lex_safez_doc ex_cls d = false /\ ~ lex_emit_corez_concl ex_cls (fun _ => false) d.
Proof. exists (zd (lit "Z") (VZone (lit "x") (Some []) bt3) None). split; [reflexivity|]. split; [reflexivity|]. refute_z. Qed.
(* ... a tag with a backtick: the opening line is no fence line (lexer error); a tag with a line break: its second line becomes content *)
Lemma lex_emit_corez_refuted_tag_backtick :
  exists d, corez_doc d = true /\ lex_safez_doc ex_cls d = false /\ ~ lex_emit_corez_concl ex_cls (fun _ => false) d.
Proof. exists (zd (lit "Z") (VZone (lit "x") (Some (lit "a`b")) bt3) None). split; [reflexivity|]. split; [reflexivity|]. refute_z. Qed.
Lemma lex_emit_corez_refuted_tag_newline :
  exists d, corez_doc d = true /\ lex_safez_doc ex_cls d = false /\ ~ lex_emit_corez_concl ex_cls (fun _ => false) d.
Proof.
  exists (zd (lit "Z") (VZone (lit "x") (Some (lit "py" ++ [c_nl] ++ lit "q")) bt3) None). split; [reflexivity|]. split; [reflexivity|]. refute_z.
Qed.

Theorem lex_emit_corez_full_refuted : ~ lex_emit_corez_full.
Proof.
  intros Hfull. destruct lex_emit_corez_refuted_short_marker as (d & Hc & _ & Hn). apply Hn. apply Hfull. exact Hc.
Qed.
