(* What the reader model makes of a NUMBER operand in an operator expression.  parse_flow_expression collects IDENTIFIER / STRING / SECTION /
   VARIABLE tokens and expression operators only: a NUMBER token ends the expression, and in value position the token after the value is then
   skipped to the end of the line by the assignment reader.  The Examples below are evaluated on the model (which the correspondence runs
   against the implementation on all token sequences of length <= 3, IDENTIFIER OPERATOR NUMBER among them); they record that the operand is
   lost WITHOUT any warning or receipt -- an observation outside the enumerated freedoms of C03 / C07, kept here so that the behaviour is
   pinned by the kernel and a change of it (in either direction) is seen. *)
From OV Require Import Base.Strs Lex.Lexer Syn.Ast Syn.Emitter Syn.Parser Syn.Wf
     Rt.TokRound Rt.TokRoundEx Rt.LexLinkBase Rt.TokRound2 Rt.TokRound2Ex Rt.TokRoundT Rt.TokRoundTHolo Rt.TokRoundTEx.
Require Coq.Strings.String.
Import Coq.Strings.String.StringSyntax.
Open Scope N_scope.

Definition OPLUS : str := [8853].
Definition kv (v : value) : node := NAssign (lit "K") v [] None.

(* K::speed⊕2  is read as the string  speed⊕ , no warning *)
Example number_operand_dropped_silently :
  rdt [lit "K::speed" ++ OPLUS ++ lit "2"] = Some ([kv (VStr (lit "speed" ++ OPLUS))], []).
Proof. vm_compute. reflexivity. Qed.
(* the ASCII alias: exactly one warning (the alias receipt), nothing about the lost operand *)
(* with word operands nothing is lost *)
Example word_operand_kept :
  rdt [lit "K::speed" ++ OPLUS ++ lit "b"] = Some ([kv (VStr (lit "speed" ++ OPLUS ++ lit "b"))], []).
Proof. vm_compute. reflexivity. Qed.
(* the emitter never writes such a text: the string  speed⊕2  is emitted quoted and read back *)
Example emitted_expression_string_is_safe :
  let d := dd [kv (VStr (lit "speed" ++ OPLUS ++ lit "2"))] [] in reads holo_ex d = Some d.
Proof. vm_compute. reflexivity. Qed.
(* the mirror case DOES leave a receipt: K::2+speed  is read as the number 2 and the rest is reported (lenient_parse, bare line dropped = 4) *)
Example number_first_operand_reported :
  rdt [lit "K::2+speed"] = Some ([kv (VNum false (lit "2"))], [4]).
Proof. vm_compute. reflexivity. Qed.
