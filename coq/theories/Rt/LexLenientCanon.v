(* The canonical spelling is the instance of the lenient printer with the canonical layout and no extras:
     render_len (canonical_lay needs_multiline d) sig0 d = emit sp d        for every core2 document d with lex_safe2_doc d. *)
From OV Require Import Base.Strs Gen.LexerGen Syn.Escape Syn.Quote Syn.Ast Syn.Emitter Syn.Parser Lex.Lexer
     Rt.TokRound Rt.TokRoundEx Rt.TokRound2 Rt.TokRound2Ex Rt.LexLinkBase Rt.LexLinkSteps Rt.LexLink Rt.LexLink2Base Rt.LexLink2Steps
     Rt.LexLink2Text Rt.LexLink2 Rt.TokLenient Rt.LexLenientBase Rt.LexLenientVal Rt.LexLenient.
From Coq Require Import Lia.
Open Scope N_scope.

Notation ml := needs_multiline.

Lemma ind_txt_cline D : ind_txt (l_ind (cline D)) = ind D.
Proof. destruct D as [|D']; [reflexivity|]. cbn [cline l_ind ind_txt]. unfold ind_count, sp_n, ind. rewrite Nat2N.id. reflexivity. Qed.
Lemma eol_cline D : eol_s (cline D) sl0 = [c_nl].
Proof. reflexivity. Qed.

Lemma lead_txt_canon D cs : lead_txt (map (fun _ => cline D) cs) cs [] = unlines (emit_leading cs D).
Proof.
  induction cs as [|c cs IH]; [reflexivity|]. cbn [map lead_txt emit_leading hd tl]. fold (emit_leading cs D).
  rewrite unlines_cons, ind_txt_cline, eol_cline, IH, <- !app_assoc. reflexivity.
Qed.

Lemma run_txt_gap g : run_txt RMT (gap_sh g) = gap_text g.
Proof.
  destruct g as [|D]; [reflexivity|]. cbn [gap_sh gap_text nl_sh app run_txt]. f_equal.
  destruct D as [|D']; [reflexivity|]. cbn [indent_sh run_txt ind_n]. rewrite app_nil_r.
  unfold ind_count, sp_n, ind. rewrite Nat2N.id. reflexivity.
Qed.
Lemma body_txt_gap g2 gp : forall ts g1, body_txt (gap_sh g2) (gap_sh gp) (gap_sh g1) 0 ts = body_text g2 gp g1 ts.
Proof.
  induction ts as [|x r IH]; intros g1; cbn [body_txt body_text]; rewrite run_txt_gap; [reflexivity|].
  destruct r as [|y r']; [rewrite run_txt_gap; reflexivity|]. cbn [sp_n repeat app]. rewrite (IH g2). reflexivity.
Qed.

Lemma val_txt_canon D v : cval v = true -> val_txt (cvlay ml D v) 0 v = val_text D v.
Proof.
  destruct v; cbn [cval is_scalar sval_of]; intros H; try discriminate H; try reflexivity.
  destruct items as [|x xs]; [reflexivity|]. cbn [cvlay val_text]. destruct (ml (x :: xs)); cbn [val_txt].
  - f_equal. exact (body_txt_gap (GNl (S D)) (GNl D) _ (GNl (S D))).
  - f_equal. exact (body_txt_gap GNone GNone _ GNone).
Qed.

Lemma tail_txt_canon t D : opt_ne t = true -> tail_txt t sv0 (cline D) sl0 = emit_trailing t ++ [c_nl].
Proof. destruct t as [[|x c]|]; [discriminate|reflexivity|reflexivity]. Qed.

Lemma cnlay_ch_block D k t ch ld : n_ch (cnlay ml D (NBlock k t ch ld)) = map (cnlay ml (S D)) ch.
Proof. reflexivity. Qed.
Lemma cnlay_ch_section D i k a ch ld : n_ch (cnlay ml D (NSection i k a ch ld)) = map (cnlay ml (S D)) ch.
Proof. reflexivity. Qed.

Definition C_node (n : node) : Prop :=
  core2_node n = true -> lex_safe2_node n = true -> forall D, node_txt n (cnlay ml D n) sn0 = unlines (emit_node_lines n D).

Lemma nodes_txt_canon ch D : Forall C_node ch -> forallb core2_node ch = true -> forallb lex_safe2_node ch = true ->
  nodes_txt ch (map (cnlay ml D) ch) [] = unlines (flat_map (fun c => emit_node_lines c D) ch).
Proof.
  induction 1 as [|c cs Hc _ IH]; intros Hcc Hss; [reflexivity|].
  cbn [forallb] in Hcc, Hss. apply andb_true_iff in Hcc as [Hc1 Hc2]. apply andb_true_iff in Hss as [Hs1 Hs2].
  cbn [map nodes_txt flat_map hd tl]. rewrite unlines_app, (Hc Hc1 Hs1 D), (IH Hc2 Hs2). reflexivity.
Qed.

Theorem all_C_node : forall n, C_node n.
Proof.
  apply node_ind2; unfold C_node.
  - intros k v ld t Hc Hs D. cbn [core2_node] in Hc. apply andb_true_iff in Hc as [Hcv Hne].
    cbn [lex_safe2_node] in Hs. apply andb_true_iff in Hs as [Hs _]. apply andb_true_iff in Hs as [Hs _]. apply andb_true_iff in Hs as [_ Hv].
    destruct (assign_val_text k v D Hcv Hv) as (Etext & _).
    rewrite (emit_assign_line2 k v ld t D Hcv), Etext, unlines_app.
    unfold node_txt. cbn [cnlay n_leads n_hdr n_vl lead_of main_txt sn_leads sn_hdr sn_sv sn0].
    rewrite lead_txt_canon, ind_txt_cline. unfold assign_txt. cbn [s_pre s_post s_comma sv0 sp_n repeat app].
    rewrite (val_txt_canon D v Hcv), (tail_txt_canon t D Hne). cbn [unlines flat_map]. rewrite app_nil_r, <- !app_assoc. reflexivity.
  - intros k tg ch ld IH Hc Hs D. cbn [core2_node] in Hc. destruct tg; [discriminate|].
    apply andb_true_iff in Hc as [_ Hcc]. cbn [lex_safe2_node] in Hs. apply andb_true_iff in Hs as [_ Hss].
    rewrite (emit_block_lines2 k ch ld D Hcc), !unlines_app.
    unfold node_txt. rewrite main_txt_block, cnlay_ch_block. cbn [cnlay n_leads n_hdr lead_of sn_leads sn_hdr sn_ch sn0].
    rewrite lead_txt_canon, ind_txt_cline, eol_cline, (nodes_txt_canon ch (S D) IH Hcc Hss).
    cbn [unlines flat_map]. rewrite app_nil_r, <- !app_assoc. reflexivity.
  - intros i k a ch ld IH Hc Hs D. cbn [core2_node] in Hc. apply andb_true_iff in Hc as [_ Hc]. apply andb_true_iff in Hc as [_ Hcc].
    cbn [lex_safe2_node] in Hs. apply andb_true_iff in Hs as [_ Hss].
    rewrite (emit_section_lines2 i k a ch ld D), !unlines_app.
    unfold node_txt. rewrite main_txt_section, cnlay_ch_section. cbn [cnlay n_leads n_hdr lead_of sn_leads sn_hdr sn_ch sn0].
    rewrite lead_txt_canon, ind_txt_cline, eol_cline, (nodes_txt_canon ch (S D) IH Hcc Hss).
    cbn [unlines flat_map]. rewrite app_nil_r, <- !app_assoc. reflexivity.
  - intros t Hc; discriminate Hc.
Qed.

Lemma meta_txt_canon m : forallb meta_field_ok m = true -> forallb meta_ok m = true ->
  meta_txt m (map (fun kv => (cline 1, match snd kv with MV v => cvlay ml 1 v | MD _ => VLay [] [] [] end)) m) [] = unlines (map meta_line m).
Proof.
  induction m as [|kv m IH]; [reflexivity|]. cbn [forallb]. intros Hf Hm. apply andb_true_iff in Hf as [F1 F2]. apply andb_true_iff in Hm as [M1 M2].
  cbn [map meta_txt hd tl fst snd]. rewrite unlines_cons, (IH F2 M2).
  unfold meta_field_ok in F1. unfold meta_ok in M1. unfold meta_line. destruct (snd kv) as [v|]; [|discriminate F1].
  apply andb_true_iff in M1 as [_ Hmv]. destruct (meta_val_text v 1 F1 Hmv) as (E & _).
  rewrite E, ind_txt_cline. unfold assign_txt. cbn [s_pre s_post s_comma sv0 sp_n repeat app tail_txt].
  rewrite (val_txt_canon 1 v F1), eol_cline, <- !app_assoc. reflexivity.
Qed.

Theorem render_len_canonical sp d : core2_doc d = true -> lex_safe2_doc d = true ->
  render_len (canonical_lay ml d) sig0 d = emit sp d.
Proof.
  intros Hc Hs. rewrite emit_unlines, (emit_lines_core2 sp d Hc Hs).
  destruct d as [name gr fr sep meta secs trl]. unfold core2_doc, lex_safe2_doc, grammar_lines, render_len, canonical_lay in *.
  cbn [dfront dmeta dtrailing dsections dgrammar dname dsep dl_start dl_gram dl_env dl_mhdr dl_meta dl_sep dl_nodes dl_trail dl_end
       ds_start ds_gram ds_env ds_mhdr ds_meta ds_sep ds_nodes ds_trail sig0 blanks app] in *.
  destruct fr; [discriminate|].
  apply andb_true_iff in Hc as [Hc _]. apply andb_true_iff in Hc as [Hc _]. apply andb_true_iff in Hc as [Hc Hmf]. apply andb_true_iff in Hc as [Hc _].
  apply andb_true_iff in Hs as [Hs _]. apply andb_true_iff in Hs as [Hs Hm]. apply andb_true_iff in Hs as [Hs Hn]. apply andb_true_iff in Hs as [_ _].
  rewrite !unlines_app.
  assert (A1 : match gr with Some g => s_octave ++ g ++ [c_nl] | None => [] end = unlines (match gr with Some g => [s_octave ++ g] | None => [] end)).
  { destruct gr; [|reflexivity]. cbn [unlines flat_map]. rewrite app_nil_r, <- app_assoc. reflexivity. }
  assert (A2 : s_env ++ name ++ s_env ++ [c_nl] = unlines [s_env ++ name ++ s_env]).
  { cbn [unlines flat_map]. rewrite app_nil_r, <- !app_assoc. reflexivity. }
  assert (A3 : meta_block_txt meta 0 sl0 (map (fun kv => (cline 1, match snd kv with MV v => cvlay ml 1 v | MD _ => VLay [] [] [] end)) meta) [] =
               unlines (meta_lines meta)).
  { unfold meta_block_txt, meta_lines. destruct meta as [|kv0 m0]; [reflexivity|]. rewrite unlines_cons, (meta_txt_canon _ Hmf Hm). reflexivity. }
  assert (A4 : (if sep then s_sep ++ [c_nl] else []) = unlines (if sep then [s_sep] else [])) by (destruct sep; reflexivity).
  assert (A5 : nodes_txt secs (map (cnlay ml 0) secs) [] = unlines (flat_map (fun n => emit_node_lines n 0) secs)).
  { apply nodes_txt_canon; [apply Forall_forall; intros n _; apply all_C_node|exact Hc|exact Hn]. }
  rewrite A1, A2, A3, A4, A5, lead_txt_canon.
  change ((s_env ++ name ++ s_env) :: ?X) with ([s_env ++ name ++ s_env] ++ X). rewrite !unlines_app.
  cbn [unlines flat_map]. rewrite !app_nil_r. reflexivity.
Qed.

(* ---- the canonical layout is lexable, hence: any lenient spelling and the canonical text converge ------------------------------------- *)
Lemma ll_lex_cline D : ll_lex (cline D) = true.
Proof. destruct D as [|D']; [reflexivity|]. cbn [cline ll_lex l_ind ind_lex]. apply N.ltb_lt. unfold ind_count. lia. Qed.
Lemma run_ok_gap D : run_ok RMT (nl_sh ++ indent_sh D) = true.
Proof.
  cbn [nl_sh app run_ok nlv_ok andb]. destruct D as [|D']; [reflexivity|]. cbn [indent_sh run_ok indv_ok next_is_nl negb andb].
  rewrite ?andb_true_r. apply N.ltb_lt. unfold ind_count. lia.
Qed.
Lemma vl_lex_cvlay D v : vl_lex (cvlay ml D v) = true.
Proof.
  destruct v; try reflexivity. destruct items as [|x xs]; [reflexivity|]. cbn [cvlay]. destruct (ml (x :: xs)); [|reflexivity].
  cbn [vl_lex]. rewrite !run_ok_gap. reflexivity.
Qed.
Lemma nlay_lex_canon : forall n D, nlay_lex (cnlay ml D n) = true.
Proof.
  apply (node_ind2 (fun n => forall D, nlay_lex (cnlay ml D n) = true)).
  - intros k v ld t D. cbn [cnlay nlay_lex forallb]. rewrite ll_lex_cline, vl_lex_cvlay, !andb_true_r.
    apply forallb_forall. intros l Hl. apply in_map_iff in Hl as (? & <- & _). apply ll_lex_cline.
  - intros k tg ch ld IH D. cbn [cnlay nlay_lex vl_lex run_ok]. rewrite ll_lex_cline. cbn [andb]. rewrite !andb_true_r.
    apply andb_true_iff. split.
    + apply forallb_forall. intros l Hl. apply in_map_iff in Hl as (? & <- & _). apply ll_lex_cline.
    + apply forallb_forall. intros l Hl. apply in_map_iff in Hl as (c & <- & Hc). rewrite Forall_forall in IH. exact (IH c Hc (S D)).
  - intros i k a ch ld IH D. cbn [cnlay nlay_lex vl_lex run_ok]. rewrite ll_lex_cline. cbn [andb]. rewrite !andb_true_r.
    apply andb_true_iff. split.
    + apply forallb_forall. intros l Hl. apply in_map_iff in Hl as (? & <- & _). apply ll_lex_cline.
    + apply forallb_forall. intros l Hl. apply in_map_iff in Hl as (c & <- & Hc). rewrite Forall_forall in IH. exact (IH c Hc (S D)).
  - intros t D. cbn [cnlay nlay_lex forallb]. rewrite ll_lex_cline. reflexivity.
Qed.
Lemma lay_lex_canonical d : lay_lex (canonical_lay ml d) = true.
Proof.
  unfold lay_lex, canonical_lay. cbn [dl_meta dl_nodes dl_trail]. apply andb_true_iff. split; [apply andb_true_iff; split|].
  - apply forallb_forall. intros lv Hl. apply in_map_iff in Hl as (kv & <- & _). cbn [fst snd]. rewrite ll_lex_cline. cbn [andb].
    destruct (snd kv); [apply vl_lex_cvlay|reflexivity].
  - apply forallb_forall. intros l Hl. apply in_map_iff in Hl as (c & <- & _). apply nlay_lex_canon.
  - apply forallb_forall. intros l Hl. apply in_map_iff in Hl as (? & <- & _). apply ll_lex_cline.
Qed.

(* a lenient spelling of d and the canonical text emit(d) are read as the same document *)
Theorem text_lenient_vs_canonical cls numcanon holo_ok strict sp d lay sg :
  core2_doc d = true -> lex_safe2_doc d = true ->
  TokRound2.nums_ok2_l numcanon idnum_digits (dsections d) -> Forall (TokRound2.field_num_ok numcanon) (dmeta d) ->
  lay_lex lay = true -> layout_ok lay d = true -> text_clean (render_len lay sg d) = true -> text_clean (emit sp d) = true ->
  exists w1 w2,
    parse_model cls numcanon holo_ok strict (lines_of (render_len lay sg d)) = PRDoc d [] w1 /\
    parse_model cls numcanon holo_ok strict (lines_of (emit sp d)) = PRDoc d [] w2 /\
    Forall advisory w1 /\ Forall advisory w2.
Proof.
  intros Hc Hs Hnum Hmnum Hl Ho Hc1 Hc2. rewrite <- (render_len_canonical sp d Hc Hs) in Hc2 |- *.
  exact (text_lenient_converge cls numcanon holo_ok strict d lay sg (canonical_lay ml d) sig0 (core2_doc_l_of d Hc) Hs Hnum Hmnum
           Hl Ho Hc1 (lay_lex_canonical d) (layout_ok_canonical ml d Hc) Hc2).
Qed.
