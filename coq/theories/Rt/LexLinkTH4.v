(* Document level for the UNION of the holographic classes of Rt/LexLinkTH.v (  ["s"∧W]  ["s"∧W["a1",..]]  ), Rt/LexLinkTH2.v ( chains ["s"∧W1..∧Wn] )
   and Rt/LexLinkTH3.v ( chains ending in a section target  ["s"∧W1..∧Wn→§T] ).

     lex_emit_coreth4 / text_roundtrip_coreth4   side condition lex_safeth4_doc cls hsh d; for a →§T chain: cls_and_ok cls, cls_flow_ok cls, chain_ok,
                                                 key_ok T, hsh raw fits chainT_shape; otherwise th2_safe of Rt/LexLinkTH2.v
     text_roundtrip_coreth4_lex                  hsh := hsh_lex cls; the side condition may be stated with ANY oracle (its fits clauses are not used),
                                                 e.g. the class shape hsh_cls4: purely textual
   th4_raw only tests the frame  raw = chainT_text (hs raw) (hwsT raw) (hT raw)  (decoders, nothing proved about them). *)
From OV Require Import Base.Strs Gen.LexerGen Syn.Escape Syn.Quote Syn.Ast Syn.Emitter Syn.Parser Lex.Lexer Lex.Progress
     Rt.Zones Rt.ZonesRt Rt.TokRound Rt.TokRoundEx Rt.TokRound2 Rt.TokRound2Ex Rt.TokRoundZ Rt.TokRoundT Rt.TokRoundTHolo Rt.TokRoundTEx
     Rt.LexLinkBase Rt.LexLinkSteps Rt.LexLink Rt.LexLink2Base Rt.LexLink2Steps Rt.LexLink2Text Rt.LexLink2
     Rt.LexLinkZPos Rt.LexLinkZText Rt.LexLinkZ Rt.LexLinkT Rt.LexLinkTH Rt.LexLinkTH2 Rt.LexLinkTH3.
From Coq Require Import Lia.
Open Scope N_scope.

Definition hrest (raw : str) : list str := split_on 8594 (removelast (skipn (3 + length (hs raw)) raw)).
Definition hwsT (raw : str) : list str := tl (split_on 8743 (hd [] (hrest raw))).
Definition hT (raw : str) : str := tl (nth 1 (hrest raw) []).
Definition th4_raw (raw : str) : bool := str_eqb raw (chainT_text (hs raw) (hwsT raw) (hT raw)).
Definition th4_holo (v : value) : bool := match v with VHolo raw => th_raw raw || th2_raw raw || th4_raw raw | _ => false end.
Fixpoint coreth4_node (n : node) : bool :=
  match n with
  | NAssign k v _ t => (th4_holo v || cval v) && opt_ne t
  | NBlock k tg ch _ => opt_ne tg && (negb (is_nil ch) && forallb coreth4_node ch)
  | NSection i k a ch _ => opt_ne a && (negb (is_nil ch) && forallb coreth4_node ch)
  | _ => false
  end.
Definition coreth4_doc (d : doc) : bool := coret_doc d && forallb coreth4_node (dsections d).
Definition chT_fits (l : list sh) (s : str) (ws : list str) (T : str) : bool := all2 tmatchb (map tok_of_sh (chainT_shape s ws T)) l.
Definition th4_safe (cls : N -> N) (hsh : str -> list sh) (raw : str) : bool :=
  (th4_raw raw && cls_and_ok cls && cls_flow_ok cls && chain_ok (hwsT raw) && key_ok (hT raw) && chT_fits (hsh raw) (hs raw) (hwsT raw) (hT raw))
  || th2_safe cls hsh raw.
Definition lex_safeth4_val (cls : N -> N) (hsh : str -> list sh) (k : str) (v : value) : bool :=
  match v with VHolo raw => th4_safe cls hsh raw | _ => lex_safe2_val k v end.
Fixpoint lex_safeth4_node (cls : N -> N) (hsh : str -> list sh) (n : node) : bool :=
  match n with
  | NAssign k v l t => key_ok k && lex_safeth4_val cls hsh k v && forallb comment_ok l && trail_ok t
  | NBlock k tg ch l => key_ok k && target_ok tg && forallb comment_ok l && forallb (lex_safeth4_node cls hsh) ch
  | NSection i k a ch l => sid_ok i && key_ok k && annot_ok a && forallb comment_ok l && forallb (lex_safeth4_node cls hsh) ch
  | NComment _ => false
  end.
Definition lex_safeth4_doc (cls : N -> N) (hsh : str -> list sh) (d : doc) : bool :=
  name_ok (dname d) && (match dgrammar d with Some g => ver_ok g | None => true end) &&
  forallb (lex_safeth4_node cls hsh) (dsections d) && forallb meta_ok (dmeta d) && forallb comment_ok (dtrailing d).

Lemma holo4_parts cls hsh k raw l t : coreth4_node (NAssign k (VHolo raw) l t) = true -> lex_safeth4_node cls hsh (NAssign k (VHolo raw) l t) = true ->
  (exists s ws T, raw = chainT_text s ws T /\ cls_and_ok cls = true /\ cls_flow_ok cls = true /\ chain_ok ws = true /\ key_ok T = true /\
                  chT_fits (hsh raw) s ws T = true /\ key_ok k = true /\ forallb comment_ok l = true /\ trail_ok t = true /\ opt_ne t = true) \/
  (coreth2_node (NAssign k (VHolo raw) l t) = true /\ lex_safeth2_node cls hsh (NAssign k (VHolo raw) l t) = true).
Proof.
  intros Hc Hs. cbn [coreth4_node] in Hc. apply andb_true_iff in Hc as [_ Hne].
  cbn [lex_safeth4_node lex_safeth4_val] in Hs. apply andb_true_iff in Hs as [Hs Ht]. apply andb_true_iff in Hs as [Hs Hl]. apply andb_true_iff in Hs as [Hk Hv].
  unfold th4_safe in Hv. apply orb_true_iff in Hv as [Hv|Hv].
  - left. apply andb_true_iff in Hv as [Hv Hf]. apply andb_true_iff in Hv as [Hv HT]. apply andb_true_iff in Hv as [Hv Hok].
    apply andb_true_iff in Hv as [Hv Hfl]. apply andb_true_iff in Hv as [E Hcls]. unfold th4_raw in E. apply str_eqb_eq in E.
    exists (hs raw), (hwsT raw), (hT raw). repeat split; assumption.
  - right. split.
    + cbn [coreth2_node th2_holo cval is_scalar sval_of]. rewrite Hne, orb_false_r, andb_true_r.
      unfold th2_safe in Hv. apply orb_true_iff in Hv as [Hv|Hv].
      * apply andb_true_iff in Hv as [Hv _]. apply andb_true_iff in Hv as [Hv _]. apply andb_true_iff in Hv as [E _]. rewrite E. apply orb_true_r.
      * apply andb_true_iff in Hv as [E _]. rewrite E. reflexivity.
    + cbn [lex_safeth2_node lex_safeth2_val]. rewrite Hk, Hv, Hl, Ht. reflexivity.
Qed.
Lemma holo4_text_ok cls hsh k raw l t : coreth4_node (NAssign k (VHolo raw) l t) = true -> lex_safeth4_node cls hsh (NAssign k (VHolo raw) l t) = true ->
  forall D, tok_text (unlines (emit_node_lines (NAssign k (VHolo raw) l t) D)) = true.
Proof.
  intros Hc Hs D. destruct (holo4_parts cls hsh k raw l t Hc Hs) as [(s & ws & T & E & _ & _ & Hw & HT & _ & Hk & Hl & Ht & _)|[Hc' Hs']].
  - rewrite emit_holo_lines, tok_text_unlines_app, (tok_leading D l Hl), tok_unlines1. cbn [andb].
    apply line_tok, line_ok_key; [exact Hk|]. rewrite E, !plain_app, (plain_chainT s ws T Hw HT), (plain_trailing _ Ht). reflexivity.
  - exact (node_text_okth2 cls hsh _ Hc' Hs' D).
Qed.

(* ---- emitted lines of the fragment ---------------------------------------------------------------------------------------------------------------------------- *)
Lemma coreth4_child_lines c D : coreth4_node c = true ->
  match c with
  | NAssign [] (VZone content tag marker) _ _ => zone_lines (S D) content tag marker
  | _ => emit_node_lines c (S D)
  end = emit_node_lines c (S D).
Proof.
  destruct c as [k v l t| | |]; try reflexivity. cbn [coreth4_node]. intros H. apply andb_true_iff in H as [H _].
  destruct v; cbn [th4_holo orb cval is_scalar sval_of] in H; try discriminate H; destruct k; reflexivity.
Qed.
Lemma emit_block_linesth4 k tg ch l D : forallb coreth4_node ch = true -> opt_ne tg = true ->
  emit_node_lines (NBlock k tg ch l) D =
  emit_leading l D ++ [ind D ++ k ++ target_text tg ++ [c_colon]] ++ flat_map (fun c => emit_node_lines c (S D)) ch.
Proof.
  intros H Hne. cbn [emit_node_lines]. f_equal.
  assert (E : flat_map (fun c => match c with NAssign [] (VZone content tag marker) _ _ => zone_lines (S D) content tag marker
                                              | _ => emit_node_lines c (S D) end) ch = flat_map (fun c => emit_node_lines c (S D)) ch).
  { clear -H. induction ch as [|c cs IH]; [reflexivity|]. cbn [forallb] in H. apply andb_true_iff in H as [H1 H2].
    cbn [flat_map]. rewrite (coreth4_child_lines c D H1), (IH H2). reflexivity. }
  rewrite E. destruct tg as [[|x r]|]; try discriminate Hne; reflexivity.
Qed.

(* a holographic assignment of the fragment, decoded *)
Section NodesTH4.
Variable cls : N -> N.
Variable hsh : str -> list sh.
Notation node_sht := (node_sht ml idnum_digits hsh).
Notation nodes_sht := (nodes_sht ml idnum_digits hsh).

Definition LTH4_node (n : node) : Prop :=
  coreth4_node n = true -> lex_safeth4_node cls hsh n = true ->
  forall D st rest, ls_in st = unlines (emit_node_lines n D) ++ rest -> ready st ->
    exists st', lexto cls st (node_sht D n) st' /\ ls_in st' = rest /\ ready st'.

Lemma lex_nodesth4 ch : Forall LTH4_node ch -> forallb coreth4_node ch = true -> forallb (lex_safeth4_node cls hsh) ch = true ->
  forall D st rest, ls_in st = unlines (flat_map (fun c => emit_node_lines c D) ch) ++ rest -> ready st ->
    exists st', lexto cls st (nodes_sht D ch) st' /\ ls_in st' = rest /\ ready st'.
Proof.
  induction ch as [|c cs IH]; intros HP Hc Hs D st rest Hin Hr.
  - exists st. split; [apply lexto_refl|split; [exact Hin|exact Hr]].
  - inversion HP as [|? ? HPc HPcs]; subst.
    cbn [forallb] in Hc, Hs. apply andb_true_iff in Hc as [Hc1 Hc2]. apply andb_true_iff in Hs as [Hs1 Hs2].
    cbn [flat_map] in Hin. rewrite unlines_app, <- app_assoc in Hin.
    destruct (HPc Hc1 Hs1 D st _ Hin Hr) as (st1 & L1 & I1 & R1).
    destruct (IH HPcs Hc2 Hs2 D st1 rest I1 R1) as (st2 & L2 & I2 & R2).
    exists st2. split; [|split; assumption]. unfold TokRoundT.nodes_sht. cbn [flat_map]. eapply lexto_trans; [exact L1|exact L2].
Qed.

Lemma LTH4_holo k raw l t : LTH4_node (NAssign k (VHolo raw) l t).
Proof.
  intros Hc Hs D st rest Hin Hr.
  destruct (holo4_parts cls hsh k raw l t Hc Hs) as [(s & ws & T & E & Hcls & Hfl & Hw & HT & Hf & Hk & Hl & Ht & Hne)|[Hc' Hs']];
    [|exact (all_LTH2_node cls hsh _ Hc' Hs' D st rest Hin Hr)].
  rewrite emit_holo_lines, unlines_app, <- app_assoc in Hin.
  destruct (lex_lead cls D l st _ Hl Hin Hr) as (st1 & L1 & I1 & R1).
  cbn [unlines flat_map] in I1. rewrite app_nil_r, <- app_assoc in I1. cbn [app] in I1.
  assert (I1' : ls_in st1 = (ind D ++ k ++ s_assign ++ chainT_text s ws T ++ emit_trailing t) ++ c_nl :: rest).
  { rewrite I1. rewrite <- E. rewrite <- !app_assoc. reflexivity. }
  destruct (lex_chainT_line cls D k s ws T t st1 rest Hcls Hfl Hk Hw HT Hne Ht I1' R1) as (st2 & L2 & I2 & R2).
  exists st2. split; [|split; assumption]. unfold TokRoundT.node_sht. cbn [lead_of main_sht val_sht].
  assert (L : lexto cls st ((lead_sh D l ++ indent_sh D ++ [(IDENTIFIER, Some (TVText k)); (ASSIGN, None)]) ++ chainT_shape s ws T ++ (trail_sh t ++ [(NEWLINE, None)])) st2).
  { rewrite <- !app_assoc. eapply lexto_trans; [exact L1|exact L2]. }
  apply (lexto_fits_gen cls st st2 (hsh raw) _ _ _ Hf (chainT_shape_txt s ws T)) in L. rewrite <- !app_assoc in L. exact L.
Qed.

Theorem all_LTH4_node : forall n, LTH4_node n.
Proof.
  apply node_ind2.
  - intros k v l t. destruct (is_holo v) eqn:Eh.
    + destruct v; try discriminate Eh. apply LTH4_holo.
    + intros Hc Hs D st rest Hin Hr.
      assert (Hc' : coretb_node (NAssign k v l t) = true) by (destruct v; try discriminate Eh; exact Hc).
      assert (Hs' : lex_safet_node (NAssign k v l t) = true) by (destruct v; try discriminate Eh; exact Hs).
      exact (all_LT_node cls hsh (NAssign k v l t) Hc' Hs' D st rest Hin Hr).
  - unfold LTH4_node. intros k tg ch l IH Hc Hs D st rest Hin Hr. cbn [coreth4_node] in Hc. apply andb_true_iff in Hc as [Hne Hc]. apply andb_true_iff in Hc as [_ Hcc].
    cbn [lex_safeth4_node] in Hs. apply andb_true_iff in Hs as [Hs Hss]. apply andb_true_iff in Hs as [Hs Hl]. apply andb_true_iff in Hs as [Hk Htg].
    rewrite (emit_block_linesth4 k tg ch l D Hcc Hne), !unlines_app, <- !app_assoc in Hin.
    destruct (lex_lead cls D l st _ Hl Hin Hr) as (st1 & L1 & I1 & R1).
    cbn [unlines flat_map] in I1. rewrite app_nil_r, <- app_assoc in I1. cbn [app] in I1.
    assert (HH : exists st2, lexto cls st1 (indent_sh D ++ (IDENTIFIER, Some (TVText k)) :: target_sh tg ++ [(BLOCK, None); (NEWLINE, None)]) st2 /\
                             ls_in st2 = unlines (flat_map (fun c => emit_node_lines c (S D)) ch) ++ rest /\ ready st2).
    { destruct tg as [[|x r]|]; [discriminate Hne| |].
      - exact (lex_target_header cls D k (x :: r) st1 _ Hk Htg I1 R1).
      - exact (lex_block_header cls D k st1 _ Hk I1 R1). }
    destruct HH as (st2 & L2 & I2 & R2).
    destruct (lex_nodesth4 ch IH Hcc Hss (S D) st2 rest I2 R2) as (st3 & L3 & I3 & R3).
    exists st3. split; [|split; assumption]. unfold TokRoundT.node_sht. cbn [lead_of]. rewrite main_sht_block.
    eapply lexto_trans; [exact L1|].
    replace (indent_sh D ++ (IDENTIFIER, Some (TVText k)) :: target_sh tg ++ [(BLOCK, None); (NEWLINE, None)] ++ nodes_sht (S D) ch)
      with ((indent_sh D ++ (IDENTIFIER, Some (TVText k)) :: target_sh tg ++ [(BLOCK, None); (NEWLINE, None)]) ++ nodes_sht (S D) ch)
      by (rewrite <- !app_assoc; cbn [app]; rewrite <- !app_assoc; reflexivity).
    eapply lexto_trans; [exact L2|exact L3].
  - unfold LTH4_node. intros i k a ch l IH Hc Hs D st rest Hin Hr. cbn [coreth4_node] in Hc. apply andb_true_iff in Hc as [Hne Hc]. apply andb_true_iff in Hc as [_ Hcc].
    cbn [lex_safeth4_node] in Hs. apply andb_true_iff in Hs as [Hs Hss]. apply andb_true_iff in Hs as [Hs Hl].
    apply andb_true_iff in Hs as [Hs Ha]. apply andb_true_iff in Hs as [Hi Hk].
    rewrite (emit_section_lines2 i k a ch l D), !unlines_app, <- !app_assoc in Hin.
    destruct (lex_lead cls D l st _ Hl Hin Hr) as (st1 & L1 & I1 & R1).
    cbn [unlines flat_map] in I1. rewrite app_nil_r, <- app_assoc in I1. cbn [app] in I1.
    destruct (lex_section_header cls D i k a st1 _ Hi Hk Ha Hne I1 R1) as (st2 & L2 & I2 & R2).
    destruct (lex_nodesth4 ch IH Hcc Hss (S D) st2 rest I2 R2) as (st3 & L3 & I3 & R3).
    exists st3. split; [|split; assumption]. unfold TokRoundT.node_sht. cbn [lead_of]. rewrite main_sht_section.
    eapply lexto_trans; [exact L1|]. rewrite !app_assoc. eapply lexto_trans; [|exact L3].
    rewrite <- !app_assoc. exact L2.
  - intros t Hc; discriminate Hc.
Qed.
End NodesTH4.

(* ---- the document ---------------------------------------------------------------------------------------------------------------------------------------------- *)
Lemma coreth4_parts d : coreth4_doc d = true ->
  coret_doc d = true /\ dfront d = None /\ forallb coreth4_node (dsections d) = true /\ forallb meta_field_ok (dmeta d) = true.
Proof.
  unfold coreth4_doc. intros H. apply andb_true_iff in H as [Hc Hn]. split; [exact Hc|]. unfold coret_doc in Hc.
  destruct (dfront d); [discriminate|]. split; [reflexivity|]. split; [exact Hn|].
  apply andb_true_iff in Hc as [Hc _]. apply andb_true_iff in Hc as [Hc _]. apply andb_true_iff in Hc as [_ Hm]. exact Hm.
Qed.
Lemma safeth4_parts cls hsh d : lex_safeth4_doc cls hsh d = true ->
  name_ok (dname d) = true /\ (match dgrammar d with Some g => ver_ok g | None => true end) = true /\
  forallb (lex_safeth4_node cls hsh) (dsections d) = true /\ forallb meta_ok (dmeta d) = true /\ forallb comment_ok (dtrailing d) = true.
Proof.
  unfold lex_safeth4_doc. intros Hs.
  apply andb_true_iff in Hs as [Hs Htr]. apply andb_true_iff in Hs as [Hs Hm]. apply andb_true_iff in Hs as [Hs Hn]. apply andb_true_iff in Hs as [Hname Hg].
  repeat split; assumption.
Qed.
Lemma hdr_doc_okh4 cls hsh d : lex_safeth4_doc cls hsh d = true -> lex_safez_doc cls (hdr_doc d) = true /\ prefix_lines (hdr_doc d) = prefix_lines d.
Proof.
  intros Hs. destruct (safeth4_parts cls hsh d Hs) as (H1 & H2 & _ & H4 & _). split; [|reflexivity].
  unfold lex_safez_doc, hdr_doc. cbn [dname dgrammar dsections dmeta dtrailing forallb]. rewrite H1, H2, H4. reflexivity.
Qed.

Lemma emit_lines_coreth4 cls hsh sp d : coreth4_doc d = true -> lex_safeth4_doc cls hsh d = true ->
  emit_lines sp d = prefix_lines d ++ flat_map (fun n => emit_node_lines n 0) (dsections d) ++ suffix_lines d.
Proof.
  intros Hc Hs. destruct (coreth4_parts d Hc) as (_ & Hfr & Hcn & Hmf). destruct (safeth4_parts cls hsh d Hs) as (_ & Hg & _).
  unfold emit_lines, prefix_lines, suffix_lines, grammar_lines. rewrite Hfr. cbn [app].
  assert (Esec : flat_map (fun n => match n with NComment _ => [] | _ => emit_node_lines n 0 end) (dsections d) =
                 flat_map (fun n => emit_node_lines n 0) (dsections d)).
  { clear -Hcn. induction (dsections d) as [|c cs IH]; [reflexivity|]. cbn [forallb] in Hcn. apply andb_true_iff in Hcn as [H1 H2].
    cbn [flat_map]. rewrite (IH H2). destruct c; try reflexivity. discriminate H1. }
  rewrite Esec.
  assert (Eg : match truthy (dgrammar d) with Some g => [s_octave ++ g] | None => [] end =
               match dgrammar d with Some g => [s_octave ++ g] | None => [] end).
  { destruct (dgrammar d) as [g|]; [|reflexivity]. destruct (ver_ok_nonempty _ Hg) as (x & r & ->). reflexivity. }
  rewrite Eg. unfold meta_lines. destruct (dmeta d) as [|kv m] eqn:Em.
  - repeat (progress (rewrite <- ?app_assoc; cbn [app])). reflexivity.
  - cbv zeta. rewrite (emit_meta_lines_core _ Hmf). cbn [map]. repeat (progress (rewrite <- ?app_assoc; cbn [app])). reflexivity.
Qed.

(* the pre-passes *)
Lemma node_text_okth4 cls hsh : forall n, coreth4_node n = true -> lex_safeth4_node cls hsh n = true -> forall D, tok_text (unlines (emit_node_lines n D)) = true.
Proof.
  apply (node_ind2 (fun n => coreth4_node n = true -> lex_safeth4_node cls hsh n = true -> forall D, tok_text (unlines (emit_node_lines n D)) = true)).
  - intros k v l t Hc Hs D. destruct (is_holo v) eqn:Eh.
    + destruct v; try discriminate Eh. exact (holo4_text_ok cls hsh k raw l t Hc Hs D).
    + assert (Hc' : coretb_node (NAssign k v l t) = true) by (destruct v; try discriminate Eh; exact Hc).
      assert (Hs' : lex_safet_node (NAssign k v l t) = true) by (destruct v; try discriminate Eh; exact Hs).
      exact (node_text_okt (NAssign k v l t) Hc' Hs' D).
  - intros k tg ch l IH Hc Hs D. cbn [coreth4_node] in Hc. apply andb_true_iff in Hc as [Hne Hc]. apply andb_true_iff in Hc as [_ Hcc].
    cbn [lex_safeth4_node] in Hs. apply andb_true_iff in Hs as [Hs Hss]. apply andb_true_iff in Hs as [Hs Hl]. apply andb_true_iff in Hs as [Hk Htg].
    rewrite (emit_block_linesth4 k tg ch l D Hcc Hne), !tok_text_unlines_app, (tok_leading D l Hl), tok_unlines1. cbn [andb].
    rewrite (line_tok _ (line_ok_key D k _ Hk (plain_target tg Htg))). cbn [andb].
    induction ch as [|c cs IHc]; [reflexivity|]. inversion IH as [|? ? Pc Pcs]; subst.
    cbn [forallb] in Hcc, Hss. apply andb_true_iff in Hcc as [Hc1 Hc2]. apply andb_true_iff in Hss as [Hs1 Hs2].
    cbn [flat_map]. rewrite tok_text_unlines_app, (Pc Hc1 Hs1 (S D)), (IHc Pcs Hc2 Hs2). reflexivity.
  - intros i k a ch l IH Hc Hs D. cbn [coreth4_node] in Hc. apply andb_true_iff in Hc as [Hne Hc]. apply andb_true_iff in Hc as [_ Hcc].
    cbn [lex_safeth4_node] in Hs. apply andb_true_iff in Hs as [Hs Hss]. apply andb_true_iff in Hs as [Hs Hl].
    apply andb_true_iff in Hs as [Hs Ha]. apply andb_true_iff in Hs as [Hi Hk].
    rewrite (emit_section_lines2 i k a ch l D), !tok_text_unlines_app, (tok_leading D l Hl), tok_unlines1. cbn [andb].
    assert (Hline : LexLink.line_ok (ind D ++ [167] ++ i ++ s_assign ++ k ++ annot_text a) = true).
    { unfold LexLink.line_ok. rewrite !plain_app, plain_ind, (plain_sid _ Hi), (plain_keyok _ Hk). cbn [andb].
      assert (Pa : plain (annot_text a) = true).
      { destruct a as [[|x a']|]; try reflexivity. cbn [annot_ok annot_text] in *. rewrite !plain_app, (plain_keyok _ Ha). reflexivity. }
      rewrite Pa. cbn [andb app]. apply fence_free_ind; chr. }
    rewrite (line_tok _ Hline). cbn [andb].
    induction ch as [|c cs IHc]; [reflexivity|]. inversion IH as [|? ? Pc Pcs]; subst.
    cbn [forallb] in Hcc, Hss. apply andb_true_iff in Hcc as [Hc1 Hc2]. apply andb_true_iff in Hss as [Hs1 Hs2].
    cbn [flat_map]. rewrite tok_text_unlines_app, (Pc Hc1 Hs1 (S D)), (IHc Pcs Hc2 Hs2). reflexivity.
  - intros t Hc; discriminate Hc.
Qed.

Section DocTH4.
Variable cls : N -> N.
Variable hsh : str -> list sh.

Lemma emit_text_okth4 sp d : coreth4_doc d = true -> lex_safeth4_doc cls hsh d = true -> tok_text (emit sp d) = true.
Proof.
  intros Hc Hs. rewrite emit_unlines, (emit_lines_coreth4 cls hsh sp d Hc Hs). destruct (coreth4_parts d Hc) as (_ & _ & Hcn & Hmf).
  destruct (safeth4_parts cls hsh d Hs) as (_ & _ & Hn & _ & Htr). destruct (hdr_doc_okh4 cls hsh d Hs) as [Hz Ep].
  rewrite !tok_text_unlines_app, <- Ep, (prefix_text_ok cls (hdr_doc d) Hmf Hz). cbn [andb].
  assert (A5 : tok_text (unlines (flat_map (fun n => emit_node_lines n 0) (dsections d))) = true).
  { clear -Hcn Hn. induction (dsections d) as [|c cs IH]; [reflexivity|]. cbn [forallb] in Hcn, Hn.
    apply andb_true_iff in Hcn as [Hc1 Hc2]. apply andb_true_iff in Hn as [Hn1 Hn2].
    cbn [flat_map]. rewrite tok_text_unlines_app, (node_text_okth4 cls hsh c Hc1 Hn1 0%nat), (IH Hc2 Hn2). reflexivity. }
  rewrite A5. unfold suffix_lines. rewrite tok_text_unlines_app, (tok_leading 0 _ Htr). reflexivity.
Qed.

Lemma all_LTH4_nodes ns : Forall (LTH4_node cls hsh) ns.
Proof. apply Forall_forall. intros n _. apply all_LTH4_node. Qed.

Lemma lex_docth4 sp d : coreth4_doc d = true -> lex_safeth4_doc cls hsh d = true ->
  forall st, ls_in st = emit sp d -> ls_pos st = 0 -> ls_spans st = [] ->
  exists st', lexto cls st (doct_sh ml idnum_digits hsh d ++ [(NEWLINE, None)]) st' /\ ls_in st' = [].
Proof.
  intros Hc Hs st Hin Hp Hsp. destruct (coreth4_parts d Hc) as (_ & _ & Hcn & Hmf). destruct (safeth4_parts cls hsh d Hs) as (_ & _ & Hn & _ & Htr).
  destruct (hdr_doc_okh4 cls hsh d Hs) as [Hz Ep].
  rewrite emit_unlines, (emit_lines_coreth4 cls hsh sp d Hc Hs), !unlines_app, <- Ep in Hin.
  destruct (lex_prefix cls (hdr_doc d) st _ Hmf Hz Hin Hp Hsp) as (st1 & L1 & I1 & R1).
  destruct (lex_nodesth4 cls hsh (dsections d) (all_LTH4_nodes _) Hcn Hn 0%nat st1 _ I1 R1) as (st2 & L2 & I2 & R2).
  destruct (lex_suffix cls d st2 Htr I2 R2) as (st3 & L3 & I3 & _).
  exists st3. split; [|exact I3].
  assert (E : doct_sh ml idnum_digits hsh d ++ [(NEWLINE, None)] =
              (g_sh (hdr_doc d) ++ [(ENVELOPE_START, Some (TVText (dname (hdr_doc d)))); (NEWLINE, None)] ++ meta_sh ml (dmeta (hdr_doc d)) ++ sep_shz (hdr_doc d)) ++
              nodes_sht ml idnum_digits hsh 0 (dsections d) ++ (lead_sh 0 (dtrailing d) ++ [(ENVELOPE_END, None)] ++ [(NEWLINE, None)])).
  { unfold doct_sh, g_sh, sep_shz, hdr_doc. cbn [dname dgrammar dsep dmeta]. rewrite <- !app_assoc. reflexivity. }
  rewrite E. eapply lexto_trans; [exact L1|]. eapply lexto_trans; [exact L2|exact L3].
Qed.

(* (b) THE LEXER HALF for coret documents whose holographic values are of the class [ "s" ∧ W ] / [ "s" ∧ W["a1",..,"an"] ] *)
Theorem lex_emit_coreth4 sp d : coreth4_doc d = true -> lex_safeth4_doc cls hsh d = true ->
  exists ts tnl teof,
    tokenize cls false (lines_of (emit sp d)) = LexOk (ts ++ [tnl; teof]) [] /\
    Forall2 tmatch ts (doct_sh ml idnum_digits hsh d) /\ tk tnl = NEWLINE /\ tk teof = EOF.
Proof.
  intros Hc Hs. destruct (coreth4_parts d Hc) as (_ & Hfr & _).
  rewrite (tokenize_tok_text cls false _ (emit_text_okth4 sp d Hc Hs) (emit_nonblank_head sp d Hfr)).
  set (st0 := mkLS (emit sp d) None 0 1 1 [] [] [] []).
  destruct (lex_docth4 sp d Hc Hs st0 eq_refl eq_refl eq_refl) as (st' & (Hst & (tsall & Ht & HF) & Hr & Hb & _) & Hin).
  rewrite (run_steps_finish cls st0 st' _ Hst Hin) by (cbn [ls_in st0]; lia).
  apply Forall2_app_inv_r in HF. destruct HF as (ts & tl & HF1 & HF2 & ->).
  inversion HF2 as [|tnl ? ? ? [Hnl _] HF3]; subst. inversion HF3; subst. cbn [fst] in Hnl.
  exists ts, tnl, (mkTok EOF TVNone (ls_line st') (ls_col st') None).
  split; [|split; [exact HF1|split; [exact Hnl|reflexivity]]].
  unfold finish. rewrite Hb, Hr, Ht. cbn [ls_brk ls_reps ls_toks st0 rev app].
  rewrite app_nil_r, rev_involutive, <- app_assoc. reflexivity.
Qed.

Lemma emit_first_lineth4 sp d : coreth4_doc d = true -> lex_safeth4_doc cls hsh d = true ->
  exists l0 r, split_on c_nl (emit sp d) = l0 :: r /\ prefixb s_dashes l0 = false.
Proof.
  intros Hc Hs. destruct (safeth4_parts cls hsh d Hs) as (Hname & Hg & _).
  rewrite emit_unlines, (emit_lines_coreth4 cls hsh sp d Hc Hs). unfold prefix_lines, grammar_lines.
  destruct (dgrammar d) as [g|].
  - cbn [app]. rewrite unlines_cons, split_on_app.
    + eexists _, _. split; [reflexivity|reflexivity].
    + pose proof (plain_ver _ Hg) as P. unfold plain in P. apply andb_true_iff in P as [P _]. apply negb_true_iff in P.
      rewrite LexLinkBase.memb_app, P. reflexivity.
  - cbn [app]. rewrite unlines_cons, split_on_app.
    + eexists _, _. split; [reflexivity|reflexivity].
    + unfold name_ok in Hname. apply andb_true_iff in Hname as [Hw _].
      pose proof (plain_key _ (word_ok_chars _ Hw)) as P. unfold plain in P. apply andb_true_iff in P as [P _]. apply negb_true_iff in P.
      rewrite !LexLinkBase.memb_app, P. reflexivity.
Qed.

(* (c) composed with the parser half.  The semantic side hypotheses are those of text_roundtrip_coretb (at a holographic site nodes_side asks
   TokRoundTHolo.hsite_okb: the group is in the proved class, its reconstruction is the raw text, the oracle holo_ok accepts it) *)
Theorem text_roundtrip_coreth4 numcanon holo_ok strict sp d :
  coreth4_doc d = true -> lex_safeth4_doc cls hsh d = true ->
  nodes_side numcanon holo_ok idnum_digits hsh (dsections d) -> Forall (TokRoundT.field_num_ok numcanon) (dmeta d) ->
  exists warns,
    parse_model cls numcanon holo_ok strict (lines_of (emit sp d)) = PRDoc d [] warns /\ Forall advisory warns.
Proof.
  intros Hc Hs Hside Hmnum. destruct (coreth4_parts d Hc) as (Hct & Hfr & _).
  destruct (lex_emit_coreth4 sp d Hc Hs) as (ts & tnl & teof & Htok & HF & _ & _).
  destruct (emit_first_lineth4 sp d Hc Hs) as (l0 & r & El & Hl0).
  unfold parse_model.
  rewrite (strip_frontmatter_none (u_space cls) (emit sp d) l0 r El Hl0), Htok.
  destruct (parse_coret_doc numcanon holo_ok strict (u_space cls) (u_alpha cls) ml idnum_digits hsh d Hct
              (nodes_side_nums numcanon holo_ok strict (u_space cls) idnum_digits hsh _ Hside) Hmnum
              (mkPS (ts ++ [tnl; teof]) None 0 [] 0 []) ts [tnl; teof]) as (st' & Hp & (l & Hw & Hadv) & _);
    [discriminate|reflexivity|exact HF|reflexivity|].
  rewrite Hp. exists (rev (pwarns st')). split.
  - f_equal. destruct d as [name gr fr sep meta secs trl]. cbn [dfront] in Hfr. subst fr. reflexivity.
  - rewrite Hw. cbn [pwarns]. rewrite app_nil_r. apply Forall_rev. exact Hadv.
Qed.
End DocTH4.

(* ---- hsh := hsh_lex cls -------------------------------------------------------------------------------------------------------------------------------------- *)
Definition hsh_cls4 (raw : str) : list sh :=
  if th4_raw raw && chain_ok (hwsT raw) && key_ok (hT raw) then chainT_shape (hs raw) (hwsT raw) (hT raw) else hsh_cls2 raw.
Lemma th2_safe_lex_any cls hsh raw : th2_safe cls hsh raw = true -> th2_safe cls (hsh_lex cls) raw = true.
Proof.
  unfold th2_safe. intros H. apply orb_true_iff in H as [H|H]; apply orb_true_iff; [left|right].
  - apply andb_true_iff in H as [H _]. apply andb_true_iff in H as [H Hok]. apply andb_true_iff in H as [E2 Hcls].
    rewrite E2, Hcls, Hok. cbn [andb]. unfold th2_raw in E2. apply str_eqb_eq in E2.
    rewrite E2 at 1. rewrite (hsh_lex_chain cls _ _ Hcls Hok). apply ch_fits_refl.
  - apply andb_true_iff in H as [Hraw H]. unfold th_safe in H. apply andb_true_iff in H as [Hw _].
    rewrite Hraw, (th_safe_lex cls raw Hraw Hw). reflexivity.
Qed.
Lemma th4_safe_lex_any cls hsh raw : th4_safe cls hsh raw = true -> th4_safe cls (hsh_lex cls) raw = true.
Proof.
  unfold th4_safe. intros H. apply orb_true_iff in H as [H|H]; apply orb_true_iff; [left|right; exact (th2_safe_lex_any cls hsh raw H)].
  apply andb_true_iff in H as [H _]. apply andb_true_iff in H as [H HT]. apply andb_true_iff in H as [H Hok].
  apply andb_true_iff in H as [H Hfl]. apply andb_true_iff in H as [E Hcls].
  rewrite E, Hcls, Hfl, Hok, HT. cbn [andb]. unfold th4_raw in E. apply str_eqb_eq in E.
  rewrite E at 1. rewrite (hsh_lex_chainT cls _ _ _ Hcls Hfl Hok HT). apply fits_refl_gen, chainT_shape_txt.
Qed.
Lemma safeth4_lex_any cls hsh : forall n, lex_safeth4_node cls hsh n = true -> lex_safeth4_node cls (hsh_lex cls) n = true.
Proof.
  apply (node_ind2 (fun n => lex_safeth4_node cls hsh n = true -> lex_safeth4_node cls (hsh_lex cls) n = true)).
  - intros k v l t Hs. destruct v; try exact Hs.
    cbn [lex_safeth4_node lex_safeth4_val] in Hs |- *. apply andb_true_iff in Hs as [Hs Ht]. apply andb_true_iff in Hs as [Hs Hl]. apply andb_true_iff in Hs as [Hk Hv].
    rewrite Hk, Hl, Ht, (th4_safe_lex_any cls hsh raw Hv). reflexivity.
  - intros k tg ch l IH Hs. cbn [lex_safeth4_node] in Hs |- *. apply andb_true_iff in Hs as [Hs Hss]. rewrite Hs. cbn [andb].
    induction ch as [|c cs IHc]; [reflexivity|]. inversion IH as [|? ? Pc Pcs]; subst.
    cbn [forallb] in Hss |- *. apply andb_true_iff in Hss as [Hs1 Hs2]. rewrite (Pc Hs1), (IHc Pcs Hs2). reflexivity.
  - intros i k a ch l IH Hs. cbn [lex_safeth4_node] in Hs |- *. apply andb_true_iff in Hs as [Hs Hss]. rewrite Hs. cbn [andb].
    induction ch as [|c cs IHc]; [reflexivity|]. inversion IH as [|? ? Pc Pcs]; subst.
    cbn [forallb] in Hss |- *. apply andb_true_iff in Hss as [Hs1 Hs2]. rewrite (Pc Hs1), (IHc Pcs Hs2). reflexivity.
  - intros t Hs; exact Hs.
Qed.
Lemma safeth4_doc_lex_any cls hsh d : lex_safeth4_doc cls hsh d = true -> lex_safeth4_doc cls (hsh_lex cls) d = true.
Proof.
  intros Hs. destruct (safeth4_parts cls hsh d Hs) as (H1 & H2 & H3 & H4 & H5).
  unfold lex_safeth4_doc. rewrite H1, H2, H4, H5. cbn [andb]. rewrite !andb_true_r.
  clear -H3. induction (dsections d) as [|c cs IH]; [reflexivity|]. cbn [forallb] in H3 |- *.
  apply andb_true_iff in H3 as [Hs1 Hs2]. rewrite (safeth4_lex_any cls hsh c Hs1), (IH Hs2). reflexivity.
Qed.
Theorem text_roundtrip_coreth4_lex cls hsh0 numcanon holo_ok strict sp d :
  coreth4_doc d = true -> lex_safeth4_doc cls hsh0 d = true ->
  nodes_side numcanon holo_ok idnum_digits (hsh_lex cls) (dsections d) -> Forall (TokRoundT.field_num_ok numcanon) (dmeta d) ->
  exists warns,
    parse_model cls numcanon holo_ok strict (lines_of (emit sp d)) = PRDoc d [] warns /\ Forall advisory warns.
Proof.
  intros Hc Hs. exact (text_roundtrip_coreth4 cls (hsh_lex cls) numcanon holo_ok strict sp d Hc (safeth4_doc_lex_any cls hsh0 d Hs)).
Qed.

Print Assumptions lex_emit_coreth4.
Print Assumptions text_roundtrip_coreth4.
Print Assumptions text_roundtrip_coreth4_lex.
