(* Token-level read-back theorem (parser half) for coret documents = core2 documents (Rt/TokRound2.v) plus
     - BLOCK TARGETS   KEY[->§TARGET]:   (NBlock k (Some target) children leading), and
     - HOLOGRAPHIC values   KEY::["x"∧REQ∧ENUM[a,b]→§SELF]   (NAssign k (VHolo raw) ..), at every nesting depth.

   Block targets.  The emitter writes `[`, FLOW, `§`, the target, `]` between the key and the colon.  parse_section calls
   parse_block_target on the opening bracket: FLOW, then SECTION IDENTIFIER (or a plain IDENTIFIER), then the closing bracket; the target is
   the text of the IDENTIFIER token.  Shape: IDENTIFIER(key) LIST_START FLOW SECTION IDENTIFIER(target) LIST_END BLOCK NEWLINE children.

   Holographic values.  The AST keeps the raw text; the emitter writes it verbatim.  The parser has NO holographic branch of its own:
   parse_value on LIST_START calls parse_list, which FIRST reads the bracket group as an ordinary list (parse_list_loop over whatever
   tokens are inside: strings, the CONSTRAINT operator as a one-token item, flow expressions with embedded bracket groups, ...), and only
   AFTER the closing bracket looks at the token slice of the group: if it contains a CONSTRAINT token and no COMMA at depth 1, the text
   reconstructed from the tokens (reconstruct_tok) is offered to the oracle holo_ok; if accepted the value is VHolo of that text, else the
   list.  So a holographic site needs more than "the oracle accepts the text": the group must be readable as a list in the first place.
   This file states that as ONE semantic hypothesis per site,
        holo_site raw :  every token list of the shape `hsh raw` is read by parse_value, in every frame, as VHolo raw, consuming
                         exactly the group and changing nothing else,
   proves the document theorem from it (Part A / B), and then DISCHARGES it for a syntactic class of groups (Part C, hgroup_site):
        [ example ∧ chain ]   example: one scalar token;  chain: a bare word, or a flow expression made of words, operators (not TENSION),
        §-references and `WORD[ simple tokens ]` constraint calls -- the forms  REQ  OPT→§INDEXER  REQ∧ENUM[a,b]→§SELF  REGEX["^a$"].

   Part B is Rt/TokRound2.v's node / document part re-proved over the new shapes (the value reader has the same form). *)
From OV Require Import Base.Strs Lex.Lexer Syn.Ast Syn.Parser Rt.TokRound Rt.TokRound2.
From Coq Require Import Lia.
Require Coq.Strings.String.
Import Coq.Strings.String.StringSyntax.
Open Scope N_scope.

(* ---- shapes ------------------------------------------------------------------------------------------------------------------------ *)
Definition target_sh (t : option str) : list sh :=
  match t with
  | Some x => [(LIST_START, None); (FLOW, None); (SECTION, None); (IDENTIFIER, Some (TVText x)); (LIST_END, None)]
  | None => []
  end.

Section ShapesT.
Variable ml : list value -> bool.
Variable idnum : str -> bool.
Variable hsh : str -> list sh.        (* the token shape of the bracket group of a holographic raw text.  ARBITRARY. *)

Definition val_sht (D : nat) (v : value) : list sh :=
  match v with
  | VHolo raw => hsh raw
  | _ => val_sh ml D v
  end.

Fixpoint main_sht (D : nat) (n : node) : list sh :=
  match n with
  | NAssign k v _ t => [(IDENTIFIER, Some (TVText k)); (ASSIGN, None)] ++ val_sht D v ++ trail_sh t ++ [(NEWLINE, None)]
  | NBlock k tg ch _ =>
      (IDENTIFIER, Some (TVText k)) :: target_sh tg ++ [(BLOCK, None); (NEWLINE, None)] ++
      flat_map (fun c => lead_sh (S D) (lead_of c) ++ indent_sh (S D) ++ main_sht (S D) c) ch
  | NSection i k a ch _ =>
      [(SECTION, None); id_sh idnum i; (ASSIGN, None); (IDENTIFIER, Some (TVText k))] ++ annot_sh a ++ [(NEWLINE, None)] ++
      flat_map (fun c => lead_sh (S D) (lead_of c) ++ indent_sh (S D) ++ main_sht (S D) c) ch
  | NComment _ => []
  end.
Definition node_sht (D : nat) (n : node) : list sh := lead_sh D (lead_of n) ++ indent_sh D ++ main_sht D n.
Definition nodes_sht (D : nat) (ns : list node) : list sh := flat_map (node_sht D) ns.
Lemma main_sht_block D k t ch l :
  main_sht D (NBlock k t ch l) = (IDENTIFIER, Some (TVText k)) :: target_sh t ++ [(BLOCK, None); (NEWLINE, None)] ++ nodes_sht (S D) ch.
Proof. reflexivity. Qed.
Lemma main_sht_section D i k a ch l :
  main_sht D (NSection i k a ch l) =
  [(SECTION, None); id_sh idnum i; (ASSIGN, None); (IDENTIFIER, Some (TVText k))] ++ annot_sh a ++ [(NEWLINE, None)] ++ nodes_sht (S D) ch.
Proof. reflexivity. Qed.

Definition doct_sh (d : doc) : list sh :=
  (match dgrammar d with Some g => [(GRAMMAR_SENTINEL, Some (TVText g)); (NEWLINE, None)] | None => [] end) ++
  [(ENVELOPE_START, Some (TVText (dname d))); (NEWLINE, None)] ++
  meta_sh ml (dmeta d) ++
  (if dsep d then [(SEPARATOR, None); (NEWLINE, None)] else []) ++
  nodes_sht 0 (dsections d) ++ lead_sh 0 (dtrailing d) ++ [(ENVELOPE_END, None)].
End ShapesT.

(* ---- the fragment ------------------------------------------------------------------------------------------------------------------ *)
Definition is_holo (v : value) : bool := match v with VHolo _ => true | _ => false end.
Definition cvalt (v : value) : bool := is_holo v || cval v.
Fixpoint coret_node (n : node) : bool :=
  match n with
  | NAssign k v _ t => cvalt v && opt_ne t
  | NBlock k tg ch _ => opt_ne tg && (negb (is_nil ch) && forallb coret_node ch)
  | NSection i k a ch _ => opt_ne a && (negb (is_nil ch) && forallb coret_node ch)
  | _ => false
  end.
Definition coret_doc (d : doc) : bool :=
  match dfront d with
  | None =>
      forallb coret_node (dsections d) && top_ok (dsections d) (dtrailing d) &&
      forallb meta_field_ok (dmeta d) && nodupb (map fst (dmeta d)) &&
      (negb (is_nil (dmeta d)) || dsep d || first_key_not_meta2 (dsections d))
  | Some _ => false
  end.

Section CoreT.
Variable numcanon : str -> option (bool * str).
Variable holo_ok : str -> bool.
Variable strict : bool.
Variable sp alpha : N -> bool.
Variable ml : list value -> bool.
Variable idnum : str -> bool.
Variable hsh : str -> list sh.

Notation pv := (parse_value numcanon holo_ok strict sp).
Notation psec := (parse_section numcanon holo_ok strict sp alpha).
Notation bloop := (block_loop numcanon holo_ok strict sp alpha).
Notation sloop := (section_loop numcanon holo_ok strict sp alpha).
Notation pmark := (parse_section_marker numcanon holo_ok strict sp alpha).
Notation dloop := (doc_loop numcanon holo_ok strict sp alpha).
Notation num_ok := (num_ok numcanon).
Notation num_ok_v := (num_ok_v numcanon).
Notation num_ok_val := (num_ok_val numcanon).

Ltac is_step H Hk :=
  repeat rewrite (is_hd _ _ _ _ H); rewrite ?Hk;
  cbn [tkind_eqb tkind_code N.eqb Pos.eqb orb andb negb kin existsb].

(* THE hypothesis of a holographic site: in every frame, every token list of the shape hsh raw is read as VHolo raw *)
Definition holo_site (raw : str) : Prop :=
  forall tsg st nt r f,
    Forall2 tmatch tsg (hsh raw) -> ptoks st = tsg ++ nt :: r -> pbdepth st = 0 -> after_val (tk nt) = true ->
    (2 * length tsg + 6 <= f)%nat ->
    exists st', pv f st = POk (VHolo raw) st' /\ ptoks st' = nt :: r /\ moved (length tsg) st st'.

Definition num_ok_valt (v : value) : Prop :=
  match v with
  | VHolo raw => holo_site raw
  | _ => num_ok_val v
  end.

Lemma pv_cvalt v D f st ts nt r :
  cvalt v = true -> num_ok_valt v -> (2 * length ts + 6 <= f)%nat ->
  Forall2 tmatch ts (val_sht ml hsh D v) -> ptoks st = ts ++ nt :: r -> after_val (tk nt) = true -> pbdepth st = 0 ->
  exists st', pv f st = POk v st' /\ ptoks st' = nt :: r /\ moved (length ts) st st'.
Proof.
  intros Hc Hnum Hf Hts Hst Hnt Hdep.
  destruct v as [|b|isf c|s|items| |raw| |];
    try (exact (TokRound2.pv_cval numcanon holo_ok strict sp ml _ D f st ts nt r Hc Hnum ltac:(lia) Hts Hst Hnt Hdep)).
  exact (Hnum ts st nt r f Hts Hst Hdep Hnt Hf).
Qed.

(* ---- blocks, with or without a target ------------------------------------------------------------------------------------------------ *)
Lemma psec_block_gen f leading st tg st2 :
  is SECTION st = false -> is IDENTIFIER st = true ->
  (if is LIST_START (adv st) then parse_block_target (adv st) else (None, adv st)) = (tg, st2) ->
  is ASSIGN st2 = false -> is FLOW st2 = false -> is BLOCK st2 = true ->
  psec (S f) leading st =
          let key := text_of (cur st) in
          let bt := cur st2 in
          let st3 := adv st2 in
          if is IDENTIFIER st3 && N.eqb (tline (cur st3)) (tline bt) then err_at e001 bt
          else
            let st4 := skip_kinds [NEWLINE; COMMENT] (fuel_of st3) st3 in
            if is FENCE_OPEN st4 then
              do (z, st5) <- parse_literal_zone sp st4;
              POk (Some (NBlock key tg [NAssign [] z [] None] leading)) st5
            else if is INDENT st4 then
              let ci := count_of (cur st4) in
              do (children, st5) <- bloop f ci ci [] [] [] (adv st4);
              POk (Some (NBlock key tg children leading)) st5
            else POk (Some (NBlock key tg [] leading)) st4.
Proof. intros H1 H2 H3 H4 H5 H6. cbn [parse_section]. rewrite H1, H2. cbn [negb]. rewrite H3, H4, H5, H6. reflexivity. Qed.

(* the header  KEY [->§T]  up to the BLOCK token *)
Lemma block_target_read st ti tg tsg tb r :
  ptoks st = ti :: tsg ++ tb :: r -> Forall2 tmatch tsg (target_sh tg) -> tk tb = BLOCK -> r <> [] ->
  exists st2, (if is LIST_START (adv st) then parse_block_target (adv st) else (None, adv st)) = (tg, st2) /\
              ptoks st2 = tb :: r /\ moved (S (length tsg)) st st2.
Proof.
  intros Hst Htg Hb Hr. destruct r as [|t0 r0]; [congruence|]. destruct tg as [x|]; cbn [target_sh] in Htg.
  - inversion Htg as [|tL ? ? ? [HLk _] H1]; subst. inversion H1 as [|tF ? ? ? [HFk _] H2]; subst. inversion H2 as [|tS ? ? ? [HSk _] H3]; subst.
    inversion H3 as [|tT ? ? ? [HTk HTv] H4]; subst. inversion H4 as [|tR ? ? ? [HRk _] H5]; subst. inversion H5; subst.
    cbn [fst snd] in HLk, HFk, HSk, HTk, HTv, HRk. cbn [app] in Hst.
    pose proof (adv_toks _ _ _ _ Hst) as A1. pose proof (adv_toks _ _ _ _ A1) as A2. pose proof (adv_toks _ _ _ _ A2) as A3.
    pose proof (adv_toks _ _ _ _ A3) as A4. pose proof (adv_toks _ _ _ _ A4) as A5. pose proof (adv_toks _ _ _ _ A5) as A6.
    is_step A1 HLk. unfold parse_block_target. is_step A2 HFk. is_step A3 HSk. is_step A4 HTk. rewrite (cur_hd _ _ _ A4).
    unfold text_of. rewrite HTv. is_step A5 HRk.
    eexists. split; [reflexivity|]. split; [exact A6|].
    change (S (length [tL; tF; tS; tT; tR])) with (1 + (1 + (1 + (1 + (1 + 1)))))%nat.
    eapply moved_trans; [exact (moved_adv _ _ _ _ Hst)|]. eapply moved_trans; [exact (moved_adv _ _ _ _ A1)|].
    eapply moved_trans; [exact (moved_adv _ _ _ _ A2)|]. eapply moved_trans; [exact (moved_adv _ _ _ _ A3)|].
    eapply moved_trans; [exact (moved_adv _ _ _ _ A4)|exact (moved_adv _ _ _ _ A5)].
  - inversion Htg; subst. cbn [app] in Hst. pose proof (adv_toks _ _ _ _ Hst) as A1. is_step A1 Hb.
    exists (adv st). split; [reflexivity|]. split; [exact A1|exact (moved_adv _ _ _ _ Hst)].
Qed.

(* ======== Part B: the loop / node / document lemmas of Rt/TokRound2.v over the new shapes ============================================ *)
Lemma psec_assign_eq f leading st :
  is SECTION st = false -> is IDENTIFIER st = true -> is LIST_START (adv st) = false ->
  is ASSIGN (adv st) = true -> is FLOW (adv st) = false ->
  psec (S f) leading st =
        let it := cur st in
        let key := text_of it in
        let st4 := adv (adv st) in
        let quoted := is STRING st4 in
        do (v, st5) <- pv (fuel_of st4 + fuel_of st4 + fuel_of st4) st4;
        let st6 := match is_vstr v with
                   | Some s => if str_in key pattern_keys && negb quoted
                               then warn (mkW 9 (tline it) (tcol it) key s [] []) st5 else st5
                   | None => st5
                   end in
        let '(trailing, st7) := if is COMMENT st6 then (Some (text_of (cur st6)), adv st6) else (None, st6) in
        POk (Some (NAssign key v leading trailing)) st7.
Proof. intros H1 H2 H3 H4 H5. cbn [parse_section]. rewrite H1, H2, H3. cbn [negb]. rewrite H4, H5. reflexivity. Qed.

Lemma psec_assign2 f leading st ts rest k v l0 trl D :
  cvalt v = true -> num_ok_valt v -> opt_ne trl = true ->
  Forall2 tmatch ts (main_sht ml idnum hsh D (NAssign k v l0 trl)) -> ptoks st = ts ++ rest -> pbdepth st = 0 ->
  exists st' tn, psec (S f) leading st = POk (Some (NAssign k v leading trl)) st' /\ ptoks st' = tn :: rest /\
                 tk tn = NEWLINE /\ sext st st'.
Proof.
  intros Hc Hnum Htr Hts Hst Hdep.
  cbn [main_sht] in Hts. cbn [app] in Hts.
  inversion Hts as [|ti ? ? ? [Hik Hiv] Hts1]; subst. inversion Hts1 as [|ta ? ts2 ? [Hak _] Hts2]; subst.
  cbn [fst snd] in Hik, Hiv, Hak.
  apply Forall2_app_inv_r in Hts2. destruct Hts2 as (tsv & ts3 & Htsv & Hts3 & ->).
  apply Forall2_app_inv_r in Hts3. destruct Hts3 as (tst & tsn & Htst & Htsn & ->).
  inversion Htsn as [|tn ? ? ? [Hnk _] Hnil]; subst. inversion Hnil; subst. cbn [fst] in Hnk.
  rewrite <- !app_comm_cons in Hst. rewrite <- !app_assoc in Hst. cbn [app] in Hst.
  assert (Hne : exists t1 r1, tsv ++ tst ++ tn :: rest = t1 :: r1) by (destruct tsv; [destruct tst|]; cbn [app]; eauto).
  destruct Hne as (t1 & r1 & E1). rewrite E1 in Hst.
  pose proof (adv_toks _ _ _ _ Hst) as H1. pose proof (adv_toks _ _ _ _ H1) as H2. rewrite <- E1 in H2.
  rewrite psec_assign_eq.
  2:{ rewrite (is_hd _ _ _ _ Hst), Hik. reflexivity. }
  2:{ rewrite (is_hd _ _ _ _ Hst), Hik. reflexivity. }
  2:{ rewrite (is_hd _ _ _ _ H1), Hak. reflexivity. }
  2:{ rewrite (is_hd _ _ _ _ H1), Hak. reflexivity. }
  2:{ rewrite (is_hd _ _ _ _ H1), Hak. reflexivity. }
  cbv zeta. rewrite (cur_hd _ _ _ Hst).
  assert (Hk : text_of ti = k) by (unfold text_of; rewrite Hiv; reflexivity). rewrite !Hk.
  assert (Hd2 : pbdepth (adv (adv st)) = 0) by (rewrite !adv_depth; exact Hdep).
  assert (W2 : sext st (adv (adv st))) by sadv.
  (* what follows the value *)
  assert (Hnt : exists nt r2, tst ++ tn :: rest = nt :: r2 /\ after_val (tk nt) = true).
  { destruct trl as [c|]; cbn [trail_sh] in Htst.
    - inversion Htst as [|tc ? ? ? [Hck _] Hnil']; subst. inversion Hnil'; subst. exists tc, (tn :: rest). split; [reflexivity|]. rewrite Hck. reflexivity.
    - inversion Htst; subst. exists tn, rest. split; [reflexivity|]. rewrite Hnk. reflexivity. }
  destruct Hnt as (nt & r2 & E2 & Hnt). rewrite E2 in H2.
  destruct (pv_cvalt v D (fuel_of (adv (adv st)) + fuel_of (adv (adv st)) + fuel_of (adv (adv st)))%nat (adv (adv st)) tsv nt r2 Hc Hnum)
    as (st5 & Hv & Hp5 & Hm5); [rewrite (fuel_of_toks _ _ H2), app_length; cbn [length]; lia|exact Htsv|exact H2|exact Hnt|exact Hd2|].
  rewrite Hv. cbn [bind].
  set (st6 := match is_vstr v with Some s => _ | None => _ end).
  assert (H6 : ptoks st6 = nt :: r2).
  { subst st6. destruct (is_vstr v); [destruct (_ && _)|]; [rewrite warn_toks| |]; exact Hp5. }
  assert (W6 : sext st st6).
  { eapply sext_trans; [exact W2|]. eapply sext_trans; [exact (moved_sext _ _ _ Hm5)|].
    subst st6. destruct (is_vstr v); [destruct (_ && _)|]; try apply sext_refl. apply sext_warn; right; reflexivity. }
  clearbody st6.
  destruct trl as [c|]; cbn [trail_sh] in Htst.
  - inversion Htst as [|tc ? ? ? [Hck Hcv] Hnil']; subst. inversion Hnil'; subst. cbn [fst snd] in Hck, Hcv.
    cbn [app] in E2. inversion E2; subst nt r2.
    is_step H6 Hck. rewrite (cur_hd _ _ _ H6).
    assert (Hc' : text_of tc = c) by (unfold text_of; rewrite Hcv; reflexivity). rewrite Hc'.
    exists (adv st6), tn. split; [reflexivity|]. split; [exact (adv_toks _ _ _ _ H6)|]. split; [exact Hnk|].
    eapply sext_trans; [exact W6|apply sext_adv].
  - inversion Htst; subst. cbn [app] in E2. inversion E2; subst nt r2.
    is_step H6 Hnk.
    exists st6, tn. split; [reflexivity|]. split; [exact H6|]. split; [exact Hnk|exact W6].
Qed.

(* ---- loops: one-step equations ---------------------------------------------------------------------------------------- *)
Lemma sloop_eq f ci cli pending acc dups st :
  sloop (S f) ci cli pending acc dups st =
      let fin (st' : pstate) := POk (rev acc ++ comments_as_nodes pending) st' in
      if is EOF st || is ENVELOPE_END st then fin st
      else if is INDENT st then
        let n := count_of (cur st) in
        if n <? ci then fin st else sloop f ci n pending acc dups (adv st)
      else if is COMMENT st then sloop f ci cli (pending ++ [text_of (cur st)]) acc dups (adv st)
      else if is SECTION st && (cli <? ci) then fin st
      else if is NEWLINE st then sloop f ci 0 pending acc dups (adv st)
      else if cli <? ci then fin st
      else
        let line := tline (cur st) in
        do (child, st1) <- psec f pending st;
        match child with
        | Some n =>
            let '(dups', st2) := match node_key_line n line with
                                 | Some (k, l) => track_dup k l dups st1
                                 | None => (dups, st1)
                                 end in
            sloop f ci 0 [] (n :: acc) dups' st2
        | None => POk (rev acc) st1
        end.
Proof. reflexivity. Qed.

Lemma pmark_eq f st :
  pmark (S f) st =
      let st1 := adv st in
      do (sid, st2) <-
         (if is NUMBER st1 then
            match tv (cur st1) with
            | TVNum raw =>
                match numcanon raw with
                | Some (_, c) =>
                    let st' := adv st1 in
                    if is IDENTIFIER st' then
                      match text_of (cur st') with
                      | [x] => if alpha x then POk (c ++ [x]) (adv st') else POk c st'
                      | _ => POk c st'
                      end
                    else POk c st'
                | None => POut 5
                end
            | _ => POut 5
            end
          else if is IDENTIFIER st1 then POk (text_of (cur st1)) (adv st1)
          else err_at e006p (cur st1));
      if negb (is ASSIGN st2) then err_at e006p (cur st2)
      else
        let st3 := adv st2 in
        do (name, st4) <-
           (if is IDENTIFIER st3 then POk (text_of (cur st3)) (adv st3)
            else if is NUMBER st3 then
              match tv (cur st3) with
              | TVNum raw =>
                  match numcanon raw with
                  | Some (_, c) =>
                      let st' := adv st3 in
                      if is IDENTIFIER st' then
                        match text_of (cur st') with
                        | [x] => if alpha x then POk (c ++ [x]) (adv st') else POk c st'
                        | _ => POk c st'
                        end
                      else POk c st'
                  | None => POut 5
                  end
              | _ => POut 5
              end
            else if kin (ck st3) [NEWLINE; INDENT; LIST_START] then POk sid st3
            else err_at e006p (cur st3));
        do (annot, st5) <- consume_annotation true st4;
        let st6 := skip_kinds [NEWLINE] (fuel_of st5) st5 in
        let '(pre, st7) := collect_pre (fuel_of st6) [] st6 in
        if is INDENT st7 then
          let ci := count_of (cur st7) in
          do (children, st8) <- sloop f ci ci pre [] [] (adv st7);
          POk (NSection sid name annot children []) st8
        else POk (NSection sid name annot (comments_as_nodes pre) []) st7.
Proof. reflexivity. Qed.

Lemma psec_section_eq f leading st :
  is SECTION st = true ->
  psec (S f) leading st =
        do (n, st1) <- pmark f st;
        POk (Some (match n, leading with
                   | NSection i k a ch _, _ :: _ => NSection i k a ch leading
                   | x, _ => x
                   end)) st1.
Proof. intros H. cbn [parse_section]. rewrite H. reflexivity. Qed.

(* ---- leading comment lines, consumed by the enclosing loop ------------------------------------------------------------- *)
Lemma lead_sh_cons D c cs : lead_sh D (c :: cs) = indent_sh D ++ [(COMMENT, Some (TVText c)); (NEWLINE, None)] ++ lead_sh D cs.
Proof. unfold lead_sh. cbn [flat_map]. rewrite <- app_assoc. reflexivity. Qed.

Lemma bloop_lead d cs : forall pending cli f acc dups st ts rest,
  Forall2 tmatch ts (lead_sh (S d) cs) -> ptoks st = ts ++ rest -> rest <> [] ->
  exists st' cli', bloop (3 * length cs + f) (ind_count (S d)) cli pending acc dups st =
                   bloop f (ind_count (S d)) cli' (pending ++ cs) acc dups st' /\ ptoks st' = rest /\ sext st st'.
Proof.
  induction cs as [|c cs IH]; intros pending cli f acc dups st ts rest Hts Hst Hr.
  - inversion Hts; subst. cbn [app] in Hst. exists st, cli. rewrite app_nil_r. split; [reflexivity|]. split; [exact Hst|apply sext_refl].
  - rewrite lead_sh_cons in Hts. cbn [indent_sh app] in Hts.
    inversion Hts as [|tI ? ? ? [HIk HIv] Hts1]; subst. inversion Hts1 as [|tC ? ? ? [HCk HCv] Hts2]; subst.
    inversion Hts2 as [|tN ? ts3 ? [HNk _] Hts3]; subst. cbn [fst snd] in HIk, HIv, HCk, HCv, HNk.
    rewrite <- !app_comm_cons in Hst.
    assert (Hne : exists t1 r1, ts3 ++ rest = t1 :: r1) by (destruct rest; [congruence|]; destruct ts3; cbn [app]; eauto).
    destruct Hne as (t1 & r1 & E1). rewrite E1 in Hst.
    replace (3 * length (c :: cs) + f)%nat with (S (S (S (3 * length cs + f)))) by (cbn [length]; lia).
    rewrite bloop_eq. cbv zeta. is_step Hst HIk. rewrite (cur_hd _ _ _ Hst).
    assert (HIc : count_of tI = ind_count (S d)) by (unfold count_of; rewrite HIv; reflexivity). rewrite !HIc, N.ltb_irrefl.
    pose proof (adv_toks _ _ _ _ Hst) as H1.
    rewrite bloop_eq. cbv zeta. is_step H1 HCk. rewrite (cur_hd _ _ _ H1).
    assert (Hc : text_of tC = c) by (unfold text_of; rewrite HCv; reflexivity). rewrite Hc.
    pose proof (adv_toks _ _ _ _ H1) as H2.
    rewrite bloop_eq. cbv zeta. is_step H2 HNk.
    pose proof (adv_toks _ _ _ _ H2) as H3. rewrite <- E1 in H3.
    destruct (IH (pending ++ [c]) 0 f acc dups (adv (adv (adv st))) ts3 rest Hts3 H3 Hr) as (st' & cli' & He & Hp & W).
    exists st', cli'. rewrite He, <- app_assoc. split; [reflexivity|]. split; [exact Hp|].
    eapply sext_trans; [|exact W]. sadv.
Qed.

Lemma sloop_lead d cs : forall pending cli f acc dups st ts rest,
  Forall2 tmatch ts (lead_sh (S d) cs) -> ptoks st = ts ++ rest -> rest <> [] ->
  exists st' cli', sloop (3 * length cs + f) (ind_count (S d)) cli pending acc dups st =
                   sloop f (ind_count (S d)) cli' (pending ++ cs) acc dups st' /\ ptoks st' = rest /\ sext st st'.
Proof.
  induction cs as [|c cs IH]; intros pending cli f acc dups st ts rest Hts Hst Hr.
  - inversion Hts; subst. cbn [app] in Hst. exists st, cli. rewrite app_nil_r. split; [reflexivity|]. split; [exact Hst|apply sext_refl].
  - rewrite lead_sh_cons in Hts. cbn [indent_sh app] in Hts.
    inversion Hts as [|tI ? ? ? [HIk HIv] Hts1]; subst. inversion Hts1 as [|tC ? ? ? [HCk HCv] Hts2]; subst.
    inversion Hts2 as [|tN ? ts3 ? [HNk _] Hts3]; subst. cbn [fst snd] in HIk, HIv, HCk, HCv, HNk.
    rewrite <- !app_comm_cons in Hst.
    assert (Hne : exists t1 r1, ts3 ++ rest = t1 :: r1) by (destruct rest; [congruence|]; destruct ts3; cbn [app]; eauto).
    destruct Hne as (t1 & r1 & E1). rewrite E1 in Hst.
    replace (3 * length (c :: cs) + f)%nat with (S (S (S (3 * length cs + f)))) by (cbn [length]; lia).
    rewrite sloop_eq. cbv zeta. is_step Hst HIk. rewrite (cur_hd _ _ _ Hst).
    assert (HIc : count_of tI = ind_count (S d)) by (unfold count_of; rewrite HIv; reflexivity). rewrite !HIc, N.ltb_irrefl.
    pose proof (adv_toks _ _ _ _ Hst) as H1.
    rewrite sloop_eq. cbv zeta. is_step H1 HCk. rewrite (cur_hd _ _ _ H1).
    assert (Hc : text_of tC = c) by (unfold text_of; rewrite HCv; reflexivity). rewrite Hc.
    pose proof (adv_toks _ _ _ _ H1) as H2.
    rewrite sloop_eq. cbv zeta. is_step H2 HNk.
    pose proof (adv_toks _ _ _ _ H2) as H3. rewrite <- E1 in H3.
    destruct (IH (pending ++ [c]) 0 f acc dups (adv (adv (adv st))) ts3 rest Hts3 H3 Hr) as (st' & cli' & He & Hp & W).
    exists st', cli'. rewrite He, <- app_assoc. split; [reflexivity|]. split; [exact Hp|].
    eapply sext_trans; [|exact W]. sadv.
Qed.

Lemma dloop_lead cs : forall pending f acc dups st ts rest,
  Forall2 tmatch ts (lead_sh 0 cs) -> ptoks st = ts ++ rest -> rest <> [] ->
  exists st', dloop (2 * length cs + f) pending acc dups st = dloop f (pending ++ cs) acc dups st' /\ ptoks st' = rest /\ sext st st'.
Proof.
  induction cs as [|c cs IH]; intros pending f acc dups st ts rest Hts Hst Hr.
  - inversion Hts; subst. cbn [app] in Hst. exists st. rewrite app_nil_r. split; [reflexivity|]. split; [exact Hst|apply sext_refl].
  - rewrite lead_sh_cons in Hts. cbn [indent_sh app] in Hts.
    inversion Hts as [|tC ? ? ? [HCk HCv] Hts2]; subst.
    inversion Hts2 as [|tN ? ts3 ? [HNk _] Hts3]; subst. cbn [fst snd] in HCk, HCv, HNk.
    rewrite <- !app_comm_cons in Hst.
    assert (Hne : exists t1 r1, ts3 ++ rest = t1 :: r1) by (destruct rest; [congruence|]; destruct ts3; cbn [app]; eauto).
    destruct Hne as (t1 & r1 & E1). rewrite E1 in Hst.
    replace (2 * length (c :: cs) + f)%nat with (S (S (2 * length cs + f))) by (cbn [length]; lia).
    rewrite dloop_eq. is_step Hst HCk. rewrite (cur_hd _ _ _ Hst).
    assert (Hc : text_of tC = c) by (unfold text_of; rewrite HCv; reflexivity). rewrite Hc.
    pose proof (adv_toks _ _ _ _ Hst) as H2.
    rewrite dloop_eq. is_step H2 HNk.
    pose proof (adv_toks _ _ _ _ H2) as H3. rewrite <- E1 in H3.
    destruct (IH (pending ++ [c]) f acc dups (adv (adv st)) ts3 rest Hts3 H3 Hr) as (st' & He & Hp & W).
    exists st'. rewrite He, <- app_assoc. split; [reflexivity|]. split; [exact Hp|].
    eapply sext_trans; [|exact W]. sadv.
Qed.

(* ---- oracle side conditions, fuel measure ------------------------------------------------------------------------------- *)
(* a section id that reaches the parser as a NUMBER token is read back through the number oracle *)
Definition id_ok (i : str) : Prop := idnum i = true -> exists isf, numcanon i = Some (isf, i).
Fixpoint nums_ok2 (n : node) : Prop :=
  match n with
  | NAssign _ v _ _ => num_ok_valt v
  | NBlock _ _ ch _ => (fix go (l : list node) : Prop := match l with [] => True | c :: r => nums_ok2 c /\ go r end) ch
  | NSection i _ _ ch _ =>
      id_ok i /\ (fix go (l : list node) : Prop := match l with [] => True | c :: r => nums_ok2 c /\ go r end) ch
  | NComment _ => True
  end.
Fixpoint nums_ok2_l (l : list node) : Prop := match l with [] => True | c :: r => nums_ok2 c /\ nums_ok2_l r end.
Lemma nums_ok2_block k t ch l : nums_ok2 (NBlock k t ch l) = nums_ok2_l ch.
Proof. cbn [nums_ok2]. induction ch as [|c r IH]; [reflexivity|]. cbn [nums_ok2_l]. rewrite <- IH. reflexivity. Qed.
Lemma nums_ok2_section i k a ch l : nums_ok2 (NSection i k a ch l) = (id_ok i /\ nums_ok2_l ch).
Proof. reflexivity. Qed.

Fixpoint sz2 (n : node) : nat :=
  match n with
  | NBlock _ _ ch _ =>
      (2 + (fix go (l : list node) : nat :=
              match l with [] => 1 | c :: r => 3 * length (lead_of c) + 3 + sz2 c + go r end) ch)%nat
  | NSection _ _ _ ch _ =>
      (3 + (fix go (l : list node) : nat :=
              match l with [] => 1 | c :: r => 3 * length (lead_of c) + 3 + sz2 c + go r end) ch)%nat
  | _ => 1%nat
  end.
Fixpoint lsz2 (l : list node) : nat :=
  match l with [] => 1%nat | c :: r => (3 * length (lead_of c) + 3 + sz2 c + lsz2 r)%nat end.
Lemma sz2_block k t ch l : sz2 (NBlock k t ch l) = (2 + lsz2 ch)%nat.
Proof. reflexivity. Qed.
Lemma sz2_section i k a ch l : sz2 (NSection i k a ch l) = (3 + lsz2 ch)%nat.
Proof. reflexivity. Qed.

Definition set_lead (n : node) (l : list str) : node :=
  match n with
  | NAssign k v _ t => NAssign k v l t
  | NBlock k t ch _ => NBlock k t ch l
  | NSection i k a ch _ => NSection i k a ch l
  | NComment t => NComment t
  end.
Lemma set_lead_id n : set_lead n (lead_of n) = n.
Proof. destruct n; reflexivity. Qed.

(* the statement proved by nested induction: parse_section, started on the node's first own token with the pending
   comments `leading`, returns the node carrying `leading` *)
Definition P_node2 (n : node) : Prop :=
  coret_node n = true -> nums_ok2 n ->
  forall D f leading st ts rest,
    (sz2 n <= f)%nat ->
    Forall2 tmatch ts (main_sht ml idnum hsh D n) ->
    ptoks st = ts ++ rest -> pbdepth st = 0 ->
    (is_container n = true -> ends_block (ind_count (S D)) rest) ->
    exists st' tail, psec f leading st = POk (Some (set_lead n leading)) st' /\ ptoks st' = tail ++ rest /\
                     tail_ok n tail /\ sext st st'.

Lemma node_sht_first D c : exists body,
  node_sht ml idnum hsh (S D) c = (INDENT, Some (TVCount (ind_count (S D)))) :: body.
Proof.
  unfold node_sht. destruct (lead_of c) as [|x xs].
  - cbn [lead_sh flat_map indent_sh app]. eexists. reflexivity.
  - rewrite lead_sh_cons. cbn [indent_sh app]. eexists. reflexivity.
Qed.

Lemma main_first n D : coret_node n = true ->
  exists s body, main_sht ml idnum hsh D n = s :: body /\ (fst s = IDENTIFIER \/ fst s = SECTION).
Proof.
  destruct n; cbn [coret_node]; try discriminate; intros _; cbn [main_sht app]; eexists; eexists; (split; [reflexivity|]); cbn [fst]; auto.
Qed.

(* what follows a child at depth S d: the next sibling (its first token is INDENT(2(S d))) or the end of the block *)
Lemma ends_after_child d cs ts2 rest :
  Forall2 tmatch ts2 (nodes_sht ml idnum hsh (S d) cs) -> ends_block (ind_count (S d)) rest ->
  ends_block (ind_count (S (S d))) (ts2 ++ rest).
Proof.
  intros Hts2 Hend. destruct cs as [|c2 cs'].
  - inversion Hts2; subst. cbn [app]. eapply (ends_block_mono sp alpha); [|exact Hend]. rewrite (ind_count_S (S d)). lia.
  - cbn [nodes_sht flat_map] in Hts2. apply Forall2_app_inv_r in Hts2. destruct Hts2 as (u1 & u2 & Hu1 & _ & ->).
    destruct (node_sht_first d c2) as (body2 & Hsh2). rewrite Hsh2 in Hu1.
    inversion Hu1 as [|tJ ? ? ? [HJk HJv] _]; subst. cbn [fst snd] in HJk, HJv.
    cbn [app ends_block]. unfold ends_blockb. rewrite HJk. unfold count_of. rewrite HJv.
    cbn [tkind_eqb tkind_code N.eqb Pos.eqb orb andb].
    assert (Hlt : (ind_count (S d) <? ind_count (S (S d))) = true) by (apply N.ltb_lt; rewrite (ind_count_S (S d)); lia).
    rewrite Hlt. reflexivity.
Qed.

Lemma sext_depth0 st st' : sext st st' -> pbdepth st = 0 -> pbdepth st' = 0.
Proof. intros [_ H] H0. congruence. Qed.

Lemma bloop_children2 ch :
  Forall P_node2 ch -> forallb coret_node ch = true -> nums_ok2_l ch ->
  forall d f cli acc dups st ts rest,
    (lsz2 ch <= f)%nat ->
    Forall2 tmatch ts (nodes_sht ml idnum hsh (S d) ch) ->
    ptoks st = ts ++ rest -> pbdepth st = 0 ->
    ends_block (ind_count (S d)) rest ->
    (ch = [] -> cli = 0) ->
    exists st', bloop f (ind_count (S d)) cli [] acc dups st = POk (rev acc ++ ch) st' /\ ptoks st' = rest /\ sext st st'.
Proof.
  induction ch as [|c cs IHl]; intros HP Hcore Hnum d f cli acc dups st ts rest Hf Hts Hst Hdep Hend Hcli.
  - inversion Hts; subst ts. cbn [app] in Hst. destruct rest as [|t r]; [destruct Hend|].
    cbn [lsz2] in Hf. destruct f as [|f]; [lia|]. rewrite (Hcli eq_refl).
    rewrite bloop_eq. cbv zeta. cbn [ends_block] in Hend. unfold ends_blockb in Hend.
    repeat rewrite (is_hd _ _ _ _ Hst). rewrite (cur_hd _ _ _ Hst).
    assert (H0 : (0 <? ind_count (S d)) = true) by (apply N.ltb_lt; unfold ind_count; lia).
    rewrite H0.
    destruct (tk t); cbn in Hend |- *; rewrite ?app_nil_r; try discriminate Hend;
      rewrite ?Bool.orb_false_r in Hend; rewrite ?Hend; eexists; (split; [reflexivity|split; [exact Hst|apply sext_refl]]).
  - inversion HP as [|? ? HPc HPcs]; subst.
    cbn [forallb] in Hcore. apply andb_prop in Hcore. destruct Hcore as [Hcc Hccs].
    destruct Hnum as [Hnc Hncs].
    cbn [nodes_sht flat_map] in Hts. apply Forall2_app_inv_r in Hts.
    destruct Hts as (ts1 & ts2 & Hts1 & Hts2 & ->).
    unfold node_sht in Hts1. apply Forall2_app_inv_r in Hts1. destruct Hts1 as (tl & ts1' & Htl & Hts1' & ->).
    cbn [indent_sh app] in Hts1'. inversion Hts1' as [|tI ? tm ? [HIk HIv] Htm]; subst. cbn [fst snd] in HIk, HIv.
    destruct (main_first c (S d) Hcc) as (s0 & body & Emain & Hs0). pose proof Htm as Htm'. rewrite Emain in Htm'.
    inversion Htm' as [|tb ? tm' ? [Hbk _] _]; subst. clear Htm'.
    cbn [lsz2] in Hf.
    replace f with (3 * length (lead_of c) + (f - 3 * length (lead_of c)))%nat by lia.
    remember (f - 3 * length (lead_of c))%nat as f1 eqn:Ef1.
    assert (Hf1 : (3 + sz2 c + lsz2 cs <= f1)%nat) by lia. clear Ef1 Hf.
    rewrite <- !app_assoc in Hst. rewrite <- app_comm_cons in Hst.
    destruct (bloop_lead d (lead_of c) [] cli f1 acc dups st tl (tI :: (tb :: tm') ++ ts2 ++ rest) Htl Hst) as (sta & cla & Ea & Hpa & Wa);
      [discriminate|].
    rewrite Ea. cbn [app] in Hpa |- *. clear Ea.
    pose proof (sext_depth0 _ _ Wa Hdep) as Hda.
    (* the INDENT of the header line *)
    destruct f1 as [|f1]; [lia|]. rewrite bloop_eq. cbv zeta.
    is_step Hpa HIk. rewrite (cur_hd _ _ _ Hpa).
    assert (HIc : count_of tI = ind_count (S d)) by (unfold count_of; rewrite HIv; reflexivity). rewrite !HIc. rewrite N.ltb_irrefl.
    pose proof (adv_toks _ _ _ _ Hpa) as H1.
    (* the child *)
    destruct f1 as [|f1]; [lia|].
    pose proof (ends_after_child d cs ts2 rest Hts2 Hend) as Hend'.
    assert (Hd1 : pbdepth (adv sta) = 0) by (rewrite adv_depth; exact Hda).
    destruct (HPc Hcc Hnc (S d) f1 (lead_of c) (adv sta) (tb :: tm') (ts2 ++ rest)) as (st1 & tail & Hp & Hst1 & Htail & W1);
      [lia|exact Htm|rewrite <- app_comm_cons; exact H1|exact Hd1|intros _; exact Hend'|].
    rewrite set_lead_id in Hp.
    rewrite bloop_eq. cbv zeta.
    assert (HK : tkind_eqb (tk tb) EOF = false /\ tkind_eqb (tk tb) ENVELOPE_END = false /\ tkind_eqb (tk tb) INDENT = false /\
                 tkind_eqb (tk tb) COMMENT = false /\ tkind_eqb (tk tb) NEWLINE = false /\ tkind_eqb (tk tb) FENCE_OPEN = false).
    { cbn [fst] in Hbk. destruct Hs0 as [E|E]; rewrite E in Hbk; rewrite Hbk; repeat split. }
    repeat rewrite (is_hd _ _ _ _ H1). destruct HK as (-> & -> & -> & -> & -> & ->). cbn [orb].
    rewrite N.ltb_irrefl. rewrite Hp. cbn [bind].
    (* after the child *)
    set (dl := match node_key_line c (tline (cur (adv sta))) with Some (k, l) => track_dup k l dups st1 | None => (dups, st1) end).
    assert (Hdl : ptoks (snd dl) = tail ++ ts2 ++ rest).
    { subst dl. destruct (node_key_line c _) as [[k l]|]; [rewrite track_dup_toks|]; exact Hst1. }
    assert (Wdl : sext st (snd dl)).
    { eapply sext_trans; [exact Wa|]. eapply sext_trans; [apply sext_adv|]. eapply sext_trans; [exact W1|].
      subst dl. destruct (node_key_line c _) as [[k l]|]; [apply sext_track_dup|apply sext_refl]. }
    destruct dl as [dups' st2] eqn:Edl. cbn [snd] in Hdl, Wdl.
    pose proof (sext_depth0 _ _ Wdl Hdep) as Hd2.
    assert (Hrest : exists t0 r0, ts2 ++ rest = t0 :: r0).
    { destruct rest as [|t0 r0]; [destruct Hend|]. destruct ts2; cbn [app]; eauto. }
    destruct c as [k v lead tr|k tg chn lead|i k a chn lead|]; cbn [coret_node] in Hcc; try discriminate Hcc.
    + (* assignment: one more iteration for its NEWLINE *)
      destruct Htail as (tn & -> & Htn). cbn [app] in Hdl.
      destruct Hrest as (t0 & r0 & Hr). rewrite Hr in Hdl.
      destruct f1 as [|f1]; [cbn [sz2] in Hf1; lia|]. rewrite bloop_eq. cbv zeta. is_step Hdl Htn.
      pose proof (adv_toks _ _ _ _ Hdl) as H2. rewrite <- Hr in H2.
      destruct (IHl HPcs Hccs Hncs d f1 0 (NAssign k v lead tr :: acc) dups' (adv st2) ts2 rest) as (st' & Hl & Hst' & W');
        [cbn [sz2] in Hf1; lia|exact Hts2|exact H2|rewrite adv_depth; exact Hd2|exact Hend|reflexivity|].
      exists st'. split; [|split; [exact Hst'|eapply sext_trans; [exact Wdl|eapply sext_trans; [apply sext_adv|exact W']]]].
      rewrite Hl. cbn [rev]. rewrite <- app_assoc. reflexivity.
    + cbn [tail_ok] in Htail. subst tail. cbn [app] in Hdl.
      destruct (IHl HPcs Hccs Hncs d f1 0 (NBlock k tg chn lead :: acc) dups' st2 ts2 rest) as (st' & Hl & Hst' & W');
        [lia|exact Hts2|exact Hdl|exact Hd2|exact Hend|reflexivity|].
      exists st'. split; [|split; [exact Hst'|eapply sext_trans; [exact Wdl|exact W']]].
      rewrite Hl. cbn [rev]. rewrite <- app_assoc. reflexivity.
    + cbn [tail_ok] in Htail. subst tail. cbn [app] in Hdl.
      destruct (IHl HPcs Hccs Hncs d f1 0 (NSection i k a chn lead :: acc) dups' st2 ts2 rest) as (st' & Hl & Hst' & W');
        [lia|exact Hts2|exact Hdl|exact Hd2|exact Hend|reflexivity|].
      exists st'. split; [|split; [exact Hst'|eapply sext_trans; [exact Wdl|exact W']]].
      rewrite Hl. cbn [rev]. rewrite <- app_assoc. reflexivity.
Qed.

Lemma sloop_children2 ch :
  Forall P_node2 ch -> forallb coret_node ch = true -> nums_ok2_l ch ->
  forall d f cli acc dups st ts rest,
    (lsz2 ch <= f)%nat ->
    Forall2 tmatch ts (nodes_sht ml idnum hsh (S d) ch) ->
    ptoks st = ts ++ rest -> pbdepth st = 0 ->
    ends_block (ind_count (S d)) rest ->
    (ch = [] -> cli = 0) ->
    exists st', sloop f (ind_count (S d)) cli [] acc dups st = POk (rev acc ++ ch) st' /\ ptoks st' = rest /\ sext st st'.
Proof.
  induction ch as [|c cs IHl]; intros HP Hcore Hnum d f cli acc dups st ts rest Hf Hts Hst Hdep Hend Hcli.
  - inversion Hts; subst ts. cbn [app] in Hst. destruct rest as [|t r]; [destruct Hend|].
    cbn [lsz2] in Hf. destruct f as [|f]; [lia|]. rewrite (Hcli eq_refl).
    rewrite sloop_eq. cbv zeta. cbn [ends_block] in Hend. unfold ends_blockb in Hend.
    repeat rewrite (is_hd _ _ _ _ Hst). rewrite (cur_hd _ _ _ Hst).
    assert (H0 : (0 <? ind_count (S d)) = true) by (apply N.ltb_lt; unfold ind_count; lia).
    rewrite H0.
    destruct (tk t); cbn in Hend |- *; rewrite ?app_nil_r; try discriminate Hend;
      rewrite ?Bool.orb_false_r in Hend; rewrite ?Hend; eexists; (split; [reflexivity|split; [exact Hst|apply sext_refl]]).
  - inversion HP as [|? ? HPc HPcs]; subst.
    cbn [forallb] in Hcore. apply andb_prop in Hcore. destruct Hcore as [Hcc Hccs].
    destruct Hnum as [Hnc Hncs].
    cbn [nodes_sht flat_map] in Hts. apply Forall2_app_inv_r in Hts.
    destruct Hts as (ts1 & ts2 & Hts1 & Hts2 & ->).
    unfold node_sht in Hts1. apply Forall2_app_inv_r in Hts1. destruct Hts1 as (tl & ts1' & Htl & Hts1' & ->).
    cbn [indent_sh app] in Hts1'. inversion Hts1' as [|tI ? tm ? [HIk HIv] Htm]; subst. cbn [fst snd] in HIk, HIv.
    destruct (main_first c (S d) Hcc) as (s0 & body & Emain & Hs0). pose proof Htm as Htm'. rewrite Emain in Htm'.
    inversion Htm' as [|tb ? tm' ? [Hbk _] _]; subst. clear Htm'.
    cbn [lsz2] in Hf.
    replace f with (3 * length (lead_of c) + (f - 3 * length (lead_of c)))%nat by lia.
    remember (f - 3 * length (lead_of c))%nat as f1 eqn:Ef1.
    assert (Hf1 : (3 + sz2 c + lsz2 cs <= f1)%nat) by lia. clear Ef1 Hf.
    rewrite <- !app_assoc in Hst. rewrite <- app_comm_cons in Hst.
    destruct (sloop_lead d (lead_of c) [] cli f1 acc dups st tl (tI :: (tb :: tm') ++ ts2 ++ rest) Htl Hst) as (sta & cla & Ea & Hpa & Wa);
      [discriminate|].
    rewrite Ea. cbn [app] in Hpa |- *. clear Ea.
    pose proof (sext_depth0 _ _ Wa Hdep) as Hda.
    (* the INDENT of the header line *)
    destruct f1 as [|f1]; [lia|]. rewrite sloop_eq. cbv zeta.
    is_step Hpa HIk. rewrite (cur_hd _ _ _ Hpa).
    assert (HIc : count_of tI = ind_count (S d)) by (unfold count_of; rewrite HIv; reflexivity). rewrite !HIc. rewrite N.ltb_irrefl.
    pose proof (adv_toks _ _ _ _ Hpa) as H1.
    (* the child *)
    destruct f1 as [|f1]; [lia|].
    pose proof (ends_after_child d cs ts2 rest Hts2 Hend) as Hend'.
    assert (Hd1 : pbdepth (adv sta) = 0) by (rewrite adv_depth; exact Hda).
    destruct (HPc Hcc Hnc (S d) f1 (lead_of c) (adv sta) (tb :: tm') (ts2 ++ rest)) as (st1 & tail & Hp & Hst1 & Htail & W1);
      [lia|exact Htm|rewrite <- app_comm_cons; exact H1|exact Hd1|intros _; exact Hend'|].
    rewrite set_lead_id in Hp.
    rewrite sloop_eq. cbv zeta.
    assert (HK : tkind_eqb (tk tb) EOF = false /\ tkind_eqb (tk tb) ENVELOPE_END = false /\ tkind_eqb (tk tb) INDENT = false /\
                 tkind_eqb (tk tb) COMMENT = false /\ tkind_eqb (tk tb) NEWLINE = false).
    { cbn [fst] in Hbk. destruct Hs0 as [E|E]; rewrite E in Hbk; rewrite Hbk; repeat split. }
    repeat rewrite (is_hd _ _ _ _ H1). rewrite N.ltb_irrefl, Bool.andb_false_r. destruct HK as (-> & -> & -> & -> & ->). cbn [orb].
    rewrite Hp. cbn [bind].
    (* after the child *)
    set (dl := match node_key_line c (tline (cur (adv sta))) with Some (k, l) => track_dup k l dups st1 | None => (dups, st1) end).
    assert (Hdl : ptoks (snd dl) = tail ++ ts2 ++ rest).
    { subst dl. destruct (node_key_line c _) as [[k l]|]; [rewrite track_dup_toks|]; exact Hst1. }
    assert (Wdl : sext st (snd dl)).
    { eapply sext_trans; [exact Wa|]. eapply sext_trans; [apply sext_adv|]. eapply sext_trans; [exact W1|].
      subst dl. destruct (node_key_line c _) as [[k l]|]; [apply sext_track_dup|apply sext_refl]. }
    destruct dl as [dups' st2] eqn:Edl. cbn [snd] in Hdl, Wdl.
    pose proof (sext_depth0 _ _ Wdl Hdep) as Hd2.
    assert (Hrest : exists t0 r0, ts2 ++ rest = t0 :: r0).
    { destruct rest as [|t0 r0]; [destruct Hend|]. destruct ts2; cbn [app]; eauto. }
    destruct c as [k v lead tr|k tg chn lead|i k a chn lead|]; cbn [coret_node] in Hcc; try discriminate Hcc.
    + (* assignment: one more iteration for its NEWLINE *)
      destruct Htail as (tn & -> & Htn). cbn [app] in Hdl.
      destruct Hrest as (t0 & r0 & Hr). rewrite Hr in Hdl.
      destruct f1 as [|f1]; [cbn [sz2] in Hf1; lia|]. rewrite sloop_eq. cbv zeta. is_step Hdl Htn.
      pose proof (adv_toks _ _ _ _ Hdl) as H2. rewrite <- Hr in H2.
      destruct (IHl HPcs Hccs Hncs d f1 0 (NAssign k v lead tr :: acc) dups' (adv st2) ts2 rest) as (st' & Hl & Hst' & W');
        [cbn [sz2] in Hf1; lia|exact Hts2|exact H2|rewrite adv_depth; exact Hd2|exact Hend|reflexivity|].
      exists st'. split; [|split; [exact Hst'|eapply sext_trans; [exact Wdl|eapply sext_trans; [apply sext_adv|exact W']]]].
      rewrite Hl. cbn [rev]. rewrite <- app_assoc. reflexivity.
    + cbn [tail_ok] in Htail. subst tail. cbn [app] in Hdl.
      destruct (IHl HPcs Hccs Hncs d f1 0 (NBlock k tg chn lead :: acc) dups' st2 ts2 rest) as (st' & Hl & Hst' & W');
        [lia|exact Hts2|exact Hdl|exact Hd2|exact Hend|reflexivity|].
      exists st'. split; [|split; [exact Hst'|eapply sext_trans; [exact Wdl|exact W']]].
      rewrite Hl. cbn [rev]. rewrite <- app_assoc. reflexivity.
    + cbn [tail_ok] in Htail. subst tail. cbn [app] in Hdl.
      destruct (IHl HPcs Hccs Hncs d f1 0 (NSection i k a chn lead :: acc) dups' st2 ts2 rest) as (st' & Hl & Hst' & W');
        [lia|exact Hts2|exact Hdl|exact Hd2|exact Hend|reflexivity|].
      exists st'. split; [|split; [exact Hst'|eapply sext_trans; [exact Wdl|exact W']]].
      rewrite Hl. cbn [rev]. rewrite <- app_assoc. reflexivity.
Qed.

Lemma first_indent D c cs tsc :
  Forall2 tmatch tsc (nodes_sht ml idnum hsh (S D) (c :: cs)) ->
  exists tI r0, tsc = tI :: r0 /\ tk tI = INDENT /\ count_of tI = ind_count (S D).
Proof.
  intros Hb3. cbn [nodes_sht flat_map] in Hb3. apply Forall2_app_inv_r in Hb3. destruct Hb3 as (u1 & u2 & Hu1 & _ & ->).
  destruct (node_sht_first D c) as (body & Hsh). rewrite Hsh in Hu1.
  inversion Hu1 as [|tI ? r1 ? [HIk HIv] _]; subst. cbn [fst snd] in HIk, HIv.
  exists tI, (r1 ++ u2). split; [reflexivity|]. split; [exact HIk|]. unfold count_of. rewrite HIv. reflexivity.
Qed.

Lemma P_assign k v l t : P_node2 (NAssign k v l t).
Proof.
  unfold P_node2. intros Hcore Hnum D f leading st ts rest Hf Hts Hst Hdep _.
  cbn [coret_node] in Hcore. apply andb_prop in Hcore. destruct Hcore as [Hc Ht].
  cbn [sz2] in Hf. destruct f as [|f]; [lia|]. cbn [nums_ok2] in Hnum.
  destruct (psec_assign2 f leading st ts rest k v l t D Hc Hnum Ht Hts Hst Hdep) as (st' & tn & Hp & Hp' & Hn & W).
  exists st', [tn]. split; [exact Hp|]. split; [exact Hp'|]. split; [|exact W]. exists tn. split; [reflexivity|exact Hn].
Qed.

Lemma P_block k tg ch l : Forall P_node2 ch -> P_node2 (NBlock k tg ch l).
Proof.
  unfold P_node2 at 2. intros IH Hcore Hnum D f leading st ts rest Hf Hts Hst Hdep Hend. specialize (Hend eq_refl).
  cbn [coret_node] in Hcore. apply andb_prop in Hcore. destruct Hcore as [_ Hcore].
  apply andb_prop in Hcore. destruct Hcore as [Hne Hcc].
  rewrite nums_ok2_block in Hnum. rewrite sz2_block in Hf.
  rewrite main_sht_block in Hts.
  inversion Hts as [|ti ? ts1 ? [Hik Hiv] Hb0]; subst. cbn [fst snd] in Hik, Hiv.
  apply Forall2_app_inv_r in Hb0. destruct Hb0 as (tsg & ts2 & Htsg & Hb1 & ->).
  cbn [app] in Hb1. inversion Hb1 as [|tb ? ? ? [Hbk _] Hb2]; subst. inversion Hb2 as [|tn ? tsc ? [Hnk _] Hb3]; subst. cbn [fst] in Hbk, Hnk.
  destruct ch as [|c cs]; [discriminate Hne|].
  destruct (first_indent D c cs tsc Hb3) as (tI & r0 & Etsc & HIk & HIc).
  assert (Hst' : ptoks st = ti :: tsg ++ tb :: tn :: tI :: r0 ++ rest).
  { rewrite Hst, Etsc. cbn [app]. rewrite <- !app_assoc. reflexivity. }
  destruct (block_target_read st ti tg tsg tb (tn :: tI :: r0 ++ rest) Hst' Htsg Hbk) as (st2 & Etg & Hp2 & Hm2); [discriminate|].
  destruct f as [|f]; [lia|].
  rewrite (psec_block_gen f leading st tg st2); [| | |exact Etg| | |].
  2,3: rewrite (is_hd _ _ _ _ Hst'), Hik; reflexivity.
  2,3,4: rewrite (is_hd _ _ _ _ Hp2), Hbk; reflexivity.
  cbv zeta. pose proof (adv_toks _ _ _ _ Hp2) as H2. is_step H2 Hnk.
  rewrite (cur_hd _ _ _ Hst'). assert (Hk : text_of ti = k) by (unfold text_of; rewrite Hiv; reflexivity). rewrite Hk.
  rewrite (fuel_of_toks _ _ H2). cbn [length].
  rewrite (skip_nl_step _ _ _ _ _ _ H2); [|rewrite Hnk; reflexivity|rewrite Hnk; discriminate].
  pose proof (adv_toks _ _ _ _ H2) as H3.
  rewrite (skip_stop _ _ _ _ _ H3); [|rewrite HIk; reflexivity].
  is_step H3 HIk. rewrite (cur_hd _ _ _ H3), HIc.
  assert (Hfold : bloop f (ind_count (S D)) (ind_count (S D)) [] [] [] (adv (adv (adv st2))) =
                  bloop (S f) (ind_count (S D)) (ind_count (S D)) [] [] [] (adv (adv st2))).
  { rewrite bloop_eq. cbv zeta. is_step H3 HIk. rewrite (cur_hd _ _ _ H3), HIc, N.ltb_irrefl. reflexivity. }
  rewrite Hfold.
  assert (W2 : sext st (adv (adv st2))) by (eapply sext_trans; [exact (moved_sext _ _ _ Hm2)|]; sadv).
  destruct (bloop_children2 (c :: cs) IH Hcc Hnum D (S f) (ind_count (S D)) [] [] (adv (adv st2)) tsc rest)
    as (st' & Hl & Hst'' & W'); [lia|exact Hb3|rewrite H3, Etsc; reflexivity|exact (sext_depth0 _ _ W2 Hdep)|exact Hend|discriminate|].
  rewrite Hl. cbn [bind rev app set_lead].
  exists st', []. split; [reflexivity|]. split; [exact Hst''|]. split; [reflexivity|].
  eapply sext_trans; [exact W2|exact W'].
Qed.

(* ---- section markers ------------------------------------------------------------------------------------------------------ *)
Lemma capture_eq f depth acc st :
  capture_brackets (S f) depth acc st =
      if (0 <? depth) && negb (is EOF st) then
        let k := ck st in
        if tkind_eqb k LIST_START then capture_brackets f (depth + 1) ([c_lbr] :: acc) (adv st)
        else if tkind_eqb k LIST_END then
          capture_brackets f (depth - 1) (if 0 <? depth - 1 then [c_rbr] :: acc else acc) (adv st)
        else if tkind_eqb k COMMA then capture_brackets f depth ([c_comma] :: acc) (adv st)
        else if kin k [COMMENT; NEWLINE; INDENT] then capture_brackets f depth acc (adv st)
        else match tok_to_str (cur st) with
             | Some s => capture_brackets f depth (s :: acc) (adv st)
             | None => POut 1
             end
      else POk (rev acc) st.
Proof. reflexivity. Qed.

Lemma annot_read a st ts tn r :
  Forall2 tmatch ts (annot_sh a) -> ptoks st = ts ++ tn :: r -> tk tn = NEWLINE -> r <> [] ->
  exists st', consume_annotation true st = POk a st' /\ ptoks st' = tn :: r /\ sext st st'.
Proof.
  intros Hts Hst Hn Hr. unfold consume_annotation. destruct a as [x|]; cbn [annot_sh] in Hts.
  - inversion Hts as [|tL ? ? ? [HLk _] Hts1]; subst. inversion Hts1 as [|tX ? ? ? [HXk HXv] Hts2]; subst.
    inversion Hts2 as [|tR ? ? ? [HRk _] Hts3]; subst. inversion Hts3; subst. cbn [fst snd] in HLk, HXk, HXv, HRk.
    cbn [app] in Hst. is_step Hst HLk.
    pose proof (adv_toks _ _ _ _ Hst) as H1. pose proof (adv_toks _ _ _ _ H1) as H2.
    destruct r as [|t0 r0]; [congruence|]. pose proof (adv_toks _ _ _ _ H2) as H3.
    rewrite (fuel_of_toks _ _ Hst). cbn [length].
    rewrite capture_eq. change (0 <? 1) with true. cbv zeta. unfold ck at 1 2 3 4. rewrite (is_hd _ _ _ _ H1), (cur_hd _ _ _ H1), HXk.
    cbn [tkind_eqb tkind_code N.eqb Pos.eqb kin existsb orb andb negb]. unfold tok_to_str. rewrite HXk, HXv.
    rewrite capture_eq. change (0 <? 1) with true. cbv zeta. unfold ck at 1 2 3 4. rewrite (is_hd _ _ _ _ H2), (cur_hd _ _ _ H2), HRk.
    cbn [tkind_eqb tkind_code N.eqb Pos.eqb kin existsb orb andb negb]. change (1 - 1) with 0. change (0 <? 0) with false. cbv iota.
    rewrite capture_eq. change (0 <? 0) with false. cbn [andb bind rev app concat]. rewrite app_nil_r.
    eexists. split; [reflexivity|]. split; [exact H3|]. sadv.
  - inversion Hts; subst. cbn [app] in Hst. is_step Hst Hn. exists st. split; [reflexivity|]. split; [exact Hst|apply sext_refl].
Qed.

Lemma sid_read i st tid ta r :
  ptoks st = tid :: ta :: r -> tmatch tid (id_sh idnum i) -> tk ta = ASSIGN -> id_ok i ->
  (if is NUMBER st then
     match tv (cur st) with
     | TVNum raw =>
         match numcanon raw with
         | Some (_, c) =>
             if is IDENTIFIER (adv st) then
               match text_of (cur (adv st)) with
               | [x] => if alpha x then POk (c ++ [x]) (adv (adv st)) else POk c (adv st)
               | _ => POk c (adv st)
               end
             else POk c (adv st)
         | None => POut 5
         end
     | _ => POut 5
     end
   else if is IDENTIFIER st then POk (text_of (cur st)) (adv st)
   else err_at e006p (cur st)) = POk i (adv st).
Proof.
  intros Hst [Hk Hv] Ha Hid. unfold id_sh in Hk, Hv. unfold id_ok in Hid.
  pose proof (adv_toks _ _ _ _ Hst) as H1.
  destruct (idnum i); cbn [fst snd] in Hk, Hv.
  - destruct (Hid eq_refl) as (isf & Hnc). is_step Hst Hk. rewrite (cur_hd _ _ _ Hst), Hv, Hnc.
    is_step H1 Ha. reflexivity.
  - is_step Hst Hk. rewrite (cur_hd _ _ _ Hst). unfold text_of. rewrite Hv. reflexivity.
Qed.

Lemma P_section i k a ch l : Forall P_node2 ch -> P_node2 (NSection i k a ch l).
Proof.
  unfold P_node2 at 2. intros IH Hcore Hnum D f leading st ts rest Hf Hts Hst Hdep Hend. specialize (Hend eq_refl).
  cbn [coret_node] in Hcore. apply andb_prop in Hcore. destruct Hcore as [Han Hcore].
  apply andb_prop in Hcore. destruct Hcore as [Hne Hcc].
  rewrite nums_ok2_section in Hnum. destruct Hnum as [Hid Hnum]. rewrite sz2_section in Hf.
  rewrite main_sht_section in Hts. cbn [app] in Hts.
  inversion Hts as [|tS ? ? ? [HSk _] Hb1]; subst. inversion Hb1 as [|tid ? ? ? Hidm Hb2]; subst.
  inversion Hb2 as [|ta ? ? ? [Hak _] Hb3]; subst. inversion Hb3 as [|tkey ? ts4 ? [Hkk Hkv] Hb4]; subst.
  cbn [fst snd] in HSk, Hak, Hkk, Hkv.
  apply Forall2_app_inv_r in Hb4. destruct Hb4 as (tsa & ts5 & Htsa & Hb5 & ->).
  inversion Hb5 as [|tn ? tsc ? [Hnk _] Hb6]; subst. cbn [fst] in Hnk.
  destruct ch as [|c cs]; [discriminate Hne|].
  destruct (first_indent D c cs tsc Hb6) as (tI & r0 & Etsc & HIk & HIc).
  rewrite <- !app_comm_cons in Hst. rewrite <- app_assoc in Hst. rewrite <- app_comm_cons in Hst. rewrite Etsc in Hst.
  rewrite <- app_comm_cons in Hst.
  assert (Hne4 : exists t4 r4, tsa ++ tn :: tI :: r0 ++ rest = t4 :: r4) by (destruct tsa; cbn [app]; eauto).
  destruct Hne4 as (t4 & r4 & E4). rewrite E4 in Hst.
  pose proof (adv_toks _ _ _ _ Hst) as H1. pose proof (adv_toks _ _ _ _ H1) as H2. pose proof (adv_toks _ _ _ _ H2) as H3.
  pose proof (adv_toks _ _ _ _ H3) as H4. rewrite <- E4 in H4.
  destruct f as [|[|f]]; try lia.
  rewrite psec_section_eq; [|rewrite (is_hd _ _ _ _ Hst), HSk; reflexivity].
  rewrite pmark_eq. cbv zeta.
  rewrite (sid_read i (adv st) tid ta _ H1 Hidm Hak Hid). cbn [bind].
  is_step H2 Hak. is_step H3 Hkk. rewrite (cur_hd _ _ _ H3).
  assert (Hk : text_of tkey = k) by (unfold text_of; rewrite Hkv; reflexivity). rewrite Hk. cbn [bind].
  destruct (annot_read a (adv (adv (adv (adv st)))) tsa tn (tI :: r0 ++ rest) Htsa H4 Hnk) as (st5 & Han5 & Hp5 & W5); [discriminate|].
  rewrite Han5. cbn [bind].
  rewrite (skip_one_nl [NEWLINE] _ _ _ _ (fuel_of st5) Hp5 Hnk eq_refl); [|rewrite HIk; reflexivity|rewrite (fuel_of_toks _ _ Hp5); cbn [length]; lia].
  pose proof (adv_toks _ _ _ _ Hp5) as H6.
  rewrite (fuel_of_toks _ _ H6). cbn [length collect_pre]. is_step H6 HIk. cbn [rev].
  is_step H6 HIk. rewrite (cur_hd _ _ _ H6), HIc.
  assert (Hfold : sloop f (ind_count (S D)) (ind_count (S D)) [] [] [] (adv (adv st5)) =
                  sloop (S f) (ind_count (S D)) (ind_count (S D)) [] [] [] (adv st5)).
  { rewrite sloop_eq. cbv zeta. is_step H6 HIk. rewrite (cur_hd _ _ _ H6), HIc, N.ltb_irrefl. reflexivity. }
  rewrite Hfold.
  assert (W6 : sext st (adv st5)) by (eapply sext_trans; [|apply sext_adv]; eapply sext_trans; [|exact W5]; sadv).
  destruct (sloop_children2 (c :: cs) IH Hcc Hnum D (S f) (ind_count (S D)) [] [] (adv st5) tsc rest)
    as (st' & Hl & Hst' & W'); [lia|exact Hb6|rewrite H6, Etsc; reflexivity|exact (sext_depth0 _ _ W6 Hdep)|exact Hend|discriminate|].
  rewrite Hl. cbn [bind rev app set_lead].
  exists st', []. split; [destruct leading; reflexivity|]. split; [exact Hst'|]. split; [reflexivity|].
  eapply sext_trans; [exact W6|exact W'].
Qed.

Theorem all_P_node2 : forall n, P_node2 n.
Proof.
  apply node_ind2.
  - apply P_assign.
  - apply P_block.
  - apply P_section.
  - intros t Hcore; discriminate Hcore.
Qed.



(* ---- document level ------------------------------------------------------------------------------------------------------ *)
Lemma lead_sh_len_S D cs : length (lead_sh (S D) cs) = (3 * length cs)%nat.
Proof. induction cs as [|c cs IH]; [reflexivity|]. rewrite lead_sh_cons, !app_length. unfold sh in *. rewrite IH. cbn [indent_sh length]. lia. Qed.
Lemma lead_sh_len_0 cs : length (lead_sh 0 cs) = (2 * length cs)%nat.
Proof. induction cs as [|c cs IH]; [reflexivity|]. rewrite lead_sh_cons, !app_length. unfold sh in *. rewrite IH. cbn [indent_sh length]. lia. Qed.

Lemma main_len_pos D n : coret_node n = true -> (3 <= length (main_sht ml idnum hsh D n))%nat.
Proof.
  destruct n; cbn [coret_node]; try discriminate; intros _; cbn [main_sht length]; rewrite ?app_length; cbn [length]; lia.
Qed.

Lemma node_sht_len D c : length (node_sht ml idnum hsh (S D) c) = (3 * length (lead_of c) + 1 + length (main_sht ml idnum hsh (S D) c))%nat.
Proof. unfold node_sht. rewrite !app_length, lead_sh_len_S. cbn [indent_sh length]. lia. Qed.

Lemma lsz2_le_len ch D :
  Forall (fun n => forall D, coret_node n = true -> (sz2 n + 3 <= 3 * length (main_sht ml idnum hsh D n))%nat) ch ->
  forallb coret_node ch = true -> (lsz2 ch <= 1 + 3 * length (nodes_sht ml idnum hsh (S D) ch))%nat.
Proof.
  induction ch as [|c cs IH]; intros H Hcc; [cbn; lia|].
  inversion H as [|? ? Hc Hcs]; subst. cbn [forallb] in Hcc. apply andb_prop in Hcc. destruct Hcc as [Hcc1 Hcc2].
  cbn [lsz2 nodes_sht flat_map]. rewrite app_length, node_sht_len.
  specialize (Hc (S D) Hcc1). specialize (IH Hcs Hcc2). unfold nodes_sht in IH. unfold sh in *. lia.
Qed.

Lemma sz2_le_len n : forall D, coret_node n = true -> (sz2 n + 3 <= 3 * length (main_sht ml idnum hsh D n))%nat.
Proof.
  induction n using node_ind2; intros D Hc; cbn [coret_node] in Hc; try discriminate Hc.
  - cbn [sz2 main_sht]. rewrite !app_length. cbn [length]. lia.
  - apply andb_prop in Hc. destruct Hc as [_ Hc]. apply andb_prop in Hc. destruct Hc as [_ Hcc].
    rewrite sz2_block, main_sht_block. cbn [length]. rewrite !app_length. cbn [length].
    pose proof (lsz2_le_len ch D H Hcc). unfold sh in *. lia.
  - apply andb_prop in Hc. destruct Hc as [_ Hc]. apply andb_prop in Hc. destruct Hc as [_ Hcc].
    rewrite sz2_section, main_sht_section. rewrite !app_length. cbn [length].
    pose proof (lsz2_le_len ch D H Hcc). unfold sh in *. lia.
Qed.

Fixpoint dfuel (ns : list node) (trl : list str) : nat :=
  match ns with
  | [] => (2 * length trl + 1)%nat
  | c :: r => (2 * length (lead_of c) + 2 + dfuel r trl)%nat
  end.

(* first token after a top-level container: not a comment *)
Lemma ends_after_top c cs trl ts2 tE tail :
  is_container c = true -> top_ok (c :: cs) trl = true -> forallb coret_node cs = true ->
  Forall2 tmatch ts2 (nodes_sht ml idnum hsh 0 cs ++ lead_sh 0 trl) -> tk tE = ENVELOPE_END ->
  ends_block (ind_count 1) (ts2 ++ tE :: tail).
Proof.
  intros Hcont Htop Hcc Hts2 HE. cbn [top_ok] in Htop. rewrite Hcont in Htop. apply andb_prop in Htop. destruct Htop as [Hn _].
  destruct cs as [|c2 cs'].
  - destruct trl; [|discriminate Hn]. inversion Hts2; subst. cbn [app ends_block]. unfold ends_blockb. rewrite HE. reflexivity.
  - cbn [forallb] in Hcc. apply andb_prop in Hcc. destruct Hcc as [Hc2 _].
    cbn [nodes_sht flat_map] in Hts2. rewrite <- app_assoc in Hts2. unfold node_sht in Hts2.
    destruct (lead_of c2); [|discriminate Hn]. cbn [lead_sh flat_map indent_sh app] in Hts2.
    destruct (main_first c2 0%nat Hc2) as (s0 & body & Emain & Hs0). rewrite Emain in Hts2. rewrite <- app_comm_cons in Hts2.
    inversion Hts2 as [|tJ ? ? ? [HJk _] _]; subst. cbn [app ends_block]. unfold ends_blockb.
    destruct Hs0 as [E|E]; rewrite E in HJk; rewrite HJk; reflexivity.
Qed.

Lemma dloop_nodes2 trl ns :
  forallb coret_node ns = true -> nums_ok2_l ns -> top_ok ns trl = true ->
  forall f acc dups st ts tE tail,
    (dfuel ns trl <= f)%nat ->
    Forall2 tmatch ts (nodes_sht ml idnum hsh 0 ns ++ lead_sh 0 trl) ->
    ptoks st = ts ++ tE :: tail -> tk tE = ENVELOPE_END -> pbdepth st = 0 ->
    exists st', dloop f [] acc dups st = POk (rev acc ++ ns, trl) st' /\ ptoks st' = tE :: tail /\ sext st st'.
Proof.
  induction ns as [|c cs IH]; intros Hcore Hnum Htop f acc dups st ts tE tail Hf Hts Hst HE Hdep.
  - cbn [nodes_sht flat_map app] in Hts. cbn [dfuel] in Hf.
    replace f with (2 * length trl + (f - 2 * length trl))%nat by lia.
    destruct (dloop_lead trl [] (f - 2 * length trl)%nat acc dups st ts (tE :: tail) Hts Hst) as (sta & Ea & Hpa & Wa); [discriminate|].
    rewrite Ea. cbn [app]. destruct (f - 2 * length trl)%nat as [|f1] eqn:Ef; [lia|].
    rewrite dloop_eq. is_step Hpa HE. rewrite app_nil_r. exists sta. split; [reflexivity|]. split; [exact Hpa|exact Wa].
  - cbn [forallb] in Hcore. apply andb_prop in Hcore. destruct Hcore as [Hcc Hccs]. destruct Hnum as [Hnc Hncs].
    cbn [nodes_sht flat_map] in Hts. rewrite <- app_assoc in Hts. apply Forall2_app_inv_r in Hts. destruct Hts as (ts1 & ts2 & Hts1 & Hts2 & ->).
    unfold node_sht in Hts1. cbn [indent_sh app] in Hts1. apply Forall2_app_inv_r in Hts1. destruct Hts1 as (tl & tm & Htl & Htm & ->).
    destruct (main_first c 0%nat Hcc) as (s0 & body & Emain & Hs0). pose proof Htm as Htm'. rewrite Emain in Htm'.
    inversion Htm' as [|tb ? tm' ? [Hbk _] _]; subst. clear Htm'. cbn [fst] in Hbk.
    cbn [dfuel] in Hf.
    replace f with (2 * length (lead_of c) + (f - 2 * length (lead_of c)))%nat by lia.
    remember (f - 2 * length (lead_of c))%nat as f1 eqn:Ef1.
    assert (Hf1 : (2 + dfuel cs trl <= f1)%nat) by lia. clear Ef1 Hf.
    rewrite <- !app_assoc in Hst.
    destruct (dloop_lead (lead_of c) [] f1 acc dups st tl ((tb :: tm') ++ ts2 ++ tE :: tail) Htl Hst) as (sta & Ea & Hpa & Wa); [discriminate|].
    rewrite Ea. cbn [app] in Hpa |- *. clear Ea.
    pose proof (sext_depth0 _ _ Wa Hdep) as Hda.
    destruct f1 as [|f1]; [lia|].
    rewrite dloop_eq.
    assert (HK : tkind_eqb (tk tb) EOF = false /\ tkind_eqb (tk tb) ENVELOPE_END = false /\ tkind_eqb (tk tb) INDENT = false /\
                 tkind_eqb (tk tb) COMMENT = false /\ tkind_eqb (tk tb) NEWLINE = false).
    { destruct Hs0 as [E|E]; rewrite E in Hbk; rewrite Hbk; repeat split. }
    repeat rewrite (is_hd _ _ _ _ Hpa). destruct HK as (-> & -> & -> & -> & ->). cbn [orb]. cbv zeta.
    destruct (all_P_node2 c Hcc Hnc 0%nat (vfuel sta + fuel_of sta)%nat (lead_of c) sta (tb :: tm') (ts2 ++ tE :: tail))
      as (st1 & tl1 & Hp & Hst1 & Htl1 & W1); [|exact Htm|rewrite <- app_comm_cons; exact Hpa|exact Hda| |].
    { pose proof (sz2_le_len c 0%nat Hcc) as Hsz. pose proof (F2_length _ _ _ Htm) as Hlen.
      unfold vfuel. rewrite (fuel_of_toks _ _ Hpa). cbn [length]. rewrite app_length. cbn [length] in Hlen. unfold sh in *. lia. }
    { intros Hcont. exact (ends_after_top c cs trl ts2 tE tail Hcont Htop Hccs Hts2 HE). }
    rewrite set_lead_id in Hp. rewrite Hp. cbn [bind].
    assert (Htop' : top_ok cs trl = true) by (cbn [top_ok] in Htop; apply andb_prop in Htop; apply Htop).
    set (dl := match node_key_line c (tline (cur sta)) with Some (k, l) => track_dup k l dups st1 | None => (dups, st1) end).
    assert (Hdl : ptoks (snd dl) = tl1 ++ ts2 ++ tE :: tail).
    { subst dl. destruct (node_key_line c _) as [[k l]|]; [rewrite track_dup_toks|]; exact Hst1. }
    assert (Wdl : sext st (snd dl)).
    { eapply sext_trans; [exact Wa|]. eapply sext_trans; [exact W1|].
      subst dl. destruct (node_key_line c _) as [[k l]|]; [apply sext_track_dup|apply sext_refl]. }
    destruct dl as [dups' st2] eqn:Edl. cbn [snd] in Hdl, Wdl.
    pose proof (sext_depth0 _ _ Wdl Hdep) as Hd2.
    destruct c as [k v lead tr|k tg chn lead|i k a chn lead|]; cbn [coret_node] in Hcc; try discriminate Hcc.
    + destruct Htl1 as (tn & -> & Htn). cbn [app] in Hdl.
      destruct f1 as [|f1]; [lia|]. rewrite dloop_eq. is_step Hdl Htn.
      assert (Hne : exists t0 r0, ts2 ++ tE :: tail = t0 :: r0) by (destruct ts2; cbn [app]; eauto).
      destruct Hne as (t0 & r0 & Hr). rewrite Hr in Hdl. pose proof (adv_toks _ _ _ _ Hdl) as H2. rewrite <- Hr in H2.
      destruct (IH Hccs Hncs Htop' f1 (NAssign k v lead tr :: acc) dups' (adv st2) ts2 tE tail) as (st' & Hl & Hst' & W');
        [lia|exact Hts2|exact H2|exact HE|rewrite adv_depth; exact Hd2|].
      exists st'. split; [|split; [exact Hst'|eapply sext_trans; [exact Wdl|eapply sext_trans; [apply sext_adv|exact W']]]].
      rewrite Hl. cbn [rev]. rewrite <- app_assoc. reflexivity.
    + cbn [tail_ok] in Htl1. subst tl1. cbn [app] in Hdl.
      destruct (IH Hccs Hncs Htop' f1 (NBlock k tg chn lead :: acc) dups' st2 ts2 tE tail) as (st' & Hl & Hst' & W');
        [lia|exact Hts2|exact Hdl|exact HE|exact Hd2|].
      exists st'. split; [|split; [exact Hst'|eapply sext_trans; [exact Wdl|exact W']]].
      rewrite Hl. cbn [rev]. rewrite <- app_assoc. reflexivity.
    + cbn [tail_ok] in Htl1. subst tl1. cbn [app] in Hdl.
      destruct (IH Hccs Hncs Htop' f1 (NSection i k a chn lead :: acc) dups' st2 ts2 tE tail) as (st' & Hl & Hst' & W');
        [lia|exact Hts2|exact Hdl|exact HE|exact Hd2|].
      exists st'. split; [|split; [exact Hst'|eapply sext_trans; [exact Wdl|exact W']]].
      rewrite Hl. cbn [rev]. rewrite <- app_assoc. reflexivity.
Qed.

(* ---- META block ------------------------------------------------------------------------------------------------------------ *)
Notation mloop := (meta_loop numcanon holo_ok strict sp).

Lemma mloop_eq f il hi m dups st :
  mloop (S f) il hi m dups st =
      if is EOF st || is ENVELOPE_END st then POk m st
      else if is INDENT st then
        if count_of (cur st) <? il then POk m st else mloop f il true m dups (adv st)
      else if is NEWLINE st then mloop f il false m dups (adv st)
      else if is COMMENT st then
        if (0 <? il) && negb hi then POk m st else mloop f il hi m dups (adv st)
      else if is IDENTIFIER st then
        if (0 <? il) && negb hi then POk m st
        else
          let kt := cur st in
          let key := text_of kt in
          let st1 := adv st in
          if is ASSIGN st1 then
            do (v, st2) <- pv (vfuel st1) (adv st1);
            let '(dups', st3) := track_dup key (tline kt) dups st2 in
            mloop f il hi (dict_set m key (MV v)) dups' st3
          else if is BLOCK st1 then
            let st2 := skip_kinds [NEWLINE; COMMENT] (fuel_of st1) (adv st1) in
            do (nested, st3) <-
               (if is INDENT st2 then meta_nested_loop numcanon holo_ok strict sp (fuel_of st2 + fuel_of st2) (count_of (cur st2)) true [] [] (adv st2)
                else POk [] st2);
            let '(dups', st4) := track_dup key (tline kt) dups st3 in
            mloop f il false (dict_set m key (MD nested)) dups' st4
          else mloop f il hi m dups st1
      else POk m st.
Proof. reflexivity. Qed.

Lemma str_eqb_sym a b : str_eqb a b = str_eqb b a.
Proof.
  destruct (str_eqb a b) eqn:E1, (str_eqb b a) eqn:E2; try reflexivity.
  - apply str_eqb_eq in E1. subst. rewrite str_eqb_refl in E2. discriminate.
  - apply str_eqb_eq in E2. subst. rewrite str_eqb_refl in E1. discriminate.
Qed.
Lemma dict_set_fresh {A} (m : list (str * A)) k v : str_in k (map fst m) = false -> dict_set m k v = m ++ [(k, v)].
Proof.
  induction m as [|[k' v'] m IH]; [reflexivity|]. cbn [map fst str_in dict_set]. intros H. apply Bool.orb_false_iff in H. destruct H as [H1 H2].
  rewrite str_eqb_sym, H1. cbn [app]. rewrite (IH H2). reflexivity.
Qed.
Lemma str_in_app x a b : str_in x (a ++ b) = str_in x a || str_in x b.
Proof. induction a as [|y a IH]; [reflexivity|]. cbn [app str_in]. rewrite IH, Bool.orb_assoc. reflexivity. Qed.
Lemma nodupb_mid a k b : nodupb (a ++ k :: b) = true -> str_in k a = false /\ nodupb ((a ++ [k]) ++ b) = true.
Proof.
  intros H. split; [|rewrite <- app_assoc; exact H].
  induction a as [|x a IH]; [reflexivity|]. cbn [app nodupb] in H. apply andb_prop in H. destruct H as [H1 H2].
  cbn [str_in]. rewrite (IH H2), Bool.orb_false_r. apply Bool.negb_true_iff in H1. rewrite str_in_app in H1.
  apply Bool.orb_false_iff in H1. destruct H1 as [_ H1]. cbn [str_in] in H1. apply Bool.orb_false_iff in H1. rewrite str_eqb_sym. apply H1.
Qed.

Definition field_sh (kv : str * metaval) : list sh :=
  indent_sh 1 ++ [(IDENTIFIER, Some (TVText (fst kv))); (ASSIGN, None)] ++
  (match snd kv with MV v => val_sh ml 1 v | MD _ => [] end) ++ [(NEWLINE, None)].
Definition field_num_ok (kv : str * metaval) : Prop := match snd kv with MV v => num_ok_val v | MD _ => True end.
Definition meta_end (rest : list token) : Prop :=
  match rest with t :: _ :: _ => tk t <> INDENT /\ tk t <> NEWLINE | _ => False end.

Lemma mloop_fields fields : forall m1 f hi dups st ts rest,
  forallb meta_field_ok fields = true -> Forall field_num_ok fields ->
  nodupb (map fst m1 ++ map fst fields) = true ->
  (3 * length fields + 1 <= f)%nat ->
  Forall2 tmatch ts (flat_map field_sh fields) -> ptoks st = ts ++ rest -> pbdepth st = 0 -> meta_end rest ->
  (fields = [] -> hi = false) ->
  exists st', mloop f (ind_count 1) hi m1 dups st = POk (m1 ++ fields) st' /\ ptoks st' = rest /\ sext st st'.
Proof.
  induction fields as [|[k mv] fs IH]; intros m1 f hi dups st ts rest Hok Hnum Hnd Hf Hts Hst Hdep Hend Hhi.
  - inversion Hts; subst. cbn [app] in Hst. rewrite (Hhi eq_refl). destruct f as [|f]; [cbn in Hf; lia|].
    destruct rest as [|t [|t2 r]]; [destruct Hend|destruct Hend|]. destruct Hend as [HnI HnN].
    rewrite mloop_eq. repeat rewrite (is_hd _ _ _ _ Hst). change (0 <? ind_count 1) with true. cbn [andb negb]. rewrite app_nil_r.
    exists st. split; [|split; [exact Hst|apply sext_refl]].
    destruct (tk t); cbn [tkind_eqb tkind_code N.eqb Pos.eqb orb]; try reflexivity; congruence.
  - cbn [forallb] in Hok. apply andb_prop in Hok. destruct Hok as [Hk Hoks].
    inversion Hnum as [|? ? Hn1 Hns]; subst.
    unfold meta_field_ok in Hk. unfold field_num_ok in Hn1. cbn [snd] in Hk, Hn1. destruct mv as [v|]; [|discriminate Hk].
    cbn [flat_map] in Hts. apply Forall2_app_inv_r in Hts. destruct Hts as (ts1 & ts2 & Hts1 & Hts2 & ->).
    unfold field_sh in Hts1. cbn [fst snd indent_sh app] in Hts1.
    inversion Hts1 as [|tI ? ? ? [HIk HIv] Hb1]; subst. inversion Hb1 as [|ti ? ? ? [Hik Hiv] Hb2]; subst.
    inversion Hb2 as [|ta ? ts3 ? [Hak _] Hb3]; subst. cbn [fst snd] in HIk, HIv, Hik, Hiv, Hak.
    apply Forall2_app_inv_r in Hb3. destruct Hb3 as (tsv & tsn & Htsv & Htsn & ->).
    inversion Htsn as [|tn ? ? ? [Hnk _] Hnil]; subst. inversion Hnil; subst. cbn [fst] in Hnk.
    rewrite <- !app_comm_cons in Hst. rewrite <- !app_assoc in Hst. cbn [app] in Hst.
    assert (Hne : exists t1 r1, tsv ++ tn :: ts2 ++ rest = t1 :: r1) by (destruct tsv; cbn [app]; eauto).
    destruct Hne as (t1 & r1 & E1). rewrite E1 in Hst.
    pose proof (adv_toks _ _ _ _ Hst) as H1. pose proof (adv_toks _ _ _ _ H1) as H2. pose proof (adv_toks _ _ _ _ H2) as H3.
    rewrite <- E1 in H3.
    cbn [length] in Hf. destruct f as [|[|[|f]]]; try lia.
    (* INDENT *)
    rewrite mloop_eq. is_step Hst HIk. rewrite (cur_hd _ _ _ Hst).
    assert (HIc : count_of tI = ind_count 1) by (unfold count_of; rewrite HIv; reflexivity). rewrite HIc, N.ltb_irrefl.
    (* KEY ASSIGN value *)
    rewrite mloop_eq. is_step H1 Hik. change (0 <? ind_count 1) with true. cbn [andb negb]. cbv zeta.
    is_step H2 Hak. rewrite (cur_hd _ _ _ H1).
    assert (Hkey : text_of ti = k) by (unfold text_of; rewrite Hiv; reflexivity). rewrite Hkey.
    destruct (TokRound2.pv_cval numcanon holo_ok strict sp ml v 1%nat (vfuel (adv (adv st))) (adv (adv (adv st))) tsv tn (ts2 ++ rest) Hk Hn1) as (st5 & Hv & Hp5 & Hm5);
      [unfold vfuel; rewrite (fuel_of_toks _ _ H2); cbn [length]; pose proof (f_equal (@length _) E1) as EL; rewrite app_length in EL; cbn [length] in EL; lia|exact Htsv|exact H3|rewrite Hnk; reflexivity|rewrite !adv_depth; exact Hdep|].
    rewrite Hv. cbn [bind].
    pose proof (track_dup_toks k (tline ti) dups st5) as Htd. pose proof (sext_track_dup k (tline ti) dups st5) as Wtd.
    destruct (track_dup k (tline ti) dups st5) as [dups' st6]. cbn [snd] in Htd, Wtd. rewrite Hp5 in Htd.
    cbn [map fst] in Hnd. apply nodupb_mid in Hnd. destruct Hnd as [Hfresh Hnd'].
    rewrite (dict_set_fresh m1 k (MV v) Hfresh).
    assert (W6 : sext st st6).
    { eapply sext_trans; [|exact Wtd]. eapply sext_trans; [|exact (moved_sext _ _ _ Hm5)]. sadv. }
    (* NEWLINE *)
    assert (Hne2 : exists t2 r2, ts2 ++ rest = t2 :: r2).
    { destruct rest as [|t [|t2 r]]; [destruct Hend|destruct Hend|]. destruct ts2; cbn [app]; eauto. }
    destruct Hne2 as (t2 & r2 & E2). rewrite E2 in Htd.
    rewrite mloop_eq. is_step Htd Hnk. pose proof (adv_toks _ _ _ _ Htd) as H7. rewrite <- E2 in H7.
    destruct (IH (m1 ++ [(k, MV v)]) f false dups' (adv st6) ts2 rest Hoks Hns) as (st' & Hl & Hp' & W');
      [rewrite map_app; exact Hnd'|lia|exact Hts2|exact H7|rewrite adv_depth; exact (sext_depth0 _ _ W6 Hdep)|exact Hend|reflexivity|].
    rewrite Hl, <- app_assoc. exists st'. split; [reflexivity|]. split; [exact Hp'|].
    eapply sext_trans; [exact W6|]. eapply sext_trans; [apply sext_adv|exact W'].
Qed.

Notation pmeta := (parse_meta_block numcanon holo_ok strict sp).

Lemma fields_len m : (2 * length m <= length (flat_map field_sh m))%nat.
Proof.
  induction m as [|kv m IH]; [cbn; lia|]. cbn [flat_map length]. rewrite app_length. unfold field_sh at 1.
  rewrite !app_length. cbn [length indent_sh]. lia.
Qed.

Lemma meta_sh_fields m : m <> [] ->
  meta_sh ml m = [(IDENTIFIER, Some (TVText (lit "META"))); (BLOCK, None); (NEWLINE, None)] ++ flat_map field_sh m.
Proof. destruct m; [congruence|reflexivity]. Qed.

Lemma pmeta_read m st ts rest :
  m <> [] -> forallb meta_field_ok m = true -> Forall field_num_ok m -> nodupb (map fst m) = true ->
  Forall2 tmatch ts (meta_sh ml m) -> ptoks st = ts ++ rest -> pbdepth st = 0 -> meta_end rest ->
  exists st', pmeta st = POk m st' /\ ptoks st' = rest /\ sext st st'.
Proof.
  intros Hne Hok Hnum Hnd Hts Hst Hdep Hend. rewrite (meta_sh_fields m Hne) in Hts. cbn [app] in Hts.
  inversion Hts as [|tM ? ? ? [HMk _] Hb1]; subst. inversion Hb1 as [|tB ? ? ? [HBk _] Hb2]; subst.
  inversion Hb2 as [|tN ? tsf ? [HNk _] Hb3]; subst. cbn [fst] in HMk, HBk, HNk.
  rewrite <- !app_comm_cons in Hst.
  assert (HI : exists tI r0, tsf = tI :: r0 /\ tk tI = INDENT /\ count_of tI = ind_count 1).
  { destruct m as [|kv m']; [congruence|]. cbn [flat_map] in Hb3. apply Forall2_app_inv_r in Hb3. destruct Hb3 as (u1 & u2 & Hu1 & _ & ->).
    unfold field_sh in Hu1. cbn [indent_sh app] in Hu1. inversion Hu1 as [|tI ? r1 ? [HIk HIv] _]; subst. cbn [fst snd] in HIk, HIv.
    exists tI, (r1 ++ u2). split; [reflexivity|]. split; [exact HIk|]. unfold count_of. rewrite HIv. reflexivity. }
  destruct HI as (tI & r0 & Etsf & HIk & HIc).
  pose proof (adv_toks _ _ _ _ Hst) as H1.
  assert (H1' : ptoks (adv st) = tB :: tN :: tI :: r0 ++ rest) by (rewrite H1, Etsf; reflexivity).
  pose proof (adv_toks _ _ _ _ H1') as H2. pose proof (adv_toks _ _ _ _ H2) as H3.
  unfold parse_meta_block, expect. is_step Hst HMk. cbn [bind]. is_step H1' HBk. cbn [bind].
  rewrite (skip_one_nl [NEWLINE; COMMENT] _ _ _ _ (fuel_of (adv (adv st))) H2 HNk eq_refl);
    [|rewrite HIk; reflexivity|rewrite (fuel_of_toks _ _ H2); cbn [length]; lia].
  is_step H3 HIk. rewrite (cur_hd _ _ _ H3), HIc.
  set (F := (fuel_of (adv (adv (adv st))) + fuel_of (adv (adv (adv st))))%nat).
  assert (Hfold : mloop F (ind_count 1) true [] [] (adv (adv (adv (adv st)))) = mloop (S F) (ind_count 1) true [] [] (adv (adv (adv st)))).
  { rewrite mloop_eq. is_step H3 HIk. rewrite (cur_hd _ _ _ H3), HIc, N.ltb_irrefl. reflexivity. }
  rewrite Hfold.
  destruct (mloop_fields m [] (S F) true [] (adv (adv (adv st))) tsf rest Hok Hnum Hnd) as (st' & Hl & Hp' & W');
    [|exact Hb3|rewrite H3, Etsf; reflexivity|rewrite !adv_depth; exact Hdep|exact Hend|intros E; congruence|].
  { subst F. rewrite (fuel_of_toks _ _ H3). pose proof (fields_len m) as HL. pose proof (F2_length _ _ _ Hb3) as HL2.
    rewrite Etsf in HL2. cbn [length] in *. rewrite app_length. unfold sh in *. lia. }
  exists st'. split; [exact Hl|]. split; [exact Hp'|]. eapply sext_trans; [|exact W']. sadv.
Qed.

(* ---- parse_document in three pieces ---------------------------------------------------------------------------------------- *)
Definition doc_after_meta (name : str) (g : option str) (meta : list (str * metaval)) (st3 : pstate) : pres doc :=
  let '(sep0, st4) :=
    if is SEPARATOR st3 then (true, skip_kinds [NEWLINE] (fuel_of st3) (adv st3)) else (false, st3) in
  do (r, st5) <- dloop (fuel_of st4 + fuel_of st4) [] [] [] st4;
  let '(sections, trailing) := r in
  let st6 := if is ENVELOPE_END st5 then adv st5 else st5 in
  POk (mkDoc name g None sep0 meta sections trailing) st6.

Definition doc_after_grammar (g : option str) (st1 : pstate) : pres doc :=
  let '(name, st2) :=
    if is ENVELOPE_START st1 then (text_of (cur st1), skip_kinds [NEWLINE] (fuel_of st1) (adv st1))
    else (lit "INFERRED", st1) in
  do (meta, st3) <-
     (if is IDENTIFIER st2 && str_eqb (text_of (cur st2)) (lit "META") then
        do (m, s') <- pmeta st2; POk m (skip_kinds [NEWLINE] (fuel_of s') s')
      else POk [] st2);
  doc_after_meta name g meta st3.

Lemma parse_document_eq st0 :
  parse_document numcanon holo_ok strict sp alpha st0 =
  let st := skip_kinds [NEWLINE; COMMENT] (fuel_of st0) st0 in
  let '(grammar, st1) :=
    if is GRAMMAR_SENTINEL st then (Some (text_of (cur st)), skip_kinds [NEWLINE; COMMENT] (fuel_of st) (adv st))
    else (None, st) in
  doc_after_grammar grammar st1.
Proof. reflexivity. Qed.

Definition bfirst_ok (t : token) : Prop := kin (tk t) [ENVELOPE_END; COMMENT; SECTION; IDENTIFIER] = true.

Lemma body_first2 ns trl tsb tE tail :
  forallb coret_node ns = true -> Forall2 tmatch tsb (nodes_sht ml idnum hsh 0 ns ++ lead_sh 0 trl) -> tk tE = ENVELOPE_END ->
  exists t r, tsb ++ tE :: tail = t :: r /\ bfirst_ok t /\
              (first_key_not_meta2 ns = true -> (tkind_eqb (tk t) IDENTIFIER && str_eqb (text_of t) (lit "META")) = false).
Proof.
  intros Hc Hts HE. unfold bfirst_ok. destruct ns as [|c cs].
  - cbn [nodes_sht flat_map app] in Hts. destruct trl as [|x xs].
    + inversion Hts; subst. exists tE, tail. rewrite HE. repeat split.
    + rewrite lead_sh_cons in Hts. cbn [indent_sh app] in Hts. inversion Hts as [|t ? r1 ? [Hk _] _]; subst. cbn [fst] in Hk.
      exists t, (r1 ++ tE :: tail). rewrite Hk. repeat split.
  - cbn [forallb] in Hc. apply andb_prop in Hc. destruct Hc as [Hc _].
    cbn [nodes_sht flat_map] in Hts. unfold node_sht at 1 in Hts. destruct (lead_of c) as [|x xs] eqn:El.
    + cbn [lead_sh flat_map indent_sh app] in Hts.
      destruct c as [k v lead tr|k tg chn lead|i k a chn lead|]; cbn [coret_node] in Hc; try discriminate Hc; cbn [lead_of] in El; subst lead;
        cbn [main_sht app] in Hts; inversion Hts as [|t ? r1 ? [Hk Hv] _]; subst; cbn [fst snd] in Hk, Hv;
        exists t, (r1 ++ tE :: tail); rewrite Hk; (split; [reflexivity|]); (split; [reflexivity|]); cbn [first_key_not_meta2]; intros Hm;
        try reflexivity; unfold text_of; rewrite Hv; apply Bool.negb_true_iff; exact Hm.
    + rewrite lead_sh_cons in Hts. cbn [indent_sh app] in Hts. inversion Hts as [|t ? r1 ? [Hk _] _]; subst. cbn [fst] in Hk.
      exists t, (r1 ++ tE :: tail). rewrite Hk. repeat split.
Qed.

Lemma dfuel_le ns trl : forallb coret_node ns = true ->
  (dfuel ns trl <= 1 + length (nodes_sht ml idnum hsh 0 ns ++ lead_sh 0 trl))%nat.
Proof.
  induction ns as [|c cs IH]; intros Hc.
  - cbn [dfuel nodes_sht flat_map app]. rewrite lead_sh_len_0. lia.
  - cbn [forallb] in Hc. apply andb_prop in Hc. destruct Hc as [Hc Hcs]. specialize (IH Hcs).
    cbn [dfuel nodes_sht flat_map]. rewrite <- app_assoc, app_length. unfold node_sht at 1. rewrite !app_length, !lead_sh_len_0.
    pose proof (main_len_pos 0 c Hc). unfold nodes_sht in IH. rewrite app_length, lead_sh_len_0 in IH. cbn [indent_sh length]. unfold sh in *. lia.
Qed.

Definition sep_sh (b : bool) : list sh := if b then [(SEPARATOR, None); (NEWLINE, None)] else [].

Lemma after_meta_read name g meta sep secs trl st3 tsp tsb tE tail :
  forallb coret_node secs = true -> nums_ok2_l secs -> top_ok secs trl = true ->
  Forall2 tmatch tsp (sep_sh sep) -> Forall2 tmatch tsb (nodes_sht ml idnum hsh 0 secs ++ lead_sh 0 trl) ->
  tk tE = ENVELOPE_END -> tail <> [] -> ptoks st3 = tsp ++ tsb ++ tE :: tail -> pbdepth st3 = 0 ->
  exists st', doc_after_meta name g meta st3 = POk (mkDoc name g None sep meta secs trl) st' /\ sext st3 st'.
Proof.
  intros Hcc Hnum Htop Htsp Htsb HE Htail Hst Hdep.
  destruct (body_first2 secs trl tsb tE tail Hcc Htsb HE) as (tb & rb & Ebody & Hbf & _).
  assert (Hb1 : kin (tk tb) [NEWLINE] = false /\ tkind_eqb (tk tb) SEPARATOR = false).
  { unfold bfirst_ok in Hbf. destruct (tk tb); try discriminate Hbf; split; reflexivity. }
  destruct Hb1 as [Hb1 Hb2].
  pose proof (dfuel_le secs trl Hcc) as Hdf. pose proof (F2_length _ _ _ Htsb) as Hlen.
  unfold doc_after_meta. destruct sep; cbn [sep_sh] in Htsp.
  - inversion Htsp as [|tP ? ? ? [HPk _] Hp1]; subst. inversion Hp1 as [|tN2 ? ? ? [HN2k _] Hp2]; subst. inversion Hp2; subst.
    cbn [fst] in HPk, HN2k. cbn [app] in Hst. rewrite Ebody in Hst.
    is_step Hst HPk. pose proof (adv_toks _ _ _ _ Hst) as H1.
    rewrite (skip_one_nl [NEWLINE] _ _ _ _ (fuel_of st3) H1 HN2k eq_refl Hb1); [|rewrite (fuel_of_toks _ _ Hst); cbn [length]; lia].
    pose proof (adv_toks _ _ _ _ H1) as H2. rewrite <- Ebody in H2.
    destruct (dloop_nodes2 trl secs Hcc Hnum Htop (fuel_of (adv (adv st3)) + fuel_of (adv (adv st3)))%nat [] [] (adv (adv st3)) tsb tE tail)
      as (st5 & Hl & Hst5 & W5); [rewrite (fuel_of_toks _ _ H2), app_length; unfold sh in *; lia|exact Htsb|exact H2|exact HE|rewrite !adv_depth; exact Hdep|].
    rewrite Hl. cbn [bind rev app]. eexists. split; [reflexivity|].
    eapply sext_trans; [|destruct (is ENVELOPE_END st5); [apply sext_adv|apply sext_refl]].
    eapply sext_trans; [|exact W5]. sadv.
  - inversion Htsp; subst. cbn [app] in Hst.
    assert (Hs : is SEPARATOR st3 = false) by (rewrite Ebody in Hst; rewrite (is_hd _ _ _ _ Hst); exact Hb2).
    rewrite Hs.
    destruct (dloop_nodes2 trl secs Hcc Hnum Htop (fuel_of st3 + fuel_of st3)%nat [] [] st3 tsb tE tail)
      as (st5 & Hl & Hst5 & W5); [rewrite (fuel_of_toks _ _ Hst), app_length; unfold sh in *; lia|exact Htsb|exact Hst|exact HE|exact Hdep|].
    rewrite Hl. cbn [bind rev app]. eexists. split; [reflexivity|].
    eapply sext_trans; [exact W5|destruct (is ENVELOPE_END st5); [apply sext_adv|apply sext_refl]].
Qed.

(* the warnings only grow by ADVISORY records (5 duplicate_key, 9 pattern_autoquote -- the same set as in TokRound.v: a list of
   scalars opened at bracket depth 0 has depth 1 < nesting_threshold, so 6 deep_nesting cannot occur, and scalar items add no
   record) and the bracket depth is restored *)
Definition wext2 (st st' : pstate) : Prop := wext st st' /\ pbdepth st' = pbdepth st.

Lemma after_grammar_read g name meta sep secs trl st1 tS tN tsm tsp tsb tE tail :
  forallb coret_node secs = true -> nums_ok2_l secs -> top_ok secs trl = true ->
  forallb meta_field_ok meta = true -> Forall field_num_ok meta -> nodupb (map fst meta) = true ->
  (negb (is_nil meta) || sep || first_key_not_meta2 secs) = true ->
  tmatch tS (ENVELOPE_START, Some (TVText name)) -> tk tN = NEWLINE ->
  Forall2 tmatch tsm (meta_sh ml meta) -> Forall2 tmatch tsp (sep_sh sep) ->
  Forall2 tmatch tsb (nodes_sht ml idnum hsh 0 secs ++ lead_sh 0 trl) -> tk tE = ENVELOPE_END -> tail <> [] ->
  ptoks st1 = tS :: tN :: tsm ++ tsp ++ tsb ++ tE :: tail -> pbdepth st1 = 0 ->
  exists st', doc_after_grammar g st1 = POk (mkDoc name g None sep meta secs trl) st' /\ sext st1 st'.
Proof.
  intros Hcc Hnum Htop Hmok Hmnum Hmnd Hfirst [HSk HSv] HNk Htsm Htsp Htsb HE Htail Hst Hdep. cbn [fst snd] in HSk, HSv.
  destruct (body_first2 secs trl tsb tE tail Hcc Htsb HE) as (tb & rb & Ebody & Hbf & Hnm).
  (* the rest after the META block: SEPARATOR or the first body token *)
  assert (Hrest : exists tx rx, tsp ++ tsb ++ tE :: tail = tx :: rx /\ rx <> [] /\ kin (tk tx) [NEWLINE; INDENT] = false /\
                                ((sep = true \/ first_key_not_meta2 secs = true) ->
                                 (tkind_eqb (tk tx) IDENTIFIER && str_eqb (text_of tx) (lit "META")) = false)).
  { destruct sep; cbn [sep_sh] in Htsp.
    - inversion Htsp as [|tP ? ? ? [HPk _] Hp1]; subst. cbn [fst] in HPk. eexists; eexists. split; [reflexivity|]. split; [inversion Hp1; discriminate|].
      rewrite HPk. split; [reflexivity|]. intros _. reflexivity.
    - inversion Htsp; subst. cbn [app]. rewrite Ebody. exists tb, rb. split; [reflexivity|].
      split; [destruct tsb; cbn [app] in Ebody; inversion Ebody; subst; [exact Htail|destruct tsb; discriminate]|].
      split; [unfold bfirst_ok in Hbf; destruct (tk tb); try discriminate Hbf; reflexivity|].
      intros [E|E]; [discriminate E|exact (Hnm E)]. }
  destruct Hrest as (tx & rx & Erest & Hrx & Hkx & Hxm).
  unfold doc_after_grammar. is_step Hst HSk. rewrite (cur_hd _ _ _ Hst).
  assert (Hn : text_of tS = name) by (unfold text_of; rewrite HSv; reflexivity). rewrite Hn. clear Hn.
  pose proof (adv_toks _ _ _ _ Hst) as H1.
  destruct meta as [|kv0 meta'].
  - cbn [meta_sh] in Htsm. inversion Htsm; subst. cbn [app] in H1. rewrite Erest in H1.
    rewrite (skip_one_nl [NEWLINE] _ _ _ _ (fuel_of st1) H1 HNk eq_refl); [|destruct (tk tx); try discriminate Hkx; reflexivity|rewrite (fuel_of_toks _ _ Hst); cbn [length]; lia].
    pose proof (adv_toks _ _ _ _ H1) as H2.
    rewrite (is_hd _ _ _ IDENTIFIER H2), (cur_hd _ _ _ H2).
    rewrite Hxm; [|cbn [is_nil negb orb] in Hfirst; apply Bool.orb_true_iff in Hfirst; exact Hfirst].
    cbn [bind]. rewrite <- Erest in H2.
    destruct (after_meta_read name g [] sep secs trl (adv (adv st1)) tsp tsb tE tail Hcc Hnum Htop Htsp Htsb HE Htail H2) as (st' & Hr & W');
      [rewrite !adv_depth; exact Hdep|].
    exists st'. split; [exact Hr|]. eapply sext_trans; [|exact W']. sadv.
  - set (meta := kv0 :: meta') in *.
    assert (Hne : meta <> []) by discriminate.
    rewrite (meta_sh_fields meta Hne) in Htsm. cbn [app] in Htsm.
    inversion Htsm as [|tM ? tsm' ? [HMk HMv] Hm1]; subst. cbn [fst snd] in HMk, HMv.
    rewrite <- app_comm_cons in H1.
    rewrite (skip_one_nl [NEWLINE] _ _ _ _ (fuel_of st1) H1 HNk eq_refl); [|rewrite HMk; reflexivity|rewrite (fuel_of_toks _ _ Hst); cbn [length]; lia].
    pose proof (adv_toks _ _ _ _ H1) as H2.
    rewrite (is_hd _ _ _ IDENTIFIER H2), (cur_hd _ _ _ H2), HMk. unfold text_of at 1. rewrite HMv.
    change (tkind_eqb IDENTIFIER IDENTIFIER && str_eqb (lit "META") (lit "META")) with true. cbv iota.
    destruct (pmeta_read meta (adv (adv st1)) (tM :: tsm') (tsp ++ tsb ++ tE :: tail) Hne Hmok Hmnum Hmnd) as (s' & Hpm & Hps' & Ws');
      [rewrite (meta_sh_fields meta Hne); constructor; [split; [exact HMk|exact HMv]|exact Hm1]
      |rewrite H2; reflexivity|rewrite !adv_depth; exact Hdep
      |rewrite Erest; destruct rx; [congruence|]; split; intros E; rewrite E in Hkx; discriminate Hkx|].
    rewrite Hpm. cbn [bind].
    rewrite Erest in Hps'. rewrite (skip_stop _ _ _ _ _ Hps'); [|destruct (tk tx); try discriminate Hkx; reflexivity].
    rewrite <- Erest in Hps'.
    assert (W2 : sext st1 s') by (eapply sext_trans; [|exact Ws']; sadv).
    destruct (after_meta_read name g meta sep secs trl s' tsp tsb tE tail Hcc Hnum Htop Htsp Htsb HE Htail Hps') as (st' & Hr & W');
      [exact (sext_depth0 _ _ W2 Hdep)|].
    exists st'. split; [exact Hr|]. eapply sext_trans; [exact W2|exact W'].
Qed.

Theorem parse_coret_doc d :
  coret_doc d = true -> nums_ok2_l (dsections d) -> Forall field_num_ok (dmeta d) ->
  forall st0 ts tail, tail <> [] -> pbdepth st0 = 0 ->
    Forall2 tmatch ts (doct_sh ml idnum hsh d) -> ptoks st0 = ts ++ tail ->
    exists st', parse_document numcanon holo_ok strict sp alpha st0 = POk d st' /\ wext2 st0 st'.
Proof.
  destruct d as [name gr fr sep meta secs trl]. unfold coret_doc. cbn [dfront dmeta dtrailing dsections dsep].
  destruct fr; [discriminate|].
  intros Hcore Hnum Hmnum st0 ts tail Htail Hdep Hts Hst0.
  apply andb_prop in Hcore. destruct Hcore as [Hcore Hfirst]. apply andb_prop in Hcore. destruct Hcore as [Hcore Hmnd].
  apply andb_prop in Hcore. destruct Hcore as [Hcore Hmok]. apply andb_prop in Hcore. destruct Hcore as [Hcc Htop].
  unfold doct_sh in Hts. cbn [dgrammar dname dsep dsections dmeta dtrailing] in Hts.
  apply Forall2_app_inv_r in Hts. destruct Hts as (tsg & ts' & Htsg & Hts & ->).
  change ([(ENVELOPE_START, Some (TVText name)); (NEWLINE, None)] ++ ?x) with
         ((ENVELOPE_START, Some (TVText name)) :: (NEWLINE, None) :: x) in Hts.
  inversion Hts as [|tS ? ? ? HS Hts1]; subst. inversion Hts1 as [|tN ? ts2 ? [HNk _] Hts2]; subst. cbn [fst] in HNk.
  apply Forall2_app_inv_r in Hts2. destruct Hts2 as (tsm & ts3 & Htsm & Hts3 & ->).
  apply Forall2_app_inv_r in Hts3. destruct Hts3 as (tsp & ts4 & Htsp & Hts4 & ->).
  rewrite app_assoc in Hts4.
  apply Forall2_app_inv_r in Hts4. destruct Hts4 as (tsb & tse & Htsb & Htse & ->).
  inversion Htse as [|tE ? ? ? [HEk _] Hnil]; subst. inversion Hnil; subst. cbn [fst] in HEk.
  assert (Hmain : forall st1 g, ptoks st1 = tS :: tN :: tsm ++ tsp ++ tsb ++ tE :: tail -> pbdepth st1 = 0 ->
            exists st', doc_after_grammar g st1 = POk (mkDoc name g None sep meta secs trl) st' /\ sext st1 st').
  { intros st1 g Hst1 Hd1.
    exact (after_grammar_read g name meta sep secs trl st1 tS tN tsm tsp tsb tE tail Hcc Hnum Htop Hmok Hmnum Hmnd Hfirst HS HNk Htsm Htsp Htsb HEk Htail Hst1 Hd1). }
  assert (Hst0' : ptoks st0 = tsg ++ tS :: tN :: tsm ++ tsp ++ tsb ++ tE :: tail).
  { rewrite Hst0. rewrite <- !app_assoc. cbn [app]. rewrite <- !app_assoc. reflexivity. }
  clear Hst0. rename Hst0' into Hst0.
  rewrite parse_document_eq. cbv zeta.
  destruct HS as [HSk HSv]. cbn [fst snd] in HSk, HSv.
  destruct gr as [g|].
  - inversion Htsg as [|tG ? ? ? [HGk HGv] Hg1]; subst. inversion Hg1 as [|tGn ? ? ? [HGnk _] Hg2]; subst. inversion Hg2; subst.
    cbn [fst snd] in HGk, HGv, HGnk. cbn [app] in Hst0.
    rewrite (skip_stop _ _ _ _ _ Hst0); [|rewrite HGk; reflexivity].
    is_step Hst0 HGk. rewrite (cur_hd _ _ _ Hst0).
    assert (Hg : text_of tG = g) by (unfold text_of; rewrite HGv; reflexivity). rewrite Hg.
    pose proof (adv_toks _ _ _ _ Hst0) as H1.
    rewrite (skip_one_nl [NEWLINE; COMMENT] _ _ _ _ (fuel_of st0) H1 HGnk eq_refl);
      [|rewrite HSk; reflexivity|rewrite (fuel_of_toks _ _ Hst0); cbn [length]; lia].
    pose proof (adv_toks _ _ _ _ H1) as H2.
    destruct (Hmain _ (Some g) H2) as (st' & Hr & W'); [rewrite !adv_depth; exact Hdep|].
    exists st'. split; [exact Hr|]. eapply sext_trans; [|exact W']. sadv.
  - inversion Htsg; subst. cbn [app] in Hst0.
    rewrite (skip_stop _ _ _ _ _ Hst0); [|rewrite HSk; reflexivity].
    is_step Hst0 HSk.
    exact (Hmain _ None Hst0 Hdep).
Qed.

End CoreT.
