(* Lexer half for coret documents (Rt/TokRoundT.v) -- BLOCK TARGETS at text level.

   Scope of this file: coret documents WITHOUT holographic values (the fragment coretb_doc = core2 documents whose blocks may carry a
   target  KEY[->§TARGET]: ).  The holographic sites (context-independence of the scanner on the raw text) are NOT treated here.

     lex_emit_coretb        the model lexer reads  emit sp d  as  doct_sh needs_multiline ex_idnum hsh d  (+ NEWLINE EOF), no repair;
                            the target is read as  LIST_START FLOW SECTION IDENTIFIER(target) LIST_END  directly after the key
     text_roundtrip_coretb  composed with TokRoundT.parse_coret_doc
     shape_check_coretb     coret_shape_check = 1 on that domain *)
From OV Require Import Base.Strs Gen.LexerGen Syn.Escape Syn.Quote Syn.Ast Syn.Emitter Syn.Parser Lex.Lexer Lex.Progress
     Rt.Zones Rt.ZonesRt Rt.TokRound Rt.TokRoundEx Rt.TokRound2 Rt.TokRound2Ex Rt.TokRoundZ Rt.TokRoundT Rt.TokRoundTHolo Rt.TokRoundTEx
     Rt.LexLinkBase Rt.LexLinkSteps Rt.LexLink Rt.LexLink2Base Rt.LexLink2Steps Rt.LexLink2Text Rt.LexLink2
     Rt.LexLinkZPos Rt.LexLinkZText Rt.LexLinkZ.
From Coq Require Import Lia.
Open Scope N_scope.

(* ---- the fragment and the side condition ---------------------------------------------------------------------------------------------------------- *)
Fixpoint coretb_node (n : node) : bool :=
  match n with
  | NAssign k v _ t => cval v && opt_ne t
  | NBlock k tg ch _ => opt_ne tg && (negb (is_nil ch) && forallb coretb_node ch)
  | NSection i k a ch _ => opt_ne a && (negb (is_nil ch) && forallb coretb_node ch)
  | _ => false
  end.
Definition coretb_doc (d : doc) : bool := coret_doc d && forallb coretb_node (dsections d).

(* lex_safe2 conditions + the target is an identifier word (read as ONE IDENTIFIER token; the emitter writes it directly after the key,
   without a blank: adjacency) *)
Definition target_ok (tg : option str) : bool := match tg with Some t => key_ok t | None => true end.
Fixpoint lex_safet_node (n : node) : bool :=
  match n with
  | NAssign k v l t => key_ok k && lex_safe2_val k v && forallb comment_ok l && trail_ok t
  | NBlock k tg ch l => key_ok k && target_ok tg && forallb comment_ok l && forallb lex_safet_node ch
  | NSection i k a ch l => sid_ok i && key_ok k && annot_ok a && forallb comment_ok l && forallb lex_safet_node ch
  | NComment _ => false
  end.
Definition lex_safet_doc (d : doc) : bool :=
  name_ok (dname d) && (match dgrammar d with Some g => ver_ok g | None => true end) &&
  forallb lex_safet_node (dsections d) && forallb meta_ok (dmeta d) && forallb comment_ok (dtrailing d).

Definition target_text (tg : option str) : str := match tg with Some (x :: r) => [c_lbr; 8594; 167] ++ (x :: r) ++ [c_rbr] | _ => [] end.

Lemma coretb_child_lines c D : coretb_node c = true ->
  match c with
  | NAssign [] (VZone content tag marker) _ _ => zone_lines (S D) content tag marker
  | _ => emit_node_lines c (S D)
  end = emit_node_lines c (S D).
Proof.
  destruct c as [k v l t| | |]; try reflexivity. cbn [coretb_node]. intros H. apply andb_true_iff in H as [H _].
  destruct v; cbn [cval is_scalar sval_of] in H; try discriminate H; destruct k; reflexivity.
Qed.
Lemma emit_block_linest k tg ch l D : forallb coretb_node ch = true -> opt_ne tg = true ->
  emit_node_lines (NBlock k tg ch l) D =
  emit_leading l D ++ [ind D ++ k ++ target_text tg ++ [c_colon]] ++ flat_map (fun c => emit_node_lines c (S D)) ch.
Proof.
  intros H Hne. cbn [emit_node_lines]. f_equal.
  assert (E : flat_map (fun c => match c with NAssign [] (VZone content tag marker) _ _ => zone_lines (S D) content tag marker
                                              | _ => emit_node_lines c (S D) end) ch = flat_map (fun c => emit_node_lines c (S D)) ch).
  { clear -H. induction ch as [|c cs IH]; [reflexivity|]. cbn [forallb] in H. apply andb_true_iff in H as [H1 H2].
    cbn [flat_map]. rewrite (coretb_child_lines c D H1), (IH H2). reflexivity. }
  rewrite E. destruct tg as [[|x r]|]; try discriminate Hne; reflexivity.
Qed.

Section LinkT.
Variable cls : N -> N.
Variable hsh : str -> list sh.

(* ---- the FLOW arrow ---------------------------------------------------------------------------------------------------------------------------------- *)
Lemma sp_flow st s' : ls_pos st <> 0 -> scan_version cls (8594 :: s') = None ->
  step_plain cls false st 8594 s' = emit_pat st FLOW (TVText [8594]) [8594] s' None.
Proof.
  intros Hp Hv. unfold step_plain; cbv zeta.
  rewrite (neqb 8594 c_sp) by discriminate.
  rewrite (hd_sentinel cls _ 8594 s') by (right; exact Hp).
  rewrite Hv, (hd_end_env 8594 s'), (hd_env_start 8594 s'), (hd_dash3 8594 s'), (hd_comment 8594 s') by discriminate.
  reflexivity.
Qed.
Lemma G_flow st r : ls_in st = 8594 :: r -> ls_spans st = [] -> ls_pos st <> 0 -> scan_version cls (8594 :: r) = None ->
  exists st', gstep cls st st' FLOW (TVText [8594]) r (Some 8594) (ls_brk st).
Proof.
  intros Hin Hsp Hp Hv.
  destruct (gstep_emit_pat cls st 8594 r FLOW (TVText [8594]) [8594] r Hin Hsp) as (st' & H); try reflexivity; [|discriminate|exists st'; exact H].
  apply sp_flow; assumption.
Qed.

Lemma key_no_dot k : key_ok k = true -> forall y, In y k -> y <> c_dot.
Proof.
  unfold key_ok. intros H. apply andb_true_iff in H as [H _]. apply andb_true_iff in H as [H _]. apply andb_true_iff in H as [H _].
  pose proof (word_ok_chars _ H) as Hc. rewrite forallb_forall in Hc. intros y Hy. apply Hc, key_char_range in Hy. chr.
Qed.

(* ---- [indent] KEY [->§TARGET] : NEWLINE ----------------------------------------------------------------------------------------------------------------- *)
Lemma lex_target_header D k t st rest :
  key_ok k = true -> key_ok t = true ->
  ls_in st = (ind D ++ k ++ ([c_lbr; 8594; 167] ++ t ++ [c_rbr]) ++ [c_colon]) ++ c_nl :: rest -> ready st ->
  exists st', lexto cls st (indent_sh D ++ (IDENTIFIER, Some (TVText k)) :: target_sh (Some t) ++ [(BLOCK, None); (NEWLINE, None)]) st' /\
              ls_in st' = rest /\ ready st'.
Proof.
  intros Hk Ht Hin Hr. rewrite <- !app_assoc in Hin. cbn [app] in Hin.
  destruct (key_ok_hd _ Hk) as (c & k' & Ek & Hc). apply key_start_range in Hc.
  assert (Hin' : ls_in st = ind D ++ c :: (k' ++ c_lbr :: 8594 :: 167 :: t ++ c_rbr :: c_colon :: c_nl :: rest)) by (rewrite Hin, Ek; reflexivity).
  destruct (lex_indent cls D st c _ Hin') as (st1 & L1 & I1 & P1); [chr|chr|exact Hr|].
  destruct Hr as (_ & _ & Hs).
  assert (S1 : ls_spans st1 = []) by (rewrite (lexto_spans _ _ _ _ L1); exact Hs).
  assert (I1' : ls_in st1 = k ++ c_lbr :: 8594 :: 167 :: t ++ c_rbr :: c_colon :: c_nl :: rest) by (rewrite I1, Ek; reflexivity).
  destruct (G_key cls st1 k c_lbr _ Hk ltac:(right; left; reflexivity) I1' P1 S1) as (st2 & G2).
  assert (S2 : ls_spans st2 = []) by (rewrite (gstep_spans cls _ _ _ _ _ _ _ G2); exact S1).
  destruct (G_lbr cls st2 _ (gstep_in cls _ _ _ _ _ _ _ G2) S2) as (st3 & p & G3).
  assert (S3 : ls_spans st3 = []) by (rewrite (gstep_spans cls _ _ _ _ _ _ _ G3); exact S2).
  assert (Hnd : forall y, In y (8594 :: 167 :: t) -> y <> c_dot).
  { intros y [<-|[<-|Hy]]; [discriminate|discriminate|exact (key_no_dot t Ht y Hy)]. }
  assert (V3 : scan_version cls (8594 :: 167 :: t ++ c_rbr :: c_colon :: c_nl :: rest) = None).
  { change (8594 :: 167 :: t ++ ?x) with ((8594 :: 167 :: t) ++ x). apply scan_version_no_dot; [exact Hnd|discriminate|apply u_digit_false; chr]. }
  destruct (G_flow st3 _ (gstep_in cls _ _ _ _ _ _ _ G3) S3 (gstep_pos cls _ _ _ _ _ _ _ G3) V3) as (st4 & G4).
  assert (S4 : ls_spans st4 = []) by (rewrite (gstep_spans cls _ _ _ _ _ _ _ G4); exact S3).
  assert (V4 : scan_version cls (167 :: t ++ c_rbr :: c_colon :: c_nl :: rest) = None).
  { change (167 :: t ++ ?x) with ((167 :: t) ++ x). apply scan_version_no_dot; [intros y Hy; apply Hnd; right; exact Hy|discriminate|apply u_digit_false; chr]. }
  destruct (G_section cls st4 _ (gstep_in cls _ _ _ _ _ _ _ G4) S4 V4) as (st5 & G5).
  assert (S5 : ls_spans st5 = []) by (rewrite (gstep_spans cls _ _ _ _ _ _ _ G5); exact S4).
  destruct (G_key cls st5 t c_rbr _ Ht ltac:(right; right; left; reflexivity) (gstep_in cls _ _ _ _ _ _ _ G5) (gstep_pos cls _ _ _ _ _ _ _ G5) S5) as (st6 & G6).
  assert (S6 : ls_spans st6 = []) by (rewrite (gstep_spans cls _ _ _ _ _ _ _ G6); exact S5).
  assert (B6 : ls_brk st6 = p :: ls_brk st2).
  { rewrite (gstep_brk cls _ _ _ _ _ _ _ G6), (gstep_brk cls _ _ _ _ _ _ _ G5), (gstep_brk cls _ _ _ _ _ _ _ G4). exact (gstep_brk cls _ _ _ _ _ _ _ G3). }
  destruct (G_rbr cls st6 _ p (ls_brk st2) (gstep_in cls _ _ _ _ _ _ _ G6) S6 B6) as (st7 & G7).
  assert (S7 : ls_spans st7 = []) by (rewrite (gstep_spans cls _ _ _ _ _ _ _ G7); exact S6).
  destruct (T_block cls st7 _ (gstep_in cls _ _ _ _ _ _ _ G7) S7) as (st8 & T8).
  assert (S8 : ls_spans st8 = []) by (rewrite (tstep_spans _ _ _ _ _ _ _ T8); exact S7).
  destruct (lex_newline cls st8 rest (tstep_in _ _ _ _ _ _ _ T8) S8) as (st9 & L9 & I9 & R9).
  exists st9. split; [|split; assumption].
  eapply lexto_trans; [exact L1|].
  (* the bracketed part, without the bracket-stack clause, then closed *)
  assert (LB : lextoB cls st1 ((IDENTIFIER, Some (TVText k)) :: target_sh (Some t)) st7).
  { cbn [target_sh].
    change ((IDENTIFIER, Some (TVText k)) :: [(LIST_START, None); (FLOW, None); (SECTION, None); (IDENTIFIER, Some (TVText t)); (LIST_END, None)])
      with ([(IDENTIFIER, Some (TVText k))] ++ [(LIST_START, @None tvalue)] ++ [(FLOW, @None tvalue)] ++ [(SECTION, @None tvalue)] ++
            [(IDENTIFIER, Some (TVText t))] ++ [(LIST_END, @None tvalue)]).
    eapply (lextoB_trans cls); [eapply (lextoB_gstep cls); [exact G2|reflexivity|right; reflexivity]|].
    eapply (lextoB_trans cls); [eapply (lextoB_gstep cls); [exact G3|reflexivity|left; reflexivity]|].
    eapply (lextoB_trans cls); [eapply (lextoB_gstep cls); [exact G4|reflexivity|left; reflexivity]|].
    eapply (lextoB_trans cls); [eapply (lextoB_gstep cls); [exact G5|reflexivity|left; reflexivity]|].
    eapply (lextoB_trans cls); [eapply (lextoB_gstep cls); [exact G6|reflexivity|right; reflexivity]|].
    eapply (lextoB_gstep cls); [exact G7|reflexivity|left; reflexivity]. }
  apply (lextoB_lexto cls) in LB; [|rewrite (gstep_brk cls _ _ _ _ _ _ _ G7); exact (gstep_brk cls _ _ _ _ _ _ _ G2)].
  change ((IDENTIFIER, Some (TVText k)) :: target_sh (Some t) ++ [(BLOCK, None); (NEWLINE, None)])
    with (((IDENTIFIER, Some (TVText k)) :: target_sh (Some t)) ++ [(BLOCK, @None tvalue)] ++ [(NEWLINE, @None tvalue)]).
  eapply lexto_trans; [exact LB|]. eapply lexto_trans; [|exact L9].
  eapply lexto_tstep; [exact T8|reflexivity|left; reflexivity].
Qed.

(* ---- nodes, at every depth ------------------------------------------------------------------------------------------------------------------------------------ *)
Notation node_sht := (node_sht ml idnum_digits hsh).
Notation nodes_sht := (nodes_sht ml idnum_digits hsh).

Definition LT_node (n : node) : Prop :=
  coretb_node n = true -> lex_safet_node n = true ->
  forall D st rest, ls_in st = unlines (emit_node_lines n D) ++ rest -> ready st ->
    exists st', lexto cls st (node_sht D n) st' /\ ls_in st' = rest /\ ready st'.

Lemma lex_nodest ch : Forall LT_node ch -> forallb coretb_node ch = true -> forallb lex_safet_node ch = true ->
  forall D st rest, ls_in st = unlines (flat_map (fun c => emit_node_lines c D) ch) ++ rest -> ready st ->
    exists st', lexto cls st (nodes_sht D ch) st' /\ ls_in st' = rest /\ ready st'.
Proof.
  induction ch as [|c cs IH]; intros HP Hc Hs D st rest Hin Hr.
  - exists st. split; [apply lexto_refl|split; [exact Hin|exact Hr]].
  - inversion HP as [|? ? HPc HPcs]; subst.
    cbn [forallb] in Hc, Hs. apply andb_true_iff in Hc as [Hc1 Hc2]. apply andb_true_iff in Hs as [Hs1 Hs2].
    cbn [flat_map] in Hin. rewrite unlines_app, <- app_assoc in Hin.
    destruct (HPc Hc1 Hs1 D st _ Hin Hr) as (st1 & L1 & I1 & R1).
    destruct (IH HPcs Hc2 Hs2 D st1 rest I1 R1) as (st2 & L2 & I2 & R2).
    exists st2. split; [|split; assumption]. unfold TokRoundT.nodes_sht. cbn [flat_map]. eapply lexto_trans; [exact L1|exact L2].
Qed.

Lemma node_sht_assign D k v l t : cval v = true -> node_sht D (NAssign k v l t) = node_sh2 ml idnum_digits D (NAssign k v l t).
Proof. intros H. destruct v; cbn [cval is_scalar sval_of] in H; try discriminate H; reflexivity. Qed.

Theorem all_LT_node : forall n, LT_node n.
Proof.
  apply node_ind2; unfold LT_node.
  - intros k v l t Hc Hs D st rest Hin Hr. pose proof Hc as Hc'. cbn [coretb_node] in Hc'. apply andb_true_iff in Hc' as [Hcv _].
    rewrite (node_sht_assign D k v l t Hcv). exact (all_L2_node cls (NAssign k v l t) Hc Hs D st rest Hin Hr).
  - intros k tg ch l IH Hc Hs D st rest Hin Hr. cbn [coretb_node] in Hc. apply andb_true_iff in Hc as [Hne Hc]. apply andb_true_iff in Hc as [_ Hcc].
    cbn [lex_safet_node] in Hs. apply andb_true_iff in Hs as [Hs Hss]. apply andb_true_iff in Hs as [Hs Hl]. apply andb_true_iff in Hs as [Hk Htg].
    rewrite (emit_block_linest k tg ch l D Hcc Hne), !unlines_app, <- !app_assoc in Hin.
    destruct (lex_lead cls D l st _ Hl Hin Hr) as (st1 & L1 & I1 & R1).
    cbn [unlines flat_map] in I1. rewrite app_nil_r, <- app_assoc in I1. cbn [app] in I1.
    assert (HH : exists st2, lexto cls st1 (indent_sh D ++ (IDENTIFIER, Some (TVText k)) :: target_sh tg ++ [(BLOCK, None); (NEWLINE, None)]) st2 /\
                             ls_in st2 = unlines (flat_map (fun c => emit_node_lines c (S D)) ch) ++ rest /\ ready st2).
    { destruct tg as [[|x r]|]; [discriminate Hne| |].
      - exact (lex_target_header D k (x :: r) st1 _ Hk Htg I1 R1).
      - exact (lex_block_header cls D k st1 _ Hk I1 R1). }
    destruct HH as (st2 & L2 & I2 & R2).
    destruct (lex_nodest ch IH Hcc Hss (S D) st2 rest I2 R2) as (st3 & L3 & I3 & R3).
    exists st3. split; [|split; assumption]. unfold TokRoundT.node_sht. cbn [lead_of]. rewrite main_sht_block.
    eapply lexto_trans; [exact L1|].
    replace (indent_sh D ++ (IDENTIFIER, Some (TVText k)) :: target_sh tg ++ [(BLOCK, None); (NEWLINE, None)] ++ nodes_sht (S D) ch)
      with ((indent_sh D ++ (IDENTIFIER, Some (TVText k)) :: target_sh tg ++ [(BLOCK, None); (NEWLINE, None)]) ++ nodes_sht (S D) ch)
      by (rewrite <- !app_assoc; cbn [app]; rewrite <- !app_assoc; reflexivity).
    eapply lexto_trans; [exact L2|exact L3].
  - intros i k a ch l IH Hc Hs D st rest Hin Hr. cbn [coretb_node] in Hc. apply andb_true_iff in Hc as [Hne Hc]. apply andb_true_iff in Hc as [_ Hcc].
    cbn [lex_safet_node] in Hs. apply andb_true_iff in Hs as [Hs Hss]. apply andb_true_iff in Hs as [Hs Hl].
    apply andb_true_iff in Hs as [Hs Ha]. apply andb_true_iff in Hs as [Hi Hk].
    rewrite (emit_section_lines2 i k a ch l D), !unlines_app, <- !app_assoc in Hin.
    destruct (lex_lead cls D l st _ Hl Hin Hr) as (st1 & L1 & I1 & R1).
    cbn [unlines flat_map] in I1. rewrite app_nil_r, <- app_assoc in I1. cbn [app] in I1.
    destruct (lex_section_header cls D i k a st1 _ Hi Hk Ha Hne I1 R1) as (st2 & L2 & I2 & R2).
    destruct (lex_nodest ch IH Hcc Hss (S D) st2 rest I2 R2) as (st3 & L3 & I3 & R3).
    exists st3. split; [|split; assumption]. unfold TokRoundT.node_sht. cbn [lead_of]. rewrite main_sht_section.
    eapply lexto_trans; [exact L1|]. rewrite !app_assoc. eapply lexto_trans; [|exact L3].
    rewrite <- !app_assoc. exact L2.
  - intros t Hc; discriminate Hc.
Qed.
End LinkT.

(* ---- the document ---------------------------------------------------------------------------------------------------------------------------------------------- *)
Lemma coretb_parts d : coretb_doc d = true ->
  coret_doc d = true /\ dfront d = None /\ forallb coretb_node (dsections d) = true /\ forallb meta_field_ok (dmeta d) = true.
Proof.
  unfold coretb_doc. intros H. apply andb_true_iff in H as [Hc Hn]. split; [exact Hc|]. unfold coret_doc in Hc.
  destruct (dfront d); [discriminate|]. split; [reflexivity|]. split; [exact Hn|].
  apply andb_true_iff in Hc as [Hc _]. apply andb_true_iff in Hc as [Hc _]. apply andb_true_iff in Hc as [_ Hm]. exact Hm.
Qed.
Lemma safet_parts d : lex_safet_doc d = true ->
  name_ok (dname d) = true /\ (match dgrammar d with Some g => ver_ok g | None => true end) = true /\
  forallb lex_safet_node (dsections d) = true /\ forallb meta_ok (dmeta d) = true /\ forallb comment_ok (dtrailing d) = true.
Proof.
  unfold lex_safet_doc. intros Hs.
  apply andb_true_iff in Hs as [Hs Htr]. apply andb_true_iff in Hs as [Hs Hm]. apply andb_true_iff in Hs as [Hs Hn]. apply andb_true_iff in Hs as [Hname Hg].
  repeat split; assumption.
Qed.
(* the document without its body: same header lines, and safe in the sense of Rt/LexLinkZText.v *)
Definition hdr_doc (d : doc) : doc := mkDoc (dname d) (dgrammar d) None (dsep d) (dmeta d) [] [].
Lemma hdr_doc_ok cls d : lex_safet_doc d = true -> lex_safez_doc cls (hdr_doc d) = true /\ prefix_lines (hdr_doc d) = prefix_lines d.
Proof.
  intros Hs. destruct (safet_parts d Hs) as (H1 & H2 & _ & H4 & _). split; [|reflexivity].
  unfold lex_safez_doc, hdr_doc. cbn [dname dgrammar dsections dmeta dtrailing forallb]. rewrite H1, H2, H4. reflexivity.
Qed.

Lemma emit_lines_coretb sp d : coretb_doc d = true -> lex_safet_doc d = true ->
  emit_lines sp d = prefix_lines d ++ flat_map (fun n => emit_node_lines n 0) (dsections d) ++ suffix_lines d.
Proof.
  intros Hc Hs. destruct (coretb_parts d Hc) as (_ & Hfr & Hcn & Hmf). destruct (safet_parts d Hs) as (_ & Hg & _).
  unfold emit_lines, prefix_lines, suffix_lines, grammar_lines. rewrite Hfr. cbn [app].
  assert (Esec : flat_map (fun n => match n with NComment _ => [] | _ => emit_node_lines n 0 end) (dsections d) =
                 flat_map (fun n => emit_node_lines n 0) (dsections d)).
  { clear -Hcn. induction (dsections d) as [|c cs IH]; [reflexivity|]. cbn [forallb] in Hcn. apply andb_true_iff in Hcn as [H1 H2].
    cbn [flat_map]. rewrite (IH H2). destruct c; try reflexivity. discriminate H1. }
  rewrite Esec.
  assert (Eg : match truthy (dgrammar d) with Some g => [s_octave ++ g] | None => [] end =
               match dgrammar d with Some g => [s_octave ++ g] | None => [] end).
  { destruct (dgrammar d) as [g|]; [|reflexivity]. destruct (ver_ok_nonempty _ Hg) as (x & r & ->). reflexivity. }
  rewrite Eg. unfold meta_lines. destruct (dmeta d) as [|kv m] eqn:Em.
  - repeat (progress (rewrite <- ?app_assoc; cbn [app])). reflexivity.
  - cbv zeta. rewrite (emit_meta_lines_core _ Hmf). cbn [map]. repeat (progress (rewrite <- ?app_assoc; cbn [app])). reflexivity.
Qed.

(* the pre-passes *)
Lemma plain_target tg : target_ok tg = true -> plain (target_text tg ++ [c_colon]) = true.
Proof.
  destruct tg as [[|x r]|]; try reflexivity. cbn [target_ok target_text]. intros H.
  rewrite !plain_app, (plain_keyok _ H). reflexivity.
Qed.
Lemma node_text_okt : forall n, coretb_node n = true -> lex_safet_node n = true -> forall D, tok_text (unlines (emit_node_lines n D)) = true.
Proof.
  apply (node_ind2 (fun n => coretb_node n = true -> lex_safet_node n = true -> forall D, tok_text (unlines (emit_node_lines n D)) = true)).
  - intros k v l t Hc Hs D. exact (node_text_ok (NAssign k v l t) Hc Hs D).
  - intros k tg ch l IH Hc Hs D. cbn [coretb_node] in Hc. apply andb_true_iff in Hc as [Hne Hc]. apply andb_true_iff in Hc as [_ Hcc].
    cbn [lex_safet_node] in Hs. apply andb_true_iff in Hs as [Hs Hss]. apply andb_true_iff in Hs as [Hs Hl]. apply andb_true_iff in Hs as [Hk Htg].
    rewrite (emit_block_linest k tg ch l D Hcc Hne), !tok_text_unlines_app, (tok_leading D l Hl), tok_unlines1. cbn [andb].
    rewrite (line_tok _ (line_ok_key D k _ Hk (plain_target tg Htg))). cbn [andb].
    induction ch as [|c cs IHc]; [reflexivity|]. inversion IH as [|? ? Pc Pcs]; subst.
    cbn [forallb] in Hcc, Hss. apply andb_true_iff in Hcc as [Hc1 Hc2]. apply andb_true_iff in Hss as [Hs1 Hs2].
    cbn [flat_map]. rewrite tok_text_unlines_app, (Pc Hc1 Hs1 (S D)), (IHc Pcs Hc2 Hs2). reflexivity.
  - intros i k a ch l IH Hc Hs D. cbn [coretb_node] in Hc. apply andb_true_iff in Hc as [Hne Hc]. apply andb_true_iff in Hc as [_ Hcc].
    cbn [lex_safet_node] in Hs. apply andb_true_iff in Hs as [Hs Hss]. apply andb_true_iff in Hs as [Hs Hl].
    apply andb_true_iff in Hs as [Hs Ha]. apply andb_true_iff in Hs as [Hi Hk].
    rewrite (emit_section_lines2 i k a ch l D), !tok_text_unlines_app, (tok_leading D l Hl), tok_unlines1. cbn [andb].
    assert (Hline : LexLink.line_ok (ind D ++ [167] ++ i ++ s_assign ++ k ++ annot_text a) = true).
    { unfold LexLink.line_ok. rewrite !plain_app, plain_ind, (plain_sid _ Hi), (plain_keyok _ Hk). cbn [andb].
      assert (Pa : plain (annot_text a) = true).
      { destruct a as [[|x a']|]; try reflexivity. cbn [annot_ok annot_text] in *. rewrite !plain_app, (plain_keyok _ Ha). reflexivity. }
      rewrite Pa. cbn [andb app]. apply fence_free_ind; chr. }
    rewrite (line_tok _ Hline). cbn [andb].
    induction ch as [|c cs IHc]; [reflexivity|]. inversion IH as [|? ? Pc Pcs]; subst.
    cbn [forallb] in Hcc, Hss. apply andb_true_iff in Hcc as [Hc1 Hc2]. apply andb_true_iff in Hss as [Hs1 Hs2].
    cbn [flat_map]. rewrite tok_text_unlines_app, (Pc Hc1 Hs1 (S D)), (IHc Pcs Hc2 Hs2). reflexivity.
  - intros t Hc; discriminate Hc.
Qed.

Section DocT.
Variable cls : N -> N.
Variable hsh : str -> list sh.

Lemma emit_text_okt sp d : coretb_doc d = true -> lex_safet_doc d = true -> tok_text (emit sp d) = true.
Proof.
  intros Hc Hs. rewrite emit_unlines, (emit_lines_coretb sp d Hc Hs). destruct (coretb_parts d Hc) as (_ & _ & Hcn & Hmf).
  destruct (safet_parts d Hs) as (_ & _ & Hn & _ & Htr). destruct (hdr_doc_ok cls d Hs) as [Hz Ep].
  rewrite !tok_text_unlines_app, <- Ep, (prefix_text_ok cls (hdr_doc d) Hmf Hz). cbn [andb].
  assert (A5 : tok_text (unlines (flat_map (fun n => emit_node_lines n 0) (dsections d))) = true).
  { clear -Hcn Hn. induction (dsections d) as [|c cs IH]; [reflexivity|]. cbn [forallb] in Hcn, Hn.
    apply andb_true_iff in Hcn as [Hc1 Hc2]. apply andb_true_iff in Hn as [Hn1 Hn2].
    cbn [flat_map]. rewrite tok_text_unlines_app, (node_text_okt c Hc1 Hn1 0%nat), (IH Hc2 Hn2). reflexivity. }
  rewrite A5. unfold suffix_lines. rewrite tok_text_unlines_app, (tok_leading 0 _ Htr). reflexivity.
Qed.

Lemma all_LT_nodes ns : Forall (LT_node cls hsh) ns.
Proof. apply Forall_forall. intros n _. apply all_LT_node. Qed.

Lemma lex_doct sp d : coretb_doc d = true -> lex_safet_doc d = true ->
  forall st, ls_in st = emit sp d -> ls_pos st = 0 -> ls_spans st = [] ->
  exists st', lexto cls st (doct_sh ml idnum_digits hsh d ++ [(NEWLINE, None)]) st' /\ ls_in st' = [].
Proof.
  intros Hc Hs st Hin Hp Hsp. destruct (coretb_parts d Hc) as (_ & _ & Hcn & Hmf). destruct (safet_parts d Hs) as (_ & _ & Hn & _ & Htr).
  destruct (hdr_doc_ok cls d Hs) as [Hz Ep].
  rewrite emit_unlines, (emit_lines_coretb sp d Hc Hs), !unlines_app, <- Ep in Hin.
  destruct (lex_prefix cls (hdr_doc d) st _ Hmf Hz Hin Hp Hsp) as (st1 & L1 & I1 & R1).
  destruct (lex_nodest cls hsh (dsections d) (all_LT_nodes _) Hcn Hn 0%nat st1 _ I1 R1) as (st2 & L2 & I2 & R2).
  destruct (lex_suffix cls d st2 Htr I2 R2) as (st3 & L3 & I3 & _).
  exists st3. split; [|exact I3].
  assert (E : doct_sh ml idnum_digits hsh d ++ [(NEWLINE, None)] =
              (g_sh (hdr_doc d) ++ [(ENVELOPE_START, Some (TVText (dname (hdr_doc d)))); (NEWLINE, None)] ++ meta_sh ml (dmeta (hdr_doc d)) ++ sep_shz (hdr_doc d)) ++
              nodes_sht ml idnum_digits hsh 0 (dsections d) ++ (lead_sh 0 (dtrailing d) ++ [(ENVELOPE_END, None)] ++ [(NEWLINE, None)])).
  { unfold doct_sh, g_sh, sep_shz, hdr_doc. cbn [dname dgrammar dsep dmeta]. rewrite <- !app_assoc. reflexivity. }
  rewrite E. eapply lexto_trans; [exact L1|]. eapply lexto_trans; [exact L2|exact L3].
Qed.

(* (b) THE LEXER HALF for coret documents without holographic values *)
Theorem lex_emit_coretb sp d : coretb_doc d = true -> lex_safet_doc d = true ->
  exists ts tnl teof,
    tokenize cls false (lines_of (emit sp d)) = LexOk (ts ++ [tnl; teof]) [] /\
    Forall2 tmatch ts (doct_sh ml idnum_digits hsh d) /\ tk tnl = NEWLINE /\ tk teof = EOF.
Proof.
  intros Hc Hs. destruct (coretb_parts d Hc) as (_ & Hfr & _).
  rewrite (tokenize_tok_text cls false _ (emit_text_okt sp d Hc Hs) (emit_nonblank_head sp d Hfr)).
  set (st0 := mkLS (emit sp d) None 0 1 1 [] [] [] []).
  destruct (lex_doct sp d Hc Hs st0 eq_refl eq_refl eq_refl) as (st' & (Hst & (tsall & Ht & HF) & Hr & Hb & _) & Hin).
  rewrite (run_steps_finish cls st0 st' _ Hst Hin) by (cbn [ls_in st0]; lia).
  apply Forall2_app_inv_r in HF. destruct HF as (ts & tl & HF1 & HF2 & ->).
  inversion HF2 as [|tnl ? ? ? [Hnl _] HF3]; subst. inversion HF3; subst. cbn [fst] in Hnl.
  exists ts, tnl, (mkTok EOF TVNone (ls_line st') (ls_col st') None).
  split; [|split; [exact HF1|split; [exact Hnl|reflexivity]]].
  unfold finish. rewrite Hb, Hr, Ht. cbn [ls_brk ls_reps ls_toks st0 rev app].
  rewrite app_nil_r, rev_involutive, <- app_assoc. reflexivity.
Qed.

Lemma emit_first_linet sp d : coretb_doc d = true -> lex_safet_doc d = true ->
  exists l0 r, split_on c_nl (emit sp d) = l0 :: r /\ prefixb s_dashes l0 = false.
Proof.
  intros Hc Hs. destruct (safet_parts d Hs) as (Hname & Hg & _).
  rewrite emit_unlines, (emit_lines_coretb sp d Hc Hs). unfold prefix_lines, grammar_lines.
  destruct (dgrammar d) as [g|].
  - cbn [app]. rewrite unlines_cons, split_on_app.
    + eexists _, _. split; [reflexivity|reflexivity].
    + pose proof (plain_ver _ Hg) as P. unfold plain in P. apply andb_true_iff in P as [P _]. apply negb_true_iff in P.
      rewrite LexLinkBase.memb_app, P. reflexivity.
  - cbn [app]. rewrite unlines_cons, split_on_app.
    + eexists _, _. split; [reflexivity|reflexivity].
    + unfold name_ok in Hname. apply andb_true_iff in Hname as [Hw _].
      pose proof (plain_key _ (word_ok_chars _ Hw)) as P. unfold plain in P. apply andb_true_iff in P as [P _]. apply negb_true_iff in P.
      rewrite !LexLinkBase.memb_app, P. reflexivity.
Qed.

(* (c) composed with the parser half *)
Theorem text_roundtrip_coretb numcanon holo_ok strict sp d :
  coretb_doc d = true -> lex_safet_doc d = true ->
  nodes_side numcanon holo_ok idnum_digits hsh (dsections d) -> Forall (TokRoundT.field_num_ok numcanon) (dmeta d) ->
  exists warns,
    parse_model cls numcanon holo_ok strict (lines_of (emit sp d)) = PRDoc d [] warns /\ Forall advisory warns.
Proof.
  intros Hc Hs Hside Hmnum. destruct (coretb_parts d Hc) as (Hct & Hfr & _).
  destruct (lex_emit_coretb sp d Hc Hs) as (ts & tnl & teof & Htok & HF & _ & _).
  destruct (emit_first_linet sp d Hc Hs) as (l0 & r & El & Hl0).
  unfold parse_model.
  rewrite (strip_frontmatter_none (u_space cls) (emit sp d) l0 r El Hl0), Htok.
  destruct (parse_coret_doc numcanon holo_ok strict (u_space cls) (u_alpha cls) ml idnum_digits hsh d Hct
              (nodes_side_nums numcanon holo_ok strict (u_space cls) idnum_digits hsh _ Hside) Hmnum
              (mkPS (ts ++ [tnl; teof]) None 0 [] 0 []) ts [tnl; teof]) as (st' & Hp & (l & Hw & Hadv) & _);
    [discriminate|reflexivity|exact HF|reflexivity|].
  rewrite Hp. exists (rev (pwarns st')). split.
  - f_equal. destruct d as [name gr fr sep meta secs trl]. cbn [dfront] in Hfr. subst fr. reflexivity.
  - rewrite Hw. cbn [pwarns]. rewrite app_nil_r. apply Forall_rev. exact Hadv.
Qed.
End DocT.
