(* Lexer half of the round trip, part 2: one lexer iteration per emitted chunk.
   For each chunk kind of the canonical layout (indent, key, `::`, `:`, newline, quoted string, number, true/false/null,
   grammar sentinel, envelope start/end, separator) :
     sp_*   : which branch of step_plain fires (every earlier branch is shown not to fire), as an equation
     T_*    : the resulting `tstep`: the token pushed, the remaining input, and the bookkeeping the next chunk needs *)
From OV Require Import Base.Strs Gen.LexerGen Syn.Escape Syn.Quote Syn.Emitter Lex.Lexer Lex.Progress Rt.LexLinkBase.
From Coq Require Import Lia.
Open Scope N_scope.

(* canonical text of a document without frontmatter starts with O (grammar line) or = (envelope line) *)
Lemma emit_nonblank_head sp d : Ast.dfront d = None -> nonblank_head (emit sp d) = true.
Proof.
  assert (J : forall sep c x l t, nonblank_head (c :: t) = true -> nonblank_head (join sep ((c :: x) :: l) ++ [c_nl]) = true).
  { intros sep c x [|y l] t H; cbn [join app nonblank_head] in *; exact H. }
  intros Hf. unfold emit, emit_lines. rewrite Hf.
  destruct (truthy (Ast.dgrammar d)) as [g|]; cbn [app s_octave s_env]; apply (J _ _ _ _ []); reflexivity.
Qed.



Section Chunks.
Variable cls : N -> N.

Definition tstep (st st' : lstate) (k : tkind) (v : tvalue) (rest : str) (prev : option N) : Prop :=
  step cls false st = Continue st' /\ ls_in st' = rest /\ ls_prev st' = prev /\ ls_pos st' <> 0 /\
  (exists l c n, ls_toks st' = mkTok k v l c n :: ls_toks st) /\
  ls_reps st' = ls_reps st /\ ls_brk st' = ls_brk st /\ ls_spans st' = ls_spans st.

Lemma tstep_emit_pat st c s' k v m rest :
  ls_in st = c :: s' -> ls_spans st = [] ->
  step_plain cls false st c s' = emit_pat st k v m rest None ->
  alias_of m = None -> tkind_eqb k LIST_START = false -> tkind_eqb k LIST_END = false -> m <> [] ->
  exists st', tstep st st' k v rest (last_chr m) /\ (m = [c_nl] -> ls_col st' = 1).
Proof.
  intros Hin Hsp Heq Ha H1 H2 Hm.
  destruct (emit_pat_plain st k v m rest Ha H1 H2) as (line' & col' & He & Hcol).
  eexists. split.
  - unfold tstep. split; [unfold step; rewrite Hin, Hsp, Heq; exact He|].
    cbn [ls_in ls_prev ls_pos ls_toks ls_reps ls_brk ls_spans].
    repeat split; try reflexivity; [apply len_pos_ne; exact Hm|eexists _, _, _; reflexivity].
  - intros Hnl; cbn [ls_col]; exact (Hcol Hnl).
Qed.

(* ---- which branch fires ---------------------------------------------------------------------------------------------- *)
Lemma hd_vs prev c s' : c <> 118 -> scan_word cls s_vs prev (c :: s') = None.
Proof. apply hd_word. Qed.
Lemma hd_true prev c s' : c <> 116 -> scan_word cls Lexer.s_true prev (c :: s') = None.
Proof. apply hd_word. Qed.
Lemma hd_false prev c s' : c <> 102 -> scan_word cls Lexer.s_false prev (c :: s') = None.
Proof. apply hd_word. Qed.
Lemma hd_null prev c s' : c <> 110 -> scan_word cls Lexer.s_null prev (c :: s') = None.
Proof. apply hd_word. Qed.

Ltac skip_sp c := rewrite (neqb c c_sp) by chr.
Ltac skip_sent c s' := rewrite (hd_sentinel cls _ c s') by (first [left; chr | right; assumption]).
Ltac skip_ver c s' := rewrite (hd_version cls c s') by (apply u_digit_false; chr).
Ltac skip_envs c s' :=
  rewrite (hd_end_env c s') by chr; rewrite (hd_env_start c s') by chr.
Ltac skip_dash3 c s' := rewrite (hd_dash3 c s') by chr.
Ltac skip_comment c s' := rewrite (hd_comment c s') by chr.
Ltac skip_ops c s' := rewrite (hd_ops c s') by chr.
Ltac skip_vs c s' := rewrite (hd_vs _ c s') by chr.
Ltac skip_ops2 c s' := rewrite (hd_ops2 c s') by chr.
Ltac skip_tq c s' := rewrite (hd_tq _ c s') by chr.
Ltac skip_dq c := rewrite (hd_if_none _ c c_dq) by chr.
Ltac skip_num c s' := rewrite (hd_number cls c s') by (first [chr | apply u_digit_false; chr]).
Ltac skip_true c s' := rewrite (hd_true _ c s') by chr.
Ltac skip_false c s' := rewrite (hd_false _ c s') by chr.
Ltac skip_null c s' := rewrite (hd_null _ c s') by chr.
Ltac skip_hash c := rewrite (neqb c c_hash) by chr.
Ltac skip_dollar c := rewrite (hd_if_none _ c c_dollar) by chr.
Ltac sp_start := unfold step_plain; cbv zeta.

(* identifier start: falls through to step_fallback unless it is exactly one of the keywords *)
Lemma sp_fallback st c s' :
  key_start c = true -> ls_pos st <> 0 ->
  scan_word cls s_vs (ls_prev st) (c :: s') = None ->
  scan_word cls Lexer.s_true (ls_prev st) (c :: s') = None ->
  scan_word cls Lexer.s_false (ls_prev st) (c :: s') = None ->
  scan_word cls Lexer.s_null (ls_prev st) (c :: s') = None ->
  step_plain cls false st c s' = step_fallback cls false st c s'.
Proof.
  intros Hc Hpos Hvs Ht Hf Hn. apply key_start_range in Hc.
  sp_start. skip_sp c. skip_sent c s'. skip_ver c s'. skip_envs c s'. skip_dash3 c s'. skip_comment c s'.
  skip_ops c s'. rewrite Hvs. skip_ops2 c s'. skip_tq c s'. skip_dq c. skip_num c s'. rewrite Ht, Hf, Hn.
  skip_hash c. skip_dollar c. rewrite (neqb c c_nl) by chr. reflexivity.
Qed.

Lemma sp_ops st c s' m k :
  c = 58 -> try_simple simple_ops (c :: s') = Some (m, k) ->
  step_plain cls false st c s' = emit_pat st k (TVText m) m (skipn (length m) (c :: s')) None.
Proof.
  intros Hc Ho. sp_start. skip_sp c. skip_sent c s'. skip_ver c s'. skip_envs c s'. skip_dash3 c s'. skip_comment c s'.
  rewrite Ho. reflexivity.
Qed.

Lemma sp_nl st c s' :
  c = 10 -> step_plain cls false st c s' = emit_pat st NEWLINE (TVText [c_nl]) [c_nl] s' None.
Proof.
  intros Hc. sp_start. skip_sp c. skip_sent c s'. skip_ver c s'. skip_envs c s'. skip_dash3 c s'. skip_comment c s'.
  skip_ops c s'. skip_vs c s'. skip_ops2 c s'. skip_tq c s'. skip_dq c. skip_num c s'.
  skip_true c s'. skip_false c s'. skip_null c s'. skip_hash c. skip_dollar c.
  rewrite (proj2 (N.eqb_eq c c_nl)) by chr. reflexivity.
Qed.

Lemma sp_dq st c s' b r :
  c = 34 -> prefixb [c_dq; c_dq; c_dq] (c :: s') = false -> scan_dq_body (length (c :: s')) s' = Some (b, r) ->
  step_plain cls false st c s' = emit_pat st STRING (TVText (unescape_tok b)) (c_dq :: b ++ [c_dq]) r None.
Proof.
  intros Hc Htq Hdq. sp_start. skip_sp c. skip_sent c s'. skip_ver c s'. skip_envs c s'. skip_dash3 c s'. skip_comment c s'.
  skip_ops c s'. skip_vs c s'. skip_ops2 c s'. rewrite Htq.
  rewrite (proj2 (N.eqb_eq c c_dq)) by chr. rewrite Hdq. reflexivity.
Qed.

Lemma sp_number st c s' m r :
  (48 <= c <= 57 \/ c = 45) ->
  scan_version cls (c :: s') = None -> prefixb s_dash3 (c :: s') = false -> try_simple simple_ops (c :: s') = None ->
  scan_number cls (c :: s') = Some (m, r) ->
  step_plain cls false st c s' = emit_pat st NUMBER (TVNum m) m r None.
Proof.
  intros Hc Hv Hd Ho Hn. sp_start. skip_sp c. skip_sent c s'. rewrite Hv. skip_envs c s'. rewrite Hd. skip_comment c s'.
  rewrite Ho. skip_vs c s'. skip_ops2 c s'. skip_tq c s'. skip_dq c. rewrite Hn. reflexivity.
Qed.

Lemma sp_true st c s' r :
  c = 116 -> scan_word cls Lexer.s_true (ls_prev st) (c :: s') = Some r ->
  step_plain cls false st c s' = emit_pat st BOOLEAN (TVBool true) Lexer.s_true r None.
Proof.
  intros Hc Hw. sp_start. skip_sp c. skip_sent c s'. skip_ver c s'. skip_envs c s'. skip_dash3 c s'. skip_comment c s'.
  skip_ops c s'. skip_vs c s'. skip_ops2 c s'. skip_tq c s'. skip_dq c. skip_num c s'. rewrite Hw. reflexivity.
Qed.
Lemma sp_false st c s' r :
  c = 102 -> scan_word cls Lexer.s_false (ls_prev st) (c :: s') = Some r ->
  step_plain cls false st c s' = emit_pat st BOOLEAN (TVBool false) Lexer.s_false r None.
Proof.
  intros Hc Hw. sp_start. skip_sp c. skip_sent c s'. skip_ver c s'. skip_envs c s'. skip_dash3 c s'. skip_comment c s'.
  skip_ops c s'. skip_vs c s'. skip_ops2 c s'. skip_tq c s'. skip_dq c. skip_num c s'. skip_true c s'. rewrite Hw. reflexivity.
Qed.
Lemma sp_null st c s' r :
  c = 110 -> scan_word cls Lexer.s_null (ls_prev st) (c :: s') = Some r ->
  step_plain cls false st c s' = emit_pat st NULL TVNone Lexer.s_null r None.
Proof.
  intros Hc Hw. sp_start. skip_sp c. skip_sent c s'. skip_ver c s'. skip_envs c s'. skip_dash3 c s'. skip_comment c s'.
  skip_ops c s'. skip_vs c s'. skip_ops2 c s'. skip_tq c s'. skip_dq c. skip_num c s'. skip_true c s'. skip_false c s'.
  rewrite Hw. reflexivity.
Qed.

Lemma sp_sentinel st c s' m v r :
  c = 79 -> ls_pos st = 0 -> scan_sentinel cls (c :: s') = Some (m, v, r) ->
  step_plain cls false st c s' = emit_pat st GRAMMAR_SENTINEL (TVText v) m r None.
Proof.
  intros Hc Hp Hs. sp_start. skip_sp c. rewrite Hp. change (N.eqb 0 0) with true. cbv iota. rewrite Hs. reflexivity.
Qed.

Lemma sp_env_end st c s' :
  c = 61 -> prefixb s_end_env (c :: s') = true ->
  step_plain cls false st c s' = emit_pat st ENVELOPE_END (TVText [69;78;68]) s_end_env (skipn 9 (c :: s')) None.
Proof.
  intros Hc He. sp_start. skip_sp c. skip_sent c s'. skip_ver c s'. rewrite He. reflexivity.
Qed.
Lemma sp_env_start st c s' nm r :
  c = 61 -> prefixb s_end_env (c :: s') = false -> scan_envelope_start (c :: s') = Some (nm, r) ->
  step_plain cls false st c s' = emit_pat st ENVELOPE_START (TVText nm) (s_eq3 ++ nm ++ s_eq3) r None.
Proof.
  intros Hc He Hs. sp_start. skip_sp c. skip_sent c s'. skip_ver c s'. rewrite He, Hs. reflexivity.
Qed.
Lemma sp_sep st c s' :
  c = 45 -> prefixb s_dash3 (c :: s') = true ->
  step_plain cls false st c s' = emit_pat st SEPARATOR (TVText s_dash3) s_dash3 (skipn 3 (c :: s')) None.
Proof.
  intros Hc Hd. sp_start. skip_sp c. skip_sent c s'. skip_ver c s'. skip_envs c s'. rewrite Hd. reflexivity.
Qed.

(* ================= text-level chunk lemmas ============================================================================= *)

(* ---- indentation at column 1 ---- *)
Lemma forallb_repeat_sp n : forallb (N.eqb c_sp) (repeat c_sp n) = true.
Proof. induction n; cbn [repeat forallb]; [reflexivity|]. rewrite N.eqb_refl. exact IHn. Qed.

Lemma T_indent st n x r :
  ls_in st = repeat c_sp (S n) ++ x :: r -> x <> c_sp -> x <> c_nl -> ls_col st = 1 -> ls_spans st = [] ->
  exists st', tstep st st' INDENT (TVCount (N.of_nat (S n))) (x :: r) (Some c_sp).
Proof.
  intros Hin Hx1 Hx2 Hcol Hsp.
  assert (Hstep : step cls false st =
    Continue (mkLS (x :: r) (Some c_sp) (ls_pos st + N.of_nat (S n)) (ls_line st) (ls_col st + N.of_nat (S n))
                   (mkTok INDENT (TVCount (N.of_nat (S n))) (ls_line st) (ls_col st) None :: ls_toks st)
                   (ls_reps st) (ls_brk st) (ls_spans st))).
  { unfold step. rewrite Hin. cbn [repeat app]. rewrite Hsp. unfold step_plain. cbv zeta.
    rewrite N.eqb_refl, Hcol. change (N.eqb 1 1) with true. cbv iota.
    change (c_sp :: repeat c_sp n ++ x :: r) with (repeat c_sp (S n) ++ x :: r).
    rewrite takeb_app_stop, dropb_app_stop by (first [apply forallb_repeat_sp | apply neqb; congruence]).
    rewrite (neqb x c_nl) by exact Hx2. cbn [negb]. cbv iota. unfold len. rewrite repeat_length, ?Hsp. reflexivity. }
  eexists. unfold tstep. split; [exact Hstep|].
  cbn [ls_in ls_prev ls_pos ls_toks ls_reps ls_brk ls_spans].
  repeat split; try reflexivity; [lia|eexists _, _, _; reflexivity].
Qed.

(* ---- key identifier (through step_fallback / scan_identifier) ---- *)
Definition key_ok (k : str) : bool :=
  word_ok k && negb (str_in k [Lexer.s_true; Lexer.s_false; Lexer.s_null; s_vs]) &&
  (match wrong_case_of k with None => true | Some _ => false end) && negb (vs_embedded k).

Lemma id_start_key c : key_start c = true -> id_start cls c = true.
Proof.
  intros H. pose proof (proj1 (key_start_range c) H) as R. unfold id_start. rewrite is_ascii_lt by lia.
  unfold key_start in H. apply orb_true_iff in H as [H|H]; [rewrite H; reflexivity|].
  apply orb_true_iff; right. cbn [memb existsb]. rewrite H. reflexivity.
Qed.
Lemma id_char_key c : key_char c = true -> id_char cls c = true.
Proof.
  intros H. pose proof (proj1 (key_char_range c) H) as R. unfold id_char. rewrite is_ascii_lt by lia.
  unfold key_char in H. apply orb_true_iff in H as [H|H]; [rewrite H; reflexivity|].
  apply orb_true_iff; right. cbn [memb existsb]. rewrite H. reflexivity.
Qed.

Lemma std_id l : (forall x, In x l -> x <> c_dash) -> strip_trailing_dash l = l.
Proof. destruct l as [|c l]; [reflexivity|]. intros H. cbn [strip_trailing_dash]. rewrite neqb by (apply H; left; reflexivity). reflexivity. Qed.

Lemma scan_ident_core_word c k r : forallb key_char k = true ->
  scan_ident_core cls c (k ++ c_colon :: r) = (c :: k, c_colon :: r).
Proof.
  intros Hk. unfold scan_ident_core.
  rewrite takeb_app_stop; [|apply (forallb_impl key_char); [apply id_char_key|exact Hk]|reflexivity].
  rewrite std_id.
  2:{ intros x Hx. apply in_rev in Hx. rewrite forallb_forall in Hk.
      specialize (Hk x Hx). apply key_char_range in Hk. chr. }
  rewrite rev_involutive, skipn_app_len. reflexivity.
Qed.

Lemma scan_identifier_word c k r : key_start c = true -> forallb key_char k = true ->
  scan_identifier cls false (c :: k ++ c_colon :: r) = Some (c :: k, c_colon :: r, None).
Proof. intros Hc Hk. unfold scan_identifier. rewrite (id_start_key _ Hc), (scan_ident_core_word c k r Hk). reflexivity. Qed.

Lemma T_key st k r :
  key_ok k = true -> ls_in st = k ++ c_colon :: r -> ls_pos st <> 0 -> ls_spans st = [] ->
  exists st', tstep st st' IDENTIFIER (TVText k) (c_colon :: r) (last_chr k).
Proof.
  intros Hk Hin Hpos Hsp. unfold key_ok in Hk.
  apply andb_true_iff in Hk as [Hk Hvs]. apply andb_true_iff in Hk as [Hk Hwc]. apply andb_true_iff in Hk as [Hw Hres].
  apply negb_true_iff in Hvs. apply negb_true_iff in Hres.
  destruct (wrong_case_of k) as [w|] eqn:Ewc; [discriminate Hwc|]. clear Hwc.
  pose proof (word_ok_chars _ Hw) as Hkc.
  destruct k as [|c k']; [discriminate Hw|]. cbn [word_ok] in Hw. apply andb_true_iff in Hw as [Hc Hk'].
  cbn [str_in] in Hres. repeat (apply orb_false_iff in Hres as [? Hres]).
  assert (Huw : forallb (u_word cls) (c :: k') = true) by (apply (forallb_impl key_char); [apply u_word_key|exact Hkc]).
  assert (Hcol : u_word cls c_colon = false) by (apply u_word_false; chr).
  cbn [app] in Hin.
  assert (Hstep : step cls false st =
    Continue (adv st (c :: k') (c_colon :: r) (mkTok IDENTIFIER (TVText (c :: k')) (ls_line st) (ls_col st) None :: ls_toks st) (ls_reps st))).
  { unfold step. rewrite Hin, Hsp.
    rewrite sp_fallback; [|exact Hc|exact Hpos
      |apply (scan_word_other cls s_vs (c :: k')); [reflexivity|exact Huw|exact Hcol|assumption]
      |apply (scan_word_other cls Lexer.s_true (c :: k')); [reflexivity|exact Huw|exact Hcol|assumption]
      |apply (scan_word_other cls Lexer.s_false (c :: k')); [reflexivity|exact Huw|exact Hcol|assumption]
      |apply (scan_word_other cls Lexer.s_null (c :: k')); [reflexivity|exact Huw|exact Hcol|assumption]].
    apply key_start_range in Hc.
    unfold step_fallback. cbv zeta. unfold s_eq3 at 1. rewrite hd_prefix_ne by chr. cbn [andb].
    rewrite (neqb c c_plus) by chr. rewrite scan_identifier_word by (first [apply key_start_range; exact Hc|exact Hk']).
    rewrite Ewc, Hvs. reflexivity. }
  eexists. unfold tstep. split; [exact Hstep|]. unfold adv.
  cbn [ls_in ls_prev ls_pos ls_toks ls_reps ls_brk ls_spans].
  repeat split; try reflexivity; [apply len_pos_ne; discriminate|eexists _, _, _; reflexivity].
Qed.

(* ---- operators and newline ---- *)
Lemma T_assign st r : ls_in st = c_colon :: c_colon :: r -> ls_spans st = [] ->
  exists st', tstep st st' ASSIGN (TVText [58;58]) r (Some c_colon).
Proof.
  intros Hin Hsp.
  destruct (tstep_emit_pat st c_colon (c_colon :: r) ASSIGN (TVText [58;58]) [58;58] r Hin Hsp) as (st' & H & _);
    try reflexivity; [|discriminate|exists st'; exact H].
  apply (sp_ops st c_colon (c_colon :: r) [58;58] ASSIGN); reflexivity.
Qed.

Lemma T_block st r : ls_in st = c_colon :: c_nl :: r -> ls_spans st = [] ->
  exists st', tstep st st' BLOCK (TVText [58]) (c_nl :: r) (Some c_colon).
Proof.
  intros Hin Hsp.
  destruct (tstep_emit_pat st c_colon (c_nl :: r) BLOCK (TVText [58]) [58] (c_nl :: r) Hin Hsp) as (st' & H & _);
    try reflexivity; [|discriminate|exists st'; exact H].
  apply (sp_ops st c_colon (c_nl :: r) [58] BLOCK); reflexivity.
Qed.

Lemma T_nl st r : ls_in st = c_nl :: r -> ls_spans st = [] ->
  exists st', tstep st st' NEWLINE (TVText [c_nl]) r (Some c_nl) /\ ls_col st' = 1.
Proof.
  intros Hin Hsp.
  destruct (tstep_emit_pat st c_nl r NEWLINE (TVText [c_nl]) [c_nl] r Hin Hsp) as (st' & H & Hc);
    try reflexivity; [|discriminate|exists st'; split; [exact H|apply Hc; reflexivity]].
  apply sp_nl. reflexivity.
Qed.

(* ---- quoted string ---- *)
Lemma T_str st s r : ls_in st = quote s ++ c_nl :: r -> ls_spans st = [] ->
  exists st', tstep st st' STRING (TVText s) (c_nl :: r) (Some c_dq).
Proof.
  intros Hin Hsp. unfold quote in Hin. cbn [app] in Hin. rewrite <- app_assoc in Hin. cbn [app] in Hin.
  set (s' := escape s ++ c_dq :: c_nl :: r) in *.
  destruct (tstep_emit_pat st c_dq s' STRING (TVText (unescape_tok (escape s))) (c_dq :: escape s ++ [c_dq]) (c_nl :: r) Hin Hsp)
    as (st' & H & _); try reflexivity.
  - apply sp_dq; [reflexivity| |].
    + subst s'. pose proof (escape_hd_not_dq s) as Hh. destruct (escape s) as [|y e]; [reflexivity|].
      cbn [app prefixb]. rewrite N.eqb_refl. rewrite (neqb c_dq y) by congruence. reflexivity.
    + subst s'. apply scan_dq_body_escape. cbn [length]. rewrite app_length. lia.
  - discriminate.
  - exists st'. rewrite unescape_tok_escape in H.
    change (c_dq :: escape s ++ [c_dq]) with ((c_dq :: escape s) ++ [c_dq]) in H. rewrite last_chr_app_last in H. exact H.
Qed.

(* ---- true / false / null after `::` ---- *)
Lemma wbb_colon : word_boundary_before cls (Some c_colon) = true.
Proof. unfold word_boundary_before. rewrite u_word_false by chr. reflexivity. Qed.
Lemma uw_nl : u_word cls c_nl = false.
Proof. apply u_word_false; chr. Qed.

Lemma T_true st r : ls_in st = s_true_lit ++ c_nl :: r -> ls_prev st = Some c_colon -> ls_spans st = [] ->
  exists st', tstep st st' BOOLEAN (TVBool true) (c_nl :: r) (Some 101).
Proof.
  intros Hin Hp Hsp.
  destruct (tstep_emit_pat st 116 ([114;117;101] ++ c_nl :: r) BOOLEAN (TVBool true) Lexer.s_true (c_nl :: r) Hin Hsp) as (st' & H & _);
    try reflexivity; [|discriminate|exists st'; exact H].
  apply sp_true; [reflexivity|]. rewrite Hp. apply (scan_word_hit cls Lexer.s_true); [apply wbb_colon|apply uw_nl].
Qed.
Lemma T_false st r : ls_in st = s_false_lit ++ c_nl :: r -> ls_prev st = Some c_colon -> ls_spans st = [] ->
  exists st', tstep st st' BOOLEAN (TVBool false) (c_nl :: r) (Some 101).
Proof.
  intros Hin Hp Hsp.
  destruct (tstep_emit_pat st 102 ([97;108;115;101] ++ c_nl :: r) BOOLEAN (TVBool false) Lexer.s_false (c_nl :: r) Hin Hsp) as (st' & H & _);
    try reflexivity; [|discriminate|exists st'; exact H].
  apply sp_false; [reflexivity|]. rewrite Hp. apply (scan_word_hit cls Lexer.s_false); [apply wbb_colon|apply uw_nl].
Qed.
Lemma T_null st r : ls_in st = s_null_lit ++ c_nl :: r -> ls_prev st = Some c_colon -> ls_spans st = [] ->
  exists st', tstep st st' NULL TVNone (c_nl :: r) (Some 108).
Proof.
  intros Hin Hp Hsp.
  destruct (tstep_emit_pat st 110 ([117;108;108] ++ c_nl :: r) NULL TVNone Lexer.s_null (c_nl :: r) Hin Hsp) as (st' & H & _);
    try reflexivity; [|discriminate|exists st'; exact H].
  apply sp_null; [reflexivity|]. rewrite Hp. apply (scan_word_hit cls Lexer.s_null); [apply wbb_colon|apply uw_nl].
Qed.

(* ---- numbers:  -?digits(.digits)?([eE][+-]?digits)?  ---- *)
Definition digs (s : str) : bool := match s with [] => false | _ => forallb is_digit s end.
Lemma digs_spec s : digs s = true -> s <> [] /\ forallb is_digit s = true.
Proof. destruct s; [discriminate|]. intros H. split; [discriminate|exact H]. Qed.

Definition frac_ok (fr : str) : bool := match fr with [] => true | x :: f => N.eqb x c_dot && digs f end.
Definition is_e (c : N) : bool := N.eqb c 101 || N.eqb c 69.
Definition is_sign (c : N) : bool := N.eqb c c_plus || N.eqb c c_dash.
Definition exp_ok (ex : str) : bool :=
  match ex with
  | [] => true
  | e :: r => is_e e && match r with c :: r' => if is_sign c then digs r' else digs r | [] => false end
  end.
Definition num_body_ok (s : str) : bool :=
  digs (takeb is_digit s) &&
  match dropb is_digit s with
  | [] => true
  | x :: f => if N.eqb x c_dot then digs (takeb is_digit f) && exp_ok (dropb is_digit f) else exp_ok (x :: f)
  end.
Definition num_ok (s : str) : bool :=
  match s with c :: r => if N.eqb c c_dash then num_body_ok r else num_body_ok s | [] => false end.

Lemma num_body_shape s : num_body_ok s = true ->
  exists d fr ex, s = d ++ fr ++ ex /\ digs d = true /\ frac_ok fr = true /\ exp_ok ex = true.
Proof.
  unfold num_body_ok. intros H. apply andb_true_iff in H as [H1 H2].
  pose proof (takeb_dropb is_digit s) as E. destruct (dropb is_digit s) as [|x f].
  - exists (takeb is_digit s), [], []. repeat split; [rewrite !app_nil_r in *; symmetry; exact E|exact H1].
  - destruct (N.eqb_spec x c_dot) as [->|Hx].
    + apply andb_true_iff in H2 as [H2 H3]. pose proof (takeb_dropb is_digit f) as Ef.
      exists (takeb is_digit s), (c_dot :: takeb is_digit f), (dropb is_digit f).
      split; [cbn [app]; rewrite Ef; symmetry; exact E|]. split; [exact H1|]. split; [|exact H3].
      cbn [frac_ok]. rewrite N.eqb_refl. exact H2.
    + exists (takeb is_digit s), [], (x :: f). split; [symmetry; exact E|]. split; [exact H1|]. split; [reflexivity|exact H2].
Qed.

Lemma digits1_app d y r : digs d = true -> u_digit cls y = false -> digits1 cls (d ++ y :: r) = Some (d, y :: r).
Proof.
  intros Hd Hy. apply digs_spec in Hd as [Hne Hd]. unfold digits1.
  rewrite takeb_app_stop, dropb_app_stop by (first [apply (forallb_impl is_digit); [apply u_digit_true|exact Hd] | exact Hy]).
  destruct d; [congruence|reflexivity].
Qed.

Lemma digs_hd d : digs d = true -> exists d0 d', d = d0 :: d' /\ 48 <= d0 <= 57.
Proof.
  destruct d as [|d0 d']; [discriminate|]. cbn [digs forallb]. intros H. apply andb_true_iff in H as [H _].
  exists d0, d'. split; [reflexivity|]. apply is_digit_range. exact H.
Qed.

(* the exponent part of scan_number *)
Definition sexp (r3 : str) : str * str :=
  match r3 with
  | e :: r =>
      if N.eqb e 101 || N.eqb e 69 then
        let '(sg, r') := match r with c :: r'' => if N.eqb c c_plus || N.eqb c c_dash then ([c], r'') else ([], r) | [] => ([], r) end in
        match digits1 cls r' with
        | Some (ed, r5) => (e :: sg ++ ed, r5)
        | None => ([], r3)
        end
      else ([], r3)
  | [] => ([], r3)
  end.

Definition snum_rest (sign r0 : str) : option (str * str) :=
  match digits1 cls r0 with
  | None => None
  | Some (d, r1) =>
      let '(dot, r2) := match r1 with c :: r => if N.eqb c c_dot then ([c], r) else ([], r1) | [] => ([], r1) end in
      let frac := takeb (u_digit cls) r2 in
      let r3 := dropb (u_digit cls) r2 in
      let '(ex, r4) := sexp r3 in
      Some (sign ++ d ++ dot ++ frac ++ ex, r4)
  end.
Lemma scan_number_pos c x : c <> c_dash -> scan_number cls (c :: x) = snum_rest [] (c :: x).
Proof. intros H. unfold scan_number. rewrite (neqb _ _ H). reflexivity. Qed.
Lemma scan_number_neg x : scan_number cls (c_dash :: x) = snum_rest [c_dash] x.
Proof. reflexivity. Qed.

Lemma ud_nl : u_digit cls c_nl = false.
Proof. apply u_digit_false; chr. Qed.
Lemma ud_dot : u_digit cls c_dot = false.
Proof. apply u_digit_false; chr. Qed.

(* what follows the mantissa: the exponent marker or the newline -- never a digit, a dot, a dash or a plus *)
Lemma exp_next ex r : exp_ok ex = true -> exists z t, ex ++ c_nl :: r = z :: t /\ (z = 101 \/ z = 69 \/ z = 10).
Proof.
  destruct ex as [|e ex']; [intros _; exists c_nl, r; split; [reflexivity|right; right; reflexivity]|].
  cbn [exp_ok]. intros H. apply andb_true_iff in H as [H _]. unfold is_e in H. apply orb_true_iff in H.
  exists e, (ex' ++ c_nl :: r). split; [reflexivity|]. destruct H as [H|H]; apply N.eqb_eq in H; auto.
Qed.

Lemma sexp_ok ex r : exp_ok ex = true -> sexp (ex ++ c_nl :: r) = (ex, c_nl :: r).
Proof.
  destruct ex as [|e ex']; [intros _; reflexivity|].
  cbn [exp_ok]. intros H. apply andb_true_iff in H as [He H]. unfold is_e in He. cbn [app sexp]. rewrite He.
  destruct ex' as [|c r']; [discriminate H|]. unfold is_sign in H. cbn [app].
  destruct (N.eqb c c_plus || N.eqb c c_dash) eqn:Es.
  - rewrite (digits1_app r' c_nl r H ud_nl). reflexivity.
  - change (c :: r' ++ c_nl :: r) with ((c :: r') ++ c_nl :: r). rewrite (digits1_app (c :: r') c_nl r H ud_nl). reflexivity.
Qed.

Lemma snum_rest_ok sign d fr ex r : digs d = true -> frac_ok fr = true -> exp_ok ex = true ->
  snum_rest sign (d ++ fr ++ ex ++ c_nl :: r) = Some (sign ++ d ++ fr ++ ex, c_nl :: r).
Proof.
  intros Hd Hfr Hex. destruct (exp_next ex r Hex) as (z & t & Ez & Hz).
  assert (Hzd : u_digit cls z = false) by (apply u_digit_false; lia).
  assert (Hzdot : N.eqb z c_dot = false) by (apply neqb; chr).
  unfold snum_rest. destruct fr as [|x f].
  - cbn [app]. rewrite Ez, (digits1_app d z t Hd Hzd). rewrite Hzdot. cbv iota beta zeta.
    cbn [takeb dropb]. rewrite Hzd. rewrite <- Ez, (sexp_ok ex r Hex). reflexivity.
  - cbn [frac_ok] in Hfr. apply andb_true_iff in Hfr as [Hx Hf]. apply N.eqb_eq in Hx. subst x.
    cbn [app]. rewrite (digits1_app d c_dot _ Hd ud_dot). rewrite N.eqb_refl. cbv iota beta zeta.
    pose proof (digs_spec _ Hf) as [_ Hf'].
    rewrite Ez, takeb_app_stop, dropb_app_stop by (first [apply (forallb_impl is_digit); [apply u_digit_true|exact Hf'] | exact Hzd]).
    rewrite <- Ez, (sexp_ok ex r Hex). reflexivity.
Qed.

(* VERSION does not take a number of this form followed by a newline *)
Lemma scan_version_num d fr ex r : digs d = true -> frac_ok fr = true -> exp_ok ex = true ->
  scan_version cls (d ++ fr ++ ex ++ c_nl :: r) = None.
Proof.
  intros Hd Hfr Hex. destruct (exp_next ex r Hex) as (z & t & Ez & Hz).
  assert (Hzd : u_digit cls z = false) by (apply u_digit_false; lia).
  unfold scan_version, scan_version3, scan_version2pre, scan_version2build, scan_d_dot_d.
  destruct fr as [|x f].
  - cbn [app]. rewrite Ez, (digits1_app d z t Hd Hzd). rewrite (neqb z c_dot) by chr. reflexivity.
  - cbn [frac_ok] in Hfr. apply andb_true_iff in Hfr as [Hx Hf]. apply N.eqb_eq in Hx. subst x.
    cbn [app]. rewrite (digits1_app d c_dot _ Hd ud_dot). rewrite N.eqb_refl. rewrite Ez, (digits1_app f z t Hf Hzd).
    unfold opt_tail. rewrite (neqb z c_dot), (neqb z c_dash), (neqb z c_plus) by chr. reflexivity.
Qed.

Lemma T_num st c r : num_ok c = true -> ls_in st = c ++ c_nl :: r -> ls_spans st = [] ->
  exists st', tstep st st' NUMBER (TVNum c) (c_nl :: r) (last_chr c).
Proof.
  intros Hn Hin Hsp.
  (* reduce to: first character, the three non-firing tests, and the scanner equation *)
  assert (Hgoal : exists c0 s', c ++ c_nl :: r = c0 :: s' /\ (48 <= c0 <= 57 \/ c0 = 45) /\
            scan_version cls (c0 :: s') = None /\ prefixb s_dash3 (c0 :: s') = false /\
            try_simple simple_ops (c0 :: s') = None /\ scan_number cls (c0 :: s') = Some (c, c_nl :: r) /\
            alias_of c = None /\ c <> []).
  { unfold num_ok in Hn. destruct c as [|c0 cr]; [discriminate|].
    destruct (N.eqb_spec c0 c_dash) as [->|Hnd].
    - (* negative *)
      destruct (num_body_shape _ Hn) as (d & fr & ex & -> & Hd & Hfr & Hex).
      destruct (digs_hd _ Hd) as (d0 & d' & Ed & Hd0).
      exists c_dash, ((d ++ fr ++ ex) ++ c_nl :: r). split; [reflexivity|]. split; [right; reflexivity|].
      split; [apply hd_version; apply u_digit_false; chr|].
      split; [rewrite Ed; cbn [app]; unfold s_dash3; cbn [prefixb]; rewrite (neqb 45 d0) by lia; rewrite andb_false_r; reflexivity|].
      split; [rewrite Ed; cbn [app]; unfold simple_ops; cbn [try_simple prefixb]; rewrite (neqb 62 d0) by lia; reflexivity|].
      split; [|split; [rewrite Ed; apply alias_of_none_dash; lia|discriminate]].
      rewrite scan_number_neg, <- !app_assoc. exact (snum_rest_ok [c_dash] d fr ex r Hd Hfr Hex).
    - (* non-negative *)
      destruct (num_body_shape _ Hn) as (d & fr & ex & E & Hd & Hfr & Hex).
      destruct (digs_hd _ Hd) as (d0 & d' & Ed & Hd0).
      assert (E0 : c0 = d0) by (rewrite Ed in E; cbn [app] in E; inversion E; reflexivity). subst c0.
      exists d0, (cr ++ c_nl :: r). split; [reflexivity|]. split; [left; exact Hd0|].
      change (d0 :: cr ++ c_nl :: r) with ((d0 :: cr) ++ c_nl :: r). rewrite E, <- !app_assoc.
      split; [apply scan_version_num; assumption|].
      split; [rewrite Ed; cbn [app]; apply hd_dash3; lia|].
      split; [rewrite Ed; cbn [app]; apply hd_ops; lia|].
      split; [|split; [rewrite Ed; cbn [app]; apply alias_of_none_hd; lia|rewrite Ed; discriminate]].
      rewrite Ed at 1. cbn [app]. rewrite scan_number_pos by chr.
      change (d0 :: d' ++ fr ++ ex ++ c_nl :: r) with ((d0 :: d') ++ fr ++ ex ++ c_nl :: r). rewrite <- Ed.
      rewrite !app_assoc, <- (app_assoc d fr ex), <- !app_assoc.
      exact (snum_rest_ok [] d fr ex r Hd Hfr Hex). }
  destruct Hgoal as (c0 & s' & Ecs & Hc0 & Hv & Hd3 & Hops & Hnum & Hal & Hne).
  rewrite Ecs in Hin.
  destruct (tstep_emit_pat st c0 s' NUMBER (TVNum c) c (c_nl :: r) Hin Hsp) as (st' & H & _);
    try reflexivity; try assumption.
  - apply sp_number; assumption.
  - exists st'. exact H.
Qed.

(* ---- grammar sentinel at offset 0:  OCTAVE::d(.d)* ---- *)
Definition dotted (l : list str) : str := flat_map (fun d => c_dot :: d) l.
Definition ver_ok (g : str) : bool :=
  match split_on c_dot g with d :: l => digs d && forallb digs l | [] => false end.

Lemma join_dotted l : forall d, join [c_dot] (d :: l) = d ++ dotted l.
Proof.
  induction l as [|d2 l IH]; intros d; [cbn; rewrite app_nil_r; reflexivity|].
  change (join [c_dot] (d :: d2 :: l)) with (d ++ [c_dot] ++ join [c_dot] (d2 :: l)). rewrite IH. reflexivity.
Qed.
Lemma ver_ok_shape g : ver_ok g = true -> exists d l, g = d ++ dotted l /\ digs d = true /\ forallb digs l = true.
Proof.
  unfold ver_ok. intros H. pose proof (join_split c_dot g) as E.
  destruct (split_on c_dot g) as [|d l]; [discriminate|]. apply andb_true_iff in H as [H1 H2].
  exists d, l. split; [rewrite <- E; apply join_dotted|split; assumption].
Qed.

Lemma dotted_next l y r : u_digit cls y = false -> exists z t, dotted l ++ y :: r = z :: t /\ u_digit cls z = false.
Proof. intros Hy. destruct l as [|d l]; [exists y, r; split; [reflexivity|exact Hy]|]. eexists _, _. split; [reflexivity|apply ud_dot]. Qed.

Lemma dot_digits_star_dotted l : forall fuel y r, forallb digs l = true -> (length l <= fuel)%nat ->
  y <> c_dot -> u_digit cls y = false ->
  dot_digits_star cls fuel (dotted l ++ y :: r) = (dotted l, y :: r).
Proof.
  induction l as [|d l IH]; intros fuel y r Hl Hf Hy Hyd.
  - cbn [dotted flat_map app]. destruct fuel; cbn [dot_digits_star]; [reflexivity|]. rewrite (neqb _ _ Hy). reflexivity.
  - cbn [forallb] in Hl. apply andb_true_iff in Hl as [Hd Hl]. cbn [length] in Hf. destruct fuel as [|fuel]; [lia|].
    change (dotted (d :: l)) with ((c_dot :: d) ++ dotted l). rewrite <- app_assoc. cbn [app dot_digits_star].
    rewrite N.eqb_refl.
    destruct (dotted_next l y r Hyd) as (z & t & Ez & Hz). rewrite <- ?app_assoc, Ez.
    rewrite (digits1_app d z t Hd Hz). rewrite <- Ez. rewrite IH by (first [assumption|lia]). reflexivity.
Qed.

Lemma dotted_length l : (length l <= length (dotted l))%nat.
Proof. induction l as [|d l IH]; cbn [dotted flat_map length]; [lia|]. rewrite app_length. cbn [length]. unfold dotted in IH. lia. Qed.

Lemma scan_sentinel_ver g r : ver_ok g = true ->
  scan_sentinel cls (s_octave ++ g ++ c_nl :: r) = Some (s_octave ++ g, g, c_nl :: r).
Proof.
  intros Hg. destruct (ver_ok_shape _ Hg) as (d & l & -> & Hd & Hl).
  unfold scan_sentinel. change s_octave_assign with s_octave. rewrite prefixb_app.
  change 8%nat with (length s_octave). rewrite skipn_app_len.
  unfold scan_sentinel_version. rewrite <- app_assoc.
  destruct (dotted_next l c_nl r ud_nl) as (z & t & Ez & Hz). rewrite Ez, (digits1_app d z t Hd Hz), <- Ez.
  rewrite dot_digits_star_dotted; [|exact Hl|rewrite app_length; pose proof (dotted_length l); lia|discriminate|exact ud_nl].
  change (opt_tail c_dash cls_alnum_dot_dash (c_nl :: r)) with (@nil N, c_nl :: r).
  cbv iota beta. rewrite app_nil_r. reflexivity.
Qed.

Lemma T_sentinel st g r : ver_ok g = true -> ls_in st = s_octave ++ g ++ c_nl :: r -> ls_pos st = 0 -> ls_spans st = [] ->
  exists st', tstep st st' GRAMMAR_SENTINEL (TVText g) (c_nl :: r) (last_chr (s_octave ++ g)).
Proof.
  intros Hg Hin Hp Hsp.
  destruct (tstep_emit_pat st 79 ([67;84;65;86;69;58;58] ++ g ++ c_nl :: r) GRAMMAR_SENTINEL (TVText g) (s_octave ++ g) (c_nl :: r) Hin Hsp)
    as (st' & H & _); try reflexivity; [|discriminate|exists st'; exact H].
  apply sp_sentinel; [reflexivity|exact Hp|]. exact (scan_sentinel_ver g r Hg).
Qed.

(* ---- envelope start / end, separator ---- *)
Definition s_END : str := [69;78;68].
Definition name_ok (nm : str) : bool := word_ok nm && negb (str_eqb nm s_END).

Lemma not_end_env nm r : forallb key_char nm = true -> str_eqb nm s_END = false ->
  prefixb s_end_env (s_env ++ nm ++ s_env ++ r) = false.
Proof.
  intros Hc Hne. unfold s_end_env, s_env, s_END in *. cbn [app prefixb]. rewrite !N.eqb_refl. cbn [andb].
  assert (K : forall x, key_char x = true -> N.eqb 61 x = false).
  { intros x Hx. apply key_char_range in Hx. apply neqb. lia. }
  destruct nm as [|a [|b [|c [|d nm']]]]; cbn [app prefixb str_eqb forallb] in *;
    repeat match goal with H : _ && _ = true |- _ => apply andb_true_iff in H as [? H] end;
    try reflexivity.
  - destruct (N.eqb 69 a); [|reflexivity]. reflexivity.
  - destruct (N.eqb 69 a); [|reflexivity]. destruct (N.eqb 78 b); reflexivity.
  - destruct (N.eqb 69 a) eqn:Ea; [|reflexivity]. destruct (N.eqb 78 b) eqn:Eb; [|reflexivity].
    destruct (N.eqb 68 c) eqn:Ec; [|reflexivity].
    apply N.eqb_eq in Ea, Eb, Ec. subst. discriminate Hne.
  - destruct (N.eqb 69 a); [|reflexivity]. destruct (N.eqb 78 b); [|reflexivity]. destruct (N.eqb 68 c); [|reflexivity].
    cbn [andb]. rewrite (K d) by assumption. reflexivity.
Qed.

Lemma scan_envelope_start_name nm r : word_ok nm = true ->
  scan_envelope_start (s_env ++ nm ++ s_env ++ r) = Some (nm, r).
Proof.
  intros Hw. destruct nm as [|c nm']; [discriminate|]. cbn [word_ok] in Hw. apply andb_true_iff in Hw as [Hc Hk].
  unfold scan_envelope_start. change s_eq3 with s_env. rewrite prefixb_app.
  change 3%nat with (length s_env). rewrite skipn_app_len. cbn [app].
  change (env_id_start c) with (key_start c). rewrite Hc.
  change env_id_char with key_char.
  change (s_env ++ r) with (61 :: [61;61] ++ r).
  rewrite takeb_app_stop, dropb_app_stop by (first [exact Hk|reflexivity]).
  change (61 :: [61;61] ++ r) with (s_env ++ r). rewrite prefixb_app, skipn_app_len. reflexivity.
Qed.

Lemma T_env_start st nm r : name_ok nm = true -> ls_in st = s_env ++ nm ++ s_env ++ c_nl :: r -> ls_spans st = [] ->
  exists st', tstep st st' ENVELOPE_START (TVText nm) (c_nl :: r) (Some 61).
Proof.
  intros Hn Hin Hsp. unfold name_ok in Hn. apply andb_true_iff in Hn as [Hw Hne]. apply negb_true_iff in Hne.
  destruct (tstep_emit_pat st 61 ([61;61] ++ nm ++ s_env ++ c_nl :: r) ENVELOPE_START (TVText nm) (s_eq3 ++ nm ++ s_eq3) (c_nl :: r) Hin Hsp)
    as (st' & H & _); try reflexivity.
  - apply sp_env_start; [reflexivity| |].
    + exact (not_end_env nm (c_nl :: r) (word_ok_chars _ Hw) Hne).
    + exact (scan_envelope_start_name nm (c_nl :: r) Hw).
  - discriminate.
  - exists st'. change (s_eq3 ++ nm ++ s_eq3) with (s_eq3 ++ nm ++ [61;61] ++ [61]) in H.
    rewrite !app_assoc, last_chr_app_last in H. exact H.
Qed.

Lemma T_env_end st r : ls_in st = s_end ++ c_nl :: r -> ls_spans st = [] ->
  exists st', tstep st st' ENVELOPE_END (TVText s_END) (c_nl :: r) (Some 61).
Proof.
  intros Hin Hsp.
  destruct (tstep_emit_pat st 61 ([61;61;69;78;68;61;61;61] ++ c_nl :: r) ENVELOPE_END (TVText s_END) s_end_env (c_nl :: r) Hin Hsp)
    as (st' & H & _); try reflexivity; [|discriminate|exists st'; exact H].
  apply (sp_env_end st 61); reflexivity.
Qed.

Lemma T_sep st r : ls_in st = s_sep ++ c_nl :: r -> ls_spans st = [] ->
  exists st', tstep st st' SEPARATOR (TVText s_dash3) (c_nl :: r) (Some 45).
Proof.
  intros Hin Hsp.
  destruct (tstep_emit_pat st 45 ([45;45] ++ c_nl :: r) SEPARATOR (TVText s_dash3) s_dash3 (c_nl :: r) Hin Hsp)
    as (st' & H & _); try reflexivity; [|discriminate|exists st'; exact H].
  apply (sp_sep st 45); reflexivity.
Qed.

End Chunks.
