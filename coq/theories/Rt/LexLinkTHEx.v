(* Rt/LexLinkTH.v: non-vacuity (five holographic values of the class [ "s" ∧ W ] / [ "s" ∧ W["a1",..,"an"] ] at depths 0, 1, 2, 3, with leading / trailing comments), the decoder
   on examples, and refutations for the side condition  key_ok W  (the word after ∧ must lex as ONE IDENTIFIER token, without repair). *)
From OV Require Import Base.Strs Lex.Lexer Syn.Ast Syn.Emitter Syn.Parser Rt.LexLink4
     Rt.TokRound Rt.TokRoundEx Rt.TokRound2 Rt.TokRound2Ex Rt.TokRoundT Rt.TokRoundTHolo Rt.TokRoundTEx
     Rt.LexLinkBase Rt.LexLinkSteps Rt.LexLink Rt.LexLinkEx Rt.LexLink2Base Rt.LexLink2Steps Rt.LexLink2Text Rt.LexLink2
     Rt.LexLinkZText Rt.LexLinkZ Rt.LexLinkT Rt.LexLinkTH.
From Coq Require Import Lia.
Require Coq.Strings.String.
Import Coq.Strings.String.StringSyntax.
Open Scope N_scope.

Definition g1 : str := lit "[""x""" ++ AND ++ lit "REQ]".
Definition g2 : str := lit "[""a b, c""" ++ AND ++ lit "OPT_2]".
Definition g3 : str := lit "[""""" ++ AND ++ lit "REQ]".          (* the empty example string *)
Definition g5 : str := lit "[""x""" ++ AND ++ lit "ENUM[""a"",""b c"",""""]]".      (* a call with three string arguments *)
Definition holo_g (s : str) : bool := str_in s [g1; g2; g3; h2; g5].

Definition g4 : str := h2.                                             (* TokRoundTEx.h2 = ["x"∧REGEX["^a$"]] : one call with a string argument *)
Example decode_g : (hs g1, hw g1) = (lit "x", (lit "REQ", [])) /\ (hs g2, hw g2) = (lit "a b, c", (lit "OPT_2", [])) /\
                   (hs g3, hw g3) = ([], (lit "REQ", [])) /\ (hs g4, hw g4) = (lit "x", (lit "REGEX", [lit "^a$"])) /\
                   g1 = holo_text (lit "x") (lit "REQ", []) /\ g4 = holo_text (lit "x") (lit "REGEX", [lit "^a$"]) /\
                   (hs g5, hw g5) = (lit "x", (lit "ENUM", [lit "a"; lit "b c"; []])) /\
                   forallb th_raw [g1; g2; g3; g4; g5] = true.
Proof. repeat split; vm_compute; reflexivity. Qed.
(* outside the class: the four patterns of TokRoundTEx.v (flow chain with call and target, call, number example + target, null example) *)
(* th_raw only tests the FRAME (h4 = ["x"∧REQ∧REGEX["^a$"]] passes it with W = REQ∧REGEX); the class is frame + wt_ok (W one identifier word) *)
Example outside_class : map th_raw [h1; h3; h6; h4; h5] = [false; false; false; true; false] /\
                        map (fun r => th_raw r && wt_ok (hw r)) [h1; h3; h6; h4; h5] = [false; false; false; false; false].
Proof. split; vm_compute; reflexivity. Qed.

Definition exth : doc :=
  mkDoc (lit "DOC") (Some (lit "6.0.0")) None true [(lit "TYPE", MV (VStr (lit "x y")))]
    [ NBlock (lit "FIELDS") (Some (lit "T1"))
        [ NAssign (lit "F1") (VHolo g1) [lit "a holographic value, depth 1"] (Some (lit "t"));
          NBlock (lit "C") (Some (lit "INDEXER"))
            [ NSection (lit "1") (lit "S") None
                [ NAssign (lit "F2") (VHolo g2) [] None;            (* depth 3 *)
                  NAssign (lit "A") n1 [] None ] [];
              NAssign (lit "F6") (VHolo g3) [] (Some (lit "empty example")) ] [lit "a targeted block inside a targeted block"];
          NAssign (lit "F7") (VHolo g5) [lit "three arguments"] (Some (lit "ENUM"));
          NAssign (lit "L") (VList [n1; n2]) [] None ] [];
      NAssign (lit "H") (VHolo g4) [] None ]
    [].
Example exth_ok : coreth_doc exth = true /\ lex_safeth_doc (hsh_lex ex_cls) exth = true.
Proof. split; vm_compute; reflexivity. Qed.
Example exth_sides : nodes_side ex2_numcanon holo_g ex_idnum (hsh_lex ex_cls) (dsections exth) /\ Forall (field_num_ok ex2_numcanon) (dmeta exth).
Proof.
  split; [|repeat constructor]. cbn [nodes_side node_side val_side dsections exth].
  repeat split; try (intros _; eexists; reflexivity); try (vm_compute; reflexivity); try exact I.
  all: repeat constructor.
Qed.

(* the theorems apply *)
Example exth_lexes_thm :
  exists ts tnl teof,
    tokenize ex_cls false (lines_of (emit (fun _ => false) exth)) = LexOk (ts ++ [tnl; teof]) [] /\
    Forall2 tmatch ts (doct_sh needs_multiline ex_idnum (hsh_lex ex_cls) exth) /\ tk tnl = NEWLINE /\ tk teof = EOF.
Proof. exact (lex_emit_coreth ex_cls (hsh_lex ex_cls) (fun _ => false) exth (proj1 exth_ok) (proj2 exth_ok)). Qed.
Example exth_rt_thm strict sp :
  exists warns, parse_model ex_cls ex2_numcanon holo_g strict (lines_of (emit sp exth)) = PRDoc exth [] warns /\ Forall advisory warns.
Proof.
  exact (text_roundtrip_coreth ex_cls (hsh_lex ex_cls) ex2_numcanon holo_g strict sp exth (proj1 exth_ok) (proj2 exth_ok) (proj1 exth_sides) (proj2 exth_sides)).
Qed.
Example exth_ok_cls : lex_safeth_doc hsh_cls exth = true.
Proof. vm_compute. reflexivity. Qed.
Example exth_rt_lex_thm strict sp :
  exists warns, parse_model ex_cls ex2_numcanon holo_g strict (lines_of (emit sp exth)) = PRDoc exth [] warns /\ Forall advisory warns.
Proof.
  exact (text_roundtrip_coreth_lex ex_cls ex2_numcanon holo_g strict sp exth (proj1 exth_ok) exth_ok_cls (proj1 exth_sides) (proj2 exth_sides)).
Qed.
(* ... and agree with the computation *)
Example exth_rt_computed : parse_model ex_cls ex2_numcanon holo_g true (lines_of (emit (fun _ => false) exth)) = PRDoc exth [] [].
Proof. vm_compute. reflexivity. Qed.
Example exth_shape_check : coret_shape_check ex_cls ex2_numcanon holo_g exth (lines_of (emit (fun _ => false) exth)) = 1.
Proof. vm_compute. reflexivity. Qed.
(* the lexer-derived oracle on the class, by the theorem (any cls) *)
Example g1_shape cls : hsh_lex cls g1 = th_shape (lit "x") (lit "REQ", []).
Proof. exact (hsh_lex_class cls (lit "x") (lit "REQ", []) eq_refl). Qed.
Example g4_shape cls : hsh_lex cls g4 = th_shape (lit "x") (lit "REGEX", [lit "^a$"]).
Proof. exact (hsh_lex_class cls (lit "x") (lit "REGEX", [lit "^a$"]) eq_refl). Qed.

(* ---- the side condition key_ok W ------------------------------------------------------------------------------------------------------------------------ *)
(* hsh_cls (Rt/LexLinkTH.v), the class shape as oracle: what the fragment test promises about a raw text *)
Definition lex_emit_coreth_concl (cls : N -> N) (hsh : str -> list sh) (sp : N -> bool) (d : doc) : Prop :=
  exists ts tnl teof,
    tokenize cls false (lines_of (emit sp d)) = LexOk (ts ++ [tnl; teof]) [] /\
    Forall2 tmatch ts (doct_sh needs_multiline ex_idnum hsh d) /\ tk tnl = NEWLINE /\ tk teof = EOF.
Definition th (raw : str) : doc := dd [NAssign (lit "F") (VHolo raw) [] None] [].
(* W = a literal word: read as BOOLEAN, not IDENTIFIER *)
Lemma lex_emit_coreth_refuted_word_literal :
  exists d, coreth_doc d = true /\ lex_safeth_doc hsh_cls d = false /\ ~ lex_emit_coreth_concl ex_cls hsh_cls (fun _ => false) d.
Proof. exists (th (lit "[""x""" ++ AND ++ lit "true]")). split; [reflexivity|]. split; [reflexivity|]. refute_shape. Qed.
(* W = a wrong-case literal: read as IDENTIFIER but with a repair *)
Lemma lex_emit_coreth_refuted_word_wrong_case :
  exists d, coreth_doc d = true /\ lex_safeth_doc hsh_cls d = false /\ ~ lex_emit_coreth_concl ex_cls hsh_cls (fun _ => false) d.
Proof.
  exists (th (lit "[""x""" ++ AND ++ lit "True]")). split; [reflexivity|]. split; [reflexivity|].
  intros (ts & tnl & teof & H & _). remember (tokenize _ _ _) as R eqn:ER. vm_compute in ER. subst R. discriminate H.
Qed.
(* W = two words: two IDENTIFIER tokens *)
Lemma lex_emit_coreth_refuted_two_words :
  exists d, coreth_doc d = true /\ lex_safeth_doc hsh_cls d = false /\ ~ lex_emit_coreth_concl ex_cls hsh_cls (fun _ => false) d.
Proof. exists (th (lit "[""x""" ++ AND ++ lit "A B]")). split; [reflexivity|]. split; [reflexivity|]. refute_shape. Qed.

(* an argument that is not a quoted string (bare words, the ENUM[a,b] of TokRoundTEx.h1) is outside the frame *)
Example bare_args_outside : th_raw (lit "[""x""" ++ AND ++ lit "ENUM[a,b]]") = false.
Proof. vm_compute. reflexivity. Qed.

Print Assumptions exth_rt_thm.
Print Assumptions lex_emit_coreth_refuted_word_literal.
