(* Spelled strings on the canonical layout, part 1: the spelling language, the printer, the side conditions, the receipt marks and
   the pre-passes (Rt/MultiWord.v is the parser half; Rt/LexSpell.v the lexer half and the text-level theorems).

   A string value s at an assignment site  KEY::s  or a META site may be written
     LQ               quoted with the canonical escape                               -> STRING s
     LBare            as it is, when bare_ok s                                       -> IDENTIFIER s
     LVar             as it is, when var_ok s                                        -> VARIABLE s
     LTq              triple-quoted: three quotes, escape s, three quotes            -> STRING s, marked normalized_from = three quotes,
                                                                                        ONE lexer receipt (kind 0 = normalization)
     LMulti w1 ws     as words w1 (n1+1 blanks) x1 (n2+1 blanks) x2 ...               -> IDENTIFIER w1, then one token per word;
                      the parser coalesces them and pushes ONE multi_word_coalesce record
   List items are written per a one-token oracle qi : str -> strk (quoted / bare / variable), as in MultiWord.v.
   render_sp qa qm qi d is the canonical layout (the line structure of Syn.Emitter.emit) with every string site spelled per oracle. *)
From OV Require Import Base.Strs Gen.LexerGen Syn.Escape Syn.Quote Syn.Ast Syn.Emitter Syn.Parser
     Lex.Lexer Lex.Progress Rt.TokRound Rt.TokRoundEx Rt.TokRound2 Rt.TokRound2Ex Rt.BareWordParse Rt.MultiWord
     Rt.LexLinkBase Rt.LexLinkSteps Rt.LexLink Rt.LexLink2Base Rt.LexLink2Steps Rt.LexLink2Text Rt.LexLink2
     Rt.BareWordLex Rt.BareWord Rt.LexLenientBase.
From Coq Require Import Lia.
Open Scope N_scope.

Definition tq3 : str := [c_dq; c_dq; c_dq].
Notation tqmark := (option str).

(* ---- the spelling language ---------------------------------------------------------------------------------------------------------------- *)
(* LMulti w1 ws: every later word comes with the number of EXTRA blanks written before it (0 = exactly one blank) *)
Inductive spelling := LQ | LBare | LVar | LTq | LMulti (w1 : str) (ws : list (nat * word)).

Definition words_of (ws : list (nat * word)) : list word := map snd ws.
(* the parser-side spelling (MultiWord.spell): triple quotes are invisible to the parser (a STRING token) *)
Definition to_spell (x : spelling) : spell :=
  match x with
  | LQ | LTq => SP QStr
  | LBare => SP QIdent
  | LVar => SP QVar
  | LMulti w1 ws => SMulti w1 (words_of ws)
  end.
Definition of_strk (q : strk) : spelling := match q with QStr => LQ | QIdent => LBare | QVar => LVar end.

Definition sp_text (x : spelling) (s : str) : str :=
  match x with
  | LQ => quote s
  | LBare | LVar => s
  | LTq => tq3 ++ escape s ++ tq3
  | LMulti w1 ws => w1 ++ flat_map (fun p => sp_n (S (fst p)) ++ wtext (snd p)) ws
  end.

(* ---- side conditions ------------------------------------------------------------------------------------------------------------------------ *)
(* a word the LEXER reads back as exactly that token: MultiWord's word_ok (a VALUE token without annotation suffix) and, per kind,
   the condition of the one-token lemma (bare word / variable / canonical number / literal).  Quoted words and VERSION words are
   not covered. *)
Definition lex_word_ok (w : word) : bool :=
  MultiWord.word_ok w &&
  match w with
  | (IDENTIFIER, TVText s) => bare_ok s
  | (VARIABLE, TVText s) => var_ok s
  | (NUMBER, TVNum c) => num_ok c
  | (BOOLEAN, TVBool _) => true
  | (NULL, TVNone) => true
  | _ => false
  end.

Definition site_ok (x : spelling) (s : str) : bool :=
  match x with
  | LQ | LTq => true
  | LBare => bare_ok s
  | LVar => var_ok s
  | LMulti w1 ws =>
      bare_ok w1 && negb (is_nil ws) && forallb lex_word_ok (words_of ws) && str_eqb (join_sp (w1 :: texts (words_of ws))) s
  end.

Lemma site_spell_ok x s : site_ok x s = true -> spell_ok s (to_spell x) = true.
Proof.
  destruct x as [| | | |w1 ws]; cbn [site_ok to_spell spell_ok]; try reflexivity.
  - intros H. rewrite (bare_no_annotation s H). reflexivity.
  - intros H. apply andb_true_iff in H as [H H4]. apply andb_true_iff in H as [H H3]. apply andb_true_iff in H as [H1 H2].
    unfold multi_ok. rewrite (bare_no_annotation w1 H1), H4. cbn [negb andb].
    assert (E : is_nil (words_of ws) = is_nil ws) by (destruct ws; reflexivity). rewrite E, H2. cbn [andb]. rewrite andb_true_r.
    eapply forallb_impl; [|exact H3]. intros w Hw. unfold lex_word_ok in Hw. apply andb_true_iff in Hw as [Hw _]. exact Hw.
Qed.

(* ---- the printer ---------------------------------------------------------------------------------------------------------------------------- *)
Section Render.
Variable qa : str -> str -> spelling.
Variable qm : str -> spelling.
Variable qi : str -> strk.

Definition list_text (D : nat) (items : list value) : str :=
  match items with
  | [] => s_empty_list
  | _ => c_lbr :: (if needs_multiline items then body_text (GNl (S D)) (GNl D) (GNl (S D)) (map (sc_text3 qi) items)
                   else body_text GNone GNone GNone (map (sc_text3 qi) items))
  end.
Definition val_text_sp (x : str -> spelling) (D : nat) (v : value) : str :=
  match v with
  | VStr s => sp_text (x s) s
  | VList items => list_text D items
  | _ => sc_text v
  end.
Definition val_ok_sp (x : str -> spelling) (v : value) : bool :=
  match v with
  | VStr s => site_ok (x s) s
  | VList items => forallb (scalar_ok3 qi) items
  | _ => scalar_ok v
  end.

Fixpoint node_lines_sp (n : node) (D : nat) : list str :=
  match n with
  | NAssign k v l t => emit_leading l D ++ [ind D ++ k ++ s_assign ++ val_text_sp (qa k) D v ++ emit_trailing t]
  | NBlock k _ ch l => emit_leading l D ++ [ind D ++ k ++ [] ++ [c_colon]] ++ flat_map (fun c => node_lines_sp c (S D)) ch
  | NSection i k a ch l =>
      emit_leading l D ++ [ind D ++ [167] ++ i ++ s_assign ++ k ++ annot_text a] ++ flat_map (fun c => node_lines_sp c (S D)) ch
  | NComment _ => []
  end.
Definition meta_line_sp (kv : str * metaval) : str :=
  ind 1 ++ fst kv ++ s_assign ++ match snd kv with MV v => val_text_sp qm 1 v | MD _ => [] end.
Definition meta_lines_sp (m : list (str * metaval)) : list str := match m with [] => [] | _ => s_meta_hdr :: map meta_line_sp m end.
Definition render_lines (d : doc) : list str :=
  grammar_lines d ++ [s_env ++ dname d ++ s_env] ++ meta_lines_sp (dmeta d) ++ (if dsep d then [s_sep] else []) ++
  flat_map (fun n => node_lines_sp n 0) (dsections d) ++ emit_leading (dtrailing d) 0 ++ [s_end].
Definition render_sp (d : doc) : str := unlines (render_lines d).

(* ---- the side condition on a document ------------------------------------------------------------------------------------------------------ *)
Fixpoint sp_safe_node (n : node) : bool :=
  match n with
  | NAssign k v l t => key_ok k && val_ok_sp (qa k) v && forallb comment_ok l && trail_ok t
  | NBlock k _ ch l => key_ok k && forallb comment_ok l && forallb sp_safe_node ch
  | NSection i k a ch l => sid_ok i && key_ok k && annot_ok a && forallb comment_ok l && forallb sp_safe_node ch
  | NComment _ => false
  end.
Definition sp_safe_meta (kv : str * metaval) : bool :=
  key_ok (fst kv) && match snd kv with MV v => val_ok_sp qm v | MD _ => false end.
Definition sp_safe_doc (d : doc) : bool :=
  name_ok (dname d) && (match dgrammar d with Some g => ver_ok g | None => true end) &&
  forallb sp_safe_node (dsections d) && forallb sp_safe_meta (dmeta d) && forallb comment_ok (dtrailing d).

(* the parser-side oracles *)
Definition qa5 (k s : str) : spell := to_spell (qa k s).
Definition qm5 (s : str) : spell := to_spell (qm s).

(* ---- the receipt marks: Some s on the token of a triple-quoted site ------------------------------------------------------------------------ *)
Definition nom (n : nat) : list tqmark := repeat None n.
Definition sp_tq (x : spelling) (s : str) : list tqmark :=
  match x with
  | LTq => [Some s]
  | LMulti _ ws => nom (S (length ws))
  | _ => [None]
  end.
Definition val_tq (x : str -> spelling) (D : nat) (v : value) : list tqmark :=
  match v with
  | VStr s => sp_tq (x s) s
  | _ => nom (length (val_sh3 needs_multiline qi qi D v))
  end.
Fixpoint main_tq (D : nat) (n : node) : list tqmark :=
  match n with
  | NAssign k v _ t => nom 2 ++ val_tq (qa k) D v ++ nom (length (trail_sh t)) ++ nom 1
  | NBlock k _ ch _ =>
      nom 3 ++ flat_map (fun c => nom (length (lead_sh (S D) (lead_of c)) + length (indent_sh (S D))) ++ main_tq (S D) c) ch
  | NSection i k a ch _ =>
      nom 4 ++ nom (length (annot_sh a)) ++ nom 1 ++
      flat_map (fun c => nom (length (lead_sh (S D) (lead_of c)) + length (indent_sh (S D))) ++ main_tq (S D) c) ch
  | NComment _ => []
  end.
Definition node_tq (D : nat) (n : node) : list tqmark := nom (length (lead_sh D (lead_of n)) + length (indent_sh D)) ++ main_tq D n.
Definition nodes_tq (D : nat) (ns : list node) : list tqmark := flat_map (node_tq D) ns.
Definition meta_tq (m : list (str * metaval)) : list tqmark :=
  match m with
  | [] => []
  | _ => nom 3 ++ flat_map (fun kv => nom (length (indent_sh 1)) ++ nom 2 ++ (match snd kv with MV v => val_tq qm 1 v | MD _ => [] end) ++ nom 1) m
  end.
Definition doc_tq (d : doc) : list tqmark :=
  nom (match dgrammar d with Some _ => 2 | None => 0 end) ++ nom 2 ++ meta_tq (dmeta d) ++ nom (if dsep d then 2 else 0) ++
  nodes_tq 0 (dsections d) ++ nom (length (lead_sh 0 (dtrailing d))) ++ nom 1.
(* the triple-quoted strings of a document, in document order *)
Definition tq_sites (d : doc) : list str := flat_map (fun m : tqmark => match m with Some s => [s] | None => [] end) (doc_tq d).

Lemma main_tq_block D k t ch l : main_tq D (NBlock k t ch l) = nom 3 ++ nodes_tq (S D) ch.
Proof. reflexivity. Qed.
Lemma main_tq_section D i k a ch l : main_tq D (NSection i k a ch l) = nom 4 ++ nom (length (annot_sh a)) ++ nom 1 ++ nodes_tq (S D) ch.
Proof. reflexivity. Qed.
End Render.

(* ---- the receipts expected from a token list under a mark list ------------------------------------------------------------------------------ *)
Fixpoint RC (ts : list token) (ms : list tqmark) : list repair :=
  match ts, ms with
  | t :: tr, m :: mr => (match m with Some s => [mkRep 0 tq3 s (tline t) (tcol t)] | None => [] end) ++ RC tr mr
  | _, _ => []
  end.
Lemma RC_app ts1 ts2 m1 m2 : length ts1 = length m1 -> RC (ts1 ++ ts2) (m1 ++ m2) = RC ts1 m1 ++ RC ts2 m2.
Proof.
  revert m1. induction ts1 as [|t tr IH]; intros [|m mr] H; try discriminate H; [reflexivity|].
  cbn [app RC]. rewrite IH by (cbn [length] in H; lia). rewrite app_assoc. reflexivity.
Qed.
Lemma RC_nom ts n : RC ts (nom n) = [].
Proof. revert n. induction ts as [|t tr IH]; intros [|n]; try reflexivity. cbn [nom repeat RC app]. apply IH. Qed.
Lemma nom_len n : length (nom n) = n.
Proof. apply repeat_length. Qed.
Lemma nom_app a b : nom (a + b) = nom a ++ nom b.
Proof. apply repeat_app. Qed.
(* kind, original and replacement of the receipts, position-free: one per marked token, in order *)
Definition rep_core (r : repair) : N * str * str := (rkind r, rorig r, rnew r).
Definition somes (ms : list tqmark) : list str := flat_map (fun m : tqmark => match m with Some s => [s] | None => [] end) ms.
Lemma RC_core ts ms : length ts = length ms -> map rep_core (RC ts ms) = map (fun s => (0, tq3, s)) (somes ms).
Proof.
  revert ms. induction ts as [|t tr IH]; intros [|m mr] H; try discriminate H; [reflexivity|]. cbn [RC somes flat_map].
  rewrite !map_app, IH by (cbn [length] in H; lia). destruct m; reflexivity.
Qed.

(* ---- plain texts ---------------------------------------------------------------------------------------------------------------------------- *)
Lemma plain_sp_n k : plain (sp_n k) = true.
Proof. induction k as [|k IH]; [reflexivity|]. unfold sp_n in *. cbn [repeat]. rewrite plain_cons, IH. reflexivity. Qed.
Lemma plain_escape s : plain (escape s) = true.
Proof. unfold plain. rewrite escape_no_nl, escape_no_tab. reflexivity. Qed.
Lemma plain_word w : lex_word_ok w = true -> plain (wtext w) = true.
Proof.
  unfold lex_word_ok. intros H. apply andb_true_iff in H as [_ H]. destruct w as [k v]. unfold wtext. cbn [fst snd].
  destruct k; try discriminate H; destruct v; try discriminate H; cbn [tts];
    first [apply plain_bare; exact H | apply plain_var; exact H | apply (plain_sc (VNum false raw)); exact H | destruct b; reflexivity | reflexivity].
Qed.
Lemma plain_words ws : forallb lex_word_ok (words_of ws) = true ->
  plain (flat_map (fun p : nat * word => sp_n (S (fst p)) ++ wtext (snd p)) ws) = true.
Proof.
  induction ws as [|[n w] ws IH]; [reflexivity|]. cbn [words_of map forallb snd flat_map fst]. intros H. apply andb_true_iff in H as [H1 H2].
  rewrite !plain_app, plain_sp_n, (plain_word w H1), (IH H2). reflexivity.
Qed.
Lemma plain_sp_text x s : site_ok x s = true -> plain (sp_text x s) = true.
Proof.
  destruct x as [| | | |w1 ws]; cbn [site_ok sp_text]; intros H.
  - apply plain_quote.
  - apply plain_bare. exact H.
  - apply plain_var. exact H.
  - rewrite !plain_app, plain_escape. reflexivity.
  - apply andb_true_iff in H as [H _]. apply andb_true_iff in H as [H H3]. apply andb_true_iff in H as [H1 _].
    rewrite plain_app, (plain_bare _ H1), (plain_words ws H3). reflexivity.
Qed.

Section Prepass.
Variable qa : str -> str -> spelling.
Variable qm : str -> spelling.
Variable qi : str -> strk.
Notation val_text_sp := (val_text_sp qi).
Notation val_ok_sp := (val_ok_sp qi).

Lemma itxts_g items : forallb (scalar_ok3 qi) items = true -> forallb is_scalar items = true -> forallb itxt_ok (map (sc_text3 qi) items) = true.
Proof.
  induction items as [|x r IH]; [reflexivity|]. cbn [forallb map]. intros H1 H2.
  apply andb_true_iff in H1 as [A1 A2]. apply andb_true_iff in H2 as [B1 B2]. rewrite (itxt_of3 _ _ A1 B1), (IH A2 B2). reflexivity.
Qed.

Lemma tok_val_line_sp x D v pfx sfx : cval v = true -> val_ok_sp x v = true ->
  (forall t, plain t = true -> line_ok (pfx ++ t) = true) -> plain sfx = true ->
  tok_text (pfx ++ val_text_sp x D v ++ sfx) = true.
Proof.
  intros Hc Hok Hp Hs.
  assert (Hone : forall t, plain t = true -> tok_text (pfx ++ t ++ sfx) = true).
  { intros t Ht. apply line_tok, Hp. rewrite plain_app, Ht, Hs. reflexivity. }
  destruct v; cbn [cval is_scalar sval_of] in Hc; try discriminate Hc; cbn [LexSpellText.val_text_sp LexSpellText.val_ok_sp] in *;
    try (apply Hone; apply plain_sc; exact Hok).
  - apply Hone. apply plain_sp_text. exact Hok.
  - destruct items as [|y ys]; [apply Hone; reflexivity|].
    pose proof (itxts_g _ Hok Hc) as Hit. cbn [list_text]. destruct (needs_multiline (y :: ys)).
    + change (pfx ++ (c_lbr :: ?b) ++ sfx) with (pfx ++ [c_lbr] ++ b ++ sfx). rewrite app_assoc.
      apply tt_body; [discriminate|exact Hit|apply Hp; reflexivity|].
      unfold line_ok. rewrite !plain_app, plain_ind, Hs. cbn [andb]. unfold s_rb. cbn [app]. apply fence_free_ind; chr.
    + apply Hone. rewrite plain_cons, (plain_inline _ Hit). reflexivity.
Qed.

Notation node_lines_sp := (node_lines_sp qa qi).
Notation sp_safe_node := (sp_safe_node qa qi).

Lemma tok_children (f : node -> nat -> list str) ch D :
  Forall (fun c => tok_text (unlines (f c D)) = true) ch -> tok_text (unlines (flat_map (fun c => f c D) ch)) = true.
Proof. induction 1 as [|c cs Hc _ IH]; [reflexivity|]. cbn [flat_map]. rewrite tok_text_unlines_app, Hc, IH. reflexivity. Qed.

Lemma node_text_ok_sp : forall n, core2_node n = true -> sp_safe_node n = true -> forall D, tok_text (unlines (node_lines_sp n D)) = true.
Proof.
  apply (node_ind2 (fun n => core2_node n = true -> sp_safe_node n = true -> forall D, tok_text (unlines (node_lines_sp n D)) = true)).
  - intros k v l t Hc Hs D. cbn [core2_node] in Hc. apply andb_true_iff in Hc as [Hcv Hne].
    cbn [LexSpellText.sp_safe_node] in Hs. apply andb_true_iff in Hs as [Hs Ht]. apply andb_true_iff in Hs as [Hs Hl]. apply andb_true_iff in Hs as [Hk Hv].
    cbn [LexSpellText.node_lines_sp]. rewrite tok_text_unlines_app, (tok_leading D l Hl), tok_unlines1. cbn [andb].
    replace (ind D ++ k ++ s_assign ++ val_text_sp (qa k) D v ++ emit_trailing t) with ((ind D ++ k ++ s_assign) ++ val_text_sp (qa k) D v ++ emit_trailing t)
      by (rewrite <- !app_assoc; reflexivity).
    apply tok_val_line_sp; [exact Hcv|exact Hv|apply key_pfx; [exact Hk|reflexivity]|apply plain_trailing; exact Ht].
  - intros k tg ch l IH Hc Hs D. cbn [core2_node] in Hc. destruct tg; [discriminate|].
    apply andb_true_iff in Hc as [_ Hcc]. cbn [LexSpellText.sp_safe_node] in Hs. apply andb_true_iff in Hs as [Hs Hss]. apply andb_true_iff in Hs as [Hk Hl].
    cbn [LexSpellText.node_lines_sp]. rewrite !tok_text_unlines_app, (tok_leading D l Hl), tok_unlines1. cbn [andb].
    rewrite (line_tok _ (line_ok_key D k ([] ++ [c_colon]) Hk eq_refl)). cbn [andb].
    apply (tok_children node_lines_sp). clear -IH Hcc Hss.
    induction ch as [|c cs IHc]; [constructor|]. inversion IH as [|? ? Pc Pcs]; subst.
    cbn [forallb] in Hcc, Hss. apply andb_true_iff in Hcc as [Hc1 Hc2]. apply andb_true_iff in Hss as [Hs1 Hs2].
    constructor; [exact (Pc Hc1 Hs1 (S D))|exact (IHc Pcs Hc2 Hs2)].
  - intros i k a ch l IH Hc Hs D. cbn [core2_node] in Hc. apply andb_true_iff in Hc as [Hne Hc]. apply andb_true_iff in Hc as [_ Hcc].
    cbn [LexSpellText.sp_safe_node] in Hs. apply andb_true_iff in Hs as [Hs Hss]. apply andb_true_iff in Hs as [Hs Hl].
    apply andb_true_iff in Hs as [Hs Ha]. apply andb_true_iff in Hs as [Hi Hk].
    cbn [LexSpellText.node_lines_sp]. rewrite !tok_text_unlines_app, (tok_leading D l Hl), tok_unlines1. cbn [andb].
    assert (Hline : line_ok (ind D ++ [167] ++ i ++ s_assign ++ k ++ annot_text a) = true).
    { unfold line_ok. rewrite !plain_app, plain_ind, (plain_sid _ Hi), (plain_keyok _ Hk). cbn [andb].
      assert (Pa : plain (annot_text a) = true).
      { destruct a as [[|x a']|]; try reflexivity. cbn [annot_ok annot_text] in *. rewrite !plain_app, (plain_keyok _ Ha). reflexivity. }
      rewrite Pa. cbn [andb app]. apply fence_free_ind; chr. }
    rewrite (line_tok _ Hline). cbn [andb].
    apply (tok_children node_lines_sp). clear -IH Hcc Hss.
    induction ch as [|c cs IHc]; [constructor|]. inversion IH as [|? ? Pc Pcs]; subst.
    cbn [forallb] in Hcc, Hss. apply andb_true_iff in Hcc as [Hc1 Hc2]. apply andb_true_iff in Hss as [Hs1 Hs2].
    constructor; [exact (Pc Hc1 Hs1 (S D))|exact (IHc Pcs Hc2 Hs2)].
  - intros t Hc; discriminate Hc.
Qed.

Notation render_sp := (render_sp qa qm qi).
Notation sp_safe_doc := (sp_safe_doc qa qm qi).

Lemma core2_parts d : core2_doc d = true ->
  dfront d = None /\ forallb core2_node (dsections d) = true /\ forallb meta_field_ok (dmeta d) = true.
Proof.
  unfold core2_doc. destruct (dfront d); [discriminate|]. intros Hc.
  apply andb_true_iff in Hc as [Hc _]. apply andb_true_iff in Hc as [Hc _]. apply andb_true_iff in Hc as [Hc Hm]. apply andb_true_iff in Hc as [Hc _].
  repeat split; assumption.
Qed.

Lemma meta_field_parts_sp kv : meta_field_ok kv = true -> sp_safe_meta qm qi kv = true ->
  exists v, snd kv = MV v /\ cval v = true /\ key_ok (fst kv) = true /\ val_ok_sp qm v = true /\
            meta_line_sp qm qi kv = ind 1 ++ fst kv ++ s_assign ++ val_text_sp qm 1 v ++ emit_trailing None.
Proof.
  unfold meta_field_ok, sp_safe_meta, meta_line_sp. destruct (snd kv) as [v|]; [|discriminate]. intros Hc H. apply andb_true_iff in H as [Hk Hv].
  exists v. repeat split; try assumption. cbn [emit_trailing]. rewrite app_nil_r. reflexivity.
Qed.

Lemma render_text_ok d : core2_doc d = true -> sp_safe_doc d = true -> tok_text (render_sp d) = true.
Proof.
  intros Hc Hs. destruct (core2_parts d Hc) as (_ & Hcn & Hmf).
  unfold LexSpellText.sp_safe_doc in Hs.
  apply andb_true_iff in Hs as [Hs Htr]. apply andb_true_iff in Hs as [Hs Hm]. apply andb_true_iff in Hs as [Hs Hn]. apply andb_true_iff in Hs as [Hname Hg].
  unfold LexSpellText.render_sp, render_lines, grammar_lines.
  assert (A1 : tok_text (unlines (match dgrammar d with Some g => [s_octave ++ g] | None => [] end)) = true).
  { destruct (dgrammar d) as [g|]; [|reflexivity]. rewrite tok_unlines1. apply line_tok. unfold line_ok. rewrite plain_app, (plain_ver _ Hg). reflexivity. }
  assert (A2 : tok_text (s_env ++ dname d ++ s_env) = true).
  { apply line_tok. unfold line_ok. unfold name_ok in Hname. apply andb_true_iff in Hname as [Hw _].
    rewrite !plain_app, (plain_key _ (word_ok_chars _ Hw)). reflexivity. }
  assert (A3 : tok_text (unlines (meta_lines_sp qm qi (dmeta d))) = true).
  { unfold meta_lines_sp. destruct (dmeta d) as [|kv0 m0]; [reflexivity|]. set (m := kv0 :: m0) in *. clearbody m.
    rewrite tok_text_unlines_cons. change (tok_text s_meta_hdr) with true. cbn [andb].
    induction m as [|kv m IH]; [reflexivity|]. cbn [forallb map] in *.
    apply andb_true_iff in Hmf as [F1 F2]. apply andb_true_iff in Hm as [M1 M2].
    rewrite tok_text_unlines_cons, (IH M2 F2), andb_true_r.
    destruct (meta_field_parts_sp kv F1 M1) as (v & _ & Hcv & Hk & Hok & ->).
    replace (ind 1 ++ fst kv ++ s_assign ++ val_text_sp qm 1 v ++ emit_trailing None) with ((ind 1 ++ fst kv ++ s_assign) ++ val_text_sp qm 1 v ++ [])
      by (rewrite <- !app_assoc; reflexivity).
    apply tok_val_line_sp; [exact Hcv|exact Hok|apply key_pfx; [exact Hk|reflexivity]|reflexivity]. }
  assert (A4 : tok_text (unlines (if dsep d then [s_sep] else [])) = true) by (destruct (dsep d); reflexivity).
  assert (A5 : tok_text (unlines (flat_map (fun n => node_lines_sp n 0) (dsections d))) = true).
  { apply (tok_children node_lines_sp). clear -Hcn Hn. induction (dsections d) as [|c cs IH]; [constructor|]. cbn [forallb] in Hcn, Hn.
    apply andb_true_iff in Hcn as [Hc1 Hc2]. apply andb_true_iff in Hn as [Hn1 Hn2].
    constructor; [exact (node_text_ok_sp c Hc1 Hn1 0%nat)|exact (IH Hn2 Hc2)]. }
  rewrite !tok_text_unlines_app, A1, A3, A4, A5, (tok_leading 0 (dtrailing d) Htr), !tok_unlines1, A2. reflexivity.
Qed.

(* the text starts with O (grammar line) or = (envelope line): no leading blank line *)
Lemma render_nonblank_head d : nonblank_head (render_sp d) = true.
Proof.
  unfold LexSpellText.render_sp, render_lines, grammar_lines. destruct (dgrammar d); reflexivity.
Qed.

Lemma render_first_line d : sp_safe_doc d = true ->
  exists l0 r, split_on c_nl (render_sp d) = l0 :: r /\ prefixb s_dashes l0 = false.
Proof.
  intros Hs. unfold LexSpellText.sp_safe_doc in Hs.
  apply andb_true_iff in Hs as [Hs _]. apply andb_true_iff in Hs as [Hs _]. apply andb_true_iff in Hs as [Hs _]. apply andb_true_iff in Hs as [Hname Hg].
  unfold LexSpellText.render_sp, render_lines, grammar_lines.
  destruct (dgrammar d) as [g|].
  - cbn [app]. rewrite unlines_cons, split_on_app.
    + eexists _, _. split; [reflexivity|reflexivity].
    + pose proof (plain_ver _ Hg) as P. unfold plain in P. apply andb_true_iff in P as [P _]. apply negb_true_iff in P.
      rewrite memb_app, P. reflexivity.
  - cbn [app]. rewrite unlines_cons, split_on_app.
    + eexists _, _. split; [reflexivity|reflexivity].
    + unfold name_ok in Hname. apply andb_true_iff in Hname as [Hw _].
      pose proof (plain_key _ (word_ok_chars _ Hw)) as P. unfold plain in P. apply andb_true_iff in P as [P _]. apply negb_true_iff in P.
      rewrite !memb_app, P. reflexivity.
Qed.
End Prepass.

(* ---- marks that mark nothing ---------------------------------------------------------------------------------------------------------------- *)
Definition allnone {A} (l : list (option A)) : bool := forallb (fun m => match m with None => true | Some _ => false end) l.
Lemma allnone_app {A} (a b : list (option A)) : allnone (a ++ b) = allnone a && allnone b.
Proof. apply forallb_app. Qed.
Lemma allnone_repeat {A} n : allnone (repeat (@None A) n) = true.
Proof. induction n as [|n IH]; [reflexivity|exact IH]. Qed.
Lemma allnone_flat {A B} (f : B -> list (option A)) l : Forall (fun x => allnone (f x) = true) l -> allnone (flat_map f l) = true.
Proof. induction 1 as [|x r Hx _ IH]; [reflexivity|]. cbn [flat_map]. rewrite allnone_app, Hx, IH. reflexivity. Qed.
Lemma RC_allnone ms : allnone ms = true -> forall ts, RC ts ms = [].
Proof.
  induction ms as [|m mr IH]; intros H ts; [destruct ts; reflexivity|]. cbn [allnone forallb] in H. apply andb_true_iff in H as [H1 H2].
  destruct ts as [|t tr]; [reflexivity|]. cbn [RC]. destruct m; [discriminate H1|]. exact (IH H2 tr).
Qed.
Lemma E_allnone ms : allnone ms = true -> forall ts, E ts ms = [].
Proof.
  induction ms as [|m mr IH]; intros H ts; [destruct ts; reflexivity|]. cbn [allnone forallb] in H. apply andb_true_iff in H as [H1 H2].
  destruct ts as [|t tr]; [reflexivity|]. cbn [E]. destruct m; [discriminate H1|]. exact (IH H2 tr).
Qed.

Definition is_tq (x : spelling) : bool := match x with LTq => true | _ => false end.
Definition is_multi (x : spelling) : bool := match x with LMulti _ _ => true | _ => false end.

Section NoMarks.
Variable qa : str -> str -> spelling.
Variable qm : str -> spelling.
Variable qi : str -> strk.

(* no triple-quoted site: no receipt expected *)
Lemma val_tq_none x D v : (forall s, is_tq (x s) = false) -> allnone (val_tq qi x D v) = true.
Proof.
  intros H. destruct v; cbn [val_tq]; try apply allnone_repeat. specialize (H s). destruct (x s); try reflexivity; [discriminate H|apply allnone_repeat].
Qed.
Lemma nodes_tq_none ch D : Forall (fun n => forall D, allnone (main_tq qa qi D n) = true) ch -> allnone (nodes_tq qa qi D ch) = true.
Proof.
  intros H. apply allnone_flat. eapply Forall_impl; [|exact H]. intros n Hn. cbv beta in *. unfold node_tq. rewrite allnone_app, Hn. unfold nom. rewrite allnone_repeat. reflexivity.
Qed.
Lemma main_tq_none : (forall k s, is_tq (qa k s) = false) -> forall n D, allnone (main_tq qa qi D n) = true.
Proof.
  intros H. induction n using node_ind2; intros D.
  - cbn [main_tq]. rewrite !allnone_app, (val_tq_none (qa k) D v (H k)). unfold nom. rewrite !allnone_repeat. reflexivity.
  - rewrite main_tq_block, allnone_app, (nodes_tq_none ch (S D) H0). reflexivity.
  - rewrite main_tq_section, !allnone_app, (nodes_tq_none ch (S D) H0). unfold nom. rewrite !allnone_repeat. reflexivity.
  - reflexivity.
Qed.
Lemma doc_tq_none d : (forall k s, is_tq (qa k s) = false) -> (forall s, is_tq (qm s) = false) -> allnone (doc_tq qa qm qi d) = true.
Proof.
  intros Ha Hm. unfold doc_tq. unfold nom. rewrite !allnone_app, !allnone_repeat. cbn [andb]. rewrite andb_true_r. apply andb_true_iff. split.
  - unfold meta_tq. destruct (dmeta d) as [|kv0 m0]; [reflexivity|]. set (m := kv0 :: m0). rewrite allnone_app. unfold nom. rewrite allnone_repeat. cbn [andb].
    apply allnone_flat. apply Forall_forall. intros kv _. unfold nom. rewrite !allnone_app, !allnone_repeat. cbn [andb]. rewrite andb_true_r.
    destruct (snd kv) as [v|]; [apply val_tq_none; exact Hm|reflexivity].
  - apply nodes_tq_none. apply Forall_forall. intros n _. apply main_tq_none. exact Ha.
Qed.

(* no multi-word site: no record expected *)
Lemma allnone_app_m (a b : list mark) : allnone (a ++ b) = allnone a && allnone b.
Proof. apply forallb_app. Qed.
Notation ml := needs_multiline.
Lemma val_mk5_none x D v : (forall s, is_multi (x s) = false) -> allnone (val_mk5 ml qi (fun s => to_spell (x s)) D v) = true.
Proof.
  intros H. destruct v; cbn [val_mk5]; try apply allnone_repeat. specialize (H s). destruct (x s); try reflexivity. discriminate H.
Qed.
Lemma nodes_mk5_none ch D : Forall (fun n => forall D, allnone (main_mk5 ml (qa5 qa) qi D n) = true) ch -> allnone (nodes_mk5 ml (qa5 qa) qi D ch) = true.
Proof.
  intros H. apply allnone_flat. eapply Forall_impl; [|exact H]. intros n Hn. cbv beta in *. unfold node_mk5. rewrite allnone_app_m, Hn. unfold nomk. rewrite allnone_repeat. reflexivity.
Qed.
Lemma main_mk5_none : (forall k s, is_multi (qa k s) = false) -> forall n D, allnone (main_mk5 ml (qa5 qa) qi D n) = true.
Proof.
  intros H. induction n using node_ind2; intros D.
  - cbn [main_mk5]. rewrite !allnone_app_m. unfold qa5 at 1. rewrite (val_mk5_none (qa k) D v (H k)). unfold nomk. rewrite !allnone_repeat. reflexivity.
  - rewrite main_mk5_block, allnone_app_m, (nodes_mk5_none ch (S D) H0). reflexivity.
  - rewrite main_mk5_section, !allnone_app_m, (nodes_mk5_none ch (S D) H0). unfold nomk. rewrite !allnone_repeat. reflexivity.
  - reflexivity.
Qed.
Lemma doc5_mk_none d : (forall k s, is_multi (qa k s) = false) -> (forall s, is_multi (qm s) = false) ->
  allnone (doc5_mk ml (qa5 qa) (qm5 qm) qi d) = true.
Proof.
  intros Ha Hm. unfold doc5_mk. unfold nomk. rewrite !allnone_app_m, !allnone_repeat. cbn [andb]. rewrite andb_true_r. apply andb_true_iff. split.
  - unfold meta_mk5. destruct (dmeta d) as [|kv0 m0]; [reflexivity|]. set (m := kv0 :: m0). rewrite allnone_app_m. unfold nomk. rewrite allnone_repeat. cbn [andb].
    apply allnone_flat. apply Forall_forall. intros kv _. unfold nomk. rewrite !allnone_app_m, !allnone_repeat. cbn [andb]. rewrite andb_true_r.
    destruct (snd kv) as [v|]; [unfold qm5; apply val_mk5_none; exact Hm|reflexivity].
  - apply nodes_mk5_none. apply Forall_forall. intros n _. apply main_mk5_none. exact Ha.
Qed.
End NoMarks.

(* ---- the canonical spelling: every site as the emitter spells it ------------------------------------------------------------------------------ *)
Definition qa_can (k s : str) : spelling := of_strk (qa_emit k s).
Definition qm_can (s : str) : spelling := of_strk (qi_emit s).

Lemma of_strk_plain q : is_tq (of_strk q) = false /\ is_multi (of_strk q) = false.
Proof. destruct q; split; reflexivity. Qed.
Lemma sp_text_of_strk q s : sp_text (of_strk q) s = str_text q s.
Proof. destruct q; reflexivity. Qed.
Lemma site_ok_of_strk q s : site_ok (of_strk q) s = str_lexable q s.
Proof. destruct q; reflexivity. Qed.

Lemma val_text_can q D v : cval v = true -> val_text_sp qi_emit (fun s => of_strk (q s)) D v = val_text3 q D v.
Proof.
  destruct v; cbn [cval is_scalar sval_of]; intros Hc; try discriminate Hc; try reflexivity.
  cbn [val_text_sp val_text3 sc_text3]. apply sp_text_of_strk.
Qed.
Lemma val_ok_can q v : cval v = true -> val_ok3 q v = true -> val_ok_sp qi_emit (fun s => of_strk (q s)) v = true.
Proof.
  destruct v; cbn [cval is_scalar sval_of]; intros Hc; try discriminate Hc; cbn [val_ok_sp val_ok3 scalar_ok3]; try (intros H; exact H).
  rewrite site_ok_of_strk. intros H; exact H.
Qed.

Lemma node_lines_can : forall n, core2_node n = true -> lex_safe3_node n = true ->
  forall D, node_lines_sp qa_can qi_emit n D = emit_node_lines n D /\ sp_safe_node qa_can qi_emit n = true.
Proof.
  apply (node_ind2 (fun n => core2_node n = true -> lex_safe3_node n = true ->
           forall D, node_lines_sp qa_can qi_emit n D = emit_node_lines n D /\ sp_safe_node qa_can qi_emit n = true)).
  - intros k v l t Hc Hs D. cbn [core2_node] in Hc. apply andb_true_iff in Hc as [Hcv Hne].
    cbn [lex_safe3_node] in Hs. apply andb_true_iff in Hs as [Hs Ht]. apply andb_true_iff in Hs as [Hs Hl]. apply andb_true_iff in Hs as [Hk Hv].
    destruct (assign_val_text3 k v D Hcv Hv) as (Etext & Hvok). split.
    + rewrite (emit_assign_line2 k v l t D Hcv), Etext. cbn [node_lines_sp]. unfold qa_can. rewrite (val_text_can (qa_emit k) D v Hcv). reflexivity.
    + cbn [sp_safe_node]. unfold qa_can. rewrite Hk, (val_ok_can (qa_emit k) v Hcv Hvok), Hl, Ht. reflexivity.
  - intros k tg ch l IH Hc Hs D. cbn [core2_node] in Hc. destruct tg; [discriminate|].
    apply andb_true_iff in Hc as [_ Hcc]. cbn [lex_safe3_node] in Hs. apply andb_true_iff in Hs as [Hs Hss]. apply andb_true_iff in Hs as [Hk Hl].
    assert (Hch : flat_map (fun c => node_lines_sp qa_can qi_emit c (S D)) ch = flat_map (fun c => emit_node_lines c (S D)) ch /\
                  forallb (sp_safe_node qa_can qi_emit) ch = true).
    { clear -IH Hcc Hss. induction ch as [|c cs IHc]; [split; reflexivity|]. inversion IH as [|? ? Pc Pcs]; subst.
      cbn [forallb] in Hcc, Hss. apply andb_true_iff in Hcc as [Hc1 Hc2]. apply andb_true_iff in Hss as [Hs1 Hs2].
      destruct (Pc Hc1 Hs1 (S D)) as [E1 S1]. destruct (IHc Pcs Hc2 Hs2) as [E2 S2]. cbn [flat_map forallb]. rewrite E1, E2, S1, S2. split; reflexivity. }
    destruct Hch as [Ech Sch]. split.
    + rewrite (emit_block_lines2 k ch l D Hcc). cbn [node_lines_sp]. rewrite Ech. reflexivity.
    + cbn [sp_safe_node]. rewrite Hk, Hl, Sch. reflexivity.
  - intros i k a ch l IH Hc Hs D. cbn [core2_node] in Hc. apply andb_true_iff in Hc as [Hne Hc]. apply andb_true_iff in Hc as [_ Hcc].
    cbn [lex_safe3_node] in Hs. apply andb_true_iff in Hs as [Hs Hss]. apply andb_true_iff in Hs as [Hs Hl].
    apply andb_true_iff in Hs as [Hs Ha]. apply andb_true_iff in Hs as [Hi Hk].
    assert (Hch : flat_map (fun c => node_lines_sp qa_can qi_emit c (S D)) ch = flat_map (fun c => emit_node_lines c (S D)) ch /\
                  forallb (sp_safe_node qa_can qi_emit) ch = true).
    { clear -IH Hcc Hss. induction ch as [|c cs IHc]; [split; reflexivity|]. inversion IH as [|? ? Pc Pcs]; subst.
      cbn [forallb] in Hcc, Hss. apply andb_true_iff in Hcc as [Hc1 Hc2]. apply andb_true_iff in Hss as [Hs1 Hs2].
      destruct (Pc Hc1 Hs1 (S D)) as [E1 S1]. destruct (IHc Pcs Hc2 Hs2) as [E2 S2]. cbn [flat_map forallb]. rewrite E1, E2, S1, S2. split; reflexivity. }
    destruct Hch as [Ech Sch]. split.
    + rewrite (emit_section_lines2 i k a ch l D). cbn [node_lines_sp]. rewrite Ech. reflexivity.
    + cbn [sp_safe_node]. rewrite Hi, Hk, Ha, Hl, Sch. reflexivity.
  - intros t Hc; discriminate Hc.
Qed.

Theorem render_sp_canonical sp d : core3_doc d = true -> lex_safe3_doc d = true ->
  render_sp qa_can qm_can qi_emit d = emit sp d /\ sp_safe_doc qa_can qm_can qi_emit d = true.
Proof.
  intros Hc Hs. rewrite emit_unlines, (emit_lines_core3 sp d Hc Hs).
  destruct (core2_parts d Hc) as (_ & Hcn & Hmf).
  unfold lex_safe3_doc in Hs.
  apply andb_true_iff in Hs as [Hs Htr]. apply andb_true_iff in Hs as [Hs Hm]. apply andb_true_iff in Hs as [Hs Hn]. apply andb_true_iff in Hs as [Hname Hg].
  assert (Hsec : flat_map (fun n => node_lines_sp qa_can qi_emit n 0) (dsections d) = flat_map (fun n => emit_node_lines n 0) (dsections d) /\
                 forallb (sp_safe_node qa_can qi_emit) (dsections d) = true).
  { clear -Hcn Hn. induction (dsections d) as [|c cs IH]; [split; reflexivity|]. cbn [forallb] in Hcn, Hn.
    apply andb_true_iff in Hcn as [Hc1 Hc2]. apply andb_true_iff in Hn as [Hn1 Hn2].
    destruct (node_lines_can c Hc1 Hn1 0%nat) as [E1 S1]. destruct (IH Hn2 Hc2) as [E2 S2]. cbn [flat_map forallb]. rewrite E1, E2, S1, S2. split; reflexivity. }
  assert (Hmeta : meta_lines_sp qm_can qi_emit (dmeta d) = meta_lines (dmeta d) /\ forallb (sp_safe_meta qm_can qi_emit) (dmeta d) = true).
  { unfold meta_lines_sp, meta_lines.
    assert (Hmap : map (meta_line_sp qm_can qi_emit) (dmeta d) = map meta_line (dmeta d) /\ forallb (sp_safe_meta qm_can qi_emit) (dmeta d) = true).
    { clear -Hmf Hm. induction (dmeta d) as [|kv m IH]; [split; reflexivity|]. cbn [forallb] in Hmf, Hm.
      apply andb_true_iff in Hmf as [F1 F2]. apply andb_true_iff in Hm as [M1 M2]. destruct (IH M2 F2) as [E2 S2].
      unfold meta_field_ok in F1. unfold meta_ok3 in M1. apply andb_true_iff in M1 as [Hk Hv].
      cbn [map forallb]. rewrite E2, S2. unfold meta_line_sp, meta_line, sp_safe_meta. destruct (snd kv) as [v|]; [|discriminate F1].
      destruct (meta_val_text3 v 1 F1 Hv) as [Et Hok]. unfold qm_can.
      rewrite (val_text_can qi_emit 1 v F1), Et, Hk, (val_ok_can qi_emit v F1 Hok). split; reflexivity. }
    destruct Hmap as [E S]. destruct (dmeta d); [split; reflexivity|]. rewrite E. split; [reflexivity|exact S]. }
  destruct Hsec as [Esec Ssec]. destruct Hmeta as [Emeta Smeta]. split.
  - unfold render_sp, render_lines. rewrite Esec, Emeta. reflexivity.
  - unfold sp_safe_doc. rewrite Hname, Hg, Ssec, Smeta, Htr. reflexivity.
Qed.
