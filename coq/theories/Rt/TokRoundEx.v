(* Non-vacuity of Rt/TokRound.v and the end-to-end instance through the lexer model. *)
From OV Require Import Base.Strs Lex.Lexer Syn.Ast Syn.Emitter Syn.Parser Rt.TokRound.
Require Coq.Strings.String.
Import Coq.Strings.String.StringSyntax.
Open Scope N_scope.

Definition ex_doc : doc :=
  mkDoc (lit "DOC") (Some (lit "5.1.0")) None true []
    [ NAssign (lit "A") (VNum false (lit "1")) [] None;
      NBlock (lit "B") None
        [ NAssign (lit "C") (VStr (lit "x y")) [] None;
          NBlock (lit "D") None
            [ NAssign (lit "E") (VBool true) [] None;
              NBlock (lit "DEEP") None [ NAssign (lit "F") VNull [] None ] [];
              NAssign (lit "E") (VNum true (lit "2.5")) [] None ] [];
          NAssign (lit "G") (VBool false) [] None ] [];
      NAssign (lit "H") (VStr []) [] None ]
    [].

Definition ex_numcanon (raw : str) : option (bool * str) :=
  if str_eqb raw (lit "1") then Some (false, raw) else if str_eqb raw (lit "2.5") then Some (true, raw) else None.

Example ex_core : core_doc ex_doc = true.
Proof. vm_compute. reflexivity. Qed.

Example ex_nums_ok : nums_ok_l ex_numcanon (dsections ex_doc).
Proof. cbn. repeat split. Qed.

Definition ex_cls (c : N) : N := 0.
Definition ex_lines : list (str * str) := map (fun l => (l, l)) (split_on c_nl (emit (u_space ex_cls) ex_doc)).

(* the emitted text of the example, read by the full model (lexer + parser), is the example: no repair, and only
   the advisory duplicate-key record for E *)
Example ex_text_roundtrip :
  match parse_model ex_cls ex_numcanon (fun _ => false) true ex_lines with
  | PRDoc d reps warns => d = ex_doc /\ reps = [] /\ map wsub warns = [5]
  | _ => False
  end.
Proof. vm_compute. repeat split. Qed.

(* the token stream the lexer model produces for the emitted example matches the shape the theorem quantifies over *)
Definition tmatchb (t : token) (s : sh) : bool :=
  tkind_eqb (tk t) (fst s) &&
  match snd s, tv t with
  | None, _ => true
  | Some (TVText a), TVText b => str_eqb a b
  | Some (TVNum a), TVNum b => str_eqb a b
  | Some (TVBool a), TVBool b => Bool.eqb a b
  | Some (TVCount a), TVCount b => N.eqb a b
  | Some TVNone, TVNone => true
  | _, _ => false
  end.
Fixpoint all2 {A B} (f : A -> B -> bool) (l1 : list A) (l2 : list B) : bool :=
  match l1, l2 with [], [] => true | a :: r1, b :: r2 => f a b && all2 f r1 r2 | _, _ => false end.

Example ex_lexes_to_shape :
  match tokenize ex_cls false ex_lines with
  | LexOk toks reps => all2 tmatchb toks (doc_sh ex_doc ++ [(NEWLINE, None); (EOF, None)]) = true /\ reps = []
  | _ => False
  end.
Proof. vm_compute. split; reflexivity. Qed.

(* executable form of the theorem's hypothesis, run by the harness on every generated core document:
   0 = not a core document, 1 = the model lexer reads emit(d) as the shape doc_sh d (+ NEWLINE EOF) with no repair,
   2 = shape mismatch, 3 = lexer error *)
Definition core_shape_check (cls : N -> N) (d : doc) (lines : list (str * str)) : N :=
  if core_doc d then
    match tokenize cls false lines with
    | LexOk toks reps =>
        if all2 tmatchb toks (doc_sh d ++ [(NEWLINE, None); (EOF, None)]) && (match reps with [] => true | _ => false end)
        then 1 else 2
    | _ => 3
    end
  else 0.
