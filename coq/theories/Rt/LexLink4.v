(* Lexer half of the round trip for core4 documents (Rt/TokRound4.v: nested lists to any depth, one-pair inline-map items), and
   the text-level round-trip theorem.

     lex_emit_core4        the model lexer reads `emit sp d` as the shape  doc4_sh needs_multiline ex_idnum qa_emit qi_emit d
     text_roundtrip_core4  parse_model reads `emit sp d` back as d, no lexer repair, warnings in advisory4 = {5, 6, 7, 9}
     shape_check_core4     the executable check TokRound4Ex.core4_shape_check answers 1 on the whole domain

   Values are lexed by induction on the nesting fuel of LexLink4Text.vsafe; the bracket stack grows with the depth (every bracket
   group restores it: `lexto`). *)
From OV Require Import Base.Strs Gen.LexerGen Syn.Escape Syn.Quote Syn.Ast Syn.Emitter Syn.Parser
     Lex.Lexer Lex.Progress Rt.TokRound Rt.TokRoundEx Rt.TokRound2 Rt.TokRound2Ex Rt.BareWordParse Rt.TokRound4 Rt.TokRound4Ex
     Rt.LexLinkBase Rt.LexLinkSteps Rt.LexLink Rt.LexLink2Base Rt.LexLink2Steps Rt.LexLink2Text Rt.LexLink2 Rt.BareWordLex Rt.BareWord
     Rt.LexLink4Text.
From Coq Require Import Lia.
Open Scope N_scope.

Notation sh4 := (val_sh4 ml idnum_digits qa qi).
Notation ish4 := (item_sh4 ml idnum_digits qa qi).

Lemma val_sh4_cons q D x xs :
  sh4 q D (VList (x :: xs)) =
  if ml (x :: xs)
  then (LIST_START, None) :: body_g (nl_sh ++ indent_sh (S D)) (nl_sh ++ indent_sh D) (nl_sh ++ indent_sh (S D)) (map (ish4 (S D)) (x :: xs))
  else (LIST_START, None) :: body_g [] [] [] (map (ish4 D) (x :: xs)).
Proof. reflexivity. Qed.

Section Link4.
Variable cls : N -> N.
Notation wbb := (word_boundary_before cls).

Definition PL (f : nat) : Prop :=
  forall ko v D st z r, vsafe f ko v = true -> ls_in st = val_text4 (q_pos ko) D v ++ z :: r -> bterm z ->
    wbb (ls_prev st) = true -> ls_spans st = [] -> ls_pos st <> 0 -> 1 <= ls_col st ->
    exists st', lexto cls st (sh4 (q_pos ko) D v) st' /\ ls_in st' = z :: r /\ 1 < ls_col st' /\ ls_pos st' <> 0.

(* scalars *)
Lemma PL_scalar ko v D st z r : vscalar ko v = true -> ls_in st = val_text4 (q_pos ko) D v ++ z :: r -> bterm z ->
  wbb (ls_prev st) = true -> ls_spans st = [] -> ls_pos st <> 0 -> 1 <= ls_col st ->
  exists st', lexto cls st (sh4 (q_pos ko) D v) st' /\ ls_in st' = z :: r /\ 1 < ls_col st' /\ ls_pos st' <> 0.
Proof.
  intros Hs Hin Hz Hw Hsp Hp Hc.
  assert (Hi : is_scalar v = true /\ scalar_ok3 (q_pos ko) v = true /\ val_text4 (q_pos ko) D v = sc_text3 (q_pos ko) v /\
               sh4 (q_pos ko) D v = [vsh3 (q_pos ko) v]).
  { destruct v; cbn [vscalar] in Hs; try discriminate Hs; repeat split; try exact Hs. exact (sok_lexable ko s Hs). }
  destruct Hi as (Hi & Hok & Et & Esh). rewrite Et in Hin. rewrite Esh.
  destruct (lex_item3 cls (q_pos ko) v st z r Hi Hok Hin Hz Hw Hsp Hp) as (st' & L & I & C & P).
  exists st'. split; [exact L|]. split; [exact I|]. split; [lia|exact P].
Qed.

(* the first character of an item *)
Lemma val_text4_hd f ko v D : vsafe f ko v = true -> exists x t, val_text4 (q_pos ko) D v = x :: t /\ x <> c_sp /\ x <> c_nl /\ x <> c_bt.
Proof.
  intros Hs. destruct (vsafe_cases _ _ _ Hs) as [[Hsc Hnl]|(f' & items & _ & -> & _)].
  - assert (Hi : is_scalar v = true /\ scalar_ok3 (q_pos ko) v = true /\ val_text4 (q_pos ko) D v = sc_text3 (q_pos ko) v).
    { destruct v; cbn [vscalar] in Hsc; try discriminate Hsc; repeat split; try exact Hsc. exact (sok_lexable ko s Hsc). }
    destruct Hi as (Hi & Hok & ->). exact (sc_text3_hd (q_pos ko) v Hi Hok).
  - destruct items as [|x xs]; [eexists _, _; split; [reflexivity|repeat split; discriminate]|].
    rewrite val_text4_cons. destruct (needs_multiline (x :: xs)); eexists _, _; (split; [reflexivity|repeat split; discriminate]).
Qed.
Lemma sid_hd k : sid_ok k = true -> exists x t, k = x :: t /\ x <> c_sp /\ x <> c_nl /\ x <> c_bt.
Proof.
  unfold sid_ok. intros H. apply orb_true_iff in H as [H|H].
  - destruct (digs_hd _ H) as (d0 & d' & -> & Hd). eexists _, _. split; [reflexivity|]. repeat split; chr.
  - destruct (key_ok_hd _ H) as (c & k' & -> & Hc). apply key_start_range in Hc. eexists _, _. split; [reflexivity|]. repeat split; chr.
Qed.
Lemma item_text4_hd f' x D' : isafe f' x = true -> exists x0 t, item_text4 D' x = x0 :: t /\ x0 <> c_sp /\ x0 <> c_nl /\ x0 <> c_bt.
Proof.
  intros Hs. destruct x as [|b|fl c|s|inner|pairs|raw|zc zt zm|]; cbn [isafe] in Hs;
    try exact (val_text4_hd f' None _ D' Hs).
  destruct pairs as [|[k mv] [|? ?]]; try discriminate Hs. apply andb_true_iff in Hs as [Hk _].
  destruct (sid_hd k Hk) as (x0 & t & -> & H). cbn [item_text4 app]. eexists _, _. split; [reflexivity|exact H].
Qed.

(* one item: a value, or  KEY::value *)
Lemma lex_item4 f' (HPL : PL f') D' x st z r : isafe f' x = true -> ls_in st = item_text4 D' x ++ z :: r -> bterm z ->
  wbb (ls_prev st) = true -> ls_spans st = [] -> ls_pos st <> 0 -> 1 <= ls_col st ->
  exists st', lexto cls st (ish4 D' x) st' /\ ls_in st' = z :: r /\ 1 < ls_col st' /\ ls_pos st' <> 0.
Proof.
  intros Hs Hin Hz Hw Hsp Hp Hc.
  destruct x as [|b|fl c|s|inner|pairs|raw|zc zt zm|]; cbn [isafe] in Hs;
    try exact (HPL None _ D' st z r Hs Hin Hz Hw Hsp Hp Hc).
  destruct pairs as [|[k mv] [|? ?]]; try discriminate Hs. apply andb_true_iff in Hs as [Hk Hmv].
  cbn [item_text4 item_sh4] in Hin |- *. rewrite <- !app_assoc in Hin. change (s_assign ++ ?x) with (c_colon :: c_colon :: x) in Hin.
  set (REST := val_text4 (qa k) D' mv ++ z :: r) in *.
  (* the key *)
  assert (HID : exists st1, lexto cls st [id_sh idnum_digits k] st1 /\ ls_in st1 = c_colon :: c_colon :: REST /\ ls_spans st1 = [] /\ 1 < ls_col st1).
  { unfold mkey_ok, sid_ok in Hk. apply orb_true_iff in Hk as [Hd|Hkk].
    - destruct (G_num cls st k c_colon (c_colon :: REST) (digs_num_ok k Hd)) as (st1 & G1); [right; right; right; right; reflexivity|exact Hin|exact Hsp|].
      exists st1. split; [|split; [exact (gstep_in cls _ _ _ _ _ _ _ G1)|split; [rewrite (gstep_spans cls _ _ _ _ _ _ _ G1); exact Hsp|
                                   pose proof (gstep_col cls _ _ _ _ _ _ _ G1); lia]]].
      unfold id_sh. rewrite (digs_idnum k Hd). eapply (lexto_gstep cls); [exact G1|reflexivity|right; reflexivity].
    - destruct (G_key cls st k c_colon (c_colon :: REST) Hkk) as (st1 & G1); [left; reflexivity|exact Hin|exact Hp|exact Hsp|].
      exists st1. split; [|split; [exact (gstep_in cls _ _ _ _ _ _ _ G1)|split; [rewrite (gstep_spans cls _ _ _ _ _ _ _ G1); exact Hsp|
                                   pose proof (gstep_col cls _ _ _ _ _ _ _ G1); lia]]].
      unfold id_sh. rewrite (key_ok_idnum k Hkk). eapply (lexto_gstep cls); [exact G1|reflexivity|right; reflexivity]. }
  destruct HID as (st1 & L1 & I1 & S1 & C1).
  (* :: *)
  destruct (T_assign cls st1 _ I1 S1) as (st2 & T2).
  assert (L2 : lexto cls st1 [(ASSIGN, None)] st2) by (eapply lexto_tstep; [exact T2|reflexivity|left; reflexivity]).
  assert (S2 : ls_spans st2 = []) by (rewrite (tstep_spans _ _ _ _ _ _ _ T2); exact S1).
  assert (C2 : 1 <= ls_col st2) by (apply (lexto_col cls _ _ _ L2); lia).
  assert (W2 : wbb (ls_prev st2) = true) by (rewrite (tstep_prev _ _ _ _ _ _ _ T2); apply (wbb_of cls), u_word_false; chr).
  (* the value *)
  subst REST.
  destruct (HPL (Some k) mv D' st2 z r Hmv (tstep_in _ _ _ _ _ _ _ T2) Hz W2 S2 (tstep_pos _ _ _ _ _ _ _ T2) C2) as (st3 & L3 & I3 & C3 & P3).
  exists st3. split; [|split; [exact I3|split; [exact C3|exact P3]]].
  change ([id_sh idnum_digits k; (ASSIGN, None)] ++ ?l) with ([id_sh idnum_digits k] ++ [(ASSIGN, @None tvalue)] ++ l).
  eapply lexto_trans; [exact L1|]. eapply lexto_trans; [exact L2|exact L3].
Qed.

(* the body of a bracket group over arbitrary items *)
Lemma lex_body4 f' (HPL : PL f') D' pre2 post : forall items pre st rest p b,
  items <> [] -> forallb (isafe f') items = true ->
  ls_in st = body_text pre2 post pre (map (item_text4 D') items) ++ rest ->
  ls_brk st = p :: b -> ls_spans st = [] -> ls_pos st <> 0 -> wbb (ls_prev st) = true -> 1 <= ls_col st ->
  exists st', lextoB cls st (body_g (gap_sh pre2) (gap_sh post) (gap_sh pre) (map (ish4 D') items)) st' /\ ls_in st' = rest /\ ls_brk st' = b /\
              ls_spans st' = [] /\ ls_pos st' <> 0 /\ 1 < ls_col st'.
Proof.
  induction items as [|x xs IH]; [congruence|]. intros pre st rest p b _ Hok Hin Hb Hsp Hp Hw Hcol.
  cbn [forallb] in Hok. apply andb_true_iff in Hok as [Hx Hxs].
  destruct (item_text4_hd f' x D' Hx) as (x0 & t0 & Ex0 & Hx0a & Hx0b & _).
  cbn [map body_text body_g] in Hin |- *.
  rewrite <- !app_assoc in Hin.
  pose proof Hin as Hin0. rewrite Ex0 in Hin0. cbn [app] in Hin0.
  destruct (lex_gap cls pre st x0 _ Hin0 Hx0a Hx0b Hsp Hp) as (st1 & L1 & I1 & P1 & W1).
  specialize (W1 (fun _ => Hw)).
  assert (S1 : ls_spans st1 = []) by (rewrite (lexto_spans _ _ _ _ L1); exact Hsp).
  assert (B1 : ls_brk st1 = p :: b) by (rewrite (lexto_brk cls _ _ _ L1); exact Hb).
  assert (C1 : 1 <= ls_col st1) by (exact (lexto_col cls _ _ _ L1 Hcol)).
  change (x0 :: t0 ++ ?z) with ((x0 :: t0) ++ z) in I1. rewrite <- Ex0 in I1.
  destruct xs as [|y ys].
  - cbn [map] in I1. rewrite <- app_assoc in I1. cbn [s_rb app] in I1.
    destruct (gap_hd_b post c_rbr rest) as (z & t & Ez & Hz); [right; right; left; reflexivity|].
    rewrite Ez in I1.
    destruct (lex_item4 f' HPL D' x st1 z t Hx I1 Hz W1 S1 P1 C1) as (st2 & L2 & I2 & C2 & P2).
    assert (S2 : ls_spans st2 = []) by (rewrite (lexto_spans _ _ _ _ L2); exact S1).
    assert (B2 : ls_brk st2 = p :: b) by (rewrite (lexto_brk cls _ _ _ L2); exact B1).
    rewrite <- Ez in I2.
    destruct (lex_gap cls post st2 c_rbr rest I2) as (st3 & L3 & I3 & P3 & _); [chr|chr|exact S2|exact P2|].
    assert (S3 : ls_spans st3 = []) by (rewrite (lexto_spans _ _ _ _ L3); exact S2).
    assert (B3 : ls_brk st3 = p :: b) by (rewrite (lexto_brk cls _ _ _ L3); exact B2).
    destruct (G_rbr cls st3 rest p b I3 S3 B3) as (st4 & G4).
    exists st4. split; [|split; [exact (gstep_in cls _ _ _ _ _ _ _ G4)|split; [exact (gstep_brk cls _ _ _ _ _ _ _ G4)|]]].
    + eapply (lextoB_trans cls); [exact (lexto_B cls _ _ _ L1)|]. eapply (lextoB_trans cls); [exact (lexto_B cls _ _ _ L2)|].
      eapply (lextoB_trans cls); [exact (lexto_B cls _ _ _ L3)|]. eapply (lextoB_gstep cls); [exact G4|reflexivity|left; reflexivity].
    + split; [rewrite (gstep_spans cls _ _ _ _ _ _ _ G4); exact S3|]. split; [exact (gstep_pos cls _ _ _ _ _ _ _ G4)|].
      pose proof (gstep_col cls _ _ _ _ _ _ _ G4). assert (1 <= ls_col st3) by (apply (lexto_col cls _ _ _ L3); lia). lia.
  - cbn [map] in I1. cbn [app] in I1.
    destruct (lex_item4 f' HPL D' x st1 c_comma _ Hx I1) as (st2 & L2 & I2 & C2 & P2); [right; left; reflexivity|exact W1|exact S1|exact P1|exact C1|].
    assert (S2 : ls_spans st2 = []) by (rewrite (lexto_spans _ _ _ _ L2); exact S1).
    assert (B2 : ls_brk st2 = p :: b) by (rewrite (lexto_brk cls _ _ _ L2); exact B1).
    destruct (G_comma cls st2 _ I2 S2) as (st3 & G3).
    assert (S3 : ls_spans st3 = []) by (rewrite (gstep_spans cls _ _ _ _ _ _ _ G3); exact S2).
    assert (B3 : ls_brk st3 = p :: b) by (rewrite (gstep_brk cls _ _ _ _ _ _ _ G3); exact B2).
    assert (W3 : wbb (ls_prev st3) = true) by (rewrite (gstep_prev cls _ _ _ _ _ _ _ G3); apply (wbb_of cls), u_word_false; lia).
    assert (C3 : 1 <= ls_col st3) by (pose proof (gstep_col cls _ _ _ _ _ _ _ G3); lia).
    destruct (IH pre2 st3 rest p b ltac:(discriminate) Hxs (gstep_in cls _ _ _ _ _ _ _ G3) B3 S3 (gstep_pos cls _ _ _ _ _ _ _ G3) W3 C3)
      as (st4 & L4 & I4 & B4 & S4 & P4 & C4).
    exists st4. split; [|repeat split; assumption].
    eapply (lextoB_trans cls); [exact (lexto_B cls _ _ _ L1)|]. eapply (lextoB_trans cls); [exact (lexto_B cls _ _ _ L2)|].
    change ((COMMA, None) :: ?l) with ([(COMMA, @None tvalue)] ++ l).
    eapply (lextoB_trans cls); [|exact L4]. eapply (lextoB_gstep cls); [exact G3|reflexivity|left; reflexivity].
Qed.

Theorem all_PL : forall f, PL f.
Proof.
  induction f as [|f' IH]; unfold PL; intros ko v D st z r Hs Hin Hz Hw Hsp Hp Hc.
  - exact (PL_scalar ko v D st z r Hs Hin Hz Hw Hsp Hp Hc).
  - destruct (vsafe_cases _ _ _ Hs) as [[Hsc _]|(f0 & items & Ef & -> & Hit)]; [exact (PL_scalar ko v D st z r Hsc Hin Hz Hw Hsp Hp Hc)|].
    injection Ef as <-. clear Hs.
    destruct items as [|x xs].
    + cbn [val_text4 val_sh4] in *. unfold s_empty_list in Hin. cbn [app] in Hin.
      destruct (G_lbr cls st _ Hin Hsp) as (st1 & p & G1).
      assert (S1 : ls_spans st1 = []) by (rewrite (gstep_spans cls _ _ _ _ _ _ _ G1); exact Hsp).
      destruct (G_rbr cls st1 _ p (ls_brk st) (gstep_in cls _ _ _ _ _ _ _ G1) S1 (gstep_brk cls _ _ _ _ _ _ _ G1)) as (st2 & G2).
      exists st2. split; [|split; [exact (gstep_in cls _ _ _ _ _ _ _ G2)|split; [|exact (gstep_pos cls _ _ _ _ _ _ _ G2)]]].
      * apply (lextoB_lexto cls); [|exact (gstep_brk cls _ _ _ _ _ _ _ G2)].
        change [(LIST_START, None); (LIST_END, None)] with ([(LIST_START, @None tvalue)] ++ [(LIST_END, @None tvalue)]).
        eapply (lextoB_trans cls); eapply (lextoB_gstep cls); try eassumption; try reflexivity; left; reflexivity.
      * pose proof (gstep_col cls _ _ _ _ _ _ _ G1). pose proof (gstep_col cls _ _ _ _ _ _ _ G2). lia.
    + rewrite val_text4_cons in Hin. rewrite val_sh4_cons.
      assert (Hbody : forall D' g2 gp g1,
                ls_in st = c_lbr :: body_text g2 gp g1 (map (item_text4 D') (x :: xs)) ++ z :: r ->
                exists st', lexto cls st ((LIST_START, None) :: body_g (gap_sh g2) (gap_sh gp) (gap_sh g1) (map (ish4 D') (x :: xs))) st' /\
                            ls_in st' = z :: r /\ 1 < ls_col st' /\ ls_pos st' <> 0).
      { intros D' g2 gp g1 Hin'.
        destruct (G_lbr cls st _ Hin' Hsp) as (st1 & p & G1).
        assert (S1 : ls_spans st1 = []) by (rewrite (gstep_spans cls _ _ _ _ _ _ _ G1); exact Hsp).
        assert (W1 : wbb (ls_prev st1) = true) by (rewrite (gstep_prev cls _ _ _ _ _ _ _ G1); apply (wbb_of cls), u_word_false; lia).
        assert (C1 : 1 <= ls_col st1) by (pose proof (gstep_col cls _ _ _ _ _ _ _ G1); lia).
        destruct (lex_body4 f' IH D' g2 gp (x :: xs) g1 st1 (z :: r) p (ls_brk st)) as (st2 & L2 & I2 & B2 & S2 & P2 & C2);
          [discriminate|exact Hit|exact (gstep_in cls _ _ _ _ _ _ _ G1)|exact (gstep_brk cls _ _ _ _ _ _ _ G1)|exact S1
          |exact (gstep_pos cls _ _ _ _ _ _ _ G1)|exact W1|exact C1|].
        exists st2. split; [|split; [exact I2|split; [exact C2|exact P2]]].
        apply (lextoB_lexto cls); [|exact B2].
        change ((LIST_START, None) :: ?l) with ([(LIST_START, @None tvalue)] ++ l).
        eapply (lextoB_trans cls); [|exact L2]. eapply (lextoB_gstep cls); [exact G1|reflexivity|left; reflexivity]. }
      destruct (ml (x :: xs)); cbn [app] in Hin.
      * exact (Hbody (S D) (GNl (S D)) (GNl D) (GNl (S D)) Hin).
      * exact (Hbody D GNone GNone GNone Hin).
Qed.

End Link4.

(* ---- the side condition ------------------------------------------------------------------------------------------------------------ *)
Definition vfuel4 : nat := 100.
Fixpoint lex_safe4_node (n : node) : bool :=
  match n with
  | NAssign k v l t => key_ok k && vsafe vfuel4 (Some k) v && forallb comment_ok l && trail_ok t
  | NBlock k _ ch l => key_ok k && forallb comment_ok l && forallb lex_safe4_node ch
  | NSection i k a ch l => sid_ok i && key_ok k && annot_ok a && forallb comment_ok l && forallb lex_safe4_node ch
  | NComment _ => false
  end.
Definition meta_ok4 (kv : str * metaval) : bool :=
  key_ok (fst kv) && match snd kv with MV v => vsafe vfuel4 None v | MD _ => false end.
Definition lex_safe4_doc (d : doc) : bool :=
  name_ok (dname d) && (match dgrammar d with Some g => ver_ok g | None => true end) &&
  forallb lex_safe4_node (dsections d) && forallb meta_ok4 (dmeta d) && forallb comment_ok (dtrailing d).

(* ---- the emitted lines of a core4 node --------------------------------------------------------------------------------------------- *)
Lemma cval4_present v : cval4 v = true -> is_absent v = false /\ (forall c t m, v <> VZone c t m).
Proof. destruct v; cbn; intros H; try discriminate H; split; try reflexivity; discriminate. Qed.
Lemma emit_assign_line4 k v l t D : cval4 v = true ->
  emit_node_lines (NAssign k v l t) D =
  emit_leading l D ++ [ind D ++ k ++ s_assign ++ force_quote k v (emit_value v D) ++ emit_trailing t].
Proof. destruct v; intros E; try discriminate E; reflexivity. Qed.
Lemma core4_child_lines c D : core4_node c = true ->
  match c with
  | NAssign [] (VZone content tag marker) _ _ => zone_lines (S D) content tag marker
  | _ => emit_node_lines c (S D)
  end = emit_node_lines c (S D).
Proof.
  destruct c as [k v l t| | |]; try reflexivity. cbn [core4_node]. intros H. apply andb_true_iff in H as [H _].
  destruct v; try discriminate H; destruct k; reflexivity.
Qed.
Lemma emit_block_lines4 k ch l D : forallb core4_node ch = true ->
  emit_node_lines (NBlock k None ch l) D =
  emit_leading l D ++ [ind D ++ k ++ [] ++ [c_colon]] ++ flat_map (fun c => emit_node_lines c (S D)) ch.
Proof.
  intros H. cbn [emit_node_lines truthy]. f_equal. f_equal.
  induction ch as [|c cs IH]; [reflexivity|]. cbn [forallb] in H. apply andb_true_iff in H as [H1 H2].
  cbn [flat_map]. rewrite (core4_child_lines c D H1), (IH H2). reflexivity.
Qed.
Lemma core4_sections_lines secs : forallb core4_node secs = true ->
  flat_map (fun n => match n with NComment _ => [] | _ => emit_node_lines n 0 end) secs = flat_map (fun n => emit_node_lines n 0) secs.
Proof.
  induction secs as [|c cs IH]; [reflexivity|]. cbn [forallb]. intros H. apply andb_true_iff in H as [H1 H2].
  cbn [flat_map]. rewrite (IH H2). destruct c; try reflexivity. discriminate H1.
Qed.
Lemma emit_meta_lines_core4 m : forallb meta_field_ok4 m = true -> emit_meta_lines m = map meta_line m.
Proof.
  induction m as [|[k mv] m IH]; [reflexivity|]. cbn [forallb]. intros H. apply andb_true_iff in H as [H1 H2].
  unfold emit_meta_lines in *. cbn [flat_map map]. rewrite (IH H2).
  unfold meta_field_ok4 in H1. cbn [snd] in H1. destruct mv as [v|]; [|discriminate H1].
  cbn [snd fst]. destruct (cval4_present v H1) as [Ha _]. unfold meta_line. cbn [fst snd]. rewrite Ha. reflexivity.
Qed.

Section Lines4.
Variable cls : N -> N.
Notation wbb := (word_boundary_before cls).

Lemma lex_kv_line4 ko D k v t st rest :
  key_ok k = true -> vsafe vfuel4 ko v = true -> opt_ne t = true -> trail_ok t = true ->
  ls_in st = (ind D ++ k ++ s_assign ++ val_text4 (q_pos ko) D v ++ emit_trailing t) ++ c_nl :: rest -> ready st ->
  exists st', lexto cls st (indent_sh D ++ [(IDENTIFIER, Some (TVText k)); (ASSIGN, None)] ++ sh4 (q_pos ko) D v ++ trail_sh t ++ [(NEWLINE, None)]) st' /\
              ls_in st' = rest /\ ready st'.
Proof.
  intros Hk Hv Hne Ht Hin Hr. rewrite <- !app_assoc in Hin.
  change (s_assign ++ ?x) with (c_colon :: c_colon :: x) in Hin.
  destruct (lex_indent_key cls D k _ st Hk Hin Hr) as (st2 & L2 & I2 & S2).
  destruct (T_assign cls st2 _ I2 S2) as (st3 & T3).
  assert (L3 : lexto cls st2 [(ASSIGN, None)] st3) by (eapply lexto_tstep; [exact T3|reflexivity|left; reflexivity]).
  assert (S3 : ls_spans st3 = []) by (rewrite (tstep_spans _ _ _ _ _ _ _ T3); exact S2).
  assert (C3 : 1 <= ls_col st3) by (apply (lexto_col cls _ _ _ L3), (lexto_col cls _ _ _ L2), ready_col; exact Hr).
  destruct (trail_hd_b t rest) as (z & u & Ez & Hz).
  pose proof (tstep_in _ _ _ _ _ _ _ T3) as I3. rewrite Ez in I3.
  assert (W3 : wbb (ls_prev st3) = true) by (rewrite (tstep_prev _ _ _ _ _ _ _ T3); apply (wbb_of cls), u_word_false; chr).
  destruct (all_PL cls vfuel4 ko v D st3 z u Hv I3 Hz W3 S3 (tstep_pos _ _ _ _ _ _ _ T3) C3) as (st4 & L4 & I4 & C4 & P4).
  assert (S4 : ls_spans st4 = []) by (rewrite (lexto_spans _ _ _ _ L4); exact S3).
  rewrite <- Ez in I4.
  destruct (lex_trail cls t st4 rest Hne Ht I4 C4 S4 P4) as (st5 & L5 & I5).
  assert (S5 : ls_spans st5 = []) by (rewrite (lexto_spans _ _ _ _ L5); exact S4).
  destruct (lex_newline cls st5 rest I5 S5) as (st6 & L6 & I6 & R6).
  exists st6. split; [|split; assumption].
  change ([(IDENTIFIER, Some (TVText k)); (ASSIGN, None)] ++ ?l) with ([(IDENTIFIER, Some (TVText k))] ++ [(ASSIGN, @None tvalue)] ++ l).
  rewrite app_assoc. eapply lexto_trans; [exact L2|]. eapply lexto_trans; [exact L3|].
  eapply lexto_trans; [exact L4|]. eapply lexto_trans; [exact L5|exact L6].
Qed.



(* ---- nodes, at every depth ------------------------------------------------------------------------------------------------------------------ *)
Definition L4_node (n : node) : Prop :=
  core4_node n = true -> lex_safe4_node n = true ->
  forall D st rest, ls_in st = unlines (emit_node_lines n D) ++ rest -> ready st ->
    exists st', lexto cls st (node_sh4 ml idnum_digits qa qi D n) st' /\ ls_in st' = rest /\ ready st'.

Lemma lex_nodes4 ch : Forall L4_node ch -> forallb core4_node ch = true -> forallb lex_safe4_node ch = true ->
  forall D st rest, ls_in st = unlines (flat_map (fun c => emit_node_lines c D) ch) ++ rest -> ready st ->
    exists st', lexto cls st (nodes_sh4 ml idnum_digits qa qi D ch) st' /\ ls_in st' = rest /\ ready st'.
Proof.
  induction ch as [|c cs IH]; intros HP Hc Hs D st rest Hin Hr.
  - exists st. split; [apply lexto_refl|split; [exact Hin|exact Hr]].
  - inversion HP as [|? ? HPc HPcs]; subst.
    cbn [forallb] in Hc, Hs. apply andb_true_iff in Hc as [Hc1 Hc2]. apply andb_true_iff in Hs as [Hs1 Hs2].
    cbn [flat_map] in Hin. rewrite unlines_app, <- app_assoc in Hin.
    destruct (HPc Hc1 Hs1 D st _ Hin Hr) as (st1 & L1 & I1 & R1).
    destruct (IH HPcs Hc2 Hs2 D st1 rest I1 R1) as (st2 & L2 & I2 & R2).
    exists st2. split; [|split; assumption]. cbn [nodes_sh4 flat_map]. eapply lexto_trans; [exact L1|exact L2].
Qed.

Theorem all_L4_node : forall n, L4_node n.
Proof.
  apply node_ind2; unfold L4_node.
  - (* assignment *)
    intros k v l t Hc Hs D st rest Hin Hr. cbn [core4_node] in Hc. apply andb_true_iff in Hc as [Hcv Hne].
    cbn [lex_safe4_node] in Hs. apply andb_true_iff in Hs as [Hs Ht]. apply andb_true_iff in Hs as [Hs Hl]. apply andb_true_iff in Hs as [Hk Hv].
    pose proof (emit_text4 vfuel4 (Some k) v D Hv) as Etext. cbn [emit_pos q_pos] in Etext.
    rewrite (emit_assign_line4 k v l t D Hcv), Etext, unlines_app, <- app_assoc in Hin.
    destruct (lex_lead cls D l st _ Hl Hin Hr) as (st1 & L1 & I1 & R1).
    cbn [unlines flat_map] in I1. rewrite app_nil_r, <- app_assoc in I1. cbn [app] in I1.
    destruct (lex_kv_line4 (Some k) D k v t st1 rest Hk Hv Hne Ht I1 R1) as (st2 & L2 & I2 & R2).
    exists st2. split; [|split; assumption]. unfold node_sh4. cbn [lead_of main_sh4].
    eapply lexto_trans; [exact L1|exact L2].
  - (* block *)
    intros k tg ch l IH Hc Hs D st rest Hin Hr. cbn [core4_node] in Hc. destruct tg; [discriminate|].
    apply andb_true_iff in Hc as [_ Hcc]. cbn [lex_safe4_node] in Hs. apply andb_true_iff in Hs as [Hs Hss]. apply andb_true_iff in Hs as [Hk Hl].
    rewrite (emit_block_lines4 k ch l D Hcc), !unlines_app, <- !app_assoc in Hin.
    destruct (lex_lead cls D l st _ Hl Hin Hr) as (st1 & L1 & I1 & R1).
    cbn [unlines flat_map] in I1. rewrite app_nil_r, <- app_assoc in I1. cbn [app] in I1.
    destruct (lex_block_header cls D k st1 _ Hk I1 R1) as (st2 & L2 & I2 & R2).
    destruct (lex_nodes4 ch IH Hcc Hss (S D) st2 rest I2 R2) as (st3 & L3 & I3 & R3).
    exists st3. split; [|split; assumption]. unfold node_sh4. cbn [lead_of]. rewrite main_sh4_block.
    eapply lexto_trans; [exact L1|]. rewrite app_assoc. eapply lexto_trans; [exact L2|exact L3].
  - (* section *)
    intros i k a ch l IH Hc Hs D st rest Hin Hr. cbn [core4_node] in Hc. apply andb_true_iff in Hc as [Hne Hc]. apply andb_true_iff in Hc as [_ Hcc].
    cbn [lex_safe4_node] in Hs. apply andb_true_iff in Hs as [Hs Hss]. apply andb_true_iff in Hs as [Hs Hl].
    apply andb_true_iff in Hs as [Hs Ha]. apply andb_true_iff in Hs as [Hi Hk].
    rewrite (emit_section_lines2 i k a ch l D), !unlines_app, <- !app_assoc in Hin.
    destruct (lex_lead cls D l st _ Hl Hin Hr) as (st1 & L1 & I1 & R1).
    cbn [unlines flat_map] in I1. rewrite app_nil_r, <- app_assoc in I1. cbn [app] in I1.
    destruct (lex_section_header cls D i k a st1 _ Hi Hk Ha Hne I1 R1) as (st2 & L2 & I2 & R2).
    destruct (lex_nodes4 ch IH Hcc Hss (S D) st2 rest I2 R2) as (st3 & L3 & I3 & R3).
    exists st3. split; [|split; assumption]. unfold node_sh4. cbn [lead_of]. rewrite main_sh4_section.
    eapply lexto_trans; [exact L1|]. rewrite !app_assoc. eapply lexto_trans; [|exact L3].
    rewrite <- !app_assoc. exact L2.
  - intros t Hc; discriminate Hc.
Qed.



End Lines4.

(* ---- the pre-passes on the emitted text --------------------------------------------------------------------------------------------- *)
(* a text on a line that has already started: the fence scanner stays "started", and there is no tab *)
Definition okt (t : str) : Prop := fscan false t = Some false /\ memb c_tab t = false.
Definition okh (t : str) : Prop := exists x r, t = x :: r /\ x <> c_sp /\ x <> c_nl /\ x <> c_bt.
(* a logical line (possibly several physical lines), with its final newline *)
Definition gl (L : str) : Prop := fscan true (L ++ [c_nl]) = Some true /\ memb c_tab L = false.

Lemma okt_app a b : okt a -> okt b -> okt (a ++ b).
Proof. intros [A1 A2] [B1 B2]. split; [rewrite fscan_app, A1; exact B1|rewrite memb_app, A2, B2; reflexivity]. Qed.
Lemma okt_plain t : plain t = true -> okt t.
Proof. unfold plain. intros H. apply andb_true_iff in H as [H1 H2]. apply negb_true_iff in H1, H2. split; [apply fscan_started; exact H1|exact H2]. Qed.
Lemma okt_nil : okt [].
Proof. split; reflexivity. Qed.
Lemma fscan_hd s x r : x <> c_sp -> x <> c_nl -> x <> c_bt -> fscan s (x :: r) = fscan false r.
Proof. intros H1 H2 H3. apply fscan_start; assumption. Qed.
Lemma okt_gap g t : okt t -> okh t -> okt (gap_text g ++ t).
Proof.
  intros [T1 T2] (x & r & -> & H1 & H2 & H3). destruct g as [|n]; [split; assumption|].
  cbn [gap_text app]. split.
  - cbn [fscan]. rewrite N.eqb_refl. rewrite fscan_app, fscan_ind. rewrite (fscan_hd true x r H1 H2 H3). rewrite (fscan_hd false x r H1 H2 H3) in T1. exact T1.
  - cbn [memb existsb]. change (N.eqb c_tab c_nl) with false. cbn [orb]. change (existsb (N.eqb c_tab) (ind n ++ x :: r)) with (memb c_tab (ind n ++ x :: r)).
    rewrite memb_app, T2, orb_false_r. pose proof (plain_ind n) as P. unfold plain in P. apply andb_true_iff in P as [_ P]. apply negb_true_iff in P. exact P.
Qed.
Lemma okt_rb : okt s_rb /\ okh s_rb.
Proof. split; [split; reflexivity|]. eexists _, _. split; [reflexivity|]. repeat split; discriminate. Qed.

Lemma okt_body g2 gp : forall texts g1, Forall (fun t => okt t /\ okh t) texts -> okt (body_text g2 gp g1 texts).
Proof.
  induction texts as [|x r IH]; intros g1 H.
  - cbn [body_text]. apply okt_gap; apply okt_rb.
  - inversion H as [|? ? [Hx Hh] Hr]; subst. cbn [body_text].
    destruct r as [|y r'].
    + rewrite app_assoc. apply okt_app; [apply okt_gap; assumption|]. apply okt_gap; apply okt_rb.
    + rewrite app_assoc. apply okt_app; [apply okt_gap; assumption|].
      change (c_comma :: ?z) with ([c_comma] ++ z). apply okt_app; [apply okt_plain; reflexivity|]. apply IH. exact Hr.
Qed.

Lemma okt_scalar ko v D : vscalar ko v = true -> okt (val_text4 (q_pos ko) D v).
Proof.
  intros Hs. assert (E : scalar_ok3 (q_pos ko) v = true /\ val_text4 (q_pos ko) D v = sc_text3 (q_pos ko) v).
  { destruct v; cbn [vscalar] in Hs; try discriminate Hs; split; try exact Hs; try reflexivity. exact (sok_lexable ko s Hs). }
  destruct E as [Hok ->]. apply okt_plain. exact (plain_sc3 _ _ Hok).
Qed.

Lemma okt_val : forall f ko v D, vsafe f ko v = true -> okt (val_text4 (q_pos ko) D v).
Proof.
  induction f as [|f' IH]; intros ko v D Hs; [exact (okt_scalar ko v D Hs)|].
  destruct (vsafe_cases _ _ _ Hs) as [[Hsc _]|(f0 & items & Ef & -> & Hit)]; [exact (okt_scalar ko v D Hsc)|]. injection Ef as <-.
  destruct items as [|x xs]; [apply okt_plain; reflexivity|]. rewrite val_text4_cons.
  assert (Hitems : forall D', Forall (fun t => okt t /\ okh t) (map (item_text4 D') (x :: xs))).
  { intros D'. clear -IH Hit. induction (x :: xs) as [|y ys IHy]; [constructor|]. cbn [forallb] in Hit. apply andb_true_iff in Hit as [Hy Hys].
    cbn [map]. constructor; [|exact (IHy Hys)]. split.
    - destruct y as [|b|fl c|s|inner|pairs|raw|zc zt zm|]; cbn [isafe] in Hy; try exact (IH None _ D' Hy).
      destruct pairs as [|[k mv] [|? ?]]; try discriminate Hy. apply andb_true_iff in Hy as [Hk Hmv]. cbn [item_text4].
      apply okt_app; [apply okt_plain; exact (plain_sid k Hk)|]. apply okt_app; [apply okt_plain; reflexivity|]. exact (IH (Some k) mv D' Hmv).
    - destruct (item_text4_hd f' y D' Hy) as (x0 & t & E & H). exists x0, t. split; [exact E|exact H]. }
  change (c_lbr :: ?z) with ([c_lbr] ++ z).
  destruct (needs_multiline (x :: xs)); (apply okt_app; [apply okt_plain; reflexivity|]); apply okt_body; apply Hitems.
Qed.

Lemma gl_line_ok l : line_ok l = true -> gl l.
Proof.
  intros H. split; [exact (fscan_line_ok l H)|]. unfold line_ok, plain in H. apply andb_true_iff in H as [H _]. apply andb_true_iff in H as [_ H].
  apply negb_true_iff in H. exact H.
Qed.
Lemma gl_unlines ls : Forall gl ls -> fscan true (unlines ls) = Some true /\ memb c_tab (unlines ls) = false.
Proof.
  induction 1 as [|l ls [H1 H2] _ [I1 I2]]; [split; reflexivity|]. rewrite unlines_cons.
  change (l ++ c_nl :: unlines ls) with (l ++ [c_nl] ++ unlines ls). rewrite app_assoc. split.
  - rewrite fscan_app, H1. exact I1.
  - rewrite !memb_app, H2, I2. reflexivity.
Qed.
Lemma gl_app a b : Forall gl a -> Forall gl b -> Forall gl (a ++ b).
Proof. intros. apply Forall_app. split; assumption. Qed.

(* KEY::value [ // comment]  at depth D *)
Lemma gl_kv_line D k t : key_ok k = true -> okt t -> gl (ind D ++ k ++ t).
Proof.
  intros Hk [T1 T2]. destruct (key_ok_hd _ Hk) as (c & k' & -> & Hc). apply key_start_range in Hc.
  pose proof (plain_keyok _ Hk) as Pk. unfold plain in Pk. apply andb_true_iff in Pk as [Pn Pt]. apply negb_true_iff in Pn, Pt.
  split.
  - rewrite <- !app_assoc. rewrite fscan_app, fscan_ind. cbn [app]. rewrite fscan_hd by chr.
    rewrite fscan_app. cbn [memb existsb] in Pn. apply orb_false_iff in Pn as [_ Pn]. rewrite (fscan_started k' Pn).
    rewrite fscan_app, T1. reflexivity.
  - rewrite !memb_app, Pt, T2. pose proof (plain_ind D) as P. unfold plain in P. apply andb_true_iff in P as [_ P]. apply negb_true_iff in P.
    rewrite P. reflexivity.
Qed.

Lemma gl_leading D cs : forallb comment_ok cs = true -> Forall gl (emit_leading cs D).
Proof.
  induction cs as [|c cs IH]; [constructor|]. cbn [forallb emit_leading map]. intros H. apply andb_true_iff in H as [Hc Hcs].
  constructor; [|exact (IH Hcs)]. apply gl_line_ok. unfold line_ok. rewrite plain_app, plain_ind, (plain_comment_line _ Hc). cbn [andb].
  destruct (comment_line_hd c) as (t & ->). apply fence_free_ind; chr.
Qed.

Lemma node_lines_gl : forall n, core4_node n = true -> lex_safe4_node n = true -> forall D, Forall gl (emit_node_lines n D).
Proof.
  apply (node_ind2 (fun n => core4_node n = true -> lex_safe4_node n = true -> forall D, Forall gl (emit_node_lines n D))).
  - intros k v l t Hc Hs D. cbn [core4_node] in Hc. apply andb_true_iff in Hc as [Hcv Hne].
    cbn [lex_safe4_node] in Hs. apply andb_true_iff in Hs as [Hs Ht]. apply andb_true_iff in Hs as [Hs Hl]. apply andb_true_iff in Hs as [Hk Hv].
    pose proof (emit_text4 vfuel4 (Some k) v D Hv) as Etext. cbn [emit_pos q_pos] in Etext.
    rewrite (emit_assign_line4 k v l t D Hcv), Etext. apply gl_app; [exact (gl_leading D l Hl)|]. constructor; [|constructor].
    apply gl_kv_line; [exact Hk|]. apply okt_app; [apply okt_plain; reflexivity|]. apply okt_app; [exact (okt_val vfuel4 (Some k) v D Hv)|].
    apply okt_plain. exact (plain_trailing t Ht).
  - intros k tg ch l IH Hc Hs D. cbn [core4_node] in Hc. destruct tg; [discriminate|].
    apply andb_true_iff in Hc as [_ Hcc]. cbn [lex_safe4_node] in Hs. apply andb_true_iff in Hs as [Hs Hss]. apply andb_true_iff in Hs as [Hk Hl].
    rewrite (emit_block_lines4 k ch l D Hcc). apply gl_app; [exact (gl_leading D l Hl)|]. apply gl_app.
    + constructor; [|constructor]. apply gl_line_ok. exact (line_ok_key D k ([] ++ [c_colon]) Hk eq_refl).
    + induction ch as [|c cs IHc]; [constructor|]. inversion IH as [|? ? Pc Pcs]; subst.
      cbn [forallb] in Hcc, Hss. apply andb_true_iff in Hcc as [Hc1 Hc2]. apply andb_true_iff in Hss as [Hs1 Hs2].
      cbn [flat_map]. apply gl_app; [exact (Pc Hc1 Hs1 (S D))|exact (IHc Pcs Hc2 Hs2)].
  - intros i k a ch l IH Hc Hs D. cbn [core4_node] in Hc. apply andb_true_iff in Hc as [Hne Hc]. apply andb_true_iff in Hc as [_ Hcc].
    cbn [lex_safe4_node] in Hs. apply andb_true_iff in Hs as [Hs Hss]. apply andb_true_iff in Hs as [Hs Hl].
    apply andb_true_iff in Hs as [Hs Ha]. apply andb_true_iff in Hs as [Hi Hk].
    rewrite (emit_section_lines2 i k a ch l D). apply gl_app; [exact (gl_leading D l Hl)|]. apply gl_app.
    + constructor; [|constructor]. apply gl_line_ok.
      unfold line_ok. rewrite !plain_app, plain_ind, (plain_sid _ Hi), (plain_keyok _ Hk). cbn [andb].
      assert (Pa : plain (annot_text a) = true).
      { destruct a as [[|x a']|]; try reflexivity. cbn [annot_ok annot_text] in *. rewrite !plain_app, (plain_keyok _ Ha). reflexivity. }
      rewrite Pa. cbn [andb app]. apply fence_free_ind; chr.
    + induction ch as [|c cs IHc]; [constructor|]. inversion IH as [|? ? Pc Pcs]; subst.
      cbn [forallb] in Hcc, Hss. apply andb_true_iff in Hcc as [Hc1 Hc2]. apply andb_true_iff in Hss as [Hs1 Hs2].
      cbn [flat_map]. apply gl_app; [exact (Pc Hc1 Hs1 (S D))|exact (IHc Pcs Hc2 Hs2)].
  - intros t Hc; discriminate Hc.
Qed.

Lemma emit_lines_core4 sp d : core4_doc d = true -> lex_safe4_doc d = true ->
  emit_lines sp d = grammar_lines d ++ [s_env ++ dname d ++ s_env] ++ meta_lines (dmeta d) ++ (if dsep d then [s_sep] else []) ++
                    flat_map (fun n => emit_node_lines n 0) (dsections d) ++ emit_leading (dtrailing d) 0 ++ [s_end].
Proof.
  destruct d as [name gr fr sep meta secs trl]. unfold core4_doc, lex_safe4_doc, emit_lines, grammar_lines.
  cbn [dfront dmeta dtrailing dsections dgrammar dname dsep].
  destruct fr; [discriminate|]. intros Hc Hs.
  apply andb_true_iff in Hc as [Hc _]. apply andb_true_iff in Hc as [Hc _]. apply andb_true_iff in Hc as [Hc Hm]. apply andb_true_iff in Hc as [Hc _].
  apply andb_true_iff in Hs as [Hs _]. apply andb_true_iff in Hs as [Hs _]. apply andb_true_iff in Hs as [Hs _]. apply andb_true_iff in Hs as [_ Hg].
  rewrite (core4_sections_lines _ Hc). cbn [app].
  assert (Eg : match truthy gr with Some g => [s_octave ++ g] | None => [] end = match gr with Some g => [s_octave ++ g] | None => [] end).
  { destruct gr as [g|]; [|reflexivity]. destruct (ver_ok_nonempty _ Hg) as (x & r & ->). reflexivity. }
  rewrite Eg. destruct meta as [|kv m]; [reflexivity|].
  cbv zeta. rewrite (emit_meta_lines_core4 _ Hm). reflexivity.
Qed.



Lemma meta_field_parts4 kv : meta_field_ok4 kv = true -> meta_ok4 kv = true ->
  exists v, snd kv = MV v /\ key_ok (fst kv) = true /\ vsafe vfuel4 None v = true /\
            meta_line kv = ind 1 ++ fst kv ++ s_assign ++ val_text4 qi 1 v ++ emit_trailing None.
Proof.
  unfold meta_field_ok4, meta_ok4, meta_line. destruct (snd kv) as [v|]; [|discriminate]. intros Hc H. apply andb_true_iff in H as [Hk Hv].
  exists v. split; [reflexivity|]. split; [exact Hk|]. split; [exact Hv|].
  pose proof (emit_text4 vfuel4 None v 1 Hv) as E. cbn [emit_pos q_pos] in E. rewrite E. cbn [emit_trailing]. rewrite app_nil_r. reflexivity.
Qed.

Lemma emit_text_ok4 sp d : core4_doc d = true -> lex_safe4_doc d = true -> tok_text (emit sp d) = true.
Proof.
  intros Hc Hs. rewrite emit_unlines, (emit_lines_core4 sp d Hc Hs).
  destruct d as [name gr fr sep meta secs trl]. unfold core4_doc, lex_safe4_doc, grammar_lines in *.
  cbn [dfront dmeta dtrailing dsections dgrammar dname dsep] in *.
  destruct fr; [discriminate|].
  apply andb_true_iff in Hc as [Hc _]. apply andb_true_iff in Hc as [Hc _]. apply andb_true_iff in Hc as [Hc Hmf]. apply andb_true_iff in Hc as [Hc _].
  apply andb_true_iff in Hs as [Hs Htr]. apply andb_true_iff in Hs as [Hs Hm]. apply andb_true_iff in Hs as [Hs Hn]. apply andb_true_iff in Hs as [Hname Hg].
  assert (G : Forall gl ((match gr with Some g => [s_octave ++ g] | None => [] end) ++ [s_env ++ name ++ s_env] ++ meta_lines meta ++
                         (if sep then [s_sep] else []) ++ flat_map (fun n => emit_node_lines n 0) secs ++ emit_leading trl 0 ++ [s_end])).
  { apply gl_app.
    { destruct gr as [g|]; [|constructor]. constructor; [|constructor]. apply gl_line_ok. unfold line_ok. rewrite plain_app, (plain_ver _ Hg). reflexivity. }
    apply gl_app.
    { constructor; [|constructor]. apply gl_line_ok. unfold line_ok. unfold name_ok in Hname. apply andb_true_iff in Hname as [Hw _].
      rewrite !plain_app, (plain_key _ (word_ok_chars _ Hw)). reflexivity. }
    apply gl_app.
    { unfold meta_lines. destruct meta as [|kv0 m0]; [constructor|]. set (m := kv0 :: m0) in *. clearbody m.
      constructor; [apply gl_line_ok; reflexivity|].
      induction m as [|kv m IH]; [constructor|]. cbn [forallb map] in *.
      apply andb_true_iff in Hmf as [F1 F2]. apply andb_true_iff in Hm as [M1 M2]. constructor; [|exact (IH F2 M2)].
      destruct (meta_field_parts4 kv F1 M1) as (v & _ & Hk & Hv & ->).
      apply gl_kv_line; [exact Hk|]. apply okt_app; [apply okt_plain; reflexivity|]. apply okt_app; [exact (okt_val vfuel4 None v 1 Hv)|apply okt_nil]. }
    apply gl_app; [destruct sep; [constructor; [apply gl_line_ok; reflexivity|constructor]|constructor]|].
    apply gl_app.
    { clear -Hc Hn. induction secs as [|c cs IH]; [constructor|]. cbn [forallb] in Hc, Hn.
      apply andb_true_iff in Hc as [Hc1 Hc2]. apply andb_true_iff in Hn as [Hn1 Hn2].
      cbn [flat_map]. apply gl_app; [exact (node_lines_gl c Hc1 Hn1 0%nat)|exact (IH Hc2 Hn2)]. }
    apply gl_app; [exact (gl_leading 0 trl Htr)|]. constructor; [apply gl_line_ok; reflexivity|constructor]. }
  destruct (gl_unlines _ G) as [G1 G2].
  refine (tok_text_fscan _ _ G2). rewrite G1. discriminate.
Qed.

Section Doc4.
Variable cls : N -> N.

Lemma all_L4_nodes ns : Forall (L4_node cls) ns.
Proof. apply Forall_forall. intros n _. apply all_L4_node. Qed.

Lemma key_ok_META : key_ok [77;69;84;65] = true.
Proof. vm_compute. reflexivity. Qed.

Lemma lex_meta_fields4 m : forall st rest, forallb meta_field_ok4 m = true -> forallb meta_ok4 m = true ->
  ls_in st = unlines (map meta_line m) ++ rest -> ready st ->
  exists st', lexto cls st (flat_map (fun kv => indent_sh 1 ++ [(IDENTIFIER, Some (TVText (fst kv))); (ASSIGN, None)] ++
                                      (match snd kv with MV v => sh4 qi 1 v | MD _ => [] end) ++ [(NEWLINE, None)]) m) st' /\
              ls_in st' = rest /\ ready st'.
Proof.
  induction m as [|kv m IH]; intros st rest Hf Hm Hin Hr.
  - exists st. split; [apply lexto_refl|split; [exact Hin|exact Hr]].
  - cbn [forallb map] in *. apply andb_true_iff in Hf as [F1 F2]. apply andb_true_iff in Hm as [M1 M2].
    destruct (meta_field_parts4 kv F1 M1) as (v & Ev & Hk & Hv & El).
    rewrite unlines_cons, El, <- app_assoc in Hin. cbn [app] in Hin.
    destruct (lex_kv_line4 cls None 1 (fst kv) v None st _ Hk Hv eq_refl eq_refl Hin Hr) as (st1 & L1 & I1 & R1).
    destruct (IH st1 rest F2 M2 I1 R1) as (st2 & L2 & I2 & R2).
    exists st2. split; [|split; assumption]. cbn [flat_map]. rewrite Ev. eapply lexto_trans; [exact L1|exact L2].
Qed.

Lemma lex_doc4 sp d : core4_doc d = true -> lex_safe4_doc d = true ->
  forall st, ls_in st = emit sp d -> ls_pos st = 0 -> ls_spans st = [] ->
  exists st', lexto cls st (doc4_sh ml idnum_digits qa qi d ++ [(NEWLINE, None)]) st' /\ ls_in st' = [].
Proof.
  intros Hc Hs st Hin Hp Hsp. rewrite emit_unlines, (emit_lines_core4 sp d Hc Hs) in Hin.
  destruct d as [name gr fr sep meta secs trl]. unfold core4_doc, lex_safe4_doc, grammar_lines, doc4_sh in *.
  cbn [dfront dmeta dtrailing dsections dgrammar dname dsep] in *.
  destruct fr; [discriminate|].
  apply andb_true_iff in Hc as [Hc _]. apply andb_true_iff in Hc as [Hc _]. apply andb_true_iff in Hc as [Hc Hmf]. apply andb_true_iff in Hc as [Hc _].
  apply andb_true_iff in Hs as [Hs Htr]. apply andb_true_iff in Hs as [Hs Hm]. apply andb_true_iff in Hs as [Hs Hn]. apply andb_true_iff in Hs as [Hname Hg].
  rewrite !unlines_app, <- ?app_assoc in Hin.
  set (TAIL := unlines (meta_lines meta) ++ unlines (if sep then [s_sep] else []) ++
               unlines (flat_map (fun n => emit_node_lines n 0) secs) ++ unlines (emit_leading trl 0) ++ unlines [s_end]) in *.
  (* grammar line *)
  assert (HA : exists st1, lexto cls st (match gr with Some g => [(GRAMMAR_SENTINEL, Some (TVText g)); (NEWLINE, None)] | None => [] end) st1 /\
                           ls_in st1 = s_env ++ name ++ s_env ++ c_nl :: TAIL /\ ls_spans st1 = []).
  { destruct gr as [g|].
    - cbn [unlines flat_map] in Hin. rewrite ?app_nil_r, <- ?app_assoc in Hin. cbn [app] in Hin.
      destruct (T_sentinel cls st g _ Hg Hin Hp Hsp) as (st0 & T0).
      assert (S0 : ls_spans st0 = []) by (rewrite (tstep_spans _ _ _ _ _ _ _ T0); exact Hsp).
      destruct (lex_newline cls st0 _ (tstep_in _ _ _ _ _ _ _ T0) S0) as (st1 & L1 & I1 & (_ & _ & S1)).
      exists st1. split; [|split; [exact I1|exact S1]].
      change [(GRAMMAR_SENTINEL, Some (TVText g)); (NEWLINE, None)] with ([(GRAMMAR_SENTINEL, Some (TVText g))] ++ [(NEWLINE, None)]).
      eapply lexto_trans; [|exact L1]. eapply lexto_tstep; [exact T0|reflexivity|right; reflexivity].
    - cbn [unlines flat_map app] in Hin. rewrite ?app_nil_r, <- ?app_assoc in Hin. cbn [app] in Hin.
      exists st. split; [apply lexto_refl|split; [exact Hin|exact Hsp]]. }
  destruct HA as (st1 & L1 & I1 & S1). clear Hin Hp Hsp.
  (* envelope start *)
  destruct (T_env_start cls st1 name _ Hname I1 S1) as (st2 & T2).
  assert (S2 : ls_spans st2 = []) by (rewrite (tstep_spans _ _ _ _ _ _ _ T2); exact S1).
  destruct (lex_newline cls st2 _ (tstep_in _ _ _ _ _ _ _ T2) S2) as (st3 & L3 & I3 & R3).
  subst TAIL.
  (* META *)
  assert (HM : exists st4, lexto cls st3 (meta_sh4 ml idnum_digits qa qi meta) st4 /\
                           ls_in st4 = unlines (if sep then [s_sep] else []) ++ unlines (flat_map (fun n => emit_node_lines n 0) secs) ++
                                       unlines (emit_leading trl 0) ++ unlines [s_end] /\ ready st4).
  { destruct meta as [|kv0 m0]; [exists st3; split; [apply lexto_refl|split; [exact I3|exact R3]]|].
    set (m := kv0 :: m0) in *. unfold meta_lines in I3. cbn [meta_sh4]. fold m.
    change (match m with [] => [] | _ :: _ => s_meta_hdr :: map meta_line m end) with (s_meta_hdr :: map meta_line m) in I3.
    rewrite unlines_cons, <- app_assoc in I3. cbn [app] in I3.
    destruct (lex_block_header cls 0 [77;69;84;65] st3 _ key_ok_META I3 R3) as (st4 & L4 & I4 & R4).
    destruct (lex_meta_fields4 m st4 _ Hmf Hm I4 R4) as (st5 & L5 & I5 & R5).
    exists st5. split; [|split; assumption]. eapply lexto_trans; [exact L4|exact L5]. }
  destruct HM as (st4 & L4 & I4 & R4).
  (* separator *)
  assert (HB : exists st5, lexto cls st4 (if sep then [(SEPARATOR, None); (NEWLINE, None)] else []) st5 /\
                           ls_in st5 = unlines (flat_map (fun n => emit_node_lines n 0) secs) ++ unlines (emit_leading trl 0) ++ unlines [s_end] /\
                           ready st5).
  { destruct sep.
    - cbn [unlines flat_map app] in I4. rewrite <- ?app_assoc in I4. cbn [app] in I4.
      pose proof R4 as (_ & _ & S4).
      destruct (T_sep cls st4 _ I4 S4) as (st' & T').
      assert (S' : ls_spans st' = []) by (rewrite (tstep_spans _ _ _ _ _ _ _ T'); exact S4).
      destruct (lex_newline cls st' _ (tstep_in _ _ _ _ _ _ _ T') S') as (st5 & L5 & I5 & R5).
      exists st5. split; [|split; [exact I5|exact R5]].
      change [(SEPARATOR, None); (NEWLINE, None)] with ([(SEPARATOR, @None tvalue)] ++ [(NEWLINE, None)]).
      eapply lexto_trans; [|exact L5]. eapply lexto_tstep; [exact T'|reflexivity|left; reflexivity].
    - exists st4. split; [apply lexto_refl|split; [exact I4|exact R4]]. }
  destruct HB as (st5 & L5 & I5 & R5).
  (* sections, trailing comments *)
  destruct (lex_nodes4 cls secs (all_L4_nodes secs) Hc Hn 0%nat st5 _ I5 R5) as (st6 & L6 & I6 & R6).
  destruct (lex_lead cls 0 trl st6 _ Htr I6 R6) as (st7 & L7 & I7 & (_ & _ & S7)).
  (* envelope end + final newline *)
  cbn [unlines flat_map] in I7. rewrite app_nil_r in I7.
  destruct (T_env_end cls st7 [] I7 S7) as (st8 & T8).
  assert (S8 : ls_spans st8 = []) by (rewrite (tstep_spans _ _ _ _ _ _ _ T8); exact S7).
  destruct (lex_newline cls st8 [] (tstep_in _ _ _ _ _ _ _ T8) S8) as (st9 & L9 & I9 & _).
  exists st9. split; [|exact I9].
  rewrite <- !app_assoc.
  eapply lexto_trans; [exact L1|].
  change ([(ENVELOPE_START, Some (TVText name)); (NEWLINE, None)] ++ ?x)
    with ([(ENVELOPE_START, Some (TVText name))] ++ [(NEWLINE, @None tvalue)] ++ x).
  eapply lexto_trans; [eapply lexto_tstep; [exact T2|reflexivity|right; reflexivity]|].
  eapply lexto_trans; [exact L3|]. eapply lexto_trans; [exact L4|]. eapply lexto_trans; [exact L5|].
  eapply lexto_trans; [exact L6|]. eapply lexto_trans; [exact L7|].
  eapply lexto_trans; [|exact L9]. eapply lexto_tstep; [exact T8|reflexivity|left; reflexivity].
Qed.

(* (1) THE LEXER HALF for core2 documents *)
Theorem lex_emit_core4 sp d : core4_doc d = true -> lex_safe4_doc d = true ->
  exists ts tnl teof,
    tokenize cls false (lines_of (emit sp d)) = LexOk (ts ++ [tnl; teof]) [] /\
    Forall2 tmatch ts (doc4_sh ml idnum_digits qa qi d) /\ tk tnl = NEWLINE /\ tk teof = EOF.
Proof.
  intros Hc Hs.
  assert (Hfr : dfront d = None).
  { revert Hc. unfold core4_doc. destruct (dfront d); [discriminate|reflexivity]. }
  rewrite (tokenize_tok_text cls false _ (emit_text_ok4 sp d Hc Hs) (emit_nonblank_head sp d Hfr)).
  set (st0 := mkLS (emit sp d) None 0 1 1 [] [] [] []).
  destruct (lex_doc4 sp d Hc Hs st0 eq_refl eq_refl eq_refl) as (st' & (Hst & (tsall & Ht & HF) & Hr & Hb & _) & Hin).
  rewrite (run_steps_finish cls st0 st' _ Hst Hin) by (cbn [ls_in st0]; lia).
  apply Forall2_app_inv_r in HF. destruct HF as (ts & tl & HF1 & HF2 & ->).
  inversion HF2 as [|tnl ? ? ? [Hnl _] HF3]; subst. inversion HF3; subst. cbn [fst] in Hnl.
  exists ts, tnl, (mkTok EOF TVNone (ls_line st') (ls_col st') None).
  split; [|split; [exact HF1|split; [exact Hnl|reflexivity]]].
  unfold finish. rewrite Hb, Hr, Ht. cbn [ls_brk ls_reps ls_toks st0 rev app].
  rewrite app_nil_r, rev_involutive, <- app_assoc. reflexivity.
Qed.

(* (2) THE TEXT-LEVEL ROUND TRIP for core2 documents *)
Lemma emit_first_line4 sp d : core4_doc d = true -> lex_safe4_doc d = true ->
  exists l0 r, split_on c_nl (emit sp d) = l0 :: r /\ prefixb s_dashes l0 = false.
Proof.
  intros Hc Hs. pose proof Hs as Hs'. rewrite emit_unlines, (emit_lines_core4 sp d Hc Hs). unfold grammar_lines.
  unfold lex_safe4_doc in Hs'. apply andb_true_iff in Hs' as [Hs' _]. apply andb_true_iff in Hs' as [Hs' _]. apply andb_true_iff in Hs' as [Hs' _].
  apply andb_true_iff in Hs' as [Hname Hg].
  destruct (dgrammar d) as [g|].
  - cbn [app]. rewrite unlines_cons, split_on_app.
    + eexists _, _. split; [reflexivity|reflexivity].
    + pose proof (plain_ver _ Hg) as P. unfold plain in P. apply andb_true_iff in P as [P _]. apply negb_true_iff in P.
      rewrite memb_app, P. reflexivity.
  - cbn [app]. rewrite unlines_cons, split_on_app.
    + eexists _, _. split; [reflexivity|reflexivity].
    + unfold name_ok in Hname. apply andb_true_iff in Hname as [Hw _].
      pose proof (plain_key _ (word_ok_chars _ Hw)) as P. unfold plain in P. apply andb_true_iff in P as [P _]. apply negb_true_iff in P.
      rewrite !memb_app, P. reflexivity.
Qed.

Theorem text_roundtrip_core4 numcanon holo_ok strict sp d :
  core4_doc d = true -> lex_safe4_doc d = true ->
  nums_ok4_l numcanon idnum_digits (dsections d) -> Forall (field_num_ok4 numcanon idnum_digits) (dmeta d) ->
  exists warns,
    parse_model cls numcanon holo_ok strict (lines_of (emit sp d)) = PRDoc d [] warns /\ Forall advisory4 warns.
Proof.
  intros Hc Hs Hnum Hmnum.
  destruct (lex_emit_core4 sp d Hc Hs) as (ts & tnl & teof & Htok & HF & _ & _).
  destruct (emit_first_line4 sp d Hc Hs) as (l0 & r & El & Hl0).
  unfold parse_model.
  rewrite (strip_frontmatter_none (u_space cls) (emit sp d) l0 r El Hl0).
  rewrite Htok.
  destruct (parse_core4_doc numcanon holo_ok strict (u_space cls) (u_alpha cls) ml idnum_digits qa qi qa_emit_ok qi_emit_ok d Hc Hnum Hmnum
              (mkPS (ts ++ [tnl; teof]) None 0 [] 0 []) ts [tnl; teof]) as (st' & Hp & (l & Hw & Hadv) & _);
    [discriminate|reflexivity|exact HF|reflexivity|].
  rewrite Hp. exists (rev (pwarns st')). split.
  - f_equal. destruct d as [name gr fr sep meta secs trl]. unfold core4_doc in Hc. cbn [dfront] in Hc.
    destruct fr; [discriminate Hc|]. reflexivity.
  - rewrite Hw. cbn [pwarns]. rewrite app_nil_r. apply Forall_rev. exact Hadv.
Qed.

End Doc4.

(* ---- (d) the executable shape check answers 1 on the whole domain ---------------------------------------------------------------------- *)
(* tokens pushed outside fence spans never carry a fence payload; hence the boolean matcher tmatchb is complete on them *)
Definition nf (v : tvalue) : bool := match v with TVFence _ _ => false | _ => true end.
Definition Qnf (st : lstate) : Prop := Forall (fun t => nf (tv t) = true) (ls_toks st) /\ ls_spans st = [].

Section Check.
Variable cls : N -> N.

Lemma emit_pat_Q st k v m rest norm st' : nf v = true -> emit_pat st k v m rest norm = Continue st' -> Qnf st -> Qnf st'.
Proof.
  intros Hv. unfold emit_pat. destruct (alias_of m);
  (destruct (if tkind_eqb k LIST_START then _ else _); [discriminate|];
   destruct (0 <? count_nl m); intros H [Q1 Q2]; inversion H; subst; cbn [ls_toks ls_spans]; (split; [constructor; [first [reflexivity|exact Hv]|exact Q1]|exact Q2])).
Qed.

Lemma step_fallback_Q st c s' st' : step_fallback cls false st c s' = Continue st' -> Qnf st -> Qnf st'.
Proof.
  unfold step_fallback.
  destruct (prefixb s_eq3 (c :: s') && invalid_envelope cls (c :: s')); [discriminate|].
  destruct (N.eqb c c_plus). { intros H [Q1 Q2]; inversion H; subst; cbn [adv ls_toks ls_spans]. split; [constructor; [reflexivity|exact Q1]|exact Q2]. }
  destruct (scan_identifier cls false (c :: s')) as [[[name rest] curly]|].
  { intros H [Q1 Q2]; inversion H; subst; cbn [adv ls_toks ls_spans]. split; [constructor; [reflexivity|exact Q1]|exact Q2]. }
  destruct (N.eqb c 37); [|discriminate].
  destruct (ls_toks st) as [|prev toks'] eqn:Et; [discriminate|].
  destruct (match tk prev, tv prev with NUMBER, TVNum raw => Some raw | IDENTIFIER, TVText t => Some t | _, _ => None end)
    as [prev_val|]; [|discriminate].
  destruct (negb (prefixb [c_colon; c_colon] (lstrip cls s')) &&
            match last_chr prev_val with Some l => u_alnum cls l | None => false end); [|discriminate].
  intros H [Q1 Q2]. rewrite Et in Q1. inversion Q1 as [|? ? _ Q1']; subst. inversion H; subst; cbn [adv ls_toks ls_spans].
  split; [constructor; [reflexivity|exact Q1']|exact Q2].
Qed.

Lemma step_plain_Q st c s' st' : step_plain cls false st c s' = Continue st' -> Qnf st -> Qnf st'.
Proof.
  unfold step_plain. cbv zeta.
  destruct (N.eqb c c_sp).
  { destruct (N.eqb (ls_col st) 1).
    - destruct (match dropb (N.eqb c_sp) (c :: s') with [] => false | d :: _ => negb (N.eqb d c_nl) end);
        intros H [Q1 Q2]; inversion H; subst; cbn [ls_toks ls_spans]; (split; [|exact Q2]); [constructor; [reflexivity|exact Q1]|exact Q1].
    - intros H [Q1 Q2]; inversion H; subst; cbn [adv ls_toks ls_spans]. split; assumption. }
  repeat match goal with
  | |- emit_pat _ _ _ _ _ _ = Continue _ -> _ => apply emit_pat_Q; reflexivity
  | |- step_fallback _ _ _ _ _ = Continue _ -> _ => apply step_fallback_Q
  | |- match ?x with _ => _ end = Continue _ -> _ => destruct x
  | |- (if ?x then _ else _) = Continue _ -> _ => destruct x
  end.
Qed.

Lemma step_Q st st' : step cls false st = Continue st' -> Qnf st -> Qnf st'.
Proof.
  unfold step. destruct (ls_in st) as [|c s']; [discriminate|]. intros H Q. pose proof Q as [_ Q2]. rewrite Q2 in H. exact (step_plain_Q _ _ _ _ H Q).
Qed.
Lemma steps_Q st st' : steps cls st st' -> Qnf st -> Qnf st'.
Proof. induction 1 as [st|st st1 st2 Hs _ IH]; intros Q; [exact Q|]. apply IH. exact (step_Q _ _ Hs Q). Qed.

Lemma tmatchb_complete t s : tmatch t s -> nf (tv t) = true -> tmatchb t s = true.
Proof.
  intros [Hk Hv] Hn. unfold tmatchb. rewrite Hk, tkeq_refl. cbn [andb].
  destruct (snd s) as [v|]; [|reflexivity]. rewrite Hv in Hn |- *.
  destruct v; try discriminate Hn; first [apply str_eqb_refl|apply Bool.eqb_reflx|apply N.eqb_refl|reflexivity].
Qed.
Lemma all2_complete ts l : Forall2 tmatch ts l -> Forall (fun t => nf (tv t) = true) ts -> all2 tmatchb ts l = true.
Proof.
  induction 1 as [|t s ts l Ht _ IH]; intros Hn; [reflexivity|]. inversion Hn as [|? ? H1 H2]; subst.
  cbn [all2]. rewrite (tmatchb_complete _ _ Ht H1), (IH H2). reflexivity.
Qed.

Theorem shape_check_core4 sp d : core4_doc d = true -> lex_safe4_doc d = true ->
  core4_shape_check cls d (lines_of (emit sp d)) = 1.
Proof.
  intros Hc Hs. unfold core4_shape_check. rewrite Hc.
  assert (Hfr : dfront d = None).
  { revert Hc. unfold core4_doc. destruct (dfront d); [discriminate|reflexivity]. }
  rewrite (tokenize_tok_text cls false _ (emit_text_ok4 sp d Hc Hs) (emit_nonblank_head sp d Hfr)).
  set (st0 := mkLS (emit sp d) None 0 1 1 [] [] [] []).
  destruct (lex_doc4 cls sp d Hc Hs st0 eq_refl eq_refl eq_refl) as (st' & (Hst & (tsall & Ht & HF) & Hr & Hb & _) & Hin).
  rewrite (run_steps_finish cls st0 st' _ Hst Hin) by (cbn [ls_in st0]; lia).
  assert (Q' : Qnf st') by (apply (steps_Q _ _ Hst); split; [constructor|reflexivity]).
  destruct Q' as [Q1 _].
  unfold finish. rewrite Hb, Hr, Ht. cbn [ls_brk ls_reps ls_toks st0 rev app is_nil].
  rewrite Ht in Q1. cbn [ls_toks st0] in Q1. rewrite app_nil_r in Q1 |- *. rewrite rev_involutive.
  assert (A : all2 tmatchb (tsall ++ [mkTok EOF TVNone (ls_line st') (ls_col st') None])
                (doc4_sh needs_multiline ex_idnum qa_emit qi_emit d ++ [(NEWLINE, None); (EOF, None)]) = true).
  { apply all2_complete.
    - change [(NEWLINE, None); (EOF, None)] with ([(NEWLINE, @None tvalue)] ++ [(EOF, @None tvalue)]). rewrite app_assoc.
      apply Forall2_app; [exact HF|]. constructor; [split; [reflexivity|exact I]|constructor].
    - apply Forall_app. split; [|constructor; [reflexivity|constructor]]. rewrite <- (rev_involutive tsall). apply Forall_rev. exact Q1. }
  rewrite A. reflexivity.
Qed.

End Check.
