(* Two generic facts about the lexer model's main loop, needed to run it on texts with SEVERAL fence spans:

     step_plain_pos      an ordinary iteration keeps  ls_pos + (remaining input length)  unchanged: ls_pos is the offset of the
                         next character in the content (proved scanner by scanner: every scanner returns a prefix and the rest)
     step_plain_withsp   an ordinary iteration does not look at the span list: running it on a state whose span list is replaced
                         gives the same result with the span list replaced
   and their consequence  steps_withsp : a run of ordinary iterations proved for the EMPTY span list (all the chunk lemmas of
   Rt/LexLink*.v) is also a run under any span list whose first span starts at or after the position reached. *)
From OV Require Import Base.Strs Gen.LexerGen Syn.Escape Lex.Lexer Lex.Progress Rt.LexLinkBase.
From Coq Require Import Lia.
Open Scope N_scope.

Ltac lennorm := repeat (rewrite app_length in * || cbn [length] in * ).

Section Scanners.
Variable cls : N -> N.

Lemma digits1_len s d r : digits1 cls s = Some (d, r) -> (length d + length r = length s)%nat.
Proof.
  unfold digits1. destruct (takeb (u_digit cls) s) eqn:E; [discriminate|].
  intro H; inversion H; subst. rewrite <- E. apply takeb_dropb_len.
Qed.
Lemma dot_digits_star_len f s : (length (fst (dot_digits_star cls f s)) + length (snd (dot_digits_star cls f s)) = length s)%nat.
Proof.
  revert s; induction f as [|f IH]; intro s; cbn; [lia|].
  destruct s as [|c s']; cbn; [lia|].
  destruct (N.eqb c c_dot); cbn; [|lia].
  destruct (digits1 cls s') as [[d r]|] eqn:E; cbn; [|lia].
  apply digits1_len in E. specialize (IH r). destruct (dot_digits_star cls f r) as [m r'] eqn:E2. cbn in *. rewrite app_length. lia.
Qed.
Lemma opt_tail_len x p s : (length (fst (opt_tail x p s)) + length (snd (opt_tail x p s)) = length s)%nat.
Proof.
  unfold opt_tail. destruct s as [|c s']; cbn; [lia|].
  destruct (N.eqb c x); cbn; [|lia].
  destruct (takeb p s') eqn:E; cbn; [lia|]. pose proof (takeb_dropb_len p s') as H. rewrite E in H. cbn in H. lia.
Qed.
Lemma scan_sentinel_version_len s v r : scan_sentinel_version cls s = Some (v, r) -> (length v + length r = length s)%nat.
Proof.
  unfold scan_sentinel_version. destruct (digits1 cls s) as [[d r0]|] eqn:E; [|discriminate].
  apply digits1_len in E.
  pose proof (dot_digits_star_len (length r0) r0) as H1.
  destruct (dot_digits_star cls (length r0) r0) as [m r1]. cbn in H1.
  pose proof (opt_tail_len c_dash cls_alnum_dot_dash r1) as H2.
  destruct (opt_tail c_dash cls_alnum_dot_dash r1) as [p r2]. cbn in H2.
  intro H; inversion H; subst. rewrite !app_length. lia.
Qed.
Lemma prefixb_skipn_len p s : prefixb p s = true -> (length p + length (skipn (length p) s) = length s)%nat.
Proof. intros H. apply prefixb_len in H. rewrite skipn_length. lia. Qed.
Lemma scan_sentinel_len s m v r : scan_sentinel cls s = Some (m, v, r) -> (length m + length r = length s)%nat.
Proof.
  unfold scan_sentinel. destruct (prefixb s_octave_assign s) eqn:P; [|discriminate].
  destruct (scan_sentinel_version cls (skipn 8 s)) as [[v' r']|] eqn:E; [|discriminate].
  apply scan_sentinel_version_len in E. intro H; inversion H; subst.
  pose proof (prefixb_skipn_len _ _ P) as H0. cbn [length s_octave_assign] in H0. unfold s_octave_assign. cbn [app length]. lia.
Qed.
Lemma scan_d_dot_d_len s m r : scan_d_dot_d cls s = Some (m, r) -> (length m + length r = length s)%nat.
Proof.
  unfold scan_d_dot_d. destruct (digits1 cls s) as [[d1 [|c r0]]|] eqn:E; try discriminate.
  apply digits1_len in E. destruct (N.eqb c c_dot); [|discriminate].
  destruct (digits1 cls r0) as [[d2 r2]|] eqn:E2; [|discriminate].
  apply digits1_len in E2. intro H; inversion H; subst. rewrite app_length. cbn in *. lia.
Qed.
Lemma scan_version3_len s m r : scan_version3 cls s = Some (m, r) -> (length m + length r = length s)%nat.
Proof.
  unfold scan_version3. destruct (scan_d_dot_d cls s) as [[m0 [|c r0]]|] eqn:E; try discriminate.
  apply scan_d_dot_d_len in E. destruct (N.eqb c c_dot); [|discriminate].
  destruct (digits1 cls r0) as [[d3 r3]|] eqn:E3; [|discriminate]. apply digits1_len in E3.
  pose proof (dot_digits_star_len (length r3) r3) as H1.
  destruct (dot_digits_star cls (length r3) r3) as [m4 r4]. cbn in H1.
  pose proof (opt_tail_len c_dash cls_alnum_dot_dash r4) as H2.
  destruct (opt_tail c_dash cls_alnum_dot_dash r4) as [p r5]. cbn in H2.
  pose proof (opt_tail_len c_plus cls_alnum_dot r5) as H3.
  destruct (opt_tail c_plus cls_alnum_dot r5) as [b r6]. cbn in H3.
  intro H; inversion H; subst. lennorm. lia.
Qed.
Lemma scan_version2pre_len s m r : scan_version2pre cls s = Some (m, r) -> (length m + length r = length s)%nat.
Proof.
  unfold scan_version2pre. destruct (scan_d_dot_d cls s) as [[m0 r0]|] eqn:E; [|discriminate].
  apply scan_d_dot_d_len in E.
  pose proof (opt_tail_len c_dash cls_alnum_dot_dash r0) as H2.
  destruct (opt_tail c_dash cls_alnum_dot_dash r0) as [[|p0 p] r2]; [discriminate|]. cbn in H2.
  pose proof (opt_tail_len c_plus cls_alnum_dot r2) as H3.
  destruct (opt_tail c_plus cls_alnum_dot r2) as [b r3]. cbn in H3.
  intro H; inversion H; subst. lennorm. lia.
Qed.
Lemma scan_version2build_len s m r : scan_version2build cls s = Some (m, r) -> (length m + length r = length s)%nat.
Proof.
  unfold scan_version2build. destruct (scan_d_dot_d cls s) as [[m0 r0]|] eqn:E; [|discriminate].
  apply scan_d_dot_d_len in E.
  pose proof (opt_tail_len c_plus cls_alnum_dot r0) as H3.
  destruct (opt_tail c_plus cls_alnum_dot r0) as [[|b0 b] r2]; [discriminate|]. cbn in H3.
  intro H; inversion H; subst. lennorm. lia.
Qed.
Lemma scan_version_len s m r : scan_version cls s = Some (m, r) -> (length m + length r = length s)%nat.
Proof.
  unfold scan_version.
  destruct (scan_version3 cls s) as [[m3 r3]|] eqn:E3.
  { intro H; inversion H; subst. eapply scan_version3_len; eauto. }
  destruct (scan_version2pre cls s) as [[m2 r2]|] eqn:E2.
  { intro H; inversion H; subst. eapply scan_version2pre_len; eauto. }
  apply scan_version2build_len.
Qed.
Lemma scan_envelope_start_len s nm r : scan_envelope_start s = Some (nm, r) -> (3 + length nm + 3 + length r = length s)%nat.
Proof.
  unfold scan_envelope_start. destruct (prefixb s_eq3 s) eqn:P; [|discriminate].
  apply prefixb_skipn_len in P. cbn [length s_eq3] in P.
  destruct (skipn 3 s) as [|c r0] eqn:E; [discriminate|].
  destruct (env_id_start c); [|discriminate].
  destruct (prefixb s_eq3 (dropb env_id_char r0)) eqn:P2; [|discriminate].
  apply prefixb_skipn_len in P2. cbn [length s_eq3] in P2.
  pose proof (takeb_dropb_len env_id_char r0) as Ht.
  set (r2 := skipn 3 (dropb env_id_char r0)) in *. clearbody r2.
  intro H; inversion H; subst. cbn [length] in *. lia.
Qed.
Lemma scan_dq_body_len f s b r : scan_dq_body f s = Some (b, r) -> (length b + 1 + length r = length s)%nat.
Proof.
  revert s b r; induction f as [|f IH]; intros s b r; cbn; [discriminate|].
  destruct s as [|c s']; [discriminate|].
  destruct (N.eqb c c_dq). { intro H; inversion H; subst. cbn. lia. }
  destruct (N.eqb c c_bs).
  - destruct s' as [|d s'']; [discriminate|]. destruct (N.eqb d c_nl); [discriminate|].
    destruct (scan_dq_body f s'') as [[b0 r0]|] eqn:E; [|discriminate].
    apply IH in E. intro H; inversion H; subst. cbn. lia.
  - destruct (scan_dq_body f s') as [[b0 r0]|] eqn:E; [|discriminate].
    apply IH in E. intro H; inversion H; subst. cbn. lia.
Qed.
Lemma scan_tq_body_len f s b r : scan_tq_body f s = Some (b, r) -> (length b + 3 + length r = length s)%nat.
Proof.
  revert s b r; induction f as [|f IH]; intros s b r; [cbn; discriminate|]. cbn [scan_tq_body].
  destruct s as [|c s']; [discriminate|].
  destruct (N.eqb c c_dq).
  - destruct (prefixb [c_dq; c_dq] s') eqn:P.
    + apply prefixb_skipn_len in P. cbn [length] in P. set (r2 := skipn 2 s') in *. clearbody r2. intro H; inversion H; subst. cbn [length]. lia.
    + destruct (scan_tq_body f s') as [[b0 r0]|] eqn:E; [|discriminate].
      apply IH in E. intro H; inversion H; subst. cbn. lia.
  - destruct (N.eqb c c_bs).
    + destruct s' as [|d s'']; [discriminate|]. destruct (N.eqb d c_nl); [discriminate|].
      destruct (scan_tq_body f s'') as [[b0 r0]|] eqn:E; [|discriminate].
      apply IH in E. intro H; inversion H; subst. cbn. lia.
    + destruct (scan_tq_body f s') as [[b0 r0]|] eqn:E; [|discriminate].
      apply IH in E. intro H; inversion H; subst. cbn. lia.
Qed.
Lemma scan_number_len s m r : scan_number cls s = Some (m, r) -> (length m + length r = length s)%nat.
Proof.
  unfold scan_number.
  set (p0 := match s with c :: r => if N.eqb c c_dash then ([c], r) else ([], s) | [] => ([], s) end).
  assert (H0 : (length (fst p0) + length (snd p0) = length s)%nat).
  { subst p0. destruct s as [|c s']; cbn; [lia|]. destruct (N.eqb c c_dash); cbn; lia. }
  destruct p0 as [sign r0]. cbn in H0.
  destruct (digits1 cls r0) as [[d r1]|] eqn:E; [|discriminate]. apply digits1_len in E.
  set (p2 := match r1 with c :: r => if N.eqb c c_dot then ([c], r) else ([], r1) | [] => ([], r1) end).
  assert (H2 : (length (fst p2) + length (snd p2) = length r1)%nat).
  { subst p2. destruct r1 as [|c r1']; cbn; [lia|]. destruct (N.eqb c c_dot); cbn; lia. }
  destruct p2 as [dot r2]. cbn in H2.
  pose proof (takeb_dropb_len (u_digit cls) r2) as H3.
  set (frac := takeb (u_digit cls) r2) in *. set (r3 := dropb (u_digit cls) r2) in *.
  match goal with |- (let '(ex, r4) := ?pp in _) = _ -> _ => set (p4 := pp) end.
  assert (H4 : (length (fst p4) + length (snd p4) = length r3)%nat).
  { subst p4. destruct r3 as [|e rr]; cbn; [lia|].
    destruct (N.eqb e 101 || N.eqb e 69); cbn; [|lia].
    set (p5 := match rr with c :: r'' => if N.eqb c c_plus || N.eqb c c_dash then ([c], r'') else ([], rr) | [] => ([], rr) end).
    assert (H5 : (length (fst p5) + length (snd p5) = length rr)%nat).
    { subst p5. destruct rr as [|c r'']; cbn; [lia|]. destruct (N.eqb c c_plus || N.eqb c c_dash); cbn; lia. }
    destruct p5 as [sg r']. cbn in H5.
    destruct (digits1 cls r') as [[ed r5]|] eqn:E5; cbn; [|lia]. apply digits1_len in E5. rewrite app_length. lia. }
  destruct p4 as [ex r4]. cbn in H4.
  intro H; inversion H; subst. rewrite !app_length. lia.
Qed.
Lemma scan_word_len w prev s r : scan_word cls w prev s = Some r -> (length w + length r = length s)%nat.
Proof.
  unfold scan_word. destruct (prefixb w s) eqn:P; [|discriminate]. cbn [andb].
  destruct (word_boundary_before cls prev && word_boundary_after cls (skipn (length w) s)); [|discriminate].
  intro H; inversion H; subst. apply prefixb_skipn_len. exact P.
Qed.
Lemma scan_ident_core_len c s' :
  (length (fst (scan_ident_core cls c s')) + length (snd (scan_ident_core cls c s')) = S (length s'))%nat.
Proof.
  unfold scan_ident_core. cbn [fst snd length]. rewrite skipn_length, rev_length.
  pose proof (strip_trailing_dash_le (rev (takeb (id_char cls) s'))) as H1. rewrite rev_length in H1.
  pose proof (takeb_le (id_char cls) s'). lia.
Qed.
Lemma scan_qualifier_len close s q r : scan_qualifier cls close s = Some (q, r) -> (length q + 1 + length r = length s)%nat.
Proof.
  unfold scan_qualifier. destruct s as [|x s']; [discriminate|].
  destruct (id_start cls x); [|discriminate].
  pose proof (scan_ident_core_len x s') as H0.
  destruct (scan_ident_core cls x s') as [qual r0]. cbn in H0.
  destruct r0 as [|c r']; [discriminate|]. destruct (N.eqb c close); [|discriminate].
  intro H; inversion H; subst. cbn in *. lia.
Qed.
(* strict mode: the identifier text is exactly what was consumed *)
Lemma scan_identifier_len s name r curly :
  scan_identifier cls false s = Some (name, r, curly) -> (length name + length r = length s)%nat.
Proof.
  unfold scan_identifier. destruct s as [|c s']; [discriminate|].
  destruct (id_start cls c); [|discriminate].
  pose proof (scan_ident_core_len c s') as H0.
  destruct (scan_ident_core cls c s') as [base r0]. cbn in H0.
  match goal with |- (let '(name, r1) := ?p in _) = _ -> _ => set (p1 := p) end.
  assert (H1 : (length (fst p1) + length (snd p1) = length base + length r0)%nat).
  { subst p1. destruct r0 as [|lt r']; cbn; [lia|].
    destruct (N.eqb lt c_lt); cbn; [|lia].
    destruct (scan_qualifier cls c_gt r') as [[q r2]|] eqn:E; cbn; [|lia].
    apply scan_qualifier_len in E. rewrite app_length. cbn [length]. rewrite app_length. cbn [length]. lia. }
  destruct p1 as [nm r1]. cbn in H1.
  destruct r1 as [|lb r'].
  { intro H; inversion H; subst. cbn in *. lia. }
  destruct (N.eqb lb 123).
  - destruct (scan_qualifier cls 125 r') as [[q r2]|] eqn:E; intro H; inversion H; subst; cbn in *; lia.
  - intro H; inversion H; subst. cbn in *. lia.
Qed.
Lemma try_simple_len tbl s m k : try_simple tbl s = Some (m, k) -> (length m + length (skipn (length m) s) = length s)%nat.
Proof.
  induction tbl as [|[m0 k0] t IH]; cbn; [discriminate|].
  destruct (prefixb m0 s) eqn:P; [|exact IH]. intro H; inversion H; subst. apply prefixb_skipn_len. exact P.
Qed.
End Scanners.

(* ---- the loop body ---------------------------------------------------------------------------------------------------------------------------- *)
Section Loop.
Variable cls : N -> N.

Lemma len_nat (a : str) (n : nat) : length a = n -> len a = N.of_nat n.
Proof. intros <-. reflexivity. Qed.

Lemma emit_pat_pos st k v m rest norm st' :
  emit_pat st k v m rest norm = Continue st' -> ls_in st' = rest /\ ls_pos st' = ls_pos st + len m /\ ls_spans st' = ls_spans st.
Proof.
  unfold emit_pat. destruct (alias_of m) as [u|].
  - destruct (if tkind_eqb k LIST_START then _ else _) as [u0|brk]; [discriminate|].
    destruct (0 <? count_nl m); intro H; inversion H; repeat split.
  - destruct (if tkind_eqb k LIST_START then _ else _) as [u0|brk]; [discriminate|].
    destruct (0 <? count_nl m); intro H; inversion H; repeat split.
Qed.

Definition pinv (st st' : lstate) : Prop :=
  ls_pos st' + len (ls_in st') = ls_pos st + len (ls_in st) /\ ls_spans st' = ls_spans st.

Lemma pinv_of st st' (s m rest : str) :
  ls_in st = s -> ls_in st' = rest -> ls_pos st' = ls_pos st + len m -> ls_spans st' = ls_spans st ->
  (length m + length rest = length s)%nat -> pinv st st'.
Proof.
  intros H0 H1 H2 H3 H4. split; [|exact H3]. rewrite H0, H1, H2. unfold len. lia.
Qed.

Lemma step_fallback_pos st c s' st' :
  ls_in st = c :: s' -> step_fallback cls false st c s' = Continue st' -> pinv st st'.
Proof.
  intros Hin. unfold step_fallback.
  destruct (prefixb s_eq3 (c :: s') && invalid_envelope cls (c :: s')); [discriminate|].
  destruct (N.eqb c c_plus).
  { intro H; inversion H; subst. apply (pinv_of st _ (c :: s') [c] s'); try reflexivity. exact Hin. }
  destruct (scan_identifier cls false (c :: s')) as [[[name rest] curly]|] eqn:E.
  { apply scan_identifier_len in E. intro H; inversion H; subst. apply (pinv_of st _ (c :: s') name rest); try reflexivity; [exact Hin|exact E]. }
  destruct (N.eqb c 37); [|discriminate].
  destruct (ls_toks st) as [|prev toks']; [discriminate|].
  destruct (match tk prev, tv prev with NUMBER, TVNum raw => Some raw | IDENTIFIER, TVText t => Some t | _, _ => None end)
    as [prev_val|]; [|discriminate].
  destruct (negb (prefixb [c_colon; c_colon] (lstrip cls s')) &&
            match last_chr prev_val with Some l => u_alnum cls l | None => false end); [|discriminate].
  intro H; inversion H; subst.
  match goal with |- pinv _ (adv _ ?sfx ?r _ _) => apply (pinv_of st _ (c :: s') sfx r); try reflexivity; [exact Hin|] end.
  cbn [length]. rewrite skipn_length, rev_length.
  match goal with |- context [strip_trailing_dash (rev ?b)] =>
    pose proof (strip_trailing_dash_le (rev b)) as H1; rewrite rev_length in H1;
    assert (H2 : (length b <= length s')%nat) by apply takeb_le end.
  lia.
Qed.

Ltac fin H Hin L := destruct (emit_pat_pos _ _ _ _ _ _ _ H) as (? & ? & ?); eapply pinv_of; [exact Hin|eassumption|eassumption|assumption|exact L].

Lemma step_plain_pos st c s' st' :
  ls_in st = c :: s' -> step_plain cls false st c s' = Continue st' -> pinv st st'.
Proof.
  intros Hin. pose proof (step_fallback_pos st c s' st' Hin) as Hfb.
  unfold step_plain. cbv zeta.
  destruct (N.eqb c c_sp) eqn:Esp.
  { clear Hfb. destruct (N.eqb (ls_col st) 1).
    - intro H; injection H as <-. split; [|reflexivity]. apply N.eqb_eq in Esp. subst c. rewrite Hin.
      change (takeb (N.eqb c_sp) (c_sp :: s')) with (c_sp :: takeb (N.eqb c_sp) s').
      change (dropb (N.eqb c_sp) (c_sp :: s')) with (dropb (N.eqb c_sp) s').
      cbn [ls_pos ls_in]. pose proof (takeb_dropb_len (N.eqb c_sp) s') as HH. unfold len. unfold c_sp in *. cbn [Pos.eqb length]. lia.
    - intro H; injection H as <-. apply (pinv_of st _ (c :: s') [c] s'); try reflexivity. exact Hin. }
  destruct (if N.eqb (ls_pos st) 0 then scan_sentinel cls (c :: s') else None) as [[[m v] r]|] eqn:E1.
  { destruct (N.eqb (ls_pos st) 0); [|discriminate]. apply scan_sentinel_len in E1. intro H. fin H Hin E1. }
  destruct (scan_version cls (c :: s')) as [[m r]|] eqn:E2.
  { apply scan_version_len in E2. intro H. fin H Hin E2. }
  destruct (prefixb s_end_env (c :: s')) eqn:E3.
  { intro H. apply prefixb_skipn_len in E3. fin H Hin E3. }
  destruct (scan_envelope_start (c :: s')) as [[nm r]|] eqn:E4.
  { apply scan_envelope_start_len in E4. intro H.
    assert (E4' : (length (s_eq3 ++ nm ++ s_eq3) + length r = length (c :: s'))%nat) by (rewrite !app_length; cbn [length s_eq3] in *; lia).
    fin H Hin E4'. }
  destruct (prefixb s_dash3 (c :: s')) eqn:E5.
  { intro H. apply prefixb_skipn_len in E5. fin H Hin E5. }
  destruct (prefixb [c_slash; c_slash] (c :: s')) eqn:E6.
  { intro H.
    assert (E6' : (length (takeb (fun x => negb (N.eqb x c_nl)) (c :: s')) +
                   length (skipn (length (takeb (fun x => negb (N.eqb x c_nl)) (c :: s'))) (c :: s')) = length (c :: s'))%nat).
    { rewrite skipn_length. pose proof (takeb_le (fun x => negb (N.eqb x c_nl)) (c :: s')). lia. }
    fin H Hin E6'. }
  destruct (try_simple simple_ops (c :: s')) as [[m k]|] eqn:E7.
  { intro H. apply try_simple_len in E7. fin H Hin E7. }
  destruct (scan_word cls s_vs (ls_prev st) (c :: s')) as [r|] eqn:E8.
  { apply scan_word_len in E8. intro H. fin H Hin E8. }
  destruct (try_simple simple_ops2 (c :: s')) as [[m k]|] eqn:E9.
  { intro H. apply try_simple_len in E9. fin H Hin E9. }
  destruct (if prefixb [c_dq; c_dq; c_dq] (c :: s') then scan_tq_body (length (c :: s')) (skipn 3 (c :: s')) else None)
    as [[b r]|] eqn:E10.
  { destruct (prefixb [c_dq; c_dq; c_dq] (c :: s')) eqn:P; [|discriminate]. apply scan_tq_body_len in E10.
    apply prefixb_skipn_len in P. cbn [length] in P. intro H.
    assert (E10' : (length ([c_dq; c_dq; c_dq] ++ b ++ [c_dq; c_dq; c_dq]) + length r = length (c :: s'))%nat)
      by (rewrite !app_length; cbn [length] in *; lia).
    fin H Hin E10'. }
  destruct (if N.eqb c c_dq then scan_dq_body (length (c :: s')) s' else None) as [[b r]|] eqn:E11.
  { destruct (N.eqb c c_dq); [|discriminate]. apply scan_dq_body_len in E11. intro H.
    assert (E11' : (length (c_dq :: b ++ [c_dq]) + length r = length (c :: s'))%nat)
      by (cbn [length]; rewrite app_length; cbn [length]; lia).
    fin H Hin E11'. }
  destruct (scan_number cls (c :: s')) as [[m r]|] eqn:E12.
  { apply scan_number_len in E12. intro H. fin H Hin E12. }
  destruct (scan_word cls s_true (ls_prev st) (c :: s')) as [r|] eqn:E13.
  { apply scan_word_len in E13. intro H. fin H Hin E13. }
  destruct (scan_word cls s_false (ls_prev st) (c :: s')) as [r|] eqn:E14.
  { apply scan_word_len in E14. intro H. fin H Hin E14. }
  destruct (scan_word cls s_null (ls_prev st) (c :: s')) as [r|] eqn:E15.
  { apply scan_word_len in E15. intro H. fin H Hin E15. }
  destruct (N.eqb c c_hash).
  { intro H. assert (E : (length [c_hash] + length s' = length (c :: s'))%nat) by reflexivity. fin H Hin E. }
  destruct (if N.eqb c c_dollar then match takeb var_char s' with [] => None | m => Some m end else None) as [m|] eqn:E16.
  { intro H.
    assert (E : (length (c :: m) + length (skipn (length m) s') = length (c :: s'))%nat).
    { cbn [length]. rewrite skipn_length. destruct (N.eqb c c_dollar); [|discriminate].
      destruct (takeb var_char s') as [|y t] eqn:Et; [discriminate|]. inversion E16; subst.
      pose proof (takeb_le var_char s') as Hl. rewrite Et in Hl. lia. }
    fin H Hin E. }
  destruct (N.eqb c c_nl).
  { intro H. assert (E : (length [c_nl] + length s' = length (c :: s'))%nat) by reflexivity. fin H Hin E. }
  exact Hfb.
Qed.

(* ---- the span list is not consulted by an ordinary iteration ------------------------------------------------------------------------------------ *)
Definition withsp (S : list span) (st : lstate) : lstate :=
  mkLS (ls_in st) (ls_prev st) (ls_pos st) (ls_line st) (ls_col st) (ls_toks st) (ls_reps st) (ls_brk st) S.
Definition lift (S : list span) (r : step_res) : step_res := match r with Continue st => Continue (withsp S st) | Stop x => Stop x end.

Lemma emit_pat_withsp S st k v m rest norm : emit_pat (withsp S st) k v m rest norm = lift S (emit_pat st k v m rest norm).
Proof.
  unfold emit_pat. cbn [withsp ls_line ls_col ls_brk ls_reps ls_pos ls_toks ls_spans].
  destruct (alias_of m); destruct (if tkind_eqb k LIST_START then _ else _); try reflexivity; destruct (0 <? count_nl m); reflexivity.
Qed.

Lemma step_fallback_withsp S st c s' : step_fallback cls false (withsp S st) c s' = lift S (step_fallback cls false st c s').
Proof.
  unfold step_fallback. cbn [withsp ls_line ls_col ls_brk ls_reps ls_pos ls_toks ls_spans].
  repeat first [ reflexivity
               | match goal with
                 | |- context [if ?X then _ else _] => destruct X
                 | |- context [match ?X with _ => _ end] => destruct X
                 end ].
Qed.

Lemma step_plain_withsp S st c s' : step_plain cls false (withsp S st) c s' = lift S (step_plain cls false st c s').
Proof.
  unfold step_plain. cbv zeta. rewrite step_fallback_withsp.
  cbn [withsp ls_line ls_col ls_brk ls_reps ls_pos ls_toks ls_spans ls_prev].
  repeat first [ reflexivity | apply emit_pat_withsp
               | match goal with
                 | |- context [if ?X then _ else _] => destruct X
                 | |- context [match ?X with _ => _ end] => destruct X
                 end ].
Qed.

(* ---- runs of ordinary iterations under a non-empty span list ------------------------------------------------------------------------------------- *)
Lemma steps_len st st' : steps cls st st' -> (length (ls_in st') <= length (ls_in st))%nat.
Proof.
  induction 1 as [|st st1 st2 Hs _ IH]; [lia|]. pose proof (step_progress cls false _ _ Hs). lia.
Qed.

Lemma step_withsp S st st' : ls_spans st = [] -> step cls false st = Continue st' ->
  match S with sp :: _ => ls_pos st <> sp_start sp | [] => True end ->
  step cls false (withsp S st) = Continue (withsp S st') /\ pinv st st'.
Proof.
  intros Hsp Hs Hne. unfold step in *. cbn [withsp ls_in ls_spans ls_pos]. rewrite Hsp in Hs.
  destruct (ls_in st) as [|c s'] eqn:Hin; [discriminate|].
  assert (E : step_plain cls false (withsp S st) c s' = Continue (withsp S st')) by (rewrite step_plain_withsp, Hs; reflexivity).
  split; [|exact (step_plain_pos st c s' st' Hin Hs)].
  destruct S as [|sp r]; [exact E|]. rewrite (neqb _ _ Hne). exact E.
Qed.

Theorem steps_withsp S st st' : steps cls st st' -> ls_spans st = [] ->
  match S with sp :: _ => ls_pos st + len (ls_in st) <= sp_start sp + len (ls_in st') | [] => True end ->
  steps cls (withsp S st) (withsp S st') /\ ls_pos st' + len (ls_in st') = ls_pos st + len (ls_in st) /\ ls_spans st' = [].
Proof.
  induction 1 as [st|st st1 st2 Hs Hss IH]; intros Hsp Hhd.
  - split; [apply steps_refl|]. split; [reflexivity|exact Hsp].
  - pose proof (step_progress cls false _ _ Hs) as Hlt. pose proof (steps_len _ _ Hss) as Hle.
    destruct (step_withsp S st st1 Hsp Hs) as (Hw & Hpi & Hsp1).
    { destruct S as [|sp r]; [exact I|]. unfold len in Hhd. lia. }
    rewrite Hsp in Hsp1.
    destruct (IH Hsp1) as (H1 & H2 & H3).
    { destruct S as [|sp r]; [exact I|]. rewrite Hpi. exact Hhd. }
    split; [eapply steps_cons; [exact Hw|exact H1]|]. split; [rewrite H2; exact Hpi|exact H3].
Qed.
End Loop.
