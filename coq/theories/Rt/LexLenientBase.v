(* Lexer half for LENIENT layouts (Rt/TokLenient.v), part 1: infrastructure.
     - the pre-passes on a text without tab and backtick                                       (tokenize_clean)
     - leading blank lines: Lexer.init_state / lead_blank push one NEWLINE per blank line      (init_state_blanks)
     - spaces in the middle of a line are consumed without a token                             (skip_spaces)
     - a blank line (spaces at column 1 followed by a newline) is exactly one NEWLINE token    (lex_blank_line, lex_blanks)
     - a comment absorbs trailing spaces (the COMMENT scanner strips them)                     (G_comment_tr)
     - an identifier may be followed by a blank                                                (G_key_z) *)
From OV Require Import Base.Strs Gen.LexerGen Syn.Escape Syn.Quote Syn.Emitter Lex.Lexer Lex.Progress
     Rt.TokRound Rt.TokRound2 Rt.LexLinkBase Rt.LexLinkSteps Rt.LexLink Rt.LexLink2Base Rt.LexLink2Steps Rt.LexLink2Text Rt.LexLink2
     Rt.TokLenient.
From Coq Require Import Lia.
Open Scope N_scope.

Definition sp_n (k : nat) : str := repeat c_sp k.

Lemma forallb_sp_n k : forallb (N.eqb c_sp) (sp_n k) = true.
Proof. apply forallb_repeat_sp. Qed.
Lemma rev_sp_n k : rev (sp_n k) = sp_n k.
Proof.
  unfold sp_n. induction k as [|k IH]; [reflexivity|]. cbn [repeat rev]. rewrite IH. symmetry. apply repeat_cons.
Qed.
Lemma memb_sp_n x k : x <> c_sp -> memb x (sp_n k) = false.
Proof. intros H. induction k as [|k IH]; [reflexivity|]. unfold sp_n in *. cbn [repeat memb existsb]. rewrite (neqb _ _ H). exact IH. Qed.
Lemma len_sp_n k : len (sp_n k) = N.of_nat k.
Proof. unfold len, sp_n. rewrite repeat_length. reflexivity. Qed.

(* ---- the pre-passes on a text without tab and backtick --------------------------------------------------------------------- *)
Definition text_clean (t : str) : bool := negb (memb c_tab t) && negb (memb c_bt t).

Lemma split_no x t : memb x t = false -> forallb (fun l => negb (memb x l)) (split_on c_nl t) = true.
Proof.
  induction t as [|c t IH]; [reflexivity|]. cbn [memb existsb]. intros H. apply orb_false_iff in H as [H1 H2].
  specialize (IH H2). cbn [split_on]. destruct (N.eqb c c_nl); [cbn [forallb]; exact IH|].
  destruct (split_on c_nl t) as [|h tl]; [cbn [forallb memb existsb]; rewrite H1; reflexivity|]. cbn [forallb] in *. apply andb_true_iff in IH as [I1 I2].
  rewrite I2, andb_true_r. cbn [memb existsb]. rewrite H1. exact I1.
Qed.
Lemma memb_dropb x p l : memb x l = false -> memb x (dropb p l) = false.
Proof. induction l as [|c l IH]; [reflexivity|]. cbn [dropb]. intros H. destruct (p c); [|exact H]. apply IH. cbn [memb existsb] in H. apply orb_false_iff in H as [_ H]. exact H. Qed.
Lemma fence_free_nobt l : memb c_bt l = false -> fence_free l = true.
Proof.
  intros H. unfold fence_free. pose proof (memb_dropb c_bt (N.eqb c_sp) l H) as H'. destruct (dropb (N.eqb c_sp) l) as [|c r]; [reflexivity|].
  cbn [memb existsb] in H'. apply orb_false_iff in H' as [H' _]. rewrite N.eqb_sym, H'. reflexivity.
Qed.

Section Len.
Variable cls : N -> N.
Notation wbb := (word_boundary_before cls).

Lemma tokenize_clean lenient t : text_clean t = true ->
  tokenize cls lenient (lines_of t) = run cls lenient (S (length t)) (init_state t []).
Proof.
  unfold text_clean. intros H. apply andb_true_iff in H as [H1 H2]. apply negb_true_iff in H1, H2.
  unfold tokenize, lines_of. rewrite fence_scan_plain.
  - cbn [rev app]. rewrite join_split, (tab_check_none _ H1). reflexivity.
  - eapply forallb_impl; [|exact (split_no c_bt t H2)]. intros l Hl. apply fence_free_nobt. apply negb_true_iff. exact Hl.
Qed.

(* ---- leading blank lines -------------------------------------------------------------------------------------------------------- *)
Definition blank_pre (bs : list nat) : str := flat_map (fun n => sp_n n ++ [c_nl]) bs.

Lemma lead_blank_spaces n : forall s line k nsp toks ls,
  lead_blank (sp_n n ++ s) line k nsp toks ls = lead_blank s line k (nsp + N.of_nat n) toks ls.
Proof.
  induction n as [|n IH]; intros s line k nsp toks ls.
  - cbn [sp_n repeat app]. rewrite N.add_0_r. reflexivity.
  - unfold sp_n in *. cbn [repeat app lead_blank]. rewrite N.eqb_refl, IH. f_equal. lia.
Qed.

Lemma lead_blank_blanks bs : forall rest line k toks ls, nonblank_head rest = true ->
  exists line' k' nts, lead_blank (blank_pre bs ++ rest) line k 0 toks ls = (match bs with [] => ls | _ => rest end, line', k', nts ++ toks) /\
                       length nts = length bs /\ Forall (fun t => tk t = NEWLINE) nts.
Proof.
  induction bs as [|n bs IH]; intros rest line k toks ls Hr.
  - cbn [blank_pre flat_map app]. exists line, k, []. split; [|split; [reflexivity|constructor]].
    destruct rest as [|c r]; [reflexivity|]. cbn [nonblank_head] in Hr. apply andb_true_iff in Hr as [H1 H2]. apply negb_true_iff in H1, H2.
    cbn [lead_blank]. rewrite H1, H2. reflexivity.
  - cbn [blank_pre flat_map]. rewrite <- !app_assoc. rewrite lead_blank_spaces. cbn [app lead_blank].
    change (N.eqb c_nl c_sp) with false. rewrite N.eqb_refl. cbv iota.
    fold (blank_pre bs).
    destruct (IH rest (line + 1) (k + (0 + N.of_nat n) + 1) (mkTok NEWLINE (TVText [c_nl]) line 1 None :: toks) (blank_pre bs ++ rest) Hr)
      as (line' & k' & nts & E & Hl & Hk).
    exists line', k', (nts ++ [mkTok NEWLINE (TVText [c_nl]) line 1 None]). rewrite E, <- app_assoc. cbn [app].
    split; [destruct bs; reflexivity|]. split; [rewrite app_length; cbn [length]; lia|].
    apply Forall_app. split; [exact Hk|constructor; [reflexivity|constructor]].
Qed.

Lemma nls_match nts : Forall (fun t => tk t = NEWLINE) nts -> Forall2 tmatch nts (nls (length nts)).
Proof. induction 1 as [|t r Ht _ IH]; [constructor|]. cbn [length nls repeat]. constructor; [split; [exact Ht|exact I]|exact IH]. Qed.

Lemma init_state_blanks bs rest : nonblank_head rest = true ->
  exists st0, init_state (blank_pre bs ++ rest) [] = st0 /\ ls_in st0 = rest /\ ls_pos st0 = 0 /\ ls_col st0 = 1 /\ ls_spans st0 = [] /\
              ls_brk st0 = [] /\ ls_reps st0 = [] /\ Forall2 tmatch (rev (ls_toks st0)) (nls (length bs)).
Proof.
  intros Hr. unfold init_state.
  destruct (lead_blank_blanks bs rest 1 0 [] (blank_pre bs ++ rest) Hr) as (line' & k' & nts & E & Hl & Hk). rewrite E, app_nil_r.
  destruct bs as [|n bs].
  - destruct nts; [|discriminate Hl]. cbn [blank_pre flat_map app]. eexists. split; [reflexivity|]. cbn. repeat split; constructor.
  - destruct nts as [|t nts]; [discriminate Hl|]. eexists. split; [reflexivity|]. cbn [ls_in ls_pos ls_col ls_spans ls_brk ls_reps ls_toks map].
    repeat split. rewrite <- Hl, <- rev_length. apply nls_match. apply Forall_rev. exact Hk.
Qed.

(* ---- spaces inside a line ----------------------------------------------------------------------------------------------------------- *)
Lemma skip_one_space st r : ls_in st = c_sp :: r -> 1 < ls_col st -> ls_spans st = [] ->
  step cls false st = Continue (adv st [c_sp] r (ls_toks st) (ls_reps st)).
Proof.
  intros Hin Hc Hsp. unfold step. rewrite Hin, Hsp. unfold step_plain. cbv zeta. rewrite N.eqb_refl, (neqb (ls_col st) 1) by lia. reflexivity.
Qed.

Lemma skip_spaces k : forall st r, ls_in st = sp_n k ++ r -> 1 < ls_col st -> ls_spans st = [] -> ls_pos st <> 0 ->
  exists st', steps cls st st' /\ ls_in st' = r /\ ls_toks st' = ls_toks st /\ ls_reps st' = ls_reps st /\ ls_brk st' = ls_brk st /\
              ls_spans st' = [] /\ ls_pos st' <> 0 /\ 1 < ls_col st' /\
              (k = 0%nat -> ls_prev st' = ls_prev st) /\ (k <> 0%nat -> ls_prev st' = Some c_sp).
Proof.
  induction k as [|k IH]; intros st r Hin Hc Hsp Hp.
  - exists st. split; [apply steps_refl|]. repeat split; try assumption; try reflexivity. congruence.
  - unfold sp_n in Hin. cbn [repeat app] in Hin. fold (sp_n k) in Hin.
    pose proof (skip_one_space st _ Hin Hc Hsp) as Hs.
    set (st1 := adv st [c_sp] (sp_n k ++ r) (ls_toks st) (ls_reps st)) in *.
    destruct (IH st1 r eq_refl) as (st' & S' & I' & T' & R' & B' & P' & Q' & C' & V0 & V1).
    { unfold st1, adv. cbn [ls_col]. unfold len. cbn [length]. lia. }
    { exact Hsp. }
    { unfold st1, adv. cbn [ls_pos]. unfold len. cbn [length]. lia. }
    exists st'. split; [eapply steps_cons; [exact Hs|exact S']|]. repeat split; try assumption.
    + discriminate.
    + intros _. destruct k as [|k']; [rewrite (V0 eq_refl); reflexivity|apply V1; discriminate].
Qed.

Lemma lexto_skip st st' : steps cls st st' -> ls_toks st' = ls_toks st -> ls_reps st' = ls_reps st -> ls_brk st' = ls_brk st ->
  ls_spans st' = ls_spans st -> lexto cls st [] st'.
Proof. intros S T R B P. split; [exact S|]. split; [exists []; split; [exact T|constructor]|]. repeat split; assumption. Qed.

(* ---- blank lines ------------------------------------------------------------------------------------------------------------------- *)
Lemma lex_blank_line n st r : ls_in st = sp_n n ++ c_nl :: r -> ready st ->
  exists st', lexto cls st [(NEWLINE, None)] st' /\ ls_in st' = r /\ ready st'.
Proof.
  intros Hin (Hc & Hp & Hsp). destruct n as [|m].
  - exact (lex_newline cls st r Hin Hsp).
  - assert (Hstep : step cls false st =
      Continue (mkLS (c_nl :: r) (Some c_sp) (ls_pos st + N.of_nat (S m)) (ls_line st) (ls_col st) (ls_toks st) (ls_reps st) (ls_brk st) (ls_spans st))).
    { unfold step. rewrite Hin. unfold sp_n. cbn [repeat app]. rewrite Hsp. unfold step_plain. cbv zeta.
      rewrite N.eqb_refl, Hc. change (N.eqb 1 1) with true. cbv iota.
      change (c_sp :: repeat c_sp m ++ c_nl :: r) with (repeat c_sp (S m) ++ c_nl :: r).
      rewrite takeb_app_stop, dropb_app_stop by (first [apply forallb_repeat_sp | reflexivity]).
      rewrite N.eqb_refl. cbn [negb]. unfold len. rewrite repeat_length, ?Hsp. reflexivity. }
    set (st1 := mkLS (c_nl :: r) (Some c_sp) (ls_pos st + N.of_nat (S m)) (ls_line st) (ls_col st) (ls_toks st) (ls_reps st) (ls_brk st) (ls_spans st)) in *.
    destruct (lex_newline cls st1 r eq_refl Hsp) as (st2 & L2 & I2 & R2).
    exists st2. split; [|split; assumption].
    change [(NEWLINE, @None tvalue)] with ([] ++ [(NEWLINE, @None tvalue)]). eapply lexto_trans; [|exact L2].
    apply lexto_skip; [apply steps_one; exact Hstep|reflexivity|reflexivity|reflexivity|reflexivity].
Qed.

Fixpoint blanks (k : nat) (bs : list nat) : str :=
  match k with O => [] | S k' => sp_n (hd O bs) ++ c_nl :: blanks k' (tl bs) end.

Lemma lex_blanks k : forall bs st r, ls_in st = blanks k bs ++ r -> ready st ->
  exists st', lexto cls st (nls k) st' /\ ls_in st' = r /\ ready st'.
Proof.
  induction k as [|k IH]; intros bs st r Hin Hr.
  - exists st. split; [apply lexto_refl|split; assumption].
  - cbn [blanks] in Hin. rewrite <- app_assoc in Hin. cbn [app] in Hin.
    destruct (lex_blank_line _ st _ Hin Hr) as (st1 & L1 & I1 & R1).
    destruct (IH (tl bs) st1 r I1 R1) as (st2 & L2 & I2 & R2).
    exists st2. split; [|split; assumption]. change (nls (S k)) with ([(NEWLINE, @None tvalue)] ++ nls k). eapply lexto_trans; eassumption.
Qed.

(* end of a line: trailing spaces, the newline, the blank lines that follow *)
Definition eol_txt (l : lline) (tr : nat) (bs : list nat) : str := sp_n tr ++ c_nl :: blanks (l_blank l) bs.

Lemma lex_eol l tr bs st r : ls_in st = eol_txt l tr bs ++ r -> 1 < ls_col st -> ls_spans st = [] -> ls_pos st <> 0 ->
  exists st', lexto cls st (eol l) st' /\ ls_in st' = r /\ ready st'.
Proof.
  intros Hin Hc Hsp Hp. unfold eol_txt in Hin. rewrite <- app_assoc in Hin. cbn [app] in Hin.
  destruct (skip_spaces tr st _ Hin Hc Hsp Hp) as (st1 & S1 & I1 & T1 & R1 & B1 & P1 & Q1 & _).
  assert (L1 : lexto cls st [] st1) by (apply lexto_skip; try assumption; rewrite P1, Hsp; reflexivity).
  destruct (lex_newline cls st1 _ I1 P1) as (st2 & L2 & I2 & R2).
  destruct (lex_blanks (l_blank l) bs st2 r I2 R2) as (st3 & L3 & I3 & R3).
  exists st3. split; [|split; assumption]. unfold eol.
  change ((NEWLINE, None) :: nls (l_blank l)) with ([] ++ [(NEWLINE, @None tvalue)] ++ nls (l_blank l)).
  eapply lexto_trans; [exact L1|]. eapply lexto_trans; eassumption.
Qed.

(* ---- a comment absorbs trailing spaces ---------------------------------------------------------------------------------------------- *)
Lemma dropb_space_sp_n k s : dropb (u_space cls) (sp_n k ++ s) = dropb (u_space cls) s.
Proof. induction k as [|k IH]; [reflexivity|]. unfold sp_n in *. cbn [repeat app dropb]. change (u_space cls c_sp) with true. exact IH. Qed.

Lemma strip_edges_tr c k : edges_ok c = true -> strip cls (c_sp :: c ++ sp_n k) = c.
Proof.
  intros H. unfold strip. change (c_sp :: c ++ sp_n k) with (sp_n 1 ++ c ++ sp_n k). rewrite dropb_space_sp_n.
  destruct c as [|x r].
  - cbn [app]. rewrite <- (app_nil_r (sp_n k)), dropb_space_sp_n. reflexivity.
  - cbn [edges_ok] in H. apply andb_true_iff in H as [H1 H2]. cbn [app dropb]. rewrite (edge_not_space cls _ H1).
    change (x :: r ++ sp_n k) with ((x :: r) ++ sp_n k). rewrite rev_app_distr, rev_sp_n, dropb_space_sp_n.
    destruct (rev_last_hd x r) as (t & E). rewrite E. cbn [dropb]. rewrite (edge_not_space cls _ H2), <- E. apply rev_involutive.
Qed.

Lemma G_comment_tr st c k r : comment_ok c = true -> ls_in st = comment_line c ++ sp_n k ++ c_nl :: r -> ls_spans st = [] ->
  exists st', gstep cls st st' COMMENT (TVText c) (c_nl :: r) (last_chr (comment_line c ++ sp_n k)) (ls_brk st).
Proof.
  intros Hc Hin Hsp. unfold comment_ok in Hc. apply andb_true_iff in Hc as [Hc He]. apply andb_true_iff in Hc as [Hn _].
  apply negb_true_iff in Hn. pose proof (comment_line_nl c Hn) as Hln.
  set (m := comment_line c ++ sp_n k).
  assert (Hmn : memb c_nl m = false) by (unfold m; rewrite memb_app, Hln, memb_sp_n by discriminate; reflexivity).
  destruct (comment_line_hd c) as (t & Et).
  assert (Em : m = c_slash :: c_slash :: t ++ sp_n k) by (unfold m; rewrite Et; reflexivity).
  assert (Hin' : ls_in st = c_slash :: (c_slash :: t ++ sp_n k) ++ c_nl :: r).
  { rewrite Hin, Et. cbn [app]. rewrite <- !app_assoc. reflexivity. }
  destruct (takeb_line m r Hmn) as [Htk Hsk].
  destruct (gstep_emit_pat cls st c_slash ((c_slash :: t ++ sp_n k) ++ c_nl :: r) COMMENT (TVText c) m (c_nl :: r) Hin' Hsp)
    as (st' & H); try reflexivity.
  - rewrite sp_comment; [|reflexivity|reflexivity]. cbv zeta.
    change (c_slash :: (c_slash :: t ++ sp_n k) ++ c_nl :: r) with ((c_slash :: c_slash :: t ++ sp_n k) ++ c_nl :: r). rewrite <- Em, Htk, Hsk.
    f_equal. f_equal. unfold m. destruct c as [|x c'].
    + cbn [comment_line app skipn]. unfold strip. rewrite <- (app_nil_r (sp_n k)), dropb_space_sp_n. reflexivity.
    + change (skipn 2 (comment_line (x :: c') ++ sp_n k)) with (c_sp :: (x :: c') ++ sp_n k). apply strip_edges_tr. exact He.
  - rewrite Em. apply alias_of_none_hd; chr.
  - exact Hmn.
  - rewrite Em. discriminate.
  - exists st'. exact H.
Qed.

(* ---- an identifier followed by `:` `[` `]` newline or a blank ---------------------------------------------------------------------- *)
Definition kterm2 (z : N) : Prop := z = 58 \/ z = 91 \/ z = 93 \/ z = 10 \/ z = 32.

Lemma id_char_kterm2 z : kterm2 z -> id_char cls z = false.
Proof.
  intros H. unfold id_char. rewrite is_ascii_lt by (unfold kterm2 in H; lia).
  rewrite is_alnum_false by (unfold kterm2 in H; lia). cbn [orb memb existsb].
  rewrite !(neqb z _) by (unfold kterm2 in H; chr). reflexivity.
Qed.
Lemma scan_identifier_word_z2 c k z r : key_start c = true -> forallb key_char k = true -> kterm2 z ->
  scan_identifier cls false (c :: k ++ z :: r) = Some (c :: k, z :: r, None).
Proof.
  intros Hc Hk Hz. unfold scan_identifier. rewrite (id_start_key cls _ Hc).
  assert (E : scan_ident_core cls c (k ++ z :: r) = (c :: k, z :: r)).
  { unfold scan_ident_core.
    rewrite takeb_app_stop; [|apply (forallb_impl key_char); [apply id_char_key|exact Hk]|apply id_char_kterm2; exact Hz].
    rewrite std_id.
    2:{ intros x Hx. apply in_rev in Hx. rewrite forallb_forall in Hk. specialize (Hk x Hx). apply key_char_range in Hk. chr. }
    rewrite rev_involutive, skipn_app_len. reflexivity. }
  rewrite E. cbv iota beta. rewrite (neqb z c_lt) by (unfold kterm2 in Hz; chr). rewrite (neqb z 123) by (unfold kterm2 in Hz; lia). reflexivity.
Qed.

Lemma G_key_z st k z r :
  key_ok k = true -> kterm2 z -> ls_in st = k ++ z :: r -> ls_pos st <> 0 -> ls_spans st = [] ->
  exists st', gstep cls st st' IDENTIFIER (TVText k) (z :: r) (last_chr k) (ls_brk st).
Proof.
  intros Hk Hz Hin Hpos Hsp. unfold key_ok in Hk.
  apply andb_true_iff in Hk as [Hk Hvs]. apply andb_true_iff in Hk as [Hk Hwc]. apply andb_true_iff in Hk as [Hw Hres].
  apply negb_true_iff in Hvs. apply negb_true_iff in Hres.
  destruct (wrong_case_of k) as [w|] eqn:Ewc; [discriminate Hwc|]. clear Hwc.
  pose proof (word_ok_chars _ Hw) as Hkc.
  destruct k as [|c k']; [discriminate Hw|]. cbn [word_ok] in Hw. apply andb_true_iff in Hw as [Hc Hk'].
  cbn [str_in] in Hres. repeat (apply orb_false_iff in Hres as [? Hres]).
  assert (Huw : forallb (u_word cls) (c :: k') = true) by (apply (forallb_impl key_char); [apply u_word_key|exact Hkc]).
  assert (Hzw : u_word cls z = false) by (apply u_word_false; unfold kterm2 in Hz; lia).
  cbn [app] in Hin.
  assert (Hstep : step cls false st =
    Continue (adv st (c :: k') (z :: r) (mkTok IDENTIFIER (TVText (c :: k')) (ls_line st) (ls_col st) None :: ls_toks st) (ls_reps st))).
  { unfold step. rewrite Hin, Hsp.
    rewrite sp_fallback; [|exact Hc|exact Hpos
      |apply (scan_word_other cls s_vs (c :: k')); [reflexivity|exact Huw|exact Hzw|assumption]
      |apply (scan_word_other cls Lexer.s_true (c :: k')); [reflexivity|exact Huw|exact Hzw|assumption]
      |apply (scan_word_other cls Lexer.s_false (c :: k')); [reflexivity|exact Huw|exact Hzw|assumption]
      |apply (scan_word_other cls Lexer.s_null (c :: k')); [reflexivity|exact Huw|exact Hzw|assumption]].
    pose proof Hc as Hc'. apply key_start_range in Hc.
    unfold step_fallback. cbv zeta. unfold s_eq3 at 1. rewrite hd_prefix_ne by chr. cbn [andb].
    rewrite (neqb c c_plus) by chr. rewrite (scan_identifier_word_z2 c k' z r Hc' Hk' Hz).
    rewrite Ewc, Hvs. reflexivity. }
  eexists. unfold gstep. split; [exact Hstep|]. unfold adv.
  cbn [ls_in ls_prev ls_pos ls_toks ls_reps ls_brk ls_spans ls_col].
  pose proof (len_pos (c :: k')) as Hl.
  repeat split; try reflexivity; [apply len_pos_ne; discriminate|eexists _, _, _; reflexivity|].
  specialize (Hl ltac:(discriminate)). lia.
Qed.

End Len.
