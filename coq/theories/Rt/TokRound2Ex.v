(* Non-vacuity of Rt/TokRound2.v (one example per stage, new constructs at depth >= 2, read by the FULL model lexer + parser),
   the checked-shape composition with the lexer model, the unrestricted statement, and a `_refuted` witness for every
   layout the fragment core2_doc excludes. *)
From OV Require Import Base.Strs Lex.Lexer Syn.Ast Syn.Emitter Syn.Parser Syn.Wf Rt.TokRound Rt.TokRoundEx Rt.LexLinkBase Rt.TokRound2.
From Coq Require Import Lia.
Require Coq.Strings.String.
Import Coq.Strings.String.StringSyntax.
Open Scope N_scope.

(* ---- instances of the two layout parameters: what the emitter + lexer really do ----------------------------------------- *)
Definition ex_ml : list value -> bool := needs_multiline.                 (* the emitter's layout choice *)
Definition ex_idnum (i : str) : bool := negb (is_nil i) && forallb is_digit i.   (* all-digit section ids lex as NUMBER *)

Definition ex2_numcanon (raw : str) : option (bool * str) :=
  if str_in raw [lit "1"; lit "2"; lit "3"; lit "42"] then Some (false, raw)
  else if str_eqb raw (lit "2.5") then Some (true, raw) else None.

Definition rt_ok (d : doc) (subs : list N) : Prop :=
  match parse_model ex_cls ex2_numcanon (fun _ => false) true (lines_of (emit (u_space ex_cls) d)) with
  | PRDoc d' reps warns => d' = d /\ reps = [] /\ map wsub warns = subs
  | _ => False
  end.
Definition lex_ok (d : doc) : Prop :=
  match tokenize ex_cls false (lines_of (emit (u_space ex_cls) d)) with
  | LexOk toks reps => all2 tmatchb toks (doc2_sh ex_ml ex_idnum d ++ [(NEWLINE, None); (EOF, None)]) = true /\ reps = []
  | _ => False
  end.

Definition n1 := VNum false (lit "1").
Definition n2 := VNum false (lit "2").

(* ---- stage 1: comments ------------------------------------------------------------------------------------------------------ *)
(* leading comments at depth 0, 1, 2, 3 (one of them empty), trailing comments at depth 0 and 2, a leading comment on a block,
   a leading comment at depth 1 directly after the last descendant of a nested block (accepted: the dedent is announced by an
   INDENT token), trailing document comments after an assignment *)
Definition ex_s1 : doc :=
  mkDoc (lit "DOC") (Some (lit "5.1.0")) None true []
    [ NAssign (lit "A") n1 [lit "lead a"; []] (Some (lit "tr a"));
      NBlock (lit "B") None
        [ NAssign (lit "C") (VStr (lit "x y")) [lit "lc"] None;
          NBlock (lit "D") None
            [ NAssign (lit "E") (VBool true) [lit "le1"; lit "le2"] (Some (lit "te"));
              NBlock (lit "DEEP") None [ NAssign (lit "F") VNull [lit "lf"] (Some (lit "tf")) ] [lit "ldeep"];
              NAssign (lit "E") (VNum true (lit "2.5")) [lit "after deep"] None ] [lit "ld"];
          NAssign (lit "G") (VBool false) [lit "after d"] (Some (lit "tg")) ] [lit "lb"];
      NAssign (lit "H") (VStr []) [] None ]
    [lit "trail1"; lit "trail2"].

Example ex_s1_core : core2_doc_s1 ex_s1 = true.
Proof. vm_compute. reflexivity. Qed.
Example ex_s1_nums : nums_ok2_l ex2_numcanon ex_idnum (dsections ex_s1).
Proof. cbn. repeat split. Qed.
Example ex_s1_roundtrip : rt_ok ex_s1 [5].
Proof. vm_compute. repeat split. Qed.
Example ex_s1_lexes : lex_ok ex_s1.
Proof. vm_compute. split; reflexivity. Qed.

(* ---- stage 2: lists of scalars ---------------------------------------------------------------------------------------------- *)
(* inline lists (0, 1, 2 items) and multi-line lists (3 and 4 items) at depth 0, 2 and 3, with comments around them *)
Definition ex_s2 : doc :=
  mkDoc (lit "DOC") None None false []
    [ NAssign (lit "L0") (VList [n1; n2; VNum false (lit "3")]) [lit "top"] (Some (lit "after bracket"));
      NBlock (lit "B") None
        [ NBlock (lit "D") None
            [ NAssign (lit "E") (VList [n1; VStr (lit "x y")]) [lit "le"] (Some (lit "te"));
              NAssign (lit "M") (VList [VNull; VBool true; VStr []; VNum true (lit "2.5")]) [lit "lm"] (Some (lit "tm"));
              NAssign (lit "O") (VList []) [] None;
              NBlock (lit "DEEP") None [ NAssign (lit "F") (VList [VBool false; n1; n2]) [] None;
                                         NAssign (lit "S") (VList [VStr (lit "o ne")]) [] None ] [] ] [];
          NAssign (lit "G") (VList [n1; n1; n1]) [lit "lg"] None ] [];
      NAssign (lit "Z") (VList [VBool true; VBool false]) [] (Some (lit "tz")) ]
    [lit "end"].

Example ex_s2_core : core2_doc_s2 ex_s2 = true.
Proof. vm_compute. reflexivity. Qed.
Example ex_s2_nums : nums_ok2_l ex2_numcanon ex_idnum (dsections ex_s2).
Proof. cbn. repeat split; repeat constructor. Qed.
Example ex_s2_roundtrip : rt_ok ex_s2 [].
Proof. vm_compute. repeat split. Qed.
Example ex_s2_lexes : lex_ok ex_s2.
Proof. vm_compute. split; reflexivity. Qed.

(* ---- stage 3: section markers ------------------------------------------------------------------------------------------------ *)
(* sections at depth 0, 1, 2; numeric and identifier ids; with and without annotation; a block inside a section inside a block
   inside a section; leading comments on sections and on their first child *)
Definition ex_s3 : doc :=
  mkDoc (lit "DOC") None None true []
    [ NSection (lit "1") (lit "INTRO") (Some (lit "draft"))
        [ NAssign (lit "A") n1 [lit "first child"] (Some (lit "ta"));
          NBlock (lit "B") None
            [ NSection (lit "2") (lit "INNER") None
                [ NAssign (lit "L") (VList [n1; n2; VNum false (lit "3")]) [lit "ll"] None;
                  NBlock (lit "K") None [ NAssign (lit "Z") VNull [] None ] [lit "lk"] ] [lit "ls2"];
              NSection (lit "X") (lit "NAMED") (Some (lit "ann"))
                [ NAssign (lit "Y") (VBool true) [] None ] [] ] [lit "lb"] ] [lit "ls1"];
      NSection (lit "42") (lit "LAST") None [ NAssign (lit "W") (VStr (lit "a b")) [] None ] [] ]
    [].

Example ex_s3_core : core2_doc_s3 ex_s3 = true.
Proof. vm_compute. reflexivity. Qed.
Example ex_s3_nums : nums_ok2_l ex2_numcanon ex_idnum (dsections ex_s3).
Proof. cbn. repeat split; try (intros _; eexists; reflexivity); try discriminate; repeat constructor. Qed.
Example ex_s3_roundtrip : rt_ok ex_s3 [].
Proof. vm_compute. repeat split. Qed.
Example ex_s3_lexes : lex_ok ex_s3.
Proof. vm_compute. split; reflexivity. Qed.

(* ---- stage 4: META block ------------------------------------------------------------------------------------------------------ *)
Definition ex_s4 : doc :=
  mkDoc (lit "DOC") (Some (lit "6.0.0")) None true
    [ (lit "TYPE", MV (VStr (lit "x y"))); (lit "VERSION", MV (VStr (lit "1.0"))); (lit "N", MV n1); (lit "FLAG", MV (VBool true));
      (lit "NONE", MV VNull); (lit "TAGS", MV (VList [n1; n2])); (lit "LONG", MV (VList [VNull; VNull; VBool false])) ]
    [ NAssign (lit "A") n1 [lit "directly after META"] None;
      NBlock (lit "B") None
        [ NSection (lit "1") (lit "S") (Some (lit "ann"))
            [ NAssign (lit "E") (VList [n1; VBool true; VNull]) [lit "le"] (Some (lit "te")) ] [lit "ls"] ] [] ]
    [].
(* META directly followed by a comment line, no separator; and a first section keyed META after a META block *)
Definition ex_s4b : doc :=
  mkDoc (lit "DOC") None None false
    [ (lit "K", MV (VList [])) ]
    [ NBlock (lit "META") None [ NBlock (lit "P") None [ NAssign (lit "Q") n1 [lit "c"] (Some (lit "t")) ] [] ] [lit "not the header"] ]
    [].

Example ex_s4_core : core2_doc ex_s4 = true.
Proof. vm_compute. reflexivity. Qed.
Example ex_s4_nums : nums_ok2_l ex2_numcanon ex_idnum (dsections ex_s4) /\ Forall (field_num_ok ex2_numcanon) (dmeta ex_s4).
Proof. cbn. repeat split; try (intros _; eexists; reflexivity); repeat constructor. Qed.
Example ex_s4_roundtrip : rt_ok ex_s4 [].
Proof. vm_compute. repeat split. Qed.
Example ex_s4_lexes : lex_ok ex_s4.
Proof. vm_compute. split; reflexivity. Qed.
Example ex_s4b_core : core2_doc ex_s4b = true.
Proof. vm_compute. reflexivity. Qed.
Example ex_s4b_roundtrip : rt_ok ex_s4b [].
Proof. vm_compute. repeat split. Qed.
Example ex_s4b_lexes : lex_ok ex_s4b.
Proof. vm_compute. split; reflexivity. Qed.

(* ---- composition with the lexer model through the executable shape check ------------------------------------------------------ *)
Lemma tkind_eqb_eq a b : tkind_eqb a b = true -> a = b.
Proof. destruct a, b; intros H; try reflexivity; discriminate H. Qed.
Lemma tmatchb_tmatch t s : tmatchb t s = true -> tmatch t s.
Proof.
  unfold tmatchb, tmatch. intros H. apply andb_prop in H. destruct H as [Hk Hv]. split; [exact (tkind_eqb_eq _ _ Hk)|].
  destruct (snd s) as [[a|a|a| |a|? ?]|]; [| | | | | |exact I]; destruct (tv t); try discriminate Hv.
  - apply str_eqb_eq in Hv. congruence.
  - apply str_eqb_eq in Hv. congruence.
  - apply Bool.eqb_prop in Hv. congruence.
  - reflexivity.
  - apply N.eqb_eq in Hv. congruence.
Qed.
Lemma all2_F2 ts l : all2 tmatchb ts l = true -> Forall2 tmatch ts l.
Proof.
  revert l. induction ts as [|t ts IH]; intros [|s l] H; cbn [all2] in H; try discriminate H; [constructor|].
  apply andb_prop in H. destruct H as [H1 H2]. constructor; [exact (tmatchb_tmatch _ _ H1)|exact (IH _ H2)].
Qed.

(* WHENEVER the model lexer reads a text as the shape doc2_sh d (+ NEWLINE EOF) -- an executable check -- the full model reads
   the text back as d, with the lexer's repairs and only advisory warnings.  No assumption on how the text was produced. *)
Theorem text_roundtrip_core2_checked cls numcanon holo_ok strict ml idnum d text toks reps :
  core2_doc d = true -> nums_ok2_l numcanon idnum (dsections d) -> Forall (field_num_ok numcanon) (dmeta d) ->
  strip_frontmatter (u_space cls) (lines_of text) = (lines_of text, None) ->
  tokenize cls false (lines_of text) = LexOk toks reps ->
  all2 tmatchb toks (doc2_sh ml idnum d ++ [(NEWLINE, None); (EOF, None)]) = true ->
  exists warns, parse_model cls numcanon holo_ok strict (lines_of text) = PRDoc d reps warns /\ Forall advisory warns.
Proof.
  intros Hc Hnum Hmnum Hfm Htok Hsh. apply all2_F2 in Hsh. apply Forall2_app_inv_r in Hsh. destruct Hsh as (ts & tl & Hts & Htl & ->).
  unfold parse_model. rewrite Hfm, Htok.
  destruct (parse_core2_doc numcanon holo_ok strict (u_space cls) (u_alpha cls) ml idnum d Hc Hnum Hmnum
              (mkPS (ts ++ tl) None 0 [] 0 []) ts tl) as (st' & Hp & (l & Hw & Hadv) & _);
    [inversion Htl; discriminate|reflexivity|exact Hts|reflexivity|].
  rewrite Hp. exists (rev (pwarns st')). split.
  - f_equal. destruct d as [name gr fr sep meta secs trl]. unfold core2_doc in Hc. cbn [dfront] in Hc.
    destruct fr; [discriminate Hc|]. reflexivity.
  - rewrite Hw. cbn [pwarns]. rewrite app_nil_r. apply Forall_rev. exact Hadv.
Qed.

(* the theorem instantiated on the stage-4 example: hypotheses are satisfiable on a non-trivial value *)
Example ex_s4_by_theorem :
  exists warns, parse_model ex_cls ex2_numcanon (fun _ => false) true (lines_of (emit (u_space ex_cls) ex_s4)) = PRDoc ex_s4 [] warns /\
                Forall advisory warns.
Proof.
  pose (toks := match tokenize ex_cls false (lines_of (emit (u_space ex_cls) ex_s4)) with LexOk t _ => t | _ => [] end).
  assert (E : tokenize ex_cls false (lines_of (emit (u_space ex_cls) ex_s4)) = LexOk toks []) by (vm_compute; reflexivity).
  apply (text_roundtrip_core2_checked ex_cls ex2_numcanon (fun _ => false) true ex_ml ex_idnum ex_s4 _ toks []
           ex_s4_core (proj1 ex_s4_nums) (proj2 ex_s4_nums)); [vm_compute; reflexivity|exact E|vm_compute; reflexivity].
Qed.

(* executable form of the hypothesis, for the harness: 0 = not a core2 document, 1 = shape check passed,
   2 = shape mismatch or lexer repair, 3 = lexer error *)
Definition core2_shape_check (cls : N -> N) (d : doc) (lines : list (str * str)) : N :=
  if core2_doc d then
    match tokenize cls false lines with
    | LexOk toks reps =>
        if all2 tmatchb toks (doc2_sh ex_ml ex_idnum d ++ [(NEWLINE, None); (EOF, None)]) && is_nil reps then 1 else 2
    | _ => 3
    end
  else 0.

(* ---- the unrestricted statement, and why each exclusion is there ----------------------------------------------------------------- *)
Fixpoint relaxed_node (n : node) : bool :=
  match n with
  | NAssign _ v _ _ => cval v
  | NBlock _ None ch _ => forallb relaxed_node ch
  | NSection _ _ _ ch _ => forallb relaxed_node ch
  | _ => false
  end.
Definition relaxed_doc (d : doc) : bool :=
  match dfront d with None => forallb relaxed_node (dsections d) && forallb meta_field_ok (dmeta d) | Some _ => false end.

Definition parse_core2_concl numcanon holo_ok strict sp alpha ml idnum (d : doc) : Prop :=
  forall st0 ts tail, tail <> [] -> pbdepth st0 = 0 ->
    Forall2 tmatch ts (doc2_sh ml idnum d) -> ptoks st0 = ts ++ tail ->
    exists st', parse_document numcanon holo_ok strict sp alpha st0 = POk d st' /\ wext2 st0 st'.

Definition parse_core2_full : Prop :=
  forall numcanon holo_ok strict sp alpha ml idnum d,
    relaxed_doc d = true -> nums_ok2_l numcanon idnum (dsections d) -> Forall (field_num_ok numcanon) (dmeta d) ->
    parse_core2_concl numcanon holo_ok strict sp alpha ml idnum d.

(* a canonical token list for a shape *)
Definition tok_of_sh (s : sh) : token := mkTok (fst s) (match snd s with Some v => v | None => TVNone end) 0 0 None.
Lemma toks_match l : Forall2 tmatch (map tok_of_sh l) l.
Proof. induction l as [|s l IH]; [constructor|]. constructor; [|exact IH]. split; [reflexivity|]. cbn. destruct (snd s); reflexivity. Qed.

Definition ex_concl := parse_core2_concl ex2_numcanon (fun _ => false) true (u_space ex_cls) (u_alpha ex_cls) ex_ml ex_idnum.
Definition st_of (d : doc) : pstate := mkPS (map tok_of_sh (doc2_sh ex_ml ex_idnum d) ++ [eof_tok]) None 0 [] 0 [].

Ltac refute_parse d :=
  let H := fresh "H" in let st' := fresh "st'" in let Hp := fresh "Hp" in
  intros H;
  destruct (H (st_of d) (map tok_of_sh (doc2_sh ex_ml ex_idnum d)) [eof_tok]) as (st' & Hp & _);
  [discriminate|reflexivity|apply toks_match|reflexivity|];
  vm_compute in Hp; discriminate Hp.

Definition rt_fails (d : doc) : Prop :=
  match parse_model ex_cls ex2_numcanon (fun _ => false) true (lines_of (emit (u_space ex_cls) d)) with
  | PRDoc d' _ _ => d' <> d
  | _ => True
  end.

Definition dd (secs : list node) (trl : list str) : doc := mkDoc (lit "D") None None false [] secs trl.

(* (1) comment-dedent, block_loop [wf clause 14, KNOWN class]: a leading comment at column 0 directly after the last child of a
   top-level block is flushed into the block as an NComment child *)
Definition r_dedent_block := dd [NBlock (lit "P") None [NAssign (lit "B") n1 [] None] []; NAssign (lit "C") n1 [lit "x"] None] [].
Lemma parse_core2_refuted_dedent_block :
  relaxed_doc r_dedent_block = true /\ core2_doc r_dedent_block = false /\ doc_clauses r_dedent_block = [14] /\
  ~ ex_concl r_dedent_block /\ rt_fails r_dedent_block.
Proof. split; [reflexivity|]. split; [reflexivity|]. split; [reflexivity|]. split; [refute_parse r_dedent_block|]. vm_compute. discriminate. Qed.

(* (2) the same with the trailing document comments *)
Definition r_dedent_trailing := dd [NBlock (lit "P") None [NAssign (lit "B") n1 [] None] []] [lit "x"].
Lemma parse_core2_refuted_dedent_trailing :
  relaxed_doc r_dedent_trailing = true /\ core2_doc r_dedent_trailing = false /\ doc_clauses r_dedent_trailing = [14] /\
  ~ ex_concl r_dedent_trailing /\ rt_fails r_dedent_trailing.
Proof. split; [reflexivity|]. split; [reflexivity|]. split; [reflexivity|]. split; [refute_parse r_dedent_trailing|]. vm_compute. discriminate. Qed.

(* (3) comment-dedent, section_loop [wf clause 14, KNOWN class] *)
Definition r_dedent_section := dd [NSection (lit "1") (lit "P") None [NAssign (lit "B") n1 [] None] []; NAssign (lit "C") n1 [lit "x"] None] [].
Lemma parse_core2_refuted_dedent_section :
  relaxed_doc r_dedent_section = true /\ core2_doc r_dedent_section = false /\ doc_clauses r_dedent_section = [14] /\
  ~ ex_concl r_dedent_section /\ rt_fails r_dedent_section.
Proof. split; [reflexivity|]. split; [reflexivity|]. split; [reflexivity|]. split; [refute_parse r_dedent_section|]. vm_compute. discriminate. Qed.

(* ... whereas the same dedent at depth >= 1 is announced by an INDENT token and IS in the fragment, although wf clause 14
   (which compares line indents only) flags it: the fragment is strictly more precise than the wf clause there *)
Definition r_dedent_nested :=
  dd [NBlock (lit "Q") None [NBlock (lit "P") None [NAssign (lit "B") n1 [] None] []; NAssign (lit "C") n1 [lit "x"] None] []] [].
Example dedent_nested_in_fragment : core2_doc r_dedent_nested = true /\ doc_clauses r_dedent_nested = [14] /\ rt_ok r_dedent_nested [].
Proof. split; [reflexivity|]. split; [reflexivity|]. vm_compute. repeat split. Qed.

(* (4) empty body followed by a sibling at depth >= 1 [NOT covered by a wf clause: wf_doc = true]: the header line `A:` is followed by
   INDENT of the same depth, which parse_section takes as the child indent of A -- the sibling becomes a child of A *)
Definition r_empty_block := dd [NBlock (lit "P") None [NBlock (lit "A") None [] []; NAssign (lit "B") n1 [] None] []] [].
Lemma parse_core2_refuted_empty_block :
  relaxed_doc r_empty_block = true /\ core2_doc r_empty_block = false /\ wf_doc r_empty_block = true /\
  ~ ex_concl r_empty_block /\ rt_fails r_empty_block.
Proof. split; [reflexivity|]. split; [reflexivity|]. split; [reflexivity|]. split; [refute_parse r_empty_block|]. vm_compute. discriminate. Qed.

Definition r_empty_section := dd [NBlock (lit "P") None [NSection (lit "1") (lit "A") None [] []; NAssign (lit "B") n1 [] None] []] [].
Lemma parse_core2_refuted_empty_section :
  relaxed_doc r_empty_section = true /\ core2_doc r_empty_section = false /\ wf_doc r_empty_section = true /\
  ~ ex_concl r_empty_section /\ rt_fails r_empty_section.
Proof. split; [reflexivity|]. split; [reflexivity|]. split; [reflexivity|]. split; [refute_parse r_empty_section|]. vm_compute. discriminate. Qed.

(* (5) empty body followed by a comment [wf clause 13, KNOWN class empty-body-comment] *)
Definition r_empty_comment := dd [NBlock (lit "A") None [] []; NAssign (lit "B") n1 [lit "x"] None] [].
Lemma parse_core2_refuted_empty_comment :
  relaxed_doc r_empty_comment = true /\ core2_doc r_empty_comment = false /\ doc_clauses r_empty_comment = [13] /\ rt_fails r_empty_comment.
Proof. split; [reflexivity|]. split; [reflexivity|]. split; [reflexivity|]. vm_compute. discriminate. Qed.

(* (6) first body token is the identifier META where parse_document looks for the META block [wf_doc = true]: parse error E001 *)
Definition r_first_meta := dd [NAssign (lit "META") n1 [] None] [].
Lemma parse_core2_refuted_first_meta :
  relaxed_doc r_first_meta = true /\ core2_doc r_first_meta = false /\ wf_doc r_first_meta = true /\
  ~ ex_concl r_first_meta /\ rt_fails r_first_meta.
Proof. split; [reflexivity|]. split; [reflexivity|]. split; [reflexivity|]. split; [refute_parse r_first_meta|]. vm_compute. exact I. Qed.
(* ... but not behind a separator, a comment or a META block (ex_s4b above) *)
Example first_meta_behind_comment :
  let d := dd [NAssign (lit "META") n1 [lit "c"] None] [] in core2_doc d = true /\ rt_ok d [].
Proof. split; [reflexivity|]. vm_compute. repeat split. Qed.

(* (7) duplicate META keys collapse (dict assignment).  An artefact of modelling the dict as an association list: the Python
   value cannot hold two equal keys.  Not a defect. *)
Definition r_meta_dup := mkDoc (lit "D") None None false [(lit "K", MV n1); (lit "K", MV VNull)] [] [].
Lemma parse_core2_refuted_meta_dup :
  relaxed_doc r_meta_dup = true /\ core2_doc r_meta_dup = false /\ ~ ex_concl r_meta_dup /\ rt_fails r_meta_dup.
Proof. split; [reflexivity|]. split; [reflexivity|]. split; [refute_parse r_meta_dup|]. vm_compute. discriminate. Qed.

(* (8), (9) `Some []`: a present-but-empty trailing comment / annotation is emitted as NOTHING [wf_doc = true].  The parser half is not at
   fault (it reads COMMENT("") back as Some []): the emitted text does not have the shape doc2_sh, and reads back as None.
   `K::1 //` parses to trailing = Some "" in the first place, so parse . emit is not the identity on parser output here. *)
Definition r_trailing_empty := dd [NAssign (lit "B") n1 [] (Some [])] [].
Definition lex_fails (d : doc) : Prop :=
  match tokenize ex_cls false (lines_of (emit (u_space ex_cls) d)) with
  | LexOk toks reps => all2 tmatchb toks (doc2_sh ex_ml ex_idnum d ++ [(NEWLINE, None); (EOF, None)]) = false
  | _ => True
  end.
Lemma parse_core2_refuted_trailing_empty :
  relaxed_doc r_trailing_empty = true /\ core2_doc r_trailing_empty = false /\ wf_doc r_trailing_empty = true /\
  lex_fails r_trailing_empty /\ rt_fails r_trailing_empty.
Proof. split; [reflexivity|]. split; [reflexivity|]. split; [reflexivity|]. split; vm_compute; [reflexivity|discriminate]. Qed.
Example trailing_empty_is_parser_output :
  match parse_model ex_cls ex2_numcanon (fun _ => false) true (lines_of (lit "===D===" ++ [c_nl] ++ lit "B::1 //" ++ [c_nl] ++ lit "===END===" ++ [c_nl])) with
  | PRDoc d _ _ => d = r_trailing_empty
  | _ => False
  end.
Proof. vm_compute. reflexivity. Qed.

Definition r_annot_empty := dd [NSection (lit "1") (lit "A") (Some []) [NAssign (lit "B") n1 [] None] []] [].
Lemma parse_core2_refuted_annot_empty :
  relaxed_doc r_annot_empty = true /\ core2_doc r_annot_empty = false /\ wf_doc r_annot_empty = true /\
  lex_fails r_annot_empty /\ rt_fails r_annot_empty.
Proof. split; [reflexivity|]. split; [reflexivity|]. split; [reflexivity|]. split; vm_compute; [reflexivity|discriminate]. Qed.

Theorem parse_core2_full_refuted : ~ parse_core2_full.
Proof.
  intros Hfull. destruct parse_core2_refuted_dedent_block as (Hr & _ & _ & Hn & _). apply Hn. apply Hfull; [exact Hr| |constructor].
  cbn. repeat split.
Qed.
