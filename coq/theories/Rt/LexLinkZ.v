(* Lexer half for corez documents (Rt/TokRoundZ.v), part 2: the main loop on the emitter's text, and the text-level theorems.

     lex_emit_corez        for every corez document d with lex_safez_doc cls d, the model lexer reads  emit sp d  as the shape
                           docz_sh needs_multiline ex_idnum d  followed by NEWLINE EOF, with no repair: at every zone the span list
                           fires (FENCE_OPEN LITERAL_CONTENT FENCE_CLOSE NEWLINE, no INDENT, the content RAW), everywhere else the
                           ordinary iterations run exactly as for core2 documents (Rt/LexLink2.v), whatever spans are still pending
     lex_emit_corez_nfc    the same for EVERY NFC oracle that fixes the ordinary and the fence lines (arbitrary on zone content)
     text_roundtrip_corez  composed with TokRoundZ.parse_corez_doc: parse_model returns d itself -- every zone byte for byte
                           (content, tag, marker) together with all its siblings -- no repair, advisory warnings only
     shape_check_corez     corez_shape_check = 1 on the whole domain *)
From OV Require Import Base.Strs Gen.LexerGen Syn.Escape Syn.Quote Syn.Ast Syn.Emitter Syn.Parser Lex.Lexer Lex.Progress
     Rt.Zones Rt.ZonesRt Rt.TokRound Rt.TokRoundEx Rt.TokRound2 Rt.TokRound2Ex Rt.TokRoundZ Rt.TokRoundZEx
     Rt.LexLinkBase Rt.LexLinkSteps Rt.LexLink Rt.LexLink2Base Rt.LexLink2Steps Rt.LexLink2Text Rt.LexLink2 Rt.LexLinkZPos Rt.LexLinkZText.
From Coq Require Import Lia.
Open Scope N_scope.

Section LinkZ.
Variable cls : N -> N.

(* ---- reachability, whatever the span list ------------------------------------------------------------------------------------------------------------ *)
Definition lexZ (st : lstate) (shs : list sh) (st' : lstate) : Prop :=
  steps cls st st' /\ (exists ts, ls_toks st' = rev ts ++ ls_toks st /\ Forall2 tmatch ts shs) /\
  ls_reps st' = ls_reps st /\ ls_brk st' = ls_brk st.
Lemma lexZ_refl st : lexZ st [] st.
Proof. split; [apply steps_refl|]. split; [exists []; split; [reflexivity|constructor]|]. split; reflexivity. Qed.
Lemma lexZ_trans a b c s1 s2 : lexZ a s1 b -> lexZ b s2 c -> lexZ a (s1 ++ s2) c.
Proof.
  intros (S1 & (t1 & T1 & F1) & R1 & B1) (S2 & (t2 & T2 & F2) & R2 & B2).
  split; [eapply steps_trans; eassumption|]. split; [|split; congruence].
  exists (t1 ++ t2). split; [rewrite T2, T1, rev_app_distr, app_assoc; reflexivity|apply Forall2_app; assumption].
Qed.

Definition readyZ (st : lstate) : Prop := ls_col st = 1 /\ ls_pos st <> 0.
(* the next span, if any, starts at or after offset x *)
Definition hd_ge (Sp : list span) (x : N) : Prop := match Sp with sp :: _ => x <= sp_start sp | [] => True end.
Lemma hd_ge_le Sp x y : x <= y -> hd_ge Sp y -> hd_ge Sp x.
Proof. destruct Sp; cbn; [trivial|lia]. Qed.
Lemma hd_ge_app bs off Sp x : x <= off -> hd_ge Sp (off + len (blocks_text bs)) -> hd_ge (spans_of bs off ++ Sp) x.
Proof.
  intros Hx HS. destruct (spans_of bs off) as [|sp r] eqn:E; cbn [app].
  - apply (hd_ge_le Sp x (off + len (blocks_text bs))); [lia|exact HS].
  - cbn [hd_ge]. pose proof (spans_of_hd bs off sp r E). lia.
Qed.

(* a run of ordinary iterations proved for the empty span list, replayed under the actual span list *)
Lemma sim_chunk st U rest shs :
  ls_in st = U ++ rest ->
  (exists st0', lexto cls (withsp [] st) shs st0' /\ ls_in st0' = rest /\ ready st0') ->
  hd_ge (ls_spans st) (ls_pos st + len U) ->
  exists st', lexZ st shs st' /\ ls_in st' = rest /\ readyZ st' /\ ls_spans st' = ls_spans st /\ ls_pos st' = ls_pos st + len U.
Proof.
  intros Hin (st0' & (Hst & Htk & Hr & Hb & _) & I0 & (C0 & P0 & _)) Hhd.
  destruct (steps_withsp cls (ls_spans st) (withsp [] st) st0' Hst eq_refl) as (S1 & PI & _).
  { cbn [withsp ls_pos ls_in]. unfold hd_ge in Hhd. destruct (ls_spans st); [exact I|]. rewrite Hin, I0, LexLinkBase.len_app. lia. }
  assert (E : withsp (ls_spans st) (withsp [] st) = st) by (destruct st; reflexivity). rewrite E in S1.
  cbn [withsp ls_pos ls_in ls_toks ls_reps ls_brk] in PI, Htk, Hr, Hb.
  exists (withsp (ls_spans st) st0'). split; [|split; [exact I0|split; [split; [exact C0|exact P0]|split; [reflexivity|]]]].
  - split; [exact S1|]. split; [exact Htk|]. split; [exact Hr|exact Hb].
  - cbn [withsp ls_pos]. rewrite I0, Hin, LexLinkBase.len_app in PI. lia.
Qed.

Lemma ready_forget st : readyZ st -> ready (withsp [] st).
Proof. intros [H1 H2]. split; [exact H1|split; [exact H2|reflexivity]]. Qed.

(* ---- chunks of ordinary lines (empty span list) ----------------------------------------------------------------------------------------------------------- *)
Lemma lex_zone_key D k l st rest : key_ok k = true -> forallb comment_ok l = true ->
  ls_in st = unlines (emit_leading l D ++ [ind D ++ k ++ s_assign]) ++ rest -> ready st ->
  exists st', lexto cls st (lead_sh D l ++ indent_sh D ++ [(IDENTIFIER, Some (TVText k)); (ASSIGN, None); (NEWLINE, None)]) st' /\
              ls_in st' = rest /\ ready st'.
Proof.
  intros Hk Hl Hin Hr. rewrite unlines_app, <- app_assoc in Hin.
  destruct (lex_lead cls D l st _ Hl Hin Hr) as (st1 & L1 & I1 & R1).
  cbn [unlines flat_map] in I1. rewrite app_nil_r, <- !app_assoc in I1. cbn [app] in I1.
  change (s_assign ++ ?x) with (c_colon :: c_colon :: x) in I1.
  destruct (lex_indent_key cls D k _ st1 Hk I1 R1) as (st2 & L2 & I2 & S2).
  destruct (T_assign cls st2 _ I2 S2) as (st3 & T3).
  assert (L3 : lexto cls st2 [(ASSIGN, None)] st3) by (eapply lexto_tstep; [exact T3|reflexivity|left; reflexivity]).
  assert (S3 : ls_spans st3 = []) by (rewrite (tstep_spans _ _ _ _ _ _ _ T3); exact S2).
  destruct (lex_newline cls st3 rest (tstep_in _ _ _ _ _ _ _ T3) S3) as (st4 & L4 & I4 & R4).
  exists st4. split; [|split; assumption].
  eapply lexto_trans; [exact L1|].
  change [(IDENTIFIER, Some (TVText k)); (ASSIGN, None); (NEWLINE, None)]
    with ([(IDENTIFIER, Some (TVText k))] ++ [(ASSIGN, @None tvalue)] ++ [(NEWLINE, @None tvalue)]).
  rewrite app_assoc. eapply lexto_trans; [exact L2|]. eapply lexto_trans; [exact L3|exact L4].
Qed.

Lemma lex_block_hdr D k l st rest : key_ok k = true -> forallb comment_ok l = true ->
  ls_in st = unlines (emit_leading l D ++ [ind D ++ k ++ [] ++ [c_colon]]) ++ rest -> ready st ->
  exists st', lexto cls st (lead_sh D l ++ indent_sh D ++ [(IDENTIFIER, Some (TVText k)); (BLOCK, None); (NEWLINE, None)]) st' /\
              ls_in st' = rest /\ ready st'.
Proof.
  intros Hk Hl Hin Hr. rewrite unlines_app, <- app_assoc in Hin.
  destruct (lex_lead cls D l st _ Hl Hin Hr) as (st1 & L1 & I1 & R1).
  cbn [unlines flat_map] in I1. rewrite app_nil_r, <- app_assoc in I1. cbn [app] in I1.
  destruct (lex_block_header cls D k st1 _ Hk I1 R1) as (st2 & L2 & I2 & R2).
  exists st2. split; [|split; assumption]. eapply lexto_trans; [exact L1|exact L2].
Qed.

Lemma lex_section_hdr D i k a l st rest : sid_ok i = true -> key_ok k = true -> annot_ok a = true -> opt_ne a = true ->
  forallb comment_ok l = true ->
  ls_in st = unlines (emit_leading l D ++ [ind D ++ [167] ++ i ++ s_assign ++ k ++ annot_text a]) ++ rest -> ready st ->
  exists st', lexto cls st (lead_sh D l ++ indent_sh D ++ [(SECTION, None); id_sh idnum_digits i; (ASSIGN, None); (IDENTIFIER, Some (TVText k))] ++
                            annot_sh a ++ [(NEWLINE, None)]) st' /\ ls_in st' = rest /\ ready st'.
Proof.
  intros Hi Hk Ha Hne Hl Hin Hr. rewrite unlines_app, <- app_assoc in Hin.
  destruct (lex_lead cls D l st _ Hl Hin Hr) as (st1 & L1 & I1 & R1).
  cbn [unlines flat_map] in I1. rewrite app_nil_r, <- app_assoc in I1. cbn [app] in I1.
  destruct (lex_section_header cls D i k a st1 _ Hi Hk Ha Hne I1 R1) as (st2 & L2 & I2 & R2).
  exists st2. split; [|split; assumption]. eapply lexto_trans; [exact L1|exact L2].
Qed.

Definition g_sh (d : doc) : list sh := match dgrammar d with Some g => [(GRAMMAR_SENTINEL, Some (TVText g)); (NEWLINE, None)] | None => [] end.
Definition sep_shz (d : doc) : list sh := if dsep d then [(SEPARATOR, None); (NEWLINE, None)] else [].

Lemma lex_prefix d st rest : forallb meta_field_ok (dmeta d) = true -> lex_safez_doc cls d = true ->
  ls_in st = unlines (prefix_lines d) ++ rest -> ls_pos st = 0 -> ls_spans st = [] ->
  exists st', lexto cls st (g_sh d ++ [(ENVELOPE_START, Some (TVText (dname d))); (NEWLINE, None)] ++ meta_sh ml (dmeta d) ++ sep_shz d) st' /\
              ls_in st' = rest /\ ready st'.
Proof.
  intros Hmf Hs Hin Hp Hsp. destruct (safez_parts cls d Hs) as (Hname & Hg & _ & Hm & _).
  unfold prefix_lines, grammar_lines, g_sh, sep_shz in *. rewrite !unlines_app, <- ?app_assoc in Hin.
  set (TAIL := unlines (meta_lines (dmeta d)) ++ unlines (if dsep d then [s_sep] else []) ++ rest) in *.
  assert (HA : exists st1, lexto cls st (match dgrammar d with Some g => [(GRAMMAR_SENTINEL, Some (TVText g)); (NEWLINE, None)] | None => [] end) st1 /\
                           ls_in st1 = s_env ++ dname d ++ s_env ++ c_nl :: TAIL /\ ls_spans st1 = []).
  { destruct (dgrammar d) as [g|].
    - cbn [unlines flat_map] in Hin. rewrite ?app_nil_r, <- ?app_assoc in Hin. cbn [app] in Hin.
      destruct (T_sentinel cls st g _ Hg Hin Hp Hsp) as (st0 & T0).
      assert (S0 : ls_spans st0 = []) by (rewrite (tstep_spans _ _ _ _ _ _ _ T0); exact Hsp).
      destruct (lex_newline cls st0 _ (tstep_in _ _ _ _ _ _ _ T0) S0) as (st1 & L1 & I1 & (_ & _ & S1)).
      exists st1. split; [|split; [exact I1|exact S1]].
      change [(GRAMMAR_SENTINEL, Some (TVText g)); (NEWLINE, None)] with ([(GRAMMAR_SENTINEL, Some (TVText g))] ++ [(NEWLINE, None)]).
      eapply lexto_trans; [|exact L1]. eapply lexto_tstep; [exact T0|reflexivity|right; reflexivity].
    - cbn [unlines flat_map app] in Hin. rewrite ?app_nil_r, <- ?app_assoc in Hin. cbn [app] in Hin.
      exists st. split; [apply lexto_refl|split; [exact Hin|exact Hsp]]. }
  destruct HA as (st1 & L1 & I1 & S1). clear Hin Hp Hsp.
  destruct (T_env_start cls st1 (dname d) _ Hname I1 S1) as (st2 & T2).
  assert (S2 : ls_spans st2 = []) by (rewrite (tstep_spans _ _ _ _ _ _ _ T2); exact S1).
  destruct (lex_newline cls st2 _ (tstep_in _ _ _ _ _ _ _ T2) S2) as (st3 & L3 & I3 & R3).
  subst TAIL.
  assert (HM : exists st4, lexto cls st3 (meta_sh ml (dmeta d)) st4 /\
                           ls_in st4 = unlines (if dsep d then [s_sep] else []) ++ rest /\ ready st4).
  { destruct (dmeta d) as [|kv0 m0]; [exists st3; split; [apply lexto_refl|split; [exact I3|exact R3]]|].
    set (m := kv0 :: m0) in *. unfold meta_lines in I3. cbn [meta_sh]. fold m.
    change (match m with [] => [] | _ :: _ => s_meta_hdr :: map meta_line m end) with (s_meta_hdr :: map meta_line m) in I3.
    rewrite unlines_cons, <- app_assoc in I3. cbn [app] in I3.
    destruct (lex_block_header cls 0 [77;69;84;65] st3 _ (key_ok_META) I3 R3) as (st4 & L4 & I4 & R4).
    destruct (lex_meta_fields cls m st4 _ Hmf Hm I4 R4) as (st5 & L5 & I5 & R5).
    exists st5. split; [|split; assumption]. eapply lexto_trans; [exact L4|exact L5]. }
  destruct HM as (st4 & L4 & I4 & R4).
  assert (HB : exists st5, lexto cls st4 (if dsep d then [(SEPARATOR, None); (NEWLINE, None)] else []) st5 /\ ls_in st5 = rest /\ ready st5).
  { destruct (dsep d).
    - cbn [unlines flat_map app] in I4. rewrite <- ?app_assoc in I4. cbn [app] in I4.
      pose proof R4 as (_ & _ & S4).
      destruct (T_sep cls st4 _ I4 S4) as (st' & T').
      assert (Sp' : ls_spans st' = []) by (rewrite (tstep_spans _ _ _ _ _ _ _ T'); exact S4).
      destruct (lex_newline cls st' _ (tstep_in _ _ _ _ _ _ _ T') Sp') as (st5 & L5 & I5 & R5).
      exists st5. split; [|split; [exact I5|exact R5]].
      change [(SEPARATOR, None); (NEWLINE, None)] with ([(SEPARATOR, @None tvalue)] ++ [(NEWLINE, None)]).
      eapply lexto_trans; [|exact L5]. eapply lexto_tstep; [exact T'|reflexivity|left; reflexivity].
    - exists st4. split; [apply lexto_refl|split; [exact I4|exact R4]]. }
  destruct HB as (st5 & L5 & I5 & R5).
  exists st5. split; [|split; assumption].
  eapply lexto_trans; [exact L1|].
  change ([(ENVELOPE_START, Some (TVText (dname d))); (NEWLINE, None)] ++ ?x)
    with ([(ENVELOPE_START, Some (TVText (dname d)))] ++ [(NEWLINE, @None tvalue)] ++ x).
  eapply lexto_trans; [eapply lexto_tstep; [exact T2|reflexivity|right; reflexivity]|].
  eapply lexto_trans; [exact L3|]. eapply lexto_trans; [exact L4|exact L5].
Qed.

Lemma lex_suffix d st : forallb comment_ok (dtrailing d) = true -> ls_in st = unlines (suffix_lines d) -> ready st ->
  exists st', lexto cls st (lead_sh 0 (dtrailing d) ++ [(ENVELOPE_END, None)] ++ [(NEWLINE, None)]) st' /\ ls_in st' = [] /\ ready st'.
Proof.
  intros Htr Hin Hr. unfold suffix_lines in Hin. rewrite unlines_app in Hin.
  destruct (lex_lead cls 0 (dtrailing d) st _ Htr Hin Hr) as (st7 & L7 & I7 & (_ & _ & S7)).
  cbn [unlines flat_map] in I7. rewrite app_nil_r in I7.
  destruct (T_env_end cls st7 [] I7 S7) as (st8 & T8).
  assert (S8 : ls_spans st8 = []) by (rewrite (tstep_spans _ _ _ _ _ _ _ T8); exact S7).
  destruct (lex_newline cls st8 [] (tstep_in _ _ _ _ _ _ _ T8) S8) as (st9 & L9 & I9 & R9).
  exists st9. split; [|split; assumption].
  eapply lexto_trans; [exact L7|]. eapply lexto_trans; [|exact L9]. eapply lexto_tstep; [exact T8|reflexivity|left; reflexivity].
Qed.

(* ---- the fence iteration ------------------------------------------------------------------------------------------------------------------------------------ *)
Lemma zbody_join D m tag c : zbody D m tag c = join [c_nl] (zopen D m tag :: zmids c ++ [zclose D m]).
Proof. change (zopen D m tag :: zmids c ++ [zclose D m]) with ((zopen D m tag :: zmids c) ++ [zclose D m]). rewrite join_snoc, nlcat_cons, <- app_assoc. reflexivity. Qed.

Lemma lex_fence st D m tag c rest Sp :
  ZonesRt.zone_ok m c && ZonesRt.tag_ok cls tag = true ->
  ls_in st = blk_text (BZ D m tag c) ++ rest ->
  ls_spans st = mkSpan (ls_pos st) (ls_pos st + len (zbody D m tag c)) m tag :: Sp ->
  exists st', lexZ st [(FENCE_OPEN, Some (TVFence m tag)); (LITERAL_CONTENT, Some (TVText c)); (FENCE_CLOSE, None); (NEWLINE, None)] st' /\
              ls_in st' = rest /\ readyZ st' /\ ls_spans st' = Sp /\ ls_pos st' = ls_pos st + len (blk_text (BZ D m tag c)).
Proof.
  intros Hok Hin Hsp. destruct (zone_parts cls m tag c Hok) as (Hm & _ & _ & Htn & _).
  cbn [blk_text] in Hin. rewrite <- app_assoc in Hin. cbn [app] in Hin.
  set (sp := mkSpan (ls_pos st) (ls_pos st + len (zbody D m tag c)) m tag) in *.
  assert (Hstep : step cls false st = step_fence st sp Sp).
  { unfold step. rewrite Hsp. destruct (ls_in st) as [|x s'] eqn:E.
    - exfalso. destruct (ZonesRt.marker_ok_inv _ Hm) as [Hl _]. apply (f_equal (@length N)) in Hin. unfold zbody, zopen in Hin.
      rewrite !app_length in Hin. cbn [length] in Hin. lia.
    - subst sp. cbn [sp_start]. rewrite N.eqb_refl. reflexivity. }
  rewrite zbody_join in Hin.
  pose proof (step_fence_content st sp Sp (zopen D m tag) (zmids c) (zclose D m) (c_nl :: rest)
                (zopen_no_nl D m tag Hm Htn) (zclose_no_nl D m Hm) Hin) as Hf.
  rewrite <- zbody_join in Hf. specialize (Hf ltac:(subst sp; cbn [sp_start sp_end]; lia)). cbv zeta in Hf.
  rewrite <- Hstep in Hf. unfold zmids in Hf. rewrite (ZonesRt.join_content_lines c) in Hf.
  match type of Hf with _ = Continue ?s => exists s end.
  split; [|split; [reflexivity|split; [split; [reflexivity|cbn [ls_pos sp_end]; subst sp; cbn [sp_end]; lia]|split; [reflexivity|]]]].
  - split; [apply steps_one; exact Hf|]. cbn [ls_toks ls_reps ls_brk]. split; [|split; reflexivity].
    eexists [_; _; _; _]. split; [reflexivity|].
    repeat constructor; reflexivity.
  - cbn [ls_pos blk_text]. subst sp. cbn [sp_end]. rewrite LexLinkBase.len_app. unfold len at 3. cbn [length]. lia.
Qed.

(* ---- nodes, at every depth -------------------------------------------------------------------------------------------------------------------------------------- *)
Notation node_shz := (node_shz ml idnum_digits).
Notation nodes_shz := (nodes_shz ml idnum_digits).
Notation main_shz := (main_shz ml idnum_digits).

Definition LZ_node (n : node) : Prop :=
  corez_node n = true -> lex_safez_node cls n = true ->
  forall D st rest Sp,
    ls_in st = unlines (emit_node_lines n D) ++ rest -> readyZ st ->
    ls_spans st = spans_of (node_blocks n D) (ls_pos st) ++ Sp -> hd_ge Sp (ls_pos st + len (unlines (emit_node_lines n D))) ->
    exists st', lexZ st (node_shz D n) st' /\ ls_in st' = rest /\ readyZ st' /\ ls_spans st' = Sp /\
                ls_pos st' = ls_pos st + len (unlines (emit_node_lines n D)).

Lemma nodes_blocks_text' ch D : forallb corez_node ch = true ->
  blocks_text (nodes_blocks ch D) = unlines (flat_map (fun c => emit_node_lines c D) ch).
Proof. apply nodes_blocks_text. apply Forall_forall. intros n _ D'. apply node_blocks_text. Qed.

Lemma lex_nodesz ch : Forall LZ_node ch -> forallb corez_node ch = true -> forallb (lex_safez_node cls) ch = true ->
  forall D st rest Sp,
    ls_in st = unlines (flat_map (fun c => emit_node_lines c D) ch) ++ rest -> readyZ st ->
    ls_spans st = spans_of (nodes_blocks ch D) (ls_pos st) ++ Sp ->
    hd_ge Sp (ls_pos st + len (unlines (flat_map (fun c => emit_node_lines c D) ch))) ->
    exists st', lexZ st (nodes_shz D ch) st' /\ ls_in st' = rest /\ readyZ st' /\ ls_spans st' = Sp /\
                ls_pos st' = ls_pos st + len (unlines (flat_map (fun c => emit_node_lines c D) ch)).
Proof.
  induction ch as [|c cs IH]; intros HP Hc Hs D st rest Sp Hin Hr Hsp Hhd.
  - exists st. split; [apply lexZ_refl|]. split; [exact Hin|]. split; [exact Hr|]. split; [exact Hsp|]. cbn. lia.
  - inversion HP as [|? ? HPc HPcs]; subst.
    cbn [forallb] in Hc, Hs. apply andb_true_iff in Hc as [Hc1 Hc2]. apply andb_true_iff in Hs as [Hs1 Hs2].
    cbn [flat_map] in Hin, Hhd |- *. rewrite unlines_app in Hin, Hhd |- *. rewrite <- app_assoc in Hin. rewrite LexLinkBase.len_app in Hhd |- *.
    unfold nodes_blocks in Hsp. cbn [flat_map] in Hsp. fold (nodes_blocks cs D) in Hsp.
    rewrite spans_of_app, (node_blocks_text c D Hc1), <- app_assoc in Hsp.
    destruct (HPc Hc1 Hs1 D st _ _ Hin Hr Hsp) as (st1 & L1 & I1 & R1 & S1 & P1).
    { apply hd_ge_app; [lia|]. rewrite (nodes_blocks_text' cs D Hc2). rewrite <- N.add_assoc. exact Hhd. }
    rewrite <- P1 in S1.
    destruct (IH HPcs Hc2 Hs2 D st1 rest Sp I1 R1 S1) as (st2 & L2 & I2 & R2 & S2 & P2).
    { rewrite P1, <- N.add_assoc. exact Hhd. }
    exists st2. split; [|split; [exact I2|split; [exact R2|split; [exact S2|]]]].
    + unfold TokRoundZ.nodes_shz. cbn [flat_map]. eapply lexZ_trans; [exact L1|exact L2].
    + rewrite P2, P1. lia.
Qed.

Lemma node_shz_nonzone D k v l t : is_zone v = false -> node_shz D (NAssign k v l t) = node_sh2 ml idnum_digits D (NAssign k v l t).
Proof. intros H. destruct v; try reflexivity. discriminate H. Qed.

Theorem all_LZ_node : forall n, LZ_node n.
Proof.
  apply node_ind2; unfold LZ_node.
  - (* assignment *)
    intros k v l t Hc Hs D st rest Sp Hin Hr Hsp Hhd. destruct (is_zone v) eqn:Hz.
    + (* a literal zone *)
      destruct v as [| | | | | | |c tag m|]; try discriminate Hz.
      assert (Et : t = None).
      { cbn [corez_node] in Hc. apply andb_true_iff in Hc as [_ Hc]. unfold zextra_ok in Hc. cbn [is_zone] in Hc.
        destruct t; [discriminate Hc|reflexivity]. }
      subst t.
      cbn [lex_safez_node lex_safez_val] in Hs. apply andb_true_iff in Hs as [Hs Hl]. apply andb_true_iff in Hs as [Hk Hv].
      rewrite zone_node_lines in Hin, Hhd |- *. rewrite <- app_assoc in Hin. rewrite LexLinkBase.len_app in Hhd |- *.
      cbn [node_blocks] in Hsp. rewrite spans_of_app, bt_spans, bt_text in Hsp. cbn [app spans_of] in Hsp.
      set (U1 := unlines (emit_leading l D ++ [ind D ++ k ++ s_assign])) in *.
      destruct (sim_chunk st U1 _ (lead_sh D l ++ indent_sh D ++ [(IDENTIFIER, Some (TVText k)); (ASSIGN, None); (NEWLINE, None)]) Hin)
        as (st1 & L1 & I1 & R1 & S1 & P1).
      { exact (lex_zone_key D k l (withsp [] st) _ Hk Hl Hin (ready_forget st Hr)). }
      { rewrite Hsp. cbn [hd_ge sp_start]. lia. }
      rewrite Hsp, <- P1 in S1.
      destruct (lex_fence st1 D m tag c rest Sp Hv I1 S1) as (st2 & L2 & I2 & R2 & S2 & P2).
      exists st2. split; [|split; [exact I2|split; [exact R2|split; [exact S2|rewrite P2, P1; lia]]]].
      assert (Esh : node_shz D (NAssign k (VZone c tag m) l None) =
                    (lead_sh D l ++ indent_sh D ++ [(IDENTIFIER, Some (TVText k)); (ASSIGN, None); (NEWLINE, None)]) ++
                    [(FENCE_OPEN, Some (TVFence m tag)); (LITERAL_CONTENT, Some (TVText c)); (FENCE_CLOSE, None); (NEWLINE, None)]).
      { unfold TokRoundZ.node_shz. cbn [lead_of TokRoundZ.main_shz val_shz zone_sh trail_sh app]. rewrite <- !app_assoc. reflexivity. }
      rewrite Esh.
      eapply lexZ_trans; [exact L1|exact L2].
    + (* an ordinary value *)
      destruct (nonzone_core2 cls k v l t Hz Hc Hs) as [Hc2 Hs2].
      assert (E : node_blocks (NAssign k v l t) D = bt (emit_node_lines (NAssign k v l t) D)) by (destruct v; try reflexivity; discriminate Hz).
      rewrite E, bt_spans in Hsp. cbn [app] in Hsp.
      destruct (sim_chunk st _ rest (node_sh2 ml idnum_digits D (NAssign k v l t)) Hin) as (st1 & L1 & I1 & R1 & S1 & P1).
      { exact (all_L2_node cls _ Hc2 Hs2 D (withsp [] st) rest Hin (ready_forget st Hr)). }
      { rewrite Hsp. exact Hhd. }
      exists st1. rewrite (node_shz_nonzone D k v l t Hz). rewrite Hsp in S1.
      split; [exact L1|split; [exact I1|split; [exact R1|split; [exact S1|exact P1]]]].
  - (* block *)
    intros k tg ch l IH Hc Hs D st rest Sp Hin Hr Hsp Hhd. cbn [corez_node] in Hc. destruct tg; [discriminate|].
    apply andb_true_iff in Hc as [_ Hcc]. cbn [lex_safez_node] in Hs. apply andb_true_iff in Hs as [Hs Hss]. apply andb_true_iff in Hs as [Hk Hl].
    rewrite (emit_block_linesz k ch l D Hcc), (app_assoc (emit_leading l D)), (unlines_app (emit_leading l D ++ _)) in Hin, Hhd |- *.
    rewrite <- app_assoc in Hin. rewrite LexLinkBase.len_app in Hhd |- *.
    cbn [node_blocks] in Hsp. fold (nodes_blocks ch (S D)) in Hsp. rewrite spans_of_app, bt_spans, bt_text, app_nil_l in Hsp.
    set (U1 := unlines (emit_leading l D ++ [ind D ++ k ++ [] ++ [c_colon]])) in *.
    destruct (sim_chunk st U1 _ (lead_sh D l ++ indent_sh D ++ [(IDENTIFIER, Some (TVText k)); (BLOCK, None); (NEWLINE, None)]) Hin)
      as (st1 & L1 & I1 & R1 & S1 & P1).
    { exact (lex_block_hdr D k l (withsp [] st) _ Hk Hl Hin (ready_forget st Hr)). }
    { rewrite Hsp. apply hd_ge_app; [lia|]. rewrite (nodes_blocks_text' ch (S D) Hcc), <- N.add_assoc. exact Hhd. }
    rewrite Hsp, <- P1 in S1.
    destruct (lex_nodesz ch IH Hcc Hss (S D) st1 rest Sp I1 R1 S1) as (st2 & L2 & I2 & R2 & S2 & P2).
    { rewrite P1, <- N.add_assoc. exact Hhd. }
    exists st2. split; [|split; [exact I2|split; [exact R2|split; [exact S2|rewrite P2, P1; lia]]]].
    unfold TokRoundZ.node_shz. cbn [lead_of]. rewrite main_shz_block, !app_assoc. eapply lexZ_trans; [|exact L2].
    rewrite <- !app_assoc. exact L1.
  - (* section *)
    intros i k a ch l IH Hc Hs D st rest Sp Hin Hr Hsp Hhd. cbn [corez_node] in Hc. apply andb_true_iff in Hc as [Hne Hc]. apply andb_true_iff in Hc as [_ Hcc].
    cbn [lex_safez_node] in Hs. apply andb_true_iff in Hs as [Hs Hss]. apply andb_true_iff in Hs as [Hs Hl].
    apply andb_true_iff in Hs as [Hs Ha]. apply andb_true_iff in Hs as [Hi Hk].
    rewrite (emit_section_lines2 i k a ch l D), (app_assoc (emit_leading l D)), (unlines_app (emit_leading l D ++ _)) in Hin, Hhd |- *.
    rewrite <- app_assoc in Hin. rewrite LexLinkBase.len_app in Hhd |- *.
    cbn [node_blocks] in Hsp. fold (nodes_blocks ch (S D)) in Hsp. rewrite spans_of_app, bt_spans, bt_text, app_nil_l in Hsp.
    set (U1 := unlines (emit_leading l D ++ [ind D ++ [167] ++ i ++ s_assign ++ k ++ annot_text a])) in *.
    destruct (sim_chunk st U1 _ (lead_sh D l ++ indent_sh D ++ [(SECTION, None); id_sh idnum_digits i; (ASSIGN, None); (IDENTIFIER, Some (TVText k))] ++
                                  annot_sh a ++ [(NEWLINE, None)]) Hin) as (st1 & L1 & I1 & R1 & S1 & P1).
    { exact (lex_section_hdr D i k a l (withsp [] st) _ Hi Hk Ha Hne Hl Hin (ready_forget st Hr)). }
    { rewrite Hsp. apply hd_ge_app; [lia|]. rewrite (nodes_blocks_text' ch (S D) Hcc), <- N.add_assoc. exact Hhd. }
    rewrite Hsp, <- P1 in S1.
    destruct (lex_nodesz ch IH Hcc Hss (S D) st1 rest Sp I1 R1 S1) as (st2 & L2 & I2 & R2 & S2 & P2).
    { rewrite P1, <- N.add_assoc. exact Hhd. }
    exists st2. split; [|split; [exact I2|split; [exact R2|split; [exact S2|rewrite P2, P1; lia]]]].
    unfold TokRoundZ.node_shz. cbn [lead_of]. rewrite main_shz_section, !app_assoc. eapply lexZ_trans; [|exact L2].
    rewrite <- !app_assoc. exact L1.
  - intros t Hc; discriminate Hc.
Qed.
End LinkZ.

Section DocZ.
Variable cls : N -> N.
Notation lexZ := (lexZ cls).

Lemma all_LZ_nodes ns : Forall (LZ_node cls) ns.
Proof. apply Forall_forall. intros n _. apply all_LZ_node. Qed.

Lemma doc_spans d : spans_of (doc_blocks d) 0 = spans_of (nodes_blocks (dsections d) 0) (len (unlines (prefix_lines d))) ++ [].
Proof.
  unfold doc_blocks. rewrite spans_of_app, bt_spans, bt_text, app_nil_l, spans_of_app, bt_spans, N.add_0_l. reflexivity.
Qed.

Lemma docz_sh_parts d :
  docz_sh ml idnum_digits d ++ [(NEWLINE, None)] =
  (g_sh d ++ [(ENVELOPE_START, Some (TVText (dname d))); (NEWLINE, None)] ++ meta_sh ml (dmeta d) ++ sep_shz d) ++
  nodes_shz ml idnum_digits 0 (dsections d) ++ (lead_sh 0 (dtrailing d) ++ [(ENVELOPE_END, None)] ++ [(NEWLINE, None)]).
Proof. unfold docz_sh, g_sh, sep_shz. rewrite <- !app_assoc. reflexivity. Qed.

Lemma lex_docz sp d : corez_doc d = true -> lex_safez_doc cls d = true ->
  forall st, ls_in st = emit sp d -> ls_pos st = 0 -> ls_spans st = spans_of (doc_blocks d) 0 ->
  exists st', lexZ st (docz_sh ml idnum_digits d ++ [(NEWLINE, None)]) st' /\ ls_in st' = [].
Proof.
  intros Hc Hs st Hin Hp Hsp. destruct (corez_parts d Hc) as (_ & Hcn & Hmf). destruct (safez_parts cls d Hs) as (_ & _ & Hn & _ & Htr).
  rewrite emit_unlines, (emit_lines_corez cls sp d Hc Hs), !unlines_app in Hin. rewrite doc_spans in Hsp.
  (* everything before the first node *)
  destruct (sim_chunk cls st _ _ (g_sh d ++ [(ENVELOPE_START, Some (TVText (dname d))); (NEWLINE, None)] ++ meta_sh ml (dmeta d) ++ sep_shz d) Hin)
    as (st1 & L1 & I1 & R1 & S1 & P1).
  { apply (lex_prefix cls d (withsp [] st) _ Hmf Hs Hin); [exact Hp|reflexivity]. }
  { rewrite Hsp, Hp, N.add_0_l. apply hd_ge_app; [lia|exact I]. }
  rewrite Hp, N.add_0_l in P1. rewrite Hsp, <- P1 in S1.
  (* the nodes *)
  destruct (lex_nodesz cls (dsections d) (all_LZ_nodes _) Hcn Hn 0%nat st1 _ [] I1 R1 S1 I) as (st2 & L2 & I2 & R2 & S2 & P2).
  (* trailing comments, closing envelope, last newline *)
  rewrite <- (app_nil_r (unlines (suffix_lines d))) in I2.
  destruct (sim_chunk cls st2 _ [] (lead_sh 0 (dtrailing d) ++ [(ENVELOPE_END, None)] ++ [(NEWLINE, None)]) I2) as (st3 & L3 & I3 & _).
  { rewrite app_nil_r in I2. destruct (lex_suffix cls d (withsp [] st2) Htr I2 (ready_forget st2 R2)) as (st' & L & I' & R').
    exists st'. split; [exact L|split; [exact I'|exact R']]. }
  { rewrite S2. exact I. }
  exists st3. split; [|exact I3]. rewrite docz_sh_parts. eapply lexZ_trans; [exact L1|]. eapply lexZ_trans; [exact L2|exact L3].
Qed.

(* (c) THE LEXER HALF, for every NFC oracle that leaves the ordinary lines and the fence lines alone *)
Theorem lex_emit_corez_nfc (nf : str -> str) sp d :
  corez_doc d = true -> lex_safez_doc cls d = true -> Forall (blk_fixed nf) (doc_blocks d) -> nf [] = [] ->
  exists ts tnl teof,
    tokenize cls false (map (fun l => (l, nf l)) (split_on c_nl (emit sp d))) = LexOk (ts ++ [tnl; teof]) [] /\
    Forall2 tmatch ts (docz_sh ml idnum_digits d) /\ tk tnl = NEWLINE /\ tk teof = EOF.
Proof.
  intros Hc Hs Hfix Hnil. destruct (corez_parts d Hc) as (Hfr & _).
  pose proof (doc_blocks_text cls sp d Hc Hs) as Et.
  destruct (tokenize_blocks cls nf (doc_blocks d) (doc_blocks_ok cls d Hc Hs) Hfix Hnil) as (_ & _ & Htok).
  { rewrite Et. exact (emit_nonblank_head sp d Hfr). }
  rewrite Et in Htok. rewrite Htok.
  set (st0 := mkLS (emit sp d) None 0 1 1 [] [] [] (spans_of (doc_blocks d) 0)).
  destruct (lex_docz sp d Hc Hs st0 eq_refl eq_refl eq_refl) as (st' & (Hst & (tsall & Ht & HF) & Hr & Hb) & Hin).
  rewrite (run_steps_finish cls st0 st' _ Hst Hin) by (cbn [ls_in st0]; lia).
  apply Forall2_app_inv_r in HF. destruct HF as (ts & tl & HF1 & HF2 & ->).
  inversion HF2 as [|tnl ? ? ? [Hnl _] HF3]; subst. inversion HF3; subst. cbn [fst] in Hnl.
  exists ts, tnl, (mkTok EOF TVNone (ls_line st') (ls_col st') None).
  split; [|split; [exact HF1|split; [exact Hnl|reflexivity]]].
  unfold finish. rewrite Hb, Hr, Ht. cbn [ls_brk ls_reps ls_toks st0 rev app].
  rewrite app_nil_r, rev_involutive, <- app_assoc. reflexivity.
Qed.

(* (c) THE LEXER HALF for corez canonical text *)
Theorem lex_emit_corez sp d : corez_doc d = true -> lex_safez_doc cls d = true ->
  exists ts tnl teof,
    tokenize cls false (lines_of (emit sp d)) = LexOk (ts ++ [tnl; teof]) [] /\
    Forall2 tmatch ts (docz_sh ml idnum_digits d) /\ tk tnl = NEWLINE /\ tk teof = EOF.
Proof.
  intros Hc Hs. exact (lex_emit_corez_nfc (fun l => l) sp d Hc Hs (blk_fixed_id _) eq_refl).
Qed.

(* ---- the text-level round trip ---------------------------------------------------------------------------------------------------------------------------------- *)
Lemma emit_first_linez sp d : corez_doc d = true -> lex_safez_doc cls d = true ->
  exists l0 r, split_on c_nl (emit sp d) = l0 :: r /\ prefixb s_dashes l0 = false.
Proof.
  intros Hc Hs. destruct (safez_parts cls d Hs) as (Hname & Hg & _).
  rewrite emit_unlines, (emit_lines_corez cls sp d Hc Hs). unfold prefix_lines, grammar_lines.
  destruct (dgrammar d) as [g|].
  - cbn [app]. rewrite unlines_cons, split_on_app.
    + eexists _, _. split; [reflexivity|reflexivity].
    + pose proof (plain_ver _ Hg) as P. unfold plain in P. apply andb_true_iff in P as [P _]. apply negb_true_iff in P.
      rewrite LexLinkBase.memb_app, P. reflexivity.
  - cbn [app]. rewrite unlines_cons, split_on_app.
    + eexists _, _. split; [reflexivity|reflexivity].
    + unfold name_ok in Hname. apply andb_true_iff in Hname as [Hw _].
      pose proof (plain_key _ (word_ok_chars _ Hw)) as P. unfold plain in P. apply andb_true_iff in P as [P _]. apply negb_true_iff in P.
      rewrite !LexLinkBase.memb_app, P. reflexivity.
Qed.

(* (d) every zone comes back byte for byte, together with all its siblings *)
Theorem text_roundtrip_corez numcanon holo_ok strict sp d :
  corez_doc d = true -> lex_safez_doc cls d = true ->
  TokRoundZ.nums_ok2_l numcanon (u_space cls) idnum_digits (dsections d) -> Forall (TokRoundZ.field_num_ok numcanon) (dmeta d) ->
  exists warns,
    parse_model cls numcanon holo_ok strict (lines_of (emit sp d)) = PRDoc d [] warns /\ Forall advisory warns.
Proof.
  intros Hc Hs Hnum Hmnum.
  destruct (lex_emit_corez sp d Hc Hs) as (ts & tnl & teof & Htok & HF & _ & _).
  destruct (emit_first_linez sp d Hc Hs) as (l0 & r & El & Hl0).
  unfold parse_model.
  rewrite (strip_frontmatter_none (u_space cls) (emit sp d) l0 r El Hl0), Htok.
  destruct (parse_corez_doc numcanon holo_ok strict (u_space cls) (u_alpha cls) ml idnum_digits d Hc Hnum Hmnum
              (mkPS (ts ++ [tnl; teof]) None 0 [] 0 []) ts [tnl; teof]) as (st' & Hp & (l & Hw & Hadv) & _);
    [discriminate|reflexivity|exact HF|reflexivity|].
  rewrite Hp. exists (rev (pwarns st')). split.
  - f_equal. destruct (corez_parts d Hc) as (Hfr & _). destruct d as [name gr fr sep meta secs trl]. cbn [dfront] in Hfr. subst fr. reflexivity.
  - rewrite Hw. cbn [pwarns]. rewrite app_nil_r. apply Forall_rev. exact Hadv.
Qed.

(* the tag condition of the parser half follows from the side condition: every zone tag of a safe document is in normal form *)
Lemma tmatchbz_complete t s : tmatch t s -> tmatchbz t s = true.
Proof.
  intros [Hk Hv]. unfold tmatchbz, tmatchb. destruct s as [k [v|]]; cbn [fst snd] in *; [|rewrite Hk, tkeq_refl; reflexivity].
  rewrite Hv, Hk, tkeq_refl. cbn [andb].
  destruct v; first [apply str_eqb_refl|apply Bool.eqb_reflx|apply N.eqb_refl|reflexivity|idtac].
  rewrite str_eqb_refl. destruct tag; [apply str_eqb_refl|reflexivity].
Qed.
Lemma all2_tmatchbz ts l : Forall2 tmatch ts l -> all2 tmatchbz ts l = true.
Proof. induction 1 as [|t s ts l Ht _ IH]; [reflexivity|]. cbn [all2]. rewrite (tmatchbz_complete _ _ Ht), IH. reflexivity. Qed.

(* (d) the executable check of TokRoundZEx.v answers 1 on the whole domain *)
Theorem shape_check_corez sp d : corez_doc d = true -> lex_safez_doc cls d = true ->
  corez_shape_check cls d (lines_of (emit sp d)) = 1.
Proof.
  intros Hc Hs. destruct (lex_emit_corez sp d Hc Hs) as (ts & tnl & teof & Htok & HF & Hnl & Heof).
  unfold corez_shape_check. rewrite Hc, Htok.
  assert (HF' : Forall2 tmatch (ts ++ [tnl; teof]) (docz_sh needs_multiline ex_idnum d ++ [(NEWLINE, None); (EOF, None)])).
  { apply Forall2_app; [exact HF|]. constructor; [split; [exact Hnl|exact I]|]. constructor; [split; [exact Heof|exact I]|constructor]. }
  rewrite (all2_tmatchbz _ _ HF'). reflexivity.
Qed.
End DocZ.
