(* Lexer half for the core2 fragment (Rt/TokRound2.v), part 1: infrastructure added to Rt/LexLinkBase.v.
     - the pre-passes on a text whose emitted "lines" may contain newlines (multi-line lists): `tok_text`
     - the column is never below 1 along `steps` (needed for the blank before a trailing comment: not an INDENT)
     - emit_pat on bracket tokens (push / pop of the bracket stack) and with the exact new column
     - `strip` on comment text, scan_version on the section sign whatever the oracle says about it *)
From OV Require Import Base.Strs Gen.LexerGen Syn.Escape Lex.Lexer Lex.Progress Rt.LexLinkBase.
From Coq Require Import Lia.
Open Scope N_scope.

(* ---- split on a separator, without assuming separator-free pieces ------------------------------------------------- *)
Lemma split_on_app_gen c a b : split_on c (a ++ c :: b) = split_on c a ++ split_on c b.
Proof.
  induction a as [|x a IH]; cbn [app split_on].
  - rewrite N.eqb_refl. reflexivity.
  - destruct (N.eqb x c); [rewrite IH; reflexivity|]. rewrite IH.
    destruct (split_on c a) as [|h t] eqn:E; [exfalso; exact (split_on_nonempty _ _ E)|]. reflexivity.
Qed.

(* what tokenize's pre-passes need of a text *)
Definition tok_text (t : str) : bool := forallb fence_free (split_on c_nl t) && negb (memb c_tab t).

Lemma tok_text_nl a b : tok_text (a ++ c_nl :: b) = tok_text a && tok_text b.
Proof.
  unfold tok_text. rewrite split_on_app_gen, forallb_app, memb_app. cbn [memb existsb].
  change (existsb (N.eqb c_tab) b) with (memb c_tab b). change (N.eqb c_tab c_nl) with false. cbn [orb].
  destruct (forallb fence_free (split_on c_nl a)), (forallb fence_free (split_on c_nl b)), (memb c_tab a), (memb c_tab b); reflexivity.
Qed.
Lemma tok_text_nil : tok_text [] = true.
Proof. reflexivity. Qed.
Lemma tok_text_line l : memb c_nl l = false -> memb c_tab l = false -> fence_free l = true -> tok_text l = true.
Proof. intros H1 H2 H3. unfold tok_text. rewrite (split_on_no_sep _ _ H1). cbn [forallb]. rewrite H3, H2. reflexivity. Qed.
Lemma tok_text_unlines_cons l ls : tok_text (unlines (l :: ls)) = tok_text l && tok_text (unlines ls).
Proof. rewrite unlines_cons. apply tok_text_nl. Qed.
Lemma tok_text_unlines_app a b : tok_text (unlines (a ++ b)) = tok_text (unlines a) && tok_text (unlines b).
Proof.
  induction a as [|l a IH]; [reflexivity|]. cbn [app]. rewrite !tok_text_unlines_cons, IH, andb_assoc. reflexivity.
Qed.

Lemma count_nl_memb s : memb c_nl s = false -> count_nl s = 0.
Proof.
  induction s as [|c s IH]; [reflexivity|]. cbn [memb existsb count_nl]. intros H. apply orb_false_iff in H as [H1 H2].
  rewrite N.eqb_sym, H1. rewrite (IH H2). reflexivity.
Qed.

(* takeb up to the end of the physical line *)
Lemma takeb_line l r : memb c_nl l = false ->
  takeb (fun x => negb (N.eqb x c_nl)) (l ++ c_nl :: r) = l /\ skipn (length l) (l ++ c_nl :: r) = c_nl :: r.
Proof.
  intros H. split; [|apply skipn_app_len]. apply takeb_app_stop; [apply memb_false_forall; exact H|]. rewrite N.eqb_refl. reflexivity.
Qed.

(* dropb over a concatenation stops on an element of the prefix or on the stopper *)
Lemma dropb_app_hd p a x r : p x = false -> exists z t, dropb p (a ++ x :: r) = z :: t /\ (In z a \/ z = x).
Proof.
  intros Hx. induction a as [|y a IH]; cbn [app dropb].
  - rewrite Hx. exists x, r. split; [reflexivity|right; reflexivity].
  - destruct (p y).
    + destruct IH as (z & t & E & Hz). exists z, t. split; [exact E|]. destruct Hz; [left; right; assumption|right; assumption].
    + exists y, (a ++ x :: r). split; [reflexivity|left; left; reflexivity].
Qed.

Section WithCls.
Variable cls : N -> N.

Lemma tokenize_tok_text lenient t : tok_text t = true -> nonblank_head t = true ->
  tokenize cls lenient (lines_of t) = run cls lenient (S (length t)) (mkLS t None 0 1 1 [] [] [] []).
Proof.
  intros H Hn. unfold tok_text in H. apply andb_true_iff in H as [H1 H2]. apply negb_true_iff in H2.
  apply tokenize_plain; assumption.
Qed.

(* ---- the column never drops below 1 -------------------------------------------------------------------------------- *)
Lemma emit_pat_col st k v m rest norm st' : emit_pat st k v m rest norm = Continue st' -> 1 <= ls_col st -> 1 <= ls_col st'.
Proof.
  unfold emit_pat. destruct (alias_of m);
  (destruct (if tkind_eqb k LIST_START then _ else _); [discriminate|];
   destruct (0 <? count_nl m); intros H Hc; inversion H; subst; cbn [ls_col]; lia).
Qed.

Lemma step_fallback_col st c s' st' : step_fallback cls false st c s' = Continue st' -> 1 <= ls_col st -> 1 <= ls_col st'.
Proof.
  unfold step_fallback.
  destruct (prefixb s_eq3 (c :: s') && invalid_envelope cls (c :: s')); [discriminate|].
  destruct (N.eqb c c_plus). { intros H Hc; inversion H; subst; cbn [adv ls_col]; lia. }
  destruct (scan_identifier cls false (c :: s')) as [[[name rest] curly]|].
  { intros H Hc; inversion H; subst; cbn [adv ls_col]; lia. }
  destruct (N.eqb c 37); [|discriminate].
  destruct (ls_toks st) as [|prev toks']; [discriminate|].
  destruct (match tk prev, tv prev with NUMBER, TVNum raw => Some raw | IDENTIFIER, TVText t => Some t | _, _ => None end)
    as [prev_val|]; [|discriminate].
  destruct (negb (prefixb [c_colon; c_colon] (lstrip cls s')) &&
            match last_chr prev_val with Some l => u_alnum cls l | None => false end); [|discriminate].
  intros H Hc; inversion H; subst; cbn [adv ls_col]; lia.
Qed.

Lemma step_plain_col st c s' st' : step_plain cls false st c s' = Continue st' -> 1 <= ls_col st -> 1 <= ls_col st'.
Proof.
  unfold step_plain. cbv zeta.
  destruct (N.eqb c c_sp).
  { destruct (N.eqb (ls_col st) 1).
    - destruct (match dropb (N.eqb c_sp) (c :: s') with [] => false | d :: _ => negb (N.eqb d c_nl) end);
        intros H Hc; inversion H; subst; cbn [ls_col]; lia.
    - intros H Hc; inversion H; subst; cbn [adv ls_col]; lia. }
  repeat match goal with
  | |- emit_pat _ _ _ _ _ _ = Continue _ -> _ => apply emit_pat_col
  | |- step_fallback _ _ _ _ _ = Continue _ -> _ => apply step_fallback_col
  | |- match ?x with _ => _ end = Continue _ -> _ => destruct x
  | |- (if ?x then _ else _) = Continue _ -> _ => destruct x
  end.
Qed.

Lemma step_col st st' : step cls false st = Continue st' -> 1 <= ls_col st -> 1 <= ls_col st'.
Proof.
  unfold step. destruct (ls_in st) as [|c s']; [discriminate|].
  destruct (ls_spans st) as [|sp spans']; [apply step_plain_col|].
  destruct (N.eqb (ls_pos st) (sp_start sp)); [|apply step_plain_col].
  unfold step_fence. destruct (skipn _ (ls_in st)); intros H _; inversion H; subst; cbn [ls_col]; lia.
Qed.

Lemma steps_col st st' : steps cls st st' -> 1 <= ls_col st -> 1 <= ls_col st'.
Proof. induction 1 as [st|st st1 st2 Hs _ IH]; intros H; [exact H|]. apply IH. exact (step_col _ _ Hs H). Qed.

(* ---- emit_pat with the exact column, and on brackets ------------------------------------------------------------------ *)
Lemma emit_pat_plain2 st k v m rest :
  alias_of m = None -> tkind_eqb k LIST_START = false -> tkind_eqb k LIST_END = false -> count_nl m = 0 ->
  emit_pat st k v m rest None =
  Continue (mkLS rest (last_chr m) (ls_pos st + len m) (ls_line st) (ls_col st + len m)
                 (mkTok k v (ls_line st) (ls_col st) None :: ls_toks st) (ls_reps st) (ls_brk st) (ls_spans st)).
Proof. intros Ha H1 H2 Hn. unfold emit_pat. rewrite Ha, H1, H2, Hn. reflexivity. Qed.

Lemma emit_pat_open st v m rest :
  alias_of m = None -> count_nl m = 0 ->
  emit_pat st LIST_START v m rest None =
  Continue (mkLS rest (last_chr m) (ls_pos st + len m) (ls_line st) (ls_col st + len m)
                 (mkTok LIST_START v (ls_line st) (ls_col st) None :: ls_toks st) (ls_reps st)
                 ((ls_line st, ls_col st) :: ls_brk st) (ls_spans st)).
Proof. intros Ha Hn. unfold emit_pat. rewrite Ha, Hn. reflexivity. Qed.

Lemma emit_pat_close st v m rest p b :
  alias_of m = None -> count_nl m = 0 -> ls_brk st = p :: b ->
  emit_pat st LIST_END v m rest None =
  Continue (mkLS rest (last_chr m) (ls_pos st + len m) (ls_line st) (ls_col st + len m)
                 (mkTok LIST_END v (ls_line st) (ls_col st) None :: ls_toks st) (ls_reps st) b (ls_spans st)).
Proof. intros Ha Hn Hb. unfold emit_pat. rewrite Ha, Hn, Hb. reflexivity. Qed.

(* ---- strip on comment text ---------------------------------------------------------------------------------------------- *)
Definition asp (x : N) : bool := ((9 <=? x) && (x <=? 13)) || ((28 <=? x) && (x <=? 32)).
Definition edge_ok (x : N) : bool := is_ascii x && negb (asp x).
Lemma edge_not_space x : edge_ok x = true -> u_space cls x = false.
Proof.
  unfold edge_ok, u_space, asp. intros H. apply andb_true_iff in H as [H1 H2]. rewrite H1. apply negb_true_iff in H2. exact H2.
Qed.

Definition edges_ok (c : str) : bool := match c with [] => true | x :: r => edge_ok x && edge_ok (last (x :: r) x) end.

Lemma rev_last_hd (x : N) r : exists t, rev (x :: r) = last (x :: r) x :: t.
Proof.
  assert (Hne : x :: r <> []) by discriminate.
  exists (rev (removelast (x :: r))).
  transitivity (rev (removelast (x :: r) ++ [last (x :: r) x])); [f_equal; exact (app_removelast_last x Hne)|].
  rewrite rev_app_distr. reflexivity.
Qed.

Lemma strip_edges c : edges_ok c = true -> strip cls c = c.
Proof.
  destruct c as [|x r]; [reflexivity|]. cbn [edges_ok]. intros H. apply andb_true_iff in H as [H1 H2].
  unfold strip. cbn [dropb]. rewrite (edge_not_space _ H1).
  destruct (rev_last_hd x r) as (t & E). rewrite E. cbn [dropb]. rewrite (edge_not_space _ H2), <- E. apply rev_involutive.
Qed.
Lemma strip_sp_edges c : edges_ok c = true -> strip cls (c_sp :: c) = c.
Proof.
  intros H. destruct c as [|x r]; [reflexivity|].
  transitivity (strip cls (x :: r)); [|apply strip_edges; exact H].
  reflexivity.
Qed.

(* ---- VERSION never starts on the section sign: after any run of "digits" comes no dot ---------------------------------------- *)
Lemma scan_version_no_dot a x r : (forall y, In y a -> y <> c_dot) -> x <> c_dot -> u_digit cls x = false ->
  scan_version cls (a ++ x :: r) = None.
Proof.
  intros Ha Hx Hd.
  assert (H : scan_d_dot_d cls (a ++ x :: r) = None).
  { unfold scan_d_dot_d, digits1. destruct (takeb (u_digit cls) (a ++ x :: r)); [reflexivity|].
    destruct (dropb_app_hd (u_digit cls) a x r Hd) as (z & t & E & Hz). rewrite E.
    rewrite (neqb z c_dot); [reflexivity|]. destruct Hz as [Hz| ->]; [apply Ha; exact Hz|exact Hx]. }
  unfold scan_version, scan_version3, scan_version2pre, scan_version2build. rewrite H. reflexivity.
Qed.

End WithCls.
