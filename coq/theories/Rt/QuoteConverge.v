(* optional quotes around plain words: two spellings of one core3 document that differ in the quoting choice at any
   subset of string sites are read as the same document (corollary of BareWordParse.parse_core3_doc, which holds for
   arbitrary quoting oracles) *)
From OV Require Import Base.Strs Lex.Lexer Syn.Ast Syn.Parser Rt.TokRound Rt.TokRound2 Rt.BareWordParse.
From Coq Require Import List NArith.
Import ListNotations.

Theorem optional_quotes_converge :
  forall numcanon holo_ok strict sp alpha ml idnum
         (qa1 qa2 : str -> str -> strk) (qi1 qi2 : str -> strk),
    (forall k s, qa1 k s = QIdent -> has_annotation s = false) -> (forall s, qi1 s = QIdent -> has_annotation s = false) ->
    (forall k s, qa2 k s = QIdent -> has_annotation s = false) -> (forall s, qi2 s = QIdent -> has_annotation s = false) ->
    forall d, core3_doc d = true -> nums_ok2_l numcanon idnum (dsections d) -> Forall (field_num_ok numcanon) (dmeta d) ->
    forall st1 ts1 tail1 st2 ts2 tail2,
      tail1 <> [] -> pbdepth st1 = 0%N -> Forall2 tmatch ts1 (doc3_sh ml idnum qa1 qi1 d) -> ptoks st1 = ts1 ++ tail1 ->
      tail2 <> [] -> pbdepth st2 = 0%N -> Forall2 tmatch ts2 (doc3_sh ml idnum qa2 qi2 d) -> ptoks st2 = ts2 ++ tail2 ->
      exists st1' st2',
        parse_document numcanon holo_ok strict sp alpha st1 = POk d st1' /\
        parse_document numcanon holo_ok strict sp alpha st2 = POk d st2'.
Proof.
  intros numcanon holo_ok strict sp alpha ml idnum qa1 qa2 qi1 qi2 Ha1 Hi1 Ha2 Hi2 d Hc Hn Hm
         st1 ts1 tail1 st2 ts2 tail2 Ht1 Hd1 Hs1 Hp1 Ht2 Hd2 Hs2 Hp2.
  destruct (parse_core3_doc numcanon holo_ok strict sp alpha ml idnum qa1 qi1 Ha1 Hi1 d Hc Hn Hm st1 ts1 tail1 Ht1 Hd1 Hs1 Hp1)
    as (st1' & H1 & _).
  destruct (parse_core3_doc numcanon holo_ok strict sp alpha ml idnum qa2 qi2 Ha2 Hi2 d Hc Hn Hm st2 ts2 tail2 Ht2 Hd2 Hs2 Hp2)
    as (st2' & H2 & _).
  exists st1', st2'. split; assumption.
Qed.
