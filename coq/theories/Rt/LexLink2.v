(* Lexer half of the round trip for core2 documents (Rt/TokRound2.v), and the text-level round-trip theorem.

     lex_emit_core2        for every core2 document d with lex_safe2_doc d, the model lexer reads `emit sp d` as a token list of
                           shape  doc2_sh needs_multiline ex_idnum d  followed by NEWLINE, EOF, with no repair
                           (comments, inline and multi-line lists of scalars, section markers, META block; every depth and
                           every list length, by induction)
     text_roundtrip_core2  composed with TokRound2.parse_core2_doc: the full model reads `emit sp d` back as d. *)
From OV Require Import Base.Strs Gen.LexerGen Syn.Escape Syn.Quote Syn.Ast Syn.Emitter Syn.Parser
     Lex.Lexer Lex.Progress Rt.TokRound Rt.TokRoundEx Rt.TokRound2 Rt.TokRound2Ex
     Rt.LexLinkBase Rt.LexLinkSteps Rt.LexLink Rt.LexLink2Base Rt.LexLink2Steps Rt.LexLink2Text.
From Coq Require Import Lia.
Open Scope N_scope.

Notation ml := needs_multiline.
Notation idnum_digits := ex_idnum.

Section Link2.
Variable cls : N -> N.
Notation wbb := (word_boundary_before cls).

(* ---- reachability without the bracket-stack clause ------------------------------------------------------------------------ *)
Definition lextoB (st : lstate) (shs : list sh) (st' : lstate) : Prop :=
  steps cls st st' /\ (exists ts, ls_toks st' = rev ts ++ ls_toks st /\ Forall2 tmatch ts shs) /\
  ls_reps st' = ls_reps st /\ ls_spans st' = ls_spans st.

Lemma lextoB_refl st : lextoB st [] st.
Proof. split; [apply steps_refl|]. split; [exists []; split; [reflexivity|constructor]|]. split; reflexivity. Qed.
Lemma lextoB_trans a b c s1 s2 : lextoB a s1 b -> lextoB b s2 c -> lextoB a (s1 ++ s2) c.
Proof.
  intros (S1 & (t1 & T1 & F1) & R1 & P1) (S2 & (t2 & T2 & F2) & R2 & P2).
  split; [eapply steps_trans; eassumption|]. split.
  - exists (t1 ++ t2). split; [rewrite T2, T1, rev_app_distr, app_assoc; reflexivity|apply Forall2_app; assumption].
  - split; congruence.
Qed.
Lemma lexto_B st s st' : lexto cls st s st' -> lextoB st s st'.
Proof. intros (H1 & H2 & H3 & _ & H5). split; [exact H1|]. split; [exact H2|]. split; assumption. Qed.
Lemma lextoB_lexto st s st' : lextoB st s st' -> ls_brk st' = ls_brk st -> lexto cls st s st'.
Proof. intros (H1 & H2 & H3 & H5) Hb. split; [exact H1|]. split; [exact H2|]. repeat split; assumption. Qed.

Lemma lextoB_gstep st st' k v rest prev brk' s :
  gstep cls st st' k v rest prev brk' -> fst s = k -> (snd s = None \/ snd s = Some v) -> lextoB st [s] st'.
Proof.
  intros (Hs & _ & _ & _ & (l & c & n & Ht) & Hr & _ & Hp & _) Hk Hv.
  split; [apply steps_one; exact Hs|]. split; [|split; assumption].
  exists [mkTok k v l c n]. split; [rewrite Ht; reflexivity|].
  constructor; [|constructor]. split; [cbn [tk]; congruence|]. destruct Hv as [->| ->]; [exact I|reflexivity].
Qed.
Lemma lexto_gstep st st' k v rest prev s :
  gstep cls st st' k v rest prev (ls_brk st) -> fst s = k -> (snd s = None \/ snd s = Some v) -> lexto cls st [s] st'.
Proof. intros H Hk Hv. apply lextoB_lexto; [exact (lextoB_gstep _ _ _ _ _ _ _ _ H Hk Hv)|apply H]. Qed.

Lemma gstep_in st st' k v rest prev b : gstep cls st st' k v rest prev b -> ls_in st' = rest.
Proof. intros H; apply H. Qed.
Lemma gstep_prev st st' k v rest prev b : gstep cls st st' k v rest prev b -> ls_prev st' = prev.
Proof. intros H; apply H. Qed.
Lemma gstep_pos st st' k v rest prev b : gstep cls st st' k v rest prev b -> ls_pos st' <> 0.
Proof. intros H; apply H. Qed.
Lemma gstep_brk st st' k v rest prev b : gstep cls st st' k v rest prev b -> ls_brk st' = b.
Proof. intros H; apply H. Qed.
Lemma gstep_spans st st' k v rest prev b : gstep cls st st' k v rest prev b -> ls_spans st' = ls_spans st.
Proof. intros H; apply H. Qed.
Lemma gstep_col st st' k v rest prev b : gstep cls st st' k v rest prev b -> ls_col st < ls_col st'.
Proof. intros H; apply H. Qed.

Lemma lextoB_steps st s st' : lextoB st s st' -> steps cls st st'.
Proof. intros H; apply H. Qed.
Lemma lextoB_spans st s st' : lextoB st s st' -> ls_spans st' = ls_spans st.
Proof. intros H; apply H. Qed.
Lemma lexto_steps st s st' : lexto cls st s st' -> steps cls st st'.
Proof. intros H; apply H. Qed.
Lemma lexto_brk st s st' : lexto cls st s st' -> ls_brk st' = ls_brk st.
Proof. intros H; apply H. Qed.
Lemma lexto_col st s st' : lexto cls st s st' -> 1 <= ls_col st -> 1 <= ls_col st'.
Proof. intros H. exact (steps_col cls _ _ (proj1 H)). Qed.
Lemma lextoB_col st s st' : lextoB st s st' -> 1 <= ls_col st -> 1 <= ls_col st'.
Proof. intros H. exact (steps_col cls _ _ (proj1 H)). Qed.

Lemma wbb_of p : u_word cls p = false -> wbb (Some p) = true.
Proof. intros H. unfold word_boundary_before. rewrite H. reflexivity. Qed.

(* ---- gaps ---------------------------------------------------------------------------------------------------------------------- *)
Lemma lex_gap g st x r : ls_in st = gap_text g ++ x :: r -> x <> c_sp -> x <> c_nl -> ls_spans st = [] -> ls_pos st <> 0 ->
  exists st', lexto cls st (gap_sh g) st' /\ ls_in st' = x :: r /\ ls_pos st' <> 0 /\
              ((g = GNone -> wbb (ls_prev st) = true) -> wbb (ls_prev st') = true).
Proof.
  intros Hin H1 H2 Hsp Hp. destruct g as [|D].
  - exists st. split; [apply lexto_refl|]. split; [exact Hin|]. split; [exact Hp|]. intros H; apply H; reflexivity.
  - cbn [gap_text app] in Hin. destruct (T_nl cls st _ Hin Hsp) as (st1 & T1 & C1).
    assert (S1 : ls_spans st1 = []) by (rewrite (tstep_spans _ _ _ _ _ _ _ T1); exact Hsp).
    assert (L1 : lexto cls st nl_sh st1) by (eapply lexto_tstep; [exact T1|reflexivity|left; reflexivity]).
    destruct D as [|D'].
    + exists st1. split; [cbn [gap_sh indent_sh]; rewrite app_nil_r; exact L1|].
      split; [exact (tstep_in _ _ _ _ _ _ _ T1)|]. split; [exact (tstep_pos _ _ _ _ _ _ _ T1)|].
      intros _. rewrite (tstep_prev _ _ _ _ _ _ _ T1). apply wbb_of, u_word_false; chr.
    + pose proof (tstep_in _ _ _ _ _ _ _ T1) as I1.
      assert (E : ind (S D') = repeat c_sp (S (2 * D' + 1))) by (unfold ind; f_equal; lia).
      rewrite E in I1. destruct (T_indent cls st1 _ x r I1 H1 H2 C1 S1) as (st2 & T2).
      exists st2. split; [|split; [exact (tstep_in _ _ _ _ _ _ _ T2)|split; [exact (tstep_pos _ _ _ _ _ _ _ T2)|]]].
      * cbn [gap_sh]. eapply lexto_trans; [exact L1|].
        eapply lexto_tstep; [exact T2|reflexivity|right]. cbn [indent_sh snd]. unfold ind_count. do 3 f_equal. lia.
      * intros _. rewrite (tstep_prev _ _ _ _ _ _ _ T2). apply wbb_of, u_word_false; chr.
Qed.

Lemma gap_hd g x r : vterm x -> exists z t, gap_text g ++ x :: r = z :: t /\ vterm z.
Proof.
  intros Hx. destruct g; cbn [gap_text app]; eexists _, _; (split; [reflexivity|]); [exact Hx|left; reflexivity].
Qed.

(* ---- one scalar ------------------------------------------------------------------------------------------------------------------ *)
Lemma lex_item v sv st z r : scalar_ok v = true -> sval_of v = Some sv -> ls_in st = sval_text sv ++ z :: r -> vterm z ->
  wbb (ls_prev st) = true -> ls_spans st = [] ->
  exists st', lexto cls st [sval_sh sv] st' /\ ls_in st' = z :: r /\ ls_col st < ls_col st' /\ ls_pos st' <> 0.
Proof.
  intros Hs E Hin Hz Hp Hsp.
  assert (K : forall st' k tv_ prev, gstep cls st st' k tv_ (z :: r) prev (ls_brk st) -> fst (sval_sh sv) = k ->
              (snd (sval_sh sv) = None \/ snd (sval_sh sv) = Some tv_) ->
              exists st', lexto cls st [sval_sh sv] st' /\ ls_in st' = z :: r /\ ls_col st < ls_col st' /\ ls_pos st' <> 0).
  { intros st' k tv_ prev G Hk Hv. exists st'. split; [exact (lexto_gstep _ _ _ _ _ _ _ G Hk Hv)|].
    split; [exact (gstep_in _ _ _ _ _ _ _ G)|]. split; [exact (gstep_col _ _ _ _ _ _ _ G)|exact (gstep_pos _ _ _ _ _ _ _ G)]. }
  destruct v; cbn [sval_of] in E; inversion E; subst; cbn [sval_text sval_sh] in *.
  - destruct (G_null cls st z r Hin Hp Hz Hsp) as (st' & G). exact (K _ _ _ _ G eq_refl (or_introl eq_refl)).
  - destruct b.
    + destruct (G_true cls st z r Hin Hp Hz Hsp) as (st' & G). exact (K _ _ _ _ G eq_refl (or_intror eq_refl)).
    + destruct (G_false cls st z r Hin Hp Hz Hsp) as (st' & G). exact (K _ _ _ _ G eq_refl (or_intror eq_refl)).
  - cbn [scalar_ok] in Hs. destruct (G_num cls st canon z r Hs Hz Hin Hsp) as (st' & G). exact (K _ _ _ _ G eq_refl (or_intror eq_refl)).
  - destruct (G_str cls st s z r Hin) as (st' & G); [unfold vterm in Hz; chr|exact Hsp|]. exact (K _ _ _ _ G eq_refl (or_intror eq_refl)).
Qed.

Lemma num_ok_hd c : num_ok c = true -> exists x t, c = x :: t /\ (48 <= x <= 57 \/ x = 45).
Proof.
  unfold num_ok. destruct c as [|c0 cr]; [discriminate|]. destruct (N.eqb_spec c0 c_dash) as [->|_]; intros H.
  - eexists _, _. split; [reflexivity|right; reflexivity].
  - destruct (num_body_shape _ H) as (d & fr & ex & E & Hd & _). destruct (digs_hd _ Hd) as (d0 & d' & -> & Hd0).
    cbn [app] in E. inversion E; subst. eexists _, _. split; [reflexivity|left; exact Hd0].
Qed.

Lemma sval_text_hd v sv : scalar_ok v = true -> sval_of v = Some sv ->
  exists x t, sval_text sv = x :: t /\ x <> c_sp /\ x <> c_nl /\ x <> c_bt.
Proof.
  intros Hs E. destruct v; cbn [sval_of] in E; inversion E; subst; cbn [sval_text].
  - eexists _, _. split; [reflexivity|]. repeat split; discriminate.
  - destruct b; eexists _, _; (split; [reflexivity|]); repeat split; discriminate.
  - cbn [scalar_ok] in Hs. destruct (num_ok_hd _ Hs) as (x & t & -> & Hx). exists x, t. split; [reflexivity|]. repeat split; chr.
  - eexists _, _. split; [reflexivity|]. repeat split; discriminate.
Qed.

Lemma is_scalar_sval v : is_scalar v = true -> exists sv, sval_of v = Some sv.
Proof. unfold is_scalar. destruct (sval_of v) as [sv|]; [eexists; reflexivity|discriminate]. Qed.

(* ---- the body of a bracket group ---------------------------------------------------------------------------------------------------- *)
Lemma lex_body pre2 post : forall items pre st rest p b,
  items <> [] -> forallb scalar_ok items = true -> forallb is_scalar items = true ->
  ls_in st = body_text pre2 post pre (map sc_text items) ++ rest ->
  ls_brk st = p :: b -> ls_spans st = [] -> ls_pos st <> 0 -> wbb (ls_prev st) = true -> 1 <= ls_col st ->
  exists st', lextoB st (body_sh (gap_sh pre2) (gap_sh post) (gap_sh pre) items) st' /\ ls_in st' = rest /\ ls_brk st' = b /\
              ls_spans st' = [] /\ ls_pos st' <> 0 /\ 1 < ls_col st'.
Proof.
  induction items as [|x xs IH]; [congruence|]. intros pre st rest p b _ Hok Hsc Hin Hb Hsp Hp Hw Hcol.
  cbn [forallb] in Hok, Hsc. apply andb_true_iff in Hok as [Hx Hxs]. apply andb_true_iff in Hsc as [Sx Sxs].
  destruct (is_scalar_sval _ Sx) as (sv & E).
  assert (Et : sc_text x = sval_text sv) by (unfold sc_text; rewrite E; reflexivity).
  destruct (sval_text_hd x sv Hx E) as (x0 & t0 & Ex0 & Hx0a & Hx0b & _).
  cbn [map body_text body_sh] in Hin |- *. rewrite Et in Hin. rewrite (vsh_sval _ _ E).
  rewrite <- !app_assoc in Hin.
  (* the gap before the item *)
  pose proof Hin as Hin0. rewrite Ex0 in Hin0. cbn [app] in Hin0.
  destruct (lex_gap pre st x0 _ Hin0 Hx0a Hx0b Hsp Hp) as (st1 & L1 & I1 & P1 & W1).
  specialize (W1 (fun _ => Hw)).
  assert (S1 : ls_spans st1 = []) by (rewrite (lexto_spans _ _ _ _ L1); exact Hsp).
  assert (B1 : ls_brk st1 = p :: b) by (rewrite (lexto_brk _ _ _ L1); exact Hb).
  change (x0 :: t0 ++ ?z) with ((x0 :: t0) ++ z) in I1. rewrite <- Ex0 in I1.
  destruct xs as [|y ys].
  - (* last item *)
    cbn [map] in I1. rewrite <- app_assoc in I1. cbn [s_rb app] in I1.
    destruct (gap_hd post c_rbr rest) as (z & t & Ez & Hz); [right; right; left; reflexivity|].
    rewrite Ez in I1.
    destruct (lex_item x sv st1 z t Hx E I1 Hz W1 S1) as (st2 & L2 & I2 & _ & P2).
    assert (S2 : ls_spans st2 = []) by (rewrite (lexto_spans _ _ _ _ L2); exact S1).
    assert (B2 : ls_brk st2 = p :: b) by (rewrite (lexto_brk _ _ _ L2); exact B1).
    rewrite <- Ez in I2.
    destruct (lex_gap post st2 c_rbr rest I2) as (st3 & L3 & I3 & P3 & _); [chr|chr|exact S2|exact P2|].
    assert (S3 : ls_spans st3 = []) by (rewrite (lexto_spans _ _ _ _ L3); exact S2).
    assert (B3 : ls_brk st3 = p :: b) by (rewrite (lexto_brk _ _ _ L3); exact B2).
    destruct (G_rbr cls st3 rest p b I3 S3 B3) as (st4 & G4).
    exists st4. split; [|split; [exact (gstep_in _ _ _ _ _ _ _ G4)|split; [exact (gstep_brk _ _ _ _ _ _ _ G4)|]]].
    + eapply lextoB_trans; [exact (lexto_B _ _ _ L1)|]. eapply lextoB_trans; [exact (lexto_B _ _ _ L2)|].
      eapply lextoB_trans; [exact (lexto_B _ _ _ L3)|]. eapply lextoB_gstep; [exact G4|reflexivity|left; reflexivity].
    + split; [rewrite (gstep_spans _ _ _ _ _ _ _ G4); exact S3|]. split; [exact (gstep_pos _ _ _ _ _ _ _ G4)|].
      pose proof (gstep_col _ _ _ _ _ _ _ G4). pose proof (lexto_col _ _ _ L1 Hcol) as C1.
      pose proof (lexto_col _ _ _ L2 C1) as C2. pose proof (lexto_col _ _ _ L3 C2). lia.
  - (* an item followed by a comma *)
    cbn [map] in I1. cbn [app] in I1.
    destruct (lex_item x sv st1 c_comma _ Hx E I1) as (st2 & L2 & I2 & _ & P2); [right; left; reflexivity|exact W1|exact S1|].
    assert (S2 : ls_spans st2 = []) by (rewrite (lexto_spans _ _ _ _ L2); exact S1).
    assert (B2 : ls_brk st2 = p :: b) by (rewrite (lexto_brk _ _ _ L2); exact B1).
    destruct (G_comma cls st2 _ I2 S2) as (st3 & G3).
    assert (S3 : ls_spans st3 = []) by (rewrite (gstep_spans _ _ _ _ _ _ _ G3); exact S2).
    assert (B3 : ls_brk st3 = p :: b) by (rewrite (gstep_brk _ _ _ _ _ _ _ G3); exact B2).
    assert (W3 : wbb (ls_prev st3) = true) by (rewrite (gstep_prev _ _ _ _ _ _ _ G3); apply wbb_of, u_word_false; lia).
    assert (C3 : 1 <= ls_col st3).
    { pose proof (gstep_col _ _ _ _ _ _ _ G3). pose proof (lexto_col _ _ _ L1 Hcol) as C1. pose proof (lexto_col _ _ _ L2 C1). lia. }
    destruct (IH pre2 st3 rest p b ltac:(discriminate) Hxs Sxs (gstep_in _ _ _ _ _ _ _ G3) B3 S3 (gstep_pos _ _ _ _ _ _ _ G3) W3 C3)
      as (st4 & L4 & I4 & B4 & S4 & P4 & C4).
    exists st4. split; [|repeat split; assumption].
    eapply lextoB_trans; [exact (lexto_B _ _ _ L1)|]. eapply lextoB_trans; [exact (lexto_B _ _ _ L2)|].
    change ((COMMA, None) :: ?l) with ([(COMMA, @None tvalue)] ++ l).
    eapply lextoB_trans; [|exact L4]. eapply lextoB_gstep; [exact G3|reflexivity|left; reflexivity].
Qed.

(* ---- a value: scalar, empty list, inline list, multi-line list ------------------------------------------------------------------------- *)
Lemma lex_val D v st z r : cval v = true -> val_ok v = true -> ls_in st = val_text D v ++ z :: r -> vterm z ->
  ls_prev st = Some c_colon -> ls_spans st = [] -> ls_pos st <> 0 -> 1 <= ls_col st ->
  exists st', lexto cls st (val_sh ml D v) st' /\ ls_in st' = z :: r /\ 1 < ls_col st' /\ ls_pos st' <> 0.
Proof.
  intros Hc Hok Hin Hz Hp Hsp Hpos Hcol.
  assert (Hw : wbb (ls_prev st) = true) by (rewrite Hp; apply wbb_of, u_word_false; chr).
  assert (Hscalar : forall sv, sval_of v = Some sv -> scalar_ok v = true -> val_text D v = sval_text sv -> val_sh ml D v = [sval_sh sv] ->
            exists st', lexto cls st (val_sh ml D v) st' /\ ls_in st' = z :: r /\ 1 < ls_col st' /\ ls_pos st' <> 0).
  { intros sv E Hs Et Esh. rewrite Et in Hin. rewrite Esh.
    destruct (lex_item v sv st z r Hs E Hin Hz Hw Hsp) as (st' & L & I & C & P).
    exists st'. split; [exact L|]. split; [exact I|]. split; [lia|exact P]. }
  destruct v; cbn [cval is_scalar sval_of] in Hc; try discriminate Hc.
  - apply (Hscalar SNull); reflexivity || exact Hok.
  - apply (Hscalar (SBool b)); reflexivity || exact Hok.
  - apply (Hscalar (SNum isfloat canon)); reflexivity || exact Hok.
  - apply (Hscalar (SStr s)); reflexivity || exact Hok.
  - clear Hscalar. cbn [val_ok] in Hok. destruct items as [|x xs].
    + (* [] *)
      cbn [val_text val_sh] in *. unfold s_empty_list in Hin. cbn [app] in Hin.
      destruct (G_lbr cls st _ Hin Hsp) as (st1 & p & G1).
      assert (S1 : ls_spans st1 = []) by (rewrite (gstep_spans _ _ _ _ _ _ _ G1); exact Hsp).
      destruct (G_rbr cls st1 _ p (ls_brk st) (gstep_in _ _ _ _ _ _ _ G1) S1 (gstep_brk _ _ _ _ _ _ _ G1)) as (st2 & G2).
      exists st2. split; [|split; [exact (gstep_in _ _ _ _ _ _ _ G2)|split; [|exact (gstep_pos _ _ _ _ _ _ _ G2)]]].
      * apply lextoB_lexto; [|exact (gstep_brk _ _ _ _ _ _ _ G2)].
        change [(LIST_START, None); (LIST_END, None)] with ([(LIST_START, @None tvalue)] ++ [(LIST_END, @None tvalue)]).
        eapply lextoB_trans; eapply lextoB_gstep; try eassumption; try reflexivity; left; reflexivity.
      * pose proof (gstep_col _ _ _ _ _ _ _ G1). pose proof (gstep_col _ _ _ _ _ _ _ G2). lia.
    + (* non-empty *)
      set (items := x :: xs) in *.
      assert (Hbody : forall g2 gp g1,
                ls_in st = c_lbr :: body_text g2 gp g1 (map sc_text items) ++ z :: r ->
                exists st', lexto cls st ((LIST_START, None) :: body_sh (gap_sh g2) (gap_sh gp) (gap_sh g1) items) st' /\
                            ls_in st' = z :: r /\ 1 < ls_col st' /\ ls_pos st' <> 0).
      { intros g2 gp g1 Hin'.
        destruct (G_lbr cls st _ Hin' Hsp) as (st1 & p & G1).
        assert (S1 : ls_spans st1 = []) by (rewrite (gstep_spans _ _ _ _ _ _ _ G1); exact Hsp).
        assert (W1 : wbb (ls_prev st1) = true) by (rewrite (gstep_prev _ _ _ _ _ _ _ G1); apply wbb_of, u_word_false; lia).
        assert (C1 : 1 <= ls_col st1) by (pose proof (gstep_col _ _ _ _ _ _ _ G1); lia).
        destruct (lex_body g2 gp items g1 st1 (z :: r) p (ls_brk st)) as (st2 & L2 & I2 & B2 & S2 & P2 & C2);
          [discriminate|exact Hok|exact Hc|exact (gstep_in _ _ _ _ _ _ _ G1)|exact (gstep_brk _ _ _ _ _ _ _ G1)|exact S1
          |exact (gstep_pos _ _ _ _ _ _ _ G1)|exact W1|exact C1|].
        exists st2. split; [|split; [exact I2|split; [exact C2|exact P2]]].
        apply lextoB_lexto; [|exact B2].
        change ((LIST_START, None) :: ?l) with ([(LIST_START, @None tvalue)] ++ l).
        eapply lextoB_trans; [|exact L2]. eapply lextoB_gstep; [exact G1|reflexivity|left; reflexivity]. }
      cbn [val_text val_sh] in Hin |- *. fold items in Hin |- *.
      destruct (ml items); cbn [app] in Hin.
      * exact (Hbody (GNl (S D)) (GNl D) (GNl (S D)) Hin).
      * exact (Hbody GNone GNone GNone Hin).
Qed.

(* ---- comments -------------------------------------------------------------------------------------------------------------------------- *)
Lemma trail_hd t r : exists z u, emit_trailing t ++ c_nl :: r = z :: u /\ vterm z.
Proof.
  destruct t as [[|x c]|]; cbn [emit_trailing app]; eexists _, _; (split; [reflexivity|]);
    [left; reflexivity|right; right; right; left; reflexivity|left; reflexivity].
Qed.

Lemma lex_trail t st r : opt_ne t = true -> trail_ok t = true -> ls_in st = emit_trailing t ++ c_nl :: r ->
  1 < ls_col st -> ls_spans st = [] -> ls_pos st <> 0 ->
  exists st', lexto cls st (trail_sh t) st' /\ ls_in st' = c_nl :: r.
Proof.
  intros Hne Hok Hin Hcol Hsp Hp. destruct t as [c|]; [|exists st; split; [apply lexto_refl|exact Hin]].
  destruct c as [|x c']; [discriminate Hne|]. cbn [trail_ok] in Hok. cbn [emit_trailing app] in Hin.
  destruct (G_skip_sp cls st _ Hin) as (st1 & Hs1 & I1 & T1 & R1 & B1 & S1 & P1); [lia|exact Hsp|exact Hp|].
  assert (L1 : lexto cls st [] st1).
  { split; [apply steps_one; exact Hs1|]. split; [exists []; split; [exact T1|constructor]|]. repeat split; assumption. }
  change (s_comment_pre ++ x :: c' ++ c_nl :: r) with (comment_line (x :: c') ++ c_nl :: r) in I1.
  destruct (G_comment cls st1 (x :: c') r Hok I1) as (st2 & G2); [rewrite S1; exact Hsp|].
  exists st2. split; [|exact (gstep_in _ _ _ _ _ _ _ G2)].
  change (trail_sh (Some (x :: c'))) with ([] ++ [(COMMENT, Some (TVText (x :: c')))]).
  eapply lexto_trans; [exact L1|]. eapply lexto_gstep; [exact G2|reflexivity|right; reflexivity].
Qed.

Lemma lex_lead D cs : forall st rest, forallb comment_ok cs = true ->
  ls_in st = unlines (emit_leading cs D) ++ rest -> ready st ->
  exists st', lexto cls st (lead_sh D cs) st' /\ ls_in st' = rest /\ ready st'.
Proof.
  induction cs as [|c cs IH]; intros st rest Hok Hin Hr.
  - exists st. split; [apply lexto_refl|split; [exact Hin|exact Hr]].
  - cbn [forallb] in Hok. apply andb_true_iff in Hok as [Hc Hcs].
    cbn [emit_leading map] in Hin. rewrite unlines_cons, <- !app_assoc in Hin. cbn [app] in Hin.
    destruct (comment_line_hd c) as (t & Et).
    pose proof Hin as Hin0. rewrite Et in Hin0. cbn [app] in Hin0.
    destruct (lex_indent cls D st c_slash _ Hin0) as (st1 & L1 & I1 & P1); [chr|chr|exact Hr|].
    destruct Hr as (_ & _ & Hsp).
    assert (S1 : ls_spans st1 = []) by (rewrite (lexto_spans _ _ _ _ L1); exact Hsp).
    change (c_slash :: c_slash :: t ++ ?z) with ((c_slash :: c_slash :: t) ++ z) in I1. rewrite <- Et in I1.
    destruct (G_comment cls st1 c _ Hc I1 S1) as (st2 & G2).
    assert (S2 : ls_spans st2 = []) by (rewrite (gstep_spans _ _ _ _ _ _ _ G2); exact S1).
    destruct (lex_newline cls st2 _ (gstep_in _ _ _ _ _ _ _ G2) S2) as (st3 & L3 & I3 & R3).
    destruct (IH st3 rest Hcs I3 R3) as (st4 & L4 & I4 & R4).
    exists st4. split; [|split; assumption].
    rewrite lead_sh_cons. eapply lexto_trans; [exact L1|].
    change ([(COMMENT, Some (TVText c)); (NEWLINE, None)] ++ ?l) with ([(COMMENT, Some (TVText c))] ++ [(NEWLINE, @None tvalue)] ++ l).
    eapply lexto_trans; [eapply lexto_gstep; [exact G2|reflexivity|right; reflexivity]|].
    eapply lexto_trans; [exact L3|exact L4].
Qed.

(* ---- KEY::value [// comment] NEWLINE ---------------------------------------------------------------------------------------------------- *)
Lemma ready_col st : ready st -> 1 <= ls_col st.
Proof. intros (H & _). lia. Qed.

Lemma lex_kv_line D k v t st rest :
  key_ok k = true -> cval v = true -> val_ok v = true -> opt_ne t = true -> trail_ok t = true ->
  ls_in st = (ind D ++ k ++ s_assign ++ val_text D v ++ emit_trailing t) ++ c_nl :: rest -> ready st ->
  exists st', lexto cls st (indent_sh D ++ [(IDENTIFIER, Some (TVText k)); (ASSIGN, None)] ++ val_sh ml D v ++ trail_sh t ++ [(NEWLINE, None)]) st' /\
              ls_in st' = rest /\ ready st'.
Proof.
  intros Hk Hc Hv Hne Ht Hin Hr. rewrite <- !app_assoc in Hin.
  change (s_assign ++ ?x) with (c_colon :: c_colon :: x) in Hin.
  destruct (lex_indent_key cls D k _ st Hk Hin Hr) as (st2 & L2 & I2 & S2).
  destruct (T_assign cls st2 _ I2 S2) as (st3 & T3).
  assert (L3 : lexto cls st2 [(ASSIGN, None)] st3) by (eapply lexto_tstep; [exact T3|reflexivity|left; reflexivity]).
  assert (S3 : ls_spans st3 = []) by (rewrite (tstep_spans _ _ _ _ _ _ _ T3); exact S2).
  assert (C3 : 1 <= ls_col st3) by (apply (lexto_col _ _ _ L3), (lexto_col _ _ _ L2), ready_col; exact Hr).
  destruct (trail_hd t rest) as (z & u & Ez & Hz).
  pose proof (tstep_in _ _ _ _ _ _ _ T3) as I3. rewrite Ez in I3.
  destruct (lex_val D v st3 z u Hc Hv I3 Hz (tstep_prev _ _ _ _ _ _ _ T3) S3 (tstep_pos _ _ _ _ _ _ _ T3) C3) as (st4 & L4 & I4 & C4 & P4).
  assert (S4 : ls_spans st4 = []) by (rewrite (lexto_spans _ _ _ _ L4); exact S3).
  rewrite <- Ez in I4.
  destruct (lex_trail t st4 rest Hne Ht I4 C4 S4 P4) as (st5 & L5 & I5).
  assert (S5 : ls_spans st5 = []) by (rewrite (lexto_spans _ _ _ _ L5); exact S4).
  destruct (lex_newline cls st5 rest I5 S5) as (st6 & L6 & I6 & R6).
  exists st6. split; [|split; assumption].
  change ([(IDENTIFIER, Some (TVText k)); (ASSIGN, None)] ++ ?l) with ([(IDENTIFIER, Some (TVText k))] ++ [(ASSIGN, @None tvalue)] ++ l).
  rewrite app_assoc. eapply lexto_trans; [exact L2|]. eapply lexto_trans; [exact L3|].
  eapply lexto_trans; [exact L4|]. eapply lexto_trans; [exact L5|exact L6].
Qed.

(* ---- section header:  [indent] SECTION id :: KEY [ [annot] ] NEWLINE -------------------------------------------------------------------- *)
Lemma digs_num_ok i : digs i = true -> num_ok i = true.
Proof.
  intros H. destruct (digs_hd _ H) as (d0 & d' & -> & Hd0). unfold num_ok. rewrite (neqb d0 c_dash) by chr.
  pose proof (digs_spec _ H) as [_ Hf]. unfold num_body_ok. rewrite (takeb_all _ _ Hf), (dropb_all _ _ Hf), H. reflexivity.
Qed.
Lemma digs_idnum i : digs i = true -> idnum_digits i = true.
Proof. destruct i; [discriminate|]. intros H. exact H. Qed.
Lemma key_ok_idnum i : key_ok i = true -> idnum_digits i = false.
Proof.
  intros H. destruct (key_ok_hd _ H) as (c & k' & -> & Hc). apply key_start_range in Hc.
  unfold ex_idnum. cbn [is_nil negb forallb andb]. rewrite is_digit_false by lia. reflexivity.
Qed.
Lemma sid_chars i : sid_ok i = true -> forall y, In y i -> y <> c_dot.
Proof.
  unfold sid_ok. intros H y Hy. apply orb_true_iff in H as [H|H].
  - apply digs_spec in H as [_ H]. rewrite forallb_forall in H. specialize (H y Hy). apply is_digit_range in H. chr.
  - unfold key_ok in H. apply andb_true_iff in H as [H _]. apply andb_true_iff in H as [H _]. apply andb_true_iff in H as [H _].
    apply word_ok_chars in H. rewrite forallb_forall in H. specialize (H y Hy). apply key_char_range in H. chr.
Qed.

Lemma lex_section_header D i k a st rest :
  sid_ok i = true -> key_ok k = true -> annot_ok a = true -> opt_ne a = true ->
  ls_in st = (ind D ++ [167] ++ i ++ s_assign ++ k ++ annot_text a) ++ c_nl :: rest -> ready st ->
  exists st', lexto cls st (indent_sh D ++ [(SECTION, None); id_sh idnum_digits i; (ASSIGN, None); (IDENTIFIER, Some (TVText k))] ++
                            annot_sh a ++ [(NEWLINE, None)]) st' /\ ls_in st' = rest /\ ready st'.
Proof.
  intros Hi Hk Ha Hne Hin Hr. rewrite <- !app_assoc in Hin. cbn [app] in Hin.
  change (s_assign ++ ?x) with (c_colon :: c_colon :: x) in Hin.
  destruct (lex_indent cls D st 167 _ Hin) as (st1 & L1 & I1 & P1); [chr|chr|exact Hr|].
  pose proof Hr as (_ & _ & Hsp).
  assert (S1 : ls_spans st1 = []) by (rewrite (lexto_spans _ _ _ _ L1); exact Hsp).
  (* the section sign *)
  destruct (G_section cls st1 _ I1 S1) as (st2 & G2).
  { change (167 :: i ++ c_colon :: ?x) with ((167 :: i) ++ c_colon :: x). apply scan_version_no_dot; [|chr|apply u_digit_false; chr].
    intros y [<-|Hy]; [chr|exact (sid_chars i Hi y Hy)]. }
  assert (S2 : ls_spans st2 = []) by (rewrite (gstep_spans _ _ _ _ _ _ _ G2); exact S1).
  (* the id *)
  assert (HID : exists st3, lexto cls st2 [id_sh idnum_digits i] st3 /\ ls_in st3 = c_colon :: c_colon :: k ++ annot_text a ++ c_nl :: rest /\
                            ls_spans st3 = []).
  { unfold sid_ok in Hi. apply orb_true_iff in Hi as [Hd|Hkk].
    - destruct (G_num cls st2 i c_colon (c_colon :: k ++ annot_text a ++ c_nl :: rest) (digs_num_ok i Hd)) as (st3 & G3);
        [right; right; right; right; reflexivity|exact (gstep_in _ _ _ _ _ _ _ G2)|exact S2|].
      exists st3. split; [|split; [exact (gstep_in _ _ _ _ _ _ _ G3)|rewrite (gstep_spans _ _ _ _ _ _ _ G3); exact S2]].
      unfold id_sh. rewrite (digs_idnum i Hd). eapply lexto_gstep; [exact G3|reflexivity|right; reflexivity].
    - destruct (G_key cls st2 i c_colon (c_colon :: k ++ annot_text a ++ c_nl :: rest) Hkk) as (st3 & G3);
        [left; reflexivity|exact (gstep_in _ _ _ _ _ _ _ G2)|exact (gstep_pos _ _ _ _ _ _ _ G2)|exact S2|].
      exists st3. split; [|split; [exact (gstep_in _ _ _ _ _ _ _ G3)|rewrite (gstep_spans _ _ _ _ _ _ _ G3); exact S2]].
      unfold id_sh. rewrite (key_ok_idnum i Hkk). eapply lexto_gstep; [exact G3|reflexivity|right; reflexivity]. }
  destruct HID as (st3 & L3 & I3 & S3).
  destruct (T_assign cls st3 _ I3 S3) as (st4 & T4).
  assert (S4 : ls_spans st4 = []) by (rewrite (tstep_spans _ _ _ _ _ _ _ T4); exact S3).
  (* key and annotation *)
  assert (HK : exists st6, lexto cls st4 ([(IDENTIFIER, Some (TVText k))] ++ annot_sh a) st6 /\ ls_in st6 = c_nl :: rest /\ ls_spans st6 = []).
  { destruct a as [[|x a']|]; [discriminate Hne| |].
    - cbn [annot_text annot_ok] in *. pose proof (tstep_in _ _ _ _ _ _ _ T4) as I4. rewrite <- !app_assoc in I4. cbn [app] in I4.
      destruct (G_key cls st4 k c_lbr (x :: a' ++ c_rbr :: c_nl :: rest) Hk) as (st5 & G5);
        [right; left; reflexivity|exact I4|exact (tstep_pos _ _ _ _ _ _ _ T4)|exact S4|].
      assert (S5 : ls_spans st5 = []) by (rewrite (gstep_spans _ _ _ _ _ _ _ G5); exact S4).
      destruct (G_lbr cls st5 _ (gstep_in _ _ _ _ _ _ _ G5) S5) as (st6 & p & G6).
      assert (S6 : ls_spans st6 = []) by (rewrite (gstep_spans _ _ _ _ _ _ _ G6); exact S5).
      pose proof (gstep_in _ _ _ _ _ _ _ G6) as I6. change (x :: a' ++ ?z) with ((x :: a') ++ z) in I6.
      destruct (G_key cls st6 (x :: a') c_rbr (c_nl :: rest) Ha) as (st7 & G7);
        [right; right; left; reflexivity|exact I6|exact (gstep_pos _ _ _ _ _ _ _ G6)|exact S6|].
      assert (S7 : ls_spans st7 = []) by (rewrite (gstep_spans _ _ _ _ _ _ _ G7); exact S6).
      assert (B7 : ls_brk st7 = p :: ls_brk st5).
      { rewrite (gstep_brk _ _ _ _ _ _ _ G7). exact (gstep_brk _ _ _ _ _ _ _ G6). }
      destruct (G_rbr cls st7 _ p (ls_brk st5) (gstep_in _ _ _ _ _ _ _ G7) S7 B7) as (st8 & G8).
      exists st8. split; [|split; [exact (gstep_in _ _ _ _ _ _ _ G8)|rewrite (gstep_spans _ _ _ _ _ _ _ G8); exact S7]].
      apply lextoB_lexto.
      + cbn [annot_sh].
        change [(LIST_START, None); (IDENTIFIER, Some (TVText (x :: a'))); (LIST_END, None)]
          with ([(LIST_START, @None tvalue)] ++ [(IDENTIFIER, Some (TVText (x :: a')))] ++ [(LIST_END, @None tvalue)]).
        eapply lextoB_trans; [eapply lextoB_gstep; [exact G5|reflexivity|right; reflexivity]|].
        eapply lextoB_trans; [eapply lextoB_gstep; [exact G6|reflexivity|left; reflexivity]|].
        eapply lextoB_trans; [eapply lextoB_gstep; [exact G7|reflexivity|right; reflexivity]|].
        eapply lextoB_gstep; [exact G8|reflexivity|left; reflexivity].
      + rewrite (gstep_brk _ _ _ _ _ _ _ G8). exact (gstep_brk _ _ _ _ _ _ _ G5).
    - cbn [annot_text annot_sh] in *. pose proof (tstep_in _ _ _ _ _ _ _ T4) as I4. cbn [app] in I4.
      destruct (G_key cls st4 k c_nl rest Hk) as (st5 & G5);
        [right; right; right; reflexivity|exact I4|exact (tstep_pos _ _ _ _ _ _ _ T4)|exact S4|].
      exists st5. split; [|split; [exact (gstep_in _ _ _ _ _ _ _ G5)|rewrite (gstep_spans _ _ _ _ _ _ _ G5); exact S4]].
      rewrite app_nil_r. eapply lexto_gstep; [exact G5|reflexivity|right; reflexivity]. }
  destruct HK as (st6 & L6 & I6 & S6).
  destruct (lex_newline cls st6 rest I6 S6) as (st7 & L7 & I7 & R7).
  exists st7. split; [|split; assumption].
  change ([(SECTION, None); id_sh idnum_digits i; (ASSIGN, None); (IDENTIFIER, Some (TVText k))] ++ ?l)
    with ([(SECTION, @None tvalue)] ++ [id_sh idnum_digits i] ++ [(ASSIGN, @None tvalue)] ++ [(IDENTIFIER, Some (TVText k))] ++ l).
  eapply lexto_trans; [exact L1|].
  eapply lexto_trans; [eapply lexto_gstep; [exact G2|reflexivity|left; reflexivity]|].
  eapply lexto_trans; [exact L3|].
  eapply lexto_trans; [eapply lexto_tstep; [exact T4|reflexivity|left; reflexivity]|].
  rewrite app_assoc. eapply lexto_trans; [exact L6|exact L7].
Qed.

(* ---- nodes, at every depth ------------------------------------------------------------------------------------------------------------------ *)
Definition L2_node (n : node) : Prop :=
  core2_node n = true -> lex_safe2_node n = true ->
  forall D st rest, ls_in st = unlines (emit_node_lines n D) ++ rest -> ready st ->
    exists st', lexto cls st (node_sh2 ml idnum_digits D n) st' /\ ls_in st' = rest /\ ready st'.

Lemma lex_nodes2 ch : Forall L2_node ch -> forallb core2_node ch = true -> forallb lex_safe2_node ch = true ->
  forall D st rest, ls_in st = unlines (flat_map (fun c => emit_node_lines c D) ch) ++ rest -> ready st ->
    exists st', lexto cls st (nodes_sh2 ml idnum_digits D ch) st' /\ ls_in st' = rest /\ ready st'.
Proof.
  induction ch as [|c cs IH]; intros HP Hc Hs D st rest Hin Hr.
  - exists st. split; [apply lexto_refl|split; [exact Hin|exact Hr]].
  - inversion HP as [|? ? HPc HPcs]; subst.
    cbn [forallb] in Hc, Hs. apply andb_true_iff in Hc as [Hc1 Hc2]. apply andb_true_iff in Hs as [Hs1 Hs2].
    cbn [flat_map] in Hin. rewrite unlines_app, <- app_assoc in Hin.
    destruct (HPc Hc1 Hs1 D st _ Hin Hr) as (st1 & L1 & I1 & R1).
    destruct (IH HPcs Hc2 Hs2 D st1 rest I1 R1) as (st2 & L2 & I2 & R2).
    exists st2. split; [|split; assumption]. cbn [nodes_sh2 flat_map]. eapply lexto_trans; [exact L1|exact L2].
Qed.

Theorem all_L2_node : forall n, L2_node n.
Proof.
  apply node_ind2; unfold L2_node.
  - (* assignment *)
    intros k v l t Hc Hs D st rest Hin Hr. cbn [core2_node] in Hc. apply andb_true_iff in Hc as [Hcv Hne].
    cbn [lex_safe2_node] in Hs. apply andb_true_iff in Hs as [Hs Ht]. apply andb_true_iff in Hs as [Hs Hl]. apply andb_true_iff in Hs as [Hk Hv].
    destruct (assign_val_text k v D Hcv Hv) as (Etext & Hvok).
    rewrite (emit_assign_line2 k v l t D Hcv), Etext, unlines_app, <- app_assoc in Hin.
    destruct (lex_lead D l st _ Hl Hin Hr) as (st1 & L1 & I1 & R1).
    cbn [unlines flat_map] in I1. rewrite app_nil_r, <- app_assoc in I1. cbn [app] in I1.
    destruct (lex_kv_line D k v t st1 rest Hk Hcv Hvok Hne Ht I1 R1) as (st2 & L2 & I2 & R2).
    exists st2. split; [|split; assumption]. unfold node_sh2. cbn [lead_of main_sh].
    eapply lexto_trans; [exact L1|exact L2].
  - (* block *)
    intros k tg ch l IH Hc Hs D st rest Hin Hr. cbn [core2_node] in Hc. destruct tg; [discriminate|].
    apply andb_true_iff in Hc as [_ Hcc]. cbn [lex_safe2_node] in Hs. apply andb_true_iff in Hs as [Hs Hss]. apply andb_true_iff in Hs as [Hk Hl].
    rewrite (emit_block_lines2 k ch l D Hcc), !unlines_app, <- !app_assoc in Hin.
    destruct (lex_lead D l st _ Hl Hin Hr) as (st1 & L1 & I1 & R1).
    cbn [unlines flat_map] in I1. rewrite app_nil_r, <- app_assoc in I1. cbn [app] in I1.
    destruct (lex_block_header cls D k st1 _ Hk I1 R1) as (st2 & L2 & I2 & R2).
    destruct (lex_nodes2 ch IH Hcc Hss (S D) st2 rest I2 R2) as (st3 & L3 & I3 & R3).
    exists st3. split; [|split; assumption]. unfold node_sh2. cbn [lead_of]. rewrite main_sh_block.
    eapply lexto_trans; [exact L1|]. rewrite app_assoc. eapply lexto_trans; [exact L2|exact L3].
  - (* section *)
    intros i k a ch l IH Hc Hs D st rest Hin Hr. cbn [core2_node] in Hc. apply andb_true_iff in Hc as [Hne Hc]. apply andb_true_iff in Hc as [_ Hcc].
    cbn [lex_safe2_node] in Hs. apply andb_true_iff in Hs as [Hs Hss]. apply andb_true_iff in Hs as [Hs Hl].
    apply andb_true_iff in Hs as [Hs Ha]. apply andb_true_iff in Hs as [Hi Hk].
    rewrite (emit_section_lines2 i k a ch l D), !unlines_app, <- !app_assoc in Hin.
    destruct (lex_lead D l st _ Hl Hin Hr) as (st1 & L1 & I1 & R1).
    cbn [unlines flat_map] in I1. rewrite app_nil_r, <- app_assoc in I1. cbn [app] in I1.
    destruct (lex_section_header D i k a st1 _ Hi Hk Ha Hne I1 R1) as (st2 & L2 & I2 & R2).
    destruct (lex_nodes2 ch IH Hcc Hss (S D) st2 rest I2 R2) as (st3 & L3 & I3 & R3).
    exists st3. split; [|split; assumption]. unfold node_sh2. cbn [lead_of]. rewrite main_sh_section.
    eapply lexto_trans; [exact L1|]. rewrite !app_assoc. eapply lexto_trans; [|exact L3].
    rewrite <- !app_assoc. exact L2.
  - intros t Hc; discriminate Hc.
Qed.

End Link2.
