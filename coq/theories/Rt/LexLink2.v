(* Lexer half of the round trip for core2 documents (Rt/TokRound2.v), and the text-level round-trip theorem.

     lex_emit_core2        for every core2 document d with lex_safe2_doc d, the model lexer reads `emit sp d` as a token list of
                           shape  doc2_sh needs_multiline ex_idnum d  followed by NEWLINE, EOF, with no repair
                           (comments, inline and multi-line lists of scalars, section markers, META block; every depth and
                           every list length, by induction)
     text_roundtrip_core2  composed with TokRound2.parse_core2_doc: the full model reads `emit sp d` back as d. *)
From OV Require Import Base.Strs Gen.LexerGen Syn.Escape Syn.Quote Syn.Ast Syn.Emitter Syn.Parser
     Lex.Lexer Lex.Progress Rt.TokRound Rt.TokRoundEx Rt.TokRound2 Rt.TokRound2Ex
     Rt.LexLinkBase Rt.LexLinkSteps Rt.LexLink Rt.LexLink2Base Rt.LexLink2Steps Rt.LexLink2Text.
From Coq Require Import Lia.
Open Scope N_scope.

Notation ml := needs_multiline.
Notation idnum_digits := ex_idnum.

Section Link2.
Variable cls : N -> N.
Notation wbb := (word_boundary_before cls).

(* ---- reachability without the bracket-stack clause ------------------------------------------------------------------------ *)
Definition lextoB (st : lstate) (shs : list sh) (st' : lstate) : Prop :=
  steps cls st st' /\ (exists ts, ls_toks st' = rev ts ++ ls_toks st /\ Forall2 tmatch ts shs) /\
  ls_reps st' = ls_reps st /\ ls_spans st' = ls_spans st.

Lemma lextoB_refl st : lextoB st [] st.
Proof. split; [apply steps_refl|]. split; [exists []; split; [reflexivity|constructor]|]. split; reflexivity. Qed.
Lemma lextoB_trans a b c s1 s2 : lextoB a s1 b -> lextoB b s2 c -> lextoB a (s1 ++ s2) c.
Proof.
  intros (S1 & (t1 & T1 & F1) & R1 & P1) (S2 & (t2 & T2 & F2) & R2 & P2).
  split; [eapply steps_trans; eassumption|]. split.
  - exists (t1 ++ t2). split; [rewrite T2, T1, rev_app_distr, app_assoc; reflexivity|apply Forall2_app; assumption].
  - split; congruence.
Qed.
Lemma lexto_B st s st' : lexto cls st s st' -> lextoB st s st'.
Proof. intros (H1 & H2 & H3 & _ & H5). split; [exact H1|]. split; [exact H2|]. split; assumption. Qed.
Lemma lextoB_lexto st s st' : lextoB st s st' -> ls_brk st' = ls_brk st -> lexto cls st s st'.
Proof. intros (H1 & H2 & H3 & H5) Hb. split; [exact H1|]. split; [exact H2|]. repeat split; assumption. Qed.

Lemma lextoB_gstep st st' k v rest prev brk' s :
  gstep cls st st' k v rest prev brk' -> fst s = k -> (snd s = None \/ snd s = Some v) -> lextoB st [s] st'.
Proof.
  intros (Hs & _ & _ & _ & (l & c & n & Ht) & Hr & _ & Hp & _) Hk Hv.
  split; [apply steps_one; exact Hs|]. split; [|split; assumption].
  exists [mkTok k v l c n]. split; [rewrite Ht; reflexivity|].
  constructor; [|constructor]. split; [cbn [tk]; congruence|]. destruct Hv as [->| ->]; [exact I|reflexivity].
Qed.
Lemma lexto_gstep st st' k v rest prev s :
  gstep cls st st' k v rest prev (ls_brk st) -> fst s = k -> (snd s = None \/ snd s = Some v) -> lexto cls st [s] st'.
Proof. intros H Hk Hv. apply lextoB_lexto; [exact (lextoB_gstep _ _ _ _ _ _ _ _ H Hk Hv)|apply H]. Qed.

Lemma gstep_in st st' k v rest prev b : gstep cls st st' k v rest prev b -> ls_in st' = rest.
Proof. intros H; apply H. Qed.
Lemma gstep_prev st st' k v rest prev b : gstep cls st st' k v rest prev b -> ls_prev st' = prev.
Proof. intros H; apply H. Qed.
Lemma gstep_pos st st' k v rest prev b : gstep cls st st' k v rest prev b -> ls_pos st' <> 0.
Proof. intros H; apply H. Qed.
Lemma gstep_brk st st' k v rest prev b : gstep cls st st' k v rest prev b -> ls_brk st' = b.
Proof. intros H; apply H. Qed.
Lemma gstep_spans st st' k v rest prev b : gstep cls st st' k v rest prev b -> ls_spans st' = ls_spans st.
Proof. intros H; apply H. Qed.
Lemma gstep_col st st' k v rest prev b : gstep cls st st' k v rest prev b -> ls_col st < ls_col st'.
Proof. intros H; apply H. Qed.

Lemma lextoB_steps st s st' : lextoB st s st' -> steps cls st st'.
Proof. intros H; apply H. Qed.
Lemma lextoB_spans st s st' : lextoB st s st' -> ls_spans st' = ls_spans st.
Proof. intros H; apply H. Qed.
Lemma lexto_steps st s st' : lexto cls st s st' -> steps cls st st'.
Proof. intros H; apply H. Qed.
Lemma lexto_brk st s st' : lexto cls st s st' -> ls_brk st' = ls_brk st.
Proof. intros H; apply H. Qed.
Lemma lexto_col st s st' : lexto cls st s st' -> 1 <= ls_col st -> 1 <= ls_col st'.
Proof. intros H. exact (steps_col cls _ _ (proj1 H)). Qed.
Lemma lextoB_col st s st' : lextoB st s st' -> 1 <= ls_col st -> 1 <= ls_col st'.
Proof. intros H. exact (steps_col cls _ _ (proj1 H)). Qed.

Lemma wbb_of p : u_word cls p = false -> wbb (Some p) = true.
Proof. intros H. unfold word_boundary_before. rewrite H. reflexivity. Qed.

(* ---- gaps ---------------------------------------------------------------------------------------------------------------------- *)
Lemma lex_gap g st x r : ls_in st = gap_text g ++ x :: r -> x <> c_sp -> x <> c_nl -> ls_spans st = [] -> ls_pos st <> 0 ->
  exists st', lexto cls st (gap_sh g) st' /\ ls_in st' = x :: r /\ ls_pos st' <> 0 /\
              ((g = GNone -> wbb (ls_prev st) = true) -> wbb (ls_prev st') = true).
Proof.
  intros Hin H1 H2 Hsp Hp. destruct g as [|D].
  - exists st. split; [apply lexto_refl|]. split; [exact Hin|]. split; [exact Hp|]. intros H; apply H; reflexivity.
  - cbn [gap_text app] in Hin. destruct (T_nl cls st _ Hin Hsp) as (st1 & T1 & C1).
    assert (S1 : ls_spans st1 = []) by (rewrite (tstep_spans _ _ _ _ _ _ _ T1); exact Hsp).
    assert (L1 : lexto cls st nl_sh st1) by (eapply lexto_tstep; [exact T1|reflexivity|left; reflexivity]).
    destruct D as [|D'].
    + exists st1. split; [cbn [gap_sh indent_sh]; rewrite app_nil_r; exact L1|].
      split; [exact (tstep_in _ _ _ _ _ _ _ T1)|]. split; [exact (tstep_pos _ _ _ _ _ _ _ T1)|].
      intros _. rewrite (tstep_prev _ _ _ _ _ _ _ T1). apply wbb_of, u_word_false; chr.
    + pose proof (tstep_in _ _ _ _ _ _ _ T1) as I1.
      assert (E : ind (S D') = repeat c_sp (S (2 * D' + 1))) by (unfold ind; f_equal; lia).
      rewrite E in I1. destruct (T_indent cls st1 _ x r I1 H1 H2 C1 S1) as (st2 & T2).
      exists st2. split; [|split; [exact (tstep_in _ _ _ _ _ _ _ T2)|split; [exact (tstep_pos _ _ _ _ _ _ _ T2)|]]].
      * cbn [gap_sh]. eapply lexto_trans; [exact L1|].
        eapply lexto_tstep; [exact T2|reflexivity|right]. cbn [indent_sh snd]. unfold ind_count. do 3 f_equal. lia.
      * intros _. rewrite (tstep_prev _ _ _ _ _ _ _ T2). apply wbb_of, u_word_false; chr.
Qed.

Lemma gap_hd g x r : vterm x -> exists z t, gap_text g ++ x :: r = z :: t /\ vterm z.
Proof.
  intros Hx. destruct g; cbn [gap_text app]; eexists _, _; (split; [reflexivity|]); [exact Hx|left; reflexivity].
Qed.

(* ---- one scalar ------------------------------------------------------------------------------------------------------------------ *)
Lemma lex_item v sv st z r : scalar_ok v = true -> sval_of v = Some sv -> ls_in st = sval_text sv ++ z :: r -> vterm z ->
  wbb (ls_prev st) = true -> ls_spans st = [] ->
  exists st', lexto cls st [sval_sh sv] st' /\ ls_in st' = z :: r /\ ls_col st < ls_col st' /\ ls_pos st' <> 0.
Proof.
  intros Hs E Hin Hz Hp Hsp.
  assert (K : forall st' k tv_ prev, gstep cls st st' k tv_ (z :: r) prev (ls_brk st) -> fst (sval_sh sv) = k ->
              (snd (sval_sh sv) = None \/ snd (sval_sh sv) = Some tv_) ->
              exists st', lexto cls st [sval_sh sv] st' /\ ls_in st' = z :: r /\ ls_col st < ls_col st' /\ ls_pos st' <> 0).
  { intros st' k tv_ prev G Hk Hv. exists st'. split; [exact (lexto_gstep _ _ _ _ _ _ _ G Hk Hv)|].
    split; [exact (gstep_in _ _ _ _ _ _ _ G)|]. split; [exact (gstep_col _ _ _ _ _ _ _ G)|exact (gstep_pos _ _ _ _ _ _ _ G)]. }
  destruct v; cbn [sval_of] in E; inversion E; subst; cbn [sval_text sval_sh] in *.
  - destruct (G_null cls st z r Hin Hp Hz Hsp) as (st' & G). exact (K _ _ _ _ G eq_refl (or_introl eq_refl)).
  - destruct b.
    + destruct (G_true cls st z r Hin Hp Hz Hsp) as (st' & G). exact (K _ _ _ _ G eq_refl (or_intror eq_refl)).
    + destruct (G_false cls st z r Hin Hp Hz Hsp) as (st' & G). exact (K _ _ _ _ G eq_refl (or_intror eq_refl)).
  - cbn [scalar_ok] in Hs. destruct (G_num cls st canon z r Hs Hz Hin Hsp) as (st' & G). exact (K _ _ _ _ G eq_refl (or_intror eq_refl)).
  - destruct (G_str cls st s z r Hin) as (st' & G); [unfold vterm in Hz; chr|exact Hsp|]. exact (K _ _ _ _ G eq_refl (or_intror eq_refl)).
Qed.

Lemma num_ok_hd c : num_ok c = true -> exists x t, c = x :: t /\ (48 <= x <= 57 \/ x = 45).
Proof.
  unfold num_ok. destruct c as [|c0 cr]; [discriminate|]. destruct (N.eqb_spec c0 c_dash) as [->|_]; intros H.
  - eexists _, _. split; [reflexivity|right; reflexivity].
  - destruct (num_body_shape _ H) as (d & fr & ex & E & Hd & _). destruct (digs_hd _ Hd) as (d0 & d' & -> & Hd0).
    cbn [app] in E. inversion E; subst. eexists _, _. split; [reflexivity|left; exact Hd0].
Qed.

Lemma sval_text_hd v sv : scalar_ok v = true -> sval_of v = Some sv ->
  exists x t, sval_text sv = x :: t /\ x <> c_sp /\ x <> c_nl /\ x <> c_bt.
Proof.
  intros Hs E. destruct v; cbn [sval_of] in E; inversion E; subst; cbn [sval_text].
  - eexists _, _. split; [reflexivity|]. repeat split; discriminate.
  - destruct b; eexists _, _; (split; [reflexivity|]); repeat split; discriminate.
  - cbn [scalar_ok] in Hs. destruct (num_ok_hd _ Hs) as (x & t & -> & Hx). exists x, t. split; [reflexivity|]. repeat split; chr.
  - eexists _, _. split; [reflexivity|]. repeat split; discriminate.
Qed.

Lemma is_scalar_sval v : is_scalar v = true -> exists sv, sval_of v = Some sv.
Proof. unfold is_scalar. destruct (sval_of v) as [sv|]; [eexists; reflexivity|discriminate]. Qed.

(* ---- the body of a bracket group ---------------------------------------------------------------------------------------------------- *)
Lemma lex_body pre2 post : forall items pre st rest p b,
  items <> [] -> forallb scalar_ok items = true -> forallb is_scalar items = true ->
  ls_in st = body_text pre2 post pre (map sc_text items) ++ rest ->
  ls_brk st = p :: b -> ls_spans st = [] -> ls_pos st <> 0 -> wbb (ls_prev st) = true -> 1 <= ls_col st ->
  exists st', lextoB st (body_sh (gap_sh pre2) (gap_sh post) (gap_sh pre) items) st' /\ ls_in st' = rest /\ ls_brk st' = b /\
              ls_spans st' = [] /\ ls_pos st' <> 0 /\ 1 < ls_col st'.
Proof.
  induction items as [|x xs IH]; [congruence|]. intros pre st rest p b _ Hok Hsc Hin Hb Hsp Hp Hw Hcol.
  cbn [forallb] in Hok, Hsc. apply andb_true_iff in Hok as [Hx Hxs]. apply andb_true_iff in Hsc as [Sx Sxs].
  destruct (is_scalar_sval _ Sx) as (sv & E).
  assert (Et : sc_text x = sval_text sv) by (unfold sc_text; rewrite E; reflexivity).
  destruct (sval_text_hd x sv Hx E) as (x0 & t0 & Ex0 & Hx0a & Hx0b & _).
  cbn [map body_text body_sh] in Hin |- *. rewrite Et in Hin. rewrite (vsh_sval _ _ E).
  rewrite <- !app_assoc in Hin.
  (* the gap before the item *)
  pose proof Hin as Hin0. rewrite Ex0 in Hin0. cbn [app] in Hin0.
  destruct (lex_gap pre st x0 _ Hin0 Hx0a Hx0b Hsp Hp) as (st1 & L1 & I1 & P1 & W1).
  specialize (W1 (fun _ => Hw)).
  assert (S1 : ls_spans st1 = []) by (rewrite (lexto_spans _ _ _ _ L1); exact Hsp).
  assert (B1 : ls_brk st1 = p :: b) by (rewrite (lexto_brk _ _ _ L1); exact Hb).
  change (x0 :: t0 ++ ?z) with ((x0 :: t0) ++ z) in I1. rewrite <- Ex0 in I1.
  destruct xs as [|y ys].
  - (* last item *)
    cbn [map] in I1. rewrite <- app_assoc in I1. cbn [s_rb app] in I1.
    destruct (gap_hd post c_rbr rest) as (z & t & Ez & Hz); [right; right; left; reflexivity|].
    rewrite Ez in I1.
    destruct (lex_item x sv st1 z t Hx E I1 Hz W1 S1) as (st2 & L2 & I2 & _ & P2).
    assert (S2 : ls_spans st2 = []) by (rewrite (lexto_spans _ _ _ _ L2); exact S1).
    assert (B2 : ls_brk st2 = p :: b) by (rewrite (lexto_brk _ _ _ L2); exact B1).
    rewrite <- Ez in I2.
    destruct (lex_gap post st2 c_rbr rest I2) as (st3 & L3 & I3 & P3 & _); [chr|chr|exact S2|exact P2|].
    assert (S3 : ls_spans st3 = []) by (rewrite (lexto_spans _ _ _ _ L3); exact S2).
    assert (B3 : ls_brk st3 = p :: b) by (rewrite (lexto_brk _ _ _ L3); exact B2).
    destruct (G_rbr cls st3 rest p b I3 S3 B3) as (st4 & G4).
    exists st4. split; [|split; [exact (gstep_in _ _ _ _ _ _ _ G4)|split; [exact (gstep_brk _ _ _ _ _ _ _ G4)|]]].
    + eapply lextoB_trans; [exact (lexto_B _ _ _ L1)|]. eapply lextoB_trans; [exact (lexto_B _ _ _ L2)|].
      eapply lextoB_trans; [exact (lexto_B _ _ _ L3)|]. eapply lextoB_gstep; [exact G4|reflexivity|left; reflexivity].
    + split; [rewrite (gstep_spans _ _ _ _ _ _ _ G4); exact S3|]. split; [exact (gstep_pos _ _ _ _ _ _ _ G4)|].
      pose proof (gstep_col _ _ _ _ _ _ _ G4). pose proof (lexto_col _ _ _ L1 Hcol) as C1.
      pose proof (lexto_col _ _ _ L2 C1) as C2. pose proof (lexto_col _ _ _ L3 C2). lia.
  - (* an item followed by a comma *)
    cbn [map] in I1. cbn [app] in I1.
    destruct (lex_item x sv st1 c_comma _ Hx E I1) as (st2 & L2 & I2 & _ & P2); [right; left; reflexivity|exact W1|exact S1|].
    assert (S2 : ls_spans st2 = []) by (rewrite (lexto_spans _ _ _ _ L2); exact S1).
    assert (B2 : ls_brk st2 = p :: b) by (rewrite (lexto_brk _ _ _ L2); exact B1).
    destruct (G_comma cls st2 _ I2 S2) as (st3 & G3).
    assert (S3 : ls_spans st3 = []) by (rewrite (gstep_spans _ _ _ _ _ _ _ G3); exact S2).
    assert (B3 : ls_brk st3 = p :: b) by (rewrite (gstep_brk _ _ _ _ _ _ _ G3); exact B2).
    assert (W3 : wbb (ls_prev st3) = true) by (rewrite (gstep_prev _ _ _ _ _ _ _ G3); apply wbb_of, u_word_false; lia).
    assert (C3 : 1 <= ls_col st3).
    { pose proof (gstep_col _ _ _ _ _ _ _ G3). pose proof (lexto_col _ _ _ L1 Hcol) as C1. pose proof (lexto_col _ _ _ L2 C1). lia. }
    destruct (IH pre2 st3 rest p b ltac:(discriminate) Hxs Sxs (gstep_in _ _ _ _ _ _ _ G3) B3 S3 (gstep_pos _ _ _ _ _ _ _ G3) W3 C3)
      as (st4 & L4 & I4 & B4 & S4 & P4 & C4).
    exists st4. split; [|repeat split; assumption].
    eapply lextoB_trans; [exact (lexto_B _ _ _ L1)|]. eapply lextoB_trans; [exact (lexto_B _ _ _ L2)|].
    change ((COMMA, None) :: ?l) with ([(COMMA, @None tvalue)] ++ l).
    eapply lextoB_trans; [|exact L4]. eapply lextoB_gstep; [exact G3|reflexivity|left; reflexivity].
Qed.

(* ---- a value: scalar, empty list, inline list, multi-line list ------------------------------------------------------------------------- *)
Lemma lex_val D v st z r : cval v = true -> val_ok v = true -> ls_in st = val_text D v ++ z :: r -> vterm z ->
  ls_prev st = Some c_colon -> ls_spans st = [] -> ls_pos st <> 0 -> 1 <= ls_col st ->
  exists st', lexto cls st (val_sh ml D v) st' /\ ls_in st' = z :: r /\ 1 < ls_col st' /\ ls_pos st' <> 0.
Proof.
  intros Hc Hok Hin Hz Hp Hsp Hpos Hcol.
  assert (Hw : wbb (ls_prev st) = true) by (rewrite Hp; apply wbb_of, u_word_false; chr).
  assert (Hscalar : forall sv, sval_of v = Some sv -> scalar_ok v = true -> val_text D v = sval_text sv -> val_sh ml D v = [sval_sh sv] ->
            exists st', lexto cls st (val_sh ml D v) st' /\ ls_in st' = z :: r /\ 1 < ls_col st' /\ ls_pos st' <> 0).
  { intros sv E Hs Et Esh. rewrite Et in Hin. rewrite Esh.
    destruct (lex_item v sv st z r Hs E Hin Hz Hw Hsp) as (st' & L & I & C & P).
    exists st'. split; [exact L|]. split; [exact I|]. split; [lia|exact P]. }
  destruct v; cbn [cval is_scalar sval_of] in Hc; try discriminate Hc.
  - apply (Hscalar SNull); reflexivity || exact Hok.
  - apply (Hscalar (SBool b)); reflexivity || exact Hok.
  - apply (Hscalar (SNum isfloat canon)); reflexivity || exact Hok.
  - apply (Hscalar (SStr s)); reflexivity || exact Hok.
  - clear Hscalar. cbn [val_ok] in Hok. destruct items as [|x xs].
    + (* [] *)
      cbn [val_text val_sh] in *. unfold s_empty_list in Hin. cbn [app] in Hin.
      destruct (G_lbr cls st _ Hin Hsp) as (st1 & p & G1).
      assert (S1 : ls_spans st1 = []) by (rewrite (gstep_spans _ _ _ _ _ _ _ G1); exact Hsp).
      destruct (G_rbr cls st1 _ p (ls_brk st) (gstep_in _ _ _ _ _ _ _ G1) S1 (gstep_brk _ _ _ _ _ _ _ G1)) as (st2 & G2).
      exists st2. split; [|split; [exact (gstep_in _ _ _ _ _ _ _ G2)|split; [|exact (gstep_pos _ _ _ _ _ _ _ G2)]]].
      * apply lextoB_lexto; [|exact (gstep_brk _ _ _ _ _ _ _ G2)].
        change [(LIST_START, None); (LIST_END, None)] with ([(LIST_START, @None tvalue)] ++ [(LIST_END, @None tvalue)]).
        eapply lextoB_trans; eapply lextoB_gstep; try eassumption; try reflexivity; left; reflexivity.
      * pose proof (gstep_col _ _ _ _ _ _ _ G1). pose proof (gstep_col _ _ _ _ _ _ _ G2). lia.
    + (* non-empty *)
      set (items := x :: xs) in *.
      assert (Hbody : forall g2 gp g1,
                ls_in st = c_lbr :: body_text g2 gp g1 (map sc_text items) ++ z :: r ->
                exists st', lexto cls st ((LIST_START, None) :: body_sh (gap_sh g2) (gap_sh gp) (gap_sh g1) items) st' /\
                            ls_in st' = z :: r /\ 1 < ls_col st' /\ ls_pos st' <> 0).
      { intros g2 gp g1 Hin'.
        destruct (G_lbr cls st _ Hin' Hsp) as (st1 & p & G1).
        assert (S1 : ls_spans st1 = []) by (rewrite (gstep_spans _ _ _ _ _ _ _ G1); exact Hsp).
        assert (W1 : wbb (ls_prev st1) = true) by (rewrite (gstep_prev _ _ _ _ _ _ _ G1); apply wbb_of, u_word_false; lia).
        assert (C1 : 1 <= ls_col st1) by (pose proof (gstep_col _ _ _ _ _ _ _ G1); lia).
        destruct (lex_body g2 gp items g1 st1 (z :: r) p (ls_brk st)) as (st2 & L2 & I2 & B2 & S2 & P2 & C2);
          [discriminate|exact Hok|exact Hc|exact (gstep_in _ _ _ _ _ _ _ G1)|exact (gstep_brk _ _ _ _ _ _ _ G1)|exact S1
          |exact (gstep_pos _ _ _ _ _ _ _ G1)|exact W1|exact C1|].
        exists st2. split; [|split; [exact I2|split; [exact C2|exact P2]]].
        apply lextoB_lexto; [|exact B2].
        change ((LIST_START, None) :: ?l) with ([(LIST_START, @None tvalue)] ++ l).
        eapply lextoB_trans; [|exact L2]. eapply lextoB_gstep; [exact G1|reflexivity|left; reflexivity]. }
      cbn [val_text val_sh] in Hin |- *. fold items in Hin |- *.
      destruct (ml items); cbn [app] in Hin.
      * exact (Hbody (GNl (S D)) (GNl D) (GNl (S D)) Hin).
      * exact (Hbody GNone GNone GNone Hin).
Qed.

(* ---- comments -------------------------------------------------------------------------------------------------------------------------- *)
Lemma trail_hd t r : exists z u, emit_trailing t ++ c_nl :: r = z :: u /\ vterm z.
Proof.
  destruct t as [[|x c]|]; cbn [emit_trailing app]; eexists _, _; (split; [reflexivity|]);
    [left; reflexivity|right; right; right; left; reflexivity|left; reflexivity].
Qed.

Lemma lex_trail t st r : opt_ne t = true -> trail_ok t = true -> ls_in st = emit_trailing t ++ c_nl :: r ->
  1 < ls_col st -> ls_spans st = [] -> ls_pos st <> 0 ->
  exists st', lexto cls st (trail_sh t) st' /\ ls_in st' = c_nl :: r.
Proof.
  intros Hne Hok Hin Hcol Hsp Hp. destruct t as [c|]; [|exists st; split; [apply lexto_refl|exact Hin]].
  destruct c as [|x c']; [discriminate Hne|]. cbn [trail_ok] in Hok. cbn [emit_trailing app] in Hin.
  destruct (G_skip_sp cls st _ Hin) as (st1 & Hs1 & I1 & T1 & R1 & B1 & S1 & P1); [lia|exact Hsp|exact Hp|].
  assert (L1 : lexto cls st [] st1).
  { split; [apply steps_one; exact Hs1|]. split; [exists []; split; [exact T1|constructor]|]. repeat split; assumption. }
  change (s_comment_pre ++ x :: c' ++ c_nl :: r) with (comment_line (x :: c') ++ c_nl :: r) in I1.
  destruct (G_comment cls st1 (x :: c') r Hok I1) as (st2 & G2); [rewrite S1; exact Hsp|].
  exists st2. split; [|exact (gstep_in _ _ _ _ _ _ _ G2)].
  change (trail_sh (Some (x :: c'))) with ([] ++ [(COMMENT, Some (TVText (x :: c')))]).
  eapply lexto_trans; [exact L1|]. eapply lexto_gstep; [exact G2|reflexivity|right; reflexivity].
Qed.

Lemma lex_lead D cs : forall st rest, forallb comment_ok cs = true ->
  ls_in st = unlines (emit_leading cs D) ++ rest -> ready st ->
  exists st', lexto cls st (lead_sh D cs) st' /\ ls_in st' = rest /\ ready st'.
Proof.
  induction cs as [|c cs IH]; intros st rest Hok Hin Hr.
  - exists st. split; [apply lexto_refl|split; [exact Hin|exact Hr]].
  - cbn [forallb] in Hok. apply andb_true_iff in Hok as [Hc Hcs].
    cbn [emit_leading map] in Hin. rewrite unlines_cons, <- !app_assoc in Hin. cbn [app] in Hin.
    destruct (comment_line_hd c) as (t & Et).
    pose proof Hin as Hin0. rewrite Et in Hin0. cbn [app] in Hin0.
    destruct (lex_indent cls D st c_slash _ Hin0) as (st1 & L1 & I1 & P1); [chr|chr|exact Hr|].
    destruct Hr as (_ & _ & Hsp).
    assert (S1 : ls_spans st1 = []) by (rewrite (lexto_spans _ _ _ _ L1); exact Hsp).
    change (c_slash :: c_slash :: t ++ ?z) with ((c_slash :: c_slash :: t) ++ z) in I1. rewrite <- Et in I1.
    destruct (G_comment cls st1 c _ Hc I1 S1) as (st2 & G2).
    assert (S2 : ls_spans st2 = []) by (rewrite (gstep_spans _ _ _ _ _ _ _ G2); exact S1).
    destruct (lex_newline cls st2 _ (gstep_in _ _ _ _ _ _ _ G2) S2) as (st3 & L3 & I3 & R3).
    destruct (IH st3 rest Hcs I3 R3) as (st4 & L4 & I4 & R4).
    exists st4. split; [|split; assumption].
    rewrite lead_sh_cons. eapply lexto_trans; [exact L1|].
    change ([(COMMENT, Some (TVText c)); (NEWLINE, None)] ++ ?l) with ([(COMMENT, Some (TVText c))] ++ [(NEWLINE, @None tvalue)] ++ l).
    eapply lexto_trans; [eapply lexto_gstep; [exact G2|reflexivity|right; reflexivity]|].
    eapply lexto_trans; [exact L3|exact L4].
Qed.

(* ---- KEY::value [// comment] NEWLINE ---------------------------------------------------------------------------------------------------- *)
Lemma ready_col st : ready st -> 1 <= ls_col st.
Proof. intros (H & _). lia. Qed.

Lemma lex_kv_line D k v t st rest :
  key_ok k = true -> cval v = true -> val_ok v = true -> opt_ne t = true -> trail_ok t = true ->
  ls_in st = (ind D ++ k ++ s_assign ++ val_text D v ++ emit_trailing t) ++ c_nl :: rest -> ready st ->
  exists st', lexto cls st (indent_sh D ++ [(IDENTIFIER, Some (TVText k)); (ASSIGN, None)] ++ val_sh ml D v ++ trail_sh t ++ [(NEWLINE, None)]) st' /\
              ls_in st' = rest /\ ready st'.
Proof.
  intros Hk Hc Hv Hne Ht Hin Hr. rewrite <- !app_assoc in Hin.
  change (s_assign ++ ?x) with (c_colon :: c_colon :: x) in Hin.
  destruct (lex_indent_key cls D k _ st Hk Hin Hr) as (st2 & L2 & I2 & S2).
  destruct (T_assign cls st2 _ I2 S2) as (st3 & T3).
  assert (L3 : lexto cls st2 [(ASSIGN, None)] st3) by (eapply lexto_tstep; [exact T3|reflexivity|left; reflexivity]).
  assert (S3 : ls_spans st3 = []) by (rewrite (tstep_spans _ _ _ _ _ _ _ T3); exact S2).
  assert (C3 : 1 <= ls_col st3) by (apply (lexto_col _ _ _ L3), (lexto_col _ _ _ L2), ready_col; exact Hr).
  destruct (trail_hd t rest) as (z & u & Ez & Hz).
  pose proof (tstep_in _ _ _ _ _ _ _ T3) as I3. rewrite Ez in I3.
  destruct (lex_val D v st3 z u Hc Hv I3 Hz (tstep_prev _ _ _ _ _ _ _ T3) S3 (tstep_pos _ _ _ _ _ _ _ T3) C3) as (st4 & L4 & I4 & C4 & P4).
  assert (S4 : ls_spans st4 = []) by (rewrite (lexto_spans _ _ _ _ L4); exact S3).
  rewrite <- Ez in I4.
  destruct (lex_trail t st4 rest Hne Ht I4 C4 S4 P4) as (st5 & L5 & I5).
  assert (S5 : ls_spans st5 = []) by (rewrite (lexto_spans _ _ _ _ L5); exact S4).
  destruct (lex_newline cls st5 rest I5 S5) as (st6 & L6 & I6 & R6).
  exists st6. split; [|split; assumption].
  change ([(IDENTIFIER, Some (TVText k)); (ASSIGN, None)] ++ ?l) with ([(IDENTIFIER, Some (TVText k))] ++ [(ASSIGN, @None tvalue)] ++ l).
  rewrite app_assoc. eapply lexto_trans; [exact L2|]. eapply lexto_trans; [exact L3|].
  eapply lexto_trans; [exact L4|]. eapply lexto_trans; [exact L5|exact L6].
Qed.

(* ---- section header:  [indent] SECTION id :: KEY [ [annot] ] NEWLINE -------------------------------------------------------------------- *)
Lemma digs_num_ok i : digs i = true -> num_ok i = true.
Proof.
  intros H. destruct (digs_hd _ H) as (d0 & d' & -> & Hd0). unfold num_ok. rewrite (neqb d0 c_dash) by chr.
  pose proof (digs_spec _ H) as [_ Hf]. unfold num_body_ok. rewrite (takeb_all _ _ Hf), (dropb_all _ _ Hf), H. reflexivity.
Qed.
Lemma digs_idnum i : digs i = true -> idnum_digits i = true.
Proof. destruct i; [discriminate|]. intros H. exact H. Qed.
Lemma key_ok_idnum i : key_ok i = true -> idnum_digits i = false.
Proof.
  intros H. destruct (key_ok_hd _ H) as (c & k' & -> & Hc). apply key_start_range in Hc.
  unfold ex_idnum. cbn [is_nil negb forallb andb]. rewrite is_digit_false by lia. reflexivity.
Qed.
Lemma sid_chars i : sid_ok i = true -> forall y, In y i -> y <> c_dot.
Proof.
  unfold sid_ok. intros H y Hy. apply orb_true_iff in H as [H|H].
  - apply digs_spec in H as [_ H]. rewrite forallb_forall in H. specialize (H y Hy). apply is_digit_range in H. chr.
  - unfold key_ok in H. apply andb_true_iff in H as [H _]. apply andb_true_iff in H as [H _]. apply andb_true_iff in H as [H _].
    apply word_ok_chars in H. rewrite forallb_forall in H. specialize (H y Hy). apply key_char_range in H. chr.
Qed.

Lemma lex_section_header D i k a st rest :
  sid_ok i = true -> key_ok k = true -> annot_ok a = true -> opt_ne a = true ->
  ls_in st = (ind D ++ [167] ++ i ++ s_assign ++ k ++ annot_text a) ++ c_nl :: rest -> ready st ->
  exists st', lexto cls st (indent_sh D ++ [(SECTION, None); id_sh idnum_digits i; (ASSIGN, None); (IDENTIFIER, Some (TVText k))] ++
                            annot_sh a ++ [(NEWLINE, None)]) st' /\ ls_in st' = rest /\ ready st'.
Proof.
  intros Hi Hk Ha Hne Hin Hr. rewrite <- !app_assoc in Hin. cbn [app] in Hin.
  change (s_assign ++ ?x) with (c_colon :: c_colon :: x) in Hin.
  destruct (lex_indent cls D st 167 _ Hin) as (st1 & L1 & I1 & P1); [chr|chr|exact Hr|].
  pose proof Hr as (_ & _ & Hsp).
  assert (S1 : ls_spans st1 = []) by (rewrite (lexto_spans _ _ _ _ L1); exact Hsp).
  (* the section sign *)
  destruct (G_section cls st1 _ I1 S1) as (st2 & G2).
  { change (167 :: i ++ c_colon :: ?x) with ((167 :: i) ++ c_colon :: x). apply scan_version_no_dot; [|chr|apply u_digit_false; chr].
    intros y [<-|Hy]; [chr|exact (sid_chars i Hi y Hy)]. }
  assert (S2 : ls_spans st2 = []) by (rewrite (gstep_spans _ _ _ _ _ _ _ G2); exact S1).
  (* the id *)
  assert (HID : exists st3, lexto cls st2 [id_sh idnum_digits i] st3 /\ ls_in st3 = c_colon :: c_colon :: k ++ annot_text a ++ c_nl :: rest /\
                            ls_spans st3 = []).
  { unfold sid_ok in Hi. apply orb_true_iff in Hi as [Hd|Hkk].
    - destruct (G_num cls st2 i c_colon (c_colon :: k ++ annot_text a ++ c_nl :: rest) (digs_num_ok i Hd)) as (st3 & G3);
        [right; right; right; right; reflexivity|exact (gstep_in _ _ _ _ _ _ _ G2)|exact S2|].
      exists st3. split; [|split; [exact (gstep_in _ _ _ _ _ _ _ G3)|rewrite (gstep_spans _ _ _ _ _ _ _ G3); exact S2]].
      unfold id_sh. rewrite (digs_idnum i Hd). eapply lexto_gstep; [exact G3|reflexivity|right; reflexivity].
    - destruct (G_key cls st2 i c_colon (c_colon :: k ++ annot_text a ++ c_nl :: rest) Hkk) as (st3 & G3);
        [left; reflexivity|exact (gstep_in _ _ _ _ _ _ _ G2)|exact (gstep_pos _ _ _ _ _ _ _ G2)|exact S2|].
      exists st3. split; [|split; [exact (gstep_in _ _ _ _ _ _ _ G3)|rewrite (gstep_spans _ _ _ _ _ _ _ G3); exact S2]].
      unfold id_sh. rewrite (key_ok_idnum i Hkk). eapply lexto_gstep; [exact G3|reflexivity|right; reflexivity]. }
  destruct HID as (st3 & L3 & I3 & S3).
  destruct (T_assign cls st3 _ I3 S3) as (st4 & T4).
  assert (S4 : ls_spans st4 = []) by (rewrite (tstep_spans _ _ _ _ _ _ _ T4); exact S3).
  (* key and annotation *)
  assert (HK : exists st6, lexto cls st4 ([(IDENTIFIER, Some (TVText k))] ++ annot_sh a) st6 /\ ls_in st6 = c_nl :: rest /\ ls_spans st6 = []).
  { destruct a as [[|x a']|]; [discriminate Hne| |].
    - cbn [annot_text annot_ok] in *. pose proof (tstep_in _ _ _ _ _ _ _ T4) as I4. rewrite <- !app_assoc in I4. cbn [app] in I4.
      destruct (G_key cls st4 k c_lbr (x :: a' ++ c_rbr :: c_nl :: rest) Hk) as (st5 & G5);
        [right; left; reflexivity|exact I4|exact (tstep_pos _ _ _ _ _ _ _ T4)|exact S4|].
      assert (S5 : ls_spans st5 = []) by (rewrite (gstep_spans _ _ _ _ _ _ _ G5); exact S4).
      destruct (G_lbr cls st5 _ (gstep_in _ _ _ _ _ _ _ G5) S5) as (st6 & p & G6).
      assert (S6 : ls_spans st6 = []) by (rewrite (gstep_spans _ _ _ _ _ _ _ G6); exact S5).
      pose proof (gstep_in _ _ _ _ _ _ _ G6) as I6. change (x :: a' ++ ?z) with ((x :: a') ++ z) in I6.
      destruct (G_key cls st6 (x :: a') c_rbr (c_nl :: rest) Ha) as (st7 & G7);
        [right; right; left; reflexivity|exact I6|exact (gstep_pos _ _ _ _ _ _ _ G6)|exact S6|].
      assert (S7 : ls_spans st7 = []) by (rewrite (gstep_spans _ _ _ _ _ _ _ G7); exact S6).
      assert (B7 : ls_brk st7 = p :: ls_brk st5).
      { rewrite (gstep_brk _ _ _ _ _ _ _ G7). exact (gstep_brk _ _ _ _ _ _ _ G6). }
      destruct (G_rbr cls st7 _ p (ls_brk st5) (gstep_in _ _ _ _ _ _ _ G7) S7 B7) as (st8 & G8).
      exists st8. split; [|split; [exact (gstep_in _ _ _ _ _ _ _ G8)|rewrite (gstep_spans _ _ _ _ _ _ _ G8); exact S7]].
      apply lextoB_lexto.
      + cbn [annot_sh].
        change [(LIST_START, None); (IDENTIFIER, Some (TVText (x :: a'))); (LIST_END, None)]
          with ([(LIST_START, @None tvalue)] ++ [(IDENTIFIER, Some (TVText (x :: a')))] ++ [(LIST_END, @None tvalue)]).
        eapply lextoB_trans; [eapply lextoB_gstep; [exact G5|reflexivity|right; reflexivity]|].
        eapply lextoB_trans; [eapply lextoB_gstep; [exact G6|reflexivity|left; reflexivity]|].
        eapply lextoB_trans; [eapply lextoB_gstep; [exact G7|reflexivity|right; reflexivity]|].
        eapply lextoB_gstep; [exact G8|reflexivity|left; reflexivity].
      + rewrite (gstep_brk _ _ _ _ _ _ _ G8). exact (gstep_brk _ _ _ _ _ _ _ G5).
    - cbn [annot_text annot_sh] in *. pose proof (tstep_in _ _ _ _ _ _ _ T4) as I4. cbn [app] in I4.
      destruct (G_key cls st4 k c_nl rest Hk) as (st5 & G5);
        [right; right; right; reflexivity|exact I4|exact (tstep_pos _ _ _ _ _ _ _ T4)|exact S4|].
      exists st5. split; [|split; [exact (gstep_in _ _ _ _ _ _ _ G5)|rewrite (gstep_spans _ _ _ _ _ _ _ G5); exact S4]].
      rewrite app_nil_r. eapply lexto_gstep; [exact G5|reflexivity|right; reflexivity]. }
  destruct HK as (st6 & L6 & I6 & S6).
  destruct (lex_newline cls st6 rest I6 S6) as (st7 & L7 & I7 & R7).
  exists st7. split; [|split; assumption].
  change ([(SECTION, None); id_sh idnum_digits i; (ASSIGN, None); (IDENTIFIER, Some (TVText k))] ++ ?l)
    with ([(SECTION, @None tvalue)] ++ [id_sh idnum_digits i] ++ [(ASSIGN, @None tvalue)] ++ [(IDENTIFIER, Some (TVText k))] ++ l).
  eapply lexto_trans; [exact L1|].
  eapply lexto_trans; [eapply lexto_gstep; [exact G2|reflexivity|left; reflexivity]|].
  eapply lexto_trans; [exact L3|].
  eapply lexto_trans; [eapply lexto_tstep; [exact T4|reflexivity|left; reflexivity]|].
  rewrite app_assoc. eapply lexto_trans; [exact L6|exact L7].
Qed.

(* ---- nodes, at every depth ------------------------------------------------------------------------------------------------------------------ *)
Definition L2_node (n : node) : Prop :=
  core2_node n = true -> lex_safe2_node n = true ->
  forall D st rest, ls_in st = unlines (emit_node_lines n D) ++ rest -> ready st ->
    exists st', lexto cls st (node_sh2 ml idnum_digits D n) st' /\ ls_in st' = rest /\ ready st'.

Lemma lex_nodes2 ch : Forall L2_node ch -> forallb core2_node ch = true -> forallb lex_safe2_node ch = true ->
  forall D st rest, ls_in st = unlines (flat_map (fun c => emit_node_lines c D) ch) ++ rest -> ready st ->
    exists st', lexto cls st (nodes_sh2 ml idnum_digits D ch) st' /\ ls_in st' = rest /\ ready st'.
Proof.
  induction ch as [|c cs IH]; intros HP Hc Hs D st rest Hin Hr.
  - exists st. split; [apply lexto_refl|split; [exact Hin|exact Hr]].
  - inversion HP as [|? ? HPc HPcs]; subst.
    cbn [forallb] in Hc, Hs. apply andb_true_iff in Hc as [Hc1 Hc2]. apply andb_true_iff in Hs as [Hs1 Hs2].
    cbn [flat_map] in Hin. rewrite unlines_app, <- app_assoc in Hin.
    destruct (HPc Hc1 Hs1 D st _ Hin Hr) as (st1 & L1 & I1 & R1).
    destruct (IH HPcs Hc2 Hs2 D st1 rest I1 R1) as (st2 & L2 & I2 & R2).
    exists st2. split; [|split; assumption]. cbn [nodes_sh2 flat_map]. eapply lexto_trans; [exact L1|exact L2].
Qed.

Theorem all_L2_node : forall n, L2_node n.
Proof.
  apply node_ind2; unfold L2_node.
  - (* assignment *)
    intros k v l t Hc Hs D st rest Hin Hr. cbn [core2_node] in Hc. apply andb_true_iff in Hc as [Hcv Hne].
    cbn [lex_safe2_node] in Hs. apply andb_true_iff in Hs as [Hs Ht]. apply andb_true_iff in Hs as [Hs Hl]. apply andb_true_iff in Hs as [Hk Hv].
    destruct (assign_val_text k v D Hcv Hv) as (Etext & Hvok).
    rewrite (emit_assign_line2 k v l t D Hcv), Etext, unlines_app, <- app_assoc in Hin.
    destruct (lex_lead D l st _ Hl Hin Hr) as (st1 & L1 & I1 & R1).
    cbn [unlines flat_map] in I1. rewrite app_nil_r, <- app_assoc in I1. cbn [app] in I1.
    destruct (lex_kv_line D k v t st1 rest Hk Hcv Hvok Hne Ht I1 R1) as (st2 & L2 & I2 & R2).
    exists st2. split; [|split; assumption]. unfold node_sh2. cbn [lead_of main_sh].
    eapply lexto_trans; [exact L1|exact L2].
  - (* block *)
    intros k tg ch l IH Hc Hs D st rest Hin Hr. cbn [core2_node] in Hc. destruct tg; [discriminate|].
    apply andb_true_iff in Hc as [_ Hcc]. cbn [lex_safe2_node] in Hs. apply andb_true_iff in Hs as [Hs Hss]. apply andb_true_iff in Hs as [Hk Hl].
    rewrite (emit_block_lines2 k ch l D Hcc), !unlines_app, <- !app_assoc in Hin.
    destruct (lex_lead D l st _ Hl Hin Hr) as (st1 & L1 & I1 & R1).
    cbn [unlines flat_map] in I1. rewrite app_nil_r, <- app_assoc in I1. cbn [app] in I1.
    destruct (lex_block_header cls D k st1 _ Hk I1 R1) as (st2 & L2 & I2 & R2).
    destruct (lex_nodes2 ch IH Hcc Hss (S D) st2 rest I2 R2) as (st3 & L3 & I3 & R3).
    exists st3. split; [|split; assumption]. unfold node_sh2. cbn [lead_of]. rewrite main_sh_block.
    eapply lexto_trans; [exact L1|]. rewrite app_assoc. eapply lexto_trans; [exact L2|exact L3].
  - (* section *)
    intros i k a ch l IH Hc Hs D st rest Hin Hr. cbn [core2_node] in Hc. apply andb_true_iff in Hc as [Hne Hc]. apply andb_true_iff in Hc as [_ Hcc].
    cbn [lex_safe2_node] in Hs. apply andb_true_iff in Hs as [Hs Hss]. apply andb_true_iff in Hs as [Hs Hl].
    apply andb_true_iff in Hs as [Hs Ha]. apply andb_true_iff in Hs as [Hi Hk].
    rewrite (emit_section_lines2 i k a ch l D), !unlines_app, <- !app_assoc in Hin.
    destruct (lex_lead D l st _ Hl Hin Hr) as (st1 & L1 & I1 & R1).
    cbn [unlines flat_map] in I1. rewrite app_nil_r, <- app_assoc in I1. cbn [app] in I1.
    destruct (lex_section_header D i k a st1 _ Hi Hk Ha Hne I1 R1) as (st2 & L2 & I2 & R2).
    destruct (lex_nodes2 ch IH Hcc Hss (S D) st2 rest I2 R2) as (st3 & L3 & I3 & R3).
    exists st3. split; [|split; assumption]. unfold node_sh2. cbn [lead_of]. rewrite main_sh_section.
    eapply lexto_trans; [exact L1|]. rewrite !app_assoc. eapply lexto_trans; [|exact L3].
    rewrite <- !app_assoc. exact L2.
  - intros t Hc; discriminate Hc.
Qed.

End Link2.

(* ---- the pre-passes on the emitted text (lines may contain newlines: multi-line lists) ------------------------------------------------------ *)
Lemma line_tok l : line_ok l = true -> tok_text l = true.
Proof.
  unfold line_ok, plain. intros H. apply andb_true_iff in H as [H Hf]. apply andb_true_iff in H as [H1 H2].
  apply negb_true_iff in H1. apply negb_true_iff in H2. apply tok_text_line; assumption.
Qed.
Lemma tok_unlines1 l : tok_text (unlines [l]) = tok_text l.
Proof. rewrite tok_text_unlines_cons. cbn [unlines flat_map]. rewrite tok_text_nil, andb_true_r. reflexivity. Qed.

Lemma plain_sc v : scalar_ok v = true -> plain (sc_text v) = true.
Proof.
  destruct v; cbn [scalar_ok]; intros H; try discriminate H; unfold sc_text; cbn [sval_of sval_text]; try reflexivity.
  - destruct b; reflexivity.
  - apply plain_num. exact H.
  - apply plain_quote.
Qed.
Lemma plain_comment c : comment_ok c = true -> plain c = true.
Proof. unfold comment_ok, plain. intros H. apply andb_true_iff in H as [H _]. exact H. Qed.
Lemma plain_comment_line c : comment_ok c = true -> plain (comment_line c) = true.
Proof. intros H. destruct c as [|x r]; [reflexivity|]. unfold comment_line, s_comment_pre. rewrite plain_app, (plain_comment _ H). reflexivity. Qed.
Lemma plain_trailing t : trail_ok t = true -> plain (emit_trailing t) = true.
Proof.
  destruct t as [[|x r]|]; try reflexivity. cbn [trail_ok emit_trailing]. intros H.
  rewrite plain_cons. unfold s_comment_pre. rewrite plain_app, (plain_comment _ H). reflexivity.
Qed.

(* what a list item text must satisfy for the physical lines of the multi-line layout *)
Definition itxt_ok (x : str) : bool :=
  plain x && match x with c :: _ => negb (N.eqb c c_sp) && negb (N.eqb c c_bt) | [] => false end.
Lemma itxt_of v : scalar_ok v = true -> is_scalar v = true -> itxt_ok (sc_text v) = true.
Proof.
  intros Hs Hi. destruct (is_scalar_sval _ Hi) as (sv & E). unfold itxt_ok. rewrite (plain_sc _ Hs). cbn [andb].
  destruct (sval_text_hd v sv Hs E) as (x & t & Ex & H1 & _ & H3). unfold sc_text. rewrite E, Ex.
  rewrite (neqb _ _ H1), (neqb _ _ H3). reflexivity.
Qed.
Lemma itxts_of items : forallb scalar_ok items = true -> forallb is_scalar items = true -> forallb itxt_ok (map sc_text items) = true.
Proof.
  induction items as [|x r IH]; [reflexivity|]. cbn [forallb map]. intros H1 H2.
  apply andb_true_iff in H1 as [A1 A2]. apply andb_true_iff in H2 as [B1 B2]. rewrite (itxt_of _ A1 B1), (IH A2 B2). reflexivity.
Qed.

Lemma plain_inline texts : forallb itxt_ok texts = true -> plain (body_text GNone GNone GNone texts) = true.
Proof.
  induction texts as [|x r IH]; [reflexivity|]. cbn [forallb]. intros H. apply andb_true_iff in H as [Hx Hr].
  unfold itxt_ok in Hx. apply andb_true_iff in Hx as [Hx _].
  destruct r as [|y r'].
  - cbn [body_text gap_text app]. rewrite plain_app, Hx. reflexivity.
  - change (body_text GNone GNone GNone (x :: y :: r')) with (x ++ c_comma :: body_text GNone GNone GNone (y :: r')).
    rewrite plain_app, plain_cons, Hx, (IH Hr). reflexivity.
Qed.

Lemma itxt_line D x t : itxt_ok x = true -> plain t = true -> line_ok (ind D ++ x ++ t) = true.
Proof.
  unfold itxt_ok. intros H Ht. apply andb_true_iff in H as [Hp Hh]. destruct x as [|c x']; [discriminate Hh|].
  apply andb_true_iff in Hh as [H1 H2]. apply negb_true_iff, N.eqb_neq in H1. apply negb_true_iff, N.eqb_neq in H2.
  unfold line_ok. rewrite !plain_app, plain_ind, Hp, Ht. cbn [andb app]. apply fence_free_ind; assumption.
Qed.

Lemma tt_body D : forall texts pfx sfx, texts <> [] -> forallb itxt_ok texts = true ->
  line_ok pfx = true -> line_ok (ind D ++ s_rb ++ sfx) = true ->
  tok_text (pfx ++ body_text (GNl (S D)) (GNl D) (GNl (S D)) texts ++ sfx) = true.
Proof.
  induction texts as [|x r IH]; [congruence|]. intros pfx sfx _ H Hp Hs. cbn [forallb] in H. apply andb_true_iff in H as [Hx Hr].
  destruct r as [|y r'].
  - change (body_text (GNl (S D)) (GNl D) (GNl (S D)) [x]) with ((c_nl :: ind (S D)) ++ x ++ (c_nl :: ind D) ++ s_rb).
    replace (pfx ++ ((c_nl :: ind (S D)) ++ x ++ (c_nl :: ind D) ++ s_rb) ++ sfx)
      with (pfx ++ c_nl :: ((ind (S D) ++ x ++ []) ++ c_nl :: (ind D ++ s_rb ++ sfx))).
    2:{ rewrite app_nil_r. cbn [app]. rewrite <- !app_assoc. cbn [app]. rewrite <- !app_assoc. reflexivity. }
    rewrite !tok_text_nl, (line_tok _ Hp), (line_tok _ Hs), (line_tok _ (itxt_line (S D) x [] Hx eq_refl)). reflexivity.
  - change (body_text (GNl (S D)) (GNl D) (GNl (S D)) (x :: y :: r'))
      with ((c_nl :: ind (S D)) ++ x ++ c_comma :: body_text (GNl (S D)) (GNl D) (GNl (S D)) (y :: r')).
    replace (pfx ++ ((c_nl :: ind (S D)) ++ x ++ c_comma :: body_text (GNl (S D)) (GNl D) (GNl (S D)) (y :: r')) ++ sfx)
      with (pfx ++ c_nl :: ((ind (S D) ++ x ++ [c_comma]) ++ body_text (GNl (S D)) (GNl D) (GNl (S D)) (y :: r') ++ sfx)).
    2:{ cbn [app]. rewrite <- !app_assoc. cbn [app]. reflexivity. }
    rewrite tok_text_nl, (line_tok _ Hp). cbn [andb].
    apply IH; [discriminate|exact Hr|apply itxt_line; [exact Hx|reflexivity]|exact Hs].
Qed.

(* a line  PFX value SFX  where PFX starts the physical line and SFX ends it *)
Lemma tok_val_line D v pfx sfx : cval v = true -> val_ok v = true ->
  (forall t, plain t = true -> line_ok (pfx ++ t) = true) -> plain sfx = true ->
  tok_text (pfx ++ val_text D v ++ sfx) = true.
Proof.
  intros Hc Hok Hp Hs.
  assert (Hone : forall t, plain t = true -> tok_text (pfx ++ t ++ sfx) = true).
  { intros t Ht. apply line_tok, Hp. rewrite plain_app, Ht, Hs. reflexivity. }
  destruct v; cbn [cval is_scalar sval_of] in Hc; try discriminate Hc; try (apply Hone; apply plain_sc; exact Hok).
  cbn [val_ok] in Hok. destruct items as [|x xs]; [apply Hone; reflexivity|].
  pose proof (itxts_of _ Hok Hc) as Hit. cbn [val_text]. destruct (ml (x :: xs)).
  - change (pfx ++ (c_lbr :: ?b) ++ sfx) with (pfx ++ [c_lbr] ++ b ++ sfx). rewrite app_assoc.
    apply tt_body; [discriminate|exact Hit|apply Hp; reflexivity|].
    unfold line_ok. rewrite !plain_app, plain_ind, Hs. cbn [andb]. unfold s_rb. cbn [app]. apply fence_free_ind; chr.
  - apply Hone. rewrite plain_cons, (plain_inline _ Hit). reflexivity.
Qed.

Lemma key_pfx D k u : key_ok k = true -> plain u = true -> forall t, plain t = true -> line_ok ((ind D ++ k ++ u) ++ t) = true.
Proof. intros Hk Hu t Ht. rewrite <- !app_assoc. apply line_ok_key; [exact Hk|]. rewrite plain_app, Hu, Ht. reflexivity. Qed.

Lemma tok_leading D cs : forallb comment_ok cs = true -> tok_text (unlines (emit_leading cs D)) = true.
Proof.
  induction cs as [|c cs IH]; [reflexivity|]. cbn [forallb emit_leading map]. intros H. apply andb_true_iff in H as [Hc Hcs].
  rewrite tok_text_unlines_cons. fold (emit_leading cs D). rewrite (IH Hcs), andb_true_r.
  apply line_tok. unfold line_ok. rewrite plain_app, plain_ind, (plain_comment_line _ Hc). cbn [andb].
  destruct (comment_line_hd c) as (t & ->). apply fence_free_ind; chr.
Qed.

Lemma plain_sid i : sid_ok i = true -> plain i = true.
Proof.
  unfold sid_ok. intros H. apply orb_true_iff in H as [H|H]; [apply plain_digs; exact H|].
  unfold key_ok in H. apply andb_true_iff in H as [H _]. apply andb_true_iff in H as [H _]. apply andb_true_iff in H as [H _].
  apply plain_key, word_ok_chars. exact H.
Qed.
Lemma plain_keyok k : key_ok k = true -> plain k = true.
Proof.
  unfold key_ok. intros H. apply andb_true_iff in H as [H _]. apply andb_true_iff in H as [H _]. apply andb_true_iff in H as [H _].
  apply plain_key, word_ok_chars. exact H.
Qed.

Lemma node_text_ok : forall n, core2_node n = true -> lex_safe2_node n = true -> forall D, tok_text (unlines (emit_node_lines n D)) = true.
Proof.
  apply (node_ind2 (fun n => core2_node n = true -> lex_safe2_node n = true -> forall D, tok_text (unlines (emit_node_lines n D)) = true)).
  - intros k v l t Hc Hs D. cbn [core2_node] in Hc. apply andb_true_iff in Hc as [Hcv Hne].
    cbn [lex_safe2_node] in Hs. apply andb_true_iff in Hs as [Hs Ht]. apply andb_true_iff in Hs as [Hs Hl]. apply andb_true_iff in Hs as [Hk Hv].
    destruct (assign_val_text k v D Hcv Hv) as (Etext & Hvok).
    rewrite (emit_assign_line2 k v l t D Hcv), Etext, tok_text_unlines_app, (tok_leading D l Hl), tok_unlines1. cbn [andb].
    replace (ind D ++ k ++ s_assign ++ val_text D v ++ emit_trailing t) with ((ind D ++ k ++ s_assign) ++ val_text D v ++ emit_trailing t)
      by (rewrite <- !app_assoc; reflexivity).
    apply tok_val_line; [exact Hcv|exact Hvok|apply key_pfx; [exact Hk|reflexivity]|apply plain_trailing; exact Ht].
  - intros k tg ch l IH Hc Hs D. cbn [core2_node] in Hc. destruct tg; [discriminate|].
    apply andb_true_iff in Hc as [_ Hcc]. cbn [lex_safe2_node] in Hs. apply andb_true_iff in Hs as [Hs Hss]. apply andb_true_iff in Hs as [Hk Hl].
    rewrite (emit_block_lines2 k ch l D Hcc), !tok_text_unlines_app, (tok_leading D l Hl), tok_unlines1. cbn [andb].
    rewrite (line_tok _ (line_ok_key D k ([] ++ [c_colon]) Hk eq_refl)). cbn [andb].
    induction ch as [|c cs IHc]; [reflexivity|]. inversion IH as [|? ? Pc Pcs]; subst.
    cbn [forallb] in Hcc, Hss. apply andb_true_iff in Hcc as [Hc1 Hc2]. apply andb_true_iff in Hss as [Hs1 Hs2].
    cbn [flat_map]. rewrite tok_text_unlines_app, (Pc Hc1 Hs1 (S D)), (IHc Pcs Hc2 Hs2). reflexivity.
  - intros i k a ch l IH Hc Hs D. cbn [core2_node] in Hc. apply andb_true_iff in Hc as [Hne Hc]. apply andb_true_iff in Hc as [_ Hcc].
    cbn [lex_safe2_node] in Hs. apply andb_true_iff in Hs as [Hs Hss]. apply andb_true_iff in Hs as [Hs Hl].
    apply andb_true_iff in Hs as [Hs Ha]. apply andb_true_iff in Hs as [Hi Hk].
    rewrite (emit_section_lines2 i k a ch l D), !tok_text_unlines_app, (tok_leading D l Hl), tok_unlines1. cbn [andb].
    assert (Hline : line_ok (ind D ++ [167] ++ i ++ s_assign ++ k ++ annot_text a) = true).
    { unfold line_ok. rewrite !plain_app, plain_ind, (plain_sid _ Hi), (plain_keyok _ Hk). cbn [andb].
      assert (Pa : plain (annot_text a) = true).
      { destruct a as [[|x a']|]; try reflexivity. cbn [annot_ok annot_text] in *. rewrite !plain_app, (plain_keyok _ Ha). reflexivity. }
      rewrite Pa. cbn [andb app]. apply fence_free_ind; chr. }
    rewrite (line_tok _ Hline). cbn [andb].
    induction ch as [|c cs IHc]; [reflexivity|]. inversion IH as [|? ? Pc Pcs]; subst.
    cbn [forallb] in Hcc, Hss. apply andb_true_iff in Hcc as [Hc1 Hc2]. apply andb_true_iff in Hss as [Hs1 Hs2].
    cbn [flat_map]. rewrite tok_text_unlines_app, (Pc Hc1 Hs1 (S D)), (IHc Pcs Hc2 Hs2). reflexivity.
  - intros t Hc; discriminate Hc.
Qed.

(* ---- the emitted lines of a core2 document ---------------------------------------------------------------------------------------------------- *)
Definition meta_lines (m : list (str * metaval)) : list str := match m with [] => [] | _ => s_meta_hdr :: map meta_line m end.

Lemma core2_sections_lines secs : forallb core2_node secs = true ->
  flat_map (fun n => match n with NComment _ => [] | _ => emit_node_lines n 0 end) secs = flat_map (fun n => emit_node_lines n 0) secs.
Proof.
  induction secs as [|c cs IH]; [reflexivity|]. cbn [forallb]. intros H. apply andb_true_iff in H as [H1 H2].
  cbn [flat_map]. rewrite (IH H2). destruct c; try reflexivity. discriminate H1.
Qed.

Lemma emit_lines_core2 sp d : core2_doc d = true -> lex_safe2_doc d = true ->
  emit_lines sp d = grammar_lines d ++ [s_env ++ dname d ++ s_env] ++ meta_lines (dmeta d) ++ (if dsep d then [s_sep] else []) ++
                    flat_map (fun n => emit_node_lines n 0) (dsections d) ++ emit_leading (dtrailing d) 0 ++ [s_end].
Proof.
  destruct d as [name gr fr sep meta secs trl]. unfold core2_doc, lex_safe2_doc, emit_lines, grammar_lines.
  cbn [dfront dmeta dtrailing dsections dgrammar dname dsep].
  destruct fr; [discriminate|]. intros Hc Hs.
  apply andb_true_iff in Hc as [Hc _]. apply andb_true_iff in Hc as [Hc _]. apply andb_true_iff in Hc as [Hc Hm]. apply andb_true_iff in Hc as [Hc _].
  apply andb_true_iff in Hs as [Hs _]. apply andb_true_iff in Hs as [Hs _]. apply andb_true_iff in Hs as [Hs _]. apply andb_true_iff in Hs as [_ Hg].
  rewrite (core2_sections_lines _ Hc). cbn [app].
  assert (Eg : match truthy gr with Some g => [s_octave ++ g] | None => [] end = match gr with Some g => [s_octave ++ g] | None => [] end).
  { destruct gr as [g|]; [|reflexivity]. destruct (ver_ok_nonempty _ Hg) as (x & r & ->). reflexivity. }
  rewrite Eg. destruct meta as [|kv m]; [reflexivity|].
  cbv zeta. rewrite (emit_meta_lines_core _ Hm). reflexivity.
Qed.

Lemma meta_field_parts kv : meta_field_ok kv = true -> meta_ok kv = true ->
  exists v, snd kv = MV v /\ cval v = true /\ key_ok (fst kv) = true /\ meta_line kv = ind 1 ++ fst kv ++ s_assign ++ val_text 1 v ++ emit_trailing None /\
            val_ok v = true.
Proof.
  unfold meta_field_ok, meta_ok, meta_line. destruct (snd kv) as [v|]; [|discriminate]. intros Hc H. apply andb_true_iff in H as [Hk Hv].
  destruct (meta_val_text v 1 Hc Hv) as (E & Hok). exists v. split; [reflexivity|]. split; [exact Hc|]. split; [exact Hk|].
  split; [rewrite E; cbn [emit_trailing]; rewrite app_nil_r; reflexivity|exact Hok].
Qed.

Lemma emit_text_ok sp d : core2_doc d = true -> lex_safe2_doc d = true -> tok_text (emit sp d) = true.
Proof.
  intros Hc Hs. rewrite emit_unlines, (emit_lines_core2 sp d Hc Hs).
  destruct d as [name gr fr sep meta secs trl]. unfold core2_doc, lex_safe2_doc, grammar_lines in *.
  cbn [dfront dmeta dtrailing dsections dgrammar dname dsep] in *.
  destruct fr; [discriminate|].
  apply andb_true_iff in Hc as [Hc _]. apply andb_true_iff in Hc as [Hc _]. apply andb_true_iff in Hc as [Hc Hmf]. apply andb_true_iff in Hc as [Hc _].
  apply andb_true_iff in Hs as [Hs Htr]. apply andb_true_iff in Hs as [Hs Hm]. apply andb_true_iff in Hs as [Hs Hn]. apply andb_true_iff in Hs as [Hname Hg].
  assert (A1 : tok_text (unlines (match gr with Some g => [s_octave ++ g] | None => [] end)) = true).
  { destruct gr as [g|]; [|reflexivity]. rewrite tok_unlines1. apply line_tok. unfold line_ok. rewrite plain_app, (plain_ver _ Hg). reflexivity. }
  assert (A2 : tok_text (s_env ++ name ++ s_env) = true).
  { apply line_tok. unfold line_ok. unfold name_ok in Hname. apply andb_true_iff in Hname as [Hw _].
    rewrite !plain_app, (plain_key _ (word_ok_chars _ Hw)). reflexivity. }
  assert (A3 : tok_text (unlines (meta_lines meta)) = true).
  { unfold meta_lines. destruct meta as [|kv0 m0]; [reflexivity|]. set (m := kv0 :: m0) in *. clearbody m.
    rewrite tok_text_unlines_cons. change (tok_text s_meta_hdr) with true. cbn [andb].
    induction m as [|kv m IH]; [reflexivity|]. cbn [forallb map] in *.
    apply andb_true_iff in Hmf as [F1 F2]. apply andb_true_iff in Hm as [M1 M2].
    rewrite tok_text_unlines_cons, (IH F2 M2), andb_true_r.
    destruct (meta_field_parts kv F1 M1) as (v & _ & Hcv & Hk & -> & Hok).
    replace (ind 1 ++ fst kv ++ s_assign ++ val_text 1 v ++ emit_trailing None) with ((ind 1 ++ fst kv ++ s_assign) ++ val_text 1 v ++ [])
      by (rewrite <- !app_assoc; reflexivity).
    apply tok_val_line; [exact Hcv|exact Hok|apply key_pfx; [exact Hk|reflexivity]|reflexivity]. }
  assert (A4 : tok_text (unlines (if sep then [s_sep] else [])) = true) by (destruct sep; reflexivity).
  assert (A5 : tok_text (unlines (flat_map (fun n => emit_node_lines n 0) secs)) = true).
  { clear -Hc Hn. induction secs as [|c cs IH]; [reflexivity|]. cbn [forallb] in Hc, Hn.
    apply andb_true_iff in Hc as [Hc1 Hc2]. apply andb_true_iff in Hn as [Hn1 Hn2].
    cbn [flat_map]. rewrite tok_text_unlines_app, (node_text_ok c Hc1 Hn1 0%nat), (IH Hc2 Hn2). reflexivity. }
  rewrite !tok_text_unlines_app, A1, A3, A4, A5, (tok_leading 0 trl Htr), !tok_unlines1, A2. reflexivity.
Qed.

Section Doc2.
Variable cls : N -> N.

Lemma all_L2_nodes ns : Forall (L2_node cls) ns.
Proof. apply Forall_forall. intros n _. apply all_L2_node. Qed.

Lemma key_ok_META : key_ok [77;69;84;65] = true.
Proof. vm_compute. reflexivity. Qed.

Lemma lex_meta_fields m : forall st rest, forallb meta_field_ok m = true -> forallb meta_ok m = true ->
  ls_in st = unlines (map meta_line m) ++ rest -> ready st ->
  exists st', lexto cls st (flat_map (fun kv => indent_sh 1 ++ [(IDENTIFIER, Some (TVText (fst kv))); (ASSIGN, None)] ++
                                      (match snd kv with MV v => val_sh ml 1 v | MD _ => [] end) ++ [(NEWLINE, None)]) m) st' /\
              ls_in st' = rest /\ ready st'.
Proof.
  induction m as [|kv m IH]; intros st rest Hf Hm Hin Hr.
  - exists st. split; [apply lexto_refl|split; [exact Hin|exact Hr]].
  - cbn [forallb map] in *. apply andb_true_iff in Hf as [F1 F2]. apply andb_true_iff in Hm as [M1 M2].
    destruct (meta_field_parts kv F1 M1) as (v & Ev & Hcv & Hk & El & Hok).
    rewrite unlines_cons, El, <- app_assoc in Hin. cbn [app] in Hin.
    destruct (lex_kv_line cls 1 (fst kv) v None st _ Hk Hcv Hok eq_refl eq_refl Hin Hr) as (st1 & L1 & I1 & R1).
    destruct (IH st1 rest F2 M2 I1 R1) as (st2 & L2 & I2 & R2).
    exists st2. split; [|split; assumption]. cbn [flat_map]. rewrite Ev. eapply lexto_trans; [exact L1|exact L2].
Qed.

Lemma lex_doc2 sp d : core2_doc d = true -> lex_safe2_doc d = true ->
  forall st, ls_in st = emit sp d -> ls_pos st = 0 -> ls_spans st = [] ->
  exists st', lexto cls st (doc2_sh ml idnum_digits d ++ [(NEWLINE, None)]) st' /\ ls_in st' = [].
Proof.
  intros Hc Hs st Hin Hp Hsp. rewrite emit_unlines, (emit_lines_core2 sp d Hc Hs) in Hin.
  destruct d as [name gr fr sep meta secs trl]. unfold core2_doc, lex_safe2_doc, grammar_lines, doc2_sh in *.
  cbn [dfront dmeta dtrailing dsections dgrammar dname dsep] in *.
  destruct fr; [discriminate|].
  apply andb_true_iff in Hc as [Hc _]. apply andb_true_iff in Hc as [Hc _]. apply andb_true_iff in Hc as [Hc Hmf]. apply andb_true_iff in Hc as [Hc _].
  apply andb_true_iff in Hs as [Hs Htr]. apply andb_true_iff in Hs as [Hs Hm]. apply andb_true_iff in Hs as [Hs Hn]. apply andb_true_iff in Hs as [Hname Hg].
  rewrite !unlines_app, <- ?app_assoc in Hin.
  set (TAIL := unlines (meta_lines meta) ++ unlines (if sep then [s_sep] else []) ++
               unlines (flat_map (fun n => emit_node_lines n 0) secs) ++ unlines (emit_leading trl 0) ++ unlines [s_end]) in *.
  (* grammar line *)
  assert (HA : exists st1, lexto cls st (match gr with Some g => [(GRAMMAR_SENTINEL, Some (TVText g)); (NEWLINE, None)] | None => [] end) st1 /\
                           ls_in st1 = s_env ++ name ++ s_env ++ c_nl :: TAIL /\ ls_spans st1 = []).
  { destruct gr as [g|].
    - cbn [unlines flat_map] in Hin. rewrite ?app_nil_r, <- ?app_assoc in Hin. cbn [app] in Hin.
      destruct (T_sentinel cls st g _ Hg Hin Hp Hsp) as (st0 & T0).
      assert (S0 : ls_spans st0 = []) by (rewrite (tstep_spans _ _ _ _ _ _ _ T0); exact Hsp).
      destruct (lex_newline cls st0 _ (tstep_in _ _ _ _ _ _ _ T0) S0) as (st1 & L1 & I1 & (_ & _ & S1)).
      exists st1. split; [|split; [exact I1|exact S1]].
      change [(GRAMMAR_SENTINEL, Some (TVText g)); (NEWLINE, None)] with ([(GRAMMAR_SENTINEL, Some (TVText g))] ++ [(NEWLINE, None)]).
      eapply lexto_trans; [|exact L1]. eapply lexto_tstep; [exact T0|reflexivity|right; reflexivity].
    - cbn [unlines flat_map app] in Hin. rewrite ?app_nil_r, <- ?app_assoc in Hin. cbn [app] in Hin.
      exists st. split; [apply lexto_refl|split; [exact Hin|exact Hsp]]. }
  destruct HA as (st1 & L1 & I1 & S1). clear Hin Hp Hsp.
  (* envelope start *)
  destruct (T_env_start cls st1 name _ Hname I1 S1) as (st2 & T2).
  assert (S2 : ls_spans st2 = []) by (rewrite (tstep_spans _ _ _ _ _ _ _ T2); exact S1).
  destruct (lex_newline cls st2 _ (tstep_in _ _ _ _ _ _ _ T2) S2) as (st3 & L3 & I3 & R3).
  subst TAIL.
  (* META *)
  assert (HM : exists st4, lexto cls st3 (meta_sh ml meta) st4 /\
                           ls_in st4 = unlines (if sep then [s_sep] else []) ++ unlines (flat_map (fun n => emit_node_lines n 0) secs) ++
                                       unlines (emit_leading trl 0) ++ unlines [s_end] /\ ready st4).
  { destruct meta as [|kv0 m0]; [exists st3; split; [apply lexto_refl|split; [exact I3|exact R3]]|].
    set (m := kv0 :: m0) in *. unfold meta_lines in I3. cbn [meta_sh]. fold m.
    change (match m with [] => [] | _ :: _ => s_meta_hdr :: map meta_line m end) with (s_meta_hdr :: map meta_line m) in I3.
    rewrite unlines_cons, <- app_assoc in I3. cbn [app] in I3.
    destruct (lex_block_header cls 0 [77;69;84;65] st3 _ key_ok_META I3 R3) as (st4 & L4 & I4 & R4).
    destruct (lex_meta_fields m st4 _ Hmf Hm I4 R4) as (st5 & L5 & I5 & R5).
    exists st5. split; [|split; assumption]. eapply lexto_trans; [exact L4|exact L5]. }
  destruct HM as (st4 & L4 & I4 & R4).
  (* separator *)
  assert (HB : exists st5, lexto cls st4 (if sep then [(SEPARATOR, None); (NEWLINE, None)] else []) st5 /\
                           ls_in st5 = unlines (flat_map (fun n => emit_node_lines n 0) secs) ++ unlines (emit_leading trl 0) ++ unlines [s_end] /\
                           ready st5).
  { destruct sep.
    - cbn [unlines flat_map app] in I4. rewrite <- ?app_assoc in I4. cbn [app] in I4.
      pose proof R4 as (_ & _ & S4).
      destruct (T_sep cls st4 _ I4 S4) as (st' & T').
      assert (S' : ls_spans st' = []) by (rewrite (tstep_spans _ _ _ _ _ _ _ T'); exact S4).
      destruct (lex_newline cls st' _ (tstep_in _ _ _ _ _ _ _ T') S') as (st5 & L5 & I5 & R5).
      exists st5. split; [|split; [exact I5|exact R5]].
      change [(SEPARATOR, None); (NEWLINE, None)] with ([(SEPARATOR, @None tvalue)] ++ [(NEWLINE, None)]).
      eapply lexto_trans; [|exact L5]. eapply lexto_tstep; [exact T'|reflexivity|left; reflexivity].
    - exists st4. split; [apply lexto_refl|split; [exact I4|exact R4]]. }
  destruct HB as (st5 & L5 & I5 & R5).
  (* sections, trailing comments *)
  destruct (lex_nodes2 cls secs (all_L2_nodes secs) Hc Hn 0%nat st5 _ I5 R5) as (st6 & L6 & I6 & R6).
  destruct (lex_lead cls 0 trl st6 _ Htr I6 R6) as (st7 & L7 & I7 & (_ & _ & S7)).
  (* envelope end + final newline *)
  cbn [unlines flat_map] in I7. rewrite app_nil_r in I7.
  destruct (T_env_end cls st7 [] I7 S7) as (st8 & T8).
  assert (S8 : ls_spans st8 = []) by (rewrite (tstep_spans _ _ _ _ _ _ _ T8); exact S7).
  destruct (lex_newline cls st8 [] (tstep_in _ _ _ _ _ _ _ T8) S8) as (st9 & L9 & I9 & _).
  exists st9. split; [|exact I9].
  rewrite <- !app_assoc.
  eapply lexto_trans; [exact L1|].
  change ([(ENVELOPE_START, Some (TVText name)); (NEWLINE, None)] ++ ?x)
    with ([(ENVELOPE_START, Some (TVText name))] ++ [(NEWLINE, @None tvalue)] ++ x).
  eapply lexto_trans; [eapply lexto_tstep; [exact T2|reflexivity|right; reflexivity]|].
  eapply lexto_trans; [exact L3|]. eapply lexto_trans; [exact L4|]. eapply lexto_trans; [exact L5|].
  eapply lexto_trans; [exact L6|]. eapply lexto_trans; [exact L7|].
  eapply lexto_trans; [|exact L9]. eapply lexto_tstep; [exact T8|reflexivity|left; reflexivity].
Qed.

(* (1) THE LEXER HALF for core2 documents *)
Theorem lex_emit_core2 sp d : core2_doc d = true -> lex_safe2_doc d = true ->
  exists ts tnl teof,
    tokenize cls false (lines_of (emit sp d)) = LexOk (ts ++ [tnl; teof]) [] /\
    Forall2 tmatch ts (doc2_sh ml idnum_digits d) /\ tk tnl = NEWLINE /\ tk teof = EOF.
Proof.
  intros Hc Hs.
  assert (Hfr : dfront d = None).
  { revert Hc. unfold core2_doc. destruct (dfront d); [discriminate|reflexivity]. }
  rewrite (tokenize_tok_text cls false _ (emit_text_ok sp d Hc Hs) (emit_nonblank_head sp d Hfr)).
  set (st0 := mkLS (emit sp d) None 0 1 1 [] [] [] []).
  destruct (lex_doc2 sp d Hc Hs st0 eq_refl eq_refl eq_refl) as (st' & (Hst & (tsall & Ht & HF) & Hr & Hb & _) & Hin).
  rewrite (run_steps_finish cls st0 st' _ Hst Hin) by (cbn [ls_in st0]; lia).
  apply Forall2_app_inv_r in HF. destruct HF as (ts & tl & HF1 & HF2 & ->).
  inversion HF2 as [|tnl ? ? ? [Hnl _] HF3]; subst. inversion HF3; subst. cbn [fst] in Hnl.
  exists ts, tnl, (mkTok EOF TVNone (ls_line st') (ls_col st') None).
  split; [|split; [exact HF1|split; [exact Hnl|reflexivity]]].
  unfold finish. rewrite Hb, Hr, Ht. cbn [ls_brk ls_reps ls_toks st0 rev app].
  rewrite app_nil_r, rev_involutive, <- app_assoc. reflexivity.
Qed.

(* (2) THE TEXT-LEVEL ROUND TRIP for core2 documents *)
Lemma emit_first_line2 sp d : core2_doc d = true -> lex_safe2_doc d = true ->
  exists l0 r, split_on c_nl (emit sp d) = l0 :: r /\ prefixb s_dashes l0 = false.
Proof.
  intros Hc Hs. pose proof Hs as Hs'. rewrite emit_unlines, (emit_lines_core2 sp d Hc Hs). unfold grammar_lines.
  unfold lex_safe2_doc in Hs'. apply andb_true_iff in Hs' as [Hs' _]. apply andb_true_iff in Hs' as [Hs' _]. apply andb_true_iff in Hs' as [Hs' _].
  apply andb_true_iff in Hs' as [Hname Hg].
  destruct (dgrammar d) as [g|].
  - cbn [app]. rewrite unlines_cons, split_on_app.
    + eexists _, _. split; [reflexivity|reflexivity].
    + pose proof (plain_ver _ Hg) as P. unfold plain in P. apply andb_true_iff in P as [P _]. apply negb_true_iff in P.
      rewrite memb_app, P. reflexivity.
  - cbn [app]. rewrite unlines_cons, split_on_app.
    + eexists _, _. split; [reflexivity|reflexivity].
    + unfold name_ok in Hname. apply andb_true_iff in Hname as [Hw _].
      pose proof (plain_key _ (word_ok_chars _ Hw)) as P. unfold plain in P. apply andb_true_iff in P as [P _]. apply negb_true_iff in P.
      rewrite !memb_app, P. reflexivity.
Qed.

Theorem text_roundtrip_core2 numcanon holo_ok strict sp d :
  core2_doc d = true -> lex_safe2_doc d = true ->
  nums_ok2_l numcanon idnum_digits (dsections d) -> Forall (field_num_ok numcanon) (dmeta d) ->
  exists warns,
    parse_model cls numcanon holo_ok strict (lines_of (emit sp d)) = PRDoc d [] warns /\ Forall advisory warns.
Proof.
  intros Hc Hs Hnum Hmnum.
  destruct (lex_emit_core2 sp d Hc Hs) as (ts & tnl & teof & Htok & HF & _ & _).
  destruct (emit_first_line2 sp d Hc Hs) as (l0 & r & El & Hl0).
  unfold parse_model.
  rewrite (strip_frontmatter_none (u_space cls) (emit sp d) l0 r El Hl0).
  rewrite Htok.
  destruct (parse_core2_doc numcanon holo_ok strict (u_space cls) (u_alpha cls) ml idnum_digits d Hc Hnum Hmnum
              (mkPS (ts ++ [tnl; teof]) None 0 [] 0 []) ts [tnl; teof]) as (st' & Hp & (l & Hw & Hadv) & _);
    [discriminate|reflexivity|exact HF|reflexivity|].
  rewrite Hp. exists (rev (pwarns st')). split.
  - f_equal. destruct d as [name gr fr sep meta secs trl]. unfold core2_doc in Hc. cbn [dfront] in Hc.
    destruct fr; [discriminate Hc|]. reflexivity.
  - rewrite Hw. cbn [pwarns]. rewrite app_nil_r. apply Forall_rev. exact Hadv.
Qed.

End Doc2.
