(* The hypothesis holo_site of Rt/TokRoundT.v discharged for a syntactic class of holographic bracket groups:

        [ example ∧ chain ]        example : one scalar token (quoted string, number, boolean, null)
                                   chain   : (C1) one bare word                                  REQ
                                             (C3) one constraint call                             REGEX["^a$"]
                                             (C2) a flow expression that starts with a word or a call followed by an operator and is made
                                                  of words, operators other than TENSION, §-references and calls WORD[ simple tokens ]
                                                  each followed by an operator / reference       REQ∧ENUM[a,b]→§SELF     OPT→§INDEXER
   (a call as the LAST element of a longer chain, `REQ∧REGEX["^a$"]`, is not in the class: it takes the trailing-bracket path of
   parse_flow_expression; left out).

   hgroup_ok is a boolean test on the token SHAPE; hgroup_site: if the shape of raw passes the test, the text reconstructed from the shape is
   raw and the oracle accepts raw, then holo_site raw holds -- in every frame, for every token positions (the adjacency test of the call
   form is taken both ways). *)
From OV Require Import Base.Strs Lex.Lexer Syn.Ast Syn.Parser Rt.TokRound Rt.TokRound2 Rt.BareWordParse Rt.TokRound4 Rt.TokRoundT.
From Coq Require Import Lia.
Require Coq.Strings.String.
Import Coq.Strings.String.StringSyntax.
Open Scope N_scope.

Section Holo.
Variable numcanon : str -> option (bool * str).
Variable holo_ok : str -> bool.
Variable strict : bool.
Variable sp : N -> bool.

Notation pv := (parse_value numcanon holo_ok strict sp).
Notation plist := (parse_list numcanon holo_ok strict sp).
Notation plloop := (parse_list_loop numcanon holo_ok strict sp).
Notation plitem := (parse_list_item numcanon holo_ok strict sp).
Notation moved := TokRound2.moved.
Notation moved_adv := TokRound2.moved_adv.
Notation moved_trans := TokRound2.moved_trans.
Notation moved_refl := TokRound2.moved_refl.

Ltac is_step H Hk :=
  repeat rewrite (is_hd _ _ _ _ H); rewrite ?Hk;
  cbn [tkind_eqb tkind_code N.eqb Pos.eqb orb andb negb kin existsb].
Lemma moved_eq n m a b : moved n a b -> n = m -> moved m a b.
Proof. intros H <-. exact H. Qed.

(* ---- the arguments of a constraint call: simple tokens ----------------------------------------------------------------------------------- *)
Definition argtok (t : token) : Prop :=
  kin (tk t) [COMMA; IDENTIFIER; STRING; NUMBER; BOOLEAN; NULL; VARIABLE; VERSION] = true /\
  (tk t = COMMA \/ exists s, tok_to_str t = Some s).

Lemma capture_args : forall args acc f st tR nx r,
  Forall argtok args -> tk tR = LIST_END -> ptoks st = args ++ tR :: nx :: r -> (length args + 2 <= f)%nat ->
  exists parts st', capture_brackets f 1 acc st = POk parts st' /\ ptoks st' = nx :: r /\ moved (S (length args)) st st'.
Proof.
  induction args as [|a args IH]; intros acc f st tR nx r Ha HR Hst Hf.
  - cbn [app] in Hst. destruct f as [|[|f]]; try (cbn in Hf; lia).
    rewrite TokRound2.capture_eq. change (0 <? 1) with true. cbv zeta. unfold ck. rewrite (is_hd _ _ _ _ Hst), (cur_hd _ _ _ Hst), HR.
    cbn [tkind_eqb tkind_code N.eqb Pos.eqb andb negb]. change (1 - 1) with 0. change (0 <? 0) with false. cbv iota.
    rewrite TokRound2.capture_eq. change (0 <? 0) with false. cbn [andb].
    eexists; eexists. split; [reflexivity|]. split; [exact (adv_toks _ _ _ _ Hst)|exact (moved_adv _ _ _ _ Hst)].
  - inversion Ha as [|? ? [Hk Hs] Ha']; subst. cbn [app] in Hst. cbn [length] in Hf. destruct f as [|f]; [lia|].
    assert (Hne : exists t2 r2, args ++ tR :: nx :: r = t2 :: r2) by (destruct args; cbn [app]; eauto). destruct Hne as (t2 & r2 & E2). rewrite E2 in Hst.
    pose proof (adv_toks _ _ _ _ Hst) as H1. rewrite <- E2 in H1.
    rewrite TokRound2.capture_eq. change (0 <? 1) with true. cbv zeta. unfold ck. rewrite (is_hd _ _ _ _ Hst), (cur_hd _ _ _ Hst).
    assert (Hstep : exists acc', (if tkind_eqb (tk a) LIST_START then capture_brackets f (1 + 1) ([c_lbr] :: acc) (adv st)
              else if tkind_eqb (tk a) LIST_END then capture_brackets f (1 - 1) (if 0 <? 1 - 1 then [c_rbr] :: acc else acc) (adv st)
              else if tkind_eqb (tk a) COMMA then capture_brackets f 1 ([c_comma] :: acc) (adv st)
              else if kin (tk a) [COMMENT; NEWLINE; INDENT] then capture_brackets f 1 acc (adv st)
              else match tok_to_str a with Some s => capture_brackets f 1 (s :: acc) (adv st) | None => POut 1 end) = capture_brackets f 1 acc' (adv st)).
    { destruct Hs as [Hc|(s & Es)].
      - rewrite Hc. eexists. reflexivity.
      - rewrite Es. destruct (tk a); try discriminate Hk; eexists; reflexivity. }
    destruct Hstep as (acc' & Estep).
    assert (Hnote : negb (tkind_eqb (tk a) EOF) = true) by (destruct (tk a); try discriminate Hk; reflexivity).
    rewrite Hnote. cbn [andb]. rewrite Estep.
    destruct (IH acc' f (adv st) tR nx r Ha' HR H1) as (parts & st' & Hc & Hp & Hm); [lia|].
    exists parts, st'. split; [exact Hc|]. split; [exact Hp|].
    change (S (length (a :: args))) with (1 + S (length args))%nat. eapply moved_trans; [exact (moved_adv _ _ _ _ Hst)|exact Hm].
Qed.

Lemma past_args : forall args tR nx r, Forall argtok args -> tk tR = LIST_END -> past_brackets (args ++ tR :: nx :: r) 1 = tk nx.
Proof.
  induction args as [|a args IH]; intros tR nx r Ha HR.
  - cbn [app past_brackets]. rewrite HR. reflexivity.
  - inversion Ha as [|? ? [Hk _] Ha']; subst. cbn [app past_brackets]. change (1 =? 0) with false. cbv iota.
    rewrite <- (IH tR nx r Ha' HR). destruct (tk a); try discriminate Hk; reflexivity.
Qed.

Lemma comma_args : forall args tR rest d, Forall argtok args -> tk tR = LIST_END -> (1 <= d) ->
  comma_at_depth1 (args ++ tR :: rest) (d + 1) = comma_at_depth1 rest d.
Proof.
  induction args as [|a args IH]; intros tR rest d Ha HR Hd.
  - cbn [app comma_at_depth1]. rewrite HR. cbn [tkind_eqb tkind_code N.eqb Pos.eqb]. f_equal. lia.
  - inversion Ha as [|? ? [Hk _] Ha']; subst. cbn [app comma_at_depth1]. rewrite <- (IH tR rest d Ha' HR Hd).
    assert (Hd1 : (d + 1 =? 1) = false) by (apply N.eqb_neq; lia).
    destruct (tk a); try discriminate Hk; cbn [tkind_eqb tkind_code N.eqb Pos.eqb andb]; rewrite ?Hd1; reflexivity.
Qed.

(* ---- flow chains ------------------------------------------------------------------------------------------------------------------------- *)
Definition stoplist : list tkind := [COMMA; LIST_END; NEWLINE; EOF; ENVELOPE_END; ENVELOPE_START].
Definition wordk (k : tkind) : bool := kin k [IDENTIFIER; STRING; VARIABLE].
Definition hdk (ts : list token) (nx : token) : tkind := match ts with t :: _ => tk t | [] => tk nx end.
Lemma hdk_app ts nx r : exists t0 r0, ts ++ nx :: r = t0 :: r0 /\ tk t0 = hdk ts nx.
Proof. destruct ts as [|t ts]; cbn [app hdk]; eauto. Qed.

(* the token lists flow_loop consumes completely when the token nx (the closing bracket of the group) follows *)
Inductive FC : list token -> token -> Prop :=
| FC_nil nx : tk nx = LIST_END -> FC [] nx
| FC_op t ts nx : is_eop (tk t) = true -> tk t <> TENSION -> FC ts nx -> FC (t :: ts) nx
| FC_ref tS tX ts nx : tk tS = SECTION -> (tk tX = IDENTIFIER \/ (tk tX = NUMBER /\ exists s, tok_to_str tX = Some s)) ->
                       FC ts nx -> FC (tS :: tX :: ts) nx
| FC_word t ts nx : wordk (tk t) = true -> tkind_eqb (hdk ts nx) LIST_START = false -> FC ts nx -> FC (t :: ts) nx
| FC_call t tL args tR ts nx : wordk (tk t) = true -> tk tL = LIST_START -> Forall argtok args -> tk tR = LIST_END ->
                               kin (hdk ts nx) stoplist = false -> FC ts nx -> FC (t :: tL :: args ++ tR :: ts) nx.

Lemma flow_eq f acc tension first_t st :
  flow_loop (S f) acc tension first_t st =
      let k := ck st in
      let t := cur st in
      if is_eop k then
        let st1 := if tkind_eqb k FLOW && N.eqb (pbdepth st) 0 then warn (mkW 10 (tline t) (tcol t) (text_of t) [] [] []) st else st in
        let st2 := if tkind_eqb k CONSTRAINT && N.eqb (pbdepth st) 0 then warn (mkW 11 (tline t) (tcol t) (text_of t) [] [] []) st1 else st1 in
        let '(tension', first') := if tkind_eqb k TENSION then (tension + 1, match first_t with None => Some t | x => x end) else (tension, first_t) in
        flow_loop f (text_of t :: acc) tension' first' (adv st2)
      else if tkind_eqb k SECTION then
        do (s, st1) <- section_ref st;
        flow_loop f (s :: acc) tension first_t st1
      else if kin k [IDENTIFIER; STRING; VARIABLE] then
        let st1 := adv st in
        if is LIST_START st1 &&
           negb (kin (peek_past_brackets (ptoks st1)) [COMMA; LIST_END; NEWLINE; EOF; ENVELOPE_END; ENVELOPE_START]) then
          do (b, st2) <- embedded_brackets st1;
          flow_loop f (b :: text_of t :: acc) tension first_t st2
        else flow_loop f (text_of t :: acc) tension first_t st1
      else POk (rev acc, tension, first_t) st.
Proof. reflexivity. Qed.

Lemma flow_chain ts nx : FC ts nx -> forall acc f st r,
  ptoks st = ts ++ nx :: r -> pbdepth st = 1 -> (length ts + 1 <= f)%nat ->
  exists parts st', flow_loop f acc 0 None st = POk (parts, 0, None) st' /\ ptoks st' = nx :: r /\ moved (length ts) st st'.
Proof.
  induction 1 as [nx Hnx | t ts nx Hop Hnt _ IH | tS tX ts nx HS HX _ IH | t ts nx Hw Hnl _ IH | t tL args tR ts nx Hw HL Ha HR Hns _ IH];
    intros acc f st r Hst Hdep Hf.
  - cbn [app] in Hst. destruct f as [|f]; [cbn in Hf; lia|]. rewrite flow_eq. cbv zeta. unfold ck. rewrite (cur_hd _ _ _ Hst), Hnx.
    cbn [is_eop kin existsb tkind_eqb tkind_code N.eqb Pos.eqb orb]. eexists; eexists. split; [reflexivity|]. split; [exact Hst|apply moved_refl].
  - cbn [app] in Hst. cbn [length] in Hf. destruct f as [|f]; [lia|].
    destruct (hdk_app ts nx r) as (t0 & r0 & E0 & _). rewrite E0 in Hst. pose proof (adv_toks _ _ _ _ Hst) as H1. rewrite <- E0 in H1.
    rewrite flow_eq. cbv zeta. unfold ck. rewrite (cur_hd _ _ _ Hst), Hop, Hdep. change (1 =? 0) with false. rewrite !Bool.andb_false_r.
    assert (HT : tkind_eqb (tk t) TENSION = false) by (destruct (tk t); try reflexivity; congruence). rewrite HT.
    destruct (IH (text_of t :: acc) f (adv st) r H1) as (parts & st' & Hl & Hp & Hm); [rewrite adv_depth; exact Hdep|lia|].
    exists parts, st'. split; [exact Hl|]. split; [exact Hp|]. change (length (t :: ts)) with (1 + length ts)%nat.
    eapply moved_trans; [exact (moved_adv _ _ _ _ Hst)|exact Hm].
  - cbn [app] in Hst. cbn [length] in Hf. destruct f as [|f]; [lia|].
    destruct (hdk_app ts nx r) as (t0 & r0 & E0 & _). rewrite E0 in Hst.
    pose proof (adv_toks _ _ _ _ Hst) as H1. pose proof (adv_toks _ _ _ _ H1) as H2. rewrite <- E0 in H2.
    rewrite flow_eq. cbv zeta. unfold ck. rewrite (cur_hd _ _ _ Hst), HS.
    cbn [is_eop kin existsb tkind_eqb tkind_code N.eqb Pos.eqb orb].
    assert (Href : exists s, section_ref st = POk s (adv (adv st))).
    { unfold section_ref. destruct HX as [HX|[HX (s & Es)]]; is_step H1 HX; rewrite (cur_hd _ _ _ H1); [eexists; reflexivity|rewrite Es; eexists; reflexivity]. }
    destruct Href as (s & Es). rewrite Es. cbn [bind].
    destruct (IH (s :: acc) f (adv (adv st)) r H2) as (parts & st' & Hl & Hp & Hm); [rewrite !adv_depth; exact Hdep|lia|].
    exists parts, st'. split; [exact Hl|]. split; [exact Hp|]. change (length (tS :: tX :: ts)) with (1 + (1 + length ts))%nat.
    eapply moved_trans; [exact (moved_adv _ _ _ _ Hst)|]. eapply moved_trans; [exact (moved_adv _ _ _ _ H1)|exact Hm].
  - cbn [app] in Hst. cbn [length] in Hf. destruct f as [|f]; [lia|].
    destruct (hdk_app ts nx r) as (t0 & r0 & E0 & Ek0). rewrite E0 in Hst. pose proof (adv_toks _ _ _ _ Hst) as H1.
    rewrite flow_eq. cbv zeta. unfold ck. rewrite (cur_hd _ _ _ Hst).
    assert (Hk : is_eop (tk t) = false /\ tkind_eqb (tk t) SECTION = false) by (unfold wordk in Hw; destruct (tk t); try discriminate Hw; split; reflexivity).
    destruct Hk as [-> ->]. unfold wordk in Hw. rewrite Hw. rewrite (is_hd _ _ _ LIST_START H1), Ek0, Hnl. cbn [andb].
    rewrite <- E0 in H1.
    destruct (IH (text_of t :: acc) f (adv st) r H1) as (parts & st' & Hl & Hp & Hm); [rewrite adv_depth; exact Hdep|lia|].
    exists parts, st'. split; [exact Hl|]. split; [exact Hp|]. change (length (t :: ts)) with (1 + length ts)%nat.
    eapply moved_trans; [exact (moved_adv _ _ _ _ Hst)|exact Hm].
  - destruct (hdk_app ts nx r) as (t0 & r0 & E0 & Ek0).
    assert (Hst' : ptoks st = t :: tL :: args ++ tR :: t0 :: r0) by (rewrite Hst; cbn [app]; rewrite <- app_assoc; cbn [app]; rewrite E0; reflexivity).
    cbn [length] in Hf. rewrite app_length in Hf. cbn [length] in Hf. destruct f as [|f]; [lia|].
    pose proof (adv_toks _ _ _ _ Hst') as H1.
    assert (Hne : exists a1 r1, args ++ tR :: t0 :: r0 = a1 :: r1) by (destruct args; cbn [app]; eauto). destruct Hne as (a1 & r1 & E1).
    rewrite E1 in H1. pose proof (adv_toks _ _ _ _ H1) as H2. pose proof (moved_adv _ _ _ _ H1) as M1. rewrite <- E1 in H1, H2.
    rewrite flow_eq. cbv zeta. unfold ck. rewrite (cur_hd _ _ _ Hst').
    assert (Hk : is_eop (tk t) = false /\ tkind_eqb (tk t) SECTION = false) by (unfold wordk in Hw; destruct (tk t); try discriminate Hw; split; reflexivity).
    destruct Hk as [-> ->]. unfold wordk in Hw. rewrite Hw. rewrite (is_hd _ _ _ LIST_START H1), HL.
    change (tkind_eqb LIST_START LIST_START) with true. rewrite H1. unfold peek_past_brackets. rewrite HL.
    change (tkind_eqb LIST_START LIST_START) with true. cbv iota. rewrite (past_args args tR t0 r0 Ha HR), Ek0.
    unfold stoplist in Hns. rewrite Hns. cbn [negb andb].
    unfold embedded_brackets.
    destruct (capture_args args [] (fuel_of (adv st)) (adv (adv st)) tR t0 r0 Ha HR H2) as (ps & st2 & Hc & Hp2 & Hm2);
      [rewrite (fuel_of_toks _ _ H1); cbn [length]; rewrite app_length; cbn [length]; lia|].
    rewrite Hc. cbn [bind]. rewrite <- E0 in Hp2.
    destruct (IH (([c_lbr] ++ concat ps ++ [c_rbr]) :: text_of t :: acc) f st2 r Hp2) as (parts & st' & Hl & Hp & Hm);
      [destruct Hm2 as (_ & D & _); rewrite D, !adv_depth; exact Hdep|lia|].
    exists parts, st'. split; [exact Hl|]. split; [exact Hp|].
    eapply moved_eq; [eapply moved_trans; [exact (moved_adv _ _ _ _ Hst')|]; eapply moved_trans; [exact M1|]; eapply moved_trans; [exact Hm2|exact Hm]|].
    cbn [length]. rewrite app_length. cbn [length]. lia.
Qed.

(* ---- the chain after `example ∧` ----------------------------------------------------------------------------------------------------------- *)
Inductive HC : list token -> token -> Prop :=
| HC_word t nx s : tk t = IDENTIFIER -> tv t = TVText s -> has_annotation s = false -> HC [t] nx
| HC_call t tL args tR nx s : tk t = IDENTIFIER -> tv t = TVText s -> has_annotation s = false -> tk tL = LIST_START ->
                              Forall argtok args -> tk tR = LIST_END -> HC (t :: tL :: args ++ [tR]) nx
| HC_flow t rest nx : tk t = IDENTIFIER -> FC (t :: rest) nx ->
                      ((exists o r', rest = o :: r' /\ is_eop (tk o) = true) \/
                       (exists tL args tR o r', rest = tL :: args ++ tR :: o :: r' /\ tk tL = LIST_START /\ Forall argtok args /\ tk tR = LIST_END /\
                                                is_eop (tk o) = true)) ->
                      HC (t :: rest) nx.

Lemma has_annotation_built a x : has_annotation (a ++ [c_lt] ++ x ++ [c_gt]) = true.
Proof.
  unfold has_annotation. apply andb_true_intro. split.
  - unfold memb. rewrite existsb_app. apply Bool.orb_true_iff. right. reflexivity.
  - rewrite !rev_app_distr. reflexivity.
Qed.

Lemma adjacent_ident st p s : pprev st = Some p -> tk p = IDENTIFIER -> tv p = TVText s -> exists b, adjacent st = Some b.
Proof.
  intros Hp Hk Hv. unfold adjacent. rewrite Hp. destruct (negb (tline p =? tline (cur st))); [eexists; reflexivity|].
  rewrite Hk. destruct (tnorm p); [eexists; reflexivity|]. unfold value_str. rewrite Hk, Hv. eexists. reflexivity.
Qed.
Lemma adv_prev st t t2 r : ptoks st = t :: t2 :: r -> pprev (adv st) = Some t.
Proof. unfold adv. intros ->. reflexivity. Qed.

Lemma pv_hchain ts nx : HC ts nx -> tk nx = LIST_END -> forall f st r,
  ptoks st = ts ++ nx :: r -> pbdepth st = 1 ->
  exists v st', pv (S f) st = POk v st' /\ ptoks st' = nx :: r /\ moved (length ts) st st'.
Proof.
  intros H Hnx f st r Hst Hdep. destruct H as [t nx s Hk Hv Ha | t tL args tR nx s Hk Hv Ha HL Hargs HR | t rest nx Hk Hfc Htrig].
  - (* one bare word *)
    cbn [app] in Hst.
    rewrite (BareWordParse.pv_bare numcanon holo_ok strict sp f st t nx r s Hst Hk Hv ltac:(rewrite Hnx; reflexivity) Ha).
    exists (VStr s), (adv st). split; [reflexivity|]. split; [exact (adv_toks _ _ _ _ Hst)|exact (moved_adv _ _ _ _ Hst)].
  - (* one call: annotation or trailing bracket, by adjacency *)
    assert (Hst' : ptoks st = t :: tL :: args ++ tR :: nx :: r) by (rewrite Hst; cbn [app]; rewrite <- app_assoc; reflexivity).
    pose proof (adv_toks _ _ _ _ Hst') as H1.
    assert (Hne : exists a1 r1, args ++ tR :: nx :: r = a1 :: r1) by (destruct args; cbn [app]; eauto). destruct Hne as (a1 & r1 & E1).
    rewrite E1 in H1. pose proof (adv_toks _ _ _ _ H1) as H2. pose proof (moved_adv _ _ _ _ H1) as M1. rewrite <- E1 in H1, H2.
    destruct (capture_args args [] (fuel_of (adv st)) (adv (adv st)) tR nx r Hargs HR H2) as (ps & s2 & Hc & Hp2 & Hm2);
      [rewrite (fuel_of_toks _ _ H1); cbn [length]; rewrite app_length; cbn [length]; lia|].
    assert (Hmv : moved (length (t :: tL :: args ++ [tR])) st s2).
    { eapply moved_eq; [eapply moved_trans; [exact (moved_adv _ _ _ _ Hst')|]; eapply moved_trans; [exact M1|exact Hm2]|].
      cbn [length]. rewrite app_length. cbn [length]. lia. }
    destruct (adjacent_ident (adv st) t s (adv_prev _ _ _ _ Hst') Hk Hv) as (b & Eadj).
    rewrite BareWordParse.pv_ident_eq by (unfold ck; rewrite (cur_hd _ _ _ Hst'); exact Hk).
    cbv zeta. rewrite (cur_hd _ _ _ Hst'), (peek1_hd _ _ _ _ Hst'), HL.
    assert (Ht : text_of t = s) by (unfold text_of; rewrite Hv; reflexivity). rewrite !Ht.
    cbn [is_eop kin existsb tkind_eqb tkind_code N.eqb Pos.eqb orb andb].
    rewrite Hst'. cbn [tl]. unfold peek_past_brackets. rewrite HL. change (tkind_eqb LIST_START LIST_START) with true. cbv iota.
    rewrite (past_args args tR nx r Hargs HR), Hnx. cbn [is_eop kin existsb tkind_eqb tkind_code N.eqb Pos.eqb orb].
    rewrite (is_hd _ _ _ LIST_START H1), HL. change (tkind_eqb LIST_START LIST_START) with true. cbv iota. rewrite Eadj.
    assert (Hca : consume_annotation true (adv st) = POk (Some (concat ps)) s2).
    { unfold consume_annotation. rewrite (is_hd _ _ _ LIST_START H1), HL. change (tkind_eqb LIST_START LIST_START) with true. cbn [negb].
      rewrite Hc. reflexivity. }
    assert (Hnb : is BLOCK s2 = false /\ is LIST_START s2 = false /\ is_eop (ck s2) = false /\ is_vtok (ck s2) = false).
    { unfold ck. rewrite !(is_hd _ _ _ _ Hp2), (cur_hd _ _ _ Hp2), Hnx. repeat split. }
    destruct Hnb as (Hb2 & Hl2 & He2 & Hv2).
    destruct b.
    + rewrite Hca. cbn [bind]. unfold fuel_of at 1. cbn [colon_path]. rewrite Hb2. cbn [andb].
      rewrite has_annotation_built. unfold fuel_of at 1. cbn [annot_loop]. rewrite He2, Hv2. cbn [flush]. rewrite Hl2.
      eexists; eexists. split; [reflexivity|]. split; [exact Hp2|exact Hmv].
    + cbn [bind]. unfold fuel_of at 1. cbn [colon_path]. rewrite (is_hd _ _ _ BLOCK H1), HL. cbn [tkind_eqb tkind_code N.eqb Pos.eqb andb].
      rewrite Ha, H1. cbn [scan_annotation]. rewrite HL. cbn [is_eop is_vtok expr_ops value_tokens kin existsb tkind_eqb tkind_code N.eqb Pos.eqb orb andb rev app].
      unfold fuel_of at 1. cbn [word_loop]. unfold ck. rewrite (cur_hd _ _ _ H1), HL.
      cbn [is_vtok value_tokens kin existsb tkind_eqb tkind_code N.eqb Pos.eqb orb bind rev app length]. change (1 <? 1)%nat with false. cbv iota.
      unfold trailing_brackets. rewrite (is_hd _ _ _ LIST_START H1), HL. change (tkind_eqb LIST_START LIST_START) with true. cbv iota.
      rewrite Eadj, Hca. cbn [bind].
      eexists; eexists. split; [reflexivity|]. split; [exact Hp2|exact Hmv].
  - (* a flow expression *)
    cbn [app] in Hst.
    assert (Hflow : pv (S f) st = parse_flow_expression st).
    { rewrite BareWordParse.pv_ident_eq by (unfold ck; rewrite (cur_hd _ _ _ Hst); exact Hk). cbv zeta.
      destruct Htrig as [(o & r' & -> & Ho)|(tL & args & tR & o & r' & -> & HL & Hargs & HR & Ho)].
      - cbn [app] in Hst. rewrite (peek1_hd _ _ _ _ Hst), Ho. reflexivity.
      - assert (Hst' : ptoks st = t :: tL :: args ++ tR :: o :: r' ++ nx :: r) by (rewrite Hst; cbn [app]; rewrite <- app_assoc; reflexivity).
        rewrite (peek1_hd _ _ _ _ Hst'), HL. cbn [is_eop kin existsb tkind_eqb tkind_code N.eqb Pos.eqb orb andb].
        rewrite Hst'. cbn [tl]. unfold peek_past_brackets. rewrite HL. change (tkind_eqb LIST_START LIST_START) with true. cbv iota.
        rewrite (past_args args tR o (r' ++ nx :: r) Hargs HR), Ho. reflexivity. }
    rewrite Hflow. unfold parse_flow_expression.
    destruct (flow_chain (t :: rest) nx Hfc [] (fuel_of st) st r Hst Hdep) as (parts & st1 & Hl & Hp1 & Hm1);
      [rewrite (fuel_of_toks _ _ Hst); cbn [length]; rewrite app_length; cbn [length]; lia|].
    rewrite Hl. cbn [bind]. rewrite (is_hd _ _ _ LIST_START Hp1), Hnx. cbn [tkind_eqb tkind_code N.eqb Pos.eqb bind].
    eexists; eexists. split; [reflexivity|]. split; [exact Hp1|exact Hm1].
Qed.

(* ---- the bracket group  [ example ∧ chain ] ---------------------------------------------------------------------------------------------------- *)
Lemma pv_scalar_c f st t nt r sv :
  ptoks st = t :: nt :: r -> tmatch t (sval_sh sv) -> tk nt = CONSTRAINT -> TokRound.num_ok numcanon sv ->
  pv (S f) st = POk (val_of sv) (adv st).
Proof.
  intros Hts [Hk Hv] Hn Hnum.
  cbn [parse_value].
  rewrite (cur_hd _ _ _ Hts), (peek1_hd _ _ _ _ Hts), Hn.
  destruct sv as [|b|isf c|s]; cbn in Hk, Hv; rewrite Hk; cbv beta iota.
  - reflexivity.
  - rewrite Hv. reflexivity.
  - rewrite Hv. cbn in Hnum. rewrite Hnum. reflexivity.
  - unfold text_of; rewrite Hv. reflexivity.
Qed.
Lemma pv_constraint f st t r a : ptoks st = t :: r -> tk t = CONSTRAINT -> tv t = TVText a -> pv (S f) st = POk (VStr a) (adv st).
Proof. intros Hst Hk Hv. cbn [parse_value]. rewrite (cur_hd _ _ _ Hst), Hk. cbv beta iota. unfold value_str. rewrite Hk, Hv. reflexivity. Qed.

Lemma FC_comma ts nx : FC ts nx -> forall rest, comma_at_depth1 (ts ++ rest) 1 = comma_at_depth1 rest 1.
Proof.
  induction 1 as [nx Hnx | t ts nx Hop Hnt _ IH | tS tX ts nx HS HX _ IH | t ts nx Hw Hnl _ IH | t tL args tR ts nx Hw HL Ha HR Hns _ IH]; intros rest.
  - reflexivity.
  - cbn [app comma_at_depth1]. destruct (tk t); try discriminate Hop; cbn [tkind_eqb tkind_code N.eqb Pos.eqb andb]; apply IH.
  - cbn [app comma_at_depth1]. rewrite HS. cbn [tkind_eqb tkind_code N.eqb Pos.eqb andb].
    destruct HX as [E|[E _]]; rewrite E; cbn [tkind_eqb tkind_code N.eqb Pos.eqb andb]; apply IH.
  - cbn [app comma_at_depth1]. unfold wordk in Hw. destruct (tk t); try discriminate Hw; cbn [tkind_eqb tkind_code N.eqb Pos.eqb andb]; apply IH.
  - cbn [app comma_at_depth1]. rewrite HL. cbn [tkind_eqb tkind_code N.eqb Pos.eqb andb]. rewrite <- app_assoc. cbn [app].
    rewrite (comma_args args tR (ts ++ rest) 1 Ha HR ltac:(lia)). unfold wordk in Hw.
    destruct (tk t); try discriminate Hw; cbn [tkind_eqb tkind_code N.eqb Pos.eqb andb]; apply IH.
Qed.
Lemma HC_comma ts nx : HC ts nx -> forall rest, comma_at_depth1 (ts ++ rest) 1 = comma_at_depth1 rest 1.
Proof.
  intros H rest. destruct H as [t nx s Hk Hv Ha | t tL args tR nx s Hk Hv Ha HL Hargs HR | t rest0 nx Hk Hfc _].
  - cbn [app comma_at_depth1]. rewrite Hk. reflexivity.
  - cbn [app comma_at_depth1]. rewrite Hk, HL. cbn [tkind_eqb tkind_code N.eqb Pos.eqb andb]. rewrite <- app_assoc. cbn [app].
    exact (comma_args args tR rest 1 Hargs HR ltac:(lia)).
  - exact (FC_comma _ _ Hfc rest).
Qed.
(* the token after the first token of a chain is not ASSIGN (the item is not an inline-map item) *)
Lemma HC_second ts nx : HC ts nx -> tk nx = LIST_END -> forall r, exists t t2 r2, ts ++ nx :: r = t :: t2 :: r2 /\ tkind_eqb (tk t2) ASSIGN = false.
Proof.
  intros H Hnx r. destruct H as [t nx s Hk Hv Ha | t tL args tR nx s Hk Hv Ha HL Hargs HR | t rest0 nx Hk Hfc Htrig].
  - exists t, nx, r. split; [reflexivity|]. rewrite Hnx. reflexivity.
  - eexists; eexists; eexists. split; [cbn [app]; reflexivity|]. rewrite HL. reflexivity.
  - destruct Htrig as [(o & r' & -> & Ho)|(tL & args & tR & o & r' & -> & HL & _)].
    + eexists; eexists; eexists. split; [cbn [app]; reflexivity|]. destruct (tk o); try discriminate Ho; reflexivity.
    + eexists; eexists; eexists. split; [cbn [app]; reflexivity|]. rewrite HL. reflexivity.
Qed.

Definition group_toks (tL0 tex tand : token) (chain : list token) (tE : token) : list token := tL0 :: tex :: tand :: chain ++ [tE].

Theorem pv_hgroup_tok tL0 tex tand chain tE sv a f st nt r :
  ptoks st = group_toks tL0 tex tand chain tE ++ nt :: r ->
  tk tL0 = LIST_START -> tmatch tex (sval_sh sv) -> TokRound.num_ok numcanon sv -> tk tand = CONSTRAINT -> tv tand = TVText a ->
  HC chain tE -> tk tE = LIST_END -> pbdepth st = 0 ->
  holo_ok (flat_map reconstruct_tok (group_toks tL0 tex tand chain tE)) = true ->
  (8 <= f)%nat ->
  exists st', pv f st = POk (VHolo (flat_map reconstruct_tok (group_toks tL0 tex tand chain tE))) st' /\ ptoks st' = nt :: r /\
              moved (length (group_toks tL0 tex tand chain tE)) st st'.
Proof.
  intros Hst HL0 Hex Hnum Hak Hav Hch HE Hdep Hho Hf.
  set (G := group_toks tL0 tex tand chain tE) in *.
  assert (Hst' : ptoks st = tL0 :: tex :: tand :: chain ++ tE :: nt :: r).
  { rewrite Hst. unfold G, group_toks. cbn [app]. rewrite <- app_assoc. reflexivity. }
  destruct f as [|[|[|[|[|[|[|[|f]]]]]]]]; try lia.
  rewrite TokRound2.pv_list_eq by (unfold ck; rewrite (cur_hd _ _ _ Hst'); exact HL0).
  rewrite TokRound2.plist_eq. cbv zeta. unfold expect. is_step Hst' HL0. cbn [bind].
  pose proof (adv_toks _ _ _ _ Hst') as H1. rewrite adv_depth, Hdep.
  change (max_nesting <=? 0 + 1) with false. change (nesting_threshold <=? 0 + 1) with false. cbv iota. cbn [andb].
  set (st3 := set_depth (0 + 1) (adv st)).
  assert (H3 : ptoks st3 = tex :: tand :: chain ++ tE :: nt :: r) by exact H1.
  assert (Hkex : kin (tk tex) [NULL; BOOLEAN; NUMBER; STRING] = true) by (destruct Hex as [Hk _]; rewrite Hk; destruct sv; reflexivity).
  (* item 1: the example *)
  rewrite TokRound2.plloop_eq. cbv zeta.
  rewrite (skip_stop _ _ _ _ _ H3) by (destruct (tk tex); try discriminate Hkex; reflexivity).
  unfold ck at 1. rewrite (cur_hd _ _ _ H3).
  assert (K1 : kin (tk tex) [LIST_END; EOF; ENVELOPE_END] = false) by (destruct (tk tex); try discriminate Hkex; reflexivity). rewrite K1.
  rewrite (plitem_plain numcanon holo_ok strict sp _ st3 tex tand _ H3) by (right; rewrite Hak; reflexivity).
  rewrite (pv_scalar_c _ st3 tex tand _ sv H3 Hex Hak Hnum). cbn [bind].
  pose proof (adv_toks _ _ _ _ H3) as H4.
  is_step H4 Hak.
  (* item 2: the CONSTRAINT operator *)
  destruct (HC_second chain tE Hch HE (nt :: r)) as (c1 & c2 & rc & Ec & Hc2).
  rewrite TokRound2.plloop_eq. cbv zeta.
  rewrite (skip_stop _ _ _ _ _ H4) by (rewrite Hak; reflexivity).
  unfold ck at 1. rewrite (cur_hd _ _ _ H4), Hak. cbn [kin existsb tkind_eqb tkind_code N.eqb Pos.eqb orb].
  rewrite Ec in H4.
  rewrite (plitem_plain numcanon holo_ok strict sp _ (adv st3) tand c1 _ H4) by (left; rewrite Hak; reflexivity).
  rewrite (pv_constraint _ (adv st3) tand _ a H4 Hak Hav). cbn [bind].
  pose proof (adv_toks _ _ _ _ H4) as H5.
  assert (Hc1 : tk c1 = IDENTIFIER).
  { destruct Hch as [t ? s Hk _ _ | t tL args tR ? s Hk _ _ _ _ _ | t rest0 ? Hk _ _]; cbn [app] in Ec; inversion Ec; subst; exact Hk. }
  is_step H5 Hc1.
  (* item 3: the chain *)
  rewrite TokRound2.plloop_eq. cbv zeta.
  rewrite (skip_stop _ _ _ _ _ H5) by (rewrite Hc1; reflexivity).
  unfold ck at 1. rewrite (cur_hd _ _ _ H5), Hc1. cbn [kin existsb tkind_eqb tkind_code N.eqb Pos.eqb orb].
  rewrite (plitem_plain numcanon holo_ok strict sp _ (adv (adv st3)) c1 c2 rc H5) by (right; exact Hc2).
  rewrite <- Ec in H5.
  destruct (pv_hchain chain tE Hch HE (S f) (adv (adv st3)) (nt :: r) H5) as (v3 & st6 & Hv3 & Hp6 & Hm6); [rewrite !adv_depth; reflexivity|].
  rewrite Hv3. cbn [bind]. is_step Hp6 HE. cbn [rev app bind].
  is_step Hp6 HE. cbn [bind].
  pose proof (adv_toks _ _ _ _ Hp6) as H7.
  (* the slice *)
  destruct Hm6 as (Hw6 & Hd6 & Hpos6).
  pose proof (moved_adv _ _ _ _ Hst') as (Hw1 & Hd1 & Hpos1).
  pose proof (moved_adv _ _ _ _ H3) as (Hw3 & Hd3 & Hpos3). rewrite <- Ec in H4.
  assert (H4' : exists x y, tand :: chain ++ tE :: nt :: r = tand :: x :: y) by (rewrite Ec; eauto). destruct H4' as (x4 & y4 & E4).
  pose proof (adv_toks _ _ _ _ H3) as H4b. rewrite E4 in H4b. pose proof (moved_adv _ _ _ _ H4b) as (Hw4 & Hd4 & Hpos4).
  pose proof (moved_adv _ _ _ _ Hp6) as (Hw7 & Hd7 & Hpos7).
  assert (Hlen : length G = (4 + length chain)%nat) by (unfold G, group_toks; cbn [length]; rewrite app_length; cbn [length]; lia).
  assert (Hpos : ppos (adv st6) = ppos st + N.of_nat (length G)).
  { rewrite Hpos7, Hpos6, Hpos4, Hpos3. change (ppos st3) with (ppos (adv st)). rewrite Hpos1, Hlen. lia. }
  assert (Hslice : firstn (N.to_nat (ppos (set_depth (pbdepth st6 - 1) (adv st6)) - ppos st)) (ptoks st) = G).
  { cbn [set_depth ppos]. rewrite Hpos. replace (N.to_nat (ppos st + N.of_nat (length G) - ppos st)) with (length G) by lia.
    rewrite Hst. rewrite firstn_app, Nat.sub_diag, firstn_all. cbn [firstn]. apply app_nil_r. }
  rewrite Hslice.
  assert (Hholo : try_holographic holo_ok G = Some (flat_map reconstruct_tok G)).
  { unfold try_holographic.
    assert (Hex1 : existsb (fun t => tkind_eqb (tk t) CONSTRAINT) G = true).
    { unfold G, group_toks. cbn [existsb]. rewrite Hak. cbn [tkind_eqb tkind_code N.eqb Pos.eqb]. rewrite !Bool.orb_true_r. reflexivity. }
    assert (Hcm : comma_at_depth1 G 0 = false).
    { unfold G, group_toks. cbn [comma_at_depth1]. rewrite HL0. cbn [tkind_eqb tkind_code N.eqb Pos.eqb andb].
      assert (Kx : tkind_eqb (tk tex) LIST_START = false /\ tkind_eqb (tk tex) LIST_END = false /\ tkind_eqb (tk tex) COMMA = false)
        by (destruct (tk tex); try discriminate Hkex; repeat split).
      destruct Kx as (-> & -> & ->). rewrite Hak. cbn [tkind_eqb tkind_code N.eqb Pos.eqb andb].
      change (0 + 1) with 1. rewrite (HC_comma chain tE Hch [tE]). cbn [comma_at_depth1]. rewrite HE. reflexivity. }
    rewrite Hex1, Hcm. cbn [negb andb]. rewrite Hho. reflexivity. }
  rewrite Hholo.
  eexists. split; [reflexivity|]. split; [rewrite set_depth_toks; exact H7|].
  unfold TokRound2.moved. cbn [set_depth pwarns pbdepth ppos]. rewrite Hw7, Hw6, Hw4, Hw3. change (pwarns st3) with (pwarns (adv st)). rewrite Hw1.
  split; [reflexivity|]. split; [rewrite Hd6, Hd4, Hd3; cbn [st3 set_depth pbdepth]; lia|exact Hpos].
Qed.

(* ---- the class on token SHAPES (a boolean test) ------------------------------------------------------------------------------------------- *)
Definition arg_sh_ok (s : sh) : bool :=
  match fst s, snd s with
  | COMMA, _ => true
  | NULL, _ => true
  | IDENTIFIER, Some (TVText _) | STRING, Some (TVText _) | VARIABLE, Some (TVText _) | VERSION, Some (TVText _) => true
  | NUMBER, Some (TVNum _) => true
  | BOOLEAN, Some (TVBool _) => true
  | _, _ => false
  end.
Lemma arg_sh_tok t s : tmatch t s -> arg_sh_ok s = true -> argtok t.
Proof.
  intros [Hk Hv] H. unfold arg_sh_ok in H. unfold argtok. rewrite Hk. unfold tok_to_str. rewrite Hk.
  destruct (fst s); try discriminate H; try (split; [reflexivity|left; reflexivity]);
    try (split; [reflexivity|right; eexists; reflexivity]);
    destruct (snd s) as [[a|a|a| |a|? ?]|]; try discriminate H; rewrite Hv; (split; [reflexivity|right; eexists; reflexivity]).
Qed.

Fixpoint args_split (l : list sh) : option (list sh * list sh) :=
  match l with
  | [] => None
  | s :: r => if tkind_eqb (fst s) LIST_END then Some ([], r)
              else if arg_sh_ok s then match args_split r with Some (a, r') => Some (s :: a, r') | None => None end
              else None
  end.
Lemma args_split_ok l : forall args rest ts, args_split l = Some (args, rest) -> Forall2 tmatch ts l ->
  exists targs tR trest, ts = targs ++ tR :: trest /\ Forall argtok targs /\ tk tR = LIST_END /\ Forall2 tmatch trest rest /\
                         length targs = length args.
Proof.
  induction l as [|s r IH]; intros args rest ts H Hts; [discriminate H|]. cbn [args_split] in H.
  inversion Hts as [|t ? tr ? Ht Htr]; subst.
  destruct (tkind_eqb (fst s) LIST_END) eqn:EL.
  - injection H as <- <-. exists [], t, tr. split; [reflexivity|]. split; [constructor|]. split; [|split; [exact Htr|reflexivity]].
    destruct Ht as [Hk _]. rewrite Hk. destruct (fst s); try discriminate EL; reflexivity.
  - destruct (arg_sh_ok s) eqn:Ea; [|discriminate H]. destruct (args_split r) as [[a r']|] eqn:Er; [|discriminate H]. injection H as <- <-.
    destruct (IH a r' tr eq_refl Htr) as (targs & tR & trest & -> & Fa & HR & Hrest & Hlen).
    exists (t :: targs), tR, trest. split; [reflexivity|]. split; [constructor; [exact (arg_sh_tok t s Ht Ea)|exact Fa]|].
    split; [exact HR|]. split; [exact Hrest|cbn [length]; lia].
Qed.

Definition ref_ok (x : sh) : bool :=
  match fst x, snd x with IDENTIFIER, _ => true | NUMBER, Some (TVNum _) => true | _, _ => false end.
Definition hd_kind (l : list sh) : tkind := match l with x :: _ => fst x | [] => EOF end.

(* a flow chain followed by the closing bracket *)
Fixpoint fck (n : nat) (l : list sh) : bool :=
  match n with
  | O => false
  | S n' =>
      match l with
      | [] => false
      | s :: r =>
          if tkind_eqb (fst s) LIST_END then is_nil r
          else if tkind_eqb (fst s) SECTION then match r with x :: r' => ref_ok x && fck n' r' | [] => false end
          else if wordk (fst s) then
            match r with
            | x :: r' =>
                if tkind_eqb (fst x) LIST_START
                then match args_split r' with
                     | Some (args, r'') => negb (kin (hd_kind r'') stoplist) && fck n' r''
                     | None => false
                     end
                else fck n' r
            | [] => false
            end
          else is_eop (fst s) && negb (tkind_eqb (fst s) TENSION) && fck n' r
      end
  end.

Lemma hd_kind_tok ts l : Forall2 tmatch ts l -> forall body tE, ts = body ++ [tE] -> hdk body tE = hd_kind l.
Proof.
  intros H body tE E. destruct H as [|t s tr lr [Hk _] _]; [destruct body; discriminate E|].
  destruct body as [|b body']; cbn [app] in E; inversion E; subst; cbn [hdk hd_kind]; exact Hk.
Qed.

Lemma fck_FC : forall n l ts, fck n l = true -> Forall2 tmatch ts l ->
  exists body tE, ts = body ++ [tE] /\ tk tE = LIST_END /\ FC body tE.
Proof.
  induction n as [|n IH]; intros l ts H Hts; [discriminate H|]. cbn [fck] in H.
  destruct l as [|s r]; [discriminate H|]. inversion Hts as [|t ? tr ? [Hk Hv] Htr]; subst.
  destruct (tkind_eqb (fst s) LIST_END) eqn:EL.
  - destruct r; [|discriminate H]. inversion Htr; subst. exists [], t. split; [reflexivity|].
    assert (HE : tk t = LIST_END) by (rewrite Hk; destruct (fst s); try discriminate EL; reflexivity).
    split; [exact HE|exact (FC_nil t HE)].
  - destruct (tkind_eqb (fst s) SECTION) eqn:ES.
    + destruct r as [|x r']; [discriminate H|]. apply andb_prop in H. destruct H as [Hx Hr].
      inversion Htr as [|tX ? tr' ? [HXk HXv] Htr']; subst.
      destruct (IH r' tr' Hr Htr') as (body & tE & -> & HE & Hfc).
      exists (t :: tX :: body), tE. split; [reflexivity|]. split; [exact HE|].
      apply FC_ref; [rewrite Hk; destruct (fst s); try discriminate ES; reflexivity| |exact Hfc].
      unfold ref_ok in Hx. destruct (fst x) eqn:Ex; try discriminate Hx; [right|left; exact HXk].
      split; [exact HXk|]. unfold tok_to_str. rewrite HXk. destruct (snd x) as [[a|a|a| |a|? ?]|]; try discriminate Hx. rewrite HXv. eexists; reflexivity.
    + destruct (wordk (fst s)) eqn:EW.
      * destruct r as [|x r']; [discriminate H|]. inversion Htr as [|tX ? tr' ? [HXk HXv] Htr']; subst.
        assert (Hw : wordk (tk t) = true) by (rewrite Hk; exact EW).
        destruct (tkind_eqb (fst x) LIST_START) eqn:ELS.
        -- destruct (args_split r') as [[args r'']|] eqn:Ea; [|discriminate H]. apply andb_prop in H. destruct H as [Hns Hr].
           destruct (args_split_ok r' args r'' tr' Ea Htr') as (targs & tR & trest & -> & Fa & HR & Hrest & _).
           destruct (IH r'' trest Hr Hrest) as (body & tE & -> & HE & Hfc).
           exists (t :: tX :: targs ++ tR :: body), tE. split; [cbn [app]; rewrite <- app_assoc; reflexivity|]. split; [exact HE|].
           apply FC_call; try assumption.
           ++ rewrite HXk. destruct (fst x); try discriminate ELS; reflexivity.
           ++ rewrite (hd_kind_tok _ _ Hrest body tE eq_refl). apply Bool.negb_true_iff. exact Hns.
        -- destruct (IH (x :: r') (tX :: tr') H Htr) as (body & tE & E & HE & Hfc).
           exists (t :: body), tE. split; [cbn [app]; rewrite E; reflexivity|]. split; [exact HE|].
           apply FC_word; [exact Hw| |exact Hfc]. rewrite (hd_kind_tok _ _ Htr body tE E). exact ELS.
      * apply andb_prop in H. destruct H as [H Hr]. apply andb_prop in H. destruct H as [Hop Hnt].
        destruct (IH r tr Hr Htr) as (body & tE & -> & HE & Hfc).
        exists (t :: body), tE. split; [reflexivity|]. split; [exact HE|].
        apply FC_op; [rewrite Hk; exact Hop| |exact Hfc]. rewrite Hk. intros E. rewrite E in Hnt. discriminate Hnt.
Qed.

(* the chain forms, followed by the closing bracket *)
Definition is_k (k : tkind) (s : sh) : bool := tkind_eqb (fst s) k.
Definition hc_ok (l : list sh) : bool :=
  match l with
  | (IDENTIFIER, Some (TVText s)) :: r =>
      match r with
      | [x] => is_k LIST_END x && negb (has_annotation s)
      | x :: r' =>
          if is_k LIST_START x
          then match args_split r' with
               | Some (args, [y]) => is_k LIST_END y && negb (has_annotation s)
               | Some (args, o :: _) => is_eop (fst o) && fck (S (length l)) l
               | _ => false
               end
          else is_eop (fst x) && fck (S (length l)) l
      | [] => false
      end
  | _ => false
  end.

Lemma is_k_tok k t s : tmatch t s -> is_k k s = true -> tk t = k.
Proof. intros [Hk _] H. unfold is_k in H. rewrite Hk. destruct (fst s), k; try discriminate H; reflexivity. Qed.

Lemma hc_ok_HC l ts : hc_ok l = true -> Forall2 tmatch ts l -> exists body tE, ts = body ++ [tE] /\ tk tE = LIST_END /\ HC body tE.
Proof.
  intros H Hts. unfold hc_ok in H.
  destruct l as [|[k0 [v0|]] r]; try discriminate H; [|destruct k0; discriminate H].
  destruct k0; try discriminate H. destruct v0 as [s| | | | |]; try discriminate H.
  inversion Hts as [|t ? tr ? [Hk Hv] Htr]; subst. cbn [fst snd] in Hk, Hv.
  destruct r as [|x r']; [discriminate H|]. inversion Htr as [|tX ? tr' ? HX Htr']; subst.
  destruct r' as [|y r''].
  - (* one bare word *)
    inversion Htr'; subst. apply andb_prop in H. destruct H as [HE Ha]. apply Bool.negb_true_iff in Ha.
    exists [t], tX. split; [reflexivity|]. split; [exact (is_k_tok _ _ _ HX HE)|exact (HC_word t tX s Hk Hv Ha)].
  - destruct (is_k LIST_START x) eqn:ELS.
    + destruct (args_split (y :: r'')) as [[args rest]|] eqn:Ea; [|discriminate H].
      destruct (args_split_ok (y :: r'') args rest tr' Ea Htr') as (targs & tR & trest & -> & Fa & HR & Hrest & _).
      pose proof (is_k_tok _ _ _ HX ELS) as HLk.
      destruct rest as [|o rest']; [discriminate H|]. inversion Hrest as [|to ? trest' ? HO Hrest']; subst.
      destruct rest' as [|o2 rest''].
      * (* one call *)
        inversion Hrest'; subst. apply andb_prop in H. destruct H as [HE Ha]. apply Bool.negb_true_iff in Ha.
        exists (t :: tX :: targs ++ [tR]), to. split; [cbn [app]; rewrite <- app_assoc; reflexivity|].
        split; [exact (is_k_tok _ _ _ HO HE)|exact (HC_call t tX targs tR to s Hk Hv Ha HLk Fa HR)].
      * apply andb_prop in H. destruct H as [Hop Hf].
        destruct (fck_FC _ _ _ Hf Hts) as (body & tE & E & HE & Hfc).
        destruct body as [|b body']; [cbn [app] in E; inversion E; subst; destruct targs; discriminate|].
        cbn [app] in E. inversion E as [[Eb Er]]. subst b.
        exists (t :: body'), tE. split; [cbn [app]; rewrite Er; reflexivity|]. split; [exact HE|].
        apply HC_flow; [exact Hk|exact Hfc|]. right.
        (* body' ++ [tE] = tX :: targs ++ tR :: to :: trest' *)
        assert (Hb : exists r9, body' = tX :: targs ++ tR :: to :: r9).
        { inversion Hrest' as [|to2 ? trest'' ? _ _]; subst.
          assert (Hlen : (length body' = length (tX :: targs ++ tR :: to :: to2 :: trest'') - 1)%nat).
          { apply (f_equal (@length _)) in Er. rewrite app_length in Er. cbn [length] in *. lia. }
          exists (removelast (to2 :: trest'')).
          assert (Hne : to2 :: trest'' <> []) by discriminate.
          rewrite (app_removelast_last tE Hne) in Er.
          assert (E2 : tX :: targs ++ tR :: to :: removelast (to2 :: trest'') ++ [last (to2 :: trest'') tE] =
                       (tX :: targs ++ tR :: to :: removelast (to2 :: trest'')) ++ [last (to2 :: trest'') tE]).
          { cbn [app]. rewrite <- app_assoc. reflexivity. }
          rewrite E2 in Er. apply app_inj_tail in Er. destruct Er as [Er _]. symmetry. exact Er. }
        destruct Hb as (r9 & ->).
        exists tX, targs, tR, to, r9. split; [reflexivity|]. split; [exact HLk|]. split; [exact Fa|]. split; [exact HR|].
        destruct HO as [HOk _]. rewrite HOk. exact Hop.
    + apply andb_prop in H. destruct H as [Hop Hf].
      destruct (fck_FC _ _ _ Hf Hts) as (body & tE & E & HE & Hfc).
      destruct body as [|b body']; [cbn [app] in E; inversion E|].
      cbn [app] in E. inversion E as [[Eb Er]]. subst b.
      exists (t :: body'), tE. split; [cbn [app]; rewrite Er; reflexivity|]. split; [exact HE|].
      apply HC_flow; [exact Hk|exact Hfc|]. left.
      destruct body' as [|b2 body'']; [cbn [app] in Er; inversion Er; subst; inversion Htr'|].
      cbn [app] in Er. inversion Er; subst. exists b2, body''. split; [reflexivity|]. destruct HX as [HXk _]. rewrite HXk. exact Hop.
Qed.

(* ---- the group test and the site theorem ---------------------------------------------------------------------------------------------------- *)
Definition ex_sv (s : sh) : option sval :=
  match fst s, snd s with
  | NULL, _ => Some SNull
  | BOOLEAN, Some (TVBool b) => Some (SBool b)
  | STRING, Some (TVText x) => Some (SStr x)
  | NUMBER, Some (TVNum c) => match numcanon c with Some (f, c') => if str_eqb c' c then Some (SNum f c) else None | None => None end
  | _, _ => None
  end.
Lemma ex_sv_ok s sv t : ex_sv s = Some sv -> tmatch t s -> tmatch t (sval_sh sv) /\ TokRound.num_ok numcanon sv.
Proof.
  unfold ex_sv. destruct s as [k p]. cbn [fst snd]. intros H [Hk Hv]. cbn [fst snd] in Hk, Hv.
  destruct k; try discriminate H.
  - destruct p as [[a|a|a| |a|? ?]|]; try discriminate H. injection H as <-. split; [split; [exact Hk|exact Hv]|exact I].
  - destruct p as [[a|a|a| |a|? ?]|]; try discriminate H. destruct (numcanon a) as [[f c']|] eqn:En; [|discriminate H].
    destruct (str_eqb c' a) eqn:Ec; [|discriminate H]. injection H as <-. apply str_eqb_eq in Ec. subst c'.
    split; [split; [exact Hk|exact Hv]|exact En].
  - destruct p as [[a|a|a| |a|? ?]|]; try discriminate H. injection H as <-. split; [split; [exact Hk|exact Hv]|exact I].
  - injection H as <-. split; [split; [exact Hk|exact I]|exact I].
Qed.

Definition and_sh (s : sh) : bool := match s with (CONSTRAINT, Some (TVText _)) => true | _ => false end.
Definition hgroup_ok (l : list sh) : bool :=
  match l with
  | sL :: ex :: an :: rest => is_k LIST_START sL && (match ex_sv ex with Some _ => true | None => false end) && and_sh an && hc_ok rest
  | _ => false
  end.

(* the text the parser reconstructs from the tokens, computed on the shape *)
Definition tok_of (s : sh) : token := mkTok (fst s) (match snd s with Some v => v | None => TVNone end) 0 0 None.
Definition rec_sh (s : sh) : str := reconstruct_tok (tok_of s).
(* the payload is given: the text reconstruct_tok makes of a matching token is then determined by the shape.  This lemma is the ONLY place
   that looks inside reconstruct_tok, and only to see that it is a function of the kind and the payload of the token. *)
Definition rec_det (s : sh) : bool := match snd s with Some _ => true | None => false end.
Lemma rec_tok t s : tmatch t s -> rec_det s = true -> reconstruct_tok t = rec_sh s.
Proof.
  intros [Hk Hv] H. unfold rec_det in H. destruct s as [k [v|]]; [|discriminate H]. cbn [fst snd] in Hk, Hv.
  unfold rec_sh, reconstruct_tok, tok_of. cbn [tk tv fst snd]. rewrite Hk, Hv. reflexivity.
Qed.
Lemma rec_toks ts l : Forall2 tmatch ts l -> forallb rec_det l = true -> flat_map reconstruct_tok ts = flat_map rec_sh l.
Proof.
  induction 1 as [|t s ts l Ht _ IH]; intros H; [reflexivity|]. cbn [forallb] in H. apply andb_prop in H. destruct H as [H1 H2].
  cbn [flat_map]. rewrite (rec_tok t s Ht H1), (IH H2). reflexivity.
Qed.

Theorem hgroup_site (hsh : str -> list sh) raw :
  hgroup_ok (hsh raw) = true -> forallb rec_det (hsh raw) = true -> flat_map rec_sh (hsh raw) = raw -> holo_ok raw = true ->
  TokRoundT.holo_site numcanon holo_ok strict sp hsh raw.
Proof.
  intros Hok Hdet Hraw Hho tsg st nt r f Hts Hst Hdep Hnt Hf.
  pose proof (rec_toks _ _ Hts Hdet) as Hrec. rewrite Hraw in Hrec.
  unfold hgroup_ok in Hok. destruct (hsh raw) as [|sL [|ex [|an rest]]]; try discriminate Hok.
  apply andb_prop in Hok. destruct Hok as [Hok Hhc]. apply andb_prop in Hok. destruct Hok as [Hok Han]. apply andb_prop in Hok. destruct Hok as [HL Hex].
  inversion Hts as [|tL0 ? ? ? HtL H1]; subst. inversion H1 as [|tex ? ? ? Htex H2]; subst. inversion H2 as [|tand ? trest ? Htand H3]; subst.
  destruct (ex_sv ex) as [sv|] eqn:Esv; [|discriminate Hex]. destruct (ex_sv_ok ex sv tex Esv Htex) as [Htex' Hnum].
  destruct (hc_ok_HC rest trest Hhc H3) as (body & tE & -> & HE & Hch).
  assert (Ha : tk tand = CONSTRAINT /\ exists a, tv tand = TVText a).
  { destruct an as [k [v|]]; try discriminate Han; destruct k; try discriminate Han; destruct v; try discriminate Han.
    destruct Htand as [Hk Hv]. cbn [fst snd] in Hk, Hv. split; [exact Hk|eexists; exact Hv]. }
  destruct Ha as [Hak (a & Hav)].
  pose proof (is_k_tok _ _ _ HtL HL) as HL0.
  change (tL0 :: tex :: tand :: body ++ [tE]) with (group_toks tL0 tex tand body tE) in *.
  rewrite <- Hrec in Hho |- *.
  destruct (pv_hgroup_tok tL0 tex tand body tE sv a f st nt r Hst HL0 Htex' Hnum Hak Hav Hch HE Hdep Hho) as (st' & Hv & Hp & Hm).
  { unfold group_toks in Hf. cbn [length] in Hf. lia. }
  exists st'. split; [exact Hv|]. split; [exact Hp|exact Hm].
Qed.

End Holo.

(* ---- from boolean site checks to the oracle side condition of Rt/TokRoundT.parse_coret_doc ------------------------------------------------ *)
Section Sites.
Variable numcanon : str -> option (bool * str).
Variable holo_ok : str -> bool.
Variable strict : bool.
Variable sp : N -> bool.
Variable idnum : str -> bool.
Variable hsh : str -> list sh.

(* everything hgroup_site needs of one holographic raw text, as a boolean *)
Definition hsite_okb (raw : str) : bool :=
  hgroup_ok numcanon (hsh raw) && forallb rec_det (hsh raw) && str_eqb (flat_map rec_sh (hsh raw)) raw && holo_ok raw.
Lemma hsite_okb_site raw : hsite_okb raw = true -> TokRoundT.holo_site numcanon holo_ok strict sp hsh raw.
Proof.
  unfold hsite_okb. intros H. apply andb_prop in H. destruct H as [H H4]. apply andb_prop in H. destruct H as [H H3].
  apply andb_prop in H. destruct H as [H1 H2]. apply str_eqb_eq in H3.
  exact (hgroup_site numcanon holo_ok strict sp hsh raw H1 H2 H3 H4).
Qed.

(* the side conditions of a node: numbers as in TokRound2 (a Prop on the number oracle), holographic sites through the boolean test *)
Definition val_side (v : value) : Prop := match v with VHolo raw => hsite_okb raw = true | _ => TokRound2.num_ok_val numcanon v end.
Fixpoint node_side (n : node) : Prop :=
  match n with
  | NAssign _ v _ _ => val_side v
  | NBlock _ _ ch _ => (fix go (l : list node) : Prop := match l with [] => True | c :: r => node_side c /\ go r end) ch
  | NSection i _ _ ch _ =>
      TokRoundT.id_ok numcanon idnum i /\ (fix go (l : list node) : Prop := match l with [] => True | c :: r => node_side c /\ go r end) ch
  | NComment _ => True
  end.
Fixpoint nodes_side (l : list node) : Prop := match l with [] => True | c :: r => node_side c /\ nodes_side r end.

Lemma nodes_side_ok l : Forall (fun n => node_side n -> TokRoundT.nums_ok2 numcanon holo_ok strict sp idnum hsh n) l ->
  nodes_side l -> TokRoundT.nums_ok2_l numcanon holo_ok strict sp idnum hsh l.
Proof. induction 1 as [|c r Hc _ IH]; [trivial|]. intros [H1 H2]. split; [exact (Hc H1)|exact (IH H2)]. Qed.
Lemma node_side_ok n : node_side n -> TokRoundT.nums_ok2 numcanon holo_ok strict sp idnum hsh n.
Proof.
  induction n using node_ind2; intros Hs.
  - cbn [node_side val_side] in Hs. cbn [TokRoundT.nums_ok2]. destruct v; try exact Hs. cbn [TokRoundT.num_ok_valt]. exact (hsite_okb_site raw Hs).
  - rewrite TokRoundT.nums_ok2_block. apply (nodes_side_ok ch H). exact Hs.
  - rewrite TokRoundT.nums_ok2_section. destruct Hs as [Hi Hs]. split; [exact Hi|]. apply (nodes_side_ok ch H). exact Hs.
  - exact I.
Qed.
Lemma nodes_side_nums l : nodes_side l -> TokRoundT.nums_ok2_l numcanon holo_ok strict sp idnum hsh l.
Proof. apply nodes_side_ok. apply Forall_forall. intros n _. apply node_side_ok. Qed.
End Sites.
