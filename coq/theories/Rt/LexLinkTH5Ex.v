(* Rt/LexLinkTH5.v on TokRoundTEx.h1 = ["x"∧REQ∧ENUM[a,b]→§SELF] itself. *)
From OV Require Import Base.Strs Lex.Lexer Syn.Ast Syn.Emitter Syn.Parser Rt.LexLink4
     Rt.TokRound Rt.TokRoundEx Rt.TokRound2 Rt.TokRound2Ex Rt.TokRoundT Rt.TokRoundTHolo Rt.TokRoundTEx
     Rt.LexLinkBase Rt.LexLinkSteps Rt.LexLink Rt.LexLinkEx Rt.LexLink2Base Rt.LexLink2Steps Rt.LexLink2Text Rt.LexLink2
     Rt.LexLinkZText Rt.LexLinkZ Rt.LexLinkT Rt.LexLinkTH Rt.LexLinkTH2 Rt.LexLinkTH2Ex Rt.LexLinkTH3 Rt.LexLinkTH3Ex Rt.LexLinkTH4 Rt.LexLinkTH5.
Require Coq.Strings.String.
Import Coq.Strings.String.StringSyntax.
Open Scope N_scope.

Definition h1_es : list elem := [(lit "REQ", []); (lit "ENUM", [(false, lit "a"); (false, lit "b")])].
Example h1_text : h1 = chain5_text (lit "x") h1_es (Some (lit "SELF")) /\ chain5_ok h1_es (Some (lit "SELF")) = true.
Proof. split; reflexivity. Qed.
Example h1_shape_thm : hsh_lex ex_cls h1 = chain5_shape (lit "x") h1_es (Some (lit "SELF")).
Proof. exact (hsh_lex_chain5 ex_cls (lit "x") h1_es (Some (lit "SELF")) ex_cls_and_ok ex_cls_flow_ok eq_refl). Qed.
(* mixed arguments, a call in the middle, no target *)
Definition m1 : str := lit "[""a b""" ++ AND ++ lit "RANGE[""1"",x_2]" ++ AND ++ lit "OPT]".
Example m1_shape_thm : hsh_lex ex_cls m1 = chain5_shape (lit "a b") [(lit "RANGE", [(true, lit "1"); (false, lit "x_2")]); (lit "OPT", [])] None.
Proof. exact (hsh_lex_chain5 ex_cls (lit "a b") [(lit "RANGE", [(true, lit "1"); (false, lit "x_2")]); (lit "OPT", [])] None ex_cls_and_ok ex_cls_flow_ok eq_refl). Qed.
Example h1_site : hsite_okb ex2_numcanon holo_ex (hsh_lex ex_cls) h1 = true.
Proof. vm_compute. reflexivity. Qed.
Print Assumptions h1_shape_thm.
(* ---- document level: h1 itself (depth 1 and 3), next to values of the earlier classes ------------------------------------------------------------------ *)
Example decode_h1 : (hs h1, hes h1, ho h1) = (lit "x", h1_es, Some (lit "SELF")) /\ map th5_raw [h1; m1; t1; c1] = [true; true; true; true].
Proof. split; vm_compute; reflexivity. Qed.
Definition holo_5 (s : str) : bool := str_in s [h1; m1; t1; c1; g5].
Definition ex5 : doc :=
  mkDoc (lit "DOC") (Some (lit "6.0.0")) None true [(lit "TYPE", MV (VStr (lit "x y")))]
    [ NBlock (lit "FIELDS") (Some (lit "T1"))
        [ NAssign (lit "F1") (VHolo h1) [lit "TokRoundTEx.h1, depth 1"] (Some (lit "t"));
          NBlock (lit "C") (Some (lit "INDEXER"))
            [ NSection (lit "1") (lit "S") None
                [ NAssign (lit "F2") (VHolo h1) [] (Some (lit "depth 3"));
                  NAssign (lit "F3") (VHolo m1) [] None;
                  NAssign (lit "A") n1 [] None ] [];
              NAssign (lit "F6") (VHolo g5) [] None ] [];
          NAssign (lit "F7") (VHolo t1) [] None;
          NAssign (lit "L") (VList [n1; n2]) [] None ] [];
      NAssign (lit "H") (VHolo c1) [] None ]
    [].
Example ex5_ok : coreth5_doc ex5 = true /\ lex_safeth5_doc ex_cls (hsh_lex ex_cls) ex5 = true /\ lex_safeth5_doc ex_cls hsh_cls5 ex5 = true.
Proof. repeat split; vm_compute; reflexivity. Qed.
Example ex5_sides : nodes_side ex2_numcanon holo_5 ex_idnum (hsh_lex ex_cls) (dsections ex5) /\ Forall (field_num_ok ex2_numcanon) (dmeta ex5).
Proof.
  split; [|repeat constructor]. cbn [nodes_side node_side val_side dsections ex5].
  repeat split; try (intros _; eexists; reflexivity); try (vm_compute; reflexivity); try exact I.
  all: repeat constructor.
Qed.
Example ex5_rt_thm strict sp :
  exists warns, parse_model ex_cls ex2_numcanon holo_5 strict (lines_of (emit sp ex5)) = PRDoc ex5 [] warns /\ Forall advisory warns.
Proof.
  exact (text_roundtrip_coreth5 ex_cls (hsh_lex ex_cls) ex2_numcanon holo_5 strict sp ex5 (proj1 ex5_ok) (proj1 (proj2 ex5_ok)) (proj1 ex5_sides) (proj2 ex5_sides)).
Qed.
Example ex5_rt_lex_thm strict sp :
  exists warns, parse_model ex_cls ex2_numcanon holo_5 strict (lines_of (emit sp ex5)) = PRDoc ex5 [] warns /\ Forall advisory warns.
Proof.
  exact (text_roundtrip_coreth5_lex ex_cls hsh_cls5 ex2_numcanon holo_5 strict sp ex5 (proj1 ex5_ok) (proj2 (proj2 ex5_ok)) (proj1 ex5_sides) (proj2 ex5_sides)).
Qed.
Example ex5_rt_computed : parse_model ex_cls ex2_numcanon holo_5 true (lines_of (emit (fun _ => false) ex5)) = PRDoc ex5 [] [].
Proof. vm_compute. reflexivity. Qed.
Print Assumptions ex5_rt_thm.
Print Assumptions ex5_rt_lex_thm.

