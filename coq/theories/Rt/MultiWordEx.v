(* Non-vacuity of Rt/MultiWord.v through the lexer model, the text-level composition, and what the model reads at sites / for words where a
   multi-word spelling is NOT the respelling covered by the theorem. *)
From OV Require Import Base.Strs Lex.Lexer Syn.Ast Syn.Emitter Syn.Parser
     Rt.TokRound Rt.TokRoundEx Rt.LexLinkBase Rt.TokRound2 Rt.TokRound2Ex Rt.BareWordParse Rt.BareWord Rt.MultiWord.
From Coq Require Import Lia.
Require Coq.Strings.String.
Import Coq.Strings.String.StringSyntax.
Open Scope N_scope.

Definition unl (ls : list str) : str := flat_map (fun l => l ++ [c_nl]) ls.
Definition W (s : str) : word := (IDENTIFIER, TVText s).

(* ---- the example: depth 3, four multi-word sites (two in META, two in the body, one of them under the pattern key REGEX), next to quoted,
        bare and list values ------------------------------------------------------------------------------------------------------------------ *)
Definition mw_doc : doc :=
  mkDoc (lit "DOC") None None true
    [ (lit "TITLE", MV (VStr (lit "hello big world")));
      (lit "OWNER", MV (VStr (lit "alice")));
      (lit "NOTE", MV (VStr (lit "rev 42 is true not null"))) ]
    [ NAssign (lit "A") (VStr (lit "kept quoted here")) [] None;
      NBlock (lit "B") None
        [ NBlock (lit "C") None
            [ NAssign (lit "K") (VStr (lit "deep multi word value")) [lit "c"] (Some (lit "t"));
              NAssign (lit "L") (VList [VStr (lit "x y"); n1]) [] None;
              NAssign (lit "REGEX") (VStr (lit "a b")) [] None ] [] ] [] ]
    [].
(* the hand-written lenient text: the four strings written WITHOUT quotes *)
Definition mw_text : str := unl [
  lit "===DOC===";
  lit "META:";
  lit "  TITLE::hello big world";
  lit "  OWNER::alice";
  lit "  NOTE::rev 42 is true not null";
  lit "---";
  lit "A::""kept quoted here""";
  lit "B:";
  lit "  C:";
  lit "    // c";
  lit "    K::deep multi word value // t";
  lit "    L::[""x y"",1]";
  lit "    REGEX::a b";
  lit "===END===" ].

(* the spelling oracles of the example: a table of multi-word spellings, the emitter's choice everywhere else *)
Definition mw_tab : list (str * (str * list word)) :=
  [ (lit "hello big world", (lit "hello", [W (lit "big"); W (lit "world")]));
    (lit "rev 42 is true not null", (lit "rev", [(NUMBER, TVNum (lit "42")); W (lit "is"); (BOOLEAN, TVBool true); W (lit "not"); (NULL, TVNone)]));
    (lit "deep multi word value", (lit "deep", [W (lit "multi"); W (lit "word"); W (lit "value")]));
    (lit "a b", (lit "a", [W (lit "b")])) ].
Fixpoint lookup (s : str) (t : list (str * (str * list word))) : option (str * list word) :=
  match t with [] => None | (k, v) :: r => if str_eqb k s then Some v else lookup s r end.
Definition qa_ex (k s : str) : spell := match lookup s mw_tab with Some (w1, ws) => SMulti w1 ws | None => SP (qa_emit k s) end.
Definition qm_ex (s : str) : spell := match lookup s mw_tab with Some (w1, ws) => SMulti w1 ws | None => SP (qi_emit s) end.

Lemma lookup_ok s w1 ws : lookup s mw_tab = Some (w1, ws) -> multi_ok s w1 ws = true.
Proof.
  unfold mw_tab. cbn [lookup].
  repeat (match goal with |- context [str_eqb ?k s] =>
            let Ek := fresh "Ek" in destruct (str_eqb k s) eqn:Ek; [apply str_eqb_eq in Ek; subst s; intros H; injection H as <- <-; vm_compute; reflexivity|] end).
  intros H; discriminate H.
Qed.
Lemma qa_ex_ok k s : spell_ok s (qa_ex k s) = true.
Proof.
  unfold qa_ex. destruct (lookup s mw_tab) as [[w1 ws]|] eqn:El; [exact (lookup_ok s w1 ws El)|].
  cbn [spell_ok]. destruct (qa_emit k s) eqn:Eq; try reflexivity. apply Bool.negb_true_iff. exact (qa_emit_ok k s Eq).
Qed.
Lemma qm_ex_ok s : spell_ok s (qm_ex s) = true.
Proof.
  unfold qm_ex. destruct (lookup s mw_tab) as [[w1 ws]|] eqn:El; [exact (lookup_ok s w1 ws El)|].
  cbn [spell_ok]. destruct (qi_emit s) eqn:Eq; try reflexivity. apply Bool.negb_true_iff. exact (qi_emit_ok s Eq).
Qed.

Definition mw_sh : list sh := doc5_sh ex_ml ex_idnum qa_ex qm_ex qi_emit mw_doc.
Definition mw_mk : list mark := doc5_mk ex_ml qa_ex qm_ex qi_emit mw_doc.

Example mw_core : core2_doc mw_doc = true.
Proof. vm_compute. reflexivity. Qed.
Example mw_nums : nums_ok2_l ex2_numcanon ex_idnum (dsections mw_doc) /\ Forall (field_num_ok ex2_numcanon) (dmeta mw_doc).
Proof. cbn. repeat split; repeat constructor. Qed.
(* the lexer model reads the hand-written text as the spelled shape *)
Example mw_lexes :
  match tokenize ex_cls false (lines_of mw_text) with
  | LexOk toks reps => all2 tmatchb toks (mw_sh ++ [(NEWLINE, None); (EOF, None)]) = true /\ reps = []
  | _ => False
  end.
Proof. vm_compute. split; reflexivity. Qed.
(* the full model reads it as mw_doc -- the SAME document as the canonical (quoted) text -- and the warnings are: four multi_word_coalesce
   records, in document order, with the words, the resulting string and the position of the first word, plus ONE pattern_autoquote (9)
   record for REGEX::a b *)
Definition toks_of (text : str) : list token := match tokenize ex_cls false (lines_of text) with LexOk t _ => t | _ => [] end.
Example mw_parses :
  match parse_model ex_cls ex2_numcanon (fun _ => false) false (lines_of mw_text) with
  | PRDoc d reps warns =>
      d = mw_doc /\ reps = [] /\ map wsub warns = [1; 1; 1; 1; 9] /\
      filter is_mw warns = E (toks_of mw_text) mw_mk /\
      filter is_mw warns =
        [ mkW 1 3 10 (lit "hello big world") [] [lit "hello"; lit "big"; lit "world"] [];
          mkW 1 5 9 (lit "rev 42 is true not null") [] [lit "rev"; lit "42"; lit "is"; lit "true"; lit "not"; lit "null"] [];
          mkW 1 11 8 (lit "deep multi word value") [] [lit "deep"; lit "multi"; lit "word"; lit "value"] [];
          mkW 1 13 12 (lit "a b") [] [lit "a"; lit "b"] [] ]
  | _ => False
  end.
Proof. vm_compute. repeat split. Qed.
Example mw_same_as_quoted :
  match parse_model ex_cls ex2_numcanon (fun _ => false) false (lines_of mw_text),
        parse_model ex_cls ex2_numcanon (fun _ => false) false (lines_of (emit (u_space ex_cls) mw_doc)) with
  | PRDoc d1 _ w1, PRDoc d2 _ w2 => d1 = d2 /\ filter is_mw w2 = []
  | _, _ => False
  end.
Proof. vm_compute. split; reflexivity. Qed.

(* ---- the text-level composition: receipts = rewrites for ANY text whose model-lexer tokens have a spelled shape ------------------------- *)
Theorem text_multiword_checked cls numcanon holo_ok strict ml idnum qa qm qi d text ts tl reps :
  (forall k s, spell_ok s (qa k s) = true) -> (forall s, spell_ok s (qm s) = true) -> (forall s, qi s = QIdent -> has_annotation s = false) ->
  core2_doc d = true -> nums_ok2_l numcanon idnum (dsections d) -> Forall (field_num_ok numcanon) (dmeta d) ->
  strip_frontmatter (u_space cls) (lines_of text) = (lines_of text, None) ->
  tokenize cls false (lines_of text) = LexOk (ts ++ tl) reps -> tl <> [] ->
  all2 tmatchb ts (doc5_sh ml idnum qa qm qi d) = true ->
  exists warns, parse_model cls numcanon holo_ok strict (lines_of text) = PRDoc d reps warns /\
                Forall advisory5 warns /\ filter is_mw warns = E ts (doc5_mk ml qa qm qi d).
Proof.
  intros Hqa Hqm Hqi Hc Hnum Hmnum Hfm Htok Htl Hsh. apply TokRound2Ex.all2_F2 in Hsh.
  unfold parse_model. rewrite Hfm, Htok.
  destruct (parse_core5_doc numcanon holo_ok strict (u_space cls) (u_alpha cls) ml idnum qa qm qi Hqa Hqm Hqi d Hc Hnum Hmnum
              (mkPS (ts ++ tl) None 0 [] 0 []) ts tl) as (st' & Hp & ((l & Hw & Hadv & Hrs) & _));
    [exact Htl|reflexivity|exact Hsh|reflexivity|].
  rewrite Hp. exists (rev (pwarns st')). cbn [pwarns] in Hw. rewrite app_nil_r in Hw. rewrite Hw. split; [|split].
  - f_equal. destruct d as [name gr fr sep meta secs trl]. unfold core2_doc in Hc. cbn [dfront] in Hc.
    destruct fr; [discriminate Hc|]. reflexivity.
  - apply Forall_rev. exact Hadv.
  - exact Hrs.
Qed.

Example mw_by_theorem :
  exists warns, parse_model ex_cls ex2_numcanon (fun _ => false) false (lines_of mw_text) = PRDoc mw_doc [] warns /\
                Forall advisory5 warns /\ filter is_mw warns = E (firstn (length mw_sh) (toks_of mw_text)) mw_mk.
Proof.
  pose (ts := firstn (length mw_sh) (toks_of mw_text)). pose (tl := skipn (length mw_sh) (toks_of mw_text)).
  assert (E0 : tokenize ex_cls false (lines_of mw_text) = LexOk (ts ++ tl) []) by (vm_compute; reflexivity).
  apply (text_multiword_checked ex_cls ex2_numcanon (fun _ => false) false ex_ml ex_idnum qa_ex qm_ex qi_emit mw_doc mw_text ts tl []
           qa_ex_ok qm_ex_ok qi_emit_ok mw_core (proj1 mw_nums) (proj2 mw_nums)); [vm_compute; reflexivity|exact E0|vm_compute; discriminate|vm_compute; reflexivity].
Qed.

(* ---- (d) where a multi-word spelling is not the respelling of the theorem: what the model reads ------------------------------------------ *)
Definition rd (line : str) : option (list node * list pwarn * list repair) :=
  match parse_model ex_cls ex2_numcanon (fun _ => false) false (lines_of (unl [lit "===D==="; line; lit "===END==="])) with
  | PRDoc d reps w => Some (dsections d, w, reps) | _ => None end.
Definition asg (k : str) (v : value) : node := NAssign k v [] None.

(* list items: the model coalesces there too (same record); sites inside brackets are simply not part of doc5_sh *)
Example in_list_item_coalesces_too :
  rd (lit "K::[hello big world, x]") =
  Some ([asg (lit "K") (VList [VStr (lit "hello big world"); VStr (lit "x")])],
        [mkW 1 2 5 (lit "hello big world") [] [lit "hello"; lit "big"; lit "world"] []], []).
Proof. vm_compute. reflexivity. Qed.

(* a value LED by a literal / number / quoted word coalesces through another branch: the record carries a context (wb), the shape of
   the theorem (first word IDENTIFIER) does not apply *)
Example led_by_boolean : rd (lit "K::true big") =
  Some ([asg (lit "K") (VStr (lit "true big"))], [mkW 1 2 4 (lit "true big") (lit "boolean_multiword") [lit "true"; lit "big"] []], []).
Proof. vm_compute. reflexivity. Qed.
Example led_by_number : rd (lit "K::1 big") =
  Some ([asg (lit "K") (VStr (lit "1 big"))], [mkW 1 2 4 (lit "1 big") (lit "number_identifier") [lit "1"; lit "big"] []], []).
Proof. vm_compute. reflexivity. Qed.
Example led_by_quoted : rd (lit "K::""q"" big") =
  Some ([asg (lit "K") (VStr (lit """q"" big"))], [mkW 1 2 4 (lit """q"" big") (lit "string_multiword") [lit """q"""; lit "big"] []], []).
Proof. vm_compute. reflexivity. Qed.

(* a word that is an OPERATOR keyword is not a word: `a vs b` is the expression a<->b (a lexer normalisation receipt, no multi-word record);
   the value is NOT the string "a vs b" *)
Example operator_word : rd (lit "K::a vs b") = Some ([asg (lit "K") (VStr (lit "a" ++ [8652] ++ lit "b"))], [], [mkRep 0 (lit "vs") [8652] 2 6]).
Proof. vm_compute. reflexivity. Qed.
(* a word containing an operator: the words before it are reported as coalesced ("hello big"), the value is the expression
   "hello big->world" with the operator normalised -- the record's result is NOT the value *)
Example word_with_operator : rd (lit "K::hello big->world") =
  Some ([asg (lit "K") (VStr (lit "hello big" ++ [8594] ++ lit "world"))],
        [mkW 1 2 4 (lit "hello big") (lit "expression_path") [lit "hello"; lit "big"] []], [mkRep 0 (lit "->") [8594] 2 13]).
Proof. vm_compute. reflexivity. Qed.
(* a bracket group after the last word is appended to the VALUE after the record was pushed: the record's result ("hello big") is not the
   value ("hello big [x]") *)
Example trailing_bracket : rd (lit "K::hello big [x]") =
  Some ([asg (lit "K") (VStr (lit "hello big [x]"))], [mkW 1 2 4 (lit "hello big") [] [lit "hello"; lit "big"] []], []).
Proof. vm_compute. reflexivity. Qed.
(* a word with an annotation suffix `<..>`: the unified accumulator returns a LIST of three strings and NO record at all *)
Example annotated_word : rd (lit "K::hello big<x> world") =
  Some ([asg (lit "K") (VList [VStr (lit "hello"); VStr (lit "big<x>"); VStr (lit "world")])], [], []).
Proof. vm_compute. reflexivity. Qed.
(* under a pattern key the site is covered by the theorem; the model adds ONE more (advisory) record, pattern_autoquote *)
Example under_pattern_key : rd (lit "PATTERN::hello big") =
  Some ([asg (lit "PATTERN") (VStr (lit "hello big"))],
        [mkW 1 2 10 (lit "hello big") [] [lit "hello"; lit "big"] []; mkW 9 2 1 (lit "PATTERN") (lit "hello big") [] []], []).
Proof. vm_compute. reflexivity. Qed.
(* one word, and a quoted value: no record *)
Example one_word : rd (lit "K::hello") = Some ([asg (lit "K") (VStr (lit "hello"))], [], []).
Proof. vm_compute. reflexivity. Qed.
Example quoted_value : rd (lit "K::""hello big world""") = Some ([asg (lit "K") (VStr (lit "hello big world"))], [], []).
Proof. vm_compute. reflexivity. Qed.
