(* Lexer half of the round trip, part 1: generic infrastructure.
     - text/lines:   join/split inverses, `unlines`, the pre-passes fence_scan / tab_check on fence-free, tab-free text
     - a fuel-free reachability relation `steps` over Lex.Lexer.step and its link to `run` (via Lex/Progress.v)
     - first-character ("head") lemmas: which branches of step_plain cannot fire on a given first character
     - generic scanner lemmas (takeb/dropb on concatenations, scan_word on words, scan_dq_body on escaped text) *)
From OV Require Import Base.Strs Gen.LexerGen Syn.Escape Lex.Lexer Lex.Progress.
From Coq Require Import Lia.
Open Scope N_scope.

(* ---- characters ------------------------------------------------------------------------------------------ *)
Ltac chr :=
  cbv [c_nl c_tab c_cr c_sp c_dq c_bs c_n c_t c_colon c_lbr c_rbr c_comma c_lt c_gt c_dollar c_us c_dot
       c_dash c_slash c_hash c_eq c_bt c_plus c_at] in *; lia.

Lemma neqb a b : a <> b -> N.eqb a b = false.
Proof. apply N.eqb_neq. Qed.

Lemma is_digit_range c : is_digit c = true <-> 48 <= c <= 57.
Proof. unfold is_digit. rewrite andb_true_iff, !N.leb_le. tauto. Qed.
Lemma is_upper_range c : is_upper c = true <-> 65 <= c <= 90.
Proof. unfold is_upper. rewrite andb_true_iff, !N.leb_le. tauto. Qed.
Lemma is_lower_range c : is_lower c = true <-> 97 <= c <= 122.
Proof. unfold is_lower. rewrite andb_true_iff, !N.leb_le. tauto. Qed.
Lemma is_alpha_range c : is_alpha c = true <-> (65 <= c <= 90 \/ 97 <= c <= 122).
Proof. unfold is_alpha. rewrite orb_true_iff, is_upper_range, is_lower_range. tauto. Qed.
Lemma is_alnum_range c : is_alnum c = true <-> (65 <= c <= 90 \/ 97 <= c <= 122 \/ 48 <= c <= 57).
Proof. unfold is_alnum. rewrite orb_true_iff, is_alpha_range, is_digit_range. tauto. Qed.
Lemma is_digit_false c : c < 48 \/ 57 < c -> is_digit c = false.
Proof. intros H. destruct (is_digit c) eqn:E; [|reflexivity]. apply is_digit_range in E. lia. Qed.
Lemma is_alnum_false c : c < 48 \/ (57 < c /\ c < 65) \/ (90 < c /\ c < 97) \/ 122 < c -> is_alnum c = false.
Proof. intros H. destruct (is_alnum c) eqn:E; [|reflexivity]. apply is_alnum_range in E. lia. Qed.
Lemma is_ascii_lt c : c < 128 -> is_ascii c = true.
Proof. intros H. unfold is_ascii. apply N.ltb_lt. exact H. Qed.

(* identifier-like words: [A-Za-z_][A-Za-z0-9_]* *)
Definition key_start (c : N) : bool := is_alpha c || N.eqb c c_us.
Definition key_char (c : N) : bool := is_alnum c || N.eqb c c_us.
Definition word_ok (k : str) : bool :=
  match k with c :: r => key_start c && forallb key_char r | [] => false end.

Lemma key_start_range c : key_start c = true <-> (65 <= c <= 90 \/ 97 <= c <= 122 \/ c = 95).
Proof. unfold key_start. rewrite orb_true_iff, is_alpha_range, N.eqb_eq. unfold c_us. tauto. Qed.
Lemma key_char_range c : key_char c = true <-> (65 <= c <= 90 \/ 97 <= c <= 122 \/ 48 <= c <= 57 \/ c = 95).
Proof. unfold key_char. rewrite orb_true_iff, is_alnum_range, N.eqb_eq. unfold c_us. tauto. Qed.
Lemma key_start_char c : key_start c = true -> key_char c = true.
Proof. rewrite key_start_range, key_char_range. lia. Qed.
Lemma word_ok_chars k : word_ok k = true -> forallb key_char k = true.
Proof.
  destruct k as [|c r]; [discriminate|]. cbn [word_ok forallb]. intros H. apply andb_true_iff in H as [H1 H2].
  rewrite (key_start_char _ H1), H2. reflexivity.
Qed.

(* ---- lists / strings --------------------------------------------------------------------------------------- *)
Lemma takeb_app_stop p a x r : forallb p a = true -> p x = false -> takeb p (a ++ x :: r) = a.
Proof.
  induction a as [|y a IH]; cbn [forallb app takeb]; intros Ha Hx; [rewrite Hx; reflexivity|].
  apply andb_true_iff in Ha as [H1 H2]. rewrite H1, (IH H2 Hx). reflexivity.
Qed.
Lemma dropb_app_stop p a x r : forallb p a = true -> p x = false -> dropb p (a ++ x :: r) = x :: r.
Proof.
  induction a as [|y a IH]; cbn [forallb app dropb]; intros Ha Hx; [rewrite Hx; reflexivity|].
  apply andb_true_iff in Ha as [H1 H2]. rewrite H1. exact (IH H2 Hx).
Qed.
Lemma takeb_all p a : forallb p a = true -> takeb p a = a.
Proof. induction a as [|y a IH]; cbn; [reflexivity|]. intros H. apply andb_true_iff in H as [H1 H2]. rewrite H1, (IH H2). reflexivity. Qed.
Lemma dropb_all p a : forallb p a = true -> dropb p a = [].
Proof. induction a as [|y a IH]; cbn; [reflexivity|]. intros H. apply andb_true_iff in H as [H1 H2]. rewrite H1. exact (IH H2). Qed.
Lemma takeb_forallb p s : forallb p (takeb p s) = true.
Proof. induction s as [|x s IH]; cbn; [reflexivity|]. destruct (p x) eqn:E; cbn; [rewrite E; exact IH|reflexivity]. Qed.
Lemma dropb_hd p s : match dropb p s with x :: _ => p x = false | [] => True end.
Proof. induction s as [|x s IH]; cbn; [exact I|]. destruct (p x) eqn:E; [exact IH|exact E]. Qed.
Lemma forallb_impl {A} (p q : A -> bool) l : (forall x, p x = true -> q x = true) -> forallb p l = true -> forallb q l = true.
Proof. intros Hpq. induction l as [|x l IH]; cbn; [reflexivity|]. intros H. apply andb_true_iff in H as [H1 H2]. rewrite (Hpq _ H1), (IH H2). reflexivity. Qed.
Lemma skipn_app_len {A} (a b : list A) : skipn (length a) (a ++ b) = b.
Proof. induction a; cbn; [reflexivity|assumption]. Qed.
Lemma prefixb_app p r : prefixb p (p ++ r) = true.
Proof. induction p as [|x p IH]; cbn; [reflexivity|]. rewrite N.eqb_refl. exact IH. Qed.
Lemma memb_app c a b : memb c (a ++ b) = memb c a || memb c b.
Proof. unfold memb. apply existsb_app. Qed.
Lemma memb_false_forall c l : memb c l = false <-> forallb (fun x => negb (N.eqb x c)) l = true.
Proof.
  induction l as [|x l IH]; cbn; [tauto|]. rewrite orb_false_iff, andb_true_iff, IH, negb_true_iff, (N.eqb_sym x c). tauto.
Qed.
Lemma len_app a b : len (a ++ b) = len a + len b.
Proof. unfold len. rewrite app_length. lia. Qed.
Lemma len_pos_ne (m : str) p : m <> [] -> p + len m <> 0.
Proof. destruct m; [congruence|]. unfold len. cbn [length]. lia. Qed.
Lemma last_chr_app_last a x : last_chr (a ++ [x]) = Some x.
Proof. unfold last_chr. rewrite rev_app_distr. reflexivity. Qed.

Lemma join_split c s : join [c] (split_on c s) = s.
Proof.
  induction s as [|x s IH]; [reflexivity|]. cbn [split_on].
  destruct (N.eqb_spec x c) as [->|Hne].
  - destruct (split_on c s) as [|h t] eqn:E; [exfalso; exact (split_on_nonempty _ _ E)|].
    change (join [c] ([] :: h :: t)) with ([] ++ [c] ++ join [c] (h :: t)). rewrite IH. reflexivity.
  - destruct (split_on c s) as [|h t] eqn:E; [exfalso; exact (split_on_nonempty _ _ E)|].
    destruct t as [|h2 t].
    + cbn [join] in *. rewrite IH. reflexivity.
    + change (join [c] ((x :: h) :: h2 :: t)) with (x :: (h ++ [c] ++ join [c] (h2 :: t))).
      change (join [c] (h :: h2 :: t)) with (h ++ [c] ++ join [c] (h2 :: t)) in IH. rewrite IH. reflexivity.
Qed.

Definition unlines (ls : list str) : str := flat_map (fun l => l ++ [c_nl]) ls.
Lemma unlines_app a b : unlines (a ++ b) = unlines a ++ unlines b.
Proof. apply flat_map_app. Qed.
Lemma unlines_cons l ls : unlines (l :: ls) = l ++ c_nl :: unlines ls.
Proof. unfold unlines. cbn [flat_map]. rewrite <- app_assoc. reflexivity. Qed.
Lemma join_unlines ls : ls <> [] -> join [c_nl] ls ++ [c_nl] = unlines ls.
Proof.
  induction ls as [|l ls IH]; [congruence|]. intros _. destruct ls as [|l2 ls].
  - cbn. rewrite app_nil_r. reflexivity.
  - change (join [c_nl] (l :: l2 :: ls)) with (l ++ [c_nl] ++ join [c_nl] (l2 :: ls)).
    rewrite unlines_cons, <- IH by discriminate. rewrite <- !app_assoc. reflexivity.
Qed.
Lemma split_unlines ls : forallb (fun l => negb (memb c_nl l)) ls = true -> split_on c_nl (unlines ls) = ls ++ [[]].
Proof.
  induction ls as [|l ls IH]; [reflexivity|]. cbn [forallb]. intros H. apply andb_true_iff in H as [H1 H2].
  apply negb_true_iff in H1. rewrite unlines_cons, split_on_app by exact H1. rewrite (IH H2). reflexivity.
Qed.

Definition lines_of (t : str) : list (str * str) := map (fun l => (l, l)) (split_on c_nl t).

(* ---- pre-passes ------------------------------------------------------------------------------------------------ *)
Definition fence_free (l : str) : bool :=
  match dropb (N.eqb c_sp) l with c :: _ => negb (N.eqb c c_bt) | [] => true end.

Section WithCls.
Variable cls : N -> N.

Lemma fence_free_match l : fence_free l = true -> fence_match l = None.
Proof.
  unfold fence_free, fence_match. destruct (dropb (N.eqb c_sp) l) as [|c r]; [reflexivity|].
  intros H. apply negb_true_iff in H. cbn [takeb]. rewrite N.eqb_sym, H. reflexivity.
Qed.

Lemma fence_scan_plain ls : forallb fence_free ls = true ->
  forall ln off out, fence_scan cls (map (fun l => (l, l)) ls) ln off None out [] = inr (rev out ++ ls, []).
Proof.
  induction ls as [|l ls IH]; intros H ln off out.
  - cbn. rewrite app_nil_r. reflexivity.
  - cbn [forallb] in H. apply andb_true_iff in H as [H1 H2]. cbn [map fence_scan].
    rewrite (fence_free_match _ H1). rewrite (IH H2). cbn [rev]. rewrite <- app_assoc. reflexivity.
Qed.

Lemma tab_check_none s : memb c_tab s = false -> forall i l c, tab_check s i l c [] = None.
Proof.
  induction s as [|x s IH]; intros H i l c; [reflexivity|]. cbn [memb existsb] in H. apply orb_false_iff in H as [H1 H2].
  cbn [tab_check in_spans]. rewrite (N.eqb_sym x c_tab), H1. cbn [andb].
  destruct (N.eqb x c_nl); apply IH; exact H2.
Qed.

(* a text that does not start with a blank line (or a space) is lexed from offset 0: the pre-pass over leading blank
   lines (Lexer.init_state) does nothing *)
Definition nonblank_head (t : str) : bool :=
  match t with c :: _ => negb (N.eqb c c_sp) && negb (N.eqb c c_nl) | [] => true end.

Lemma init_state_nonblank t spans : nonblank_head t = true -> init_state t spans = mkLS t None 0 1 1 [] [] [] spans.
Proof.
  destruct t as [|c r]; [reflexivity|]. cbn [nonblank_head]. intros H. apply andb_true_iff in H as [H1 H2].
  apply negb_true_iff in H1, H2. unfold init_state. cbn [lead_blank]. rewrite H1, H2. reflexivity.
Qed.

Lemma tokenize_plain lenient t :
  forallb fence_free (split_on c_nl t) = true -> memb c_tab t = false -> nonblank_head t = true ->
  tokenize cls lenient (lines_of t) = run cls lenient (S (length t)) (mkLS t None 0 1 1 [] [] [] []).
Proof.
  intros Hf Ht Hn. unfold tokenize, lines_of. rewrite (fence_scan_plain _ Hf). cbn [rev app].
  rewrite join_split. rewrite (tab_check_none _ Ht). rewrite (init_state_nonblank _ _ Hn). reflexivity.
Qed.

(* ---- fuel-free reachability ------------------------------------------------------------------------------------ *)
Inductive steps : lstate -> lstate -> Prop :=
| steps_refl st : steps st st
| steps_cons st st1 st2 : step cls false st = Continue st1 -> steps st1 st2 -> steps st st2.

Lemma steps_trans a b c : steps a b -> steps b c -> steps a c.
Proof. induction 1; intros H2; [exact H2|]. eapply steps_cons; [eassumption|]. apply IHsteps. exact H2. Qed.
Lemma steps_one a b : step cls false a = Continue b -> steps a b.
Proof. intros H. eapply steps_cons; [exact H|apply steps_refl]. Qed.

Lemma run_steps st st' : steps st st' -> forall f, (length (ls_in st) < f)%nat ->
  exists f', (length (ls_in st') < f')%nat /\ run cls false f st = run cls false f' st'.
Proof.
  induction 1 as [st|st st1 st2 Hs _ IH]; intros f Hf.
  - exists f. split; [exact Hf|reflexivity].
  - pose proof (step_progress cls false st st1 Hs) as Hp.
    destruct f as [|f]; [lia|].
    destruct (IH f) as (f' & Hf' & Hr); [lia|].
    exists f'. split; [exact Hf'|]. rewrite <- Hr.
    cbn [run]. destruct (ls_in st) as [|c s'] eqn:Hin; [cbn in Hp; lia|]. rewrite Hs. reflexivity.
Qed.

Lemma run_steps_finish st st' f : steps st st' -> ls_in st' = [] -> (length (ls_in st) < f)%nat ->
  run cls false f st = finish st'.
Proof.
  intros Hs Hin Hf. destruct (run_steps _ _ Hs f Hf) as (f' & _ & Hr). rewrite Hr.
  destruct f'; cbn [run]; rewrite Hin; reflexivity.
Qed.

(* ---- head lemmas: branches of step_plain that cannot fire on first character c ----------------------------------- *)
Lemma u_digit_ascii c : c < 128 -> u_digit cls c = is_digit c.
Proof. intros H. unfold u_digit. rewrite (is_ascii_lt _ H). reflexivity. Qed.
Lemma u_digit_false c : c < 48 \/ (57 < c /\ c < 128) -> u_digit cls c = false.
Proof. intros H. rewrite u_digit_ascii by lia. apply is_digit_false. lia. Qed.
Lemma u_digit_true c : is_digit c = true -> u_digit cls c = true.
Proof. intros H. pose proof (proj1 (is_digit_range c) H). rewrite u_digit_ascii by lia. exact H. Qed.
Lemma u_word_ascii c : c < 128 -> u_word cls c = key_char c.
Proof. intros H. unfold u_word, u_alnum, key_char. rewrite (is_ascii_lt _ H). reflexivity. Qed.
Lemma u_word_key c : key_char c = true -> u_word cls c = true.
Proof. intros H. pose proof (proj1 (key_char_range c) H). rewrite u_word_ascii by lia. exact H. Qed.
Lemma u_word_false c : c < 48 \/ (57 < c /\ c < 65) \/ (90 < c /\ c < 95) \/ c = 96 \/ (122 < c /\ c < 128) -> u_word cls c = false.
Proof.
  intros H. rewrite u_word_ascii by lia. destruct (key_char c) eqn:E; [|reflexivity]. apply key_char_range in E. lia.
Qed.

Lemma hd_prefix_ne p0 p c s' : c <> p0 -> prefixb (p0 :: p) (c :: s') = false.
Proof. intros H. cbn [prefixb]. rewrite (neqb p0 c) by congruence. reflexivity. Qed.

Lemma hd_sentinel pos c s' : c <> 79 \/ pos <> 0 ->
  (if N.eqb pos 0 then scan_sentinel cls (c :: s') else None) = None.
Proof.
  intros [H|H].
  - destruct (N.eqb pos 0); [|reflexivity]. unfold scan_sentinel, s_octave_assign. rewrite hd_prefix_ne by exact H. reflexivity.
  - rewrite (neqb _ _ H). reflexivity.
Qed.

Lemma digits1_none c s' : u_digit cls c = false -> digits1 cls (c :: s') = None.
Proof. intros H. unfold digits1. cbn [takeb]. rewrite H. reflexivity. Qed.

Lemma hd_version c s' : u_digit cls c = false -> scan_version cls (c :: s') = None.
Proof.
  intros H. unfold scan_version, scan_version3, scan_version2pre, scan_version2build, scan_d_dot_d.
  rewrite (digits1_none _ _ H). reflexivity.
Qed.

Lemma hd_end_env c s' : c <> 61 -> prefixb s_end_env (c :: s') = false.
Proof. apply hd_prefix_ne. Qed.
Lemma hd_env_start c s' : c <> 61 -> scan_envelope_start (c :: s') = None.
Proof. intros H. unfold scan_envelope_start, s_eq3. rewrite hd_prefix_ne by exact H. reflexivity. Qed.
Lemma hd_dash3 c s' : c <> 45 -> prefixb s_dash3 (c :: s') = false.
Proof. apply hd_prefix_ne. Qed.
Lemma hd_comment c s' : c <> 47 -> prefixb [c_slash; c_slash] (c :: s') = false.
Proof. apply hd_prefix_ne. Qed.

Definition heads (tbl : list (str * tkind)) : list N := map (fun p => match fst p with x :: _ => x | [] => 0 end) tbl.
Lemma try_simple_none tbl c s' :
  forallb (fun p => match fst p with [] => false | _ => true end) tbl = true ->
  (forall x, In x (heads tbl) -> c <> x) -> try_simple tbl (c :: s') = None.
Proof.
  induction tbl as [|[m k] t IH]; intros Hne Hh; [reflexivity|].
  cbn [forallb fst] in Hne. apply andb_true_iff in Hne as [Hm Ht].
  destruct m as [|x m]; [discriminate|]. cbn [try_simple].
  rewrite hd_prefix_ne by (apply Hh; left; reflexivity).
  apply IH; [exact Ht|]. intros y Hy. apply Hh. right. exact Hy.
Qed.
Lemma hd_ops c s' : c <> 58 -> c <> 60 -> c <> 45 -> c <> 126 -> c <> 64 -> c < 128 -> try_simple simple_ops (c :: s') = None.
Proof.
  intros. apply try_simple_none; [reflexivity|]. intros x Hx. cbn in Hx.
  repeat (destruct Hx as [<-|Hx]; [lia|]). destruct Hx.
Qed.
Lemma hd_ops2 c s' : c <> 124 -> c <> 38 -> c <> 91 -> c <> 93 -> c <> 44 -> c < 128 -> try_simple simple_ops2 (c :: s') = None.
Proof.
  intros. apply try_simple_none; [reflexivity|]. intros x Hx. cbn in Hx.
  repeat (destruct Hx as [<-|Hx]; [lia|]). destruct Hx.
Qed.

Lemma hd_word w0 w prev c s' : c <> w0 -> scan_word cls (w0 :: w) prev (c :: s') = None.
Proof. intros H. unfold scan_word. rewrite hd_prefix_ne by exact H. reflexivity. Qed.

Lemma hd_tq {A} (X : option A) c s' : c <> 34 -> (if prefixb [c_dq; c_dq; c_dq] (c :: s') then X else None) = None.
Proof. intros H. rewrite hd_prefix_ne by exact H. reflexivity. Qed.
Lemma hd_if_none {A} (X : option A) a b : a <> b -> (if N.eqb a b then X else None) = None.
Proof. intros H. rewrite (neqb _ _ H). reflexivity. Qed.

Lemma hd_number c s' : c <> 45 -> u_digit cls c = false -> scan_number cls (c :: s') = None.
Proof.
  intros H1 H2. unfold scan_number. rewrite (neqb c c_dash) by exact H1. rewrite (digits1_none _ _ H2). reflexivity.
Qed.

(* ---- scan_word on a word followed by a non-word character: fires iff the word IS the keyword ----------------------- *)
Lemma scan_word_other w : forall k x rest prev,
  forallb (u_word cls) w = true -> forallb (u_word cls) k = true -> u_word cls x = false ->
  str_eqb k w = false -> scan_word cls w prev (k ++ x :: rest) = None.
Proof.
  unfold scan_word.
  induction w as [|a w IH]; intros k x rest prev Hw Hk Hx Hne.
  - destruct k as [|b k]; [discriminate Hne|]. cbn [forallb] in Hk. apply andb_true_iff in Hk as [Hb _].
    cbn [prefixb length skipn app word_boundary_after]. rewrite Hb. cbn [negb]. rewrite andb_false_r. reflexivity.
  - cbn [forallb] in Hw. apply andb_true_iff in Hw as [Ha Hw].
    destruct k as [|b k].
    + cbn [app prefixb]. destruct (N.eqb_spec a x) as [->|Hax]; [congruence|]. reflexivity.
    + cbn [forallb] in Hk. apply andb_true_iff in Hk as [Hb Hk]. cbn [str_eqb] in Hne.
      cbn [app prefixb length skipn]. destruct (N.eqb_spec a b) as [->|Hab]; [|reflexivity].
      rewrite N.eqb_refl in Hne. cbn [andb] in Hne |- *.
      specialize (IH k x rest prev Hw Hk Hx Hne).
      destruct (prefixb w (k ++ x :: rest)); [|reflexivity]. cbn [andb] in IH |- *.
      destruct (word_boundary_before cls prev); [|reflexivity]. cbn [andb] in IH |- *.
      destruct (word_boundary_after cls (skipn (length w) (k ++ x :: rest))); [discriminate IH|reflexivity].
Qed.

Lemma scan_word_hit w prev x rest :
  word_boundary_before cls prev = true -> u_word cls x = false ->
  scan_word cls w prev (w ++ x :: rest) = Some (x :: rest).
Proof.
  intros Hb Hx. unfold scan_word. rewrite prefixb_app, Hb, skipn_app_len. cbn [word_boundary_after andb]. rewrite Hx. reflexivity.
Qed.

(* ---- the quoted-string scanner on escaped text ------------------------------------------------------------------------ *)
Lemma scan_dq_body_escape s : forall fuel rest, (length (escape s) < fuel)%nat ->
  scan_dq_body fuel (escape s ++ c_dq :: rest) = Some (escape s, rest).
Proof.
  induction s as [|c s IH]; intros fuel rest Hf.
  - destruct fuel as [|f]; [cbn in Hf; lia|]. reflexivity.
  - unfold escape in *. cbn [flat_map] in *. rewrite app_length in Hf.
    assert (Hcases : (esc_chr c = [c] /\ c <> c_dq /\ c <> c_bs) \/ (exists y, esc_chr c = [c_bs; y] /\ y <> c_nl)).
    { cases c H1 H2 H3 H4.
      - right. exists c_bs. split; [reflexivity|discriminate].
      - right. exists c_dq. split; [reflexivity|discriminate].
      - right. exists c_n. split; [reflexivity|discriminate].
      - right. exists c_t. split; [reflexivity|discriminate].
      - left. split; [apply esc_other; assumption|split; assumption]. }
    destruct Hcases as [(E & Hdq & Hbs)|(y & E & Hy)]; rewrite E in *; cbn [length app] in *.
    + destruct fuel as [|f]; [lia|]. cbn [scan_dq_body]. rewrite (neqb _ _ Hdq), (neqb _ _ Hbs).
      rewrite IH by lia. reflexivity.
    + destruct fuel as [|f]; [lia|]. cbn [scan_dq_body]. change (N.eqb c_bs c_dq) with false. change (N.eqb c_bs c_bs) with true.
      cbv iota. rewrite (neqb _ _ Hy). rewrite IH by lia. reflexivity.
Qed.

Lemma escape_no_tab s : memb c_tab (escape s) = false.
Proof.
  induction s as [|c s IH]; [reflexivity|]. unfold escape in *. cbn [flat_map].
  rewrite memb_app, IH, orb_false_r.
  cases c H1 H2 H3 H4; try reflexivity.
  rewrite esc_other by assumption. cbn [memb existsb]. rewrite orb_false_r. apply N.eqb_neq. congruence.
Qed.

Lemma escape_hd_not_dq s : match escape s with y :: _ => y <> c_dq | [] => True end.
Proof. pose proof (hd_esc s) as H. unfold escape. destruct (flat_map esc_chr s); [exact I|exact H]. Qed.

Lemma unescape_tok_escape s : unescape_tok (escape s) = s.
Proof. unfold unescape_tok. rewrite unescape_opt_spec, unescape_escape_all. reflexivity. Qed.

(* ---- alias table ---------------------------------------------------------------------------------------------------------- *)
Lemma alias_of_none_hd c r :
  c <> 45 -> c <> 60 -> c <> 43 -> c <> 126 -> c <> 118 -> c <> 124 -> c <> 38 -> c <> 35 -> alias_of (c :: r) = None.
Proof.
  intros. unfold alias_of, lexer_ascii_aliases. cbn [find fst str_eqb].
  rewrite (neqb 45 c), (neqb 60 c), (neqb 43 c), (neqb 126 c), (neqb 118 c), (neqb 124 c), (neqb 38 c), (neqb 35 c) by congruence.
  reflexivity.
Qed.
Lemma alias_of_none_dash d r : d <> 62 -> alias_of (45 :: d :: r) = None.
Proof.
  intros H. unfold alias_of, lexer_ascii_aliases. cbn [find fst str_eqb].
  rewrite (neqb 62 d) by congruence. reflexivity.
Qed.

(* ---- emit_pat on a match that is no alias and no bracket ---------------------------------------------------------------------- *)
Lemma emit_pat_plain st k v m rest :
  alias_of m = None -> tkind_eqb k LIST_START = false -> tkind_eqb k LIST_END = false ->
  exists line' col',
    emit_pat st k v m rest None =
    Continue (mkLS rest (last_chr m) (ls_pos st + len m) line' col'
                   (mkTok k v (ls_line st) (ls_col st) None :: ls_toks st) (ls_reps st) (ls_brk st) (ls_spans st)) /\
    (m = [c_nl] -> col' = 1).
Proof.
  intros Ha H1 H2. unfold emit_pat. rewrite Ha, H1, H2.
  destruct (0 <? count_nl m) eqn:E.
  - eexists _, _. split; [reflexivity|]. intros ->. reflexivity.
  - eexists _, _. split; [reflexivity|]. intros ->. discriminate E.
Qed.

End WithCls.
