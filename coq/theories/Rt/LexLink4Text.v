(* Lexer half for core4 documents (Rt/TokRound4.v: nested lists, one-pair inline-map items), part 1: texts and pre-passes.
     - vsafe: the decidable side condition on a value at a position (after a key / as an item), by recursion on a nesting fuel
     - val_text4: the emitted text of a value in closed form, and emit_text4: the emitter writes exactly that text
     - the fence pre-pass as a scanner over the text (fscan): only the START of a physical line matters *)
From OV Require Import Base.Strs Gen.LexerGen Syn.Escape Syn.Quote Syn.Ast Syn.Emitter Syn.Parser
     Lex.Lexer Rt.TokRound Rt.TokRound2 Rt.TokRound2Ex Rt.BareWordParse Rt.TokRound4
     Rt.LexLinkBase Rt.LexLinkSteps Rt.LexLink Rt.LexLink2Base Rt.LexLink2Steps Rt.LexLink2Text Rt.LexLink2 Rt.BareWordLex Rt.BareWord.
From Coq Require Import Lia.
Open Scope N_scope.

(* ---- positions ------------------------------------------------------------------------------------------------------------------ *)
(* a value stands after a key `k::` (assignment, inline-map item: the always-quote rule sees k) or as a list item / META value *)
Definition str_ok_item (s : str) : bool := needs_quotes s || bare_ok s || var_ok s.
Definition str_ok_key (k s : str) : bool :=
  str_eqb (force_quote k (VStr s) (emit_str false s)) (str_text (qa_emit k s) s) && str_lexable (qa_emit k s) s.
Definition sok_pos (ko : option str) : str -> bool := match ko with Some k => str_ok_key k | None => str_ok_item end.
Definition q_pos (ko : option str) : str -> strk := match ko with Some k => qa_emit k | None => qi_emit end.
Definition emit_pos (ko : option str) (v : value) (D : nat) : str :=
  match ko with Some k => force_quote k v (emit_value v D) | None => emit_value v D end.

(* an inline-map key: all digits (read as NUMBER) or an identifier word that is no literal / operator word (read as IDENTIFIER) *)
Definition mkey_ok (k : str) : bool := sid_ok k.

Definition vscalar (ko : option str) (v : value) : bool :=
  match v with
  | VNull => true
  | VBool _ => true
  | VNum _ c => num_ok c
  | VStr s => sok_pos ko s
  | _ => false
  end.
Fixpoint vsafe (f : nat) (ko : option str) (v : value) {struct f} : bool :=
  match f with
  | O => vscalar ko v
  | S f' =>
      match v with
      | VList items =>
          forallb (fun x => match x with
                            | VMap [(k, mv)] => mkey_ok k && vsafe f' (Some k) mv
                            | VMap _ => false
                            | _ => vsafe f' None x
                            end) items
      | _ => vscalar ko v
      end
  end.
Definition isafe (f' : nat) (x : value) : bool :=
  match x with
  | VMap [(k, mv)] => mkey_ok k && vsafe f' (Some k) mv
  | VMap _ => false
  | _ => vsafe f' None x
  end.
Lemma vsafe_list f' ko items : vsafe (S f') ko (VList items) = forallb (isafe f') items.
Proof. reflexivity. Qed.
Lemma vsafe_list0 ko items : vsafe O ko (VList items) = false.
Proof. reflexivity. Qed.
Lemma vsafe_nonlist f ko v : (forall items, v <> VList items) -> vsafe f ko v = vscalar ko v.
Proof. intros H. destruct f; [reflexivity|]. destruct v; try reflexivity. exfalso. exact (H _ eq_refl). Qed.
(* case analysis on a safe value *)
Lemma vsafe_cases f ko v : vsafe f ko v = true ->
  (vscalar ko v = true /\ forall items, v <> VList items) \/ (exists f' items, f = S f' /\ v = VList items /\ forallb (isafe f') items = true).
Proof.
  intros H. destruct v; try (left; split; [rewrite vsafe_nonlist in H by discriminate; exact H|discriminate]).
  destruct f as [|f']; [discriminate H|]. right. exists f', items. repeat split. exact H.
Qed.

(* ---- the text of a value ------------------------------------------------------------------------------------------------------------ *)
Fixpoint val_text4 (q : str -> strk) (D : nat) (v : value) {struct v} : str :=
  match v with
  | VList items =>
      let item (D' : nat) (x : value) : str :=
        match x with
        | VMap [(k, mv)] => k ++ s_assign ++ val_text4 (qa_emit k) D' mv
        | VMap _ => []
        | _ => val_text4 qi_emit D' x
        end in
      match items with
      | [] => s_empty_list
      | _ => if needs_multiline items
             then c_lbr :: body_text (GNl (S D)) (GNl D) (GNl (S D)) (map (item (S D)) items)
             else c_lbr :: body_text GNone GNone GNone (map (item D) items)
      end
  | _ => sc_text3 q v
  end.
Definition item_text4 (D' : nat) (x : value) : str :=
  match x with
  | VMap [(k, mv)] => k ++ s_assign ++ val_text4 (qa_emit k) D' mv
  | VMap _ => []
  | _ => val_text4 qi_emit D' x
  end.
Lemma val_text4_cons q D x xs :
  val_text4 q D (VList (x :: xs)) =
  if needs_multiline (x :: xs)
  then c_lbr :: body_text (GNl (S D)) (GNl D) (GNl (S D)) (map (item_text4 (S D)) (x :: xs))
  else c_lbr :: body_text GNone GNone GNone (map (item_text4 D) (x :: xs)).
Proof. reflexivity. Qed.

(* scalars at a position *)
Lemma sok_lexable ko s : sok_pos ko s = true -> str_lexable (q_pos ko s) s = true.
Proof.
  destruct ko as [k|]; cbn [sok_pos q_pos].
  - unfold str_ok_key. intros H. apply andb_true_iff in H as [_ H]. exact H.
  - intros H. exact (item_scalar_ok3 (VStr s) H).
Qed.
Lemma sok_text ko s D : sok_pos ko s = true -> emit_pos ko (VStr s) D = str_text (q_pos ko s) s.
Proof.
  destruct ko as [k|]; cbn [sok_pos q_pos emit_pos].
  - unfold str_ok_key. intros H. apply andb_true_iff in H as [H _]. apply str_eqb_eq in H. exact H.
  - intros H. exact (item_text3 (VStr s) D H).
Qed.

Lemma needs_ml_false items : needs_multiline items = false -> forallb (fun x => negb (ml_trigger x)) items = true.
Proof.
  unfold needs_multiline. intros H. apply orb_false_iff in H as [H _]. clear -H.
  induction items as [|x r IH]; [reflexivity|]. cbn [existsb forallb] in *. apply orb_false_iff in H as [H1 H2]. rewrite H1, (IH H2). reflexivity.
Qed.

(* the emitter writes val_text4 *)
Lemma vscalar_text ko v D : vscalar ko v = true -> emit_pos ko v D = val_text4 (q_pos ko) D v.
Proof.
  destruct v; cbn [vscalar]; intros H; try discriminate H; try (destruct ko; reflexivity). exact (sok_text ko s D H).
Qed.

Lemma emit_text4 : forall f ko v D, vsafe f ko v = true -> emit_pos ko v D = val_text4 (q_pos ko) D v.
Proof.
  induction f as [|f' IH]; intros ko v D Hs; [exact (vscalar_text ko v D Hs)|].
  destruct (vsafe_cases _ _ _ Hs) as [[Hsc _]|(f0 & items & Ef & -> & Hit)]; [exact (vscalar_text ko v D Hsc)|]. injection Ef as <-.
  assert (E : emit_pos ko (VList items) D = emit_value (VList items) D) by (destruct ko; reflexivity). rewrite E. clear E Hs.
  destruct items as [|x xs]; [reflexivity|]. rewrite emit_list_unfold, val_text4_cons.
  assert (Hitem : forall D' y, isafe f' y = true ->
            (match y with VMap _ => False | VAbsent => False | _ => True end /\ emit_value y D' = item_text4 D' y) \/
            (exists k mv, y = VMap [(k, mv)] /\ is_absent mv = false /\ k ++ s_assign ++ force_quote k mv (emit_value mv D') = item_text4 D' y)).
  { intros D' y Hy. destruct y as [|b|fl c|s|inner|pairs|raw|zc zt zm|]; cbn [isafe] in Hy;
      try (left; split; [exact I|exact (IH None _ D' Hy)]);
      try (rewrite vsafe_nonlist in Hy by discriminate; discriminate Hy).
    destruct pairs as [|[k mv] [|? ?]]; try discriminate Hy. apply andb_true_iff in Hy as [_ Hmv].
    right. exists k, mv. split; [reflexivity|]. split.
    - destruct mv; try reflexivity. rewrite vsafe_nonlist in Hmv by discriminate. discriminate Hmv.
    - cbn [item_text4]. pose proof (IH (Some k) mv D' Hmv) as E. cbn [q_pos emit_pos] in E. rewrite E. reflexivity. }
  assert (Hml : ml_parts D (x :: xs) = map (item_text4 (S D)) (x :: xs)).
  { clear -Hitem Hit. induction (x :: xs) as [|y ys IHy]; [reflexivity|]. cbn [forallb] in Hit. apply andb_true_iff in Hit as [Hy Hys].
    unfold ml_parts in *. cbn [flat_map map]. rewrite (IHy Hys).
    destruct (Hitem (S D) y Hy) as [[Hk E]|(k & mv & -> & Ha & E)].
    - rewrite <- E. destruct y; try destruct Hk; reflexivity.
    - rewrite <- E. cbn [flat_map fst snd app]. rewrite Ha. reflexivity. }
  destruct (needs_multiline (x :: xs)) eqn:Enm.
  - rewrite Hml. cbn [map]. rewrite join_cons_ne by (intros E; apply app_eq_nil in E as [_ E]; discriminate E).
    unfold s_lb. cbn [app]. f_equal.
    apply (ml_body D _ (item_text4 (S D) x :: map (item_text4 (S D)) xs)); [discriminate|reflexivity].
  - assert (Hil : il_parts D (x :: xs) = map (item_text4 D) (x :: xs)).
    { pose proof (needs_ml_false _ Enm) as Ht. clear -Hitem Hit Ht. induction (x :: xs) as [|y ys IHy]; [reflexivity|].
      cbn [forallb] in Hit, Ht. apply andb_true_iff in Hit as [Hy Hys]. apply andb_true_iff in Ht as [Ty Tys].
      unfold il_parts in *. cbn [flat_map map]. rewrite (IHy Hys Tys).
      destruct (Hitem D y Hy) as [[Hk E]|(k & mv & -> & Ha & E)].
      - rewrite <- E. destruct y; try destruct Hk; reflexivity.
      - cbn [ml_trigger map_has_present existsb snd] in Ty. rewrite Ha in Ty. discriminate Ty. }
    rewrite Hil. unfold s_lb. cbn [app map]. rewrite inline_body by discriminate. reflexivity.
Qed.

(* ---- the fence pre-pass as a scanner: only the start of a physical line matters ---------------------------------------------------------- *)
(* state true = only blanks so far on the current line; None = a line starts with a backtick *)
Fixpoint fscan (s : bool) (t : str) : option bool :=
  match t with
  | [] => Some s
  | c :: r =>
      if N.eqb c c_nl then fscan true r
      else if N.eqb c c_sp then fscan s r
      else if N.eqb c c_bt then (if s then None else fscan false r)
      else fscan false r
  end.

Lemma fscan_app a : forall s b, fscan s (a ++ b) = match fscan s a with Some s' => fscan s' b | None => None end.
Proof.
  induction a as [|c a IH]; intros s b; [reflexivity|]. cbn [app fscan].
  destruct (N.eqb c c_nl); [apply IH|]. destruct (N.eqb c c_sp); [apply IH|]. destruct (N.eqb c c_bt); [destruct s; [reflexivity|apply IH]|apply IH].
Qed.

Lemma fscan_fence t : forall s, fscan s t <> None ->
  (s = true -> fence_free (hd [] (split_on c_nl t)) = true) /\ forallb fence_free (tl (split_on c_nl t)) = true.
Proof.
  induction t as [|c t IH]; intros s H; [split; reflexivity|].
  cbn [fscan] in H. cbn [split_on].
  destruct (N.eqb_spec c c_nl) as [->|Hnl].
  - destruct (IH true H) as [I1 I2]. cbn [hd tl]. split; [reflexivity|].
    destruct (split_on c_nl t) as [|h tl0] eqn:E; [exfalso; exact (split_on_nonempty _ _ E)|]. cbn [hd tl forallb] in *. rewrite (I1 eq_refl), I2. reflexivity.
  - destruct (split_on c_nl t) as [|h tl0] eqn:E; [exfalso; exact (split_on_nonempty _ _ E)|]. cbn [hd tl] in *.
    destruct (N.eqb_spec c c_sp) as [->|Hsp].
    + destruct (IH s H) as [I1 I2]. split; [|exact I2]. intros Hs. unfold fence_free. cbn [dropb]. rewrite N.eqb_refl. exact (I1 Hs).
    + destruct (N.eqb_spec c c_bt) as [->|Hbt].
      * destruct s; [congruence|]. destruct (IH false H) as [_ I2]. split; [discriminate|exact I2].
      * destruct (IH false H) as [_ I2]. split; [|exact I2]. intros _. unfold fence_free. cbn [dropb].
        rewrite (neqb c_sp c) by congruence. rewrite (neqb _ _ Hbt). reflexivity.
Qed.

Lemma tok_text_fscan t : fscan true t <> None -> memb c_tab t = false -> tok_text t = true.
Proof.
  intros H Ht. destruct (fscan_fence t true H) as [I1 I2]. unfold tok_text. rewrite Ht. cbn [negb]. rewrite andb_true_r.
  destruct (split_on c_nl t) as [|h tl0] eqn:E; [exfalso; exact (split_on_nonempty _ _ E)|]. cbn [hd tl forallb] in *. rewrite (I1 eq_refl), I2. reflexivity.
Qed.

(* a text without newline, on a line that has already started: nothing can go wrong *)
Lemma fscan_started t : memb c_nl t = false -> fscan false t = Some false.
Proof.
  induction t as [|c t IH]; [reflexivity|]. cbn [memb existsb]. intros H. apply orb_false_iff in H as [H1 H2].
  cbn [fscan]. rewrite N.eqb_sym, H1. destruct (N.eqb c c_sp); [exact (IH H2)|]. destruct (N.eqb c c_bt); exact (IH H2).
Qed.
(* the first non-blank character of a line *)
Lemma fscan_start x t s : x <> c_nl -> x <> c_sp -> x <> c_bt -> fscan s (x :: t) = fscan false t.
Proof. intros H1 H2 H3. cbn [fscan]. rewrite (neqb _ _ H1), (neqb _ _ H2), (neqb _ _ H3). reflexivity. Qed.
Lemma fscan_ind D s : fscan s (ind D) = Some s.
Proof. unfold ind. induction (2 * D)%nat as [|n IH]; [reflexivity|]. cbn [repeat fscan]. change (N.eqb c_sp c_nl) with false. rewrite N.eqb_refl. exact IH. Qed.

(* a well-formed single physical line (LexLink.line_ok), followed by its newline *)
Lemma fscan_line_ok l : line_ok l = true -> fscan true (l ++ [c_nl]) = Some true.
Proof.
  unfold line_ok, plain. intros H. apply andb_true_iff in H as [H Hf]. apply andb_true_iff in H as [Hn _]. apply negb_true_iff in Hn.
  rewrite fscan_app. assert (E : exists s', fscan true l = Some s').
  { unfold fence_free in Hf. clear -Hn Hf. induction l as [|c l IH]; [eexists; reflexivity|].
    cbn [memb existsb] in Hn. apply orb_false_iff in Hn as [H1 H2]. cbn [fscan dropb] in *. rewrite N.eqb_sym, H1.
    rewrite N.eqb_sym. destruct (N.eqb c_sp c) eqn:Es.
    - apply IH; assumption.
    - apply negb_true_iff in Hf. rewrite Hf. rewrite (fscan_started l H2). eexists; reflexivity. }
  destruct E as (s' & ->). reflexivity.
Qed.
