(* Non-vacuity of Rt/TokRoundZ.v (keyed literal zones next to other nodes at every depth), the checked composition with the lexer model,
   the executable shape check for the harness, and a refutation Example for every side condition. *)
From OV Require Import Base.Strs Lex.Lexer Syn.Ast Syn.Emitter Syn.Parser Syn.Wf
     Rt.TokRound Rt.TokRoundEx Rt.LexLinkBase Rt.TokRound2 Rt.TokRound2Ex Rt.Zones Rt.TokRoundZ.
From Coq Require Import Lia.
Require Coq.Strings.String.
Import Coq.Strings.String.StringSyntax.
Open Scope N_scope.

(* ---- the boolean token / shape test, with the FENCE_OPEN payload (marker, info tag) ---------------------------------------------------- *)
Definition opt_str_eqb (a b : option str) : bool :=
  match a, b with Some x, Some y => str_eqb x y | None, None => true | _, _ => false end.
Definition tmatchbz (t : token) (s : sh) : bool :=
  match snd s, tv t with
  | Some (TVFence m1 g1), TVFence m2 g2 => tkind_eqb (tk t) (fst s) && str_eqb m1 m2 && opt_str_eqb g1 g2
  | Some (TVFence _ _), _ => false
  | _, _ => tmatchb t s
  end.
Lemma opt_str_eqb_eq a b : opt_str_eqb a b = true -> a = b.
Proof. destruct a, b; cbn; intros H; try discriminate H; [apply str_eqb_eq in H; congruence|reflexivity]. Qed.
Lemma tmatchbz_tmatch t s : tmatchbz t s = true -> tmatch t s.
Proof.
  unfold tmatchbz. destruct s as [k [v|]]; cbn [fst snd]; [|apply tmatchb_tmatch].
  destruct v; try apply tmatchb_tmatch.
  destruct (tv t) eqn:Ev; try discriminate. intros H. apply andb_prop in H. destruct H as [H H3]. apply andb_prop in H. destruct H as [H1 H2].
  split; [exact (tkind_eqb_eq _ _ H1)|]. cbn [snd]. rewrite Ev. apply str_eqb_eq in H2. apply opt_str_eqb_eq in H3. congruence.
Qed.
Lemma all2_F2z ts l : all2 tmatchbz ts l = true -> Forall2 tmatch ts l.
Proof.
  revert l. induction ts as [|t ts IH]; intros [|s l] H; cbn [all2] in H; try discriminate H; [constructor|].
  apply andb_prop in H. destruct H as [H1 H2]. constructor; [exact (tmatchbz_tmatch _ _ H1)|exact (IH _ H2)].
Qed.

Definition shz (d : doc) : list sh := docz_sh ex_ml ex_idnum d.
Definition rtz (d : doc) : Prop := parse_model ex_cls ex2_numcanon (fun _ => false) true (lines_of (emit (u_space ex_cls) d)) = PRDoc d [] [].
Definition lexz (d : doc) : Prop :=
  match tokenize ex_cls false (lines_of (emit (u_space ex_cls) d)) with
  | LexOk toks reps => all2 tmatchbz toks (shz d ++ [(NEWLINE, None); (EOF, None)]) = true /\ reps = []
  | _ => False
  end.

(* ---- (d) non-vacuity: depth 3, four zones ------------------------------------------------------------------------------------------------ *)
Definition bt3 : str := [96; 96; 96].
Definition bt5 : str := [96; 96; 96; 96; 96].
(* several lines that look like OCTAVE syntax, the closing envelope, shorter backtick runs, a tab, a blank line, trailing blanks *)
Definition hostile : str :=
  lit "K::v" ++ [c_nl] ++ lit "===END===" ++ [c_nl] ++ lit "B:" ++ [c_nl] ++ lit "  // not a comment" ++ [c_nl] ++
  lit "``` shorter run" ++ [c_nl] ++ lit "````" ++ [c_nl] ++ lit "a" ++ [c_tab] ++ lit "b" ++ [c_nl] ++ [c_nl] ++ lit "  [x, y] -> z  ".
Definition exz : doc :=
  mkDoc (lit "DOC") (Some (lit "6.0.0")) None true [(lit "TYPE", MV (VStr (lit "x y")))]
    [ NAssign (lit "Z0") (VZone (lit "one line") (Some (lit "python")) bt3) [lit "lead of a zone"] None;        (* first, top level *)
      NBlock (lit "B") None
        [ NAssign (lit "A") n1 [] (Some (lit "t"));
          NAssign (lit "Z1") (VZone [] None bt3) [lit "an empty zone"] None;                                         (* middle child of a block *)
          NSection (lit "1") (lit "S") (Some (lit "ann"))
            [ NAssign (lit "Z2") (VZone hostile (Some (lit "text")) bt5) [] None;                                    (* first child of a section, depth 2 *)
              NAssign (lit "Z2b") (VZone (lit "second zone in one body" ++ [c_nl]) None bt3) [] None;
              NBlock (lit "C") None [ NAssign (lit "Z3") (VZone (lit "deep" ++ [c_nl] ++ lit "  K::[1,2]") None bt3) [lit "lz3"] None ] [] ] [lit "ls"];
          NAssign (lit "L") (VList [n1; n2; VNum false (lit "3")]) [] None ] [];
      NAssign (lit "H") (VStr []) [] None ]
    [lit "bye"].

Example exz_core : corez_doc exz = true.
Proof. vm_compute. reflexivity. Qed.
Example exz_nums : nums_ok2_l ex2_numcanon (u_space ex_cls) ex_idnum (dsections exz) /\ Forall (field_num_ok ex2_numcanon) (dmeta exz).
Proof. cbn. repeat split; try (intros _; eexists; reflexivity); repeat constructor. Qed.
Example exz_roundtrip : rtz exz.
Proof. vm_compute. reflexivity. Qed.
Example exz_lexes : lexz exz.
Proof. vm_compute. split; reflexivity. Qed.

(* zone first / last child, last child before a dedent, two zones in a row at the top level, a comment directly after a zone *)
Definition exz2 : doc :=
  dd [ NAssign (lit "Z0") (VZone (lit "a") None bt3) [] None;
       NAssign (lit "Z1") (VZone (lit "b") None bt3) [] None;
       NBlock (lit "B") None
         [ NBlock (lit "C") None [ NAssign (lit "Z2") (VZone (lit "last child, then a double dedent") None bt3) [] None ] [];
           NAssign (lit "A") n1 [lit "comment directly after the zone's block"] None;
           NAssign (lit "Z3") (VZone [] None bt3) [lit "comment directly after an assignment"] None ] [];
       NAssign (lit "Z4") (VZone (lit "last node of the document") None bt3) [] None ] [].
Example exz2_ok : corez_doc exz2 = true /\ rtz exz2 /\ lexz exz2.
Proof. split; [reflexivity|]. split; vm_compute; [reflexivity|split; reflexivity]. Qed.

(* ---- composition with the lexer model --------------------------------------------------------------------------------------------------- *)
Theorem text_roundtrip_corez_checked cls numcanon holo_ok strict ml idnum d text toks reps :
  corez_doc d = true -> nums_ok2_l numcanon (u_space cls) idnum (dsections d) -> Forall (field_num_ok numcanon) (dmeta d) ->
  strip_frontmatter (u_space cls) (lines_of text) = (lines_of text, None) ->
  tokenize cls false (lines_of text) = LexOk toks reps ->
  all2 tmatchbz toks (docz_sh ml idnum d ++ [(NEWLINE, None); (EOF, None)]) = true ->
  exists warns, parse_model cls numcanon holo_ok strict (lines_of text) = PRDoc d reps warns /\ Forall advisory warns.
Proof.
  intros Hc Hnum Hmnum Hfm Htok Hsh. apply all2_F2z in Hsh. apply Forall2_app_inv_r in Hsh. destruct Hsh as (ts & tl & Hts & Htl & ->).
  unfold parse_model. rewrite Hfm, Htok.
  destruct (parse_corez_doc numcanon holo_ok strict (u_space cls) (u_alpha cls) ml idnum d Hc Hnum Hmnum
              (mkPS (ts ++ tl) None 0 [] 0 []) ts tl) as (st' & Hp & (l & Hw & Hadv) & _);
    [inversion Htl; discriminate|reflexivity|exact Hts|reflexivity|].
  rewrite Hp. exists (rev (pwarns st')). split.
  - f_equal. destruct d as [name gr fr sep meta secs trl]. unfold corez_doc in Hc. cbn [dfront] in Hc.
    destruct fr; [discriminate Hc|]. reflexivity.
  - rewrite Hw. cbn [pwarns]. rewrite app_nil_r. apply Forall_rev. exact Hadv.
Qed.

(* executable form, for the harness: 0 = not a corez document, 1 = the model lexer reads `lines` as docz_sh d (+ NEWLINE EOF) with no
   repair, 2 = shape mismatch or lexer repair, 3 = lexer error *)
Definition corez_shape_check (cls : N -> N) (d : doc) (lines : list (str * str)) : N :=
  if corez_doc d then
    match tokenize cls false lines with
    | LexOk toks reps =>
        if all2 tmatchbz toks (docz_sh needs_multiline ex_idnum d ++ [(NEWLINE, None); (EOF, None)]) && is_nil reps then 1 else 2
    | _ => 3
    end
  else 0.
Lemma corez_shape_check_sound cls numcanon holo_ok strict d text :
  corez_shape_check cls d (lines_of text) = 1 ->
  nums_ok2_l numcanon (u_space cls) ex_idnum (dsections d) -> Forall (field_num_ok numcanon) (dmeta d) ->
  strip_frontmatter (u_space cls) (lines_of text) = (lines_of text, None) ->
  exists warns, parse_model cls numcanon holo_ok strict (lines_of text) = PRDoc d [] warns /\ Forall advisory warns.
Proof.
  unfold corez_shape_check. intros H Hnum Hmnum Hfm.
  destruct (corez_doc d) eqn:Hc; [|discriminate H].
  destruct (tokenize cls false (lines_of text)) as [toks reps| |] eqn:Htok; try discriminate H.
  destruct (all2 tmatchbz toks _ && is_nil reps) eqn:Hb; [|discriminate H]. apply andb_prop in Hb. destruct Hb as [Hsh Hr].
  destruct reps; [|discriminate Hr].
  exact (text_roundtrip_corez_checked cls numcanon holo_ok strict needs_multiline ex_idnum d text toks [] Hc Hnum Hmnum Hfm Htok Hsh).
Qed.
Example exz_shape_check : corez_shape_check ex_cls exz (lines_of (emit (u_space ex_cls) exz)) = 1.
Proof. vm_compute. reflexivity. Qed.
Example exz_by_theorem :
  exists warns, parse_model ex_cls ex2_numcanon (fun _ => false) true (lines_of (emit (u_space ex_cls) exz)) = PRDoc exz [] warns /\ Forall advisory warns.
Proof.
  apply (corez_shape_check_sound ex_cls ex2_numcanon (fun _ => false) true exz (emit (u_space ex_cls) exz) exz_shape_check (proj1 exz_nums) (proj2 exz_nums)).
  vm_compute. reflexivity.
Qed.

(* ---- (c) the side conditions, each refuted when dropped ------------------------------------------------------------------------------- *)
Definition reads (d : doc) : option doc :=
  match parse_model ex_cls ex2_numcanon (fun _ => false) true (lines_of (emit (u_space ex_cls) d)) with PRDoc d' _ _ => Some d' | _ => None end.
Definition z (c : str) : value := VZone c None bt3.
Definition zd (k : str) (v : value) (t : option str) : doc := dd [NAssign k v [] t] [].

(* (1) a trailing comment on a zone-valued assignment is not written [wf_doc = true] *)
Example corez_refuted_trailing_comment :
  let d := zd (lit "Z") (z (lit "x")) (Some (lit "t")) in corez_doc d = false /\ wf_doc d = true /\ reads d = Some (zd (lit "Z") (z (lit "x")) None).
Proof. repeat split; vm_compute; reflexivity. Qed.
(* (2) the info tag comes back normalised: an empty tag as None, surrounding blanks stripped [wf_doc = true].  At token level: pv_zone
   returns norm_tag sp tag. *)
Example corez_refuted_tag_empty :
  let d := zd (lit "Z") (VZone (lit "x") (Some []) bt3) None in
  corez_doc d = true /\ ~ nums_ok2_l ex2_numcanon (u_space ex_cls) ex_idnum (dsections d) /\ reads d = Some (zd (lit "Z") (z (lit "x")) None).
Proof. split; [reflexivity|]. split; [cbn; intros [H _]; discriminate H|vm_compute; reflexivity]. Qed.
Example corez_refuted_tag_blanks :
  let d := zd (lit "Z") (VZone (lit "x") (Some (lit " py ")) bt3) None in
  wf_doc d = true /\ reads d = Some (zd (lit "Z") (VZone (lit "x") (Some (lit "py")) bt3) None).
Proof. split; vm_compute; reflexivity. Qed.
(* (3) a zone as META value: the emitter writes `K::` and the opening fence on ONE line, which is not a fence line: lexer error [wf_doc = true] *)
Example corez_refuted_zone_in_meta :
  let d := mkDoc (lit "D") None None false [(lit "K", MV (z (lit "x")))] [] [] in corez_doc d = false /\ wf_doc d = true /\ reads d = None.
Proof. repeat split; vm_compute; reflexivity. Qed.
(* (4) a zone as list item: same [wf_doc = true] *)
Example corez_refuted_zone_in_list :
  let d := zd (lit "L") (VList [z (lit "x")]) None in corez_doc d = false /\ wf_doc d = true /\ reads d = None.
Proof. repeat split; vm_compute; reflexivity. Qed.
(* (5) bare zones (empty key) are left out; with a sibling the sibling leaves the block [wf clause 11, KNOWN class] *)
Example bare_zone_with_sibling :
  let d := dd [NBlock (lit "B") None [NAssign [] (z (lit "x")) [] None; NAssign (lit "A") n1 [] None] []] [] in
  corez_doc d = false /\ doc_clauses d = [11] /\
  reads d = Some (dd [NBlock (lit "B") None [NAssign [] (z (lit "x")) [] None] []; NAssign (lit "A") n1 [] None] []).
Proof. repeat split; vm_compute; reflexivity. Qed.
(* (6) LEXER-level conditions on the content / marker (Rt/ZonesRt.v zone_ok, marker_ok): a content line that closes the fence, a marker of
   two backticks -- lexer errors [wf_doc = true]; the parser half has no condition on the content *)
Example content_with_closing_fence_line :
  let d := zd (lit "Z") (z (lit "a" ++ [c_nl] ++ bt3 ++ [c_nl] ++ lit "b")) None in corez_doc d = true /\ reads d = None /\
  corez_shape_check ex_cls d (lines_of (emit (u_space ex_cls) d)) = 3.
Proof. repeat split; vm_compute; reflexivity. Qed.
Example marker_of_two_backticks :
  let d := zd (lit "Z") (VZone (lit "x") None [96; 96]) None in corez_doc d = true /\ reads d = None.
Proof. split; vm_compute; reflexivity. Qed.
(* (7) nothing special is required after a zone: a comment directly after it (the next sibling's leading comment), a dedent, the end of the
   document are all in the fragment (exz2 above).  The only comment position excluded is the one excluded for every block: column 0
   directly after the last descendant of a top-level block [comment-dedent, wf clause 14, KNOWN; top_ok] *)
Example zone_last_child_then_top_comment :
  let d := dd [NBlock (lit "B") None [NAssign (lit "Z") (z (lit "x")) [] None] []; NAssign (lit "A") n1 [lit "c"] None] [] in
  corez_doc d = false /\ doc_clauses d = [14] /\
  reads d = Some (dd [NBlock (lit "B") None [NAssign (lit "Z") (z (lit "x")) [] None; NComment (lit "c")] []; NAssign (lit "A") n1 [] None] []).
Proof. repeat split; vm_compute; reflexivity. Qed.
