(* Rt/LexLinkTH4.v: non-vacuity -- a document with h3-like values (chains ending in →§T) next to chains, calls, single words and scalars. *)
From OV Require Import Base.Strs Lex.Lexer Syn.Ast Syn.Emitter Syn.Parser Rt.LexLink4
     Rt.TokRound Rt.TokRoundEx Rt.TokRound2 Rt.TokRound2Ex Rt.TokRoundT Rt.TokRoundTHolo Rt.TokRoundTEx
     Rt.LexLinkBase Rt.LexLinkSteps Rt.LexLink Rt.LexLinkEx Rt.LexLink2Base Rt.LexLink2Steps Rt.LexLink2Text Rt.LexLink2
     Rt.LexLinkZText Rt.LexLinkZ Rt.LexLinkT Rt.LexLinkTH Rt.LexLinkTH2 Rt.LexLinkTH2Ex Rt.LexLinkTH3 Rt.LexLinkTH3Ex Rt.LexLinkTH4.
Require Coq.Strings.String.
Import Coq.Strings.String.StringSyntax.
Open Scope N_scope.

Example decode_t : (hs t1, hwsT t1, hT t1) = (lit "x", [lit "OPT"], lit "INDEXER") /\
                   (hs t2, hwsT t2, hT t2) = (lit "a b", [lit "REQ"; lit "OPT"], lit "SELF") /\
                   map th4_raw [t1; t2; c1; g5; h3] = [true; true; false; false; false].
Proof. repeat split; vm_compute; reflexivity. Qed.
Definition holo_4 (s : str) : bool := str_in s [t1; t2; c1; c3; g5].
Definition ex4 : doc :=
  mkDoc (lit "DOC") (Some (lit "6.0.0")) None true [(lit "TYPE", MV (VStr (lit "x y")))]
    [ NBlock (lit "FIELDS") (Some (lit "T1"))
        [ NAssign (lit "F1") (VHolo t1) [lit "h3-like, depth 1"] (Some (lit "t"));
          NBlock (lit "C") (Some (lit "INDEXER"))
            [ NSection (lit "1") (lit "S") None
                [ NAssign (lit "F2") (VHolo t2) [] (Some (lit "two words and a target"));
                  NAssign (lit "F3") (VHolo c1) [] None;
                  NAssign (lit "A") n1 [] None ] [];
              NAssign (lit "F6") (VHolo g5) [] None ] [];
          NAssign (lit "L") (VList [n1; n2]) [] None ] [];
      NAssign (lit "H") (VHolo c3) [] None;
      NAssign (lit "K") (VHolo t1) [] None ]
    [].
Example ex4_ok : coreth4_doc ex4 = true /\ lex_safeth4_doc ex_cls (hsh_lex ex_cls) ex4 = true /\ lex_safeth4_doc ex_cls hsh_cls4 ex4 = true.
Proof. repeat split; vm_compute; reflexivity. Qed.
Example ex4_sides : nodes_side ex2_numcanon holo_4 ex_idnum (hsh_lex ex_cls) (dsections ex4) /\ Forall (field_num_ok ex2_numcanon) (dmeta ex4).
Proof.
  split; [|repeat constructor]. cbn [nodes_side node_side val_side dsections ex4].
  repeat split; try (intros _; eexists; reflexivity); try (vm_compute; reflexivity); try exact I.
  all: repeat constructor.
Qed.
Example ex4_rt_thm strict sp :
  exists warns, parse_model ex_cls ex2_numcanon holo_4 strict (lines_of (emit sp ex4)) = PRDoc ex4 [] warns /\ Forall advisory warns.
Proof.
  exact (text_roundtrip_coreth4 ex_cls (hsh_lex ex_cls) ex2_numcanon holo_4 strict sp ex4 (proj1 ex4_ok) (proj1 (proj2 ex4_ok)) (proj1 ex4_sides) (proj2 ex4_sides)).
Qed.
Example ex4_rt_lex_thm strict sp :
  exists warns, parse_model ex_cls ex2_numcanon holo_4 strict (lines_of (emit sp ex4)) = PRDoc ex4 [] warns /\ Forall advisory warns.
Proof.
  exact (text_roundtrip_coreth4_lex ex_cls hsh_cls4 ex2_numcanon holo_4 strict sp ex4 (proj1 ex4_ok) (proj2 (proj2 ex4_ok)) (proj1 ex4_sides) (proj2 ex4_sides)).
Qed.
Example ex4_rt_computed : parse_model ex_cls ex2_numcanon holo_4 true (lines_of (emit (fun _ => false) ex4)) = PRDoc ex4 [] [].
Proof. vm_compute. reflexivity. Qed.
(* the clause on → is needed: an oracle that calls → an identifier character fails the side condition *)
Definition bad_cls4 (c : N) : N := if N.eqb c 8594 then 255 else ex_cls c.
Example bad_cls4_clause : cls_flow_ok bad_cls4 = false /\ lex_safeth4_doc bad_cls4 hsh_cls4 ex4 = false.
Proof. split; vm_compute; reflexivity. Qed.
Print Assumptions ex4_rt_thm.
Print Assumptions ex4_rt_lex_thm.
