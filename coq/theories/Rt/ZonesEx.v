(* C05: non-vacuity examples, refutation witnesses (why zone_ok / tag_ok are needed), and the empty zone. *)
From OV Require Import Base.Strs Lex.Lexer Syn.Ast Syn.Parser Syn.Emitter Rt.Zones Rt.ZonesRt.
Require Coq.Strings.String.
Import Coq.Strings.String.StringSyntax.
Open Scope N_scope.

(* ---- concrete oracles --------------------------------------------------------------------------------- *)
Definition cls0 (c : N) : N := 0.
Definition nc0 (s : str) : option (bool * str) := None.
Definition ho0 (s : str) : bool := false.
Definition bt3 : str := [96; 96; 96].
Definition bt4 : str := [96; 96; 96; 96].

(* a toy NFC oracle that really changes text: it composes every  e + U+0301  into  U+00E9  *)
Fixpoint nfc_toy (s : str) : str :=
  match s with
  | 101 :: ((769 :: r) as t) => 233 :: nfc_toy r
  | c :: r => c :: nfc_toy r
  | [] => []
  end.
Definition nfd_e : str := [101; 769].

Definition pipeline (nfcf : str -> str) (d : doc) : parse_result :=
  parse_model cls0 nc0 ho0 false (lines_of_raw_nfc nfcf (emit (u_space cls0) d)).

(* ---- 7. the hypotheses of zone_roundtrip are satisfiable on hostile content ----------------------------- *)
(* TAB, NFD pair (the oracle WOULD change it), ===END===, ::, ->, ---, a shorter backtick run, trailing blanks *)
Definition ex_content : str :=
  lit "a" ++ [c_tab] ++ lit "b" ++ [c_nl] ++
  lit "caf" ++ nfd_e ++ [c_nl] ++
  lit "===END===" ++ [c_nl] ++
  lit "K::v -> w" ++ [c_nl] ++
  lit "---" ++ [c_nl] ++
  lit "``" ++ [c_nl] ++
  lit "  `` not a fence ``` here  " ++ [c_nl] ++
  [] ++ [c_nl] ++
  lit "  indented  ".
Definition ex_doc : doc := zone_doc (lit "DOC") (lit "KEY") ex_content (Some (lit "py")) bt3.

Example ex_zone_ok : zone_ok bt3 ex_content = true.
Proof. reflexivity. Qed.
Example ex_oracle_differs : nfc_toy (lit "caf" ++ nfd_e) <> lit "caf" ++ nfd_e.
Proof. vm_compute. discriminate. Qed.

(* through the general theorem ... *)
Example ex_roundtrip_by_theorem : pipeline nfc_toy ex_doc = PRDoc ex_doc [] [].
Proof.
  unfold pipeline, ex_doc.
  rewrite (zone_roundtrip cls0 nc0 ho0 false nfc_toy); try reflexivity.
  intros l H. cbn [fixed_lines In] in H. repeat (destruct H as [<-|H]; [reflexivity|]). destruct H.
Qed.
(* ... and by running the model *)
Example ex_roundtrip_by_computation : pipeline nfc_toy ex_doc = PRDoc ex_doc [] [].
Proof. vm_compute. reflexivity. Qed.

(* the zone keeps the RAW line while an OUTSIDE line takes the oracle's NFC: fence_scan on
     caf<NFD>      (outside)      -> composed
     ```
     caf<NFD>      (inside)       -> raw
     a<TAB>b       (inside)       -> raw, and no tab error
     ```                                                                                               *)
Definition ex_lines : list (str * str) :=
  map (fun l => (l, nfc_toy l)) [lit "caf" ++ nfd_e; bt3; lit "caf" ++ nfd_e; lit "a" ++ [c_tab] ++ lit "b"; bt3].
Example ex_scan_raw_inside_nfc_outside :
  fence_scan cls0 ex_lines 1 0 None [] [] =
  inr ([lit "caf" ++ [233]; bt3; lit "caf" ++ nfd_e; lit "a" ++ [c_tab] ++ lit "b"; bt3], [mkSpan 5 22 bt3 None]).
Proof. vm_compute. reflexivity. Qed.
Example ex_scan_zones :
  zones_of_lines cls0 ex_lines = [mkZone 1 bt3 None bt3 [lit "caf" ++ nfd_e; lit "a" ++ [c_tab] ++ lit "b"] bt3].
Proof. vm_compute. reflexivity. Qed.
Example ex_tab_inside_ok :
  tab_check (join [c_nl] [lit "caf" ++ [233]; bt3; lit "caf" ++ nfd_e; lit "a" ++ [c_tab] ++ lit "b"; bt3]) 0 1 1 [mkSpan 5 22 bt3 None] = None.
Proof. vm_compute. reflexivity. Qed.
Example ex_tab_outside_err :
  tab_check (join [c_nl] [lit "x" ++ [c_tab]; bt3; lit "a" ++ [c_tab] ++ lit "b"; bt3]) 0 1 1 [mkSpan 3 14 bt3 None] = Some (1, 2).
Proof. vm_compute. reflexivity. Qed.

(* a four-backtick marker may carry three-backtick lines *)
Example ex_longer_marker :
  zone_ok bt4 (lit "```" ++ [c_nl] ++ lit "x" ++ [c_nl] ++ lit "```") = true /\
  pipeline nfc_toy (zone_doc (lit "DOC") (lit "KEY") (lit "```" ++ [c_nl] ++ lit "x" ++ [c_nl] ++ lit "```") None bt4) =
  PRDoc (zone_doc (lit "DOC") (lit "KEY") (lit "```" ++ [c_nl] ++ lit "x" ++ [c_nl] ++ lit "```") None bt4) [] [].
Proof. split; vm_compute; reflexivity. Qed.

(* ---- why zone_ok is needed ---------------------------------------------------------------------------------- *)
(* the statement WITHOUT the content-line condition (only the marker shape is kept) *)
Definition zone_roundtrip_full : Prop :=
  forall cls numcanon holo strict nfcf name key content tag marker,
    name_ok name = true -> key_ok key = true -> marker_ok marker = true -> tag_ok cls tag = true ->
    (forall l, In l (fixed_lines name key tag marker) -> nfcf l = l) ->
    parse_model cls numcanon holo strict (lines_of_raw_nfc nfcf (emit (u_space cls) (zone_doc name key content tag marker))) =
    PRDoc (zone_doc name key content tag marker) (lex_reps key) [].

Definition id_oracle (s : str) : str := s.
Lemma id_oracle_ok name key tag marker l : In l (fixed_lines name key tag marker) -> id_oracle l = l.
Proof. reflexivity. Qed.

(* (a) a content line EQUAL to the marker closes the zone early; here the rest is re-read as a second zone that
       the document loop drops: the round trip SUCCEEDS with truncated content (a, instead of a/```/```/b) *)
Definition early_close_content : str := lit "a" ++ [c_nl] ++ bt3 ++ [c_nl] ++ bt3 ++ [c_nl] ++ lit "b".
Lemma zone_roundtrip_refuted_early_close :
  exists content,
    zone_ok bt3 content = false /\
    pipeline id_oracle (zone_doc (lit "DOC") (lit "KEY") content None bt3) =
    PRDoc (zone_doc (lit "DOC") (lit "KEY") (lit "a") None bt3) [] [].
Proof. exists early_close_content. split; vm_compute; reflexivity. Qed.

(* the early close seen in the pre-pass: two spans, the first ends at the content line that equals the marker *)
Lemma early_close_spans :
  fence_scan cls0 (lines_of_raw_nfc id_oracle (emit (u_space cls0) (zone_doc (lit "DOC") (lit "KEY") early_close_content None bt3))) 1 0 None [] [] =
  inr ([lit "===DOC==="; lit "KEY::"; bt3; lit "a"; bt3; bt3; lit "b"; bt3; lit "===END==="; []],
       [mkSpan 16 25 bt3 None; mkSpan 26 35 bt3 None]).
Proof. vm_compute. reflexivity. Qed.

(* (b) a single content line equal to the marker: the real closing fence then OPENS a zone that never closes: E006 *)
Lemma zone_roundtrip_refuted_unterminated :
  exists content,
    zone_ok bt3 content = false /\
    pipeline id_oracle (zone_doc (lit "DOC") (lit "KEY") content None bt3) = PRLexErr (lit "E006") 5 1.
Proof. exists bt3. split; vm_compute; reflexivity. Qed.

(* (c) a longer backtick run, or an equal run followed by text, inside the zone: E007 *)
Lemma zone_roundtrip_refuted_nested :
  exists content,
    zone_ok bt3 content = false /\
    pipeline id_oracle (zone_doc (lit "DOC") (lit "KEY") content None bt3) = PRLexErr (lit "E007") 4 1.
Proof. exists bt4. split; vm_compute; reflexivity. Qed.
Lemma zone_roundtrip_refuted_nested_tagged :
  exists content,
    zone_ok bt3 content = false /\
    pipeline id_oracle (zone_doc (lit "DOC") (lit "KEY") content None bt3) = PRLexErr (lit "E007") 4 1.
Proof. exists (lit "```python"). split; vm_compute; reflexivity. Qed.

Theorem zone_roundtrip_full_refuted : ~ zone_roundtrip_full.
Proof.
  intros H.
  specialize (H cls0 nc0 ho0 false id_oracle (lit "DOC") (lit "KEY") early_close_content None bt3
                eq_refl eq_refl eq_refl eq_refl (id_oracle_ok _ _ _ _)).
  vm_compute in H. discriminate H.
Qed.

(* tag_ok is needed too: an empty tag is read back as no tag, a padded tag is stripped, a tag with a backtick is no fence *)
Lemma tag_ok_refuted_empty :
  tag_ok cls0 (Some []) = false /\
  pipeline id_oracle (zone_doc (lit "DOC") (lit "KEY") (lit "x") (Some []) bt3) =
  PRDoc (zone_doc (lit "DOC") (lit "KEY") (lit "x") None bt3) [] [].
Proof. split; vm_compute; reflexivity. Qed.
Lemma tag_ok_refuted_padded :
  tag_ok cls0 (Some (lit " py")) = false /\
  pipeline id_oracle (zone_doc (lit "DOC") (lit "KEY") (lit "x") (Some (lit " py")) bt3) =
  PRDoc (zone_doc (lit "DOC") (lit "KEY") (lit "x") (Some (lit "py")) bt3) [] [].
Proof. split; vm_compute; reflexivity. Qed.
Lemma tag_ok_refuted_backtick :
  tag_ok cls0 (Some (lit "p`y")) = false /\
  pipeline id_oracle (zone_doc (lit "DOC") (lit "KEY") (lit "x") (Some (lit "p`y")) bt3) = PRLexErr (lit "E006") 5 1.
Proof. split; vm_compute; reflexivity. Qed.
(* and the marker shape: two backticks are no fence *)
Lemma marker_ok_refuted_short :
  marker_ok [96; 96] = false /\
  pipeline id_oracle (zone_doc (lit "DOC") (lit "KEY") (lit "x") None [96; 96]) = PRLexErr (lit "E005") 3 1.
Proof. split; vm_compute; reflexivity. Qed.
(* key_ok / name_ok only delimit the document shape of the theorem: META is the metadata block, vs an operator *)
Lemma key_ok_refuted_meta :
  key_ok (lit "META") = false /\
  pipeline id_oracle (zone_doc (lit "DOC") (lit "META") (lit "x") None bt3) = PRParseErr (lit "E001") 2 5.
Proof. split; vm_compute; reflexivity. Qed.

(* ---- the empty zone ---------------------------------------------------------------------------------------- *)
(* general: an empty zone round-trips to an empty ZONE (zone_ok marker [] is just marker_ok marker) *)
Theorem empty_zone_roundtrip cls numcanon holo strict nfcf name key tag marker :
  name_ok name = true -> key_ok key = true -> marker_ok marker = true -> tag_ok cls tag = true ->
  (forall l, In l (fixed_lines name key tag marker) -> nfcf l = l) ->
  parse_model cls numcanon holo strict (lines_of_raw_nfc nfcf (emit (u_space cls) (zone_doc name key [] tag marker))) =
  PRDoc (zone_doc name key [] tag marker) (lex_reps key) [].
Proof.
  intros Hn Hk Hm Ht Hnfc. apply zone_roundtrip; try assumption.
  unfold zone_ok. rewrite Hm. reflexivity.
Qed.

(* ... and that document is neither the one with an absent value nor the one with an empty string *)
Theorem empty_zone_distinct cls numcanon holo strict nfcf name key tag marker :
  name_ok name = true -> key_ok key = true -> marker_ok marker = true -> tag_ok cls tag = true ->
  (forall l, In l (fixed_lines name key tag marker) -> nfcf l = l) ->
  forall v, v = VAbsent \/ v = VStr [] ->
    exists d reps warns,
      parse_model cls numcanon holo strict (lines_of_raw_nfc nfcf (emit (u_space cls) (zone_doc name key [] tag marker))) =
      PRDoc d reps warns /\
      dsections d = [NAssign key (VZone [] tag marker) [] None] /\
      dsections d <> [NAssign key v [] None].
Proof.
  intros Hn Hk Hm Ht Hnfc v Hv.
  exists (zone_doc name key [] tag marker), (lex_reps key), [].
  split; [apply empty_zone_roundtrip; assumption|]. split; [reflexivity|].
  cbn [zone_doc dsections]. destruct Hv as [-> | ->]; discriminate.
Qed.

(* the three documents on a concrete example: three different texts, three different read-backs *)
Definition doc_with (v : value) : doc := mkDoc (lit "DOC") None None false [] [NAssign (lit "KEY") v [] None] [].
Example empty_zone_text :
  emit (u_space cls0) (doc_with (VZone [] None bt3)) = lit "===DOC===" ++ [c_nl] ++ lit "KEY::" ++ [c_nl] ++ bt3 ++ [c_nl] ++ bt3 ++ [c_nl] ++ lit "===END===" ++ [c_nl].
Proof. vm_compute. reflexivity. Qed.
Example empty_string_text :
  emit (u_space cls0) (doc_with (VStr [])) = lit "===DOC===" ++ [c_nl] ++ lit "KEY::""""" ++ [c_nl] ++ lit "===END===" ++ [c_nl].
Proof. vm_compute. reflexivity. Qed.
Example absent_text :
  emit (u_space cls0) (doc_with VAbsent) = lit "===DOC===" ++ [c_nl] ++ lit "===END===" ++ [c_nl].
Proof. vm_compute. reflexivity. Qed.
Example empty_zone_example :
  pipeline id_oracle (doc_with (VZone [] None bt3)) = PRDoc (doc_with (VZone [] None bt3)) [] [] /\
  pipeline id_oracle (doc_with (VStr [])) = PRDoc (doc_with (VStr [])) [] [] /\
  pipeline id_oracle (doc_with VAbsent) = PRDoc (mkDoc (lit "DOC") None None false [] [] []) [] [].
Proof. repeat split; vm_compute; reflexivity. Qed.
(* the lexer emits a LITERAL_CONTENT token with EMPTY text for an empty zone *)
Example empty_zone_tokens :
  exists reps, tokenize cls0 false (lines_of_raw_nfc id_oracle (lit "```" ++ [c_nl] ++ lit "```")) =
  LexOk [mkTok FENCE_OPEN (TVFence bt3 None) 1 1 None; mkTok LITERAL_CONTENT (TVText []) 2 1 None;
         mkTok FENCE_CLOSE (TVText bt3) 2 1 None; mkTok EOF TVNone 3 1 None] reps.
Proof. eexists. vm_compute. reflexivity. Qed.
(* one empty LINE between the fences is the same (empty) content: the emitter writes it back without the line *)
Example one_empty_line_zone :
  pipeline id_oracle (doc_with (VZone [] None bt3)) = PRDoc (doc_with (VZone [] None bt3)) [] [] /\
  parse_model cls0 nc0 ho0 false (lines_of_raw_nfc id_oracle
     (lit "===DOC===" ++ [c_nl] ++ lit "KEY::" ++ [c_nl] ++ bt3 ++ [c_nl] ++ [c_nl] ++ bt3 ++ [c_nl] ++ lit "===END===" ++ [c_nl])) =
  PRDoc (doc_with (VZone [] None bt3)) [] [].
Proof. split; vm_compute; reflexivity. Qed.
